import SpecVerif.Proofs.HeapReach
/-!
# Provenance logic for the heap model (helper lemmas of C02 / C08)

`PS h₀ A m Q` strengthens the frame judgement `Safe` with a *state* invariant
(`HInv`): relative to the heap `h₀` the public operation started from,

* the nodes of `h₀` are unchanged (`frame`),
* every node allocated since refers only to scalars, to objects allocated
  since, or to old objects in the explicitly allowed set `A` (`prov`).

`World X h₀ A T` collects the closure conditions on the allowed set `A` and on
the set `T` of old objects a copy may *traverse*: children of allowed objects
are allowed, children of traversable objects are traversable, and the value of
a `do_not_copy` attribute of a traversable instance is allowed.

Contents, in order:
1. `Good`, `HInv`, `World`, `PS` and its rules; `copyRef_ps` / `deepcopy_ps`;
2. `DncShared`, `world_reach` (the world of one `deepcopy`);
3. inversion lemmas for successful runs (`bind_ok_inv`, `alloc_run`, ...),
   `copyFields_run`, `deepcopy_inst_run` (`dnc_by_identity`);
4. `mutateValue = mutateValue0` without keyword attributes, `installDefault`,
   `delAttr_eq_install`, `setAttr_eq_install` (`reset_eq_fresh_partial`);
5. value tracking `FN` (new and not MISSING), `delAttr_run_fresh`,
   `resetAttr_run_fresh` (`reset_is_fresh`);
6. one `_ps` lemma per model function run by the constructor and by the
   helpers not called in place, `runOp_ps` (`result_disjoint`, `init_disjoint`);
7. the per-field judgement `SF` and `construct_fields` (`init_fresh`).
-/
set_option linter.unusedSectionVars false
set_option linter.unusedVariables false
namespace SpecVerif.Heap
open SpecVerif.Py

/-- A reference a new object may hold: a scalar, an object allocated after the
boundary, or an allowed old object. -/
def Good (n₀ : Nat) (A : Nat → Prop) : Ref → Prop
  | .sc _ => True
  | .obj j => n₀ ≤ j ∨ A j

theorem good_sc {n₀ A} (s : Sc) : Good n₀ A (.sc s) := trivial
theorem good_fresh {n₀ A} {j : Nat} (h : n₀ ≤ j) : Good n₀ A (.obj j) := Or.inl h
theorem good_allowed {n₀ A} {j : Nat} (h : A j) : Good n₀ A (.obj j) := Or.inr h

theorem Good.mono {n₀} {A B : Nat → Prop} (hAB : ∀ i, A i → B i) {r : Ref} (h : Good n₀ A r) :
    Good n₀ B r := by
  cases r with
  | sc s => trivial
  | obj j => exact h.imp id (hAB j)

theorem FreshRef.good {n₀ A} {r : Ref} (h : FreshRef n₀ r) : Good n₀ A r := by
  cases r with
  | sc s => trivial
  | obj j => exact Or.inl (h j rfl)

theorem good_false_fresh {n₀} {r : Ref} (h : Good n₀ (fun _ => False) r) : FreshRef n₀ r := by
  intro j hj
  subst hj
  rcases h with h | h
  · exact h
  · exact h.elim

/-- The state invariant, as a predicate on the heap. -/
structure HInv (h₀ : Heap) (A : Nat → Prop) (h : Heap) : Prop where
  le : h₀.length ≤ h.length
  frame : ∀ i, i < h₀.length → h[i]? = h₀[i]?
  prov : ∀ (i : Nat) (n : Node), h₀.length ≤ i → h[i]? = some n →
    ∀ r, r ∈ n.children → Good h₀.length A r

theorem HInv.start (h₀ : Heap) (A : Nat → Prop) : HInv h₀ A h₀ := by
  refine ⟨Nat.le_refl _, fun _ _ => rfl, ?_⟩
  intro i n hi hn
  have : h₀[i]? = none := List.getElem?_eq_none hi
  rw [this] at hn; cases hn

theorem HInv.append {h₀ A} {h : Heap} (hi : HInv h₀ A h) (n : Node)
    (hn : ∀ r, r ∈ n.children → Good h₀.length A r) : HInv h₀ A (h ++ [n]) := by
  refine ⟨?_, ?_, ?_⟩
  · rw [List.length_append]; have := hi.le; omega
  · intro i hlt
    rw [List.getElem?_append_left (Nat.lt_of_lt_of_le hlt hi.le)]
    exact hi.frame i hlt
  · intro i n' hge hn' r hr
    by_cases hlt : i < h.length
    · rw [List.getElem?_append_left hlt] at hn'
      exact hi.prov i n' hge hn' r hr
    · rw [List.getElem?_append_right (by omega)] at hn'
      by_cases h0 : i - h.length = 0
      · rw [h0] at hn'
        simp at hn'
        subst hn'
        exact hn r hr
      · have : ([n] : List Node)[i - h.length]? = none :=
          List.getElem?_eq_none (by simp; omega)
        rw [this] at hn'; cases hn'

theorem HInv.set {h₀ A} {h : Heap} (hi : HInv h₀ A h) {j : Nat} (hj : h₀.length ≤ j) (n : Node)
    (hn : ∀ r, r ∈ n.children → Good h₀.length A r) : HInv h₀ A (h.set j n) := by
  refine ⟨?_, ?_, ?_⟩
  · rw [List.length_set]; exact hi.le
  · intro i hlt
    rw [List.getElem?_set_ne (by omega)]
    exact hi.frame i hlt
  · intro i n' hge hn' r hr
    by_cases hij : j = i
    · subst hij
      by_cases hlt : j < h.length
      · rw [List.getElem?_set_self hlt] at hn'
        cases hn'
        exact hn r hr
      · have : (h.set j n)[j]? = none := List.getElem?_eq_none (by rw [List.length_set]; omega)
        rw [this] at hn'; cases hn'
    · rw [List.getElem?_set_ne hij] at hn'
      exact hi.prov i n' hge hn' r hr

/-- Closure conditions on the allowed set `A` and the traversable set `T`. -/
structure World (X : Ctx) (h₀ : Heap) (A T : Nat → Prop) : Prop where
  sub : ∀ i, A i → T i
  aclosed : ∀ (i : Nat) (n : Node), A i → h₀[i]? = some n →
    ∀ r, r ∈ n.children → Good h₀.length A r
  tclosed : ∀ (i : Nat) (n : Node), T i → h₀[i]? = some n →
    ∀ r, r ∈ n.children → Good h₀.length T r
  dnc : ∀ (i c : Nat) (t : Bool) (fs : List (Nat × Ref)) (a : Nat) (d : AttrDecl) (v : Ref),
    T i → h₀[i]? = some (.inst c t fs) → (X.cd c).attr? a = some d → d.dnc = true →
    (a, v) ∈ fs → Good h₀.length A v

theorem World.with_make {X : Ctx} {h₀ A T} (hW : World X h₀ A T)
    (mk : Nat → List (Nat × Ref) → M Ref) : World { X with make := mk } h₀ A T :=
  ⟨hW.sub, hW.aclosed, hW.tclosed, hW.dnc⟩

/-- What is known about the node read at `i` in a state satisfying the invariant. -/
def NodeAt (h₀ : Heap) (A : Nat → Prop) (i : Nat) (n : Node) : Prop :=
  (i < h₀.length → h₀[i]? = some n) ∧
  (h₀.length ≤ i → ∀ r, r ∈ n.children → Good h₀.length A r)

theorem HInv.nodeAt {h₀ A} {h : Heap} (hi : HInv h₀ A h) {i : Nat} {n : Node}
    (hn : h[i]? = some n) : NodeAt h₀ A i n :=
  ⟨fun hlt => by rw [← hi.frame i hlt]; exact hn, fun hge => hi.prov i n hge hn⟩

/-- The node of a good object has good children. -/
theorem NodeAt.good {X h₀ A T} (hW : World X h₀ A T) {i : Nat} {n : Node}
    (hn : NodeAt h₀ A i n) (hg : Good h₀.length A (.obj i)) :
    ∀ r, r ∈ n.children → Good h₀.length A r := by
  by_cases hlt : i < h₀.length
  · rcases hg with hg | hg
    · omega
    · exact hW.aclosed i n hg (hn.1 hlt)
  · exact hn.2 (by omega)

/-- The node of a traversable object has traversable children. -/
theorem NodeAt.goodT {X h₀ A T} (hW : World X h₀ A T) {i : Nat} {n : Node}
    (hn : NodeAt h₀ A i n) (hg : Good h₀.length T (.obj i)) :
    ∀ r, r ∈ n.children → Good h₀.length T r := by
  by_cases hlt : i < h₀.length
  · rcases hg with hg | hg
    · omega
    · exact hW.tclosed i n hg (hn.1 hlt)
  · exact fun r hr => (hn.2 (by omega) r hr).mono hW.sub

/-- From a good reference, every reachable object is new or allowed. -/
theorem reach_good {X h₀ A T} (hW : World X h₀ A T) {h : Heap} (hi : HInv h₀ A h) {r : Ref}
    {j : Nat} (hr : Reach h r j) (hg : Good h₀.length A r) : h₀.length ≤ j ∨ A j := by
  induction hr with
  | self k => exact hg
  | @step k n r' j hn hc _ ih => exact ih ((hi.nodeAt hn).good hW hg r' hc)

/-! ## The judgement -/

def PS {α : Type} (h₀ : Heap) (A : Nat → Prop) (m : M α) (Q : α → Prop) : Prop :=
  ∀ s : MS, HInv h₀ A s.heap → HInv h₀ A (m s).2.heap ∧ ∀ a, (m s).1 = .ok a → Q a

variable {α β : Type} {h₀ : Heap} {A : Nat → Prop}

theorem PS.pure {a : α} {Q : α → Prop} (h : Q a) : PS h₀ A (pure a : M α) Q := by
  intro s hs
  exact ⟨hs, fun b hb => by cases hb; exact h⟩

theorem PS.throwE {Q : α → Prop} (e : Exn) : PS h₀ A (throwE e : M α) Q := by
  intro s hs
  exact ⟨hs, fun b hb => by cases hb⟩

theorem PS.throwPy {Q : α → Prop} (e : Err) : PS h₀ A (throwPy e : M α) Q := PS.throwE _

theorem PS.bind {m : M α} {f : α → M β} {Q : α → Prop} {R : β → Prop}
    (hm : PS h₀ A m Q) (hf : ∀ a, Q a → PS h₀ A (f a) R) : PS h₀ A (m >>= f) R := by
  intro s hs
  obtain ⟨hp, hq⟩ := hm s hs
  rw [run_bind]
  match hms : m s with
  | (.ok a, s') =>
    rw [hms] at hp hq
    simp only
    exact hf a (hq a rfl) s' hp
  | (.error e, s') =>
    rw [hms] at hp
    simp only
    exact ⟨hp, fun b hb => by cases hb⟩

theorem PS.mono {m : M α} {Q Q' : α → Prop} (h : PS h₀ A m Q) (hQ : ∀ a, Q a → Q' a) :
    PS h₀ A m Q' := by
  intro s hs
  obtain ⟨hp, hq⟩ := h s hs
  exact ⟨hp, fun a ha => hQ a (hq a ha)⟩

theorem PS.true {m : M α} {Q : α → Prop} (h : PS h₀ A m Q) : PS h₀ A m (fun _ => True) :=
  h.mono (fun _ _ => trivial)

theorem PS.and {m : M α} {Q Q' : α → Prop} (h : PS h₀ A m Q) (h' : PS h₀ A m Q') :
    PS h₀ A m (fun a => Q a ∧ Q' a) := by
  intro s hs
  obtain ⟨hp, hq⟩ := h s hs
  obtain ⟨_, hq'⟩ := h' s hs
  exact ⟨hp, fun a ha => ⟨hq a ha, hq' a ha⟩⟩

theorem PS.seq {m : M α} {k : M β} {Q : α → Prop} {R : β → Prop}
    (hm : PS h₀ A m Q) (hk : PS h₀ A k R) : PS h₀ A (m >>= fun _ => k) R :=
  hm.bind (fun _ _ => hk)

theorem PS.ite {c : Prop} [Decidable c] {m₁ m₂ : M α} {Q : α → Prop}
    (h₁ : c → PS h₀ A m₁ Q) (h₂ : ¬ c → PS h₀ A m₂ Q) :
    PS h₀ A (if c then m₁ else m₂) Q := by
  split
  · exact h₁ ‹_›
  · exact h₂ ‹_›

/-! ## Primitives -/

theorem PS.getHeap : PS h₀ A getHeap (HInv h₀ A) := by
  intro s hs; exact ⟨hs, fun a ha => by cases ha; exact hs⟩

theorem PS.getNode (i : Nat) : PS h₀ A (getNode i) (NodeAt h₀ A i) := by
  intro s hs
  unfold SpecVerif.Heap.getNode
  split
  · rename_i n hn
    exact ⟨hs, fun a ha => by cases ha; exact hs.nodeAt hn⟩
  · exact ⟨hs, fun a ha => by cases ha⟩

theorem PS.tick : PS h₀ A tick (fun _ => True) := by
  intro s hs
  unfold SpecVerif.Heap.tick
  split
  · exact ⟨hs, fun _ _ => trivial⟩
  · exact ⟨hs, fun _ _ => trivial⟩
  · exact ⟨hs, fun _ _ => trivial⟩

theorem PS.allocRaw (n : Node) (hn : ∀ r, r ∈ n.children → Good h₀.length A r) :
    PS h₀ A (allocRaw n) (fun j => h₀.length ≤ j) := by
  intro s hs
  refine ⟨hs.append n hn, ?_⟩
  intro a ha
  simp [SpecVerif.Heap.allocRaw] at ha
  have := hs.le
  omega

theorem PS.writeRaw {i : Nat} (n : Node) (hi : h₀.length ≤ i)
    (hn : ∀ r, r ∈ n.children → Good h₀.length A r) :
    PS h₀ A (writeRaw i n) (fun _ => True) := by
  intro s hs
  exact ⟨hs.set hi n hn, fun _ _ => trivial⟩

/-- Allocation of a node whose children are good. -/
theorem PS.alloc (n : Node) (hn : ∀ r, r ∈ n.children → Good h₀.length A r) :
    PS h₀ A (alloc n) (fun j => h₀.length ≤ j) := by
  unfold SpecVerif.Heap.alloc
  exact PS.tick.bind (fun _ _ => PS.allocRaw n hn)

/-- A write to a new object, storing good children. -/
theorem PS.write {i : Nat} (n : Node) (hi : h₀.length ≤ i)
    (hn : ∀ r, r ∈ n.children → Good h₀.length A r) :
    PS h₀ A (write i n) (fun _ => True) := by
  unfold SpecVerif.Heap.write
  exact PS.tick.bind (fun _ _ => PS.writeRaw n hi hn)

theorem PS.callCb (k : CbKind) : PS h₀ A (callCb k) (fun _ => True) := by
  intro s hs
  unfold SpecVerif.Heap.callCb
  simp only
  split <;> exact ⟨hs, fun _ _ => trivial⟩

theorem PS.tryFinally {m : M α} {fin : M Unit} {Q : α → Prop} {R : Unit → Prop}
    (hm : PS h₀ A m Q) (hf : PS h₀ A fin R) : PS h₀ A (tryFinally m fin) Q := by
  intro s hs
  obtain ⟨hp, hq⟩ := hm s hs
  unfold SpecVerif.Heap.tryFinally
  match hms : m s with
  | (.ok a, s') =>
    rw [hms] at hp hq
    obtain ⟨hp', _⟩ := hf s' hp
    simp only
    match hfs : fin s' with
    | (.ok _, s'') =>
      rw [hfs] at hp'
      exact ⟨hp', fun b hb => by cases hb; exact hq a rfl⟩
    | (.error e, s'') =>
      rw [hfs] at hp'
      exact ⟨hp', fun b hb => by cases hb⟩
  | (.error e, s') =>
    rw [hms] at hp
    obtain ⟨hp', _⟩ := hf s' hp
    simp only
    match hfs : fin s' with
    | (.ok _, s'') =>
      rw [hfs] at hp'
      exact ⟨hp', fun b hb => by cases hb⟩
    | (.error e', s'') =>
      rw [hfs] at hp'
      exact ⟨hp', fun b hb => by cases hb⟩

theorem PS.tryCatch {m h : M α} {sel : Exn → Bool} {Q : α → Prop}
    (hm : PS h₀ A m Q) (hh : PS h₀ A h Q) : PS h₀ A (tryCatch m sel h) Q := by
  intro s hs
  obtain ⟨hp, hq⟩ := hm s hs
  unfold SpecVerif.Heap.tryCatch
  match hms : m s with
  | (.ok a, s') =>
    rw [hms] at hp hq
    exact ⟨hp, hq⟩
  | (.error e, s') =>
    rw [hms] at hp
    simp only
    split
    · exact hh s' hp
    · exact ⟨hp, fun b hb => by cases hb⟩

theorem PS.onError {m : M α} {h : M Unit} {Q : α → Prop} {R : Unit → Prop}
    (hm : PS h₀ A m Q) (hh : PS h₀ A h R) : PS h₀ A (onError m h) Q := by
  intro s hs
  obtain ⟨hp, hq⟩ := hm s hs
  unfold SpecVerif.Heap.onError
  match hms : m s with
  | (.ok a, s') =>
    rw [hms] at hp hq
    exact ⟨hp, hq⟩
  | (.error e, s') =>
    rw [hms] at hp
    obtain ⟨hp', _⟩ := hh s' hp
    simp only
    match hhs : h s' with
    | (.ok _, s'') =>
      rw [hhs] at hp'
      exact ⟨hp', fun b hb => by cases hb⟩
    | (.error e', s'') =>
      rw [hhs] at hp'
      exact ⟨hp', fun b hb => by cases hb⟩

theorem guardM_ps (c : Bool) (e : Err) : PS h₀ A (guardM c e) (fun _ => True) := by
  unfold guardM
  exact PS.ite (fun _ => PS.throwPy _) (fun _ => PS.pure trivial)

/-! ## deepcopy -/

/-- What `copyRef` guarantees about (copy, memo). -/
def CopyGood (h₀ : Heap) (A : Nat → Prop) (p : Ref × Memo) : Prop :=
  Good h₀.length A p.1 ∧ MemoFresh h₀.length p.2

/-- `do_not_copy` flag of attribute `a` as looked up by `DeepCopyMethod.deepcopy`. -/
def dncOf (cd : ClassDecl) (a : Nat) : Bool :=
  match cd.attr? a with
  | some d => d.dnc
  | none => false

variable {T : Nat → Prop}

theorem copyList_ps (f : Ref → Memo → M (Ref × Memo))
    (hf : ∀ r m, Good h₀.length T r → MemoFresh h₀.length m → PS h₀ A (f r m) (CopyPost h₀.length)) :
    ∀ rs m, (∀ r, r ∈ rs → Good h₀.length T r) → MemoFresh h₀.length m →
      PS h₀ A (copyList f rs m)
        (fun p => (∀ r, r ∈ p.1 → Good h₀.length A r) ∧ MemoFresh h₀.length p.2) := by
  intro rs
  induction rs with
  | nil => intro m _ hm; exact PS.pure ⟨fun r hr => (by cases hr), hm⟩
  | cons r rs ih =>
    intro m hrs hm
    unfold copyList
    refine (hf r m (hrs r List.mem_cons_self) hm).bind (fun p hp => ?_)
    obtain ⟨r', m1⟩ := p
    refine (ih m1 (fun x hx => hrs x (List.mem_cons_of_mem _ hx)) hp.2).bind (fun q hq => ?_)
    obtain ⟨rs', m2⟩ := q
    refine PS.pure ⟨?_, hq.2⟩
    intro x hx
    rcases List.mem_cons.1 hx with h | h
    · rw [h]; exact hp.1.good
    · exact hq.1 x h

theorem copyKVs_ps (f : Ref → Memo → M (Ref × Memo))
    (hf : ∀ r m, Good h₀.length T r → MemoFresh h₀.length m → PS h₀ A (f r m) (CopyPost h₀.length)) :
    ∀ rs m, (∀ kv, kv ∈ rs → Good h₀.length T kv.2) → MemoFresh h₀.length m →
      PS h₀ A (copyKVs f rs m)
        (fun p => (∀ kv, kv ∈ p.1 → Good h₀.length A kv.2) ∧ MemoFresh h₀.length p.2) := by
  intro rs
  induction rs with
  | nil => intro m _ hm; exact PS.pure ⟨fun r hr => (by cases hr), hm⟩
  | cons kr rs ih =>
    intro m hrs hm
    obtain ⟨k, r⟩ := kr
    unfold copyKVs
    refine (hf r m (hrs (k, r) List.mem_cons_self) hm).bind (fun p hp => ?_)
    obtain ⟨r', m1⟩ := p
    refine (ih m1 (fun x hx => hrs x (List.mem_cons_of_mem _ hx)) hp.2).bind (fun q hq => ?_)
    obtain ⟨rs', m2⟩ := q
    refine PS.pure ⟨?_, hq.2⟩
    intro x hx
    rcases List.mem_cons.1 hx with h | h
    · rw [h]; exact hp.1.good
    · exact hq.1 x h

theorem children_inst_good {n₀ A} {c : Nat} {t : Bool} {fs : List (Nat × Ref)}
    (h : ∀ av, av ∈ fs → Good n₀ A av.2) :
    ∀ r, r ∈ (Node.inst c t fs).children → Good n₀ A r := by
  intro r hr
  simp only [Node.children, List.mem_map] at hr
  obtain ⟨av, hav, rfl⟩ := hr
  exact h av hav

theorem children_dict_good {n₀ A} {kvs : List (Sc × Ref)}
    (h : ∀ kv, kv ∈ kvs → Good n₀ A kv.2) :
    ∀ r, r ∈ (Node.dict kvs).children → Good n₀ A r := by
  intro r hr
  simp only [Node.children, List.mem_map] at hr
  obtain ⟨kv, hkv, rfl⟩ := hr
  exact h kv hkv

theorem good_of_children_inst {n₀ A} {c : Nat} {t : Bool} {fs : List (Nat × Ref)}
    (h : ∀ r, r ∈ (Node.inst c t fs).children → Good n₀ A r) :
    ∀ av, av ∈ fs → Good n₀ A av.2 := by
  intro av hav
  exact h av.2 (by simp only [Node.children]; exact List.mem_map_of_mem hav)

theorem good_of_children_dict {n₀ A} {kvs : List (Sc × Ref)}
    (h : ∀ r, r ∈ (Node.dict kvs).children → Good n₀ A r) :
    ∀ kv, kv ∈ kvs → Good n₀ A kv.2 := by
  intro kv hkv
  exact h kv.2 (by simp only [Node.children]; exact List.mem_map_of_mem hkv)

theorem copyFields_ps (f : Ref → Memo → M (Ref × Memo))
    (hf : ∀ r m, Good h₀.length T r → MemoFresh h₀.length m → PS h₀ A (f r m) (CopyPost h₀.length))
    (cd : ClassDecl) (j c : Nat) (thaw : Bool) (hj : h₀.length ≤ j) :
    ∀ fs acc m, (∀ av, av ∈ fs → Good h₀.length T av.2) →
      (∀ av, av ∈ fs → dncOf cd av.1 = true → Good h₀.length A av.2) →
      (∀ av, av ∈ acc → Good h₀.length A av.2) → MemoFresh h₀.length m →
      PS h₀ A (copyFields f cd j c thaw acc fs m) (MemoFresh h₀.length) := by
  intro fs
  induction fs with
  | nil => intro acc m _ _ _ hm; exact PS.pure hm
  | cons av fs ih =>
    intro acc m hT hD hacc hm
    obtain ⟨a, v⟩ := av
    unfold copyFields
    simp only
    have hstep : PS h₀ A
        (if (match cd.attr? a with | some d => d.dnc | none => false) = true
          then (pure (v, m) : M (Ref × Memo)) else f v m)
        (CopyGood h₀ A) :=
      PS.ite (fun hd => PS.pure ⟨hD (a, v) List.mem_cons_self hd, hm⟩)
        (fun _ => (hf v m (hT (a, v) List.mem_cons_self) hm).mono (fun p hp => ⟨hp.1.good, hp.2⟩))
    refine hstep.bind (fun p hp => ?_)
    have hacc' : ∀ av, av ∈ acc ++ [(a, p.1)] → Good h₀.length A av.2 := by
      intro av hav
      rcases List.mem_append.1 hav with h | h
      · exact hacc av h
      · simp at h; rw [h]; exact hp.1
    refine (PS.write _ hj (children_inst_good hacc')).bind (fun _ _ => ?_)
    exact ih _ _ (fun x hx => hT x (List.mem_cons_of_mem _ hx))
      (fun x hx => hD x (List.mem_cons_of_mem _ hx)) hacc' hp.2

/-- `copy.deepcopy(r, memo)` of a traversable value: every node it allocates
refers to scalars, new objects or allowed old objects, and so does the result. -/
theorem copyRef_ps (X : Ctx) (hX : NoClassDnc X) (hW : World X h₀ A T) :
    ∀ fuel r m, Good h₀.length T r → MemoFresh h₀.length m →
      PS h₀ A (copyRef X fuel r m) (CopyPost h₀.length) := by
  intro fuel
  induction fuel with
  | zero =>
    intro r m hr hm
    cases r with
    | sc s => unfold copyRef; exact PS.pure ⟨freshRef_sc s, hm⟩
    | obj i => unfold copyRef; exact PS.throwPy _
  | succ fuel ih =>
    intro r m hr hm
    cases r with
    | sc s => unfold copyRef; exact PS.pure ⟨freshRef_sc s, hm⟩
    | obj i =>
      unfold copyRef
      split
      · rename_i j hj
        exact PS.pure ⟨freshRef_obj (hm i j hj), hm⟩
      · refine (PS.getNode i).bind (fun node hnode => ?_)
        have hch := hnode.goodT hW hr
        cases node with
        | list xs =>
          refine (copyList_ps _ ih xs m hch hm).bind (fun p hp => ?_)
          obtain ⟨ys, m1⟩ := p
          exact (PS.alloc (.list ys) hp.1).bind (fun j hj =>
            PS.pure ⟨freshRef_obj hj, MemoFresh.cons hp.2 i hj⟩)
        | dict kvs =>
          refine (copyKVs_ps _ ih kvs m (good_of_children_dict hch) hm).bind (fun p hp => ?_)
          obtain ⟨ys, m1⟩ := p
          exact (PS.alloc _ (children_dict_good hp.1)).bind (fun j hj =>
            PS.pure ⟨freshRef_obj hj, MemoFresh.cons hp.2 i hj⟩)
        | set xs =>
          exact (PS.alloc _ (fun r hr => by cases hr)).bind (fun j hj =>
            PS.pure ⟨freshRef_obj hj, MemoFresh.cons hm i hj⟩)
        | inst c thaw fs =>
          simp only [hX c]
          refine (PS.alloc _ (fun r hr => by cases hr)).bind (fun j hj => ?_)
          have hD : ∀ av, av ∈ fs → dncOf (X.cd c) av.1 = true → Good h₀.length A av.2 := by
            intro av hav hd
            by_cases hlt : i < h₀.length
            · rcases hr with hr | hr
              · omega
              · unfold dncOf at hd
                split at hd
                · rename_i d hd'
                  exact hW.dnc i c thaw fs av.1 d av.2 hr (hnode.1 hlt) hd' hd hav
                · cases hd
            · exact good_of_children_inst (hnode.2 (by omega)) av hav
          refine (copyFields_ps _ ih (X.cd c) j c false hj fs [] m (good_of_children_inst hch) hD
            (fun av hav => by cases hav) hm).bind (fun m1 hm1 => ?_)
          have hpc : PS h₀ A (if (X.cd c).postCopy = true then callCb .postCopy else pure ())
              (fun _ => True) :=
            PS.ite (fun _ => PS.callCb _) (fun _ => PS.pure trivial)
          exact hpc.bind (fun _ _ => PS.pure ⟨freshRef_obj hj, MemoFresh.cons hm1 i hj⟩)

theorem deepcopy_ps (X : Ctx) (hX : NoClassDnc X) (hW : World X h₀ A T) (r : Ref)
    (hr : Good h₀.length T r) : PS h₀ A (deepcopy X r) (FreshRef h₀.length) := by
  unfold deepcopy
  refine PS.getHeap.bind (fun h _ => ?_)
  refine (copyRef_ps X hX hW _ r [] hr memoFresh_nil).bind (fun p hp => ?_)
  obtain ⟨r', m⟩ := p
  exact PS.pure hp.1

theorem protect_ps (X : Ctx) (hX : NoClassDnc X) (hW : World X h₀ A T) (r : Ref)
    (hr : Good h₀.length T r) : PS h₀ A (protect X r) (FreshRef h₀.length) := by
  unfold protect
  cases r with
  | sc s => exact PS.pure (freshRef_sc s)
  | obj i => exact deepcopy_ps X hX hW _ hr

/-! ## Sharing through `do_not_copy` attributes -/

/-- No attribute of the table is declared `do_not_copy=True`. -/
def NoAttrDnc (X : Ctx) : Prop := ∀ c d, d ∈ (X.cd c).attrs → d.dnc = false

theorem NoAttrDnc.attr? {X : Ctx} (hN : NoAttrDnc X) (c a : Nat) (d : AttrDecl)
    (h : (X.cd c).attr? a = some d) : d.dnc = false :=
  hN c d (List.mem_of_find?_eq_some h)

/-- `j` is reachable (in `h`) from the value of a `do_not_copy` attribute of an
instance reachable from `r`: the only old objects a deep copy of `r` may share. -/
def DncShared (X : Ctx) (h : Heap) (r : Ref) (j : Nat) : Prop :=
  ∃ (i c : Nat) (t : Bool) (fs : List (Nat × Ref)) (a : Nat) (d : AttrDecl) (v : Ref),
    Reach h r i ∧ h[i]? = some (.inst c t fs) ∧ (X.cd c).attr? a = some d ∧ d.dnc = true ∧
    (a, v) ∈ fs ∧ Reach h v j

theorem not_dncShared_of_noAttrDnc {X : Ctx} (hN : NoAttrDnc X) {h : Heap} {r : Ref} {j : Nat} :
    ¬ DncShared X h r j := by
  rintro ⟨i, c, t, fs, a, d, v, _, _, hd, hdnc, _, _⟩
  rw [hN.attr? c a d hd] at hdnc
  cases hdnc

theorem children_obj_reach {h : Heap} {i k : Nat} {n : Node} (hn : h[i]? = some n)
    (hk : Ref.obj k ∈ n.children) : Reach h (.obj i) k :=
  Reach.step hn hk (Reach.self k)

/-- The world of `deepcopy(r)`: it traverses what `r` reaches and may share what
is reachable through `do_not_copy` attributes. -/
theorem world_reach (X : Ctx) (h : Heap) (r : Ref) :
    World X h (DncShared X h r) (fun i => Reach h r i) := by
  refine ⟨?_, ?_, ?_, ?_⟩
  · rintro j ⟨i, c, t, fs, a, d, v, hri, hi, _, _, hav, hvj⟩
    have hv : v ∈ (Node.inst c t fs).children := by
      simp only [Node.children]; exact List.mem_map_of_mem hav
    exact hri.trans (Reach.step hi hv hvj)
  · rintro j n ⟨i, c, t, fs, a, d, v, hri, hi, hd, hdnc, hav, hvj⟩ hn r' hr'
    cases r' with
    | sc s => trivial
    | obj k => exact Or.inr ⟨i, c, t, fs, a, d, v, hri, hi, hd, hdnc, hav, hvj.tail hn hr'⟩
  · intro j n hj hn r' hr'
    cases r' with
    | sc s => trivial
    | obj k => exact Or.inr (Reach.tail hj hn hr')
  · intro i c t fs a d v hi hn hd hdnc hav
    cases v with
    | sc s => trivial
    | obj k => exact Or.inr ⟨i, c, t, fs, a, d, .obj k, hi, hn, hd, hdnc, hav, Reach.self k⟩

/-! ## Running computations: inversion lemmas for successful runs -/

variable {γ : Type}

theorem bind_ok_inv {m : M α} {f : α → M β} {s s' : MS} {b : β}
    (h : (m >>= f) s = (.ok b, s')) : ∃ a s1, m s = (.ok a, s1) ∧ f a s1 = (.ok b, s') := by
  rw [run_bind] at h
  match hms : m s with
  | (.ok a, s1) =>
    rw [hms] at h
    exact ⟨a, s1, rfl, h⟩
  | (.error e, s1) =>
    rw [hms] at h
    cases h

theorem pure_ok_inv {a b : α} {s s' : MS} (h : (pure a : M α) s = (.ok b, s')) : a = b ∧ s = s' := by
  cases h; exact ⟨rfl, rfl⟩

theorem tick_run_prov {s s' : MS} {u : Unit} (h : tick s = (.ok u, s')) : s'.heap = s.heap := by
  unfold tick at h
  split at h
  · cases h; rfl
  · cases h
  · cases h; rfl

theorem alloc_run {n : Node} {s s' : MS} {j : Nat} (h : alloc n s = (.ok j, s')) :
    j = s.heap.length ∧ s'.heap = s.heap ++ [n] := by
  unfold alloc at h
  obtain ⟨u, s1, h1, h2⟩ := bind_ok_inv h
  have ht := tick_run_prov h1
  unfold allocRaw at h2
  cases h2
  exact ⟨by rw [ht], by simp [ht]⟩

theorem write_run_prov {i : Nat} {n : Node} {s s' : MS} {u : Unit} (h : write i n s = (.ok u, s')) :
    s'.heap = s.heap.set i n := by
  unfold write at h
  obtain ⟨u, s1, h1, h2⟩ := bind_ok_inv h
  have ht := tick_run_prov h1
  unfold writeRaw at h2
  cases h2
  simp [ht]

theorem getNode_run {i : Nat} {n : Node} {s s' : MS} (h : getNode i s = (.ok n, s')) :
    s' = s ∧ s.heap[i]? = some n := by
  unfold getNode at h
  split at h
  · rename_i n' hn
    cases h; exact ⟨rfl, hn⟩
  · cases h

theorem callCb_run {k : CbKind} {s s' : MS} {u : Unit} (h : callCb k s = (.ok u, s')) :
    s'.heap = s.heap := by
  unfold callCb at h
  simp only at h
  split at h
  · cases h
  · cases h; rfl

/-- A computation that is `Safe` at the current heap size with nothing writable
keeps every existing node. -/
theorem Safe.frame_run {m : M α} {Q : α → Prop} {s s' : MS} {a : α}
    (hs : Safe s.heap.length (fun _ => False) m Q) (h : m s = (.ok a, s')) :
    s.heap.length ≤ s'.heap.length ∧ (∀ k, k < s.heap.length → s'.heap[k]? = s.heap[k]?) ∧ Q a := by
  obtain ⟨hp, hq⟩ := hs s (Nat.le_refl _)
  rw [h] at hp hq
  exact ⟨hp.mono, fun k hk => hp.frame k hk (fun hf => hf), hq a rfl⟩

/-! ## `copyRef` frame without memo / class conditions -/

section frame
variable {n₀ : Nat} {W : Nat → Prop}

theorem copyList_frame (f : Ref → Memo → M (Ref × Memo))
    (hf : ∀ r m, Safe n₀ W (f r m) (fun _ => True)) :
    ∀ rs m, Safe n₀ W (copyList f rs m) (fun _ => True) := by
  intro rs
  induction rs with
  | nil => intro m; exact Safe.pure trivial
  | cons r rs ih =>
    intro m
    unfold copyList
    refine (hf r m).bind (fun p _ => ?_)
    obtain ⟨r', m1⟩ := p
    refine (ih m1).bind (fun q _ => ?_)
    obtain ⟨rs', m2⟩ := q
    exact Safe.pure trivial

theorem copyKVs_frame (f : Ref → Memo → M (Ref × Memo))
    (hf : ∀ r m, Safe n₀ W (f r m) (fun _ => True)) :
    ∀ rs m, Safe n₀ W (copyKVs f rs m) (fun _ => True) := by
  intro rs
  induction rs with
  | nil => intro m; exact Safe.pure trivial
  | cons kr rs ih =>
    intro m
    obtain ⟨k, r⟩ := kr
    unfold copyKVs
    refine (hf r m).bind (fun p _ => ?_)
    obtain ⟨r', m1⟩ := p
    refine (ih m1).bind (fun q _ => ?_)
    obtain ⟨rs', m2⟩ := q
    exact Safe.pure trivial

theorem copyFields_frame (f : Ref → Memo → M (Ref × Memo))
    (hf : ∀ r m, Safe n₀ W (f r m) (fun _ => True))
    (cd : ClassDecl) (j c : Nat) (thaw : Bool) (hj : n₀ ≤ j) :
    ∀ fs acc m, Safe n₀ W (copyFields f cd j c thaw acc fs m) (fun _ => True) := by
  intro fs
  induction fs with
  | nil => intro acc m; exact Safe.pure trivial
  | cons av fs ih =>
    intro acc m
    obtain ⟨a, v⟩ := av
    unfold copyFields
    simp only
    have hstep : Safe n₀ W
        (if (match cd.attr? a with | some d => d.dnc | none => false) = true
          then (pure (v, m) : M (Ref × Memo)) else f v m)
        (fun _ => True) :=
      Safe.ite (fun _ => Safe.pure trivial) (fun _ => hf v m)
    refine hstep.bind (fun p _ => ?_)
    exact (Safe.write _ (Or.inr hj)).bind (fun _ _ => ih _ _)

/-- `copy.deepcopy(r, memo)` writes only what it allocates (any memo, any table). -/
theorem copyRef_frame (X : Ctx) :
    ∀ fuel r m, Safe n₀ W (copyRef X fuel r m) (fun _ => True) := by
  intro fuel
  induction fuel with
  | zero =>
    intro r m
    cases r with
    | sc s => unfold copyRef; exact Safe.pure trivial
    | obj i => unfold copyRef; exact Safe.throwPy _
  | succ fuel ih =>
    intro r m
    cases r with
    | sc s => unfold copyRef; exact Safe.pure trivial
    | obj i =>
      unfold copyRef
      split
      · exact Safe.pure trivial
      · refine (Safe.getNode i).bind (fun node _ => ?_)
        cases node with
        | list xs =>
          refine (copyList_frame _ ih xs m).bind (fun p _ => ?_)
          obtain ⟨ys, m1⟩ := p
          exact (Safe.alloc _).bind (fun j hj => Safe.pure trivial)
        | dict kvs =>
          refine (copyKVs_frame _ ih kvs m).bind (fun p _ => ?_)
          obtain ⟨ys, m1⟩ := p
          exact (Safe.alloc _).bind (fun j hj => Safe.pure trivial)
        | set xs =>
          exact (Safe.alloc _).bind (fun j hj => Safe.pure trivial)
        | inst c thaw fs =>
          simp only
          refine Safe.ite (fun _ => Safe.pure trivial) (fun _ => ?_)
          refine (Safe.alloc _).bind (fun j hj => ?_)
          refine (copyFields_frame _ ih (X.cd c) j c false hj fs [] m).bind (fun m1 _ => ?_)
          have hpc : Safe n₀ W (if (X.cd c).postCopy = true then callCb .postCopy else pure ())
              (fun _ => True) :=
            Safe.ite (fun _ => Safe.callCb _) (fun _ => Safe.pure trivial)
          exact hpc.bind (fun _ _ => Safe.pure trivial)

end frame

/-! ## The fields of a copied instance -/

/-- Field lists related as original / copy: same attribute names in the same
order, and the value of a `do_not_copy` attribute is the very same reference. -/
def FieldsRel (cd : ClassDecl) : List (Nat × Ref) → List (Nat × Ref) → Prop
  | [], [] => True
  | (a, v) :: fs, (a', v') :: fs' => a' = a ∧ (dncOf cd a = true → v' = v) ∧ FieldsRel cd fs fs'
  | _, _ => False

theorem FieldsRel.alGet {cd : ClassDecl} {a : Nat} {v : Ref} (hd : dncOf cd a = true) :
    ∀ {fs fs' : List (Nat × Ref)}, FieldsRel cd fs fs' → alGet a fs = some v →
      alGet a fs' = some v := by
  intro fs
  induction fs with
  | nil => intro fs' _ h; simp [SpecVerif.Heap.alGet] at h
  | cons av fs ih =>
    intro fs' hrel h
    obtain ⟨a0, v0⟩ := av
    cases fs' with
    | nil => exact hrel.elim
    | cons av' fs' =>
      obtain ⟨a1, v1⟩ := av'
      obtain ⟨ha, hv, hrest⟩ := hrel
      subst ha
      simp only [SpecVerif.Heap.alGet] at h ⊢
      split
      · rename_i heq
        rw [if_pos heq] at h
        subst heq
        rw [hv hd]; exact h
      · rename_i hne
        rw [if_neg hne] at h
        exact ih hrest h

theorem FieldsRel.keys {cd : ClassDecl} :
    ∀ {fs fs' : List (Nat × Ref)}, FieldsRel cd fs fs' →
      fs'.map (fun av => av.1) = fs.map (fun av => av.1) := by
  intro fs
  induction fs with
  | nil =>
    intro fs' h
    cases fs' with
    | nil => rfl
    | cons _ _ => exact h.elim
  | cons av fs ih =>
    intro fs' h
    obtain ⟨a0, v0⟩ := av
    cases fs' with
    | nil => exact h.elim
    | cons av' fs' =>
      obtain ⟨a1, v1⟩ := av'
      obtain ⟨ha, _, hrest⟩ := h
      simp only [List.map_cons, ha, ih hrest]

/-- The loop of `DeepCopyMethod.deepcopy` leaves the copy `j` with the fields of
the original in order, `do_not_copy` values carried over by reference. -/
theorem copyFields_run (f : Ref → Memo → M (Ref × Memo))
    (hf : ∀ n₀ r m, Safe n₀ (fun _ => False) (f r m) (fun _ => True))
    (cd : ClassDecl) (j c : Nat) (thaw : Bool) :
    ∀ fs acc m s m' s', j < s.heap.length → s.heap[j]? = some (.inst c thaw acc) →
      copyFields f cd j c thaw acc fs m s = (.ok m', s') →
      ∃ fs', FieldsRel cd fs fs' ∧ j < s'.heap.length ∧
        s'.heap[j]? = some (.inst c thaw (acc ++ fs')) := by
  intro fs
  induction fs with
  | nil =>
    intro acc m s m' s' hj hn h
    unfold copyFields at h
    obtain ⟨_, rfl⟩ := pure_ok_inv h
    exact ⟨[], trivial, hj, by simpa using hn⟩
  | cons av fs ih =>
    intro acc m s m' s' hj hn h
    obtain ⟨a, v⟩ := av
    unfold copyFields at h
    simp only at h
    obtain ⟨p, s1, h1, h2⟩ := bind_ok_inv h
    obtain ⟨u, s2, h3, h4⟩ := bind_ok_inv h2
    -- the value stored for `a`
    have hp : s.heap.length ≤ s1.heap.length ∧ (dncOf cd a = true → p.1 = v) := by
      change (if dncOf cd a = true then (pure (v, m) : M (Ref × Memo)) else f v m) s
        = (.ok p, s1) at h1
      by_cases hd : dncOf cd a = true
      · rw [if_pos hd] at h1
        obtain ⟨rfl, rfl⟩ := pure_ok_inv h1
        exact ⟨Nat.le_refl _, fun _ => rfl⟩
      · rw [if_neg hd] at h1
        exact ⟨((hf _ v m).frame_run h1).1, fun hc => (hd hc).elim⟩
    have hw := write_run_prov h3
    have hj2 : j < s2.heap.length := by rw [hw, List.length_set]; omega
    have hn2 : s2.heap[j]? = some (.inst c thaw (acc ++ [(a, p.1)])) := by
      rw [hw]; exact List.getElem?_set_self (by omega)
    obtain ⟨fs', hrel, hj', hn'⟩ := ih _ _ _ _ _ hj2 hn2 h4
    refine ⟨(a, p.1) :: fs', ⟨rfl, hp.2, hrel⟩, hj', ?_⟩
    rw [hn']; simp

/-- `copy.deepcopy` of an instance: the result is a new instance of the same
class whose fields are related to the original's by `FieldsRel`. -/
theorem deepcopy_inst_run (X : Ctx) (hX : NoClassDnc X) {i c : Nat} {t : Bool}
    {fs : List (Nat × Ref)} {s s' : MS} {r' : Ref} (hn : s.heap[i]? = some (.inst c t fs))
    (h : deepcopy X (.obj i) s = (.ok r', s')) :
    ∃ fs', r' = .obj s.heap.length ∧ FieldsRel (X.cd c) fs fs' ∧
      s'.heap[s.heap.length]? = some (.inst c false fs') := by
  unfold deepcopy at h
  obtain ⟨hh, s0, h0, h1⟩ := bind_ok_inv h
  cases h0
  obtain ⟨p, s1, h2, h3⟩ := bind_ok_inv h1
  obtain ⟨r1, m1⟩ := p
  obtain ⟨rfl, rfl⟩ := pure_ok_inv h3
  unfold copyRef at h2
  simp only [SpecVerif.Heap.alGet] at h2
  obtain ⟨node, s2, h4, h5⟩ := bind_ok_inv h2
  obtain ⟨rfl, hnode⟩ := getNode_run h4
  rw [hn] at hnode
  cases hnode
  simp only [hX c] at h5
  obtain ⟨j, s3, h6, h7⟩ := bind_ok_inv h5
  obtain ⟨rfl, hheap⟩ := alloc_run h6
  obtain ⟨m2, s4, h8, h9⟩ := bind_ok_inv h7
  obtain ⟨u, s5, h10, h11⟩ := bind_ok_inv h9
  obtain ⟨hr, rfl⟩ := pure_ok_inv h11
  have hj3 : s2.heap.length < s3.heap.length := by rw [hheap]; simp
  have hn3 : s3.heap[s2.heap.length]? = some (.inst c false []) := by
    rw [hheap]; simp
  obtain ⟨fs', hrel, hj', hn'⟩ := copyFields_run _ (fun n₀ r m => copyRef_frame X _ r m)
    (X.cd c) _ c false fs [] [] s3 m2 s4 hj3 hn3 h8
  have hheap5 : s5.heap = s4.heap := by
    split at h10
    · exact callCb_run h10
    · exact (pure_ok_inv h10).2 ▸ rfl
  refine ⟨fs', ?_, hrel, ?_⟩
  · cases hr; rfl
  · rw [hheap5, hn']; simp

section values
variable {n₀ : Nat} {W : Nat → Prop}

/-! ## `mutate_value` without keyword attributes is `mutateValue0` -/

theorem M_pure_bind (a : α) (f : α → M β) : (pure a >>= f) = f a := rfl

theorem M_bind_pure (m : M α) : (m >>= fun a => pure a) = m := by
  funext s
  rw [run_bind]
  match hms : m s with
  | (.ok a, s') => rfl
  | (.error e, s') => rfl

theorem mvAttrs_nil (X : Ctx) (p : MV) (hp : p.attrs = []) (value : Ref) (safe used : Bool) :
    mvAttrs X p value safe used = pure (value, safe) := by
  unfold mvAttrs
  simp [hp]

theorem mvAttrTransforms_nil (X : Ctx) (p : MV) (hp : p.attrTransforms = []) (value : Ref)
    (safe : Bool) : mvAttrTransforms X p value safe = pure value := by
  unfold mvAttrTransforms
  simp [hp]

theorem mutateValue_eq_mutateValue0 (X : Ctx) (p : MV) (ha : p.attrs = [])
    (ht : p.attrTransforms = []) : mutateValue X p = mutateValue0 X p := by
  have hp : { p with attrs := [] } = p := by
    cases p; simp only at ha; subst ha; rfl
  unfold mutateValue mutateValue0
  rw [hp]
  simp only [mvAttrs_nil X p ha, mvAttrTransforms_nil X p ht, M_pure_bind, M_bind_pure]

theorem prepareAttrValue_nil (X : Ctx) (d : AttrDecl) (v : Ref) :
    prepareAttrValue X d v [] = prepareAttrValue0 X d v := by
  unfold prepareAttrValue prepareAttrValue0
  rw [mutateValue_eq_mutateValue0 X _ rfl rfl]

theorem M_bind_assoc {γ : Type} (m : M α) (f : α → M β) (g : β → M γ) :
    ((m >>= f) >>= g) = (m >>= fun a => f a >>= g) := by
  funext s
  simp only [run_bind]
  rcases m s with ⟨_ | _, _⟩ <;> rfl

/-- The computation that installs the value `v` (a looked-up default) as attribute
`a` (declared by `d`) of `obj`: prepare it, then store it in place. -/
def installDefault (X : Ctx) (obj : Ref) (a : Nat) (d : AttrDecl) (v : Ref) : M Unit := do
  let v' ← prepareAttrValue0 X d v
  let _ ← mutateAttr X obj a v' true true true
  pure ()

/-- `object.__delattr__(obj, a)`. -/
def objDelAttr (obj : Ref) (a : Nat) : M Unit := do
  let q ← getInst obj
  if alHas a q.2.2.2 then write q.1 (.inst q.2.1 q.2.2.1 (alDel a q.2.2.2))
  else throwPy .attributeError

theorem getInst_run {r : Ref} {p : Nat × Nat × Bool × List (Nat × Ref)} {s s' : MS}
    (h : getInst r s = (.ok p, s')) :
    s' = s ∧ r = .obj p.1 ∧ s.heap[p.1]? = some (.inst p.2.1 p.2.2.1 p.2.2.2) := by
  unfold getInst at h
  cases r with
  | sc _ => cases h
  | obj i =>
    simp only at h
    obtain ⟨node, s1, h1, h2⟩ := bind_ok_inv h
    obtain ⟨rfl, hn⟩ := getNode_run h1
    cases node with
    | inst c t fs =>
      obtain ⟨rfl, rfl⟩ := pure_ok_inv h2
      exact ⟨rfl, rfl, hn⟩
    | list _ => cases h2
    | dict _ => cases h2
    | set _ => cases h2

theorem getInst_of_node {i c : Nat} {t : Bool} {fs : List (Nat × Ref)} {s : MS}
    (h : s.heap[i]? = some (.inst c t fs)) : getInst (.obj i) s = (.ok (i, c, t, fs), s) := by
  unfold getInst
  simp only
  have : getNode i s = (.ok (.inst c t fs), s) := by
    unfold getNode; rw [h]
  rw [run_bind_ok this]
  rfl

/-- `__delattr__` of a declared attribute of an editable instance *is*: look the
default up; if there is none remove the attribute, else install the default. -/
theorem delAttr_eq_install (X : Ctx) {i c : Nat} {t : Bool} {fs : List (Nat × Ref)} {s : MS}
    (a : Nat) (d : AttrDecl) (hn : s.heap[i]? = some (.inst c t fs))
    (hd : (X.cd c).attr? a = some d) (hfr : (X.cd c).frozen = true → t = true) :
    delAttr X (.obj i) a false s =
      (lookupDefaultFor X d c >>= fun v =>
        if v = .sc .missing then objDelAttr (.obj i) a else installDefault X (.obj i) a d v) s := by
  unfold delAttr
  rw [run_bind_ok (getInst_of_node hn)]
  simp only
  have hg : guardM (!(false || t) && (X.cd c).frozen) .frozenInstanceError s = (.ok (), s) := by
    unfold guardM
    cases hfz : (X.cd c).frozen with
    | false => simp
    | true => simp [hfr hfz]
  rw [run_bind_ok hg]
  simp only [hd, prepareAttrValue_nil]
  rfl

/-- The constructor's `setattr(self, a, v)` (forced) of a declared attribute is `installDefault`. -/
theorem setAttr_eq_install (X : Ctx) {i c : Nat} {t : Bool} {fs : List (Nat × Ref)} {s : MS}
    (a : Nat) (d : AttrDecl) (v : Ref) (hn : s.heap[i]? = some (.inst c t fs))
    (hd : (X.cd c).attr? a = some d) :
    setAttr X (.obj i) a v true s = installDefault X (.obj i) a d v s := by
  unfold setAttr
  rw [run_bind_ok (getInst_of_node hn)]
  simp only [hd]
  rfl

/-- The constructor's step for an attribute that was not supplied. -/
theorem initAttrs_step_default (X : Ctx) (self : Ref) (c : Nat) (kw : List (Nat × Ref))
    (copyArgs : Bool) (sel : AttrDecl → Bool) (d : AttrDecl) (ds : List AttrDecl)
    (hsel : sel d = true) (hkw : alGet d.name kw = none) :
    initAttrs X self c kw copyArgs sel (d :: ds) =
      (lookupDefaultFor X d c >>= fun v =>
        (if v != .sc .missing then setAttr X self d.name v true else pure ()) >>= fun _ =>
        initAttrs X self c kw copyArgs sel ds) := by
  conv => lhs; unfold initAttrs
  simp only [hsel, hkw, Option.getD, if_true, bne_self_eq_false, Bool.false_eq_true, if_false]
  exact M_bind_assoc _ _ _


/-! ## Value tracking: prepared defaults are new and not MISSING -/

/-- A new object. -/
def FreshObj (n₀ : Nat) (r : Ref) : Prop := ∃ i, r = .obj i ∧ n₀ ≤ i
/-- A scalar other than MISSING, or a new object. -/
def FN (n₀ : Nat) (r : Ref) : Prop := FreshRef n₀ r ∧ r ≠ .sc .missing

theorem FreshObj.fn {r : Ref} (h : FreshObj n₀ r) : FN n₀ r := by
  obtain ⟨i, rfl, hi⟩ := h
  exact ⟨freshRef_obj hi, fun h => by cases h⟩

/-- The nested constructor returns a new object. -/
def MakeObj (n₀ : Nat) (W : Nat → Prop) (X : Ctx) : Prop :=
  ∀ c kw, Safe n₀ W (X.make c kw) (FreshObj n₀)

theorem MakeObj.safe {X : Ctx} (h : MakeObj n₀ W X) : MakeSafe n₀ W X :=
  fun c kw => (h c kw).mono (fun r hr => hr.fn.1)

theorem constructBody_obj (X : Ctx) (hX : NoClassDnc X) (hM : MakeSafe n₀ W X) (c : Nat)
    (kw : List (Nat × Ref)) : Safe n₀ W (constructBody X c kw) (FreshObj n₀) := by
  unfold constructBody
  simp only
  refine (guardM_safe _ _).bind (fun _ _ => ?_)
  refine (Safe.alloc _).bind (fun i hi => ?_)
  have hw : Writable n₀ W (.obj i) := (freshRef_obj hi).writable
  refine (setThaw_safe true (Or.inr hi)).bind (fun _ _ => ?_)
  refine Safe.bind (Q := fun _ => True) ?_ (fun _ _ => ?_)
  · refine Safe.ite (fun _ => ?_) (fun _ => Safe.pure trivial)
    refine (parentKwargs_safe X hX hM _ _ _ _).bind (fun pk _ => ?_)
    exact initAttrs_safe X hX hM _ _ _ _ hw _
  · refine (initAttrs_safe X hX hM _ _ _ _ hw _).bind (fun _ _ => ?_)
    exact (setThaw_safe false (Or.inr hi)).bind (fun _ _ => Safe.pure ⟨i, rfl, hi⟩)

theorem construct_obj (X : Ctx) (hX : NoClassDnc X) :
    ∀ fuel c kw, Safe n₀ W (construct X fuel c kw) (FreshObj n₀) := by
  intro fuel
  cases fuel with
  | zero => intro c kw; unfold construct; exact Safe.throwPy _
  | succ fuel =>
    intro c kw
    unfold construct
    exact constructBody_obj _ (noClassDnc_with_make X hX _)
      (fun c' kw' => construct_safe X hX fuel c' kw') c kw

theorem makeObj_close (X : Ctx) (hX : NoClassDnc X) : MakeObj n₀ W X.close :=
  fun c kw => construct_obj X hX _ c kw

theorem createColl_obj (fam : Fam) : Safe n₀ W (createColl fam) (FreshObj n₀) := by
  unfold createColl
  exact (Safe.alloc _).bind (fun j hj => Safe.pure ⟨j, rfl, hj⟩)

theorem defaultConstruct_fn (X : Ctx) (hM : MakeObj n₀ W X) (k : Kind)
    (attrs : List (Nat × Ref)) :
    Safe n₀ W (defaultConstruct X k attrs) (fun p => FN n₀ p.1) := by
  unfold defaultConstruct
  cases k with
  | int => exact Safe.pure ⟨freshRef_sc _, fun h => by cases h⟩
  | str => exact Safe.pure ⟨freshRef_sc _, fun h => by cases h⟩
  | listInt => exact (createColl_obj _).bind (fun r hr => Safe.pure hr.fn)
  | listSpec c => exact (createColl_obj _).bind (fun r hr => Safe.pure hr.fn)
  | dictStrInt => exact (createColl_obj _).bind (fun r hr => Safe.pure hr.fn)
  | setInt => exact (createColl_obj _).bind (fun r hr => Safe.pure hr.fn)
  | spec c => exact (hM c _).bind (fun r hr => Safe.pure hr.fn)

theorem dictAsCtorArgs_fn (X : Ctx) (hM : MakeObj n₀ W X) (ctor : Option Kind) (value : Ref)
    (attrs : List (Nat × Ref)) :
    Safe n₀ W (dictAsCtorArgs X ctor value attrs) (fun o => ∀ r, o = some r → FN n₀ r) := by
  unfold dictAsCtorArgs
  refine Safe.getHeap.bind (fun h _ => ?_)
  have hnone : Safe n₀ W (pure none : M (Option Ref)) (fun o => ∀ r, o = some r → FN n₀ r) :=
    Safe.pure (fun r hr => by cases hr)
  split
  · split
    · refine Safe.ite (fun _ => hnone) (fun _ => ?_)
      refine Safe.ite (fun _ => Safe.throwPy _) (fun _ => ?_)
      split
      · exact Safe.ite (fun _ => Safe.pure (fun r hr => by
          cases hr; exact ⟨freshRef_sc _, fun h => by cases h⟩)) (fun _ => Safe.throwPy _)
      · exact Safe.ite (fun _ => Safe.pure (fun r hr => by
          cases hr; exact ⟨freshRef_sc _, fun h => by cases h⟩)) (fun _ => Safe.throwPy _)
      · exact (hM _ _).bind (fun r hr => Safe.pure (fun r' hr' => by cases hr'; exact hr.fn))
      · exact Safe.throwPy _
    · exact hnone
  · exact hnone

/-- With a constructor available, steps 3/4 of `mutate_value` never yield MISSING. -/
theorem mvConstruct_fn (X : Ctx) (hM : MakeObj n₀ W X) (p : MV) (k : Kind) (hk : p.ctor = some k)
    (value : Ref) (hv : FreshRef n₀ value) :
    Safe n₀ W (mvConstruct X p value) (fun r => FN n₀ r.1) := by
  unfold mvConstruct
  refine (dictAsCtorArgs_fn X hM _ _ _).bind (fun o ho => ?_)
  split
  · exact Safe.pure (ho _ rfl)
  · refine Safe.ite (fun _ => ?_) (fun hne => Safe.pure ⟨hv, hne⟩)
    rw [hk]
    exact (defaultConstruct_fn X hM _ _).bind (fun r hr => Safe.pure hr)

theorem mvChoose_fresh (p : MV) (ho : FreshRef n₀ p.old) (hn : FreshRef n₀ p.new) :
    FreshRef n₀ (mvChoose p).1 := by
  unfold mvChoose
  split
  · exact hn
  · split
    · exact ho
    · exact freshRef_sc _

theorem mutateValue0_fn (X : Ctx) (hM : MakeObj n₀ W X) (p : MV) (k : Kind) (hk : p.ctor = some k)
    (ht : p.transform = none) (ho : FreshRef n₀ p.old) (hn : FreshRef n₀ p.new) :
    Safe n₀ W (mutateValue0 X p) (FN n₀) := by
  unfold mutateValue0
  have h1 : Safe n₀ W (mvApply (mvChoose p).2 (mvChoose p).1) (FreshRef n₀) :=
    (mvApply_safe _ _).mono (fun r hr => by
      rcases hr with rfl | h
      · exact mvChoose_fresh p ho hn
      · exact h)
  refine h1.bind (fun v1 hv1 => ?_)
  refine (mvConstruct_fn X hM { p with attrs := [] } k hk v1 hv1).bind (fun r hr => ?_)
  rw [ht]
  unfold mvApply
  exact Safe.pure hr

theorem collPrepare_fn (X : Ctx) (hM : MakeObj n₀ W X) (d : AttrDecl) (fam : Fam) (coll : Ref)
    (hc : FreshRef n₀ coll) : Safe n₀ W (collPrepare X d fam coll) (FN n₀) := by
  unfold collPrepare
  have h1 : Safe n₀ W
      (if (coll = .sc .none || coll = .sc .missing) = true then createColl fam else pure coll)
      (FN n₀) :=
    Safe.ite (fun _ => (createColl_obj fam).mono (fun r hr => hr.fn))
      (fun hne => Safe.pure ⟨hc, fun he => hne (by rw [he]; simp)⟩)
  refine h1.bind (fun coll' hc' => ?_)
  refine Safe.getHeap.bind (fun h _ => ?_)
  refine Safe.ite (fun _ => ?_) (fun _ => Safe.pure hc')
  refine (createColl_obj fam).bind (fun fresh hf => ?_)
  exact (addItems_safe X hM.safe d fam _ hf.fn.1.writable).bind (fun _ _ => Safe.pure hf.fn)

theorem prepareAttrValue0_fn (X : Ctx) (hM : MakeObj n₀ W X) (d : AttrDecl) (v : Ref)
    (hv : FreshRef n₀ v) : Safe n₀ W (prepareAttrValue0 X d v) (FN n₀) := by
  unfold prepareAttrValue0
  refine (mutateValue0_fn X hM _ d.kind rfl rfl (freshRef_sc _) hv).bind (fun v1 hv1 => ?_)
  split
  · exact collPrepare_fn X hM d _ _ hv1.1
  · exact Safe.pure hv1


end values

/-! ## Which value ends up in the attribute: successful runs of `__delattr__` / `reset_attr` -/

theorem Safe.run {n₀ : Nat} {W : Nat → Prop} {m : M α} {Q : α → Prop} {s s' : MS} {a : α}
    (hs : Safe n₀ W m Q) (hle : n₀ ≤ s.heap.length) (h : m s = (.ok a, s')) :
    Post n₀ W s s' ∧ Q a := by
  obtain ⟨hp, hq⟩ := hs s hle
  rw [h] at hp hq
  exact ⟨hp, hq a rfl⟩

theorem guardM_run {c : Bool} {e : Err} {s s' : MS} {u : Unit} (h : guardM c e s = (.ok u, s')) :
    s' = s := by
  unfold guardM at h
  split at h
  · cases h
  · cases h; rfl

theorem objDelAttr_run {i c a : Nat} {t : Bool} {fs : List (Nat × Ref)} {s s' : MS} {u : Unit}
    (hn : s.heap[i]? = some (.inst c t fs)) (h : objDelAttr (.obj i) a s = (.ok u, s')) :
    s'.heap[i]? = some (.inst c t (alDel a fs)) := by
  unfold objDelAttr at h
  rw [run_bind_ok (getInst_of_node hn)] at h
  simp only at h
  split at h
  · rw [write_run_prov h]
    have hlt : i < s.heap.length := by
      rcases Nat.lt_or_ge i s.heap.length with hlt | hge
      · exact hlt
      · rw [List.getElem?_eq_none hge] at hn; cases hn
    exact List.getElem?_set_self hlt
  · cases h

theorem lt_of_getElem?_some {h : Heap} {i : Nat} {n : Node} (hn : h[i]? = some n) :
    i < h.length := by
  rcases Nat.lt_or_ge i h.length with hlt | hge
  · exact hlt
  · rw [List.getElem?_eq_none hge] at hn; cases hn

theorem rawSet_run {i c a : Nat} {t : Bool} {fs : List (Nat × Ref)} {v : Ref} {s s' : MS} {u : Unit}
    (hn : s.heap[i]? = some (.inst c t fs)) (h : rawSet (.obj i) a v s = (.ok u, s')) :
    s'.heap = s.heap.set i (.inst c t (alSet a v fs)) := by
  unfold rawSet at h
  rw [run_bind_ok (getInst_of_node hn)] at h
  exact write_run_prov h

/-- A successful in-place `mutate_attr` with a value other than MISSING stores that value. -/
theorem mutateAttr_inplace_run (X : Ctx) {i c a : Nat} {t : Bool} {fs : List (Nat × Ref)} {v r : Ref}
    {tc force : Bool} {s s' : MS} (hv : v ≠ .sc .missing)
    (hn : s.heap[i]? = some (.inst c t fs))
    (h : mutateAttr X (.obj i) a v true tc force s = (.ok r, s')) :
    s'.heap = s.heap.set i (.inst c t (alSet a v fs)) := by
  unfold mutateAttr at h
  rw [if_neg hv] at h
  rw [run_bind_ok (getInst_of_node hn)] at h
  obtain ⟨u1, s1, h1, h2⟩ := bind_ok_inv h
  cases guardM_run h1
  obtain ⟨hh, s2, h3, h4⟩ := bind_ok_inv h2
  cases h3
  obtain ⟨u2, s3, h5, h6⟩ := bind_ok_inv h4
  cases guardM_run h5
  simp only [Bool.true_or, Bool.not_true, Bool.false_eq_true, if_false] at h6
  obtain ⟨u3, s4, h7, h8⟩ := bind_ok_inv h6
  obtain ⟨_, rfl⟩ := pure_ok_inv h8
  exact rawSet_run hn h7

/-- Installing a default: the stored value is a scalar other than MISSING or was
allocated after the boundary `n₀`. -/
theorem installDefault_run (X : Ctx) (hM : ∀ n, MakeObj n (fun _ => False) X)
    {n₀ i c a : Nat} {t : Bool} {fs : List (Nat × Ref)} {d : AttrDecl} {v : Ref} {s s' : MS}
    {u : Unit} (hle : n₀ ≤ s.heap.length) (hn : s.heap[i]? = some (.inst c t fs))
    (hv : FreshRef n₀ v) (h : installDefault X (.obj i) a d v s = (.ok u, s')) :
    ∃ v', FN n₀ v' ∧ s'.heap[i]? = some (.inst c t (alSet a v' fs)) ∧
      s.heap.length ≤ s'.heap.length := by
  unfold installDefault at h
  obtain ⟨v', s1, h1, h2⟩ := bind_ok_inv h
  obtain ⟨r, s2, h3, h4⟩ := bind_ok_inv h2
  obtain ⟨_, rfl⟩ := pure_ok_inv h4
  have hfn := ((prepareAttrValue0_fn X (hM n₀) d v hv).run hle h1).2
  have hfr := (prepareAttrValue0_safe X (hM s.heap.length).safe d v).frame_run h1
  have hlt := lt_of_getElem?_some hn
  have hn1 : s1.heap[i]? = some (.inst c t fs) := by rw [hfr.2.1 i hlt]; exact hn
  have hw := mutateAttr_inplace_run X hfn.2 hn1 h3
  refine ⟨v', hfn, ?_, ?_⟩
  · rw [hw]; exact List.getElem?_set_self (by omega)
  · rw [hw, List.length_set]; exact hfr.1

/-- **Core of `reset_is_fresh`**: after a successful `__delattr__` of a declared
attribute of an editable instance whose `__dict__` has distinct keys, the
attribute is absent or holds a scalar / an object allocated after `n₀`. -/
theorem delAttr_run_fresh (X : Ctx) (hX : NoClassDnc X) (hM : ∀ n, MakeObj n (fun _ => False) X)
    {n₀ i c a : Nat} {t : Bool} {fs : List (Nat × Ref)} {d : AttrDecl} {s s' : MS} {u : Unit}
    (hle : n₀ ≤ s.heap.length) (hn : s.heap[i]? = some (.inst c t fs))
    (hnd : (fs.map (fun av => av.1)).Nodup)
    (hd : (X.cd c).attr? a = some d) (hfr : (X.cd c).frozen = true → t = true)
    (h : delAttr X (.obj i) a false s = (.ok u, s')) :
    ∃ fs', s'.heap[i]? = some (.inst c t fs') ∧ s.heap.length ≤ s'.heap.length ∧
      ((alGet a fs' = none ∧ fs' = alDel a fs) ∨
       (∃ v, FN n₀ v ∧ fs' = alSet a v fs)) := by
  rw [delAttr_eq_install X a d hn hd hfr] at h
  obtain ⟨v, s1, h1, h2⟩ := bind_ok_inv h
  have hv := ((lookupDefaultFor_safe X hX (hM n₀).safe d c).run hle h1).2
  have hfr1 := (lookupDefaultFor_safe X hX (hM s.heap.length).safe d c).frame_run h1
  have hlt := lt_of_getElem?_some hn
  have hn1 : s1.heap[i]? = some (.inst c t fs) := by rw [hfr1.2.1 i hlt]; exact hn
  split at h2
  · have h3 := objDelAttr_run hn1 h2
    refine ⟨_, h3, ?_, Or.inl ⟨alGet_alDel_self a fs hnd, rfl⟩⟩
    have h4 := lt_of_getElem?_some h3
    unfold objDelAttr at h2
    rw [run_bind_ok (getInst_of_node hn1)] at h2
    simp only at h2
    split at h2
    · rw [write_run_prov h2, List.length_set]; exact hfr1.1
    · cases h2
  · obtain ⟨v', hfn, hn', hlen⟩ := installDefault_run X hM (Nat.le_trans hle hfr1.1) hn1 hv h2
    exact ⟨_, hn', Nat.le_trans hfr1.1 hlen, Or.inr ⟨v', hfn, rfl⟩⟩


theorem setThaw_run {i : Nat} {b : Bool} {s s' : MS} {u : Unit} (h : setThaw i b s = (.ok u, s')) :
    (∀ c t fs, s.heap[i]? = some (.inst c t fs) → s'.heap[i]? = some (.inst c b fs)) ∧
    s'.heap.length = s.heap.length := by
  unfold setThaw at h
  obtain ⟨node, s1, h1, h2⟩ := bind_ok_inv h
  obtain ⟨rfl, hn⟩ := getNode_run h1
  cases node with
  | inst c t fs =>
    simp only at h2
    have hw := write_run_prov h2
    refine ⟨?_, by rw [hw, List.length_set]⟩
    intro c' t' fs' hn'
    rw [hn] at hn'
    cases hn'
    rw [hw]
    exact List.getElem?_set_self (lt_of_getElem?_some hn)
  | list _ =>
    obtain ⟨_, rfl⟩ := pure_ok_inv h2
    exact ⟨fun c t fs hn' => (by rw [hn] at hn'; cases hn'), rfl⟩
  | dict _ =>
    obtain ⟨_, rfl⟩ := pure_ok_inv h2
    exact ⟨fun c t fs hn' => (by rw [hn] at hn'; cases hn'), rfl⟩
  | set _ =>
    obtain ⟨_, rfl⟩ := pure_ok_inv h2
    exact ⟨fun c t fs hn' => (by rw [hn] at hn'; cases hn'), rfl⟩

theorem tryFinally_ok_inv {m : M α} {fin : M Unit} {s s' : MS} {a : α}
    (h : tryFinally m fin s = (.ok a, s')) :
    ∃ s1 u, m s = (.ok a, s1) ∧ fin s1 = (.ok u, s') := by
  unfold tryFinally at h
  match hms : m s with
  | (.ok a', s1) =>
    rw [hms] at h
    simp only at h
    match hfs : fin s1 with
    | (.ok u, s2) =>
      rw [hfs] at h
      cases h
      exact ⟨s1, u, rfl, hfs⟩
    | (.error e, s2) =>
      rw [hfs] at h
      cases h
  | (.error e, s1) =>
    rw [hms] at h
    simp only at h
    match hfs : fin s1 with
    | (.ok u, s2) => rw [hfs] at h; cases h
    | (.error e', s2) => rw [hfs] at h; cases h

/-- `with thawed(obj): body` around a successful body: the body runs on an
editable `obj` with the same fields, and the exit only resets the thaw flag. -/
theorem thawed_run (X : Ctx) {j c : Nat} {t : Bool} {fs : List (Nat × Ref)} {body : M α}
    {s s' : MS} {a : α} (hn : s.heap[j]? = some (.inst c t fs))
    (h : thawed X (.obj j) body s = (.ok a, s')) :
    ∃ sa sb t₁, sa.heap[j]? = some (.inst c t₁ fs) ∧ sa.heap.length = s.heap.length ∧
      ((X.cd c).frozen = true → t₁ = true) ∧ body sa = (.ok a, sb) ∧
      (∀ c' t' fs', sb.heap[j]? = some (.inst c' t' fs') →
        ∃ t'', s'.heap[j]? = some (.inst c' t'' fs')) := by
  unfold thawed at h
  simp only at h
  have hg : getNode j s = (.ok (.inst c t fs), s) := by
    unfold getNode; rw [hn]
  rw [run_bind_ok hg] at h
  simp only at h
  split at h
  · rename_i hc
    obtain ⟨u, s1, h1, h2⟩ := bind_ok_inv h
    obtain ⟨hth, hlen⟩ := setThaw_run h1
    obtain ⟨s2, u2, h3, h4⟩ := tryFinally_ok_inv h2
    obtain ⟨hth2, _⟩ := setThaw_run h4
    exact ⟨s1, s2, true, hth c t fs hn, hlen, fun _ => rfl, h3,
      fun c' t' fs' hn' => ⟨false, hth2 c' t' fs' hn'⟩⟩
  · rename_i hc
    refine ⟨s, s', t, hn, rfl, ?_, h, fun c' t' fs' hn' => ⟨t', hn'⟩⟩
    intro hfz
    rw [hfz] at hc
    simpa using hc

/-- **`reset_attr` not in place**: the result is a new instance whose attribute
`a` is absent or holds a scalar / an object allocated during the call. -/
theorem resetAttr_run_fresh (X : Ctx) (hX : NoClassDnc X) (hM : ∀ n, MakeObj n (fun _ => False) X)
    {i c a : Nat} {t : Bool} {fs : List (Nat × Ref)} {d : AttrDecl} {s s' : MS} {r' : Ref}
    (hn : s.heap[i]? = some (.inst c t fs)) (hnd : (fs.map (fun av => av.1)).Nodup)
    (hd : (X.cd c).attr? a = some d)
    (h : resetAttr X (.obj i) a false s = (.ok r', s')) :
    ∃ t' fs', r' = .obj s.heap.length ∧ s'.heap[s.heap.length]? = some (.inst c t' fs') ∧
      fs'.map (fun av => av.1) ⊆ a :: fs.map (fun av => av.1) ∧
      ∀ v, alGet a fs' = some v → FN s.heap.length v := by
  unfold resetAttr at h
  simp only [Bool.not_false, if_true] at h
  obtain ⟨copy, s1, h1, h2⟩ := bind_ok_inv h
  obtain ⟨u, s2, h3, h4⟩ := bind_ok_inv h2
  obtain ⟨rfl, rfl⟩ := pure_ok_inv h4
  obtain ⟨fs1, rfl, hrel, hn1⟩ := deepcopy_inst_run X hX hn h1
  have hnd1 : (fs1.map (fun av => av.1)).Nodup := by rw [hrel.keys]; exact hnd
  obtain ⟨sa, sb, t₁, hna, hlena, hfz, hbody, hexit⟩ := thawed_run X hn1 h3
  have hle : s.heap.length ≤ sa.heap.length := by
    rw [hlena]; exact Nat.le_of_lt (lt_of_getElem?_some hn1)
  obtain ⟨fs2, hnb, _, hdisj⟩ := delAttr_run_fresh X hX hM hle hna hnd1 hd hfz hbody
  obtain ⟨t'', hn'⟩ := hexit c t₁ fs2 hnb
  refine ⟨t'', fs2, rfl, hn', ?_, ?_⟩
  · intro k hk
    obtain ⟨av, hav, rfl⟩ := List.mem_map.1 hk
    rcases hdisj with ⟨_, rfl⟩ | ⟨v, _, rfl⟩
    · have := mem_alDel hav
      rw [← hrel.keys]
      exact List.mem_cons_of_mem _ (List.mem_map_of_mem this)
    · rcases mem_alSet hav with h | h
      · rw [h]; exact List.mem_cons_self
      · rw [← hrel.keys]
        exact List.mem_cons_of_mem _ (List.mem_map_of_mem h)
  · intro v hv
    rcases hdisj with ⟨hnone, _⟩ | ⟨v', hfn, rfl⟩
    · rw [hnone] at hv; cases hv
    · rw [alGet_alSet_self] at hv
      cases hv
      exact hfn


/-! ## Provenance of every function the constructor and the copy-on-write scalar helpers run

Throughout: `T = fun _ => True` (any old object may be traversed by a copy),
so the allowed set `A` contains everything reachable through a `do_not_copy`
attribute of any old instance. -/

section prov
variable {α β : Type} {h₀ : Heap} {A : Nat → Prop}

/-- Everything may be traversed. -/
abbrev TAll : Nat → Prop := fun _ => True

theorem good_tall (n₀ : Nat) (r : Ref) : Good n₀ TAll r := by
  cases r with
  | sc s => trivial
  | obj j => exact Or.inr trivial

/-- The nested constructor keeps the invariant and returns a good value when
its keyword arguments are good. -/
def MakeGood (h₀ : Heap) (A : Nat → Prop) (X : Ctx) : Prop :=
  ∀ c kw, (∀ av, av ∈ kw → Good h₀.length A av.2) → PS h₀ A (X.make c kw) (FreshObj h₀.length)

theorem FreshObj.good {n₀ A} {r : Ref} (h : FreshObj n₀ r) : Good n₀ A r := by
  obtain ⟨i, rfl, hi⟩ := h
  exact Or.inl hi

/-- Good and not MISSING. -/
def GN (n₀ : Nat) (A : Nat → Prop) (r : Ref) : Prop := Good n₀ A r ∧ r ≠ .sc .missing

theorem FreshObj.gn {n₀ A} {r : Ref} (h : FreshObj n₀ r) : GN n₀ A r := ⟨h.good, h.fn.2⟩
theorem gn_sc {n₀ A} {s : Sc} (h : s ≠ .missing) : GN n₀ A (.sc s) :=
  ⟨good_sc s, fun he => h (by cases he; rfl)⟩

/-! ### Callbacks -/

theorem children_list_append_sc {n₀ A} {xs : List Ref} {e : Sc}
    (h : ∀ r, r ∈ (Node.list xs).children → Good n₀ A r) :
    ∀ r, r ∈ (Node.list (xs ++ [.sc e])).children → Good n₀ A r := by
  intro r hr
  simp only [Node.children, List.mem_append, List.mem_singleton] at hr
  rcases hr with hr | hr
  · exact h r hr
  · rw [hr]; trivial

theorem applyCb_ps (X : Ctx) (hW : World X h₀ A TAll) (cb : Cb) (v : Ref)
    (hv : Good h₀.length A v) : PS h₀ A (applyCb cb v) (Good h₀.length A) := by
  unfold applyCb
  cases cb with
  | ident => exact PS.pure hv
  | const s => exact PS.pure (good_sc s)
  | inc =>
    cases v with
    | sc s => cases s <;> first | exact PS.throwPy _ | exact PS.pure (good_sc _)
    | obj i => exact PS.throwPy _
  | absInt =>
    cases v with
    | sc s => cases s <;> first | exact PS.pure hv | exact PS.pure (good_sc _)
    | obj i => exact PS.pure hv
  | append e =>
    cases v with
    | sc s => exact PS.throwPy _
    | obj i =>
      refine (PS.getNode i).bind (fun node hn => ?_)
      cases node with
      | list xs =>
        exact (PS.alloc _ (children_list_append_sc (hn.good hW hv))).bind
          (fun j hj => PS.pure (good_fresh hj))
      | dict _ => exact PS.throwPy _
      | set _ => exact PS.throwPy _
      | inst _ _ _ => exact PS.throwPy _
  | rebuild =>
    cases v with
    | sc s => exact PS.throwPy _
    | obj i =>
      refine (PS.getNode i).bind (fun node hn => ?_)
      cases node with
      | list xs =>
        exact (PS.alloc _ (hn.good hW hv)).bind (fun j hj => PS.pure (good_fresh hj))
      | dict _ => exact PS.throwPy _
      | set _ => exact PS.throwPy _
      | inst _ _ _ => exact PS.throwPy _

theorem invoke_ps (X : Ctx) (hW : World X h₀ A TAll) (k : CbKind) (cb : Cb) (v : Ref)
    (hv : Good h₀.length A v) : PS h₀ A (invoke k cb v) (Good h₀.length A) := by
  unfold invoke
  exact (PS.callCb k).bind (fun _ _ => applyCb_ps X hW cb v hv)

theorem mvApply_ps (X : Ctx) (hW : World X h₀ A TAll) (cb : Option (CbKind × Cb)) (v : Ref)
    (hv : Good h₀.length A v) : PS h₀ A (mvApply cb v) (Good h₀.length A) := by
  unfold mvApply
  split
  · exact invoke_ps X hW _ _ _ hv
  · exact PS.pure hv

/-! ### Collections -/

theorem createColl_ps (fam : Fam) : PS h₀ A (createColl fam) (FreshObj h₀.length) := by
  unfold createColl
  refine (PS.alloc _ ?_).bind (fun j hj => PS.pure ⟨j, rfl, hj⟩)
  intro r hr
  cases fam <;> cases hr

theorem getList_ps (coll : Ref) :
    PS h₀ A (getList coll) (fun p => coll = .obj p.1 ∧ NodeAt h₀ A p.1 (.list p.2)) := by
  unfold getList
  cases coll with
  | sc s => exact PS.throwPy _
  | obj i =>
    refine (PS.getNode i).bind (fun node hn => ?_)
    cases node with
    | list xs => exact PS.pure ⟨rfl, hn⟩
    | dict _ => exact PS.throwPy _
    | set _ => exact PS.throwPy _
    | inst _ _ _ => exact PS.throwPy _

theorem getDict_ps (coll : Ref) :
    PS h₀ A (getDict coll) (fun p => coll = .obj p.1 ∧ NodeAt h₀ A p.1 (.dict p.2)) := by
  unfold getDict
  cases coll with
  | sc s => exact PS.throwPy _
  | obj i =>
    refine (PS.getNode i).bind (fun node hn => ?_)
    cases node with
    | dict xs => exact PS.pure ⟨rfl, hn⟩
    | list _ => exact PS.throwPy _
    | set _ => exact PS.throwPy _
    | inst _ _ _ => exact PS.throwPy _

theorem getSet_ps (coll : Ref) : PS h₀ A (getSet coll) (fun p => coll = .obj p.1) := by
  unfold getSet
  cases coll with
  | sc s => exact PS.throwPy _
  | obj i =>
    refine (PS.getNode i).bind (fun node hn => ?_)
    cases node with
    | set xs => exact PS.pure rfl
    | list _ => exact PS.throwPy _
    | dict _ => exact PS.throwPy _
    | inst _ _ _ => exact PS.throwPy _

theorem mem_pyInsert {α : Type} {xs : List α} {n : Int} {x y : α} (h : y ∈ pyInsert xs n x) :
    y = x ∨ y ∈ xs := by
  unfold pyInsert at h
  simp only [List.mem_append, List.mem_cons] at h
  rcases h with h | h | h
  · exact Or.inr (List.mem_of_mem_take h)
  · exact Or.inl h
  · exact Or.inr (List.mem_of_mem_drop h)

/-- `_inserter` of a sequence into a new collection, storing a good item. -/
theorem seqInsert_ps (X : Ctx) (hW : World X h₀ A TAll) (ik : Kind) {coll : Ref} (idx : Option Ref)
    (item : Ref) (insert : Bool) (hc : FreshRef h₀.length coll) (hi : Good h₀.length A item) :
    PS h₀ A (seqInsert X ik coll idx item insert) (fun _ => True) := by
  unfold seqInsert
  refine PS.getHeap.bind (fun h _ => ?_)
  refine (guardM_ps _ _).bind (fun _ _ => ?_)
  refine (getList_ps coll).bind (fun p hp => ?_)
  have hj : h₀.length ≤ p.1 := hc p.1 hp.1
  have hxs : ∀ r, r ∈ p.2 → Good h₀.length A r := hp.2.2 hj
  split
  · refine PS.write _ hj ?_
    intro r hr
    simp only [Node.children, List.mem_append, List.mem_singleton] at hr
    rcases hr with hr | hr
    · exact hxs r hr
    · rw [hr]; exact hi
  · refine PS.ite (fun _ => ?_) (fun _ => ?_)
    · refine PS.write _ hj ?_
      intro r hr
      rcases mem_pyInsert hr with hr | hr
      · rw [hr]; exact hi
      · exact hxs r hr
    · split
      · refine PS.write _ hj ?_
        intro r hr
        rcases List.mem_or_eq_of_mem_set hr with hr | hr
        · exact hxs r hr
        · rw [hr]; exact hi
      · exact PS.throwPy _
  · exact PS.throwPy _

theorem mapExtract_ps (X : Ctx) (hW : World X h₀ A TAll) (coll key : Ref) (raise : Bool)
    (hc : Good h₀.length A coll) :
    PS h₀ A (mapExtract coll key raise) (fun e => Good h₀.length A e.2) := by
  unfold mapExtract
  refine (getDict_ps coll).bind (fun p hp => ?_)
  have hkv : ∀ kv, kv ∈ p.2 → Good h₀.length A kv.2 :=
    good_of_children_dict (hp.2.good hW (by rw [← hp.1]; exact hc))
  split
  · split
    · rename_i v hv
      exact PS.pure (hkv _ (alGet_mem hv))
    · exact PS.ite (fun _ => PS.throwPy _) (fun _ => PS.pure (good_sc _))
  · exact PS.throwPy _

theorem mapInsert_ps (X : Ctx) (hW : World X h₀ A TAll) (ik : Kind) {coll : Ref} (key item : Ref)
    (hc : FreshRef h₀.length coll) (hi : Good h₀.length A item) :
    PS h₀ A (mapInsert X ik coll key item) (fun _ => True) := by
  unfold mapInsert
  refine PS.getHeap.bind (fun h _ => ?_)
  refine (guardM_ps _ _).bind (fun _ _ => ?_)
  split
  · refine (guardM_ps _ _).bind (fun _ _ => ?_)
    refine (getDict_ps coll).bind (fun p hp => ?_)
    have hj : h₀.length ≤ p.1 := hc p.1 hp.1
    refine PS.write _ hj (children_dict_good ?_)
    intro kv hkv
    rcases mem_alSet hkv with h | h
    · rw [h]; exact hi
    · exact good_of_children_dict (hp.2.2 hj) kv h
  · exact PS.throwPy _

theorem setInsert_ps (X : Ctx) (ik : Kind) {coll : Ref} (idx item : Ref) (replace : Bool)
    (hc : FreshRef h₀.length coll) :
    PS h₀ A (setInsert X ik coll idx item replace) (fun _ => True) := by
  unfold setInsert
  refine PS.getHeap.bind (fun h _ => ?_)
  refine (guardM_ps _ _).bind (fun _ _ => ?_)
  refine (getSet_ps coll).bind (fun p hp => ?_)
  split
  · exact PS.write _ (hc p.1 hp) (fun r hr => by cases hr)
  · exact PS.throwPy _

/-! ### `mutate_value` without attribute steps -/

theorem mem_filter_good {n₀ A} {attrs : List (Nat × Ref)} {f : Nat × Ref → Bool}
    (h : ∀ av, av ∈ attrs → Good n₀ A av.2) : ∀ av, av ∈ attrs.filter f → Good n₀ A av.2 :=
  fun av hav => h av (List.mem_filter.1 hav).1

theorem defaultConstruct_ps (X : Ctx) (hM : MakeGood h₀ A X) (k : Kind) (attrs : List (Nat × Ref))
    (ha : ∀ av, av ∈ attrs → Good h₀.length A av.2) :
    PS h₀ A (defaultConstruct X k attrs) (fun p => GN h₀.length A p.1) := by
  unfold defaultConstruct
  cases k with
  | int => exact PS.pure (gn_sc (fun h => by cases h))
  | str => exact PS.pure (gn_sc (fun h => by cases h))
  | listInt => exact (createColl_ps _).bind (fun r hr => PS.pure hr.gn)
  | listSpec c => exact (createColl_ps _).bind (fun r hr => PS.pure hr.gn)
  | dictStrInt => exact (createColl_ps _).bind (fun r hr => PS.pure hr.gn)
  | setInt => exact (createColl_ps _).bind (fun r hr => PS.pure hr.gn)
  | spec c => exact (hM c _ (mem_filter_good ha)).bind (fun r hr => PS.pure hr.gn)

theorem dictAsCtorArgs_ps (X : Ctx) (hM : MakeGood h₀ A X) (ctor : Option Kind) (value : Ref)
    (attrs : List (Nat × Ref)) (ha : ∀ av, av ∈ attrs → Good h₀.length A av.2) :
    PS h₀ A (dictAsCtorArgs X ctor value attrs)
      (fun o => ∀ r, o = some r → GN h₀.length A r) := by
  unfold dictAsCtorArgs
  refine PS.getHeap.bind (fun h _ => ?_)
  have hnone : PS h₀ A (pure none : M (Option Ref))
      (fun o => ∀ r, o = some r → GN h₀.length A r) :=
    PS.pure (fun r hr => by cases hr)
  split
  · split
    · refine PS.ite (fun _ => hnone) (fun _ => ?_)
      refine PS.ite (fun _ => PS.throwPy _) (fun _ => ?_)
      split
      · exact PS.ite (fun _ => PS.pure (fun r hr => by
          cases hr; exact gn_sc (fun h => by cases h))) (fun _ => PS.throwPy _)
      · exact PS.ite (fun _ => PS.pure (fun r hr => by
          cases hr; exact gn_sc (fun h => by cases h))) (fun _ => PS.throwPy _)
      · exact (hM _ _ (mem_filter_good ha)).bind
          (fun r hr => PS.pure (fun r' hr' => by cases hr'; exact hr.gn))
      · exact PS.throwPy _
    · exact hnone
  · exact hnone

theorem mvConstruct_ps (X : Ctx) (hM : MakeGood h₀ A X) (p : MV) (value : Ref)
    (hv : Good h₀.length A value) (ha : ∀ av, av ∈ p.attrs → Good h₀.length A av.2) :
    PS h₀ A (mvConstruct X p value)
      (fun r => Good h₀.length A r.1 ∧ (p.ctor ≠ none → r.1 ≠ .sc .missing)) := by
  unfold mvConstruct
  refine (dictAsCtorArgs_ps X hM _ _ _ ha).bind (fun o ho => ?_)
  split
  · exact PS.pure ⟨(ho _ rfl).1, fun _ => (ho _ rfl).2⟩
  · refine PS.ite (fun _ => ?_) (fun hne => PS.pure ⟨hv, fun _ => hne⟩)
    split
    · exact (defaultConstruct_ps X hM _ _ ha).bind (fun r hr => PS.pure ⟨hr.1, fun _ => hr.2⟩)
    · rename_i hnone
      exact PS.pure ⟨hv, fun hc => (hc hnone).elim⟩

theorem mvChoose_good (p : MV) (ho : Good h₀.length A p.old) (hn : Good h₀.length A p.new) :
    Good h₀.length A (mvChoose p).1 := by
  unfold mvChoose
  split
  · exact hn
  · split
    · exact ho
    · exact good_sc _

theorem mutateValue0_ps (X : Ctx) (hW : World X h₀ A TAll) (hM : MakeGood h₀ A X) (p : MV)
    (ho : Good h₀.length A p.old) (hn : Good h₀.length A p.new) :
    PS h₀ A (mutateValue0 X p)
      (fun r => Good h₀.length A r ∧ (p.ctor ≠ none → p.transform = none → r ≠ .sc .missing)) := by
  unfold mutateValue0
  refine (mvApply_ps X hW _ _ (mvChoose_good p ho hn)).bind (fun v1 hv1 => ?_)
  refine (mvConstruct_ps X hM { p with attrs := [] } v1 hv1 (fun av hav => by cases hav)).bind
    (fun r hr => ?_)
  refine ((mvApply_ps X hW p.transform r.1 hr.1).and ?_).mono
    (fun x hx => ⟨hx.1, hx.2⟩)
  intro s hs
  refine ⟨((mvApply_ps X hW p.transform r.1 hr.1) s hs).1, ?_⟩
  intro x hx hc ht
  rw [ht] at hx
  unfold mvApply at hx
  cases hx
  exact hr.2 hc

/-! ### Preparing a whole collection -/

theorem seqAddAll_ps (X : Ctx) (hW : World X h₀ A TAll) (hM : MakeGood h₀ A X) (d : AttrDecl)
    {coll : Ref} (hc : FreshRef h₀.length coll) :
    ∀ items, (∀ r, r ∈ items → Good h₀.length A r) →
      PS h₀ A (seqAddAll X d coll items) (fun _ => True) := by
  intro items
  induction items with
  | nil => intro _; exact PS.pure trivial
  | cons item rest ih =>
    intro hi
    unfold seqAddAll
    refine (mutateValue0_ps X hW hM _ (good_sc _) (hi item List.mem_cons_self)).bind
      (fun v hv => ?_)
    exact (seqInsert_ps X hW _ _ _ _ hc hv.1).bind
      (fun _ _ => ih (fun r hr => hi r (List.mem_cons_of_mem _ hr)))

theorem mapAddAll_ps (X : Ctx) (hW : World X h₀ A TAll) (hM : MakeGood h₀ A X) (d : AttrDecl)
    {coll : Ref} (hc : FreshRef h₀.length coll) :
    ∀ items : List (Sc × Ref), (∀ kv, kv ∈ items → Good h₀.length A kv.2) →
      PS h₀ A (mapAddAll X d coll items) (fun _ => True) := by
  intro items
  induction items with
  | nil => intro _; exact PS.pure trivial
  | cons item rest ih =>
    intro hi
    obtain ⟨k, item⟩ := item
    unfold mapAddAll
    refine (mapExtract_ps X hW _ _ _ hc.good).bind (fun e he => ?_)
    refine (mutateValue0_ps X hW hM _ he (hi (k, item) List.mem_cons_self)).bind (fun v hv => ?_)
    exact (mapInsert_ps X hW _ _ _ hc hv.1).bind
      (fun _ _ => ih (fun r hr => hi r (List.mem_cons_of_mem _ hr)))

theorem setAddAll_ps (X : Ctx) (hW : World X h₀ A TAll) (hM : MakeGood h₀ A X) (d : AttrDecl)
    {coll : Ref} (hc : FreshRef h₀.length coll) :
    ∀ items, (∀ r, r ∈ items → Good h₀.length A r) →
      PS h₀ A (setAddAll X d coll items) (fun _ => True) := by
  intro items
  induction items with
  | nil => intro _; exact PS.pure trivial
  | cons item rest ih =>
    intro hi
    unfold setAddAll
    refine (mutateValue0_ps X hW hM _ (good_sc _) (hi item List.mem_cons_self)).bind
      (fun v hv => ?_)
    exact (setInsert_ps X _ _ _ _ hc).bind
      (fun _ _ => ih (fun r hr => hi r (List.mem_cons_of_mem _ hr)))

/-- Iterating a good value yields good items. -/
theorem iterItems_good (X : Ctx) (hW : World X h₀ A TAll) {h : Heap} (hi : HInv h₀ A h)
    {items : Ref} (hg : Good h₀.length A items) {xs : List Ref} (hx : iterItems h items = some xs) :
    ∀ r, r ∈ xs → Good h₀.length A r := by
  intro r hr
  cases items with
  | sc s =>
    cases s with
    | str t =>
      cases t with
      | zero => simp [iterItems] at hx; subst hx; cases hr
      | succ t => simp [iterItems] at hx; subst hx; simp at hr; subst hr; trivial
    | none => simp [iterItems] at hx
    | missing => simp [iterItems] at hx
    | bool _ => simp [iterItems] at hx
    | int _ => simp [iterItems] at hx
  | obj i =>
    unfold iterItems at hx
    simp only at hx
    split at hx
    · rename_i ys hn
      injection hx with hx; subst hx
      exact (hi.nodeAt hn).good hW hg r hr
    · injection hx with hx; subst hx
      obtain ⟨s, _, rfl⟩ := List.mem_map.1 hr
      trivial
    · injection hx with hx; subst hx
      obtain ⟨s, _, rfl⟩ := List.mem_map.1 hr
      trivial
    · cases hx

theorem addItems_ps (X : Ctx) (hW : World X h₀ A TAll) (hM : MakeGood h₀ A X) (d : AttrDecl)
    (fam : Fam) {coll : Ref} (items : Ref) (hc : FreshRef h₀.length coll)
    (hi : Good h₀.length A items) :
    PS h₀ A (addItems X d fam coll items) (fun _ => True) := by
  unfold addItems
  refine PS.getHeap.bind (fun h hh => ?_)
  cases fam with
  | map =>
    simp only
    split
    · split
      · rename_i i kvs hn
        exact mapAddAll_ps X hW hM d hc _
          (good_of_children_dict ((hh.nodeAt hn).good hW hi))
      · exact PS.throwPy _
    · exact PS.throwPy _
  | seq =>
    simp only
    split
    · rename_i xs hx
      exact seqAddAll_ps X hW hM d hc _ (iterItems_good X hW hh hi hx)
    · exact PS.throwPy _
  | set =>
    simp only
    split
    · rename_i xs hx
      exact setAddAll_ps X hW hM d hc _ (iterItems_good X hW hh hi hx)
    · exact PS.throwPy _

theorem collPrepare_ps (X : Ctx) (hW : World X h₀ A TAll) (hM : MakeGood h₀ A X) (d : AttrDecl)
    (fam : Fam) (coll : Ref) (hc : Good h₀.length A coll) :
    PS h₀ A (collPrepare X d fam coll) (GN h₀.length A) := by
  unfold collPrepare
  have h1 : PS h₀ A
      (if (coll = .sc .none || coll = .sc .missing) = true then createColl fam else pure coll)
      (GN h₀.length A) :=
    PS.ite (fun _ => (createColl_ps fam).mono (fun r hr => hr.gn))
      (fun hne => PS.pure ⟨hc, fun he => hne (by rw [he]; simp)⟩)
  refine h1.bind (fun coll' hc' => ?_)
  refine PS.getHeap.bind (fun h _ => ?_)
  refine PS.ite (fun _ => ?_) (fun _ => PS.pure hc')
  refine (createColl_ps fam).bind (fun fresh hf => ?_)
  exact (addItems_ps X hW hM d fam _ hf.fn.1 hc'.1).bind (fun _ _ => PS.pure hf.gn)

theorem prepareAttrValue0_ps (X : Ctx) (hW : World X h₀ A TAll) (hM : MakeGood h₀ A X)
    (d : AttrDecl) (v : Ref) (hv : Good h₀.length A v) :
    PS h₀ A (prepareAttrValue0 X d v) (GN h₀.length A) := by
  unfold prepareAttrValue0
  refine (mutateValue0_ps X hW hM _ (good_sc _) hv).bind (fun v1 hv1 => ?_)
  split
  · exact collPrepare_ps X hW hM d _ _ hv1.1
  · exact PS.pure ⟨hv1.1, hv1.2 (fun h => by cases h) rfl⟩

/-! ### Instances: accessors, `mutate_attr`, `__setattr__` -/

theorem getInst_ps (r : Ref) :
    PS h₀ A (getInst r)
      (fun p => r = .obj p.1 ∧ NodeAt h₀ A p.1 (.inst p.2.1 p.2.2.1 p.2.2.2)) := by
  unfold getInst
  cases r with
  | sc s => exact PS.throwPy _
  | obj i =>
    refine (PS.getNode i).bind (fun node hn => ?_)
    cases node with
    | inst c t fs => exact PS.pure ⟨rfl, hn⟩
    | list _ => exact PS.throwPy _
    | dict _ => exact PS.throwPy _
    | set _ => exact PS.throwPy _

theorem getAttrD_ps (X : Ctx) (hW : World X h₀ A TAll) (r : Ref) (a : Nat)
    (hr : Good h₀.length A r) : PS h₀ A (getAttrD r a) (Good h₀.length A) := by
  unfold getAttrD
  cases r with
  | sc s => exact PS.pure (good_sc _)
  | obj i =>
    refine (PS.getNode i).bind (fun node hn => ?_)
    cases node with
    | inst c t fs =>
      simp only
      cases hv : alGet a fs with
      | none => exact PS.pure (good_sc _)
      | some v => exact PS.pure (good_of_children_inst (hn.good hW hr) _ (alGet_mem hv))
    | list _ => exact PS.pure (good_sc _)
    | dict _ => exact PS.pure (good_sc _)
    | set _ => exact PS.pure (good_sc _)

theorem rawSet_ps {r : Ref} (a : Nat) (v : Ref) (hr : FreshRef h₀.length r)
    (hv : Good h₀.length A v) : PS h₀ A (rawSet r a v) (fun _ => True) := by
  unfold rawSet
  refine (getInst_ps r).bind (fun p hp => ?_)
  obtain ⟨i, c, t, fs⟩ := p
  have hj : h₀.length ≤ i := hr i hp.1
  refine PS.write _ hj (children_inst_good ?_)
  intro av hav
  rcases mem_alSet hav with h | h
  · rw [h]; exact hv
  · exact good_of_children_inst (hp.2.2 hj) av h

theorem setThaw_ps {i : Nat} (b : Bool) (hi : h₀.length ≤ i) :
    PS h₀ A (setThaw i b) (fun _ => True) := by
  unfold setThaw
  refine (PS.getNode i).bind (fun node hn => ?_)
  cases node with
  | inst c t fs => exact PS.write _ hi (hn.2 hi)
  | list _ => exact PS.pure trivial
  | dict _ => exact PS.pure trivial
  | set _ => exact PS.pure trivial

theorem thawed_ps (X : Ctx) {r : Ref} {body : M α} {Q : α → Prop}
    (hr : FreshRef h₀.length r) (hb : PS h₀ A body Q) : PS h₀ A (thawed X r body) Q := by
  unfold thawed
  cases r with
  | sc s => exact hb
  | obj i =>
    refine (PS.getNode i).bind (fun node _ => ?_)
    cases node with
    | inst c t fs =>
      simp only
      refine PS.ite (fun _ => ?_) (fun _ => hb)
      exact (setThaw_ps true (hr i rfl)).bind (fun _ _ =>
        PS.tryFinally hb (setThaw_ps false (hr i rfl)))
    | list _ => exact hb
    | dict _ => exact hb
    | set _ => exact hb

/-- `mutate_attr` storing a good value: in place on a new object, or copy-on-write. -/
theorem mutateAttr_ps (X : Ctx) (hX : NoClassDnc X) (hW : World X h₀ A TAll) (obj : Ref) (a : Nat)
    (v : Ref) (inplace typeCheck force : Bool) (hobj : inplace = true → FreshRef h₀.length obj)
    (hv : Good h₀.length A v) :
    PS h₀ A (mutateAttr X obj a v inplace typeCheck force)
      (fun r => inplace = false → v ≠ .sc .missing → FreshRef h₀.length r) := by
  unfold mutateAttr
  refine PS.ite (fun hm => PS.pure (fun _ hne => (hne hm).elim)) (fun _ => ?_)
  refine (getInst_ps obj).bind (fun p hp => ?_)
  refine (guardM_ps _ _).bind (fun _ _ => ?_)
  refine PS.getHeap.bind (fun h _ => ?_)
  refine (guardM_ps _ _).bind (fun _ _ => ?_)
  refine PS.ite (fun hc => ?_) (fun hc => ?_)
  · refine (deepcopy_ps X hX hW obj (good_tall _ _)).bind (fun target ht => ?_)
    exact (thawed_ps X ht (rawSet_ps a v ht hv)).bind (fun _ _ => PS.pure (fun _ _ => ht))
  · have hi : inplace = true := by
      simp [hX p.2.1] at hc
      exact hc
    exact (rawSet_ps a v (hobj hi) hv).bind
      (fun _ _ => PS.pure (fun hf _ => by rw [hi] at hf; cases hf))

theorem setAttr_ps (X : Ctx) (hX : NoClassDnc X) (hW : World X h₀ A TAll) (hM : MakeGood h₀ A X)
    {obj : Ref} (a : Nat) (v : Ref) (force : Bool) (ho : FreshRef h₀.length obj)
    (hv : Good h₀.length A v) : PS h₀ A (setAttr X obj a v force) (fun _ => True) := by
  unfold setAttr
  refine (getInst_ps obj).bind (fun p _ => ?_)
  have h1 : PS h₀ A
      (match (X.cd p.2.1).attr? a with
        | some d => prepareAttrValue0 X d v
        | none => pure v) (Good h₀.length A) := by
    split
    · exact (prepareAttrValue0_ps X hW hM _ _ hv).mono (fun r hr => hr.1)
    · exact PS.pure hv
  refine h1.bind (fun v' hv' => ?_)
  exact (mutateAttr_ps X hX hW obj a v' true true force (fun _ => ho) hv').bind
    (fun _ _ => PS.pure trivial)

/-! ### Defaults -/

theorem makeN_ps (X : Ctx) (hM : MakeGood h₀ A X) (c : Nat) :
    ∀ n, PS h₀ A (makeN X c n) (fun xs => ∀ r, r ∈ xs → Good h₀.length A r) := by
  intro n
  induction n with
  | zero => exact PS.pure (fun r hr => by cases hr)
  | succ n ih =>
    unfold makeN
    refine (hM c [] (fun av hav => by cases hav)).bind (fun r hr => ?_)
    refine ih.bind (fun rs hrs => PS.pure ?_)
    intro x hx
    rcases List.mem_cons.1 hx with h | h
    · rw [h]; exact hr.good
    · exact hrs x h

theorem instantiate_ps (X : Ctx) (hM : MakeGood h₀ A X) (lit : Lit) :
    PS h₀ A (instantiate X lit) (FreshRef h₀.length) := by
  unfold instantiate
  cases lit with
  | sc s => exact PS.pure (freshRef_sc s)
  | list xs =>
    refine (PS.alloc _ ?_).bind (fun j hj => PS.pure (freshRef_obj hj))
    intro r hr
    simp only [Node.children, List.mem_map] at hr
    obtain ⟨s, _, rfl⟩ := hr
    trivial
  | dict kvs =>
    refine (PS.alloc _ ?_).bind (fun j hj => PS.pure (freshRef_obj hj))
    intro r hr
    simp only [Node.children, List.mem_map] at hr
    obtain ⟨kv, ⟨kv', _, rfl⟩, rfl⟩ := hr
    trivial
  | set xs => exact (PS.alloc _ (fun r hr => by cases hr)).bind (fun j hj => PS.pure (freshRef_obj hj))
  | newInst c => exact (hM c [] (fun av hav => by cases hav)).mono (fun r hr => hr.fn.1)
  | listInst c n =>
    exact (makeN_ps X hM c n).bind (fun xs hxs =>
      (PS.alloc (.list xs) hxs).bind (fun j hj => PS.pure (freshRef_obj hj)))

theorem defaultValue_ps (X : Ctx) (hX : NoClassDnc X) (hW : World X h₀ A TAll)
    (hM : MakeGood h₀ A X) (d : AttrDecl) : PS h₀ A (defaultValue X d) (FreshRef h₀.length) := by
  unfold defaultValue
  split
  · exact PS.pure (freshRef_sc _)
  · exact instantiate_ps X hM _
  · exact instantiate_ps X hM _
  · split
    · exact protect_ps X hX hW _ (good_tall _ _)
    · exact PS.pure (freshRef_sc _)

theorem lookupDefault_ps (X : Ctx) (hX : NoClassDnc X) (hW : World X h₀ A TAll)
    (hM : MakeGood h₀ A X) (d : AttrDecl) :
    ∀ fuel c, PS h₀ A (lookupDefault X d fuel c) (FreshRef h₀.length) := by
  intro fuel
  induction fuel with
  | zero => intro c; unfold lookupDefault; exact PS.pure (freshRef_sc _)
  | succ fuel ih =>
    intro c
    unfold lookupDefault
    refine PS.ite (fun _ => defaultValue_ps X hX hW hM d) (fun _ => ?_)
    simp only
    refine PS.ite (fun _ => ?_) (fun _ => ?_)
    · split
      · exact protect_ps X hX hW _ (good_tall _ _)
      · exact PS.pure (freshRef_sc _)
    · split
      · exact ih _
      · exact PS.pure (freshRef_sc _)

theorem lookupDefaultFor_ps (X : Ctx) (hX : NoClassDnc X) (hW : World X h₀ A TAll)
    (hM : MakeGood h₀ A X) (d : AttrDecl) (c : Nat) :
    PS h₀ A (lookupDefaultFor X d c) (FreshRef h₀.length) :=
  lookupDefault_ps X hX hW hM d _ c

/-! ### `__init__` -/

theorem parentKwargs_ps (X : Ctx) (hX : NoClassDnc X) (hW : World X h₀ A TAll)
    (hM : MakeGood h₀ A X) (c specC : Nat) (kw : List (Nat × Ref)) :
    ∀ ds, (∀ d, d ∈ ds → d.dnc = true → ∀ v, alGet d.name kw = some v → Good h₀.length A v) →
      PS h₀ A (parentKwargs X c specC kw ds) (fun pk => ∀ av, av ∈ pk → Good h₀.length A av.2) := by
  intro ds
  induction ds with
  | nil => intro _; exact PS.pure (fun av hav => by cases hav)
  | cons d ds ih =>
    intro hkw
    have ih' := ih (fun d' hd' => hkw d' (List.mem_cons_of_mem _ hd'))
    unfold parentKwargs
    refine PS.ite (fun _ => ih') (fun _ => ?_)
    have h1 : PS h₀ A
        (match alGet d.name kw with
          | some v => if d.dnc = true then pure v else protect X v
          | none => lookupDefaultFor X d c) (Good h₀.length A) := by
      split
      · rename_i v hv
        exact PS.ite (fun hd => PS.pure (hkw d List.mem_cons_self hd v hv))
          (fun _ => (protect_ps X hX hW _ (good_tall _ _)).mono (fun r hr => hr.good))
      · exact (lookupDefaultFor_ps X hX hW hM _ _).mono (fun r hr => hr.good)
    refine h1.bind (fun v hv => ?_)
    refine ih'.bind (fun rest hrest => PS.pure ?_)
    split
    · exact hrest
    · intro av hav
      rcases List.mem_cons.1 hav with h | h
      · rw [h]; exact hv
      · exact hrest av h

theorem initAttrs_ps (X : Ctx) (hX : NoClassDnc X) (hW : World X h₀ A TAll) (hM : MakeGood h₀ A X)
    {self : Ref} (c : Nat) (kw : List (Nat × Ref)) (copyArgs : Bool) (sel : AttrDecl → Bool)
    (hs : FreshRef h₀.length self) :
    ∀ ds, (∀ d, d ∈ ds → sel d = true → (copyArgs && !d.dnc) = false →
        ∀ v, alGet d.name kw = some v → Good h₀.length A v) →
      PS h₀ A (initAttrs X self c kw copyArgs sel ds) (fun _ => True) := by
  intro ds
  induction ds with
  | nil => intro _; exact PS.pure trivial
  | cons d ds ih =>
    intro hkw
    have ih' := ih (fun d' hd' => hkw d' (List.mem_cons_of_mem _ hd'))
    unfold initAttrs
    refine PS.bind (Q := fun _ => True) ?_ (fun _ _ => ih')
    refine PS.ite (fun hsel => ?_) (fun _ => PS.pure trivial)
    simp only
    have hsup : (copyArgs && !d.dnc) = false →
        Good h₀.length A ((alGet d.name kw).getD (.sc .missing)) := by
      intro hc
      cases hv : alGet d.name kw with
      | none => exact good_sc _
      | some v => exact hkw d List.mem_cons_self hsel hc v hv
    have h1 : PS h₀ A
        (if ((alGet d.name kw).getD (.sc .missing) != .sc .missing) = true then
            (if (copyArgs && !d.dnc) = true then protect X ((alGet d.name kw).getD (.sc .missing))
             else pure ((alGet d.name kw).getD (.sc .missing)))
          else lookupDefaultFor X d c) (Good h₀.length A) :=
      PS.ite
        (fun _ => PS.ite
          (fun _ => (protect_ps X hX hW _ (good_tall _ _)).mono (fun r hr => hr.good))
          (fun hc => PS.pure (hsup (by simpa using hc))))
        (fun _ => (lookupDefaultFor_ps X hX hW hM _ _).mono (fun r hr => hr.good))
    refine h1.bind (fun v hv => ?_)
    exact PS.ite (fun _ => setAttr_ps X hX hW hM _ _ _ hs hv) (fun _ => PS.pure trivial)

/-- `Cls(**kw)`: values supplied for `do_not_copy` attributes must be allowed
(they are stored as they are); everything else is copied or built. -/
theorem constructBody_ps (X : Ctx) (hX : NoClassDnc X) (hW : World X h₀ A TAll)
    (hM : MakeGood h₀ A X) (c : Nat) (kw : List (Nat × Ref))
    (hkw : ∀ d, d ∈ (X.cd c).attrs → d.dnc = true →
      ∀ v, alGet d.name kw = some v → Good h₀.length A v) :
    PS h₀ A (constructBody X c kw) (FreshObj h₀.length) := by
  unfold constructBody
  simp only
  refine (guardM_ps _ _).bind (fun _ _ => ?_)
  refine (PS.alloc _ (fun r hr => by cases hr)).bind (fun i hi => ?_)
  have hw : FreshRef h₀.length (.obj i) := freshRef_obj hi
  refine (setThaw_ps true hi).bind (fun _ _ => ?_)
  refine PS.bind (Q := fun _ => True) ?_ (fun _ _ => ?_)
  · refine PS.ite (fun _ => ?_) (fun _ => PS.pure trivial)
    refine (parentKwargs_ps X hX hW hM _ _ _ _ hkw).bind (fun pk hpk => ?_)
    exact initAttrs_ps X hX hW hM _ _ _ _ hw _
      (fun d _ _ _ v hv => hpk _ (alGet_mem hv))
  · refine (initAttrs_ps X hX hW hM _ _ _ _ hw _ ?_).bind (fun _ _ => ?_)
    · intro d hd _ hc v hv
      have hdnc : d.dnc = true := by
        cases hdd : d.dnc with
        | true => rfl
        | false => rw [hdd] at hc; simp at hc
      exact hkw d hd hdnc v hv
    · exact (setThaw_ps false hi).bind (fun _ _ => PS.pure ⟨i, rfl, hi⟩)

theorem construct_ps (X : Ctx) (hX : NoClassDnc X) (hW : World X h₀ A TAll) :
    ∀ fuel c kw, (∀ d, d ∈ (X.cd c).attrs → d.dnc = true →
        ∀ v, alGet d.name kw = some v → Good h₀.length A v) →
      PS h₀ A (construct X fuel c kw) (FreshObj h₀.length) := by
  intro fuel
  induction fuel with
  | zero => intro c kw _; unfold construct; exact PS.throwPy _
  | succ fuel ih =>
    intro c kw hkw
    unfold construct
    refine constructBody_ps _ (noClassDnc_with_make X hX _) (hW.with_make _) ?_ c kw hkw
    intro c' kw' hkw'
    exact ih c' kw' (fun d _ _ v hv => hkw' _ (alGet_mem hv))

/-- A closed context satisfies `MakeGood`. -/
theorem makeGood_close (X : Ctx) (hX : NoClassDnc X) (hW : World X h₀ A TAll) :
    MakeGood h₀ A X.close :=
  fun c kw hkw => construct_ps X hX hW _ c kw (fun d _ _ v hv => hkw _ (alGet_mem hv))

theorem World.close {X : Ctx} {T : Nat → Prop} (hW : World X h₀ A T) : World X.close h₀ A T :=
  hW.with_make _

/-! ### `__delattr__`, `reset_attr`, `with_attr`, `reset` -/

theorem delAttr_ps (X : Ctx) (hX : NoClassDnc X) (hW : World X h₀ A TAll) (hM : MakeGood h₀ A X)
    {obj : Ref} (a : Nat) (force : Bool) (ho : FreshRef h₀.length obj) :
    PS h₀ A (delAttr X obj a force) (fun _ => True) := by
  unfold delAttr
  refine (getInst_ps obj).bind (fun p _ => ?_)
  refine (guardM_ps _ _).bind (fun _ _ => ?_)
  have h1 : PS h₀ A
      (match (X.cd p.2.1).attr? a with
        | some d => if (!force) = true then lookupDefaultFor X d p.2.1 else pure (.sc .missing)
        | none => pure (.sc .missing)) (Good h₀.length A) := by
    split
    · exact PS.ite (fun _ => (lookupDefaultFor_ps X hX hW hM _ _).mono (fun r hr => hr.good))
        (fun _ => PS.pure (good_sc _))
    · exact PS.pure (good_sc _)
  refine h1.bind (fun dflt hdflt => ?_)
  refine PS.ite (fun _ => ?_) (fun _ => ?_)
  · refine (getInst_ps obj).bind (fun q hq => ?_)
    have hj : h₀.length ≤ q.1 := ho q.1 hq.1
    refine PS.ite (fun _ => PS.write _ hj (children_inst_good ?_)) (fun _ => PS.throwPy _)
    intro av hav
    exact good_of_children_inst (hq.2.2 hj) av (mem_alDel hav)
  · split
    · rw [prepareAttrValue_nil]
      refine (prepareAttrValue0_ps X hW hM _ _ hdflt).bind (fun v hv => ?_)
      exact (mutateAttr_ps X hX hW obj a v true true true (fun _ => ho) hv.1).bind
        (fun _ _ => PS.pure trivial)
    · exact PS.pure trivial

theorem resetAttr_ps (X : Ctx) (hX : NoClassDnc X) (hW : World X h₀ A TAll) (hM : MakeGood h₀ A X)
    (self : Ref) (a : Nat) : PS h₀ A (resetAttr X self a false) (FreshRef h₀.length) := by
  unfold resetAttr
  simp only [Bool.not_false, if_true]
  refine (deepcopy_ps X hX hW self (good_tall _ _)).bind (fun copy hc => ?_)
  exact (thawed_ps X hc (delAttr_ps X hX hW hM a false hc)).bind (fun _ _ => PS.pure hc)

/-- `with_attr(a, v)` without keyword arguments, not in place; `v` must be allowed
(it is stored by reference unless the attribute prepares it into a new collection). -/
theorem withAttr_ps (X : Ctx) (hX : NoClassDnc X) (hW : World X h₀ A TAll) (hM : MakeGood h₀ A X)
    (self : Ref) (a : Nat) (v : Ref) (hv : Good h₀.length A v) :
    PS h₀ A (withAttr X self a v [] false) (FreshRef h₀.length) := by
  unfold withAttr
  refine (getInst_ps self).bind (fun p _ => ?_)
  split
  · exact PS.throwPy _
  · rw [prepareAttrValue_nil]
    refine (prepareAttrValue0_ps X hW hM _ _ hv).bind (fun v' hv' => ?_)
    exact (mutateAttr_ps X hX hW self a v' false true false (fun h => by cases h) hv'.1).mono
      (fun r hr => hr rfl hv'.2)

theorem resetLoop_ps (X : Ctx) (hX : NoClassDnc X) (hW : World X h₀ A TAll) (hM : MakeGood h₀ A X)
    {self : Ref} (hs : FreshRef h₀.length self) :
    ∀ ds, PS h₀ A (resetLoop X self ds) (fun _ => True) := by
  intro ds
  induction ds with
  | nil => exact PS.pure trivial
  | cons d ds ih =>
    unfold resetLoop
    exact (PS.tryCatch (delAttr_ps X hX hW hM _ _ hs) (PS.pure trivial)).bind (fun _ _ => ih)

theorem reset_ps (X : Ctx) (hX : NoClassDnc X) (hW : World X h₀ A TAll) (hM : MakeGood h₀ A X)
    (self : Ref) : PS h₀ A (reset X self false) (FreshRef h₀.length) := by
  unfold reset
  refine (getInst_ps self).bind (fun p _ => ?_)
  simp only [Bool.not_false, if_true]
  refine (deepcopy_ps X hX hW self (good_tall _ _)).bind (fun copy hc => ?_)
  exact (thawed_ps X hc (resetLoop_ps X hX hW hM hc _)).bind (fun _ _ => PS.pure hc)

end prov

/-! ## The world of the constructor and of the copy-on-write helpers -/

/-- `j` is reachable from the value of a `do_not_copy` attribute of *some*
instance of `h`. -/
def DncAny (X : Ctx) (h : Heap) (j : Nat) : Prop :=
  ∃ (i c : Nat) (t : Bool) (fs : List (Nat × Ref)) (a : Nat) (d : AttrDecl) (v : Ref),
    h[i]? = some (.inst c t fs) ∧ (X.cd c).attr? a = some d ∧ d.dnc = true ∧
    (a, v) ∈ fs ∧ Reach h v j

/-- The old objects a result may share: those reachable through a `do_not_copy`
attribute, and those reachable from one of the references in `S` (arguments
stored by reference). -/
def AllowedFrom (X : Ctx) (h : Heap) (S : Ref → Prop) (j : Nat) : Prop :=
  DncAny X h j ∨ ∃ v, S v ∧ Reach h v j

/-- Values supplied to `Cls(**kw)` for attributes declared `do_not_copy`. -/
def DncArg (X : Ctx) (c : Nat) (kw : List (Nat × Ref)) (v : Ref) : Prop :=
  ∃ d, d ∈ (X.cd c).attrs ∧ d.dnc = true ∧ alGet d.name kw = some v

theorem world_any (X : Ctx) (h : Heap) (S : Ref → Prop) :
    World X h (AllowedFrom X h S) TAll := by
  refine ⟨fun _ _ => trivial, ?_, fun _ _ _ _ r _ => good_tall _ r, ?_⟩
  · intro j n hj hn r' hr'
    cases r' with
    | sc s => trivial
    | obj k =>
      refine Or.inr ?_
      rcases hj with ⟨i, c, t, fs, a, d, v, hi, hd, hdnc, hav, hvj⟩ | ⟨v, hv, hvj⟩
      · exact Or.inl ⟨i, c, t, fs, a, d, v, hi, hd, hdnc, hav, hvj.tail hn hr'⟩
      · exact Or.inr ⟨v, hv, hvj.tail hn hr'⟩
  · intro i c t fs a d v _ hn hd hdnc hav
    cases v with
    | sc s => trivial
    | obj k => exact Or.inr (Or.inl ⟨i, c, t, fs, a, d, .obj k, hn, hd, hdnc, hav, Reach.self k⟩)

theorem good_of_S {X : Ctx} {h : Heap} {S : Ref → Prop} {v : Ref} (hv : S v) :
    Good h.length (AllowedFrom X h S) v := by
  cases v with
  | sc s => trivial
  | obj k => exact Or.inr (Or.inr ⟨.obj k, hv, Reach.self k⟩)

theorem not_dncAny_of_noAttrDnc {X : Ctx} (hN : NoAttrDnc X) {h : Heap} {j : Nat} :
    ¬ DncAny X h j := by
  rintro ⟨i, c, t, fs, a, d, v, _, hd, hdnc, _, _⟩
  rw [hN.attr? c a d hd] at hdnc
  cases hdnc

/-- The references an element operation receives. -/
def ElemOp.args : ElemOp → List Ref
  | .add item key _ attrs => item :: key :: attrs.map (fun av => av.2)
  | .upd key item _ attrs => item :: key :: attrs.map (fun av => av.2)
  | .tr key _ _ _ => [key]
  | .rm key _ => [key]

/-- The arguments of an operation that may be stored by reference. -/
def Op.args : Op → List Ref
  | .construct _ kw => kw.map (fun av => av.2)
  | .setattr _ _ v => [v]
  | .delattr _ _ => []
  | .withAttr _ _ v kw _ => v :: kw.map (fun av => av.2)
  | .updateAttr _ _ v kw _ => v :: kw.map (fun av => av.2)
  | .transformAttr _ _ _ _ _ => []
  | .resetAttr _ _ _ => []
  | .elem _ _ eop _ => eop.args
  | .update _ kw _ => kw.map (fun av => av.2)
  | .transform _ _ _ => []
  | .reset _ _ => []
  | .deepcopy _ => []

/-- Callbacks that return their argument or a scalar (no new list re-using old items). -/
def Cb.plain : Cb → Bool
  | .ident | .inc | .const _ | .absInt => true
  | _ => false

/-- Transform callbacks used by an operation. -/
def Op.cbs : Op → List Cb
  | .transformAttr _ _ f kwf _ => f.toList ++ kwf.map (fun af => af.2)
  | .transform _ kwf _ => kwf.map (fun af => af.2)
  | .elem _ _ (.tr _ f _ kwf) _ => f :: kwf.map (fun af => af.2)
  | _ => []

/-! ## Same content (for `reset_eq_fresh_Full`) -/

def RefRel (R : Nat → Nat → Prop) : Ref → Ref → Prop
  | .sc x, .sc y => x = y
  | .obj x, .obj y => R x y
  | _, _ => False

def RefsRel (R : Nat → Nat → Prop) : List Ref → List Ref → Prop
  | [], [] => True
  | x :: xs, y :: ys => RefRel R x y ∧ RefsRel R xs ys
  | _, _ => False

/-- Same shape, related children. -/
def NodeRel (R : Nat → Nat → Prop) : Node → Node → Prop
  | .list xs, .list ys => RefsRel R xs ys
  | .dict k₁, .dict k₂ =>
    k₁.map (fun kv => kv.1) = k₂.map (fun kv => kv.1) ∧
    RefsRel R (k₁.map (fun kv => kv.2)) (k₂.map (fun kv => kv.2))
  | .set xs, .set ys => xs = ys
  | .inst c₁ _ f₁, .inst c₂ _ f₂ =>
    c₁ = c₂ ∧ f₁.map (fun av => av.1) = f₂.map (fun av => av.1) ∧
    RefsRel R (f₁.map (fun av => av.2)) (f₂.map (fun av => av.2))
  | _, _ => False

/-- `r₁` in `h₁` and `r₂` in `h₂` denote isomorphic object graphs. -/
def SameContent (h₁ : Heap) (r₁ : Ref) (h₂ : Heap) (r₂ : Ref) : Prop :=
  ∃ R : Nat → Nat → Prop, RefRel R r₁ r₂ ∧
    ∀ x y, R x y → ∃ n₁ n₂, h₁[x]? = some n₁ ∧ h₂[y]? = some n₂ ∧ NodeRel R n₁ n₂


/-! ## Provenance of the keyword-attribute steps of `mutate_value` and of the remaining helpers -/

section og
variable {α β : Type} {h₀ : Heap} {A : Nat → Prop}

def IsObj (r : Ref) : Prop := ∃ j, r = .obj j

/-- `copy.deepcopy` of an object is an object. -/
theorem copyRef_isObj {n₀ : Nat} {W : Nat → Prop} (X : Ctx) (fuel i : Nat) (m : Memo) :
    Safe n₀ W (copyRef X fuel (.obj i) m) (fun p => IsObj p.1) := by
  cases fuel with
  | zero => unfold copyRef; exact Safe.throwPy _
  | succ fuel =>
    unfold copyRef
    split
    · exact Safe.pure ⟨_, rfl⟩
    · refine (Safe.getNode i).bind (fun node _ => ?_)
      cases node with
      | list xs =>
        refine (copyList_frame _ (copyRef_frame X fuel) xs m).bind (fun p _ => ?_)
        obtain ⟨ys, m1⟩ := p
        exact (Safe.alloc _).bind (fun j hj => Safe.pure ⟨_, rfl⟩)
      | dict kvs =>
        refine (copyKVs_frame _ (copyRef_frame X fuel) kvs m).bind (fun p _ => ?_)
        obtain ⟨ys, m1⟩ := p
        exact (Safe.alloc _).bind (fun j hj => Safe.pure ⟨_, rfl⟩)
      | set xs => exact (Safe.alloc _).bind (fun j hj => Safe.pure ⟨_, rfl⟩)
      | inst c thaw fs =>
        simp only
        refine Safe.ite (fun _ => Safe.pure ⟨_, rfl⟩) (fun _ => ?_)
        refine (Safe.alloc _).bind (fun j hj => ?_)
        refine (copyFields_frame _ (copyRef_frame X fuel) (X.cd c) j c false hj fs [] m).bind
          (fun m1 _ => ?_)
        have hpc : Safe n₀ W (if (X.cd c).postCopy = true then callCb .postCopy else pure ())
            (fun _ => True) :=
          Safe.ite (fun _ => Safe.callCb _) (fun _ => Safe.pure trivial)
        exact hpc.bind (fun _ _ => Safe.pure ⟨_, rfl⟩)

theorem protect_nm {n₀ : Nat} {W : Nat → Prop} (X : Ctx) (r : Ref) (hr : r ≠ .sc .missing) :
    Safe n₀ W (protect X r) (fun r' => r' ≠ .sc .missing) := by
  unfold protect
  cases r with
  | sc s => exact Safe.pure hr
  | obj i =>
    simp only
    unfold deepcopy
    refine Safe.getHeap.bind (fun h _ => ?_)
    refine (copyRef_isObj X _ i []).bind (fun p hp => ?_)
    obtain ⟨r', m⟩ := p
    obtain ⟨j, hj⟩ := hp
    simp only at hj
    subst hj
    exact Safe.pure (fun h => by cases h)

/-- Combine a provenance fact with a frame-logic fact about the same computation. -/
theorem PS.and_safe {m : M α} {Q Q' : α → Prop} (h : PS h₀ A m Q)
    (h' : Safe h₀.length (fun _ => False) m Q') : PS h₀ A m (fun a => Q a ∧ Q' a) := by
  intro s hs
  obtain ⟨hp, hq⟩ := h s hs
  obtain ⟨_, hq'⟩ := h' s hs.le
  exact ⟨hp, fun a ha => ⟨hq a ha, hq' a ha⟩⟩

/-! ### Callbacks applied to a value that is not (yet) allowed -/

theorem applyCb_og (X : Ctx) (hW : World X h₀ A TAll) (cb : Cb) (v : Ref)
    (hcb : cb.plain = true ∨ Good h₀.length A v) :
    PS h₀ A (applyCb cb v) (fun r => r = v ∨ FreshRef h₀.length r) := by
  rcases hcb with hcb | hv
  · unfold applyCb
    cases cb with
    | ident => exact PS.pure (Or.inl rfl)
    | const s => exact PS.pure (Or.inr (freshRef_sc s))
    | inc =>
      cases v with
      | sc s => cases s <;> first | exact PS.throwPy _ | exact PS.pure (Or.inr (freshRef_sc _))
      | obj i => exact PS.throwPy _
    | absInt =>
      cases v with
      | sc s =>
        cases s <;> first | exact PS.pure (Or.inl rfl) | exact PS.pure (Or.inr (freshRef_sc _))
      | obj i => exact PS.pure (Or.inl rfl)
    | append e => cases hcb
    | rebuild => cases hcb
  · exact ((applyCb_ps X hW cb v hv).and_safe (applyCb_safe cb v)).mono (fun r hr => hr.2)

/-- The optional callback is plain, or its argument is allowed. -/
def CbOK (n₀ : Nat) (A : Nat → Prop) (cb : Option (CbKind × Cb)) (v : Ref) : Prop :=
  (∀ k f, cb = some (k, f) → f.plain = true) ∨ Good n₀ A v

theorem mvApply_og (X : Ctx) (hW : World X h₀ A TAll) (cb : Option (CbKind × Cb)) (v : Ref)
    (hcb : CbOK h₀.length A cb v) :
    PS h₀ A (mvApply cb v) (fun r => r = v ∨ FreshRef h₀.length r) := by
  unfold mvApply
  split
  · rename_i k f
    unfold invoke
    refine (PS.callCb k).bind (fun _ _ => applyCb_og X hW f v ?_)
    rcases hcb with h | h
    · exact Or.inl (h k f rfl)
    · exact Or.inr h
  · exact PS.pure (Or.inl rfl)

/-! ### Steps 3/4 with the `mutate_safe` flag -/

theorem defaultConstruct_fresh (X : Ctx) (hM : MakeGood h₀ A X) (k : Kind)
    (attrs : List (Nat × Ref)) (ha : ∀ av, av ∈ attrs → Good h₀.length A av.2) :
    PS h₀ A (defaultConstruct X k attrs) (fun p => FN h₀.length p.1) := by
  unfold defaultConstruct
  cases k with
  | int => exact PS.pure ⟨freshRef_sc _, fun h => by cases h⟩
  | str => exact PS.pure ⟨freshRef_sc _, fun h => by cases h⟩
  | listInt => exact (createColl_ps _).bind (fun r hr => PS.pure hr.fn)
  | listSpec c => exact (createColl_ps _).bind (fun r hr => PS.pure hr.fn)
  | dictStrInt => exact (createColl_ps _).bind (fun r hr => PS.pure hr.fn)
  | setInt => exact (createColl_ps _).bind (fun r hr => PS.pure hr.fn)
  | spec c => exact (hM c _ (mem_filter_good ha)).bind (fun r hr => PS.pure hr.fn)

theorem dictAsCtorArgs_fresh (X : Ctx) (hM : MakeGood h₀ A X) (ctor : Option Kind) (value : Ref)
    (attrs : List (Nat × Ref)) (ha : ∀ av, av ∈ attrs → Good h₀.length A av.2) :
    PS h₀ A (dictAsCtorArgs X ctor value attrs)
      (fun o => ∀ r, o = some r → FN h₀.length r) := by
  unfold dictAsCtorArgs
  refine PS.getHeap.bind (fun h _ => ?_)
  have hnone : PS h₀ A (pure none : M (Option Ref))
      (fun o => ∀ r, o = some r → FN h₀.length r) :=
    PS.pure (fun r hr => by cases hr)
  split
  · split
    · refine PS.ite (fun _ => hnone) (fun _ => ?_)
      refine PS.ite (fun _ => PS.throwPy _) (fun _ => ?_)
      split
      · exact PS.ite (fun _ => PS.pure (fun r hr => by
          cases hr; exact ⟨freshRef_sc _, fun h => by cases h⟩)) (fun _ => PS.throwPy _)
      · exact PS.ite (fun _ => PS.pure (fun r hr => by
          cases hr; exact ⟨freshRef_sc _, fun h => by cases h⟩)) (fun _ => PS.throwPy _)
      · exact (hM _ _ (mem_filter_good ha)).bind
          (fun r hr => PS.pure (fun r' hr' => by cases hr'; exact hr.fn))
      · exact PS.throwPy _
    · exact hnone
  · exact hnone

/-- After steps 3/4: the incoming value with `safe = p.inplace`, or a new value;
never MISSING when a constructor is available. -/
theorem mvConstruct_og (X : Ctx) (hM : MakeGood h₀ A X) (p : MV) (value : Ref)
    (ha : ∀ av, av ∈ p.attrs → Good h₀.length A av.2) :
    PS h₀ A (mvConstruct X p value)
      (fun r => ((r.1 = value ∧ r.2.1 = p.inplace) ∨ FreshRef h₀.length r.1) ∧
        (p.ctor ≠ none → r.1 ≠ .sc .missing)) := by
  unfold mvConstruct
  refine (dictAsCtorArgs_fresh X hM _ _ _ ha).bind (fun o ho => ?_)
  split
  · exact PS.pure ⟨Or.inr (ho _ rfl).1, fun _ => (ho _ rfl).2⟩
  · refine PS.ite (fun _ => ?_) (fun hne => PS.pure ⟨Or.inl ⟨rfl, rfl⟩, fun _ => hne⟩)
    split
    · exact (defaultConstruct_fresh X hM _ _ ha).bind
        (fun r hr => PS.pure ⟨Or.inr hr.1, fun _ => hr.2⟩)
    · rename_i hnone
      exact PS.pure ⟨Or.inl ⟨rfl, rfl⟩, fun hc => (hc hnone).elim⟩

/-! ### Steps 5 and 7 -/

theorem setAttrs_ps (X : Ctx) (hX : NoClassDnc X) (hW : World X h₀ A TAll) (hM : MakeGood h₀ A X)
    {obj : Ref} (ho : FreshRef h₀.length obj) :
    ∀ kw : List (Nat × Ref), (∀ av, av ∈ kw → Good h₀.length A av.2) →
      PS h₀ A (setAttrs X obj kw) (fun _ => True) := by
  intro kw
  induction kw with
  | nil => intro _; exact PS.pure trivial
  | cons av rest ih =>
    intro hkw
    obtain ⟨a, v⟩ := av
    unfold setAttrs
    have h1 : PS h₀ A (if (v != .sc .missing) = true then setAttr X obj a v false else pure ())
        (fun _ => True) :=
      PS.ite (fun _ => setAttr_ps X hX hW hM a v false ho (hkw (a, v) List.mem_cons_self))
        (fun _ => PS.pure trivial)
    exact h1.bind (fun _ _ => ih (fun x hx => hkw x (List.mem_cons_of_mem _ hx)))

theorem applyAttrTransforms_ps (X : Ctx) (hX : NoClassDnc X) (hW : World X h₀ A TAll)
    (hM : MakeGood h₀ A X) {obj : Ref} (ho : FreshRef h₀.length obj) :
    ∀ kwf, PS h₀ A (applyAttrTransforms X obj kwf) (fun _ => True) := by
  intro kwf
  induction kwf with
  | nil => exact PS.pure trivial
  | cons af rest ih =>
    obtain ⟨a, f⟩ := af
    unfold applyAttrTransforms
    refine (getAttrD_ps X hW obj a ho.good).bind (fun cur hcur => ?_)
    refine (invoke_ps X hW _ _ _ hcur).bind (fun tv htv => ?_)
    have h1 : PS h₀ A (if (tv != .sc .missing) = true then setAttr X obj a tv false else pure ())
        (fun _ => True) :=
      PS.ite (fun _ => setAttr_ps X hX hW hM a tv false ho htv) (fun _ => PS.pure trivial)
    exact h1.bind (fun _ _ => ih)

theorem rollbackOnError_ps {r : Ref} {body : M α} {Q : α → Prop}
    (hr : FreshRef h₀.length r) (hb : PS h₀ A body Q) : PS h₀ A (rollbackOnError r body) Q := by
  unfold rollbackOnError
  cases r with
  | sc s => exact hb
  | obj i =>
    refine (PS.getNode i).bind (fun node hn => ?_)
    cases node with
    | inst c t fs => exact PS.onError hb (PS.write _ (hr i rfl) (hn.2 (hr i rfl)))
    | list _ => exact hb
    | dict _ => exact hb
    | set _ => exact hb

theorem guarded_ps (X : Ctx) {v : Ref} {body : M α} {Q : α → Prop}
    (hv : FreshRef h₀.length v) (hb : PS h₀ A body Q) : PS h₀ A (guarded X false v body) Q := by
  unfold guarded
  simp only [Bool.false_eq_true, if_false]
  exact thawed_ps X hv (rollbackOnError_ps hv hb)

/-- The value that will be edited: the safe one itself, or a copy. -/
theorem safeOrProtect_ps (X : Ctx) (hX : NoClassDnc X) (hW : World X h₀ A TAll) (value : Ref)
    (safe : Bool) (hv : safe = true → FreshRef h₀.length value) :
    PS h₀ A (if safe = true then pure value else protect X value)
      (fun r => FreshRef h₀.length r ∧ (value ≠ .sc .missing → r ≠ .sc .missing)) := by
  refine PS.ite (fun hs => PS.pure ⟨hv hs, id⟩) (fun _ => ?_)
  by_cases hm : value = .sc .missing
  · exact (protect_ps X hX hW value (good_tall _ _)).mono (fun r hr => ⟨hr, fun h => (h hm).elim⟩)
  · exact ((protect_ps X hX hW value (good_tall _ _)).and_safe (protect_nm X value hm)).mono
      (fun r hr => ⟨hr.1, fun _ => hr.2⟩)

theorem mvAttrs_og (X : Ctx) (hX : NoClassDnc X) (hW : World X h₀ A TAll) (hM : MakeGood h₀ A X)
    (p : MV) (hp : p.inplace = false) (ha : ∀ av, av ∈ p.attrs → Good h₀.length A av.2)
    (value : Ref) (safe used : Bool) (hv : safe = true → FreshRef h₀.length value) :
    PS h₀ A (mvAttrs X p value safe used)
      (fun r => (r.2 = true → FreshRef h₀.length r.1) ∧ (r.1 = value ∨ FreshRef h₀.length r.1) ∧
        (value ≠ .sc .missing → r.1 ≠ .sc .missing)) := by
  unfold mvAttrs
  refine PS.ite (fun _ => ?_) (fun _ => ?_)
  · refine (safeOrProtect_ps X hX hW value safe hv).bind (fun value' hv' => ?_)
    rw [hp]
    have hattrs : ∀ av, av ∈ (if used = true then [] else p.attrs) → Good h₀.length A av.2 := by
      intro av hav
      split at hav
      · cases hav
      · exact ha av hav
    exact (guarded_ps X hv'.1 (setAttrs_ps X hX hW hM hv'.1 _ hattrs)).bind
      (fun _ _ => PS.pure ⟨fun _ => hv'.1, Or.inr hv'.1, hv'.2⟩)
  · exact PS.ite (fun _ => PS.throwPy _) (fun _ => PS.pure ⟨hv, Or.inl rfl, id⟩)

theorem mvAttrTransforms_og (X : Ctx) (hX : NoClassDnc X) (hW : World X h₀ A TAll)
    (hM : MakeGood h₀ A X) (p : MV) (hp : p.inplace = false) (value : Ref) (safe : Bool)
    (hv : safe = true → FreshRef h₀.length value) :
    PS h₀ A (mvAttrTransforms X p value safe)
      (fun r => (r = value ∨ FreshRef h₀.length r) ∧
        (value ≠ .sc .missing → r ≠ .sc .missing)) := by
  unfold mvAttrTransforms
  refine PS.ite (fun _ => ?_) (fun _ => PS.pure ⟨Or.inl rfl, id⟩)
  refine (safeOrProtect_ps X hX hW value safe hv).bind (fun value' hv' => ?_)
  rw [hp]
  exact (guarded_ps X hv'.1 (applyAttrTransforms_ps X hX hW hM hv'.1 _)).bind
    (fun _ _ => PS.pure ⟨Or.inr hv'.1, hv'.2⟩)

/-- `mutate_value` not in place: the result is the old value itself (nothing was
applied) or an allowed value; with a constructor and no transform it is not MISSING. -/
theorem mutateValue_og (X : Ctx) (hX : NoClassDnc X) (hW : World X h₀ A TAll)
    (hM : MakeGood h₀ A X) (p : MV) (hp : p.inplace = false) (hn : Good h₀.length A p.new)
    (ha : ∀ av, av ∈ p.attrs → Good h₀.length A av.2)
    (htr : CbOK h₀.length A p.transform p.old ∨ Good h₀.length A p.old) :
    PS h₀ A (mutateValue X p)
      (fun r => (r = p.old ∨ Good h₀.length A r) ∧
        (p.ctor ≠ none → p.transform = none → r ≠ .sc .missing)) := by
  unfold mutateValue
  -- steps 1, 2
  have h1 : PS h₀ A (mvApply (mvChoose p).2 (mvChoose p).1)
      (fun r => r = p.old ∨ Good h₀.length A r) := by
    unfold mvChoose
    split
    · exact (mvApply_ps X hW _ _ hn).mono (fun r hr => Or.inr hr)
    · split
      · simp only
        unfold mvApply
        exact PS.pure (Or.inl rfl)
      · exact (mvApply_ps X hW _ _ (good_sc _)).mono (fun r hr => Or.inr hr)
  refine h1.bind (fun v1 hv1 => ?_)
  refine (mvConstruct_og X hM p v1 ha).bind (fun r2 hr2 => ?_)
  have hsafe2 : r2.2.1 = true → FreshRef h₀.length r2.1 := by
    intro hs
    rcases hr2.1 with ⟨_, h2⟩ | h
    · rw [hp] at h2; rw [h2] at hs; cases hs
    · exact h
  have hog2 : r2.1 = p.old ∨ Good h₀.length A r2.1 := by
    rcases hr2.1 with ⟨h1', _⟩ | h
    · rw [h1']; exact hv1
    · exact Or.inr h.good
  refine (mvAttrs_og X hX hW hM p hp ha r2.1 r2.2.1 r2.2.2 hsafe2).bind (fun r3 hr3 => ?_)
  have hog3 : r3.1 = p.old ∨ Good h₀.length A r3.1 := by
    rcases hr3.2.1 with h | h
    · rw [h]; exact hog2
    · exact Or.inr h.good
  have hcb : CbOK h₀.length A p.transform r3.1 := by
    rcases hog3 with h | h
    · rcases htr with htr | htr
      · rw [h]; exact htr
      · exact Or.inr (by rw [h]; exact htr)
    · exact Or.inr h
  have h4 : PS h₀ A (mvApply p.transform r3.1)
      (fun r => (r = r3.1 ∨ FreshRef h₀.length r) ∧ (p.transform = none → r = r3.1)) := by
    refine ((mvApply_og X hW p.transform r3.1 hcb).and ?_)
    intro s hs
    refine ⟨((mvApply_og X hW p.transform r3.1 hcb) s hs).1, ?_⟩
    intro x hx ht
    rw [ht] at hx
    unfold mvApply at hx
    cases hx
    rfl
  refine h4.bind (fun v4 hv4 => ?_)
  have hsafe4 : r3.2 = true → FreshRef h₀.length v4 := by
    intro hs
    rcases hv4.1 with h | h
    · rw [h]; exact hr3.1 hs
    · exact h
  have hog4 : v4 = p.old ∨ Good h₀.length A v4 := by
    rcases hv4.1 with h | h
    · rw [h]; exact hog3
    · exact Or.inr h.good
  refine (mvAttrTransforms_og X hX hW hM p hp v4 (r3.2 && v4 == r3.1)
    (fun hs => hsafe4 (by simp only [Bool.and_eq_true] at hs; exact hs.1))).mono (fun r hr => ⟨?_, ?_⟩)
  · rcases hr.1 with h | h
    · rw [h]; exact hog4
    · exact Or.inr h.good
  · intro hc ht
    have h2 := hr2.2 hc
    have h3 := hr3.2.2 h2
    have h4' : v4 = r3.1 := hv4.2 ht
    exact hr.2 (by rw [h4']; exact h3)

/-! ### `prepare_attr_value` / `with_attr` with keyword arguments -/

theorem prepareAttrValue_ps (X : Ctx) (hX : NoClassDnc X) (hW : World X h₀ A TAll)
    (hM : MakeGood h₀ A X) (d : AttrDecl) (v : Ref) (attrs : List (Nat × Ref))
    (hv : Good h₀.length A v) (ha : ∀ av, av ∈ attrs → Good h₀.length A av.2) :
    PS h₀ A (prepareAttrValue X d v attrs) (GN h₀.length A) := by
  unfold prepareAttrValue
  refine (mutateValue_og X hX hW hM _ rfl hv ha (Or.inr (good_sc _))).bind (fun v1 hv1 => ?_)
  have hg : Good h₀.length A v1 := by
    rcases hv1.1 with h | h
    · rw [h]; exact good_sc _
    · exact h
  split
  · exact collPrepare_ps X hW hM d _ _ hg
  · exact PS.pure ⟨hg, hv1.2 (fun h => by cases h) rfl⟩

theorem withAttr_kw_ps (X : Ctx) (hX : NoClassDnc X) (hW : World X h₀ A TAll)
    (hM : MakeGood h₀ A X) (self : Ref) (a : Nat) (v : Ref) (kw : List (Nat × Ref))
    (hv : Good h₀.length A v) (ha : ∀ av, av ∈ kw → Good h₀.length A av.2) :
    PS h₀ A (withAttr X self a v kw false) (FreshRef h₀.length) := by
  unfold withAttr
  refine (getInst_ps self).bind (fun p _ => ?_)
  split
  · exact PS.throwPy _
  · refine (prepareAttrValue_ps X hX hW hM _ _ _ hv ha).bind (fun v' hv' => ?_)
    exact (mutateAttr_ps X hX hW self a v' false true false (fun h => by cases h) hv'.1).mono
      (fun r hr => hr rfl hv'.2)

/-! ### `update_attr`, `transform_attr` -/

/-- The value of attribute `a` of object `i` in heap `h` (MISSING if there is none). -/
def attrOf (h : Heap) (i a : Nat) : Ref :=
  match h[i]? with
  | some (.inst _ _ fs) => (alGet a fs).getD (.sc .missing)
  | _ => .sc .missing

/-- What `getattr(self, a, MISSING)` returns: for an old receiver exactly its
value in the start heap, for a new one an allowed value. -/
def AttrVal (h₀ : Heap) (A : Nat → Prop) (self : Ref) (a : Nat) (r : Ref) : Prop :=
  Good h₀.length A r ∨ ∃ i, self = .obj i ∧ i < h₀.length ∧ r = attrOf h₀ i a

theorem getAttrD_val (self : Ref) (a : Nat) :
    PS h₀ A (getAttrD self a)
      (fun r => (∀ i, self = .obj i → i < h₀.length → r = attrOf h₀ i a) ∧
        ((∀ i, self = .obj i → h₀.length ≤ i) → Good h₀.length A r)) := by
  unfold getAttrD
  cases self with
  | sc s => exact PS.pure ⟨fun i h => (by cases h), fun _ => good_sc _⟩
  | obj i =>
    refine (PS.getNode i).bind (fun node hn => ?_)
    have hold : ∀ r : Ref, (i < h₀.length → r = attrOf h₀ i a) →
        (h₀.length ≤ i → Good h₀.length A r) →
        (∀ i', Ref.obj i = .obj i' → i' < h₀.length → r = attrOf h₀ i' a) ∧
        ((∀ i', Ref.obj i = .obj i' → h₀.length ≤ i') → Good h₀.length A r) :=
      fun r h1 h2 => ⟨fun i' he hlt => by cases he; exact h1 hlt, fun h => h2 (h i rfl)⟩
    cases node with
    | inst c t fs =>
      refine PS.pure (hold _ (fun hlt => ?_) (fun hge => ?_))
      · unfold attrOf; rw [hn.1 hlt]
      · cases hv : alGet a fs with
        | none => exact good_sc _
        | some v => exact good_of_children_inst (hn.2 hge) _ (alGet_mem hv)
    | list _ =>
      exact PS.pure (hold _ (fun hlt => by unfold attrOf; rw [hn.1 hlt]) (fun _ => good_sc _))
    | dict _ =>
      exact PS.pure (hold _ (fun hlt => by unfold attrOf; rw [hn.1 hlt]) (fun _ => good_sc _))
    | set _ =>
      exact PS.pure (hold _ (fun hlt => by unfold attrOf; rw [hn.1 hlt]) (fun _ => good_sc _))

theorem attr?_name {cd : ClassDecl} {a : Nat} {d : AttrDecl} (h : cd.attr? a = some d) :
    d.name = a := by
  unfold ClassDecl.attr? at h
  have := List.find?_some h
  simpa using this

/-- `_protect_if_unchanged` not in place: an unchanged value of the (old)
receiver is copied unless the attribute is `do_not_copy`; the result is allowed. -/
theorem protectIfUnchanged_ps (X : Ctx) (hX : NoClassDnc X) (hW : World X h₀ A TAll) (d : AttrDecl)
    (self : Ref) (v : Ref)
    (hd : ∀ i c t fs, self = .obj i → h₀[i]? = some (.inst c t fs) →
      (X.cd c).attr? d.name = some d)
    (hv : AttrVal h₀ A self d.name v) :
    PS h₀ A (protectIfUnchanged X d self false v false) (Good h₀.length A) := by
  unfold protectIfUnchanged
  refine (getAttrD_val self d.name).bind (fun cur hcur => ?_)
  refine PS.ite (fun hc => ?_)
    (fun _ => (protect_ps X hX hW v (good_tall _ _)).mono (fun r hr => hr.good))
  rcases hv with hv | ⟨i, rfl, hlt, hvi⟩
  · exact PS.pure hv
  · refine PS.pure ?_
    have hcur' := hcur.1 i rfl hlt
    simp only [Bool.false_or, Bool.or_false, Bool.or_eq_true, decide_eq_true_eq,
      bne_iff_ne, ne_eq] at hc
    rcases hc with (hdnc | hm) | hne
    · -- `do_not_copy` attribute: the receiver's value is allowed
      rw [hvi]
      unfold attrOf
      cases hn : h₀[i]? with
      | none => exact good_sc _
      | some node =>
        cases node with
        | inst c t fs =>
          simp only
          cases hg : alGet d.name fs with
          | none => exact good_sc _
          | some w =>
            exact hW.dnc i c t fs d.name d w trivial hn (hd i c t fs rfl hn) hdnc (alGet_mem hg)
        | list _ => exact good_sc _
        | dict _ => exact good_sc _
        | set _ => exact good_sc _
    · rw [hm]; exact good_sc _
    · exact (hne (by rw [hvi, hcur'])).elim

theorem updateAttr_ps (X : Ctx) (hX : NoClassDnc X) (hW : World X h₀ A TAll) (hM : MakeGood h₀ A X)
    (self : Ref) (a : Nat) (v : Ref) (kw : List (Nat × Ref))
    (hv : Good h₀.length A v) (ha : ∀ av, av ∈ kw → Good h₀.length A av.2) :
    PS h₀ A (updateAttr X self a v kw false) (FreshRef h₀.length) := by
  rw [updateAttr_eq_core hX]; unfold updateAttrCore
  refine (getInst_ps self).bind (fun p hp => ?_)
  split
  · exact PS.throwPy _
  · rename_i d hdecl
    have hname := attr?_name hdecl
    refine (getAttrD_val self a).bind (fun old hold => ?_)
    have hold' : AttrVal h₀ A self d.name old := by
      rw [hname]
      by_cases hlt : p.1 < h₀.length
      · exact Or.inr ⟨p.1, hp.1, hlt, hold.1 p.1 hp.1 hlt⟩
      · exact Or.inl (hold.2 (fun i hi => by rw [hp.1] at hi; cases hi; omega))
    have htr : CbOK h₀.length A (none : Option (CbKind × Cb)) old ∨ Good h₀.length A old :=
      Or.inl (Or.inl (fun k f h => by cases h))
    refine (mutateValue_og X hX hW hM
      { old := old, new := v, ctor := some d.kind, attrs := kw } rfl hv ha htr).bind
      (fun v1 hv1 => ?_)
    have hv1' : AttrVal h₀ A self d.name v1 := by
      rcases hv1.1 with h | h
      · rw [h]; exact hold'
      · exact Or.inl h
    have hd : ∀ i c t fs, self = .obj i → h₀[i]? = some (.inst c t fs) →
        (X.cd c).attr? d.name = some d := by
      intro i c t fs hi hn
      rw [hp.1] at hi
      cases hi
      have hlt := lt_of_getElem?_some hn
      have := hp.2.1 hlt
      rw [hn] at this
      cases this
      rw [hname]; exact hdecl
    rw [hX p.2.1]
    refine (protectIfUnchanged_ps X hX hW d self v1 hd hv1').bind (fun v2 hv2 => ?_)
    exact withAttr_ps X hX hW hM self a v2 hv2

theorem transformAttr_ps (X : Ctx) (hX : NoClassDnc X) (hW : World X h₀ A TAll)
    (hM : MakeGood h₀ A X) (self : Ref) (a : Nat) (f : Option Cb) (kwf : List (Nat × Cb))
    (hf : ∀ cb, f = some cb → cb.plain = true) :
    PS h₀ A (transformAttr X self a f kwf false) (FreshRef h₀.length) := by
  rw [transformAttr_eq_core hX]; unfold transformAttrCore
  refine (getInst_ps self).bind (fun p hp => ?_)
  split
  · exact PS.throwPy _
  · rename_i d hdecl
    have hname := attr?_name hdecl
    refine (getAttrD_val self a).bind (fun old hold => ?_)
    have hold' : AttrVal h₀ A self d.name old := by
      rw [hname]
      by_cases hlt : p.1 < h₀.length
      · exact Or.inr ⟨p.1, hp.1, hlt, hold.1 p.1 hp.1 hlt⟩
      · exact Or.inl (hold.2 (fun i hi => by rw [hp.1] at hi; cases hi; omega))
    have htr : CbOK h₀.length A (f.map (fun cb => (CbKind.transform, cb))) old ∨
        Good h₀.length A old := by
      refine Or.inl (Or.inl (fun k g h => ?_))
      cases f with
      | none => cases h
      | some cb =>
        simp only [Option.map] at h
        cases h
        exact hf _ rfl
    refine (mutateValue_og X hX hW hM
      { old := old, ctor := some d.kind, transform := f.map (fun cb => (.transform, cb)),
        attrTransforms := kwf } rfl (good_sc _) (fun av hav => by cases hav) htr).bind
      (fun v1 hv1 => ?_)
    have hv1' : AttrVal h₀ A self d.name v1 := by
      rcases hv1.1 with h | h
      · rw [h]; exact hold'
      · exact Or.inl h
    have hd : ∀ i c t fs, self = .obj i → h₀[i]? = some (.inst c t fs) →
        (X.cd c).attr? d.name = some d := by
      intro i c t fs hi hn
      rw [hp.1] at hi
      cases hi
      have hlt := lt_of_getElem?_some hn
      have := hp.2.1 hlt
      rw [hn] at this
      cases this
      rw [hname]; exact hdecl
    rw [hX p.2.1]
    refine (protectIfUnchanged_ps X hX hW d self v1 hd hv1').bind (fun v2 hv2 => ?_)
    exact withAttr_ps X hX hW hM self a v2 hv2

/-! ### `update`, `transform` (top level) -/

theorem mvConstruct_noctor_prov (X : Ctx) (p : MV) (hc : p.ctor = none) (value : Ref) :
    mvConstruct X p value = pure (value, p.inplace, false) := by
  unfold mvConstruct dictAsCtorArgs
  funext s
  simp [hc, run_bind]

theorem mvAttrs_nonempty (X : Ctx) (hX : NoClassDnc X) (hW : World X h₀ A TAll)
    (hM : MakeGood h₀ A X) (p : MV) (hp : p.inplace = false) (hne : p.attrs ≠ [])
    (ha : ∀ av, av ∈ p.attrs → Good h₀.length A av.2) (value : Ref) (used : Bool) :
    PS h₀ A (mvAttrs X p value false used) (fun r => FreshRef h₀.length r.1) := by
  unfold mvAttrs
  refine PS.ite (fun _ => ?_) (fun _ => ?_)
  · refine (safeOrProtect_ps X hX hW value false (fun h => by cases h)).bind (fun value' hv' => ?_)
    rw [hp]
    have hattrs : ∀ av, av ∈ (if used = true then [] else p.attrs) → Good h₀.length A av.2 := by
      intro av hav
      split at hav
      · cases hav
      · exact ha av hav
    exact (guarded_ps X hv'.1 (setAttrs_ps X hX hW hM hv'.1 _ hattrs)).bind
      (fun _ _ => PS.pure hv'.1)
  · refine PS.ite (fun _ => PS.throwPy _) (fun hc => ?_)
    exact (hc (by simpa using hne)).elim

/-- `update(**kw)` with at least one keyword, not in place, returns a new object. -/
theorem update_ps (X : Ctx) (hX : NoClassDnc X) (hW : World X h₀ A TAll) (hM : MakeGood h₀ A X)
    (self : Ref) (kw : List (Nat × Ref)) (hkw : kw ≠ [])
    (ha : ∀ av, av ∈ kw → Good h₀.length A av.2) :
    PS h₀ A (update X self kw false) (FreshRef h₀.length) := by
  unfold update mutateValue
  simp only [mvChoose, mvApply, mvConstruct_noctor_prov, M_pure_bind, bne_self_eq_false,
    Bool.false_eq_true, if_false, Bool.not_false, if_true, mvAttrTransforms_nil, M_bind_pure]
  exact (mvAttrs_nonempty X hX hW hM { old := self, attrs := kw } rfl hkw ha self false).bind
    (fun r hr => PS.pure hr)

/-- `transform(**kwf)` with at least one keyword, not in place, returns a new object. -/
theorem transform_ps (X : Ctx) (hX : NoClassDnc X) (hW : World X h₀ A TAll) (hM : MakeGood h₀ A X)
    (self : Ref) (kwf : List (Nat × Cb)) (hkw : kwf ≠ []) :
    PS h₀ A (transform X self kwf false) (FreshRef h₀.length) := by
  unfold transform mutateValue
  simp only [mvChoose, mvApply, mvConstruct_noctor_prov, M_pure_bind, bne_self_eq_false,
    Bool.false_eq_true, if_false, Bool.not_false, if_true, mvAttrs_nil]
  unfold mvAttrTransforms
  simp only
  refine PS.ite (fun _ => ?_) (fun hc => (hc (by simpa using hkw)).elim)
  refine (safeOrProtect_ps X hX hW self false (fun h => by cases h)).bind (fun value' hv' => ?_)
  exact (guarded_ps X hv'.1 (applyAttrTransforms_ps X hX hW hM hv'.1 _)).bind
    (fun _ _ => PS.pure hv'.1)

/-! ### Element helpers -/

theorem getCollection_ps (X : Ctx) (hX : NoClassDnc X) (hW : World X h₀ A TAll) (self : Ref)
    (a : Nat) : PS h₀ A (getCollection X self a false) (FreshRef h₀.length) := by
  unfold getCollection
  refine (getInst_ps self).bind (fun p _ => ?_)
  refine (guardM_ps _ _).bind (fun _ _ => ?_)
  refine (getAttrD_val self a).bind (fun coll _ => ?_)
  refine PS.ite (fun _ => protect_ps X hX hW coll (good_tall _ _)) (fun hc => ?_)
  simp at hc
  rw [hc]
  exact PS.pure (freshRef_sc _)

theorem ensureColl_ps (fam : Fam) {coll : Ref} (hc : FreshRef h₀.length coll) :
    PS h₀ A (ensureColl fam coll) (FN h₀.length) := by
  unfold ensureColl
  exact PS.ite (fun _ => (createColl_ps fam).mono (fun r hr => hr.fn))
    (fun hne => PS.pure ⟨hc, hne⟩)

theorem getD_good {n₀ A} {xs : List Ref} (h : ∀ r, r ∈ xs → Good n₀ A r) (k : Nat) :
    Good n₀ A (xs.getD k (.sc .missing)) := by
  rw [List.getD_eq_getElem?_getD]
  cases hk : xs[k]? with
  | none => exact good_sc _
  | some x => exact h x (List.mem_of_getElem? hk)

theorem seqExtract_ps (X : Ctx) (ik : Kind) (coll idx : Ref) (raise : Bool) (by' : Option Bool)
    (hc : FreshRef h₀.length coll) (hi : Good h₀.length A idx) :
    PS h₀ A (seqExtract X ik coll idx raise by') (fun e => Good h₀.length A e.2) := by
  unfold seqExtract
  refine PS.ite (fun _ => PS.pure (good_sc _)) (fun _ => ?_)
  refine PS.getHeap.bind (fun h _ => ?_)
  refine (getList_ps coll).bind (fun p hp => ?_)
  have hxs : ∀ r, r ∈ p.2 → Good h₀.length A r := hp.2.2 (hc p.1 hp.1)
  simp only
  refine PS.ite (fun _ => ?_) (fun _ => ?_)
  · split
    · split
      · exact PS.pure (getD_good hxs _)
      · exact PS.ite (fun _ => PS.throwPy _) (fun _ => PS.pure (good_sc _))
    · exact PS.throwPy _
  · split
    · exact PS.pure hi
    · exact PS.ite (fun _ => PS.throwPy _) (fun _ => PS.pure hi)

theorem setExtract_ps (coll v : Ref) (raise : Bool) (hv : Good h₀.length A v) :
    PS h₀ A (setExtract coll v raise) (fun e => Good h₀.length A e.2) := by
  unfold setExtract
  refine (getSet_ps coll).bind (fun p _ => ?_)
  split
  · refine PS.ite (fun _ => PS.pure hv) (fun _ => ?_)
    exact PS.ite (fun _ => PS.throwPy _) (fun _ => PS.pure (good_sc _))
  · exact PS.throwPy _

theorem og_good {old r : Ref} (ho : Good h₀.length A old) (h : r = old ∨ Good h₀.length A r) :
    Good h₀.length A r := by
  rcases h with h | h
  · rw [h]; exact ho
  · exact h

theorem elemSeq_ps (X : Ctx) (hX : NoClassDnc X) (hW : World X h₀ A TAll) (hM : MakeGood h₀ A X)
    (d : AttrDecl) {coll : Ref} (op : ElemOp) (hc : FreshRef h₀.length coll)
    (hargs : ∀ v, v ∈ op.args → Good h₀.length A v) :
    PS h₀ A (elemSeq X d coll op) (fun _ => True) := by
  unfold elemSeq
  cases op with
  | rm key byIndex =>
    simp only
    refine (seqExtract_ps X _ _ _ _ _ hc (hargs key (by simp [ElemOp.args]))).bind (fun e _ => ?_)
    split
    · refine (getList_ps coll).bind (fun p hp => ?_)
      have hj := hc p.1 hp.1
      split
      · refine PS.write _ hj ?_
        intro r hr
        exact hp.2.2 hj r (List.mem_of_mem_eraseIdx hr)
      · exact PS.throwPy _
    · exact PS.pure trivial
  | add item key insert attrs =>
    simp only
    have hitem := hargs item (by simp [ElemOp.args])
    have hkey := hargs key (by simp [ElemOp.args])
    have hat : ∀ av, av ∈ attrs → Good h₀.length A av.2 := fun av hav =>
      hargs av.2 (by simp only [ElemOp.args, List.mem_cons, List.mem_map]; exact Or.inr (Or.inr ⟨av, hav, rfl⟩))
    refine (seqExtract_ps X _ _ _ _ _ hc hkey).bind (fun e he => ?_)
    refine (mutateValue_og X hX hW hM _ rfl hitem hat (Or.inr he)).bind (fun v hv => ?_)
    exact seqInsert_ps X hW _ _ _ _ hc (og_good he hv.1)
  | upd key item byIndex attrs =>
    simp only
    have hitem := hargs item (by simp [ElemOp.args])
    have hkey := hargs key (by simp [ElemOp.args])
    have hat : ∀ av, av ∈ attrs → Good h₀.length A av.2 := fun av hav =>
      hargs av.2 (by simp only [ElemOp.args, List.mem_cons, List.mem_map]; exact Or.inr (Or.inr ⟨av, hav, rfl⟩))
    refine (seqExtract_ps X _ _ _ _ _ hc hkey).bind (fun e he => ?_)
    refine (mutateValue_og X hX hW hM _ rfl hitem hat (Or.inr he)).bind (fun v hv => ?_)
    exact seqInsert_ps X hW _ _ _ _ hc (og_good he hv.1)
  | tr key f byIndex kwf =>
    simp only
    have hkey := hargs key (by simp [ElemOp.args])
    refine (seqExtract_ps X _ _ _ _ _ hc hkey).bind (fun e he => ?_)
    refine (mutateValue_og X hX hW hM _ rfl (good_sc _) (fun av hav => by cases hav)
      (Or.inr he)).bind (fun v hv => ?_)
    exact seqInsert_ps X hW _ _ _ _ hc (og_good he hv.1)

theorem elemMap_ps (X : Ctx) (hX : NoClassDnc X) (hW : World X h₀ A TAll) (hM : MakeGood h₀ A X)
    (d : AttrDecl) {coll : Ref} (op : ElemOp) (hc : FreshRef h₀.length coll)
    (hargs : ∀ v, v ∈ op.args → Good h₀.length A v) :
    PS h₀ A (elemMap X d coll op) (fun _ => True) := by
  unfold elemMap
  cases op with
  | rm key byIndex =>
    simp only
    refine (mapExtract_ps X hW _ _ _ hc.good).bind (fun e _ => ?_)
    refine (getDict_ps coll).bind (fun p hp => ?_)
    have hj := hc p.1 hp.1
    split
    · refine PS.write _ hj (children_dict_good ?_)
      intro kv hkv
      exact good_of_children_dict (hp.2.2 hj) kv (mem_alDel hkv)
    · exact PS.pure trivial
  | add item key insert attrs =>
    simp only
    have hitem := hargs item (by simp [ElemOp.args])
    have hat : ∀ av, av ∈ attrs → Good h₀.length A av.2 := fun av hav =>
      hargs av.2 (by simp only [ElemOp.args, List.mem_cons, List.mem_map]; exact Or.inr (Or.inr ⟨av, hav, rfl⟩))
    refine (mapExtract_ps X hW _ _ _ hc.good).bind (fun e he => ?_)
    refine (mutateValue_og X hX hW hM _ rfl hitem hat (Or.inr he)).bind (fun v hv => ?_)
    exact mapInsert_ps X hW _ _ _ hc (og_good he hv.1)
  | upd key item byIndex attrs =>
    simp only
    have hitem := hargs item (by simp [ElemOp.args])
    have hat : ∀ av, av ∈ attrs → Good h₀.length A av.2 := fun av hav =>
      hargs av.2 (by simp only [ElemOp.args, List.mem_cons, List.mem_map]; exact Or.inr (Or.inr ⟨av, hav, rfl⟩))
    refine (mapExtract_ps X hW _ _ _ hc.good).bind (fun e he => ?_)
    refine (mutateValue_og X hX hW hM _ rfl hitem hat (Or.inr he)).bind (fun v hv => ?_)
    exact mapInsert_ps X hW _ _ _ hc (og_good he hv.1)
  | tr key f byIndex kwf =>
    simp only
    refine (mapExtract_ps X hW _ _ _ hc.good).bind (fun e he => ?_)
    refine (mutateValue_og X hX hW hM _ rfl (good_sc _) (fun av hav => by cases hav)
      (Or.inr he)).bind (fun v hv => ?_)
    exact mapInsert_ps X hW _ _ _ hc (og_good he hv.1)

theorem elemSet_ps (X : Ctx) (hX : NoClassDnc X) (hW : World X h₀ A TAll) (hM : MakeGood h₀ A X)
    (d : AttrDecl) {coll : Ref} (op : ElemOp) (hc : FreshRef h₀.length coll)
    (hargs : ∀ v, v ∈ op.args → Good h₀.length A v) :
    PS h₀ A (elemSet X d coll op) (fun _ => True) := by
  unfold elemSet
  cases op with
  | rm key byIndex =>
    simp only
    refine (setExtract_ps _ _ _ (hargs key (by simp [ElemOp.args]))).bind (fun e _ => ?_)
    refine (getSet_ps coll).bind (fun p hp => ?_)
    split
    · exact PS.write _ (hc p.1 hp) (fun r hr => by cases hr)
    · exact PS.pure trivial
  | add item key insert attrs =>
    simp only
    have hitem := hargs item (by simp [ElemOp.args])
    have hat : ∀ av, av ∈ attrs → Good h₀.length A av.2 := fun av hav =>
      hargs av.2 (by simp only [ElemOp.args, List.mem_cons, List.mem_map]; exact Or.inr (Or.inr ⟨av, hav, rfl⟩))
    refine (mutateValue_og X hX hW hM _ rfl hitem hat (Or.inr (good_sc _))).bind (fun v hv => ?_)
    exact setInsert_ps X _ _ _ _ hc
  | upd key item byIndex attrs =>
    simp only
    have hitem := hargs item (by simp [ElemOp.args])
    have hkey := hargs key (by simp [ElemOp.args])
    have hat : ∀ av, av ∈ attrs → Good h₀.length A av.2 := fun av hav =>
      hargs av.2 (by simp only [ElemOp.args, List.mem_cons, List.mem_map]; exact Or.inr (Or.inr ⟨av, hav, rfl⟩))
    refine (setExtract_ps _ _ _ hkey).bind (fun e he => ?_)
    refine (mutateValue_og X hX hW hM _ rfl hitem hat (Or.inr he)).bind (fun v hv => ?_)
    exact setInsert_ps X _ _ _ _ hc
  | tr key f byIndex kwf =>
    simp only
    have hkey := hargs key (by simp [ElemOp.args])
    refine (setExtract_ps _ _ _ hkey).bind (fun e he => ?_)
    refine (mutateValue_og X hX hW hM _ rfl (good_sc _) (fun av hav => by cases hav)
      (Or.inr he)).bind (fun v hv => ?_)
    exact setInsert_ps X _ _ _ _ hc

theorem mutateCollection_ps (X : Ctx) (hX : NoClassDnc X) (hW : World X h₀ A TAll)
    (hM : MakeGood h₀ A X) (d : AttrDecl) (fam : Fam) {coll : Ref} (op : ElemOp)
    (hc : FreshRef h₀.length coll) (hargs : ∀ v, v ∈ op.args → Good h₀.length A v) :
    PS h₀ A (mutateCollection X d fam coll op) (FN h₀.length) := by
  unfold mutateCollection
  refine (ensureColl_ps fam hc).bind (fun coll' hc' => ?_)
  refine PS.bind (Q := fun _ => True) ?_ (fun _ _ => PS.pure hc')
  cases fam with
  | seq => exact elemSeq_ps X hX hW hM d op hc'.1 hargs
  | map => exact elemMap_ps X hX hW hM d op hc'.1 hargs
  | set => exact elemSet_ps X hX hW hM d op hc'.1 hargs

/-- `with_/update_/transform_/without_<item>` not in place. -/
theorem elemHelper_ps (X : Ctx) (hX : NoClassDnc X) (hW : World X h₀ A TAll) (hM : MakeGood h₀ A X)
    (self : Ref) (a : Nat) (op : ElemOp) (hargs : ∀ v, v ∈ op.args → Good h₀.length A v) :
    PS h₀ A (elemHelper X self a op false) (FreshRef h₀.length) := by
  unfold elemHelper
  refine (getInst_ps self).bind (fun p _ => ?_)
  split
  · exact PS.throwPy _
  · split
    · exact PS.throwPy _
    · refine (getCollection_ps X hX hW self a).bind (fun coll0 h0 => ?_)
      refine (mutateCollection_ps X hX hW hM _ _ op h0 hargs).bind (fun coll1 h1 => ?_)
      exact (mutateAttr_ps X hX hW self a coll1 false false false (fun h => by cases h)
        h1.1.good).mono (fun r hr => hr rfl h1.2)

end og
/-! ## Every operation not called in place -/

/-- The copy-on-write operations covered by `result_disjoint`: everything not in
place, except `transform_<a>(f)` with a transform that builds a new list from
the old items (`append`, `rebuild`), and `update()` / `transform()` without any
keyword (which return the receiver itself). -/
def Op.cowCovered : Op → Bool
  | .construct _ _ => true
  | .withAttr _ _ _ _ ip => !ip
  | .updateAttr _ _ _ _ ip => !ip
  | .transformAttr _ _ f _ ip => !ip && (match f with | some cb => cb.plain | none => true)
  | .resetAttr _ _ ip => !ip
  | .elem _ _ _ ip => !ip
  | .update _ kw ip => !ip && !kw.isEmpty
  | .transform _ kwf ip => !ip && !kwf.isEmpty
  | .reset _ ip => !ip
  | .deepcopy _ => true
  | .setattr _ _ _ => false
  | .delattr _ _ => false

theorem Op.cowCovered_inplace {op : Op} (h : op.cowCovered = true) : op.inplace = false := by
  cases op <;> simp [Op.cowCovered, Op.inplace] at h ⊢ <;> first | exact h | exact h.1

/-- The covered operations keep the provenance invariant and return a new
object (or a scalar), provided their arguments are allowed. -/
theorem runOp_ps (X₀ : Ctx) (hX : NoClassDnc X₀) {h₀ : Heap} {A : Nat → Prop}
    (hW : World X₀ h₀ A TAll) (op : Op) (hcov : op.cowCovered = true)
    (hargs : ∀ v, v ∈ op.args → Good h₀.length A v) :
    PS h₀ A (runOp X₀.close op) (FreshRef h₀.length) := by
  have hXc := noClassDnc_close X₀ hX
  have hWc : World X₀.close h₀ A TAll := hW.close
  have hM := makeGood_close X₀ hX hW
  have hkw : ∀ {kw : List (Nat × Ref)}, (∀ v, v ∈ kw.map (fun av => av.2) → Good h₀.length A v) →
      ∀ av, av ∈ kw → Good h₀.length A av.2 :=
    fun h av hav => h av.2 (List.mem_map_of_mem hav)
  unfold runOp
  refine PS.getHeap.bind (fun h _ => ?_)
  refine (guardM_ps _ _).bind (fun _ _ => ?_)
  cases op with
  | construct c kw => exact (hM c kw (hkw hargs)).mono (fun r hr => hr.fn.1)
  | withAttr r a v kw ip =>
    simp only [Op.cowCovered, Bool.not_eq_true'] at hcov
    subst hcov
    exact withAttr_kw_ps X₀.close hXc hWc hM r a v kw (hargs v (by simp [Op.args]))
      (hkw (fun w hw => hargs w (by simp only [Op.args]; exact List.mem_cons_of_mem _ hw)))
  | updateAttr r a v kw ip =>
    simp only [Op.cowCovered, Bool.not_eq_true'] at hcov
    subst hcov
    exact updateAttr_ps X₀.close hXc hWc hM r a v kw (hargs v (by simp [Op.args]))
      (hkw (fun w hw => hargs w (by simp only [Op.args]; exact List.mem_cons_of_mem _ hw)))
  | transformAttr r a f kwf ip =>
    simp only [Op.cowCovered, Bool.and_eq_true, Bool.not_eq_true'] at hcov
    obtain ⟨rfl, hf⟩ := hcov
    refine transformAttr_ps X₀.close hXc hWc hM r a f kwf ?_
    intro cb hcb
    subst hcb
    exact hf
  | resetAttr r a ip =>
    simp only [Op.cowCovered, Bool.not_eq_true'] at hcov
    subst hcov
    exact resetAttr_ps X₀.close hXc hWc hM r a
  | elem r a eop ip =>
    simp only [Op.cowCovered, Bool.not_eq_true'] at hcov
    subst hcov
    exact elemHelper_ps X₀.close hXc hWc hM r a eop hargs
  | update r kw ip =>
    simp only [Op.cowCovered, Bool.and_eq_true, Bool.not_eq_true', List.isEmpty_eq_false_iff]
      at hcov
    obtain ⟨rfl, hne⟩ := hcov
    exact update_ps X₀.close hXc hWc hM r kw hne (hkw hargs)
  | transform r kwf ip =>
    simp only [Op.cowCovered, Bool.and_eq_true, Bool.not_eq_true', List.isEmpty_eq_false_iff]
      at hcov
    obtain ⟨rfl, hne⟩ := hcov
    exact transform_ps X₀.close hXc hWc hM r kwf hne
  | reset r ip =>
    simp only [Op.cowCovered, Bool.not_eq_true'] at hcov
    subst hcov
    exact reset_ps X₀.close hXc hWc hM r
  | deepcopy r => exact deepcopy_ps X₀.close hXc hWc r (good_tall _ _)
  | setattr _ _ _ => cases hcov
  | delattr _ _ => cases hcov

/-! ## Which value each field of a new instance gets (`init_fresh`, field by field) -/

section fields
variable {α β : Type} {n₀ j : Nat} {P : Nat → Ref → Prop}

/-- Every field `(a, v)` of instance `j` satisfies `P a v`. -/
def FieldsOK (j : Nat) (P : Nat → Ref → Prop) (h : Heap) : Prop :=
  ∀ c t fs, h[j]? = some (.inst c t fs) → ∀ av, av ∈ fs → P av.1 av.2

/-- `m` keeps `FieldsOK j P` (whether it returns or raises) and a normal result satisfies `Q`. -/
def SF {α : Type} (n₀ j : Nat) (P : Nat → Ref → Prop) (m : M α) (Q : α → Prop) : Prop :=
  ∀ s : MS, j < s.heap.length → FieldsOK j P s.heap →
    (j < (m s).2.heap.length ∧ FieldsOK j P (m s).2.heap) ∧ ∀ a, (m s).1 = .ok a → Q a

theorem SF.pure {a : α} {Q : α → Prop} (h : Q a) : SF n₀ j P (pure a : M α) Q := by
  intro s hs hf
  exact ⟨⟨hs, hf⟩, fun b hb => by cases hb; exact h⟩

theorem SF.throwPy {Q : α → Prop} (e : Err) : SF n₀ j P (throwPy e : M α) Q := by
  intro s hs hf
  exact ⟨⟨hs, hf⟩, fun b hb => by cases hb⟩

theorem SF.bind {m : M α} {f : α → M β} {Q : α → Prop} {R : β → Prop}
    (hm : SF n₀ j P m Q) (hf : ∀ a, Q a → SF n₀ j P (f a) R) : SF n₀ j P (m >>= f) R := by
  intro s hs hfo
  obtain ⟨hp, hq⟩ := hm s hs hfo
  rw [run_bind]
  match hms : m s with
  | (.ok a, s') =>
    rw [hms] at hp hq
    simp only
    exact hf a (hq a rfl) s' hp.1 hp.2
  | (.error e, s') =>
    rw [hms] at hp
    simp only
    exact ⟨hp, fun b hb => by cases hb⟩

theorem SF.mono {m : M α} {Q Q' : α → Prop} (h : SF n₀ j P m Q) (hQ : ∀ a, Q a → Q' a) :
    SF n₀ j P m Q' := by
  intro s hs hf
  obtain ⟨hp, hq⟩ := h s hs hf
  exact ⟨hp, fun a ha => hQ a (hq a ha)⟩

theorem SF.ite {c : Prop} [Decidable c] {m₁ m₂ : M α} {Q : α → Prop}
    (h₁ : c → SF n₀ j P m₁ Q) (h₂ : ¬ c → SF n₀ j P m₂ Q) :
    SF n₀ j P (if c then m₁ else m₂) Q := by
  split
  · exact h₁ ‹_›
  · exact h₂ ‹_›

/-- A computation that writes only what it allocates keeps the fields of `j`;
its value postcondition is taken at the boundary `n₀`. -/
theorem SF.of_safe {m : M α} {Q : α → Prop} (hj : n₀ ≤ j)
    (hq : Safe n₀ (fun _ => False) m Q)
    (hfr : ∀ n, Safe n (fun _ => False) m (fun _ => True)) : SF n₀ j P m Q := by
  intro s hs hf
  obtain ⟨_, hq'⟩ := hq s (by omega)
  obtain ⟨hp, _⟩ := hfr s.heap.length s (Nat.le_refl _)
  refine ⟨⟨Nat.lt_of_lt_of_le hs hp.mono, ?_⟩, hq'⟩
  intro c t fs hn
  rw [hp.frame j hs (fun h => h)] at hn
  exact hf c t fs hn

theorem SF.getNode_self : SF n₀ j P (getNode j)
    (fun n => ∀ c t fs, n = .inst c t fs → ∀ av, av ∈ fs → P av.1 av.2) := by
  intro s hs hf
  unfold getNode
  split
  · rename_i n' hn'
    refine ⟨⟨hs, hf⟩, ?_⟩
    intro n hn c t fs hnode
    cases hn
    subst hnode
    exact hf c t fs hn'
  · exact ⟨⟨hs, hf⟩, fun n hn => by cases hn⟩

theorem SF.tick : SF n₀ j P tick (fun _ => True) := by
  intro s hs hf
  unfold SpecVerif.Heap.tick
  split <;> exact ⟨⟨hs, hf⟩, fun _ _ => trivial⟩

theorem SF.write_self (n : Node)
    (hn : ∀ c t fs, n = .inst c t fs → ∀ av, av ∈ fs → P av.1 av.2) :
    SF n₀ j P (write j n) (fun _ => True) := by
  unfold SpecVerif.Heap.write
  refine SF.tick.bind (fun _ _ => ?_)
  intro s hs hf
  refine ⟨⟨by simp [writeRaw]; exact hs, ?_⟩, fun _ _ => trivial⟩
  intro c t fs hnode
  simp only [writeRaw] at hnode
  rw [List.getElem?_set_self hs] at hnode
  cases hnode
  exact hn c t fs rfl

theorem getInst_sf : SF n₀ j P (getInst (.obj j))
    (fun p => p.1 = j ∧ ∀ av, av ∈ p.2.2.2 → P av.1 av.2) := by
  unfold getInst
  simp only
  refine SF.getNode_self.bind (fun node hn => ?_)
  cases node with
  | inst c t fs => exact SF.pure ⟨rfl, hn c t fs rfl⟩
  | list _ => exact SF.throwPy _
  | dict _ => exact SF.throwPy _
  | set _ => exact SF.throwPy _

theorem setThaw_sf (b : Bool) : SF n₀ j P (setThaw j b) (fun _ => True) := by
  unfold setThaw
  refine SF.getNode_self.bind (fun node hn => ?_)
  cases node with
  | inst c t fs =>
    refine SF.write_self _ ?_
    intro c' t' fs' he
    cases he
    exact hn c t fs rfl
  | list _ => exact SF.pure trivial
  | dict _ => exact SF.pure trivial
  | set _ => exact SF.pure trivial

theorem rawSet_sf (a : Nat) (v : Ref) (hv : P a v) :
    SF n₀ j P (rawSet (.obj j) a v) (fun _ => True) := by
  unfold rawSet
  refine getInst_sf.bind (fun p hp => ?_)
  obtain ⟨i, c, t, fs⟩ := p
  obtain ⟨hi, hfs⟩ := hp
  simp only at hi hfs
  subst hi
  refine SF.write_self _ ?_
  intro c' t' fs' he
  cases he
  intro av hav
  rcases mem_alSet hav with h | h
  · rw [h]; exact hv
  · exact hfs av h

theorem guardM_sf (c : Bool) (e : Err) : SF n₀ j P (guardM c e) (fun _ => True) := by
  unfold guardM
  exact SF.ite (fun _ => SF.throwPy _) (fun _ => SF.pure trivial)

theorem getHeap_sf : SF n₀ j P getHeap (fun _ => True) := by
  intro s hs hf
  exact ⟨⟨hs, hf⟩, fun _ _ => trivial⟩

/-- In-place `mutate_attr` on `j`: the stored value must satisfy `P`. -/
theorem mutateAttr_sf (X : Ctx) (a : Nat) (v : Ref) (tc force : Bool)
    (hv : v ≠ .sc .missing → P a v) :
    SF n₀ j P (mutateAttr X (.obj j) a v true tc force) (fun _ => True) := by
  unfold mutateAttr
  refine SF.ite (fun _ => SF.pure trivial) (fun hne => ?_)
  refine getInst_sf.bind (fun p _ => ?_)
  refine (guardM_sf _ _).bind (fun _ _ => ?_)
  refine getHeap_sf.bind (fun h _ => ?_)
  refine (guardM_sf _ _).bind (fun _ _ => ?_)
  simp only [Bool.true_or, Bool.not_true, Bool.false_eq_true, if_false]
  exact (rawSet_sf a v (hv hne)).bind (fun _ _ => SF.pure trivial)

end fields

/-! ### Prepared values: the incoming value or a new one -/

section same
variable {n₀ : Nat} {W : Nat → Prop}

theorem mutateValue0_same (X : Ctx) (hM : MakeSafe n₀ W X) (p : MV) (ho : FreshRef n₀ p.old) :
    Safe n₀ W (mutateValue0 X p) (fun r => r = p.new ∨ FreshRef n₀ r) := by
  unfold mutateValue0
  have h1 : Safe n₀ W (mvApply (mvChoose p).2 (mvChoose p).1)
      (fun r => r = p.new ∨ FreshRef n₀ r) := by
    refine (mvApply_safe _ _).mono (fun r hr => ?_)
    rcases hr with rfl | h
    · unfold mvChoose
      split
      · exact Or.inl rfl
      · split
        · exact Or.inr ho
        · exact Or.inr (freshRef_sc _)
    · exact Or.inr h
  refine h1.bind (fun v1 hv1 => ?_)
  refine (mvConstruct_safe X hM _ v1).bind (fun r hr => ?_)
  have hr' : r.1 = p.new ∨ FreshRef n₀ r.1 := by
    rcases hr with ⟨h, _⟩ | h
    · rw [h]; exact hv1
    · exact Or.inr h
  refine (mvApply_safe _ _).mono (fun x hx => ?_)
  rcases hx with rfl | h
  · exact hr'
  · exact Or.inr h

theorem collPrepare_same (X : Ctx) (hM : MakeSafe n₀ W X) (d : AttrDecl) (fam : Fam) (coll : Ref) :
    Safe n₀ W (collPrepare X d fam coll) (fun r => r = coll ∨ FreshRef n₀ r) := by
  unfold collPrepare
  have h1 : Safe n₀ W
      (if (coll = .sc .none || coll = .sc .missing) = true then createColl fam else pure coll)
      (fun r => r = coll ∨ FreshRef n₀ r) :=
    Safe.ite (fun _ => (createColl_safe fam).mono (fun r hr => Or.inr hr))
      (fun _ => Safe.pure (Or.inl rfl))
  refine h1.bind (fun coll' hc' => ?_)
  refine Safe.getHeap.bind (fun h _ => ?_)
  refine Safe.ite (fun _ => ?_) (fun _ => Safe.pure hc')
  refine (createColl_safe fam).bind (fun fresh hf => ?_)
  exact (addItems_safe X hM d fam _ hf.writable).bind (fun _ _ => Safe.pure (Or.inr hf))

theorem prepareAttrValue0_same (X : Ctx) (hM : MakeSafe n₀ W X) (d : AttrDecl) (v : Ref) :
    Safe n₀ W (prepareAttrValue0 X d v) (fun r => r = v ∨ FreshRef n₀ r) := by
  unfold prepareAttrValue0
  refine (mutateValue0_same X hM _ (freshRef_sc _)).bind (fun v1 hv1 => ?_)
  split
  · refine (collPrepare_same X hM d _ v1).mono (fun r hr => ?_)
    rcases hr with rfl | h
    · exact hv1
    · exact Or.inr h
  · exact Safe.pure hv1

end same
section fields2
variable {α β : Type} {n₀ j : Nat} {P : Nat → Ref → Prop}

theorem SF.run {m : M α} {Q : α → Prop} {s s' : MS} {a : α} (h : SF n₀ j P m Q)
    (hrun : m s = (.ok a, s')) (hj : j < s.heap.length) (hf : FieldsOK j P s.heap) :
    FieldsOK j P s'.heap ∧ Q a := by
  obtain ⟨hp, hq⟩ := h s hj hf
  rw [hrun] at hp hq
  exact ⟨hp.2, hq a rfl⟩

theorem setAttr_sf (X : Ctx) (hM : ∀ n W, MakeSafe n W X) (hj : n₀ ≤ j)
    (hP : ∀ a v, FreshRef n₀ v → P a v) (a : Nat) (v : Ref) (force : Bool) (hv : P a v) :
    SF n₀ j P (setAttr X (.obj j) a v force) (fun _ => True) := by
  unfold setAttr
  refine getInst_sf.bind (fun p _ => ?_)
  have h1 : SF n₀ j P
      (match (X.cd p.2.1).attr? a with
        | some d => prepareAttrValue0 X d v
        | none => pure v) (fun v' => P a v') := by
    split
    · rename_i d _
      refine (SF.of_safe hj (prepareAttrValue0_same X (hM n₀ _) d v)
        (fun n => prepareAttrValue0_safe X (hM n _) d v)).mono (fun r hr => ?_)
      rcases hr with rfl | h
      · exact hv
      · exact hP a r h
    · exact SF.pure hv
  refine h1.bind (fun v' hv' => ?_)
  exact (mutateAttr_sf X a v' true force (fun _ => hv')).bind (fun _ _ => SF.pure trivial)

theorem initAttrs_sf (X : Ctx) (hX : NoClassDnc X) (hM : ∀ n W, MakeSafe n W X) (hj : n₀ ≤ j)
    (hP : ∀ a v, FreshRef n₀ v → P a v) (c : Nat) (kw : List (Nat × Ref)) (copyArgs : Bool)
    (sel : AttrDecl → Bool) :
    ∀ ds, (∀ d, d ∈ ds → sel d = true → (copyArgs && !d.dnc) = false →
        ∀ v, alGet d.name kw = some v → P d.name v) →
      SF n₀ j P (initAttrs X (.obj j) c kw copyArgs sel ds) (fun _ => True) := by
  intro ds
  induction ds with
  | nil => intro _; exact SF.pure trivial
  | cons d ds ih =>
    intro hkw
    have ih' := ih (fun d' hd' => hkw d' (List.mem_cons_of_mem _ hd'))
    unfold initAttrs
    refine SF.bind (Q := fun _ => True) ?_ (fun _ _ => ih')
    refine SF.ite (fun hsel => ?_) (fun _ => SF.pure trivial)
    simp only
    have hsup : (copyArgs && !d.dnc) = false →
        P d.name ((alGet d.name kw).getD (.sc .missing)) := by
      intro hc
      cases hv : alGet d.name kw with
      | none => exact hP _ _ (freshRef_sc _)
      | some v => exact hkw d List.mem_cons_self hsel hc v hv
    have h1 : SF n₀ j P
        (if ((alGet d.name kw).getD (.sc .missing) != .sc .missing) = true then
            (if (copyArgs && !d.dnc) = true then protect X ((alGet d.name kw).getD (.sc .missing))
             else pure ((alGet d.name kw).getD (.sc .missing)))
          else lookupDefaultFor X d c) (fun v => P d.name v) :=
      SF.ite
        (fun _ => SF.ite
          (fun _ => (SF.of_safe hj (protect_safe X hX _)
            (fun n => (protect_safe X hX _).true)).mono (fun r hr => hP _ r hr))
          (fun hc => SF.pure (hsup (by simpa using hc))))
        (fun _ => (SF.of_safe hj (lookupDefaultFor_safe X hX (hM n₀ _) _ _)
          (fun n => (lookupDefaultFor_safe X hX (hM n _) _ _).true)).mono (fun r hr => hP _ r hr))
    refine h1.bind (fun v hv => ?_)
    exact SF.ite (fun _ => setAttr_sf X hM hj hP _ _ _ hv) (fun _ => SF.pure trivial)

end fields2

section parent
variable {n₀ : Nat} {W : Nat → Prop}

/-- `parent_kwargs`: each value is new, or the argument supplied for a `do_not_copy` attribute. -/
theorem parentKwargs_vals (X : Ctx) (hX : NoClassDnc X) (hM : MakeSafe n₀ W X) (c specC : Nat)
    (kw : List (Nat × Ref)) :
    ∀ ds, Safe n₀ W (parentKwargs X c specC kw ds)
      (fun pk => ∀ av, av ∈ pk → FreshRef n₀ av.2 ∨
        ∃ d, d ∈ ds ∧ d.name = av.1 ∧ d.dnc = true ∧ alGet d.name kw = some av.2) := by
  intro ds
  induction ds with
  | nil => exact Safe.pure (fun av hav => by cases hav)
  | cons d ds ih =>
    have ih' : Safe n₀ W (parentKwargs X c specC kw ds)
        (fun pk => ∀ av, av ∈ pk → FreshRef n₀ av.2 ∨
          ∃ d', d' ∈ d :: ds ∧ d'.name = av.1 ∧ d'.dnc = true ∧ alGet d'.name kw = some av.2) :=
      ih.mono (fun pk h av hav => (h av hav).imp id
        (fun ⟨d', hd', h⟩ => ⟨d', List.mem_cons_of_mem _ hd', h⟩))
    unfold parentKwargs
    refine Safe.ite (fun _ => ih') (fun _ => ?_)
    have h1 : Safe n₀ W
        (match alGet d.name kw with
          | some v => if d.dnc = true then pure v else protect X v
          | none => lookupDefaultFor X d c)
        (fun v => FreshRef n₀ v ∨ (d.dnc = true ∧ alGet d.name kw = some v)) := by
      split
      · rename_i v hv
        exact Safe.ite (fun hd => Safe.pure (Or.inr ⟨hd, hv⟩))
          (fun _ => (protect_safe X hX _).mono (fun r hr => Or.inl hr))
      · exact (lookupDefaultFor_safe X hX hM _ _).mono (fun r hr => Or.inl hr)
    refine h1.bind (fun v hv => ?_)
    refine ih'.bind (fun rest hrest => Safe.pure ?_)
    split
    · exact hrest
    · intro av hav
      rcases List.mem_cons.1 hav with h | h
      · rw [h]
        exact hv.imp id (fun ⟨h1, h2⟩ => ⟨d, List.mem_cons_self, rfl, h1, h2⟩)
      · exact hrest av h

end parent

/-- The value stored for attribute `a`: new, or the argument supplied for `a`
when `a` is declared `do_not_copy`. -/
def InitField (X : Ctx) (n₀ c : Nat) (kw : List (Nat × Ref)) (a : Nat) (v : Ref) : Prop :=
  FreshRef n₀ v ∨ ∃ d, d ∈ (X.cd c).attrs ∧ d.name = a ∧ d.dnc = true ∧ alGet a kw = some v

/-- **`init_fresh`, field by field**: after a successful `Cls(**kw)` every field of
the new instance holds a scalar, an object allocated by the constructor, or —
only for an attribute declared `do_not_copy` — the supplied argument itself. -/
theorem constructBody_fields (X : Ctx) (hX : NoClassDnc X) (hM : ∀ n W, MakeSafe n W X)
    (c : Nat) (kw : List (Nat × Ref)) {s s' : MS} {r : Ref}
    (h : constructBody X c kw s = (.ok r, s')) :
    r = .obj s.heap.length ∧ FieldsOK s.heap.length (InitField X s.heap.length c kw) s'.heap := by
  unfold constructBody at h
  simp only at h
  obtain ⟨u, s1, h1, h2⟩ := bind_ok_inv h
  cases guardM_run h1
  obtain ⟨i, s2, h3, h4⟩ := bind_ok_inv h2
  obtain ⟨rfl, hheap⟩ := alloc_run h3
  have hlt : s.heap.length < s2.heap.length := by rw [hheap]; simp
  have hf0 : FieldsOK s.heap.length (InitField X s.heap.length c kw) s2.heap := by
    intro c' t fs hn
    rw [hheap] at hn
    simp at hn
    obtain ⟨_, _, rfl⟩ := hn
    intro av hav
    cases hav
  have hP : ∀ a v, FreshRef s.heap.length v → InitField X s.heap.length c kw a v :=
    fun a v hv => Or.inl hv
  have hj : s.heap.length ≤ s.heap.length := Nat.le_refl _
  refine (fun hh : FieldsOK _ _ s'.heap ∧ r = .obj s.heap.length => ⟨hh.2, hh.1⟩)
    (SF.run (n₀ := s.heap.length) (Q := fun x => x = Ref.obj s.heap.length) ?_ h4 hlt hf0)
  refine (setThaw_sf true).bind (fun _ _ => ?_)
  refine SF.bind (Q := fun _ => True) ?_ (fun _ _ => ?_)
  · refine SF.ite (fun _ => ?_) (fun _ => SF.pure trivial)
    refine (SF.of_safe hj (parentKwargs_vals X hX (hM _ _) _ _ _ _)
      (fun n => (parentKwargs_safe X hX (hM n _) _ _ _ _))).bind (fun pk hpk => ?_)
    refine initAttrs_sf X hX hM hj hP _ _ _ _ _ ?_
    intro d hd _ _ v hv
    rcases hpk _ (alGet_mem hv) with hfr | ⟨d', hd', hname, hdnc, hget⟩
    · exact Or.inl hfr
    · simp only at hname hget
      exact Or.inr ⟨d', hd', hname, hdnc, by rw [← hname]; exact hget⟩
  · refine (initAttrs_sf X hX hM hj hP _ _ _ _ _ ?_).bind (fun _ _ => ?_)
    · intro d hd _ hc v hv
      have hdnc : d.dnc = true := by
        cases hdd : d.dnc with
        | true => rfl
        | false => rw [hdd] at hc; simp at hc
      exact Or.inr ⟨d, hd, rfl, hdnc, hv⟩
    · exact (setThaw_sf false).bind (fun _ _ => SF.pure rfl)

theorem construct_fields (X : Ctx) (hX : NoClassDnc X) (fuel c : Nat) (kw : List (Nat × Ref))
    {s s' : MS} {r : Ref} (h : construct X fuel c kw s = (.ok r, s')) :
    r = .obj s.heap.length ∧ FieldsOK s.heap.length (InitField X s.heap.length c kw) s'.heap := by
  cases fuel with
  | zero => unfold construct at h; cases h
  | succ fuel =>
    unfold construct at h
    exact constructBody_fields _ (noClassDnc_with_make X hX _)
      (fun n W c' kw' => construct_safe X hX fuel c' kw') c kw h


end SpecVerif.Heap
