import SpecVerif.Proofs.HeapFrame
/-!
# Reachability over the heap model (helper lemmas of C02 / C08)

`Reach h r j`: the object `j` is reachable from the reference `r` through the
children of the nodes of `h` (list items, dict values, instance field values).
Sharing is expressed with it: two values share mutable state iff some identity
is reachable from both.

Main facts
* `reach_set_of_not_reach` / `node_set_of_not_reach`: an in-place write to an
  object that a value cannot reach is invisible through that value;
* `reach_congr`: reachability only depends on the nodes that are reachable;
* `reach_append`, `reach_of_frame`: in a *closed* heap (no dangling
  reference) allocation and, more generally, any evolution that keeps the old
  nodes does not change what the old references reach.
-/
set_option linter.unusedSectionVars false
set_option linter.unusedVariables false
namespace SpecVerif.Heap
open SpecVerif.Py

/-- The references an object holds. -/
def Node.children : Node → List Ref
  | .list xs => xs
  | .dict kvs => kvs.map (fun kv => kv.2)
  | .set _ => []
  | .inst _ _ fs => fs.map (fun av => av.2)

/-- `Reach h r j`: object `j` is reachable from reference `r` in heap `h`. -/
inductive Reach (h : Heap) : Ref → Nat → Prop
  | self (i : Nat) : Reach h (.obj i) i
  | step {i : Nat} {n : Node} {r : Ref} {j : Nat} :
      h[i]? = some n → r ∈ n.children → Reach h r j → Reach h (.obj i) j

/-- No dangling reference: every child of a node of `h` is a scalar or an object of `h`. -/
def Closed (h : Heap) : Prop :=
  ∀ (i : Nat) (n : Node) (r : Ref), h[i]? = some n → r ∈ n.children →
    ∀ j : Nat, r = Ref.obj j → j < h.length

/-- The reference is a scalar or an object below `k`. -/
def Below (k : Nat) (r : Ref) : Prop := ∀ i, r = .obj i → i < k

theorem below_sc (k : Nat) (s : Sc) : Below k (.sc s) := fun _ h => by cases h

theorem not_reach_sc {h : Heap} {s : Sc} {j : Nat} : ¬ Reach h (.sc s) j := by
  intro hr; cases hr

theorem Reach.trans {h : Heap} {r : Ref} {i j : Nat} (h₁ : Reach h r i) (h₂ : Reach h (.obj i) j) :
    Reach h r j := by
  induction h₁ with
  | self i => exact h₂
  | step hn hr _ ih => exact Reach.step hn hr (ih h₂)

/-- Going one step further at the end of a path. -/
theorem Reach.tail {h : Heap} {r : Ref} {i k : Nat} {n : Node} (h₁ : Reach h r i)
    (hn : h[i]? = some n) (hk : Ref.obj k ∈ n.children) : Reach h r k :=
  h₁.trans (Reach.step hn hk (Reach.self k))

theorem reach_child {h : Heap} {i : Nat} {n : Node} {r : Ref} {j : Nat}
    (hn : h[i]? = some n) (hr : r ∈ n.children) (hj : Reach h r j) : Reach h (.obj i) j :=
  Reach.step hn hr hj

/-! ## Writes to unreachable objects are invisible -/

theorem reach_set_mp {h : Heap} {i : Nat} {n : Node} {r : Ref} {j : Nat}
    (hr : Reach (h.set i n) r j) (hni : ¬ Reach h r i) : Reach h r j := by
  induction hr with
  | self k => exact Reach.self k
  | @step k n' r' j hn hc _ ih =>
    have hne : i ≠ k := by
      intro he; subst he; exact hni (Reach.self _)
    rw [List.getElem?_set_ne hne] at hn
    exact Reach.step hn hc (ih (fun hri => hni (Reach.step hn hc hri)))

theorem reach_set_mpr {h : Heap} {i : Nat} {n : Node} {r : Ref} {j : Nat}
    (hr : Reach h r j) (hni : ¬ Reach h r i) : Reach (h.set i n) r j := by
  induction hr with
  | self k => exact Reach.self k
  | @step k n' r' j hn hc hrj ih =>
    have hne : i ≠ k := by
      intro he; subst he; exact hni (Reach.self _)
    have hn' : (h.set i n)[k]? = some n' := by rw [List.getElem?_set_ne hne]; exact hn
    exact Reach.step hn' hc (ih (fun hri => hni (Reach.step hn hc hri)))

/-- **A(1)**: if `r` cannot reach `i`, overwriting object `i` does not change
what `r` reaches. -/
theorem reach_set_of_not_reach {h : Heap} {i : Nat} {r : Ref} (n : Node) (hni : ¬ Reach h r i)
    (j : Nat) : Reach (h.set i n) r j ↔ Reach h r j :=
  ⟨fun hr => reach_set_mp hr hni, fun hr => reach_set_mpr hr hni⟩

/-- ... and every object `r` reaches keeps its node. -/
theorem node_set_of_not_reach {h : Heap} {i : Nat} {r : Ref} (n : Node) (hni : ¬ Reach h r i)
    {j : Nat} (hj : Reach h r j) : (h.set i n)[j]? = h[j]? := by
  have hne : i ≠ j := by
    intro he; subst he; exact hni hj
  exact List.getElem?_set_ne hne

/-! ## Reachability depends only on the reachable nodes -/

theorem reach_congr_mpr {h h' : Heap} {r : Ref} {j : Nat} (hr : Reach h r j)
    (hag : ∀ k, Reach h r k → h'[k]? = h[k]?) : Reach h' r j := by
  induction hr with
  | self k => exact Reach.self k
  | @step k n' r' j hn hc hrj ih =>
    have hn' : h'[k]? = some n' := by rw [hag k (Reach.self k)]; exact hn
    exact Reach.step hn' hc (ih (fun k' hk' => hag k' (Reach.step hn hc hk')))

theorem reach_congr_mp {h h' : Heap} {r : Ref} {j : Nat} (hr : Reach h' r j)
    (hag : ∀ k, Reach h r k → h'[k]? = h[k]?) : Reach h r j := by
  induction hr with
  | self k => exact Reach.self k
  | @step k n' r' j hn hc hrj ih =>
    have hn' : h[k]? = some n' := by rw [← hag k (Reach.self k)]; exact hn
    exact Reach.step hn' hc (ih (fun k' hk' => hag k' (Reach.step hn' hc hk')))

/-- If `h'` has the same node as `h` at every object `r` reaches in `h`, then `r`
reaches the same objects in both. -/
theorem reach_congr {h h' : Heap} {r : Ref} (hag : ∀ k, Reach h r k → h'[k]? = h[k]?) (j : Nat) :
    Reach h' r j ↔ Reach h r j :=
  ⟨fun hr => reach_congr_mp hr hag, fun hr => reach_congr_mpr hr hag⟩

/-! ## Closed heaps -/

/-- In a closed heap a reference below the heap size only reaches objects of the heap. -/
theorem reach_below {h : Heap} (hc : Closed h) {r : Ref} {j : Nat} (hr : Reach h r j)
    (hb : Below h.length r) : j < h.length := by
  induction hr with
  | self k => exact hb k rfl
  | @step k n' r' j hn hch _ ih => exact ih (fun i hi => hc k n' r' hn hch i hi)

/-- **A(3)**: if `h'` keeps every node of the closed heap `h`, the references
of `h` reach the same objects in `h'` as in `h`. -/
theorem reach_of_frame {h h' : Heap} (hc : Closed h) (hfr : ∀ i, i < h.length → h'[i]? = h[i]?)
    {r : Ref} (hb : Below h.length r) (j : Nat) : Reach h' r j ↔ Reach h r j :=
  reach_congr (fun k hk => hfr k (reach_below hc hk hb)) j

/-- **A(2)**: allocation does not change what the old references reach. -/
theorem reach_append {h : Heap} (hc : Closed h) (n : Node) {r : Ref} (hb : Below h.length r)
    (j : Nat) : Reach (h ++ [n]) r j ↔ Reach h r j :=
  reach_of_frame hc (fun i hi => List.getElem?_append_left hi) hb j

/-- A closed heap stays closed when a node with children in range is allocated. -/
theorem closed_append {h : Heap} (hc : Closed h) (n : Node)
    (hn : ∀ r, r ∈ n.children → Below (h.length + 1) r) : Closed (h ++ [n]) := by
  intro i n' r hi hr j hj
  rw [List.length_append, List.length_singleton]
  by_cases hlt : i < h.length
  · rw [List.getElem?_append_left hlt] at hi
    have := hc i n' r hi hr j hj
    omega
  · rw [List.getElem?_append_right (by omega)] at hi
    have hi0 : i - h.length = 0 := by
      by_cases h0 : i - h.length = 0
      · exact h0
      · have : ([n] : List Node)[i - h.length]? = none :=
          List.getElem?_eq_none (by simp; omega)
        rw [this] at hi; cases hi
    rw [hi0] at hi
    simp at hi
    subst hi
    exact hn r hr j hj

/-- A closed heap stays closed under a write whose children are in range. -/
theorem closed_set {h : Heap} (hc : Closed h) (i : Nat) (n : Node)
    (hn : ∀ r, r ∈ n.children → Below h.length r) : Closed (h.set i n) := by
  intro k n' r hk hr j hj
  rw [List.length_set]
  by_cases hik : i = k
  · subst hik
    by_cases hlt : i < h.length
    · rw [List.getElem?_set_self hlt] at hk
      cases hk
      exact hn r hr j hj
    · have : (h.set i n)[i]? = none := List.getElem?_eq_none (by rw [List.length_set]; omega)
      rw [this] at hk; cases hk
  · rw [List.getElem?_set_ne hik] at hk
    exact hc k n' r hk hr j hj

/-! ## Association lists -/

theorem alGet_mem {κ β} [DecidableEq κ] {k : κ} {v : β} :
    ∀ {l : List (κ × β)}, alGet k l = some v → (k, v) ∈ l := by
  intro l
  induction l with
  | nil => intro h; simp [alGet] at h
  | cons kv l ih =>
    obtain ⟨k', v'⟩ := kv
    intro h
    simp only [alGet] at h
    split at h
    · rename_i heq
      cases h; subst heq
      exact List.mem_cons_self
    · exact List.mem_cons_of_mem _ (ih h)

theorem alGet_alSet_self {κ β} [DecidableEq κ] (k : κ) (v : β) :
    ∀ (l : List (κ × β)), alGet k (alSet k v l) = some v := by
  intro l
  induction l with
  | nil => simp [alSet, alGet]
  | cons kv l ih =>
    obtain ⟨k', v'⟩ := kv
    simp only [alSet]
    split
    · simp [alGet]
    · rename_i hne
      simp only [alGet]
      rw [if_neg hne]
      exact ih

theorem mem_alSet {κ β} [DecidableEq κ] {k : κ} {v : β} {x : κ × β} :
    ∀ {l : List (κ × β)}, x ∈ alSet k v l → x = (k, v) ∨ x ∈ l := by
  intro l
  induction l with
  | nil => intro h; simp [alSet] at h; exact Or.inl h
  | cons kv l ih =>
    obtain ⟨k', v'⟩ := kv
    intro h
    simp only [alSet] at h
    split at h
    · rcases List.mem_cons.1 h with h | h
      · exact Or.inl h
      · exact Or.inr (List.mem_cons_of_mem _ h)
    · rcases List.mem_cons.1 h with h | h
      · exact Or.inr (by rw [h]; exact List.mem_cons_self)
      · rcases ih h with h | h
        · exact Or.inl h
        · exact Or.inr (List.mem_cons_of_mem _ h)

theorem mem_alDel {κ β} [DecidableEq κ] {k : κ} {x : κ × β} :
    ∀ {l : List (κ × β)}, x ∈ alDel k l → x ∈ l := by
  intro l
  induction l with
  | nil => intro h; simp [alDel] at h
  | cons kv l ih =>
    obtain ⟨k', v'⟩ := kv
    intro h
    simp only [alDel] at h
    split at h
    · exact List.mem_cons_of_mem _ h
    · rcases List.mem_cons.1 h with h | h
      · rw [h]; exact List.mem_cons_self
      · exact List.mem_cons_of_mem _ (ih h)

theorem alGet_none_of_not_mem {κ β} [DecidableEq κ] {k : κ} :
    ∀ {l : List (κ × β)}, k ∉ l.map (fun kv => kv.1) → alGet k l = none := by
  intro l
  induction l with
  | nil => intro _; rfl
  | cons kv l ih =>
    obtain ⟨k', v'⟩ := kv
    intro h
    simp only [List.map_cons, List.mem_cons, not_or] at h
    simp only [alGet]
    rw [if_neg (fun he => h.1 he.symm)]
    exact ih h.2

/-- With distinct keys, `del d[k]` really removes the key. -/
theorem alGet_alDel_self {κ β} [DecidableEq κ] (k : κ) :
    ∀ (l : List (κ × β)), (l.map (fun kv => kv.1)).Nodup → alGet k (alDel k l) = none := by
  intro l
  induction l with
  | nil => intro _; rfl
  | cons kv l ih =>
    obtain ⟨k', v'⟩ := kv
    intro hnd
    simp only [List.map_cons, List.nodup_cons] at hnd
    simp only [alDel]
    split
    · rename_i heq
      subst heq
      exact alGet_none_of_not_mem hnd.1
    · rename_i hne
      simp only [alGet]
      rw [if_neg hne]
      exact ih hnd.2

end SpecVerif.Heap
