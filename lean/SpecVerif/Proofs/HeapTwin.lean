import SpecVerif.Proofs.HeapC07
/-!
# Simulation of a frozen class table by its unfrozen twin (helper lemmas of C07)

Two runs of the same computation are compared: the *frozen* run under a context
`X` and the *twin* run under `Xu`, the same context with every `frozen` flag
cleared (`TwStatic`).  The frozen run opens thaw windows (`thawed`) that the twin
run does not need; `O` is the list of identities whose window is currently open
in the frozen run only, `P` a list of identities for which the frozen guard of
the frozen run is known to pass for another reason (class not frozen, or flag
set in both runs).

* `TwSim T h0 O P s su`: the two states agree except for the thaw flag of the
  objects in `O`; objects older than `h0.length` are those of `h0` (closed heap).
* `Tw T h0 O P m mu R`: from related states `m` (frozen run) and `mu` (twin run)
  reach related states, and both raise the same exception or return results
  related by `R`.
-/
set_option linter.unusedSectionVars false
set_option linter.unusedVariables false
namespace SpecVerif.Heap
open SpecVerif.Py

/-! ## The relation between the two states -/

def tw_frz (T : List ClassDecl) (c : Nat) : Bool := (T.getD c {}).frozen

def tw_nodeRefs : Node → List Ref
  | .list xs => xs
  | .dict kvs => kvs.map (·.2)
  | .set _ => []
  | .inst _ _ fs => fs.map (·.2)

def TwBelow (n : Nat) (r : Ref) : Prop := ∀ j, r = .obj j → j < n

def TwClosed (h0 : Heap) : Prop :=
  ∀ (i : Nat) (n : Node), h0[i]? = some n → ∀ r, r ∈ tw_nodeRefs n → TwBelow h0.length r

/-- The frozen guard passes on this node. -/
def TwPermOk (T : List ClassDecl) : Node → Prop
  | .inst c t _ => tw_frz T c = false ∨ t = true
  | _ => True

/-- How the nodes of identity `i` are related in the two runs. -/
def TwNodeRel (T : List ClassDecl) (O P : List Nat) (i : Nat) (n nu : Node) : Prop :=
  (i ∉ O ∧ nu = n ∧ (i ∈ P → TwPermOk T n)) ∨
  (i ∈ O ∧ ∃ c fs, n = .inst c true fs ∧ nu = .inst c false fs ∧ tw_frz T c = true)

structure TwSim (T : List ClassDecl) (h0 : Heap) (O P : List Nat) (s su : MS) : Prop where
  len : su.heap.length = s.heap.length
  le₀ : h0.length ≤ s.heap.length
  old : ∀ i, i < h0.length → s.heap[i]? = h0[i]?
  closed : TwClosed h0
  same : ∀ i, i ∉ O → su.heap[i]? = s.heap[i]?
  opened : ∀ i, i ∈ O → ∃ c fs, s.heap[i]? = some (.inst c true fs) ∧
    su.heap[i]? = some (.inst c false fs) ∧ tw_frz T c = true
  perm : ∀ i, i ∈ P → ∀ n, s.heap[i]? = some n → TwPermOk T n
  freshO : ∀ i, i ∈ O → h0.length ≤ i
  inb : ∀ i, (i ∈ O ∨ i ∈ P) → i < s.heap.length
  faults : su.faults = s.faults
  calls : ∀ k, countCalls k su.trace = countCalls k s.trace
  bud : s.budget = none
  budu : su.budget = none

/-- Relation between two outcomes. -/
def TwRes {α : Type} (R : α → α → Prop) : Except Exn α → Except Exn α → Prop
  | .ok a, .ok au => R a au
  | .error e, .error eu => eu = e
  | _, _ => False

def Tw {α : Type} (T : List ClassDecl) (h0 : Heap) (O P : List Nat) (m mu : M α)
    (R : α → α → Prop) : Prop :=
  ∀ s su, TwSim T h0 O P s su → TwSim T h0 O P (m s).2 (mu su).2 ∧ TwRes R (m s).1 (mu su).1

variable {α β : Type} {T : List ClassDecl} {h0 : Heap} {O P : List Nat}

/-! ## Structural rules -/

theorem Tw.pure {a au : α} {R : α → α → Prop} (h : R a au) :
    Tw T h0 O P (pure a : M α) (pure au : M α) R :=
  fun s su hs => ⟨hs, h⟩

theorem Tw.throwE {R : α → α → Prop} (e : Exn) :
    Tw T h0 O P (throwE e : M α) (throwE e : M α) R :=
  fun s su hs => ⟨hs, rfl⟩

theorem Tw.throwPy {R : α → α → Prop} (e : Err) :
    Tw T h0 O P (throwPy e : M α) (throwPy e : M α) R :=
  Tw.throwE _

theorem Tw.bind {m mu : M α} {f fu : α → M β} {R : α → α → Prop} {R' : β → β → Prop}
    (hm : Tw T h0 O P m mu R) (hf : ∀ a au, R a au → Tw T h0 O P (f a) (fu au) R') :
    Tw T h0 O P (m >>= f) (mu >>= fu) R' := by
  intro s su hs
  obtain ⟨h1, h2⟩ := hm s su hs
  rw [run_bind, run_bind]
  match hms : m s, hmu : mu su with
  | (.ok a, s'), (.ok au, su') =>
    rw [hms, hmu] at h1 h2
    exact hf a au h2 s' su' h1
  | (.error e, s'), (.error eu, su') =>
    rw [hms, hmu] at h1 h2
    exact ⟨h1, h2⟩
  | (.ok a, s'), (.error eu, su') =>
    rw [hms, hmu] at h2
    exact False.elim h2
  | (.error e, s'), (.ok au, su') =>
    rw [hms, hmu] at h2
    exact False.elim h2

theorem Tw.mono {m mu : M α} {R R' : α → α → Prop} (h : Tw T h0 O P m mu R)
    (hR : ∀ a au, R a au → R' a au) : Tw T h0 O P m mu R' := by
  intro s su hs
  obtain ⟨h1, h2⟩ := h s su hs
  refine ⟨h1, ?_⟩
  cases hms : (m s).1 <;> cases hmu : (mu su).1 <;> rw [hms, hmu] at h2
  · exact h2
  · exact False.elim h2
  · exact False.elim h2
  · exact hR _ _ h2

/-- Import a postcondition of the frozen run from the frame logic. -/
theorem Tw.and_safe {m mu : M α} {R : α → α → Prop} {Q : α → Prop}
    (h : Tw T h0 O P m mu R) (hq : Safe h0.length (fun _ => False) m Q) :
    Tw T h0 O P m mu (fun a au => R a au ∧ Q a) := by
  intro s su hs
  obtain ⟨h1, h2⟩ := h s su hs
  obtain ⟨_, hq'⟩ := hq s hs.le₀
  refine ⟨h1, ?_⟩
  cases hms : (m s).1 <;> cases hmu : (mu su).1 <;> rw [hms, hmu] at h2
  · exact h2
  · exact False.elim h2
  · exact False.elim h2
  · exact ⟨h2, hq' _ hms⟩

theorem Tw.ite {c : Prop} [Decidable c] {m₁ m₂ mu₁ mu₂ : M α} {R : α → α → Prop}
    (h₁ : c → Tw T h0 O P m₁ mu₁ R) (h₂ : ¬ c → Tw T h0 O P m₂ mu₂ R) :
    Tw T h0 O P (if c then m₁ else m₂) (if c then mu₁ else mu₂) R := by
  by_cases hc : c
  · rw [if_pos hc, if_pos hc]; exact h₁ hc
  · rw [if_neg hc, if_neg hc]; exact h₂ hc

theorem Tw.ite2 {c cu : Prop} [Decidable c] [Decidable cu] {m₁ m₂ mu₁ mu₂ : M α}
    {R : α → α → Prop} (hcu : cu ↔ c)
    (h₁ : c → Tw T h0 O P m₁ mu₁ R) (h₂ : ¬ c → Tw T h0 O P m₂ mu₂ R) :
    Tw T h0 O P (if c then m₁ else m₂) (if cu then mu₁ else mu₂) R := by
  by_cases hc : c
  · rw [if_pos hc, if_pos (hcu.2 hc)]; exact h₁ hc
  · rw [if_neg hc, if_neg (fun h => hc (hcu.1 h))]; exact h₂ hc

/-- Equal results satisfying `Q`. -/
def TwEq {α : Type} (Q : α → Prop) : α → α → Prop := fun a au => au = a ∧ Q a

theorem Tw.tryCatch {m mu h hu : M α} {sel : Exn → Bool} {R : α → α → Prop}
    (hm : Tw T h0 O P m mu R) (hh : Tw T h0 O P h hu R) :
    Tw T h0 O P (tryCatch m sel h) (tryCatch mu sel hu) R := by
  intro s su hs
  obtain ⟨h1, h2⟩ := hm s su hs
  unfold SpecVerif.Heap.tryCatch
  match hms : m s, hmu : mu su with
  | (.ok a, s'), (.ok au, su') =>
    rw [hms, hmu] at h1 h2
    exact ⟨h1, h2⟩
  | (.error e, s'), (.error eu, su') =>
    rw [hms, hmu] at h1 h2
    have : eu = e := h2
    subst this
    simp only
    split
    · exact hh s' su' h1
    · exact ⟨h1, rfl⟩
  | (.ok a, s'), (.error eu, su') =>
    rw [hms, hmu] at h2
    exact False.elim h2
  | (.error e, s'), (.ok au, su') =>
    rw [hms, hmu] at h2
    exact False.elim h2

end SpecVerif.Heap

namespace SpecVerif.Heap
open SpecVerif.Py

variable {α β : Type} {T : List ClassDecl} {h0 : Heap} {O P : List Nat}

/-! ## Primitives -/

theorem tw_tick_run {s : MS} (hb : s.budget = none) : tick s = (.ok (), s) := by
  unfold tick; rw [hb]

theorem tw_alloc_run {s : MS} (hb : s.budget = none) (n : Node) :
    alloc n s = (.ok s.heap.length,
      { s with heap := s.heap ++ [n], trace := .alloc s.heap.length :: s.trace }) := by
  unfold alloc
  rw [run_bind_ok (tw_tick_run hb)]
  rfl

theorem tw_write_run {s : MS} (hb : s.budget = none) (i : Nat) (n : Node) :
    write i n s = (.ok (), { s with heap := s.heap.set i n, trace := .write i :: s.trace }) := by
  unfold write
  rw [run_bind_ok (tw_tick_run hb)]
  rfl

theorem tw_lt_of_some {h : Heap} {i : Nat} {n : Node} (hi : h[i]? = some n) : i < h.length := by
  rcases Nat.lt_or_ge i h.length with h' | h'
  · exact h'
  · rw [List.getElem?_eq_none h'] at hi; cases hi

theorem TwSim.getNode {s su : MS} (hs : TwSim T h0 O P s su) (i : Nat) :
    (s.heap[i]? = none ∧ su.heap[i]? = none) ∨
    ∃ n nu, s.heap[i]? = some n ∧ su.heap[i]? = some nu ∧ TwNodeRel T O P i n nu := by
  by_cases hi : i ∈ O
  · obtain ⟨c, fs, h1, h2, h3⟩ := hs.opened i hi
    exact Or.inr ⟨_, _, h1, h2, Or.inr ⟨hi, c, fs, rfl, rfl, h3⟩⟩
  · have hsame := hs.same i hi
    cases hn : s.heap[i]? with
    | none => exact Or.inl ⟨rfl, by rw [hsame, hn]⟩
    | some n =>
      exact Or.inr ⟨n, n, rfl, by rw [hsame, hn], Or.inl ⟨hi, rfl, fun hp => hs.perm i hp n hn⟩⟩

theorem Tw.getNode (i : Nat) : Tw T h0 O P (getNode i) (getNode i) (TwNodeRel T O P i) := by
  intro s su hs
  unfold SpecVerif.Heap.getNode
  rcases hs.getNode i with ⟨h1, h2⟩ | ⟨n, nu, h1, h2, h3⟩
  · rw [h1, h2]; exact ⟨hs, rfl⟩
  · rw [h1, h2]; exact ⟨hs, h3⟩

/-- The two heaps seen by `getHeap`. -/
structure TwHeapRel (h hu : Heap) : Prop where
  len : hu.length = h.length
  rel : ∀ i : Nat, hu[i]? = h[i]? ∨
    ∃ c t tu fs, h[i]? = some (Node.inst c t fs) ∧ hu[i]? = some (Node.inst c tu fs)

theorem TwSim.heapRel {s su : MS} (hs : TwSim T h0 O P s su) : TwHeapRel s.heap su.heap := by
  refine ⟨hs.len, fun i => ?_⟩
  by_cases hi : i ∈ O
  · obtain ⟨c, fs, h1, h2, _⟩ := hs.opened i hi
    exact Or.inr ⟨c, true, false, fs, h1, h2⟩
  · exact Or.inl (hs.same i hi)

theorem Tw.getHeap : Tw T h0 O P getHeap getHeap TwHeapRel :=
  fun s su hs => ⟨hs, hs.heapRel⟩

theorem tw_countCalls_alloc (k : CbKind) (j : Nat) (tr : List Ev) :
    countCalls k (.alloc j :: tr) = countCalls k tr := rfl
theorem tw_countCalls_write (k : CbKind) (j : Nat) (tr : List Ev) :
    countCalls k (.write j :: tr) = countCalls k tr := rfl

/-- Allocating the same node in both runs. -/
theorem TwSim.alloc {s su : MS} (hs : TwSim T h0 O P s su) (n : Node) (e eu : Nat) :
    TwSim T h0 O P { s with heap := s.heap ++ [n], trace := .alloc e :: s.trace }
      { su with heap := su.heap ++ [n], trace := .alloc eu :: su.trace } := by
  refine ⟨?_, ?_, ?_, hs.closed, ?_, ?_, ?_, hs.freshO, ?_, hs.faults, ?_, hs.bud, hs.budu⟩
  · simp [hs.len]
  · simp; have := hs.le₀; omega
  · intro i hi
    have : i < s.heap.length := Nat.lt_of_lt_of_le hi hs.le₀
    simp only [List.getElem?_append_left this]
    exact hs.old i hi
  · intro i hi
    by_cases hlt : i < s.heap.length
    · have hlt' : i < su.heap.length := by rw [hs.len]; exact hlt
      simp only [List.getElem?_append_left hlt, List.getElem?_append_left hlt']
      exact hs.same i hi
    · have h1 : s.heap.length ≤ i := Nat.le_of_not_lt hlt
      have h2 : su.heap.length ≤ i := by rw [hs.len]; exact h1
      simp only [List.getElem?_append_right h1, List.getElem?_append_right h2, hs.len]
  · intro i hi
    have hlt : i < s.heap.length := hs.inb i (Or.inl hi)
    have hlt' : i < su.heap.length := by rw [hs.len]; exact hlt
    simp only [List.getElem?_append_left hlt, List.getElem?_append_left hlt']
    exact hs.opened i hi
  · intro i hi
    have hlt : i < s.heap.length := hs.inb i (Or.inr hi)
    simp only [List.getElem?_append_left hlt]
    exact hs.perm i hi
  · intro i hi
    have := hs.inb i hi
    simp; omega
  · intro k
    simp only [tw_countCalls_alloc]
    exact hs.calls k

theorem Tw.alloc (n : Node) :
    Tw T h0 O P (alloc n) (alloc n) (fun j ju => ju = j ∧ h0.length ≤ j ∧ j ∉ O ∧ j ∉ P) := by
  intro s su hs
  rw [tw_alloc_run hs.bud, tw_alloc_run hs.budu]
  refine ⟨hs.alloc n _ _, hs.len, hs.le₀, ?_, ?_⟩
  · intro hj; exact Nat.lt_irrefl _ (hs.inb _ (Or.inl hj))
  · intro hj; exact Nat.lt_irrefl _ (hs.inb _ (Or.inr hj))

/-- Writing related nodes to a fresh identity. -/
theorem TwSim.write {s su : MS} (hs : TwSim T h0 O P s su) {i : Nat} {n nu : Node}
    (hi : h0.length ≤ i) (hn : TwNodeRel T O P i n nu) :
    TwSim T h0 O P { s with heap := s.heap.set i n, trace := .write i :: s.trace }
      { su with heap := su.heap.set i nu, trace := .write i :: su.trace } := by
  refine ⟨?_, ?_, ?_, hs.closed, ?_, ?_, ?_, hs.freshO, ?_, hs.faults, ?_, hs.bud, hs.budu⟩
  · simp [hs.len]
  · simp; exact hs.le₀
  · intro j hj
    have hne : i ≠ j := by omega
    simp only [List.getElem?_set_ne hne]
    exact hs.old j hj
  · intro j hj
    by_cases hij : i = j
    · subst hij
      rcases hn with ⟨_, h2, _⟩ | ⟨h1, _⟩
      · subst h2
        simp only [List.getElem?_set, hs.len, if_true]
      · exact absurd h1 hj
    · simp only [List.getElem?_set_ne hij]
      exact hs.same j hj
  · intro j hj
    by_cases hij : i = j
    · subst hij
      rcases hn with ⟨h1, _⟩ | ⟨_, c, fs, h1, h2, h3⟩
      · exact absurd hj h1
      · have hlt : i < s.heap.length := hs.inb i (Or.inl hj)
        have hlt' : i < su.heap.length := by rw [hs.len]; exact hlt
        refine ⟨c, fs, ?_, ?_, h3⟩
        · simp only [List.getElem?_set_self hlt, h1]
        · simp only [List.getElem?_set_self hlt', h2]
    · simp only [List.getElem?_set_ne hij]
      exact hs.opened j hj
  · intro j hj m hm
    by_cases hij : i = j
    · subst hij
      have hlt : i < s.heap.length := hs.inb i (Or.inr hj)
      simp only [List.getElem?_set_self hlt] at hm
      cases hm
      rcases hn with ⟨_, _, h3⟩ | ⟨_, c, fs, h1, _, _⟩
      · exact h3 hj
      · rw [h1]; exact Or.inr rfl
    · simp only [List.getElem?_set_ne hij] at hm
      exact hs.perm j hj m hm
  · intro j hj
    have := hs.inb j hj
    simp; exact this
  · intro k
    simp only [tw_countCalls_write]
    exact hs.calls k

theorem Tw.write {i : Nat} {n nu : Node} (hi : h0.length ≤ i) (hn : TwNodeRel T O P i n nu) :
    Tw T h0 O P (write i n) (write i nu) (fun _ _ => True) := by
  intro s su hs
  rw [tw_write_run hs.bud, tw_write_run hs.budu]
  exact ⟨hs.write hi hn, trivial⟩

theorem Tw.callCb (k : CbKind) : Tw T h0 O P (callCb k) (callCb k) (fun _ _ => True) := by
  intro s su hs
  unfold SpecVerif.Heap.callCb
  simp only [hs.calls k, hs.faults]
  have hsim : TwSim T h0 O P { s with trace := .call k (countCalls k s.trace + 1) :: s.trace }
      { su with trace := .call k (countCalls k s.trace + 1) :: su.trace, faults := s.faults } := by
    refine ⟨hs.len, hs.le₀, hs.old, hs.closed, hs.same, hs.opened, hs.perm, hs.freshO, hs.inb,
      rfl, ?_, hs.bud, hs.budu⟩
    intro k'
    simp only [countCalls, hs.calls k']
  split
  · exact ⟨hsim, rfl⟩
  · exact ⟨hsim, trivial⟩

theorem tw_guardM (c : Bool) (e : Err) :
    Tw T h0 O P (guardM c e) (guardM c e) (fun _ _ => True) := by
  unfold guardM
  exact Tw.ite (fun _ => Tw.throwPy _) (fun _ => Tw.pure trivial)

/-- Guards that may differ syntactically but have the same value. -/
theorem tw_guardM2 {c cu : Bool} (h : cu = c) (e : Err) :
    Tw T h0 O P (guardM c e) (guardM cu e) (fun _ _ => True) := by
  subst h; exact tw_guardM _ _

end SpecVerif.Heap

namespace SpecVerif.Heap
open SpecVerif.Py

variable {α β : Type} {h0 : Heap} {O P : List Nat} {X Xu : Ctx}

/-! ## The twin context -/

/-- `Xu` is `X` with every `frozen` flag cleared (the constructor `make` aside). -/
structure TwStatic (X Xu : Ctx) (h0 : Heap) : Prop where
  cd : ∀ c, Xu.cd c = { X.cd c with frozen := false }
  len : Xu.T.length = X.T.length
  clsDict : Xu.clsDict = X.clsDict
  specDef : Xu.specDef = X.specDef
  dnc : NoClassDnc X
  defs : ∀ kv, kv ∈ X.clsDict ++ X.specDef → TwBelow h0.length kv.2

theorem TwStatic.attr? (hS : TwStatic X Xu h0) (c a : Nat) :
    (Xu.cd c).attr? a = (X.cd c).attr? a := by rw [hS.cd c]; rfl
theorem TwStatic.attrs (hS : TwStatic X Xu h0) (c : Nat) :
    (Xu.cd c).attrs = (X.cd c).attrs := by rw [hS.cd c]
theorem TwStatic.dncu (hS : TwStatic X Xu h0) (c : Nat) :
    (Xu.cd c).dnc = (X.cd c).dnc := by rw [hS.cd c]
theorem TwStatic.dncU (hS : TwStatic X Xu h0) : NoClassDnc Xu := fun c => by
  rw [hS.dncu c]; exact hS.dnc c
theorem TwStatic.postCopy (hS : TwStatic X Xu h0) (c : Nat) :
    (Xu.cd c).postCopy = (X.cd c).postCopy := by rw [hS.cd c]
theorem TwStatic.base (hS : TwStatic X Xu h0) (c : Nat) :
    (Xu.cd c).base = (X.cd c).base := by rw [hS.cd c]
theorem TwStatic.overrides (hS : TwStatic X Xu h0) (c : Nat) :
    (Xu.cd c).overrides = (X.cd c).overrides := by rw [hS.cd c]
theorem TwStatic.plain (hS : TwStatic X Xu h0) (c : Nat) :
    (Xu.cd c).plain = (X.cd c).plain := by rw [hS.cd c]
theorem TwStatic.frozenu (hS : TwStatic X Xu h0) (c : Nat) :
    (Xu.cd c).frozen = false := by rw [hS.cd c]
theorem TwStatic.unknownKw (hS : TwStatic X Xu h0) {γ : Type} (c : Nat) (kw : List (Nat × γ)) :
    unknownKw (Xu.cd c) kw = unknownKw (X.cd c) kw := by rw [hS.cd c]; rfl
theorem TwStatic.kwIn (hS : TwStatic X Xu h0) {γ : Type} (o : Option Nat) (kw : List (Nat × γ)) :
    kwIn (o.map Xu.cd) kw = kwIn (o.map X.cd) kw := by
  cases o with
  | none => rfl
  | some c => simp only [Option.map, SpecVerif.Heap.kwIn, hS.unknownKw]
theorem TwStatic.nodnc (hS : TwStatic X Xu h0) (c : Nat) : (X.cd c).dnc = false := hS.dnc c

theorem tw_frz_eq (X : Ctx) (c : Nat) : tw_frz X.T c = (X.cd c).frozen := rfl

theorem tw_isSub_congr (T T' : List ClassDecl)
    (h : ∀ c, (T'.getD c {}).base = (T.getD c {}).base) :
    ∀ fuel c' c, isSub T' fuel c' c = isSub T fuel c' c := by
  intro fuel
  induction fuel with
  | zero => intro c' c; rfl
  | succ fuel ih =>
    intro c' c
    unfold isSub
    rw [h c']
    cases (T.getD c' {}).base with
    | none => rfl
    | some b => simp only [ih]

theorem TwStatic.isSub (hS : TwStatic X Xu h0) (c' c : Nat) : Xu.isSub c' c = X.isSub c' c := by
  unfold Ctx.isSub
  rw [hS.len]
  exact tw_isSub_congr X.T Xu.T (fun c => hS.base c) _ c' c

theorem TwStatic.specOf (hS : TwStatic X Xu h0) (c : Nat) : Xu.specOf c = X.specOf c := by
  unfold Ctx.specOf
  simp only [hS.plain, hS.base]

/-- The static part does not depend on `make`. -/
theorem TwStatic.with_make (hS : TwStatic X Xu h0) (mk mku : Nat → List (Nat × Ref) → M Ref) :
    TwStatic { X with make := mk } { Xu with make := mku } h0 :=
  ⟨hS.cd, hS.len, hS.clsDict, hS.specDef, hS.dnc, hS.defs⟩

/-! ## Reading the heap: what the model computes from `getHeap` ignores the flags -/

theorem tw_isInstOf (hS : TwStatic X Xu h0) {h hu : Heap} (hh : TwHeapRel h hu) (c : Nat) (r : Ref) :
    isInstOf Xu hu c r = isInstOf X h c r := by
  cases r with
  | sc s => rfl
  | obj i =>
    simp only [isInstOf]
    rcases hh.rel i with he | ⟨c', t, tu, fs, h1, h2⟩
    · rw [he]
      cases h[i]? with
      | none => rfl
      | some n => cases n <;> simp only [hS.isSub]
    · simp only [h1, h2, hS.isSub]

theorem tw_typeOk (hS : TwStatic X Xu h0) {h hu : Heap} (hh : TwHeapRel h hu) (k : Kind) (v : Ref) :
    typeOk Xu hu k v = typeOk X h k v := by
  have hinst : ∀ c, isInstOf Xu hu c = isInstOf X h c := fun c => funext (tw_isInstOf hS hh c)
  cases v with
  | sc s => cases k <;> simp only [typeOk, hinst]
  | obj i =>
    rcases hh.rel i with he | ⟨c', t, tu, fs, h1, h2⟩
    · cases k <;> simp only [typeOk, hinst, he]
    · cases k <;> simp only [typeOk, hinst, h1, h2]

theorem tw_collIsEmpty {h hu : Heap} (hh : TwHeapRel h hu) (r : Ref) :
    collIsEmpty hu r = collIsEmpty h r := by
  cases r with
  | sc s => rfl
  | obj i =>
    simp only [collIsEmpty]
    rcases hh.rel i with he | ⟨c', t, tu, fs, h1, h2⟩
    · rw [he]
    · simp only [h1, h2]

theorem tw_iterItems {h hu : Heap} (hh : TwHeapRel h hu) (r : Ref) :
    iterItems hu r = iterItems h r := by
  cases r with
  | sc s => cases s <;> first | rfl | (rename_i t; cases t <;> rfl)
  | obj i =>
    simp only [iterItems]
    rcases hh.rel i with he | ⟨c', t, tu, fs, h1, h2⟩
    · rw [he]
    · simp only [h1, h2]

theorem tw_classOf {h hu : Heap} (hh : TwHeapRel h hu) (r : Ref) :
    classOf hu r = classOf h r := by
  cases r with
  | sc s => rfl
  | obj i =>
    simp only [classOf]
    rcases hh.rel i with he | ⟨c', t, tu, fs, h1, h2⟩
    · rw [he]
    · simp only [h1, h2]

theorem tw_kwOk (hS : TwStatic X Xu h0) {h hu : Heap} (hh : TwHeapRel h hu) (r : Ref) (op : Op) :
    kwOk Xu hu r op = kwOk X h r op := by
  cases op <;> simp only [kwOk, tw_classOf hh, hS.attr?, hS.unknownKw, hS.kwIn]

end SpecVerif.Heap

namespace SpecVerif.Heap
open SpecVerif.Py

variable {α β : Type} {T : List ClassDecl} {h0 : Heap} {O P : List Nat} {X Xu : Ctx}

/-! ## Callbacks -/

/-- Equal results. -/
@[reducible] def TwId {α : Type} : α → α → Prop := fun a au => au = a

theorem applyCb_sim (cb : Cb) (v : Ref) : Tw T h0 O P (applyCb cb v) (applyCb cb v) TwId := by
  unfold applyCb
  cases cb with
  | ident => exact Tw.pure rfl
  | const s => exact Tw.pure rfl
  | inc =>
    cases v with
    | sc s => cases s <;> first | exact Tw.throwPy _ | exact Tw.pure rfl
    | obj i => exact Tw.throwPy _
  | absInt =>
    cases v with
    | sc s => cases s <;> exact Tw.pure rfl
    | obj i => exact Tw.pure rfl
  | append e =>
    cases v with
    | sc s => exact Tw.throwPy _
    | obj i =>
      refine (Tw.getNode i).bind (fun n' n hn => ?_)
      rcases hn with ⟨_, rfl, _⟩ | ⟨_, c, fs, rfl, rfl, _⟩
      · cases n with
        | list xs =>
          exact (Tw.alloc _).bind (fun j ju hj => by obtain ⟨rfl, _⟩ := hj; exact Tw.pure rfl)
        | dict _ => exact Tw.throwPy _
        | set _ => exact Tw.throwPy _
        | inst _ _ _ => exact Tw.throwPy _
      · exact Tw.throwPy _
  | rebuild =>
    cases v with
    | sc s => exact Tw.throwPy _
    | obj i =>
      refine (Tw.getNode i).bind (fun n' n hn => ?_)
      rcases hn with ⟨_, rfl, _⟩ | ⟨_, c, fs, rfl, rfl, _⟩
      · cases n with
        | list xs =>
          exact (Tw.alloc _).bind (fun j ju hj => by obtain ⟨rfl, _⟩ := hj; exact Tw.pure rfl)
        | dict _ => exact Tw.throwPy _
        | set _ => exact Tw.throwPy _
        | inst _ _ _ => exact Tw.throwPy _
      · exact Tw.throwPy _

theorem invoke_sim (k : CbKind) (cb : Cb) (v : Ref) :
    Tw T h0 O P (invoke k cb v) (invoke k cb v) TwId := by
  unfold invoke
  exact (Tw.callCb k).bind (fun _ _ _ => applyCb_sim cb v)

/-! ## deepcopy -/

/-- A reference that may be copied: no window is open in the frozen run only,
or the reference is older than the boundary (its reachable part is that of `h0`). -/
def TwCp (h0 : Heap) (O : List Nat) (r : Ref) : Prop := O = [] ∨ TwBelow h0.length r

theorem tw_cp_sc (s : Sc) : TwCp h0 O (.sc s) := Or.inr (fun _ h => by cases h)

theorem tw_cp_nil (r : Ref) : TwCp h0 [] r := Or.inl rfl

theorem tw_getNode_cp {i : Nat} (hcp : TwCp h0 O (.obj i)) :
    Tw T h0 O P (getNode i) (getNode i)
      (fun n nu => nu = n ∧ ∀ r, r ∈ tw_nodeRefs n → TwCp h0 O r) := by
  intro s su hs
  unfold getNode
  rcases hcp with hO | hb
  · subst hO
    rw [hs.same i (by simp)]
    cases hn : s.heap[i]? with
    | none => exact ⟨hs, rfl⟩
    | some n => exact ⟨hs, rfl, fun r _ => Or.inl rfl⟩
  · have hi := hb i rfl
    have hiO : i ∉ O := fun h => by have := hs.freshO i h; omega
    rw [hs.same i hiO, hs.old i hi]
    cases hn : h0[i]? with
    | none => exact ⟨hs, rfl⟩
    | some n => exact ⟨hs, rfl, fun r hr => Or.inr (hs.closed i n hn r hr)⟩

theorem copyList_sim (f fu : Ref → Memo → M (Ref × Memo))
    (hf : ∀ r m, TwCp h0 O r → Tw T h0 O P (f r m) (fu r m) TwId) :
    ∀ rs m, (∀ r, r ∈ rs → TwCp h0 O r) →
      Tw T h0 O P (copyList f rs m) (copyList fu rs m) TwId := by
  intro rs
  induction rs with
  | nil => intro m _; exact Tw.pure rfl
  | cons r rs ih =>
    intro m hrs
    unfold copyList
    refine (hf r m (hrs r (by simp))).bind (fun p pu hp => ?_)
    cases hp
    obtain ⟨r', m1⟩ := p
    refine (ih m1 (fun r' hr' => hrs r' (by simp [hr']))).bind (fun q qu hq => ?_)
    cases hq
    obtain ⟨rs', m2⟩ := q
    exact Tw.pure rfl

theorem copyKVs_sim (f fu : Ref → Memo → M (Ref × Memo))
    (hf : ∀ r m, TwCp h0 O r → Tw T h0 O P (f r m) (fu r m) TwId) :
    ∀ rs m, (∀ kv, kv ∈ rs → TwCp h0 O kv.2) →
      Tw T h0 O P (copyKVs f rs m) (copyKVs fu rs m) TwId := by
  intro rs
  induction rs with
  | nil => intro m _; exact Tw.pure rfl
  | cons kr rs ih =>
    intro m hrs
    obtain ⟨k, r⟩ := kr
    unfold copyKVs
    refine (hf r m (hrs (k, r) (by simp))).bind (fun p pu hp => ?_)
    cases hp
    obtain ⟨r', m1⟩ := p
    refine (ih m1 (fun kv hkv => hrs kv (by simp [hkv]))).bind (fun q qu hq => ?_)
    cases hq
    obtain ⟨rs', m2⟩ := q
    exact Tw.pure rfl

theorem copyFields_sim (f fu : Ref → Memo → M (Ref × Memo))
    (hf : ∀ r m, TwCp h0 O r → Tw T h0 O P (f r m) (fu r m) TwId)
    (cd cdu : ClassDecl) (hattr : ∀ a, cdu.attr? a = cd.attr? a)
    (j c : Nat) (thaw : Bool) (hj : h0.length ≤ j) (hjO : j ∉ O) (hjP : j ∉ P) :
    ∀ fs acc m, (∀ kv, kv ∈ fs → TwCp h0 O kv.2) →
      Tw T h0 O P (copyFields f cd j c thaw acc fs m) (copyFields fu cdu j c thaw acc fs m) TwId := by
  intro fs
  induction fs with
  | nil => intro acc m _; exact Tw.pure rfl
  | cons av fs ih =>
    intro acc m hfs
    obtain ⟨a, v⟩ := av
    unfold copyFields
    simp only [hattr a]
    have hstep : Tw T h0 O P
        (if (match cd.attr? a with | some d => d.dnc | none => false) = true
          then (pure (v, m) : M (Ref × Memo)) else f v m)
        (if (match cd.attr? a with | some d => d.dnc | none => false) = true
          then (pure (v, m) : M (Ref × Memo)) else fu v m) TwId :=
      Tw.ite (fun _ => Tw.pure rfl) (fun _ => hf v m (hfs (a, v) (by simp)))
    refine hstep.bind (fun p pu hp => ?_)
    cases hp
    refine (Tw.write hj (Or.inl ⟨hjO, rfl, fun h => absurd h hjP⟩)).bind (fun _ _ _ => ?_)
    exact ih _ _ (fun kv hkv => hfs kv (by simp [hkv]))

theorem copyRef_sim (hS : TwStatic X Xu h0) :
    ∀ fuel r m, TwCp h0 O r →
      Tw X.T h0 O P (copyRef X fuel r m) (copyRef Xu fuel r m) TwId := by
  intro fuel
  induction fuel with
  | zero =>
    intro r m _
    cases r with
    | sc s => unfold copyRef; exact Tw.pure rfl
    | obj i => unfold copyRef; exact Tw.throwPy _
  | succ fuel ih =>
    intro r m hcp
    cases r with
    | sc s => unfold copyRef; exact Tw.pure rfl
    | obj i =>
      unfold copyRef
      cases hm : alGet i m with
      | some j => exact Tw.pure rfl
      | none =>
        simp only
        refine (tw_getNode_cp hcp).bind (fun node' node hnode => ?_)
        obtain ⟨rfl, hrefs⟩ := hnode
        cases node with
        | list xs =>
          refine (copyList_sim _ _ ih xs m hrefs).bind (fun p pu hp => ?_)
          cases hp
          obtain ⟨ys, m1⟩ := p
          exact (Tw.alloc _).bind (fun j ju hj => by obtain ⟨rfl, _⟩ := hj; exact Tw.pure rfl)
        | dict kvs =>
          refine (copyKVs_sim _ _ ih kvs m (fun kv hkv => hrefs kv.2 ?_)).bind (fun p pu hp => ?_)
          · exact List.mem_map.2 ⟨kv, hkv, rfl⟩
          cases hp
          obtain ⟨ys, m1⟩ := p
          exact (Tw.alloc _).bind (fun j ju hj => by obtain ⟨rfl, _⟩ := hj; exact Tw.pure rfl)
        | set xs =>
          exact (Tw.alloc _).bind (fun j ju hj => by obtain ⟨rfl, _⟩ := hj; exact Tw.pure rfl)
        | inst c thaw fs =>
          simp only [hS.dncu, hS.nodnc c, hS.postCopy]
          refine (Tw.alloc _).bind (fun j' j hj => ?_)
          obtain ⟨rfl, hj0, hjO, hjP⟩ := hj
          refine (copyFields_sim _ _ ih (X.cd c) (Xu.cd c) (hS.attr? c) j c false hj0 hjO hjP fs [] m
            (fun kv hkv => hrefs kv.2 (List.mem_map.2 ⟨kv, hkv, rfl⟩))).bind (fun m1 m1u hm1 => ?_)
          cases hm1
          have hpc : Tw X.T h0 O P (if (X.cd c).postCopy = true then callCb .postCopy else pure ())
              (if (X.cd c).postCopy = true then callCb .postCopy else pure ()) (fun _ _ => True) :=
            Tw.ite (fun _ => Tw.callCb _) (fun _ => Tw.pure trivial)
          exact hpc.bind (fun _ _ _ => Tw.pure rfl)

theorem deepcopy_sim (hS : TwStatic X Xu h0) (r : Ref) (hcp : TwCp h0 O r) :
    Tw X.T h0 O P (deepcopy X r) (deepcopy Xu r) TwId := by
  unfold deepcopy
  refine Tw.getHeap.bind (fun h hu hh => ?_)
  rw [hh.len]
  refine (copyRef_sim hS _ r [] hcp).bind (fun p pu hp => ?_)
  cases hp
  obtain ⟨r', m⟩ := p
  exact Tw.pure rfl

theorem protect_sim (hS : TwStatic X Xu h0) (r : Ref) (hcp : TwCp h0 O r) :
    Tw X.T h0 O P (protect X r) (protect Xu r) TwId := by
  unfold protect
  cases r with
  | sc s => exact Tw.pure rfl
  | obj i => exact deepcopy_sim hS _ hcp

end SpecVerif.Heap

namespace SpecVerif.Heap
open SpecVerif.Py

variable {α β : Type} {T : List ClassDecl} {h0 : Heap} {O P : List Nat} {X Xu : Ctx}

/-! ## Accessors -/

/-- The two results of `getInst r`: same identity, class, fields; the flags are
related as the nodes are. -/
def TwInstRel (T : List ClassDecl) (O P : List Nat) (r : Ref)
    (p pu : Nat × Nat × Bool × List (Nat × Ref)) : Prop :=
  ∃ i c fs t tu, r = .obj i ∧ p = (i, c, t, fs) ∧ pu = (i, c, tu, fs) ∧
    ((i ∉ O ∧ tu = t ∧ (i ∈ P → tw_frz T c = false ∨ t = true)) ∨
     (i ∈ O ∧ t = true ∧ tu = false ∧ tw_frz T c = true))

theorem getInst_sim (r : Ref) : Tw T h0 O P (getInst r) (getInst r) (TwInstRel T O P r) := by
  unfold getInst
  cases r with
  | sc s => exact Tw.throwPy _
  | obj i =>
    refine (Tw.getNode i).bind (fun n' n hn => ?_)
    rcases hn with ⟨hiO, rfl, hp⟩ | ⟨hiO, c, fs, rfl, rfl, hf⟩
    · cases n with
      | inst c t fs => exact Tw.pure ⟨i, c, fs, t, t, rfl, rfl, rfl, Or.inl ⟨hiO, rfl, hp⟩⟩
      | list _ => exact Tw.throwPy _
      | dict _ => exact Tw.throwPy _
      | set _ => exact Tw.throwPy _
    · exact Tw.pure ⟨i, c, fs, true, false, rfl, rfl, rfl, Or.inr ⟨hiO, rfl, rfl, hf⟩⟩

/-- The node written back by the frozen / twin run after reading `getInst`. -/
theorem tw_instRel_node {i c : Nat} {t tu : Bool}
    (h : (i ∉ O ∧ tu = t ∧ (i ∈ P → tw_frz T c = false ∨ t = true)) ∨
     (i ∈ O ∧ t = true ∧ tu = false ∧ tw_frz T c = true)) (fs : List (Nat × Ref)) :
    TwNodeRel T O P i (.inst c t fs) (.inst c tu fs) := by
  rcases h with ⟨h1, rfl, h3⟩ | ⟨h1, rfl, rfl, h4⟩
  · exact Or.inl ⟨h1, rfl, h3⟩
  · exact Or.inr ⟨h1, c, fs, rfl, rfl, h4⟩

theorem getAttrD_sim (r : Ref) (a : Nat) : Tw T h0 O P (getAttrD r a) (getAttrD r a) TwId := by
  unfold getAttrD
  cases r with
  | sc s => exact Tw.pure rfl
  | obj i =>
    refine (Tw.getNode i).bind (fun n' n hn => ?_)
    rcases hn with ⟨hiO, rfl, hp⟩ | ⟨hiO, c, fs, rfl, rfl, hf⟩
    · cases n <;> exact Tw.pure rfl
    · exact Tw.pure rfl

theorem rawSet_sim {r : Ref} (a : Nat) (v : Ref) (hr : FreshRef h0.length r) :
    Tw T h0 O P (rawSet r a v) (rawSet r a v) (fun _ _ => True) := by
  unfold rawSet
  refine (getInst_sim r).bind (fun p pu hp => ?_)
  obtain ⟨i, c, fs, t, tu, rfl, rfl, rfl, hflag⟩ := hp
  exact Tw.write (hr i rfl) (tw_instRel_node hflag _)

/-- `setThaw` on an object that both runs treat alike (e.g. under construction). -/
theorem setThaw_sim {i : Nat} (b : Bool) (hi : h0.length ≤ i) (hiO : i ∉ O) (hiP : i ∉ P) :
    Tw T h0 O P (setThaw i b) (setThaw i b) (fun _ _ => True) := by
  unfold setThaw
  refine (Tw.getNode i).bind (fun n' n hn => ?_)
  rcases hn with ⟨_, rfl, _⟩ | ⟨h1, _⟩
  · cases n with
    | inst c t fs => exact Tw.write hi (Or.inl ⟨hiO, rfl, fun h => absurd h hiP⟩)
    | list _ => exact Tw.pure trivial
    | dict _ => exact Tw.pure trivial
    | set _ => exact Tw.pure trivial
  · exact absurd h1 hiO

/-! ## The thaw window -/

theorem tw_getNode_none {s : MS} {i : Nat} (h : s.heap[i]? = none) :
    getNode i s = (.error (.py .runtimeError), s) := by
  unfold getNode; rw [h]

theorem tw_setThaw_run {s : MS} {i c : Nat} {t : Bool} {fs : List (Nat × Ref)}
    (hb : s.budget = none) (h : s.heap[i]? = some (.inst c t fs)) (b : Bool) :
    setThaw i b s = (.ok (), { s with heap := s.heap.set i (.inst c b fs),
                                      trace := .write i :: s.trace }) := by
  unfold setThaw
  rw [run_bind_ok (getNode_run_of h)]
  exact tw_write_run hb _ _

theorem TwSim.addP {s su : MS} (hs : TwSim T h0 O P s su) {v : Nat} {n : Node}
    (hv : s.heap[v]? = some n) (hp : TwPermOk T n) : TwSim T h0 O (v :: P) s su := by
  refine ⟨hs.len, hs.le₀, hs.old, hs.closed, hs.same, hs.opened, ?_, hs.freshO, ?_, hs.faults,
    hs.calls, hs.bud, hs.budu⟩
  · intro i hi m hm
    rcases List.mem_cons.1 hi with rfl | hi
    · rw [hv] at hm; cases hm; exact hp
    · exact hs.perm i hi m hm
  · intro i hi
    rcases hi with hi | hi
    · exact hs.inb i (Or.inl hi)
    · rcases List.mem_cons.1 hi with rfl | hi
      · exact tw_lt_of_some hv
      · exact hs.inb i (Or.inr hi)

theorem TwSim.dropP {s su : MS} {v : Nat} (hs : TwSim T h0 O (v :: P) s su) :
    TwSim T h0 O P s su :=
  ⟨hs.len, hs.le₀, hs.old, hs.closed, hs.same, hs.opened,
    fun i hi => hs.perm i (List.mem_cons_of_mem _ hi), hs.freshO,
    fun i hi => hs.inb i (hi.imp id (List.mem_cons_of_mem _)), hs.faults, hs.calls, hs.bud, hs.budu⟩

theorem TwSim.openW {s su : MS} (hs : TwSim T h0 O P s su) {v c : Nat} {fs : List (Nat × Ref)}
    (hvO : v ∉ O) (hv : s.heap[v]? = some (.inst c false fs)) (hf : tw_frz T c = true)
    (hfr : h0.length ≤ v) :
    TwSim T h0 (v :: O) P
      { s with heap := s.heap.set v (.inst c true fs), trace := .write v :: s.trace } su := by
  have hlt : v < s.heap.length := tw_lt_of_some hv
  refine ⟨?_, ?_, ?_, hs.closed, ?_, ?_, ?_, ?_, ?_, hs.faults, ?_, hs.bud, hs.budu⟩
  · simp [hs.len]
  · simp; exact hs.le₀
  · intro j hj
    have hne : v ≠ j := by omega
    simp only [List.getElem?_set_ne hne]
    exact hs.old j hj
  · intro j hj
    have hne : v ≠ j := fun h => hj (by rw [h]; exact List.mem_cons_self)
    simp only [List.getElem?_set_ne hne]
    exact hs.same j (fun h => hj (List.mem_cons_of_mem _ h))
  · intro j hj
    rcases List.mem_cons.1 hj with rfl | hj
    · refine ⟨c, fs, ?_, ?_, hf⟩
      · simp only [List.getElem?_set_self hlt]
      · rw [hs.same j hvO]; exact hv
    · have hne : v ≠ j := fun h => hvO (by rw [h]; exact hj)
      simp only [List.getElem?_set_ne hne]
      exact hs.opened j hj
  · intro j hj m hm
    by_cases hvj : v = j
    · subst hvj
      simp only [List.getElem?_set_self hlt] at hm
      cases hm
      exact Or.inr rfl
    · simp only [List.getElem?_set_ne hvj] at hm
      exact hs.perm j hj m hm
  · intro j hj
    rcases List.mem_cons.1 hj with rfl | hj
    · exact hfr
    · exact hs.freshO j hj
  · intro j hj
    simp only [List.length_set]
    rcases hj with hj | hj
    · rcases List.mem_cons.1 hj with rfl | hj
      · exact hlt
      · exact hs.inb j (Or.inl hj)
    · exact hs.inb j (Or.inr hj)
  · intro k
    simp only [tw_countCalls_write]
    exact hs.calls k

theorem TwSim.closeW {s su : MS} {v : Nat} (hs : TwSim T h0 (v :: O) P s su)
    (hvO : v ∉ O) (hvP : v ∉ P) :
    ∃ c fs, s.heap[v]? = some (.inst c true fs) ∧
      TwSim T h0 O P
        { s with heap := s.heap.set v (.inst c false fs), trace := .write v :: s.trace } su := by
  obtain ⟨c, fs, h1, h2, h3⟩ := hs.opened v List.mem_cons_self
  have hlt : v < s.heap.length := tw_lt_of_some h1
  refine ⟨c, fs, h1, ?_, ?_, ?_, hs.closed, ?_, ?_, ?_, ?_, ?_, hs.faults, ?_, hs.bud, hs.budu⟩
  · simp [hs.len]
  · simp; exact hs.le₀
  · intro j hj
    have hne : v ≠ j := by have := hs.freshO v List.mem_cons_self; omega
    simp only [List.getElem?_set_ne hne]
    exact hs.old j hj
  · intro j hj
    by_cases hvj : v = j
    · subst hvj
      simp only [List.getElem?_set_self hlt]
      exact h2
    · simp only [List.getElem?_set_ne hvj]
      exact hs.same j (fun h => by
        rcases List.mem_cons.1 h with rfl | h
        · exact hvj rfl
        · exact hj h)
  · intro j hj
    have hne : v ≠ j := fun h => hvO (by rw [h]; exact hj)
    simp only [List.getElem?_set_ne hne]
    exact hs.opened j (List.mem_cons_of_mem _ hj)
  · intro j hj m hm
    have hne : v ≠ j := fun h => hvP (by rw [h]; exact hj)
    simp only [List.getElem?_set_ne hne] at hm
    exact hs.perm j hj m hm
  · intro j hj
    exact hs.freshO j (List.mem_cons_of_mem _ hj)
  · intro j hj
    simp only [List.length_set]
    exact hs.inb j (hj.imp (List.mem_cons_of_mem _) id)
  · intro k
    simp only [tw_countCalls_write]
    exact hs.calls k

/-- `with thawed(r): body` against the bare `body` of the twin run.  `body` is
simulated with `r` registered in `O` (window opened here) or in `P`. -/
theorem thawed_sim (hS : TwStatic X Xu h0) {r : Ref} {body bodyu : M α} {R : α → α → Prop}
    (hfresh : FreshRef h0.length r)
    (hb : ∀ O' P', (∀ v, r = .obj v → v ∈ O' ∨ v ∈ P') → Tw X.T h0 O' P' body bodyu R) :
    Tw X.T h0 O P (thawed X r body) (thawed Xu r bodyu) R := by
  cases r with
  | sc s => exact hb O P (fun v h => by cases h)
  | obj v =>
    intro s su hs
    unfold thawed
    simp only
    rcases hs.getNode v with ⟨h1, h2⟩ | ⟨n, nu, h1, h2, hrel⟩
    · rw [run_bind_err (tw_getNode_none h1), run_bind_err (tw_getNode_none h2)]
      exact ⟨hs, rfl⟩
    · rw [run_bind_ok (getNode_run_of h1), run_bind_ok (getNode_run_of h2)]
      rcases hrel with ⟨hvO, rfl, hperm⟩ | ⟨hvO, c, fs, rfl, rfl, hf⟩
      · -- same node in both runs
        have hP : ∀ (hp : TwPermOk X.T nu),
            TwSim X.T h0 O P (body s).2 (bodyu su).2 ∧ TwRes R (body s).1 (bodyu su).1 := by
          intro hp
          obtain ⟨h3, h4⟩ := hb O (v :: P) (fun v' hv' => by cases hv'; exact Or.inr List.mem_cons_self)
            s su (hs.addP h1 hp)
          exact ⟨h3.dropP, h4⟩
        cases nu with
        | list xs => exact hP trivial
        | dict kvs => exact hP trivial
        | set xs => exact hP trivial
        | inst c t fs =>
          simp only [hS.frozenu c, Bool.false_and, Bool.false_eq_true, if_false]
          by_cases hc : ((X.cd c).frozen && !t) = true
          · rw [if_pos hc]
            have hfz : (X.cd c).frozen = true := by
              cases hh : (X.cd c).frozen <;> simp [hh] at hc ⊢
            have ht : t = false := by
              cases t <;> simp at hc ⊢
            subst ht
            have hvP : v ∉ P := by
              intro hvP
              rcases hperm hvP with h | h
              · rw [tw_frz_eq, hfz] at h; cases h
              · cases h
            have hopen := hs.openW hvO h1 hfz (hfresh v rfl)
            rw [run_bind_ok (tw_setThaw_run hs.bud h1 true)]
            generalize ({ s with heap := s.heap.set v (.inst c true fs),
                                 trace := .write v :: s.trace } : MS) = s1 at hopen ⊢
            obtain ⟨h3, h4⟩ := hb (v :: O) P
              (fun v' hv' => by cases hv'; exact Or.inl List.mem_cons_self) s1 su hopen
            obtain ⟨c', fs', h5, h6⟩ := h3.closeW hvO hvP
            unfold tryFinally
            generalize body s1 = rs at h3 h4 h5 h6 ⊢
            generalize bodyu su = ru at h3 h4 h6 ⊢
            obtain ⟨res, s'⟩ := rs
            obtain ⟨resu, su'⟩ := ru
            simp only at h3 h4 h5 h6
            have hfin := tw_setThaw_run h3.bud h5 false
            cases res with
            | ok a =>
              cases resu with
              | ok au => simp only [hfin]; exact ⟨h6, h4⟩
              | error eu => exact False.elim h4
            | error e =>
              cases resu with
              | ok au => exact False.elim h4
              | error eu => simp only [hfin]; exact ⟨h6, h4⟩
          · rw [if_neg hc]
            refine hP ?_
            cases hh : (X.cd c).frozen
            · exact Or.inl hh
            · cases t
              · simp [hh] at hc
              · exact Or.inr rfl
      · -- the window of `v` is already open in the frozen run
        simp only [hS.frozenu c, Bool.false_and, Bool.false_eq_true, if_false, Bool.not_true,
          Bool.and_false]
        exact hb O P (fun v' hv' => by cases hv'; exact Or.inl hvO) s su hs

end SpecVerif.Heap

namespace SpecVerif.Heap
open SpecVerif.Py

variable {α β : Type} {T : List ClassDecl} {h0 : Heap} {O P : List Nat} {X Xu : Ctx}

/-! ## The dynamic part of the twin context -/

/-- The nested constructors of the two runs simulate each other. -/
def TwMake (X Xu : Ctx) (h0 : Heap) : Prop :=
  ∀ O P c kw, (∀ kv, kv ∈ kw → TwCp h0 O kv.2) →
    Tw X.T h0 O P (X.make c kw) (Xu.make c kw) TwId

structure TwCtx (X Xu : Ctx) (h0 : Heap) : Prop where
  st : TwStatic X Xu h0
  ms : MakeSafe h0.length (fun _ => False) X
  mks : TwMake X Xu h0

theorem tw_fresh_of_writable {r : Ref} (h : Writable h0.length (fun _ => False) r) :
    FreshRef h0.length r := fun j hj => (h j hj).elim False.elim id

/-! ## `mutate_attr` -/

theorem tw_guard_false {i c : Nat} {t tu : Bool}
    (hflag : (i ∉ O ∧ tu = t ∧ (i ∈ P → tw_frz T c = false ∨ t = true)) ∨
     (i ∈ O ∧ t = true ∧ tu = false ∧ tw_frz T c = true))
    (force inplace : Bool) (h : inplace = true → force = true ∨ i ∈ O ∨ i ∈ P) :
    (!(force || t) && inplace && tw_frz T c) = false := by
  cases inplace with
  | false => simp
  | true =>
    rcases h rfl with rfl | hO | hP
    · simp
    · rcases hflag with ⟨h1, _⟩ | ⟨_, rfl, _⟩
      · exact absurd hO h1
      · simp
    · rcases hflag with ⟨_, _, h3⟩ | ⟨_, rfl, _⟩
      · rcases h3 hP with h | rfl
        · simp [h]
        · simp
      · simp

theorem mutateAttr_sim (hC : TwCtx X Xu h0) (obj : Ref) (a : Nat) (v : Ref)
    (inplace tc force : Bool)
    (hin : inplace = true → FreshRef h0.length obj ∧
      (force = true ∨ ∀ i, obj = .obj i → i ∈ O ∨ i ∈ P))
    (hcow : inplace = false → O = []) :
    Tw X.T h0 O P (mutateAttr X obj a v inplace tc force)
      (mutateAttr Xu obj a v inplace tc force) TwId := by
  have hS := hC.st
  unfold mutateAttr
  refine Tw.ite (fun _ => Tw.pure rfl) (fun _ => ?_)
  refine (getInst_sim obj).bind (fun p pu hp => ?_)
  obtain ⟨i, c, fs, t, tu, rfl, rfl, rfl, hflag⟩ := hp
  simp only
  have hg : (!(force || t) && inplace && (X.cd c).frozen) = false :=
    tw_guard_false hflag force inplace (fun hi => by
      rcases (hin hi).2 with h | h
      · exact Or.inl h
      · exact Or.inr (h i rfl))
  have hgu : (!(force || tu) && inplace && (Xu.cd c).frozen) = false := by
    rw [hS.frozenu]; simp
  rw [hg, hgu]
  refine (tw_guardM _ _).bind (fun _ _ _ => ?_)
  refine Tw.getHeap.bind (fun h hu hh => ?_)
  simp only [hS.attr?, tw_typeOk hS hh]
  refine (tw_guardM _ _).bind (fun _ _ _ => ?_)
  simp only [hS.dncu, hS.nodnc c, Bool.or_false]
  cases inplace with
  | false =>
    simp only [Bool.not_false, if_true]
    have hcp : TwCp h0 O (.obj i) := Or.inl (hcow rfl)
    refine ((deepcopy_sim hS _ hcp).and_safe (deepcopy_safe X hS.dnc (.obj i))).bind
      (fun tg' tg htg => ?_)
    obtain ⟨rfl, hfr⟩ := htg
    refine (thawed_sim hS hfr (fun O' P' _ => rawSet_sim a v hfr)).bind (fun _ _ _ => ?_)
    exact Tw.pure rfl
  | true =>
    simp only [Bool.not_true, Bool.false_eq_true, if_false]
    exact (rawSet_sim a v (hin rfl).1).bind (fun _ _ _ => Tw.pure rfl)

/-! ## Collections -/

theorem createColl_sim (fam : Fam) : Tw T h0 O P (createColl fam) (createColl fam) TwId := by
  unfold createColl
  exact (Tw.alloc _).bind (fun j' j hj => by obtain ⟨rfl, _⟩ := hj; exact Tw.pure rfl)

theorem getList_sim (coll : Ref) :
    Tw T h0 O P (getList coll) (getList coll)
      (fun p pu => pu = p ∧ coll = .obj p.1 ∧ p.1 ∉ O) := by
  unfold getList
  cases coll with
  | sc s => exact Tw.throwPy _
  | obj i =>
    refine (Tw.getNode i).bind (fun n' n hn => ?_)
    rcases hn with ⟨hiO, rfl, _⟩ | ⟨_, c, fs, rfl, rfl, _⟩
    · cases n with
      | list xs => exact Tw.pure ⟨rfl, rfl, hiO⟩
      | dict _ => exact Tw.throwPy _
      | set _ => exact Tw.throwPy _
      | inst _ _ _ => exact Tw.throwPy _
    · exact Tw.throwPy _

theorem getDict_sim (coll : Ref) :
    Tw T h0 O P (getDict coll) (getDict coll)
      (fun p pu => pu = p ∧ coll = .obj p.1 ∧ p.1 ∉ O) := by
  unfold getDict
  cases coll with
  | sc s => exact Tw.throwPy _
  | obj i =>
    refine (Tw.getNode i).bind (fun n' n hn => ?_)
    rcases hn with ⟨hiO, rfl, _⟩ | ⟨_, c, fs, rfl, rfl, _⟩
    · cases n with
      | dict xs => exact Tw.pure ⟨rfl, rfl, hiO⟩
      | list _ => exact Tw.throwPy _
      | set _ => exact Tw.throwPy _
      | inst _ _ _ => exact Tw.throwPy _
    · exact Tw.throwPy _

theorem getSet_sim (coll : Ref) :
    Tw T h0 O P (getSet coll) (getSet coll)
      (fun p pu => pu = p ∧ coll = .obj p.1 ∧ p.1 ∉ O) := by
  unfold getSet
  cases coll with
  | sc s => exact Tw.throwPy _
  | obj i =>
    refine (Tw.getNode i).bind (fun n' n hn => ?_)
    rcases hn with ⟨hiO, rfl, _⟩ | ⟨_, c, fs, rfl, rfl, _⟩
    · cases n with
      | set xs => exact Tw.pure ⟨rfl, rfl, hiO⟩
      | list _ => exact Tw.throwPy _
      | dict _ => exact Tw.throwPy _
      | inst _ _ _ => exact Tw.throwPy _
    · exact Tw.throwPy _

/-- Writing a collection node (never an instance) to a fresh identity outside `O`. -/
theorem tw_write_coll {i : Nat} {n : Node} (hi : h0.length ≤ i) (hiO : i ∉ O)
    (hn : TwPermOk T n) : Tw T h0 O P (write i n) (write i n) (fun _ _ => True) :=
  Tw.write hi (Or.inl ⟨hiO, rfl, fun _ => hn⟩)

theorem seqExtract_sim (hS : TwStatic X Xu h0) (ik : Kind) (coll idx : Ref) (raise : Bool)
    (by' : Option Bool) :
    Tw X.T h0 O P (seqExtract X ik coll idx raise by') (seqExtract Xu ik coll idx raise by')
      TwId := by
  unfold seqExtract
  refine Tw.ite (fun _ => Tw.pure rfl) (fun _ => ?_)
  refine Tw.getHeap.bind (fun h hu hh => ?_)
  simp only [tw_typeOk hS hh]
  refine (getList_sim coll).bind (fun p' p hp => ?_)
  obtain ⟨rfl, _, _⟩ := hp
  refine Tw.ite (fun _ => ?_) (fun _ => ?_)
  · split
    · split
      · exact Tw.pure rfl
      · exact Tw.ite (fun _ => Tw.throwPy _) (fun _ => Tw.pure rfl)
    · exact Tw.throwPy _
  · split
    · exact Tw.pure rfl
    · exact Tw.ite (fun _ => Tw.throwPy _) (fun _ => Tw.pure rfl)

end SpecVerif.Heap

namespace SpecVerif.Heap
open SpecVerif.Py

variable {α β : Type} {T : List ClassDecl} {h0 : Heap} {O P : List Nat} {X Xu : Ctx}

theorem seqInsert_sim (hS : TwStatic X Xu h0) (ik : Kind) {coll : Ref} (idx : Option Ref)
    (item : Ref) (insert : Bool) (hc : FreshRef h0.length coll) :
    Tw X.T h0 O P (seqInsert X ik coll idx item insert) (seqInsert Xu ik coll idx item insert)
      (fun _ _ => True) := by
  unfold seqInsert
  refine Tw.getHeap.bind (fun h hu hh => ?_)
  simp only [tw_typeOk hS hh]
  refine (tw_guardM _ _).bind (fun _ _ _ => ?_)
  refine (getList_sim coll).bind (fun p' p hp => ?_)
  obtain ⟨rfl, hp1, hp2⟩ := hp
  have hw := hc p.1 hp1
  split
  · exact tw_write_coll hw hp2 trivial
  · refine Tw.ite (fun _ => tw_write_coll hw hp2 trivial) (fun _ => ?_)
    split
    · exact tw_write_coll hw hp2 trivial
    · exact Tw.throwPy _
  · exact Tw.throwPy _

theorem mapExtract_sim (coll key : Ref) (raise : Bool) :
    Tw T h0 O P (mapExtract coll key raise) (mapExtract coll key raise) TwId := by
  unfold mapExtract
  refine (getDict_sim coll).bind (fun p' p hp => ?_)
  obtain ⟨rfl, _, _⟩ := hp
  split
  · split
    · exact Tw.pure rfl
    · exact Tw.ite (fun _ => Tw.throwPy _) (fun _ => Tw.pure rfl)
  · exact Tw.throwPy _

theorem mapInsert_sim (hS : TwStatic X Xu h0) (ik : Kind) {coll : Ref} (key item : Ref)
    (hc : FreshRef h0.length coll) :
    Tw X.T h0 O P (mapInsert X ik coll key item) (mapInsert Xu ik coll key item)
      (fun _ _ => True) := by
  unfold mapInsert
  refine Tw.getHeap.bind (fun h hu hh => ?_)
  simp only [tw_typeOk hS hh]
  refine (tw_guardM _ _).bind (fun _ _ _ => ?_)
  split
  · refine (tw_guardM _ _).bind (fun _ _ _ => ?_)
    refine (getDict_sim coll).bind (fun p' p hp => ?_)
    obtain ⟨rfl, hp1, hp2⟩ := hp
    exact tw_write_coll (hc p.1 hp1) hp2 trivial
  · exact Tw.throwPy _

theorem setExtract_sim (coll v : Ref) (raise : Bool) :
    Tw T h0 O P (setExtract coll v raise) (setExtract coll v raise) TwId := by
  unfold setExtract
  refine (getSet_sim coll).bind (fun p' p hp => ?_)
  obtain ⟨rfl, _, _⟩ := hp
  split
  · refine Tw.ite (fun _ => Tw.pure rfl) (fun _ => ?_)
    exact Tw.ite (fun _ => Tw.throwPy _) (fun _ => Tw.pure rfl)
  · exact Tw.throwPy _

theorem setInsert_sim (hS : TwStatic X Xu h0) (ik : Kind) {coll : Ref} (idx item : Ref)
    (replace : Bool) (hc : FreshRef h0.length coll) :
    Tw X.T h0 O P (setInsert X ik coll idx item replace) (setInsert Xu ik coll idx item replace)
      (fun _ _ => True) := by
  unfold setInsert
  refine Tw.getHeap.bind (fun h hu hh => ?_)
  simp only [tw_typeOk hS hh]
  refine (tw_guardM _ _).bind (fun _ _ _ => ?_)
  refine (getSet_sim coll).bind (fun p' p hp => ?_)
  obtain ⟨rfl, hp1, hp2⟩ := hp
  split
  · exact tw_write_coll (hc p.1 hp1) hp2 trivial
  · exact Tw.throwPy _

/-! ## `mutate_value` without attribute steps -/

theorem tw_cp_filter {kw : List (Nat × Ref)} {f : Nat × Ref → Bool}
    (h : ∀ kv, kv ∈ kw → TwCp h0 O kv.2) : ∀ kv, kv ∈ kw.filter f → TwCp h0 O kv.2 :=
  fun kv hkv => h kv (List.mem_filter.1 hkv).1

theorem defaultConstruct_sim (hC : TwCtx X Xu h0) (k : Kind) (attrs : List (Nat × Ref))
    (hattrs : ∀ kv, kv ∈ attrs → TwCp h0 O kv.2) :
    Tw X.T h0 O P (defaultConstruct X k attrs) (defaultConstruct Xu k attrs) TwId := by
  unfold defaultConstruct
  cases k with
  | int => exact Tw.pure rfl
  | str => exact Tw.pure rfl
  | listInt => exact (createColl_sim _).bind (fun r' r hr => by cases hr; exact Tw.pure rfl)
  | listSpec c => exact (createColl_sim _).bind (fun r' r hr => by cases hr; exact Tw.pure rfl)
  | dictStrInt => exact (createColl_sim _).bind (fun r' r hr => by cases hr; exact Tw.pure rfl)
  | setInt => exact (createColl_sim _).bind (fun r' r hr => by cases hr; exact Tw.pure rfl)
  | spec c =>
    exact (hC.mks O P c _ (tw_cp_filter hattrs)).bind (fun r' r hr => by cases hr; exact Tw.pure rfl)

theorem dictAsCtorArgs_sim (hC : TwCtx X Xu h0) (ctor : Option Kind) (value : Ref)
    (attrs : List (Nat × Ref)) (hattrs : ∀ kv, kv ∈ attrs → TwCp h0 O kv.2) :
    Tw X.T h0 O P (dictAsCtorArgs X ctor value attrs) (dictAsCtorArgs Xu ctor value attrs)
      TwId := by
  unfold dictAsCtorArgs
  refine Tw.getHeap.bind (fun h hu hh => ?_)
  cases ctor with
  | none => exact Tw.pure rfl
  | some k =>
    cases value with
    | sc s => exact Tw.pure rfl
    | obj i =>
      simp only
      rcases hh.rel i with he | ⟨c', t, tu, fs, h1, h2⟩
      · rw [he]
        split
        · refine Tw.ite (fun _ => Tw.pure rfl) (fun _ => ?_)
          refine Tw.ite (fun _ => Tw.throwPy _) (fun _ => ?_)
          split
          · exact Tw.ite (fun _ => Tw.pure rfl) (fun _ => Tw.throwPy _)
          · exact Tw.ite (fun _ => Tw.pure rfl) (fun _ => Tw.throwPy _)
          · exact (hC.mks O P _ _ (tw_cp_filter hattrs)).bind
              (fun r' r hr => by cases hr; exact Tw.pure rfl)
          · exact Tw.throwPy _
        · exact Tw.pure rfl
      · simp only [h1, h2]
        exact Tw.pure rfl

theorem mvApply_sim (cb : Option (CbKind × Cb)) (v : Ref) :
    Tw T h0 O P (mvApply cb v) (mvApply cb v) TwId := by
  unfold mvApply
  split
  · exact invoke_sim _ _ _
  · exact Tw.pure rfl

theorem mvConstruct_sim (hC : TwCtx X Xu h0) (p : MV) (value : Ref)
    (hattrs : ∀ kv, kv ∈ p.attrs → TwCp h0 O kv.2) :
    Tw X.T h0 O P (mvConstruct X p value) (mvConstruct Xu p value) TwId := by
  unfold mvConstruct
  refine (dictAsCtorArgs_sim hC _ _ _ hattrs).bind (fun o' o ho => ?_)
  cases ho
  split
  · exact Tw.pure rfl
  · refine Tw.ite (fun _ => ?_) (fun _ => Tw.pure rfl)
    split
    · exact (defaultConstruct_sim hC _ _ hattrs).bind (fun r' r hr => by cases hr; exact Tw.pure rfl)
    · exact Tw.pure rfl

theorem mutateValue0_sim (hC : TwCtx X Xu h0) (p : MV) :
    Tw X.T h0 O P (mutateValue0 X p) (mutateValue0 Xu p) TwId := by
  unfold mutateValue0
  refine (mvApply_sim _ _).bind (fun v1' v1 hv1 => ?_)
  cases hv1
  refine (mvConstruct_sim hC _ _ (fun kv hkv => by cases hkv)).bind (fun r' r hr => ?_)
  cases hr
  exact mvApply_sim _ _

/-! ## Preparing a whole collection -/

theorem seqAddAll_sim (hC : TwCtx X Xu h0) (d : AttrDecl) {coll : Ref}
    (hc : FreshRef h0.length coll) :
    ∀ items, Tw X.T h0 O P (seqAddAll X d coll items) (seqAddAll Xu d coll items)
      (fun _ _ => True) := by
  intro items
  induction items with
  | nil => exact Tw.pure trivial
  | cons item rest ih =>
    unfold seqAddAll
    refine (mutateValue0_sim hC _).bind (fun v' v hv => ?_)
    cases hv
    exact (seqInsert_sim hC.st _ _ _ _ hc).bind (fun _ _ _ => ih)

theorem mapAddAll_sim (hC : TwCtx X Xu h0) (d : AttrDecl) {coll : Ref}
    (hc : FreshRef h0.length coll) :
    ∀ items, Tw X.T h0 O P (mapAddAll X d coll items) (mapAddAll Xu d coll items)
      (fun _ _ => True) := by
  intro items
  induction items with
  | nil => exact Tw.pure trivial
  | cons item rest ih =>
    obtain ⟨k, item⟩ := item
    unfold mapAddAll
    refine (mapExtract_sim _ _ _).bind (fun e' e he => ?_)
    cases he
    refine (mutateValue0_sim hC _).bind (fun v' v hv => ?_)
    cases hv
    exact (mapInsert_sim hC.st _ _ _ hc).bind (fun _ _ _ => ih)

theorem setAddAll_sim (hC : TwCtx X Xu h0) (d : AttrDecl) {coll : Ref}
    (hc : FreshRef h0.length coll) :
    ∀ items, Tw X.T h0 O P (setAddAll X d coll items) (setAddAll Xu d coll items)
      (fun _ _ => True) := by
  intro items
  induction items with
  | nil => exact Tw.pure trivial
  | cons item rest ih =>
    unfold setAddAll
    refine (mutateValue0_sim hC _).bind (fun v' v hv => ?_)
    cases hv
    exact (setInsert_sim hC.st _ _ _ _ hc).bind (fun _ _ _ => ih)

theorem addItems_sim (hC : TwCtx X Xu h0) (d : AttrDecl) (fam : Fam) {coll : Ref} (items : Ref)
    (hc : FreshRef h0.length coll) :
    Tw X.T h0 O P (addItems X d fam coll items) (addItems Xu d fam coll items)
      (fun _ _ => True) := by
  unfold addItems
  refine Tw.getHeap.bind (fun h hu hh => ?_)
  cases fam with
  | map =>
    simp only
    cases items with
    | sc s => exact Tw.throwPy _
    | obj i =>
      simp only
      rcases hh.rel i with he | ⟨c', t, tu, fs, h1, h2⟩
      · rw [he]
        split
        · exact mapAddAll_sim hC d hc _
        · exact Tw.throwPy _
      · simp only [h1, h2]
        exact Tw.throwPy _
  | seq =>
    simp only [tw_iterItems hh]
    split
    · exact seqAddAll_sim hC d hc _
    · exact Tw.throwPy _
  | set =>
    simp only [tw_iterItems hh]
    split
    · exact setAddAll_sim hC d hc _
    · exact Tw.throwPy _

theorem collPrepare_sim (hC : TwCtx X Xu h0) (d : AttrDecl) (fam : Fam) (coll : Ref) :
    Tw X.T h0 O P (collPrepare X d fam coll) (collPrepare Xu d fam coll) TwId := by
  unfold collPrepare
  have h1 : Tw X.T h0 O P
      (if (coll = .sc .none || coll = .sc .missing) = true then createColl fam else pure coll)
      (if (coll = .sc .none || coll = .sc .missing) = true then createColl fam else pure coll)
      TwId :=
    Tw.ite (fun _ => createColl_sim fam) (fun _ => Tw.pure rfl)
  refine h1.bind (fun coll'' coll' hc' => ?_)
  cases hc'
  refine Tw.getHeap.bind (fun h hu hh => ?_)
  simp only [tw_typeOk hC.st hh, tw_collIsEmpty hh]
  refine Tw.ite (fun _ => ?_) (fun _ => Tw.pure rfl)
  refine ((createColl_sim fam).and_safe (createColl_safe fam)).bind (fun fresh' fresh hf => ?_)
  obtain ⟨rfl, hfr⟩ := hf
  exact (addItems_sim hC d fam _ hfr).bind (fun _ _ _ => Tw.pure rfl)

theorem prepareAttrValue0_sim (hC : TwCtx X Xu h0) (d : AttrDecl) (v : Ref) :
    Tw X.T h0 O P (prepareAttrValue0 X d v) (prepareAttrValue0 Xu d v) TwId := by
  unfold prepareAttrValue0
  refine (mutateValue0_sim hC _).bind (fun v1' v1 hv1 => ?_)
  cases hv1
  split
  · exact collPrepare_sim hC d _ _
  · exact Tw.pure rfl

/-! ## `__setattr__` -/

theorem setAttr_sim (hC : TwCtx X Xu h0) {obj : Ref} (a : Nat) (v : Ref) (force : Bool)
    (ho : FreshRef h0.length obj)
    (hg : force = true ∨ ∀ i, obj = .obj i → i ∈ O ∨ i ∈ P) :
    Tw X.T h0 O P (setAttr X obj a v force) (setAttr Xu obj a v force) (fun _ _ => True) := by
  unfold setAttr
  refine (getInst_sim obj).bind (fun p pu hp => ?_)
  obtain ⟨i, c, fs, t, tu, rfl, rfl, rfl, hflag⟩ := hp
  simp only [hC.st.attr?]
  have h1 : Tw X.T h0 O P
      (match (X.cd c).attr? a with
        | some d => prepareAttrValue0 X d v
        | none => pure v)
      (match (X.cd c).attr? a with
        | some d => prepareAttrValue0 Xu d v
        | none => pure v) TwId := by
    cases (X.cd c).attr? a with
    | some d => exact prepareAttrValue0_sim hC _ _
    | none => exact Tw.pure rfl
  refine h1.bind (fun v' v'u hv' => ?_)
  cases hv'
  exact (mutateAttr_sim hC _ a v' true true force (fun _ => ⟨ho, hg⟩)
    (fun h => by cases h)).bind (fun _ _ _ => Tw.pure trivial)

end SpecVerif.Heap

namespace SpecVerif.Heap
open SpecVerif.Py

variable {α β : Type} {T : List ClassDecl} {h0 : Heap} {O P : List Nat} {X Xu : Ctx}

/-! ## The attribute steps of `mutate_value` -/

theorem setAttrs_sim (hC : TwCtx X Xu h0) {obj : Ref} (ho : FreshRef h0.length obj)
    (hg : ∀ i, obj = .obj i → i ∈ O ∨ i ∈ P) :
    ∀ kw, Tw X.T h0 O P (setAttrs X obj kw) (setAttrs Xu obj kw) (fun _ _ => True) := by
  intro kw
  induction kw with
  | nil => exact Tw.pure trivial
  | cons av rest ih =>
    obtain ⟨a, v⟩ := av
    unfold setAttrs
    have h1 : Tw X.T h0 O P (if (v != .sc .missing) = true then setAttr X obj a v false else pure ())
        (if (v != .sc .missing) = true then setAttr Xu obj a v false else pure ())
        (fun _ _ => True) :=
      Tw.ite (fun _ => setAttr_sim hC a v false ho (Or.inr hg)) (fun _ => Tw.pure trivial)
    exact h1.bind (fun _ _ _ => ih)

theorem applyAttrTransforms_sim (hC : TwCtx X Xu h0) {obj : Ref} (ho : FreshRef h0.length obj)
    (hg : ∀ i, obj = .obj i → i ∈ O ∨ i ∈ P) :
    ∀ kwf, Tw X.T h0 O P (applyAttrTransforms X obj kwf) (applyAttrTransforms Xu obj kwf)
      (fun _ _ => True) := by
  intro kwf
  induction kwf with
  | nil => exact Tw.pure trivial
  | cons af rest ih =>
    obtain ⟨a, f⟩ := af
    unfold applyAttrTransforms
    refine (getAttrD_sim obj a).bind (fun cur curu hcur => ?_)
    cases hcur
    refine (invoke_sim _ _ _).bind (fun tv tvu htv => ?_)
    cases htv
    have h1 : Tw X.T h0 O P
        (if (tv != .sc .missing) = true then setAttr X obj a tv false else pure ())
        (if (tv != .sc .missing) = true then setAttr Xu obj a tv false else pure ())
        (fun _ _ => True) :=
      Tw.ite (fun _ => setAttr_sim hC a tv false ho (Or.inr hg)) (fun _ => Tw.pure trivial)
    exact h1.bind (fun _ _ _ => ih)

theorem Tw.onError {T : List ClassDecl} {m mu : M α} {h hu : M Unit} {R : α → α → Prop}
    {R' : Unit → Unit → Prop}
    (hm : Tw T h0 O P m mu R) (hh : Tw T h0 O P h hu R') :
    Tw T h0 O P (onError m h) (onError mu hu) R := by
  intro s su hs
  obtain ⟨h1, h2⟩ := hm s su hs
  unfold SpecVerif.Heap.onError
  match hms : m s, hmu : mu su with
  | (.ok a, s'), (.ok au, su') =>
    rw [hms, hmu] at h1 h2
    exact ⟨h1, h2⟩
  | (.error e, s'), (.error eu, su') =>
    rw [hms, hmu] at h1 h2
    have : eu = e := h2
    subst this
    simp only
    obtain ⟨h3, h4⟩ := hh s' su' h1
    match hhs : h s', hhu : hu su' with
    | (.ok _, s''), (.ok _, su'') =>
      rw [hhs, hhu] at h3
      exact ⟨h3, rfl⟩
    | (.error e', s''), (.error eu', su'') =>
      rw [hhs, hhu] at h3 h4
      exact ⟨h3, h4⟩
    | (.ok _, s''), (.error eu', su'') =>
      rw [hhs, hhu] at h4
      exact False.elim h4
    | (.error e', s''), (.ok _, su'') =>
      rw [hhs, hhu] at h4
      exact False.elim h4
  | (.ok a, s'), (.error eu, su') =>
    rw [hms, hmu] at h2
    exact False.elim h2
  | (.error e, s'), (.ok au, su') =>
    rw [hms, hmu] at h2
    exact False.elim h2

/-- `with _rollback_on_error(r): body` on both sides: the saved nodes are related
like the current ones, so restoring them keeps the simulation. -/
theorem rollbackOnError_sim {T : List ClassDecl} {r : Ref} {body bodyu : M α} {R : α → α → Prop}
    (hfresh : FreshRef h0.length r) (hb : Tw T h0 O P body bodyu R) :
    Tw T h0 O P (rollbackOnError r body) (rollbackOnError r bodyu) R := by
  cases r with
  | sc s => exact hb
  | obj v =>
    intro s su hs
    unfold rollbackOnError
    simp only
    rcases hs.getNode v with ⟨h1, h2⟩ | ⟨n, nu, h1, h2, hrel⟩
    · rw [run_bind_err (tw_getNode_none h1), run_bind_err (tw_getNode_none h2)]
      exact ⟨hs, rfl⟩
    · rw [run_bind_ok (getNode_run_of h1), run_bind_ok (getNode_run_of h2)]
      rcases hrel with ⟨hvO, rfl, hperm⟩ | ⟨hvO, c, fs, rfl, rfl, hf⟩
      · cases nu with
        | list xs => exact hb s su hs
        | dict kvs => exact hb s su hs
        | set xs => exact hb s su hs
        | inst c t fs =>
          exact Tw.onError hb
            (Tw.write (hfresh v rfl) (Or.inl ⟨hvO, rfl, hperm⟩)) s su hs
      · exact Tw.onError hb
          (Tw.write (hfresh v rfl) (Or.inr ⟨hvO, c, fs, rfl, rfl, hf⟩)) s su hs

/-- `with thawed(value), _rollback_on_error(value)` (the copy-on-write branch of `guarded`). -/
theorem guarded_sim (hS : TwStatic X Xu h0) {v : Ref} {body bodyu : M α} {R : α → α → Prop}
    (hv : FreshRef h0.length v)
    (hb : ∀ O' P', (∀ i, v = .obj i → i ∈ O' ∨ i ∈ P') → Tw X.T h0 O' P' body bodyu R) :
    Tw X.T h0 O P (guarded X false v body) (guarded Xu false v bodyu) R := by
  unfold guarded
  simp only [Bool.false_eq_true, if_false]
  exact thawed_sim hS hv (fun O' P' hmem => rollbackOnError_sim hv (hb O' P' hmem))

theorem tw_protect_step (hS : TwStatic X Xu h0) (safe : Bool) (value : Ref)
    (hv : safe = true → FreshRef h0.length value) (hO : O = []) :
    Tw X.T h0 O P (if safe = true then pure value else protect X value)
      (if safe = true then pure value else protect Xu value)
      (fun r ru => ru = r ∧ FreshRef h0.length r) :=
  Tw.ite (fun hs => Tw.pure ⟨rfl, hv hs⟩)
    (fun _ => (protect_sim hS value (Or.inl hO)).and_safe (protect_safe X hS.dnc value))

theorem mvAttrs_sim (hC : TwCtx X Xu h0) (p : MV) (value : Ref) (safe used : Bool)
    (hip : p.inplace = false) (hO : O = [] ∨ p.attrs = [])
    (hv : safe = true → FreshRef h0.length value) :
    Tw X.T h0 O P (mvAttrs X p value safe used) (mvAttrs Xu p value safe used) TwId := by
  unfold mvAttrs
  rw [hip]
  refine Tw.ite (fun hc => ?_) (fun _ => ?_)
  · have hO' : O = [] := by
      rcases hO with h | h
      · exact h
      · rw [h] at hc; simp at hc
    refine (tw_protect_step hC.st safe value hv hO').bind (fun value' value'u hv' => ?_)
    obtain ⟨hveq, hfr⟩ := hv'
    cases hveq
    refine (guarded_sim hC.st hfr (fun O' P' hmem => setAttrs_sim hC hfr hmem _)).bind
      (fun _ _ _ => ?_)
    exact Tw.pure rfl
  · exact Tw.ite (fun _ => Tw.throwPy _) (fun _ => Tw.pure rfl)

theorem mvAttrTransforms_sim (hC : TwCtx X Xu h0) (p : MV) (value : Ref) (safe : Bool)
    (hip : p.inplace = false) (hO : O = [] ∨ p.attrTransforms = [])
    (hv : safe = true → FreshRef h0.length value) :
    Tw X.T h0 O P (mvAttrTransforms X p value safe) (mvAttrTransforms Xu p value safe) TwId := by
  unfold mvAttrTransforms
  rw [hip]
  refine Tw.ite (fun hc => ?_) (fun _ => Tw.pure rfl)
  have hO' : O = [] := by
    rcases hO with h | h
    · exact h
    · rw [h] at hc; simp at hc
  refine (tw_protect_step hC.st safe value hv hO').bind (fun value' value'u hv' => ?_)
  obtain ⟨hveq, hfr⟩ := hv'
  cases hveq
  refine (guarded_sim hC.st hfr
    (fun O' P' hmem => applyAttrTransforms_sim hC hfr hmem _)).bind (fun _ _ _ => ?_)
  exact Tw.pure rfl

/-- `mutate_value(..., inplace=False)`.  Inside an open window (`O ≠ []`) it is
only ever called without keyword attributes / attribute transforms. -/
theorem mutateValue_sim (hC : TwCtx X Xu h0) (p : MV) (hip : p.inplace = false)
    (hO : O = [] ∨ (p.attrs = [] ∧ p.attrTransforms = [])) :
    Tw X.T h0 O P (mutateValue X p) (mutateValue Xu p) TwId := by
  have hX := hC.st.dnc
  have hM := hC.ms
  unfold mutateValue
  refine (mvApply_sim _ _).bind (fun v1 v1u hv1 => ?_)
  cases hv1
  have hattrs : ∀ kv, kv ∈ p.attrs → TwCp h0 O kv.2 := by
    rcases hO with h | ⟨h, _⟩
    · intro kv _; exact Or.inl h
    · rw [h]; intro kv hkv; cases hkv
  refine ((mvConstruct_sim hC p v1 hattrs).and_safe (mvConstruct_safe X hM p v1)).bind
    (fun r2 r2u hr2 => ?_)
  obtain ⟨hr2eq, hr2⟩ := hr2
  cases hr2eq
  have hsafe2 : r2.2.1 = true → FreshRef h0.length r2.1 := by
    intro hs
    rcases hr2 with ⟨_, h2⟩ | h
    · rw [h2, hip] at hs; cases hs
    · exact h
  refine ((mvAttrs_sim hC p r2.1 r2.2.1 r2.2.2 hip (hO.imp id (fun h => h.1)) hsafe2).and_safe
    (mvAttrs_safe X hX hM p r2.1 r2.2.1 r2.2.2 (fun h => (hsafe2 h).writable))).bind
    (fun r3 r3u hr3 => ?_)
  obtain ⟨hr3eq, hr3⟩ := hr3
  cases hr3eq
  refine ((mvApply_sim p.transform r3.1).and_safe (mvApply_safe p.transform r3.1)).bind
    (fun v4 v4u hv4 => ?_)
  obtain ⟨hv4eq, hv4⟩ := hv4
  cases hv4eq
  have hsafe4 : r3.2 = true → FreshRef h0.length v4 := by
    intro hs
    rcases hv4 with rfl | h
    · exact tw_fresh_of_writable (hr3.1 hs)
    · exact h
  exact mvAttrTransforms_sim hC p v4 (r3.2 && v4 == r3.1) hip (hO.imp id (fun h => h.2))
    (fun hs => hsafe4 (by simp only [Bool.and_eq_true] at hs; exact hs.1))

theorem prepareAttrValue_sim (hC : TwCtx X Xu h0) (d : AttrDecl) (v : Ref)
    (attrs : List (Nat × Ref)) (hO : O = [] ∨ attrs = []) :
    Tw X.T h0 O P (prepareAttrValue X d v attrs) (prepareAttrValue Xu d v attrs) TwId := by
  unfold prepareAttrValue
  refine (mutateValue_sim hC _ rfl (hO.imp id (fun h => ⟨h, rfl⟩))).bind (fun v1 v1u hv1 => ?_)
  cases hv1
  split
  · exact collPrepare_sim hC d _ _
  · exact Tw.pure rfl

end SpecVerif.Heap

namespace SpecVerif.Heap
open SpecVerif.Py

variable {α β : Type} {T : List ClassDecl} {h0 : Heap} {O P : List Nat} {X Xu : Ctx}

/-! ## Defaults -/

theorem tw_alGet_mem {κ γ : Type} [DecidableEq κ] {k : κ} {v : γ} :
    ∀ {l : List (κ × γ)}, alGet k l = some v → (k, v) ∈ l := by
  intro l
  induction l with
  | nil => intro h; simp [alGet] at h
  | cons kv rest ih =>
    obtain ⟨k', v'⟩ := kv
    intro h
    simp only [alGet] at h
    split at h
    · rename_i hk
      cases h
      subst hk
      exact List.mem_cons_self
    · exact List.mem_cons_of_mem _ (ih h)

theorem makeN_sim (hC : TwCtx X Xu h0) (c : Nat) :
    ∀ n, Tw X.T h0 O P (makeN X c n) (makeN Xu c n) TwId := by
  intro n
  induction n with
  | zero => exact Tw.pure rfl
  | succ n ih =>
    unfold makeN
    refine (hC.mks O P c [] (fun kv hkv => by cases hkv)).bind (fun r ru hr => ?_)
    cases hr
    refine ih.bind (fun rs rsu hrs => ?_)
    cases hrs
    exact Tw.pure rfl

theorem instantiate_sim (hC : TwCtx X Xu h0) (lit : Lit) :
    Tw X.T h0 O P (instantiate X lit) (instantiate Xu lit) TwId := by
  unfold instantiate
  cases lit with
  | sc s => exact Tw.pure rfl
  | list xs => exact (Tw.alloc _).bind (fun j' j hj => by obtain ⟨rfl, _⟩ := hj; exact Tw.pure rfl)
  | dict kvs => exact (Tw.alloc _).bind (fun j' j hj => by obtain ⟨rfl, _⟩ := hj; exact Tw.pure rfl)
  | set xs => exact (Tw.alloc _).bind (fun j' j hj => by obtain ⟨rfl, _⟩ := hj; exact Tw.pure rfl)
  | newInst c => exact hC.mks O P c [] (fun kv hkv => by cases hkv)
  | listInst c n =>
    refine (makeN_sim hC c n).bind (fun xs xsu hxs => ?_)
    cases hxs
    exact (Tw.alloc _).bind (fun j' j hj => by obtain ⟨rfl, _⟩ := hj; exact Tw.pure rfl)

theorem defaultValue_sim (hC : TwCtx X Xu h0) (d : AttrDecl) :
    Tw X.T h0 O P (defaultValue X d) (defaultValue Xu d) TwId := by
  unfold defaultValue
  rw [hC.st.specDef]
  split
  · exact Tw.pure rfl
  · exact instantiate_sim hC _
  · exact instantiate_sim hC _
  · cases hr : alGet (d.owner, d.name) X.specDef with
    | none => exact Tw.pure rfl
    | some r =>
      refine protect_sim hC.st r (Or.inr ?_)
      exact hC.st.defs _ (List.mem_append_right _ (tw_alGet_mem hr))

theorem lookupDefault_sim (hC : TwCtx X Xu h0) (d : AttrDecl) :
    ∀ fuel c, Tw X.T h0 O P (lookupDefault X d fuel c) (lookupDefault Xu d fuel c) TwId := by
  intro fuel
  induction fuel with
  | zero => intro c; unfold lookupDefault; exact Tw.pure rfl
  | succ fuel ih =>
    intro c
    unfold lookupDefault
    refine Tw.ite (fun _ => defaultValue_sim hC d) (fun _ => ?_)
    simp only [hC.st.overrides, hC.st.base, hC.st.clsDict]
    refine Tw.ite (fun _ => ?_) (fun _ => ?_)
    · cases hr : alGet (c, d.name) X.clsDict with
      | none => exact Tw.pure rfl
      | some r =>
        refine protect_sim hC.st r (Or.inr ?_)
        exact hC.st.defs _ (List.mem_append_left _ (tw_alGet_mem hr))
    · cases (X.cd c).base with
      | none => exact Tw.pure rfl
      | some b => exact ih b

theorem lookupDefaultFor_sim (hC : TwCtx X Xu h0) (d : AttrDecl) (c : Nat) :
    Tw X.T h0 O P (lookupDefaultFor X d c) (lookupDefaultFor Xu d c) TwId := by
  unfold lookupDefaultFor
  rw [hC.st.len]
  exact lookupDefault_sim hC d _ c

/-! ## `__delattr__` -/

theorem tw_guard_false' {i c : Nat} {t tu : Bool}
    (hflag : (i ∉ O ∧ tu = t ∧ (i ∈ P → tw_frz T c = false ∨ t = true)) ∨
     (i ∈ O ∧ t = true ∧ tu = false ∧ tw_frz T c = true))
    (force : Bool) (h : force = true ∨ i ∈ O ∨ i ∈ P) :
    (!(force || t) && tw_frz T c) = false := by
  have := tw_guard_false hflag force true (fun _ => h)
  simpa using this

theorem delAttr_sim (hC : TwCtx X Xu h0) {obj : Ref} (a : Nat) (force : Bool)
    (ho : FreshRef h0.length obj)
    (hg : force = true ∨ ∀ i, obj = .obj i → i ∈ O ∨ i ∈ P) :
    Tw X.T h0 O P (delAttr X obj a force) (delAttr Xu obj a force) (fun _ _ => True) := by
  have hS := hC.st
  unfold delAttr
  refine (getInst_sim obj).bind (fun p pu hp => ?_)
  obtain ⟨i, c, fs, t, tu, rfl, rfl, rfl, hflag⟩ := hp
  simp only
  have hgf : (!(force || t) && (X.cd c).frozen) = false :=
    tw_guard_false' hflag force (by
      rcases hg with h | h
      · exact Or.inl h
      · exact Or.inr (h i rfl))
  have hgu : (!(force || tu) && (Xu.cd c).frozen) = false := by
    rw [hS.frozenu]; simp
  rw [hgf, hgu]
  refine (tw_guardM _ _).bind (fun _ _ _ => ?_)
  simp only [hS.attr?]
  have h1 : Tw X.T h0 O P
      (match (X.cd c).attr? a with
        | some d => if (!force) = true then lookupDefaultFor X d c else pure (.sc .missing)
        | none => pure (.sc .missing))
      (match (X.cd c).attr? a with
        | some d => if (!force) = true then lookupDefaultFor Xu d c else pure (.sc .missing)
        | none => pure (.sc .missing)) TwId := by
    cases (X.cd c).attr? a with
    | some d => exact Tw.ite (fun _ => lookupDefaultFor_sim hC _ _) (fun _ => Tw.pure rfl)
    | none => exact Tw.pure rfl
  refine h1.bind (fun dflt dfltu hd => ?_)
  cases hd
  refine Tw.ite (fun _ => ?_) (fun _ => ?_)
  · refine (getInst_sim (.obj i)).bind (fun q qu hq => ?_)
    obtain ⟨i', c', fs', t', tu', hi', rfl, rfl, hflag'⟩ := hq
    cases hi'
    simp only
    exact Tw.ite (fun _ => Tw.write (ho i rfl) (tw_instRel_node hflag' _)) (fun _ => Tw.throwPy _)
  · cases (X.cd c).attr? a with
    | none => exact Tw.pure trivial
    | some d =>
      simp only
      refine (prepareAttrValue_sim hC d dflt [] (Or.inr rfl)).bind (fun v vu hv => ?_)
      cases hv
      exact (mutateAttr_sim hC _ a v true true true (fun _ => ⟨ho, Or.inl rfl⟩)
        (fun h => by cases h)).bind (fun _ _ _ => Tw.pure trivial)

/-! ## `__init__` -/

theorem parentKwargs_sim (hC : TwCtx X Xu h0) (c specC : Nat) (kw : List (Nat × Ref))
    (hkw : ∀ kv, kv ∈ kw → TwCp h0 O kv.2) :
    ∀ ds, Tw X.T h0 O P (parentKwargs X c specC kw ds) (parentKwargs Xu c specC kw ds) TwId := by
  intro ds
  induction ds with
  | nil => exact Tw.pure rfl
  | cons d ds ih =>
    unfold parentKwargs
    refine Tw.ite (fun _ => ih) (fun _ => ?_)
    have h1 : Tw X.T h0 O P
        (match alGet d.name kw with
          | some v => if d.dnc = true then pure v else protect X v
          | none => lookupDefaultFor X d c)
        (match alGet d.name kw with
          | some v => if d.dnc = true then pure v else protect Xu v
          | none => lookupDefaultFor Xu d c) TwId := by
      cases hv : alGet d.name kw with
      | some v =>
        exact Tw.ite (fun _ => Tw.pure rfl)
          (fun _ => protect_sim hC.st v (hkw _ (tw_alGet_mem hv)))
      | none => exact lookupDefaultFor_sim hC _ _
    refine h1.bind (fun v vu hv => ?_)
    cases hv
    refine ih.bind (fun rest restu hrest => ?_)
    cases hrest
    exact Tw.pure rfl

theorem initAttrs_sim (hC : TwCtx X Xu h0) {self : Ref} (c : Nat) (kw : List (Nat × Ref))
    (copyArgs : Bool) (sel : AttrDecl → Bool) (hs : FreshRef h0.length self)
    (hkw : copyArgs = true → ∀ kv, kv ∈ kw → TwCp h0 O kv.2) :
    ∀ ds, Tw X.T h0 O P (initAttrs X self c kw copyArgs sel ds)
      (initAttrs Xu self c kw copyArgs sel ds) (fun _ _ => True) := by
  intro ds
  induction ds with
  | nil => exact Tw.pure trivial
  | cons d ds ih =>
    unfold initAttrs
    refine Tw.bind (R := fun _ _ => True) ?_ (fun _ _ _ => ih)
    refine Tw.ite (fun _ => ?_) (fun _ => Tw.pure trivial)
    simp only
    have hsup : copyArgs = true → TwCp h0 O ((alGet d.name kw).getD (.sc .missing)) := by
      intro hca
      cases hv : alGet d.name kw with
      | none => exact tw_cp_sc _
      | some v => exact hkw hca _ (tw_alGet_mem hv)
    have h1 : Tw X.T h0 O P
        (if ((alGet d.name kw).getD (.sc .missing) != .sc .missing) = true then
            (if (copyArgs && !d.dnc) = true then protect X ((alGet d.name kw).getD (.sc .missing))
             else pure ((alGet d.name kw).getD (.sc .missing)))
          else lookupDefaultFor X d c)
        (if ((alGet d.name kw).getD (.sc .missing) != .sc .missing) = true then
            (if (copyArgs && !d.dnc) = true then protect Xu ((alGet d.name kw).getD (.sc .missing))
             else pure ((alGet d.name kw).getD (.sc .missing)))
          else lookupDefaultFor Xu d c) TwId :=
      Tw.ite
        (fun _ => Tw.ite (fun hca => protect_sim hC.st _ (hsup (by
            cases copyArgs
            · simp at hca
            · rfl))) (fun _ => Tw.pure rfl))
        (fun _ => lookupDefaultFor_sim hC _ _)
    refine h1.bind (fun v vu hv => ?_)
    cases hv
    exact Tw.ite (fun _ => setAttr_sim hC _ _ _ hs (Or.inl rfl)) (fun _ => Tw.pure trivial)

theorem constructBody_sim (hC : TwCtx X Xu h0) (c : Nat) (kw : List (Nat × Ref))
    (hkw : ∀ kv, kv ∈ kw → TwCp h0 O kv.2) :
    Tw X.T h0 O P (constructBody X c kw) (constructBody Xu c kw) TwId := by
  have hS := hC.st
  unfold constructBody
  simp only [hS.unknownKw, hS.specOf, hS.attrs]
  refine (tw_guardM _ _).bind (fun _ _ _ => ?_)
  refine ((Tw.alloc _)).bind (fun i' i hi => ?_)
  obtain ⟨rfl, hi0, hiO, hiP⟩ := hi
  have hw : FreshRef h0.length (.obj i) := freshRef_obj hi0
  refine (setThaw_sim true hi0 hiO hiP).bind (fun _ _ _ => ?_)
  refine Tw.bind (R := fun _ _ => True) ?_ (fun _ _ _ => ?_)
  · refine Tw.ite (fun _ => ?_) (fun _ => Tw.pure trivial)
    refine (parentKwargs_sim hC _ _ _ hkw _).bind (fun pk pku hpk => ?_)
    cases hpk
    exact initAttrs_sim hC _ _ _ _ hw (fun h => by cases h) _
  · refine (initAttrs_sim hC _ _ _ _ hw (fun _ => hkw) _).bind (fun _ _ _ => ?_)
    exact (setThaw_sim false hi0 hiO hiP).bind (fun _ _ _ => Tw.pure rfl)

theorem construct_sim (hS : TwStatic X Xu h0) :
    ∀ fuel (O' P' : List Nat) c kw, (∀ kv, kv ∈ kw → TwCp h0 O' kv.2) →
      Tw X.T h0 O' P' (construct X fuel c kw) (construct Xu fuel c kw) TwId := by
  intro fuel
  induction fuel with
  | zero => intro O' P' c kw _; unfold construct; exact Tw.throwPy _
  | succ fuel ih =>
    intro O' P' c kw hkw
    unfold construct
    have hC : TwCtx { X with make := construct X fuel } { Xu with make := construct Xu fuel } h0 :=
      ⟨hS.with_make _ _, fun c' kw' => construct_safe X hS.dnc fuel c' kw',
        fun O'' P'' c' kw' hkw' => ih O'' P'' c' kw' hkw'⟩
    exact constructBody_sim hC c kw hkw

/-- Closing the two contexts gives a twin context. -/
theorem tw_ctx_close (hS : TwStatic X Xu h0) : TwCtx X.close Xu.close h0 := by
  refine ⟨hS.with_make _ _, makeSafe_close X hS.dnc, ?_⟩
  intro O' P' c kw hkw
  show Tw X.T h0 O' P' (construct X (X.T.length + 1) c kw) (construct Xu (Xu.T.length + 1) c kw) TwId
  rw [hS.len]
  exact construct_sim hS _ O' P' c kw hkw

end SpecVerif.Heap

namespace SpecVerif.Heap
open SpecVerif.Py

variable {α β : Type} {T : List ClassDecl} {h0 : Heap} {O P : List Nat} {X Xu : Ctx}

/-! ## Scalar helpers (copy-on-write: no window is open when they start) -/

theorem withAttr_sim (hC : TwCtx X Xu h0) (self : Ref) (a : Nat) (v : Ref)
    (kw : List (Nat × Ref)) :
    Tw X.T h0 [] P (withAttr X self a v kw false) (withAttr Xu self a v kw false) TwId := by
  unfold withAttr
  refine (getInst_sim self).bind (fun p pu hp => ?_)
  obtain ⟨i, c, fs, t, tu, rfl, rfl, rfl, hflag⟩ := hp
  simp only [hC.st.attr?]
  cases (X.cd c).attr? a with
  | none => exact Tw.throwPy _
  | some d =>
    simp only
    refine (prepareAttrValue_sim hC d v kw (Or.inl rfl)).bind (fun v' v'u hv' => ?_)
    cases hv'
    exact mutateAttr_sim hC _ a v' false true false (fun h => by cases h) (fun _ => rfl)

theorem protectIfUnchanged_sim (hC : TwCtx X Xu h0) (d : AttrDecl) (self : Ref) (cdnc : Bool)
    (v : Ref) (inplace : Bool) :
    Tw X.T h0 [] P (protectIfUnchanged X d self cdnc v inplace)
      (protectIfUnchanged Xu d self cdnc v inplace) TwId := by
  unfold protectIfUnchanged
  refine (getAttrD_sim _ _).bind (fun cur curu hcur => ?_)
  cases hcur
  exact Tw.ite (fun _ => Tw.pure rfl) (fun _ => protect_sim hC.st v (Or.inl rfl))

theorem updateAttr_sim (hC : TwCtx X Xu h0) (self : Ref) (a : Nat) (v : Ref)
    (kw : List (Nat × Ref)) :
    Tw X.T h0 [] P (updateAttr X self a v kw false) (updateAttr Xu self a v kw false) TwId := by
  rw [updateAttr_eq_core hC.st.dnc, updateAttr_eq_core hC.st.dncU]; unfold updateAttrCore
  refine (getInst_sim self).bind (fun p pu hp => ?_)
  obtain ⟨i, c, fs, t, tu, rfl, rfl, rfl, hflag⟩ := hp
  simp only [hC.st.attr?, hC.st.dncu]
  cases (X.cd c).attr? a with
  | none => exact Tw.throwPy _
  | some d =>
    simp only
    refine (getAttrD_sim _ _).bind (fun old oldu hold => ?_)
    cases hold
    refine (mutateValue_sim hC _ rfl (Or.inl rfl)).bind (fun v1 v1u hv1 => ?_)
    cases hv1
    refine (protectIfUnchanged_sim hC _ _ _ _ _).bind (fun v2 v2u hv2 => ?_)
    cases hv2
    exact withAttr_sim hC _ a v2 []

theorem transformAttr_sim (hC : TwCtx X Xu h0) (self : Ref) (a : Nat) (f : Option Cb)
    (kwf : List (Nat × Cb)) :
    Tw X.T h0 [] P (transformAttr X self a f kwf false) (transformAttr Xu self a f kwf false)
      TwId := by
  rw [transformAttr_eq_core hC.st.dnc, transformAttr_eq_core hC.st.dncU]; unfold transformAttrCore
  refine (getInst_sim self).bind (fun p pu hp => ?_)
  obtain ⟨i, c, fs, t, tu, rfl, rfl, rfl, hflag⟩ := hp
  simp only [hC.st.attr?, hC.st.dncu]
  cases (X.cd c).attr? a with
  | none => exact Tw.throwPy _
  | some d =>
    simp only
    refine (getAttrD_sim _ _).bind (fun old oldu hold => ?_)
    cases hold
    refine (mutateValue_sim hC _ rfl (Or.inl rfl)).bind (fun v1 v1u hv1 => ?_)
    cases hv1
    refine (protectIfUnchanged_sim hC _ _ _ _ _).bind (fun v2 v2u hv2 => ?_)
    cases hv2
    exact withAttr_sim hC _ a v2 []

theorem resetAttr_sim (hC : TwCtx X Xu h0) (self : Ref) (a : Nat) :
    Tw X.T h0 [] P (resetAttr X self a false) (resetAttr Xu self a false) TwId := by
  unfold resetAttr
  simp only [Bool.not_false, if_true]
  refine ((deepcopy_sim hC.st self (Or.inl rfl)).and_safe
    (deepcopy_safe X hC.st.dnc self)).bind (fun copy copyu hc => ?_)
  obtain ⟨hceq, hfr⟩ := hc
  cases hceq
  refine (thawed_sim hC.st hfr
    (fun O' P' hmem => delAttr_sim hC a false hfr (Or.inr hmem))).bind (fun _ _ _ => ?_)
  exact Tw.pure rfl

/-! ## Top-level helpers -/

theorem update_sim (hC : TwCtx X Xu h0) (self : Ref) (kw : List (Nat × Ref)) :
    Tw X.T h0 [] P (update X self kw false) (update Xu self kw false) TwId := by
  unfold update
  exact mutateValue_sim hC _ rfl (Or.inl rfl)

theorem transform_sim (hC : TwCtx X Xu h0) (self : Ref) (kwf : List (Nat × Cb)) :
    Tw X.T h0 [] P (transform X self kwf false) (transform Xu self kwf false) TwId := by
  unfold transform
  exact mutateValue_sim hC _ rfl (Or.inl rfl)

theorem resetLoop_sim (hC : TwCtx X Xu h0) {self : Ref} (hs : FreshRef h0.length self)
    (hg : ∀ i, self = .obj i → i ∈ O ∨ i ∈ P) :
    ∀ ds, Tw X.T h0 O P (resetLoop X self ds) (resetLoop Xu self ds) (fun _ _ => True) := by
  intro ds
  induction ds with
  | nil => exact Tw.pure trivial
  | cons d ds ih =>
    unfold resetLoop
    exact (Tw.tryCatch (delAttr_sim hC _ _ hs (Or.inr hg)) (Tw.pure trivial)).bind
      (fun _ _ _ => ih)

theorem reset_sim (hC : TwCtx X Xu h0) (self : Ref) :
    Tw X.T h0 [] P (reset X self false) (reset Xu self false) TwId := by
  unfold reset
  refine (getInst_sim self).bind (fun p pu hp => ?_)
  obtain ⟨i, c, fs, t, tu, rfl, rfl, rfl, hflag⟩ := hp
  simp only [Bool.not_false, if_true, hC.st.attrs]
  refine ((deepcopy_sim hC.st _ (Or.inl rfl)).and_safe
    (deepcopy_safe X hC.st.dnc _)).bind (fun copy copyu hc => ?_)
  obtain ⟨hceq, hfr⟩ := hc
  cases hceq
  refine (thawed_sim hC.st hfr
    (fun O' P' hmem => resetLoop_sim hC hfr hmem _)).bind (fun _ _ _ => ?_)
  exact Tw.pure rfl

/-! ## Element helpers -/

theorem getCollection_sim (hC : TwCtx X Xu h0) (self : Ref) (a : Nat) :
    Tw X.T h0 [] P (getCollection X self a false) (getCollection Xu self a false) TwId := by
  unfold getCollection
  refine (getInst_sim self).bind (fun p pu hp => ?_)
  obtain ⟨i, c, fs, t, tu, rfl, rfl, rfl, hflag⟩ := hp
  simp only [Bool.false_and]
  refine (tw_guardM _ _).bind (fun _ _ _ => ?_)
  refine (getAttrD_sim _ _).bind (fun coll collu hcoll => ?_)
  cases hcoll
  exact Tw.ite (fun _ => protect_sim hC.st coll (Or.inl rfl)) (fun _ => Tw.pure rfl)

theorem ensureColl_sim (fam : Fam) (coll : Ref) :
    Tw T h0 O P (ensureColl fam coll) (ensureColl fam coll) TwId := by
  unfold ensureColl
  exact Tw.ite (fun _ => createColl_sim fam) (fun _ => Tw.pure rfl)

theorem elemSeq_sim (hC : TwCtx X Xu h0) (d : AttrDecl) {coll : Ref} (op : ElemOp)
    (hc : FreshRef h0.length coll) :
    Tw X.T h0 [] P (elemSeq X d coll op) (elemSeq Xu d coll op) (fun _ _ => True) := by
  unfold elemSeq
  cases op with
  | rm key byIndex =>
    simp only
    refine (seqExtract_sim hC.st _ _ _ _ _).bind (fun e eu he => ?_)
    cases he
    split
    · refine (getList_sim coll).bind (fun p' p hp => ?_)
      obtain ⟨rfl, hp1, hp2⟩ := hp
      split
      · exact tw_write_coll (hc p.1 hp1) hp2 trivial
      · exact Tw.throwPy _
    · exact Tw.pure trivial
  | add item key insert attrs =>
    simp only
    refine (seqExtract_sim hC.st _ _ _ _ _).bind (fun e eu he => ?_)
    cases he
    refine (mutateValue_sim hC _ rfl (Or.inl rfl)).bind (fun v vu hv => ?_)
    cases hv
    exact seqInsert_sim hC.st _ _ _ _ hc
  | upd key item byIndex attrs =>
    simp only
    refine (seqExtract_sim hC.st _ _ _ _ _).bind (fun e eu he => ?_)
    cases he
    refine (mutateValue_sim hC _ rfl (Or.inl rfl)).bind (fun v vu hv => ?_)
    cases hv
    exact seqInsert_sim hC.st _ _ _ _ hc
  | tr key f byIndex kwf =>
    simp only
    refine (seqExtract_sim hC.st _ _ _ _ _).bind (fun e eu he => ?_)
    cases he
    refine (mutateValue_sim hC _ rfl (Or.inl rfl)).bind (fun v vu hv => ?_)
    cases hv
    exact seqInsert_sim hC.st _ _ _ _ hc

theorem elemMap_sim (hC : TwCtx X Xu h0) (d : AttrDecl) {coll : Ref} (op : ElemOp)
    (hc : FreshRef h0.length coll) :
    Tw X.T h0 [] P (elemMap X d coll op) (elemMap Xu d coll op) (fun _ _ => True) := by
  unfold elemMap
  cases op with
  | rm key byIndex =>
    simp only
    refine (mapExtract_sim _ _ _).bind (fun e eu he => ?_)
    cases he
    refine (getDict_sim coll).bind (fun p' p hp => ?_)
    obtain ⟨rfl, hp1, hp2⟩ := hp
    split
    · exact tw_write_coll (hc p.1 hp1) hp2 trivial
    · exact Tw.pure trivial
  | add item key insert attrs =>
    simp only
    refine (mapExtract_sim _ _ _).bind (fun e eu he => ?_)
    cases he
    refine (mutateValue_sim hC _ rfl (Or.inl rfl)).bind (fun v vu hv => ?_)
    cases hv
    exact mapInsert_sim hC.st _ _ _ hc
  | upd key item byIndex attrs =>
    simp only
    refine (mapExtract_sim _ _ _).bind (fun e eu he => ?_)
    cases he
    refine (mutateValue_sim hC _ rfl (Or.inl rfl)).bind (fun v vu hv => ?_)
    cases hv
    exact mapInsert_sim hC.st _ _ _ hc
  | tr key f byIndex kwf =>
    simp only
    refine (mapExtract_sim _ _ _).bind (fun e eu he => ?_)
    cases he
    refine (mutateValue_sim hC _ rfl (Or.inl rfl)).bind (fun v vu hv => ?_)
    cases hv
    exact mapInsert_sim hC.st _ _ _ hc

theorem elemSet_sim (hC : TwCtx X Xu h0) (d : AttrDecl) {coll : Ref} (op : ElemOp)
    (hc : FreshRef h0.length coll) :
    Tw X.T h0 [] P (elemSet X d coll op) (elemSet Xu d coll op) (fun _ _ => True) := by
  unfold elemSet
  cases op with
  | rm key byIndex =>
    simp only
    refine (setExtract_sim _ _ _).bind (fun e eu he => ?_)
    cases he
    refine (getSet_sim coll).bind (fun p' p hp => ?_)
    obtain ⟨rfl, hp1, hp2⟩ := hp
    split
    · exact tw_write_coll (hc p.1 hp1) hp2 trivial
    · exact Tw.pure trivial
  | add item key insert attrs =>
    simp only
    refine (mutateValue_sim hC _ rfl (Or.inl rfl)).bind (fun v vu hv => ?_)
    cases hv
    exact setInsert_sim hC.st _ _ _ _ hc
  | upd key item byIndex attrs =>
    simp only
    refine (setExtract_sim _ _ _).bind (fun e eu he => ?_)
    cases he
    refine (mutateValue_sim hC _ rfl (Or.inl rfl)).bind (fun v vu hv => ?_)
    cases hv
    exact setInsert_sim hC.st _ _ _ _ hc
  | tr key f byIndex kwf =>
    simp only
    refine (setExtract_sim _ _ _).bind (fun e eu he => ?_)
    cases he
    refine (mutateValue_sim hC _ rfl (Or.inl rfl)).bind (fun v vu hv => ?_)
    cases hv
    exact setInsert_sim hC.st _ _ _ _ hc

theorem mutateCollection_sim (hC : TwCtx X Xu h0) (d : AttrDecl) (fam : Fam) {coll : Ref}
    (op : ElemOp) (hc : FreshRef h0.length coll) :
    Tw X.T h0 [] P (mutateCollection X d fam coll op) (mutateCollection Xu d fam coll op)
      TwId := by
  unfold mutateCollection
  refine ((ensureColl_sim fam coll).and_safe (ensureColl_safe fam hc.writable)).bind
    (fun coll' coll'u hc' => ?_)
  obtain ⟨hceq, hw⟩ := hc'
  cases hceq
  have hfr := tw_fresh_of_writable hw
  refine Tw.bind (R := fun _ _ => True) ?_ (fun _ _ _ => Tw.pure rfl)
  cases fam with
  | seq => exact elemSeq_sim hC d op hfr
  | map => exact elemMap_sim hC d op hfr
  | set => exact elemSet_sim hC d op hfr

theorem elemHelper_sim (hC : TwCtx X Xu h0) (self : Ref) (a : Nat) (op : ElemOp) :
    Tw X.T h0 [] P (elemHelper X self a op false) (elemHelper Xu self a op false) TwId := by
  unfold elemHelper
  refine (getInst_sim self).bind (fun p pu hp => ?_)
  obtain ⟨i, c, fs, t, tu, rfl, rfl, rfl, hflag⟩ := hp
  simp only [hC.st.attr?]
  cases (X.cd c).attr? a with
  | none => exact Tw.throwPy _
  | some d =>
    simp only
    cases d.kind.fam? with
    | none => exact Tw.throwPy _
    | some fam =>
      simp only
      refine ((getCollection_sim hC _ a).and_safe
        (getCollection_safe X hC.st.dnc _ a false)).bind (fun coll0 coll0u h0' => ?_)
      obtain ⟨hceq, hfr⟩ := h0'
      cases hceq
      refine (mutateCollection_sim hC d fam op (hfr rfl)).bind (fun coll1 coll1u h1 => ?_)
      cases h1
      exact mutateAttr_sim hC _ a coll1 false false false (fun h => by cases h) (fun _ => rfl)

/-! ## The public operations -/

/-- Every public operation not called in place runs alike under the frozen
table and under its twin, up to the thaw windows of the frozen run (all closed
again at the end: `O = []` before and after). -/
theorem runOp_sim (hC : TwCtx X Xu h0) (op : Op) (hip : op.inplace = false) :
    Tw X.T h0 [] P (runOp X op) (runOp Xu op) TwId := by
  unfold runOp
  refine Tw.getHeap.bind (fun h hu hh => ?_)
  simp only [tw_kwOk hC.st hh]
  refine (tw_guardM _ _).bind (fun _ _ _ => ?_)
  cases op with
  | construct c kw => exact hC.mks [] P c kw (fun _ _ => Or.inl rfl)
  | setattr r a v => cases hip
  | delattr r a => cases hip
  | withAttr r a v kw ip => cases hip; exact withAttr_sim hC r a v kw
  | updateAttr r a v kw ip => cases hip; exact updateAttr_sim hC r a v kw
  | transformAttr r a f kwf ip => cases hip; exact transformAttr_sim hC r a f kwf
  | resetAttr r a ip => cases hip; exact resetAttr_sim hC r a
  | elem r a eop ip => cases hip; exact elemHelper_sim hC r a eop
  | update r kw ip => cases hip; exact update_sim hC r kw
  | transform r kwf ip => cases hip; exact transform_sim hC r kwf
  | reset r ip => cases hip; exact reset_sim hC r
  | deepcopy r => exact deepcopy_sim hC.st r (Or.inl rfl)

theorem TwRes.eq_of_id {r ru : Except Exn α} (h : TwRes (TwId (α := α)) r ru) : r = ru := by
  cases r <;> cases ru
  · have : _ = _ := h; rw [this]
  · exact False.elim h
  · exact False.elim h
  · have : _ = _ := h; rw [this]

/-- With no window open the two heaps are equal. -/
theorem TwSim.heap_eq {s su : MS} (hs : TwSim T h0 [] P s su) : s.heap = su.heap :=
  List.ext_getElem? (fun i => (hs.same i (by simp)).symm)

/-- The start states of the two runs are related. -/
theorem tw_sim_start (h : Heap) (hcl : TwClosed h) (φ : List (CbKind × Nat)) :
    TwSim T h [] [] { heap := h, faults := φ, budget := none }
      { heap := h, faults := φ, budget := none } := by
  refine ⟨rfl, Nat.le_refl _, fun _ _ => rfl, hcl, fun _ _ => rfl, ?_, ?_, ?_, ?_, rfl,
    fun _ => rfl, rfl, rfl⟩
  · intro i hi; cases hi
  · intro i hi; cases hi
  · intro i hi; cases hi
  · intro i hi
    rcases hi with hi | hi <;> cases hi

end SpecVerif.Heap
