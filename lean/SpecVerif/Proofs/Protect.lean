import SpecVerif.Model.Protect
/-!
Helper lemmas for `Props/Protect.lean`: one structural induction over the mutual value type per statement.
-/
set_option linter.unusedSectionVars false
set_option linter.unusedVariables false
namespace SpecVerif.Protect
open SpecVerif.Py

/-! ## the identity counter only grows -/

mutual
theorem copyVal_next : ∀ (v : Val) (s : St) (v' : Val) (s' : St), copyVal v s = .ok (v', s') → s.next ≤ s'.next
  | .atom a, s, v', s', h => by simp [copyVal] at h; obtain ⟨_, rfl⟩ := h; exact Nat.le_refl _
  | .handle i .module, s, v', s', h => by simp [copyVal] at h; obtain ⟨_, rfl⟩ := h; exact Nat.le_refl _
  | .handle i .lock, s, v', s', h => by simp [copyVal] at h
  | .handle i .gen, s, v', s', h => by simp [copyVal] at h
  | .handle i .raiser, s, v', s', h => by simp [copyVal] at h
  | .ref i, s, v', s', h => by simp [copyVal] at h; obtain ⟨_, rfl⟩ := h; exact Nat.le_refl _
  | .list i xs, s, v', s', h => by
    simp only [copyVal] at h
    split at h
    · rename_i ys s1 hc
      have := copyVals_next xs _ ys s1 hc
      simp at h; obtain ⟨_, rfl⟩ := h; simp at this; omega
    · simp at h
  | .tuple i xs, s, v', s', h => by
    simp only [copyVal] at h
    split at h
    · rename_i ys s1 hc
      have := copyVals_next xs _ ys s1 hc
      split at h
      · simp at h; obtain ⟨_, rfl⟩ := h; exact this
      · simp at h; obtain ⟨_, rfl⟩ := h; simp; omega
    · simp at h
  | .ntuple i xs, s, v', s', h => by
    simp only [copyVal] at h
    split at h
    · rename_i ys s1 hc
      have := copyVals_next xs _ ys s1 hc
      simp at h; obtain ⟨_, rfl⟩ := h; simp; omega
    · simp at h
  | .fset i xs, s, v', s', h => by
    simp only [copyVal] at h
    split at h
    · rename_i ys s1 hc
      have := copyVals_next xs _ ys s1 hc
      simp at h; obtain ⟨_, rfl⟩ := h; simp; omega
    · simp at h
  | .set i xs, s, v', s', h => by
    simp only [copyVal] at h
    split at h
    · rename_i ys s1 hc
      have := copyVals_next xs _ ys s1 hc
      simp at h; obtain ⟨_, rfl⟩ := h; simp; omega
    · simp at h
  | .dict i kvs, s, v', s', h => by
    simp only [copyVal] at h
    split at h
    · rename_i ys s1 hc
      have := copyKVs_next kvs _ ys s1 hc
      simp at h; obtain ⟨_, rfl⟩ := h; simp at this; omega
    · simp at h
  | .box i v, s, v', s', h => by
    simp only [copyVal] at h
    split at h
    · rename_i w s1 hc
      have := copyVal_next v _ w s1 hc
      simp at h; obtain ⟨_, rfl⟩ := h; simp at this; omega
    · simp at h
  | .barr i t, s, v', s', h => by simp [copyVal] at h; obtain ⟨_, rfl⟩ := h; simp
theorem copyVals_next : ∀ (xs : Vals) (s : St) (ys : Vals) (s' : St), copyVals xs s = .ok (ys, s') → s.next ≤ s'.next
  | .nil, s, ys, s', h => by simp [copyVals] at h; obtain ⟨_, rfl⟩ := h; exact Nat.le_refl _
  | .cons v r, s, ys, s', h => by
    simp only [copyVals] at h
    split at h
    · rename_i w s1 hc
      have h1 := copyVal_next v s w s1 hc
      split at h
      · rename_i r' s2 hc2
        have h2 := copyVals_next r s1 r' s2 hc2
        simp at h; obtain ⟨_, rfl⟩ := h; omega
      · simp at h
    · simp at h
theorem copyKVs_next : ∀ (xs : KVs) (s : St) (ys : KVs) (s' : St), copyKVs xs s = .ok (ys, s') → s.next ≤ s'.next
  | .nil, s, ys, s', h => by simp [copyKVs] at h; obtain ⟨_, rfl⟩ := h; exact Nat.le_refl _
  | .cons k v r, s, ys, s', h => by
    simp only [copyKVs] at h
    split at h
    · rename_i w s1 hc
      have h1 := copyVal_next v s w s1 hc
      split at h
      · rename_i r' s2 hc2
        have h2 := copyKVs_next r s1 r' s2 hc2
        simp at h; obtain ⟨_, rfl⟩ := h; omega
      · simp at h
    · simp at h
end

/-! ## `idsLt` is monotone in the bound -/

mutual
theorem idsLt_mono : ∀ (v : Val) (n m : Nat), n ≤ m → idsLt n v = true → idsLt m v = true
  | .atom a, n, m, hnm, h => by simp [idsLt]
  | .handle i k, n, m, hnm, h => by simp [idsLt] at *; omega
  | .ref i, n, m, hnm, h => by simp [idsLt] at *; omega
  | .list i xs, n, m, hnm, h => by
    simp [idsLt] at *; exact ⟨by omega, idsLtL_mono xs n m hnm h.2⟩
  | .tuple i xs, n, m, hnm, h => by
    simp [idsLt] at *; exact ⟨by omega, idsLtL_mono xs n m hnm h.2⟩
  | .ntuple i xs, n, m, hnm, h => by
    simp [idsLt] at *; exact ⟨by omega, idsLtL_mono xs n m hnm h.2⟩
  | .fset i xs, n, m, hnm, h => by
    simp [idsLt] at *; exact ⟨by omega, idsLtL_mono xs n m hnm h.2⟩
  | .set i xs, n, m, hnm, h => by
    simp [idsLt] at *; exact ⟨by omega, idsLtL_mono xs n m hnm h.2⟩
  | .dict i kvs, n, m, hnm, h => by
    simp [idsLt] at *; exact ⟨by omega, idsLtK_mono kvs n m hnm h.2⟩
  | .box i v, n, m, hnm, h => by
    simp [idsLt] at *; exact ⟨by omega, idsLt_mono v n m hnm h.2⟩
  | .barr i t, n, m, hnm, h => by simp [idsLt] at *; omega
theorem idsLtL_mono : ∀ (xs : Vals) (n m : Nat), n ≤ m → idsLtL n xs = true → idsLtL m xs = true
  | .nil, n, m, hnm, h => by simp [idsLtL]
  | .cons v r, n, m, hnm, h => by
    simp [idsLtL] at *; exact ⟨idsLt_mono v n m hnm h.1, idsLtL_mono r n m hnm h.2⟩
theorem idsLtK_mono : ∀ (xs : KVs) (n m : Nat), n ≤ m → idsLtK n xs = true → idsLtK m xs = true
  | .nil, n, m, hnm, h => by simp [idsLtK]
  | .cons k v r, n, m, hnm, h => by
    simp [idsLtK] at *; exact ⟨idsLt_mono v n m hnm h.1, idsLtK_mono r n m hnm h.2⟩
end

/-! ## a member whose copy IS the member holds no mutable object -/

theorem sameObj_fresh_false (v w : Val) (n : Nat) (hv : idsLt n v = true) (i : Nat) (hw : w.ident = some i) (hi : n ≤ i)
    (hid : ∃ j, v.ident = some j) : sameObj v w = false := by
  obtain ⟨j, hj⟩ := hid
  have hjn : j < n := by
    cases v <;> simp [Val.ident] at hj <;> simp [idsLt] at hv <;> omega
  simp [sameObj, hj, hw]; omega

mutual
theorem same_noMut : ∀ (v : Val) (s : St) (v' : Val) (s' : St), idsLt s.next v = true → copyVal v s = .ok (v', s') →
    sameObj v v' = true → mutIds v = []
  | .atom a, s, v', s', hlt, h, hs => by simp [mutIds]
  | .handle i k, s, v', s', hlt, h, hs => by simp [mutIds]
  | .ref i, s, v', s', hlt, h, hs => by simp [mutIds]
  | .list i xs, s, v', s', hlt, h, hs => by
    exfalso
    simp only [copyVal] at h
    split at h
    · rename_i ys s1 hc
      simp at h; obtain ⟨rfl, _⟩ := h
      have := sameObj_fresh_false (.list i xs) (.list s.next ys) s.next hlt s.next rfl (Nat.le_refl _) ⟨i, rfl⟩
      rw [this] at hs; cases hs
    · simp at h
  | .tuple i xs, s, v', s', hlt, h, hs => by
    simp only [copyVal] at h
    split at h
    · rename_i ys s1 hc
      split at h
      · rename_i hsame
        simp [idsLt] at hlt
        simp [mutIds]; exact sameAll_noMut xs s ys s1 hlt.2 hc hsame
      · exfalso
        simp at h; obtain ⟨rfl, _⟩ := h
        have hn := copyVals_next xs s ys s1 hc
        have := sameObj_fresh_false (.tuple i xs) (.tuple s1.next ys) s.next hlt s1.next rfl hn ⟨i, rfl⟩
        rw [this] at hs; cases hs
    · simp at h
  | .ntuple i xs, s, v', s', hlt, h, hs => by
    exfalso
    simp only [copyVal] at h
    split at h
    · rename_i ys s1 hc
      simp at h; obtain ⟨rfl, _⟩ := h
      have hn := copyVals_next xs s ys s1 hc
      have := sameObj_fresh_false (.ntuple i xs) (.ntuple s1.next ys) s.next hlt s1.next rfl hn ⟨i, rfl⟩
      rw [this] at hs; cases hs
    · simp at h
  | .fset i xs, s, v', s', hlt, h, hs => by
    exfalso
    simp only [copyVal] at h
    split at h
    · rename_i ys s1 hc
      simp at h; obtain ⟨rfl, _⟩ := h
      have hn := copyVals_next xs s ys s1 hc
      have := sameObj_fresh_false (.fset i xs) (.fset s1.next ys) s.next hlt s1.next rfl hn ⟨i, rfl⟩
      rw [this] at hs; cases hs
    · simp at h
  | .set i xs, s, v', s', hlt, h, hs => by
    exfalso
    simp only [copyVal] at h
    split at h
    · rename_i ys s1 hc
      simp at h; obtain ⟨rfl, _⟩ := h
      have hn := copyVals_next xs s ys s1 hc
      have := sameObj_fresh_false (.set i xs) (.set s1.next ys) s.next hlt s1.next rfl hn ⟨i, rfl⟩
      rw [this] at hs; cases hs
    · simp at h
  | .dict i kvs, s, v', s', hlt, h, hs => by
    exfalso
    simp only [copyVal] at h
    split at h
    · rename_i ys s1 hc
      simp at h; obtain ⟨rfl, _⟩ := h
      have := sameObj_fresh_false (.dict i kvs) (.dict s.next ys) s.next hlt s.next rfl (Nat.le_refl _) ⟨i, rfl⟩
      rw [this] at hs; cases hs
    · simp at h
  | .box i v, s, v', s', hlt, h, hs => by
    exfalso
    simp only [copyVal] at h
    split at h
    · rename_i w s1 hc
      simp at h; obtain ⟨rfl, _⟩ := h
      have := sameObj_fresh_false (.box i v) (.box s.next w) s.next hlt s.next rfl (Nat.le_refl _) ⟨i, rfl⟩
      rw [this] at hs; cases hs
    · simp at h
  | .barr i t, s, v', s', hlt, h, hs => by
    exfalso
    simp [copyVal] at h; obtain ⟨rfl, _⟩ := h
    have := sameObj_fresh_false (.barr i t) (.barr s.next t) s.next hlt s.next rfl (Nat.le_refl _) ⟨i, rfl⟩
    rw [this] at hs; cases hs
theorem sameAll_noMut : ∀ (xs : Vals) (s : St) (ys : Vals) (s' : St), idsLtL s.next xs = true → copyVals xs s = .ok (ys, s') →
    sameAll xs ys = true → mutIdsL xs = []
  | .nil, s, ys, s', hlt, h, hs => by simp [mutIdsL]
  | .cons v r, s, ys, s', hlt, h, hs => by
    simp only [copyVals] at h
    split at h
    · rename_i w s1 hc
      split at h
      · rename_i r' s2 hc2
        simp at h; obtain ⟨rfl, _⟩ := h
        simp [sameAll] at hs
        simp [idsLtL] at hlt
        have hn := copyVal_next v s w s1 hc
        have h1 := same_noMut v s w s1 hlt.1 hc hs.1
        have h2 := sameAll_noMut r s1 r' s2 (idsLtL_mono r _ _ hn hlt.2) hc2 hs.2
        simp [mutIdsL, h1, h2]
      · simp at h
    · simp at h
end

/-! ## every mutable object of the copy is new -/

mutual
theorem copyVal_fresh : ∀ (v : Val) (s : St) (v' : Val) (s' : St), idsLt s.next v = true → copyVal v s = .ok (v', s') →
    ∀ k ∈ mutIds v', s.next ≤ k
  | .atom a, s, v', s', hlt, h => by simp [copyVal] at h; obtain ⟨rfl, _⟩ := h; simp [mutIds]
  | .handle i .module, s, v', s', hlt, h => by simp [copyVal] at h; obtain ⟨rfl, _⟩ := h; simp [mutIds]
  | .handle i .lock, s, v', s', hlt, h => by simp [copyVal] at h
  | .handle i .gen, s, v', s', hlt, h => by simp [copyVal] at h
  | .handle i .raiser, s, v', s', hlt, h => by simp [copyVal] at h
  | .ref i, s, v', s', hlt, h => by
    simp [copyVal] at h; obtain ⟨rfl, _⟩ := h
    split <;> simp [mutIds]
  | .list i xs, s, v', s', hlt, h => by
    simp only [copyVal] at h
    split at h
    · rename_i ys s1 hc
      simp at h; obtain ⟨rfl, _⟩ := h
      simp [idsLt] at hlt
      have := copyValsL_fresh xs _ ys s1 (idsLtL_mono xs _ _ (Nat.le_succ _) hlt.2) hc
      intro k hk
      simp [mutIds] at hk
      rcases hk with rfl | hk
      · exact Nat.le_refl _
      · have := this k hk; simp at this; omega
    · simp at h
  | .tuple i xs, s, v', s', hlt, h => by
    simp only [copyVal] at h
    split at h
    · rename_i ys s1 hc
      simp [idsLt] at hlt
      split at h
      · rename_i hsame
        simp at h; obtain ⟨rfl, _⟩ := h
        have := sameAll_noMut xs s ys s1 hlt.2 hc hsame
        simp [mutIds, this]
      · simp at h; obtain ⟨rfl, _⟩ := h
        simp [mutIds]; exact copyValsL_fresh xs s ys s1 hlt.2 hc
    · simp at h
  | .ntuple i xs, s, v', s', hlt, h => by
    simp only [copyVal] at h
    split at h
    · rename_i ys s1 hc
      simp [idsLt] at hlt
      simp at h; obtain ⟨rfl, _⟩ := h
      simp [mutIds]; exact copyValsL_fresh xs s ys s1 hlt.2 hc
    · simp at h
  | .fset i xs, s, v', s', hlt, h => by
    simp only [copyVal] at h
    split at h
    · rename_i ys s1 hc
      simp [idsLt] at hlt
      simp at h; obtain ⟨rfl, _⟩ := h
      simp [mutIds]; exact copyValsL_fresh xs s ys s1 hlt.2 hc
    · simp at h
  | .set i xs, s, v', s', hlt, h => by
    simp only [copyVal] at h
    split at h
    · rename_i ys s1 hc
      simp [idsLt] at hlt
      simp at h; obtain ⟨rfl, _⟩ := h
      have hn := copyVals_next xs s ys s1 hc
      have := copyValsL_fresh xs s ys s1 hlt.2 hc
      intro k hk
      simp [mutIds] at hk
      rcases hk with rfl | hk
      · exact hn
      · exact this k hk
    · simp at h
  | .dict i kvs, s, v', s', hlt, h => by
    simp only [copyVal] at h
    split at h
    · rename_i ys s1 hc
      simp at h; obtain ⟨rfl, _⟩ := h
      simp [idsLt] at hlt
      have := copyValsK_fresh kvs _ ys s1 (idsLtK_mono kvs _ _ (Nat.le_succ _) hlt.2) hc
      intro k hk
      simp [mutIds] at hk
      rcases hk with rfl | hk
      · exact Nat.le_refl _
      · have := this k hk; simp at this; omega
    · simp at h
  | .box i v, s, v', s', hlt, h => by
    simp only [copyVal] at h
    split at h
    · rename_i w s1 hc
      simp at h; obtain ⟨rfl, _⟩ := h
      simp [idsLt] at hlt
      have := copyVal_fresh v _ w s1 (idsLt_mono v _ _ (Nat.le_succ _) hlt.2) hc
      intro k hk
      simp [mutIds] at hk
      rcases hk with rfl | hk
      · exact Nat.le_refl _
      · have := this k hk; simp at this; omega
    · simp at h
  | .barr i t, s, v', s', hlt, h => by
    simp [copyVal] at h; obtain ⟨rfl, _⟩ := h; simp [mutIds]
theorem copyValsL_fresh : ∀ (xs : Vals) (s : St) (ys : Vals) (s' : St), idsLtL s.next xs = true → copyVals xs s = .ok (ys, s') →
    ∀ k ∈ mutIdsL ys, s.next ≤ k
  | .nil, s, ys, s', hlt, h => by simp [copyVals] at h; obtain ⟨rfl, _⟩ := h; simp [mutIdsL]
  | .cons v r, s, ys, s', hlt, h => by
    simp only [copyVals] at h
    split at h
    · rename_i w s1 hc
      split at h
      · rename_i r' s2 hc2
        simp at h; obtain ⟨rfl, _⟩ := h
        simp [idsLtL] at hlt
        have hn := copyVal_next v s w s1 hc
        have h1 := copyVal_fresh v s w s1 hlt.1 hc
        have h2 := copyValsL_fresh r s1 r' s2 (idsLtL_mono r _ _ hn hlt.2) hc2
        intro k hk
        simp [mutIdsL] at hk
        rcases hk with hk | hk
        · exact h1 k hk
        · have := h2 k hk; omega
      · simp at h
    · simp at h
theorem copyValsK_fresh : ∀ (xs : KVs) (s : St) (ys : KVs) (s' : St), idsLtK s.next xs = true → copyKVs xs s = .ok (ys, s') →
    ∀ k ∈ mutIdsK ys, s.next ≤ k
  | .nil, s, ys, s', hlt, h => by simp [copyKVs] at h; obtain ⟨rfl, _⟩ := h; simp [mutIdsK]
  | .cons key v r, s, ys, s', hlt, h => by
    simp only [copyKVs] at h
    split at h
    · rename_i w s1 hc
      split at h
      · rename_i r' s2 hc2
        simp at h; obtain ⟨rfl, _⟩ := h
        simp [idsLtK] at hlt
        have hn := copyVal_next v s w s1 hc
        have h1 := copyVal_fresh v s w s1 hlt.1 hc
        have h2 := copyValsK_fresh r s1 r' s2 (idsLtK_mono r _ _ hn hlt.2) hc2
        intro k hk
        simp [mutIdsK] at hk
        rcases hk with hk | hk
        · exact h1 k hk
        · have := h2 k hk; omega
      · simp at h
    · simp at h
end

/-! ## whether (and how) the copy fails depends on the value alone -/

/-- `copyVal v s` fails with `e` when `firstBad v = some e`, and succeeds when `firstBad v = none` -- whatever the state. -/
def Outcome {α : Type} (fb : Option Err) (r : Except Err α) : Prop :=
  match fb with
  | some e => r = .error e
  | none => ∃ x, r = .ok x

mutual
theorem copyVal_outcome : ∀ (v : Val) (s : St), Outcome (firstBad v) (copyVal v s)
  | .atom a, s => by simp [firstBad, copyVal, Outcome]
  | .handle i .module, s => by simp [firstBad, copyVal, Outcome]
  | .handle i .lock, s => by simp [firstBad, copyVal, Outcome]
  | .handle i .gen, s => by simp [firstBad, copyVal, Outcome]
  | .handle i .raiser, s => by simp [firstBad, copyVal, Outcome]
  | .ref i, s => by simp [firstBad, copyVal, Outcome]
  | .list i xs, s => by
    have := copyVals_outcome xs { next := s.next + 1, memo := (i, s.next) :: s.memo }
    simp only [firstBad, copyVal]
    cases hb : firstBadL xs <;> simp [Outcome, hb] at this ⊢
    · obtain ⟨x, s1, hx⟩ := this; rw [hx]; simp
    · rw [this]
  | .tuple i xs, s => by
    have := copyVals_outcome xs s
    simp only [firstBad, copyVal]
    cases hb : firstBadL xs <;> simp [Outcome, hb] at this ⊢
    · obtain ⟨x, s1, hx⟩ := this; rw [hx]; simp; split <;> simp
    · rw [this]
  | .ntuple i xs, s => by
    have := copyVals_outcome xs s
    simp only [firstBad, copyVal]
    cases hb : firstBadL xs <;> simp [Outcome, hb] at this ⊢
    · obtain ⟨x, s1, hx⟩ := this; rw [hx]; simp
    · rw [this]
  | .fset i xs, s => by
    have := copyVals_outcome xs s
    simp only [firstBad, copyVal]
    cases hb : firstBadL xs <;> simp [Outcome, hb] at this ⊢
    · obtain ⟨x, s1, hx⟩ := this; rw [hx]; simp
    · rw [this]
  | .set i xs, s => by
    have := copyVals_outcome xs s
    simp only [firstBad, copyVal]
    cases hb : firstBadL xs <;> simp [Outcome, hb] at this ⊢
    · obtain ⟨x, s1, hx⟩ := this; rw [hx]; simp
    · rw [this]
  | .dict i kvs, s => by
    have := copyKVs_outcome kvs { next := s.next + 1, memo := (i, s.next) :: s.memo }
    simp only [firstBad, copyVal]
    cases hb : firstBadK kvs <;> simp [Outcome, hb] at this ⊢
    · obtain ⟨x, s1, hx⟩ := this; rw [hx]; simp
    · rw [this]
  | .box i v, s => by
    have := copyVal_outcome v { next := s.next + 1, memo := (i, s.next) :: s.memo }
    simp only [firstBad, copyVal]
    cases hb : firstBad v <;> simp [Outcome, hb] at this ⊢
    · obtain ⟨x, s1, hx⟩ := this; rw [hx]; simp
    · rw [this]
  | .barr i t, s => by simp [firstBad, copyVal, Outcome]
theorem copyVals_outcome : ∀ (xs : Vals) (s : St), Outcome (firstBadL xs) (copyVals xs s)
  | .nil, s => by simp [firstBadL, copyVals, Outcome]
  | .cons v r, s => by
    have h1 := copyVal_outcome v s
    simp only [firstBadL, copyVals]
    cases hb : firstBad v <;> simp [Outcome, hb] at h1 ⊢
    · obtain ⟨w, s1, hx⟩ := h1
      rw [hx]; simp
      have h2 := copyVals_outcome r s1
      cases hb2 : firstBadL r <;> simp [Outcome, hb2] at h2 ⊢
      · obtain ⟨x, s2, hx2⟩ := h2; rw [hx2]; simp
      · rw [h2]
    · rw [h1]
theorem copyKVs_outcome : ∀ (xs : KVs) (s : St), Outcome (firstBadK xs) (copyKVs xs s)
  | .nil, s => by simp [firstBadK, copyKVs, Outcome]
  | .cons k v r, s => by
    have h1 := copyVal_outcome v s
    simp only [firstBadK, copyKVs]
    cases hb : firstBad v <;> simp [Outcome, hb] at h1 ⊢
    · obtain ⟨w, s1, hx⟩ := h1
      rw [hx]; simp
      have h2 := copyKVs_outcome r s1
      cases hb2 : firstBadK r <;> simp [Outcome, hb2] at h2 ⊢
      · obtain ⟨x, s2, hx2⟩ := h2; rw [hx2]; simp
      · rw [h2]
    · rw [h1]
end

/-! ## the copy has the content and shape of the original -/

mutual
theorem copyVal_erase : ∀ (v : Val) (s : St) (v' : Val) (s' : St), copyVal v s = .ok (v', s') → erase v' = erase v
  | .atom a, s, v', s', h => by simp [copyVal] at h; obtain ⟨rfl, _⟩ := h; rfl
  | .handle i .module, s, v', s', h => by simp [copyVal] at h; obtain ⟨rfl, _⟩ := h; rfl
  | .handle i .lock, s, v', s', h => by simp [copyVal] at h
  | .handle i .gen, s, v', s', h => by simp [copyVal] at h
  | .handle i .raiser, s, v', s', h => by simp [copyVal] at h
  | .ref i, s, v', s', h => by
    simp [copyVal] at h; obtain ⟨rfl, _⟩ := h
    split <;> simp [erase]
  | .list i xs, s, v', s', h => by
    simp only [copyVal] at h
    split at h
    · rename_i ys s1 hc
      simp at h; obtain ⟨rfl, _⟩ := h
      simp [erase, copyVals_erase xs _ ys s1 hc]
    · simp at h
  | .tuple i xs, s, v', s', h => by
    simp only [copyVal] at h
    split at h
    · rename_i ys s1 hc
      split at h
      · simp at h; obtain ⟨rfl, _⟩ := h; rfl
      · simp at h; obtain ⟨rfl, _⟩ := h
        simp [erase, copyVals_erase xs _ ys s1 hc]
    · simp at h
  | .ntuple i xs, s, v', s', h => by
    simp only [copyVal] at h
    split at h
    · rename_i ys s1 hc
      simp at h; obtain ⟨rfl, _⟩ := h
      simp [erase, copyVals_erase xs _ ys s1 hc]
    · simp at h
  | .fset i xs, s, v', s', h => by
    simp only [copyVal] at h
    split at h
    · rename_i ys s1 hc
      simp at h; obtain ⟨rfl, _⟩ := h
      simp [erase, copyVals_erase xs _ ys s1 hc]
    · simp at h
  | .set i xs, s, v', s', h => by
    simp only [copyVal] at h
    split at h
    · rename_i ys s1 hc
      simp at h; obtain ⟨rfl, _⟩ := h
      simp [erase, copyVals_erase xs _ ys s1 hc]
    · simp at h
  | .dict i kvs, s, v', s', h => by
    simp only [copyVal] at h
    split at h
    · rename_i ys s1 hc
      simp at h; obtain ⟨rfl, _⟩ := h
      simp [erase, copyKVs_erase kvs _ ys s1 hc]
    · simp at h
  | .box i v, s, v', s', h => by
    simp only [copyVal] at h
    split at h
    · rename_i w s1 hc
      simp at h; obtain ⟨rfl, _⟩ := h
      simp [erase, copyVal_erase v _ w s1 hc]
    · simp at h
  | .barr i t, s, v', s', h => by simp [copyVal] at h; obtain ⟨rfl, _⟩ := h; rfl
theorem copyVals_erase : ∀ (xs : Vals) (s : St) (ys : Vals) (s' : St), copyVals xs s = .ok (ys, s') → eraseL ys = eraseL xs
  | .nil, s, ys, s', h => by simp [copyVals] at h; obtain ⟨rfl, _⟩ := h; rfl
  | .cons v r, s, ys, s', h => by
    simp only [copyVals] at h
    split at h
    · rename_i w s1 hc
      split at h
      · rename_i r' s2 hc2
        simp at h; obtain ⟨rfl, _⟩ := h
        simp [eraseL, copyVal_erase v s w s1 hc, copyVals_erase r s1 r' s2 hc2]
      · simp at h
    · simp at h
theorem copyKVs_erase : ∀ (xs : KVs) (s : St) (ys : KVs) (s' : St), copyKVs xs s = .ok (ys, s') → eraseK ys = eraseK xs
  | .nil, s, ys, s', h => by simp [copyKVs] at h; obtain ⟨rfl, _⟩ := h; rfl
  | .cons k v r, s, ys, s', h => by
    simp only [copyKVs] at h
    split at h
    · rename_i w s1 hc
      split at h
      · rename_i r' s2 hc2
        simp at h; obtain ⟨rfl, _⟩ := h
        simp [eraseK, copyVal_erase v s w s1 hc, copyKVs_erase r s1 r' s2 hc2]
      · simp at h
    · simp at h
end

/-! ## a value in which nothing needs copying is returned as it is, and nothing is allocated -/

theorem sameObj_refl (v : Val) : sameObj v v = true := by
  cases v <;> simp [sameObj, Val.ident]

theorem sameAll_refl : ∀ (xs : Vals), sameAll xs xs = true
  | .nil => by simp [sameAll]
  | .cons v r => by simp [sameAll, sameObj_refl v, sameAll_refl r]

mutual
theorem deepImm_copy : ∀ (v : Val) (s : St), deepImm v = true → copyVal v s = .ok (v, s)
  | .atom a, s, h => by simp [copyVal]
  | .handle i .module, s, h => by simp [copyVal]
  | .handle i .lock, s, h => by simp [deepImm] at h
  | .handle i .gen, s, h => by simp [deepImm] at h
  | .handle i .raiser, s, h => by simp [deepImm] at h
  | .ref i, s, h => by simp [deepImm] at h
  | .list i xs, s, h => by simp [deepImm] at h
  | .tuple i xs, s, h => by
    simp [deepImm] at h
    simp [copyVal, deepImmL_copy xs s h, sameAll_refl]
  | .ntuple i xs, s, h => by simp [deepImm] at h
  | .fset i xs, s, h => by simp [deepImm] at h
  | .set i xs, s, h => by simp [deepImm] at h
  | .dict i kvs, s, h => by simp [deepImm] at h
  | .box i v, s, h => by simp [deepImm] at h
  | .barr i t, s, h => by simp [deepImm] at h
theorem deepImmL_copy : ∀ (xs : Vals) (s : St), deepImmL xs = true → copyVals xs s = .ok (xs, s)
  | .nil, s, h => by simp [copyVals]
  | .cons v r, s, h => by
    simp [deepImmL] at h
    simp [copyVals, deepImm_copy v s h.1, deepImmL_copy r s h.2]
end

/-! ## the mutable objects of a value whose identities are below `n` are below `n` -/

mutual
theorem mutIds_lt : ∀ (v : Val) (n : Nat), idsLt n v = true → ∀ k ∈ mutIds v, k < n
  | .atom a, n, h, k, hk => by simp [mutIds] at hk
  | .handle i c, n, h, k, hk => by simp [mutIds] at hk
  | .ref i, n, h, k, hk => by simp [mutIds] at hk
  | .list i xs, n, h, k, hk => by
    simp [idsLt] at h; simp [mutIds] at hk
    rcases hk with rfl | hk
    · exact h.1
    · exact mutIdsL_lt xs n h.2 k hk
  | .tuple i xs, n, h, k, hk => by
    simp [idsLt] at h; simp [mutIds] at hk; exact mutIdsL_lt xs n h.2 k hk
  | .ntuple i xs, n, h, k, hk => by
    simp [idsLt] at h; simp [mutIds] at hk; exact mutIdsL_lt xs n h.2 k hk
  | .fset i xs, n, h, k, hk => by
    simp [idsLt] at h; simp [mutIds] at hk; exact mutIdsL_lt xs n h.2 k hk
  | .set i xs, n, h, k, hk => by
    simp [idsLt] at h; simp [mutIds] at hk
    rcases hk with rfl | hk
    · exact h.1
    · exact mutIdsL_lt xs n h.2 k hk
  | .dict i kvs, n, h, k, hk => by
    simp [idsLt] at h; simp [mutIds] at hk
    rcases hk with rfl | hk
    · exact h.1
    · exact mutIdsK_lt kvs n h.2 k hk
  | .box i v, n, h, k, hk => by
    simp [idsLt] at h; simp [mutIds] at hk
    rcases hk with rfl | hk
    · exact h.1
    · exact mutIds_lt v n h.2 k hk
  | .barr i t, n, h, k, hk => by
    simp [idsLt] at h; simp [mutIds] at hk; omega
theorem mutIdsL_lt : ∀ (xs : Vals) (n : Nat), idsLtL n xs = true → ∀ k ∈ mutIdsL xs, k < n
  | .nil, n, h, k, hk => by simp [mutIdsL] at hk
  | .cons v r, n, h, k, hk => by
    simp [idsLtL] at h; simp [mutIdsL] at hk
    rcases hk with hk | hk
    · exact mutIds_lt v n h.1 k hk
    · exact mutIdsL_lt r n h.2 k hk
theorem mutIdsK_lt : ∀ (xs : KVs) (n : Nat), idsLtK n xs = true → ∀ k ∈ mutIdsK xs, k < n
  | .nil, n, h, k, hk => by simp [mutIdsK] at hk
  | .cons key v r, n, h, k, hk => by
    simp [idsLtK] at h; simp [mutIdsK] at hk
    rcases hk with hk | hk
    · exact mutIds_lt v n h.1 k hk
    · exact mutIdsK_lt r n h.2 k hk
end

end SpecVerif.Protect
