import SpecVerif.Proofs.HeapFrame
/-!
# C01 — copy-on-write helpers never change the receiver or the arguments

Property theorems only (the frame logic is in `Proofs/Heap.lean`, the lemma per
model function in `Proofs/HeapFrame.lean`).  They are about the executable
definitions of `Model/Heap.lean` / `Model/Inst.lean`, which the correspondence
check (`harness/corr_C01.py`, `Drivers/Heap.lean`) runs against the real
`spec_classes` on every invocation.

Quantification: every class table without a class declared `do_not_copy=True`
(`NoClassDnc`, decidable: `noClassDncB`), **every** heap (no reachability
assumption is needed), every public operation not called in place, every
callback fault plan `φ`, every crash point `b` (an exception injected instead of
the `k+1`-th heap effect, for every `k`).  "Whether the call returns or raises"
is the result component being unconstrained.  Frozen receivers are included.
-/
set_option linter.unusedSectionVars false
namespace SpecVerif.Props.C01
open SpecVerif.Py SpecVerif.Heap

/-- Decidable form of the well-formedness condition of C01. -/
def noClassDncB (T : List ClassDecl) : Bool := T.all (fun cd => !cd.dnc)

theorem noClassDnc_of_check (X : Ctx) (h : noClassDncB X.T = true) : NoClassDnc X := by
  intro c
  unfold Ctx.cd
  unfold noClassDncB at h
  rw [List.all_eq_true] at h
  by_cases hc : c < X.T.length
  · have hm : X.T[c] ∈ X.T := List.getElem_mem hc
    have := h _ hm
    simp [List.getD, List.getElem?_eq_getElem hc] at this ⊢
    exact this
  · have : X.T[c]? = none := List.getElem?_eq_none (by omega)
    simp [List.getD, this]

/-- The start state of an operation: heap `h`, no effect logged yet. -/
def start (h : Heap) (φ : List (CbKind × Nat)) (b : Option Nat) : MS :=
  { heap := h, faults := φ, budget := b }

/-- **deepcopy_fresh**: `copy.deepcopy` (any fault plan, any crash point) never
changes a pre-existing object, every write it performs targets an identity it
allocated itself, and a normal result is a new object (or the scalar itself). -/
theorem deepcopy_fresh (X : Ctx) (hX : NoClassDnc X) (h : Heap) (r : Ref)
    (φ : List (CbKind × Nat)) (b : Option Nat) :
    let out := deepcopy X r (start h φ b)
    (∀ i, i < h.length → out.2.heap[i]? = h[i]?) ∧
    (∀ i, Ev.write i ∈ out.2.trace → h.length ≤ i) ∧
    (∀ j, out.1 = .ok (.obj j) → h.length ≤ j) := by
  intro out
  obtain ⟨hp, hq⟩ := deepcopy_safe (n₀ := h.length) (W := fun _ => False) X hX r (start h φ b)
    (Nat.le_refl _)
  refine ⟨fun i hi => hp.frame i hi (fun hf => hf), ?_, fun j hj => hq _ hj j rfl⟩
  intro i hi
  obtain ⟨evs, he, hw⟩ := hp.trace
  have : Ev.write i ∈ evs := by
    have h' : out.2.trace = evs ++ [] := he
    rw [List.append_nil] at h'
    rw [← h']; exact hi
  rcases hw i this with hf | hge
  · exact hf.elim
  · exact hge

/-- **cow_writes_fresh**: every write effect of a helper called without
`_inplace=True` (and of the constructor and `deepcopy`) targets an identity
allocated during the call — for every fault plan and crash point. -/
theorem cow_writes_fresh (X₀ : Ctx) (hX : NoClassDnc X₀) (h : Heap) (op : Op)
    (hop : op.inplace = false) (φ : List (CbKind × Nat)) (b : Option Nat) :
    ∀ i, Ev.write i ∈ (step X₀.close h op φ b).2.trace → h.length ≤ i := by
  intro i hi
  obtain ⟨hp, _⟩ := runOp_safe (n₀ := h.length) (W := fun _ => False) X₀.close
    (noClassDnc_close X₀ hX) (makeSafe_close X₀ hX) op (fun hc => by rw [hop] at hc; cases hc)
    (start h φ b) (Nat.le_refl _)
  obtain ⟨evs, he, hw⟩ := hp.trace
  have h' : (step X₀.close h op φ b).2.trace = evs ++ [] := he
  rw [List.append_nil] at h'
  rw [h'] at hi
  rcases hw i hi with hf | hge
  · exact hf.elim
  · exact hge

/-- **cow_frame**: a helper called without `_inplace=True` leaves every
pre-existing object — the receiver's whole graph, the arguments, all other
instances, the class-level defaults — exactly as it was (same identity, same
content), whether it returns or raises, for every callback fault plan and when
cut short after any number of effects. -/
theorem cow_frame (X₀ : Ctx) (hX : NoClassDnc X₀) (h : Heap) (op : Op)
    (hop : op.inplace = false) (φ : List (CbKind × Nat)) (b : Option Nat) :
    ∀ i, i < h.length → (step X₀.close h op φ b).2.heap[i]? = h[i]? := by
  intro i hi
  obtain ⟨hp, _⟩ := runOp_safe (n₀ := h.length) (W := fun _ => False) X₀.close
    (noClassDnc_close X₀ hX) (makeSafe_close X₀ hX) op (fun hc => by rw [hop] at hc; cases hc)
    (start h φ b) (Nat.le_refl _)
  exact hp.frame i hi (fun hf => hf)

/-- The heap only grows (no object disappears), also for in-place operations. -/
theorem heap_grows (X₀ : Ctx) (hX : NoClassDnc X₀) (h : Heap) (op : Op)
    (φ : List (CbKind × Nat)) (b : Option Nat) :
    h.length ≤ (step X₀.close h op φ b).2.heap.length := by
  obtain ⟨hp, _⟩ := runOp_safe (n₀ := h.length) (W := fun _ => True) X₀.close
    (noClassDnc_close X₀ hX) (makeSafe_close X₀ hX) op (fun _ _ => trivial)
    (start h φ b) (Nat.le_refl _)
  exact hp.mono

/-! ## Non-vacuity: a concrete table, heap and helper calls -/

/-- `class C0: a0: int = 1; a1: List[int] = [1, 2]` -/
def T1 : List ClassDecl :=
  [{ attrs := [{ name := 0, kind := .int, dk := .plain, lit := .sc (.int 1), owner := 0 },
               { name := 1, kind := .listInt, dk := .plain, lit := .list [.int 1, .int 2], owner := 0 }] }]

def X1 : Ctx := (boot T1).1
def h1 : Heap := (step X1 (boot T1).2 (.construct 0 [(0, .sc (.int 5))]) [] none).2.heap

example : noClassDncB T1 = true := by decide
/-- the instance `C0(a0=5)` is object 1, its copied default list object 2 -/
example : h1 = [.list [.sc (.int 1), .sc (.int 2)],
                .inst 0 false [(0, .sc (.int 5)), (1, .obj 2)],
                .list [.sc (.int 1), .sc (.int 2)]] := by decide
/-- `v.with_a1_item(9)` succeeds, allocates three objects and returns the new instance -/
example : (step X1 h1 (.elem (.obj 1) 1 (.add (.sc (.int 9)) (.sc .missing) false []) false) [] none).1
    = .ok (.obj 4) := by decide
example : (step X1 h1 (.elem (.obj 1) 1 (.add (.sc (.int 9)) (.sc .missing) false []) false) [] none).2.heap.length
    = 6 := by decide
/-- ... and it is cut short by a crash point after two effects -/
example : (step X1 h1 (.elem (.obj 1) 1 (.add (.sc (.int 9)) (.sc .missing) false []) false) [] (some 2)).1
    = .error .boom := by decide
/-- an ill-typed value makes `with_a0("s1")` raise TypeError -/
example : (step X1 h1 (.withAttr (.obj 1) 0 (.sc (.str 1)) [] false) [] none).1
    = .error (.py .typeError) := by decide

end SpecVerif.Props.C01
