import SpecVerif.Proofs.HeapProv
import SpecVerif.Props.C01
/-!
# C02 — derived copies share no mutable state with the original; `do_not_copy` carried by identity

Property theorems only.  Reachability (`Reach`), the provenance logic (`PS`,
`HInv`, `World`) and the run lemmas are in `Proofs/HeapReach.lean` and
`Proofs/HeapProv.lean`; the executable model is `Model/Heap.lean` /
`Model/Inst.lean`.

Two values *share mutable state* iff some identity is reachable from both
(`Reach h r j`: object `j` is reachable from reference `r` through list items,
dict values and instance fields of heap `h`).  C01 proved that an operation not
called in place leaves all pre-existing objects unchanged; the theorems here say
which pre-existing objects the *result* may still refer to:

* `deepcopy_disjoint`: only those reachable through a `do_not_copy` attribute
  (`DncShared`); none at all when the table declares no such attribute
  (`deepcopy_disjoint_nodnc`);
* `dnc_by_identity`: the value of a `do_not_copy` attribute of a copied
  instance is the very same reference;
* `no_visible_change`: an in-place write to an object a value cannot reach is
  invisible through that value;
* `result_disjoint`: the same for every helper not called in place.

Quantification: every class table without class-level `do_not_copy`
(`NoClassDnc`), **every** heap (closedness is not needed for these statements),
every fault plan `φ` and crash point `b`.
-/
set_option linter.unusedSectionVars false
set_option linter.unusedVariables false
namespace SpecVerif.Props.C02
open SpecVerif.Py SpecVerif.Heap SpecVerif.Props.C01

/-- **deepcopy_disjoint**: a pre-existing object `j` reachable from a successful
`copy.deepcopy(r)` is *do_not_copy-shared*: some instance `i` reachable from `r`
has an attribute declared `do_not_copy` whose value reaches `j` (all in the
start heap `h`).  Everything else the copy reaches was allocated by the call. -/
theorem deepcopy_disjoint (X : Ctx) (hX : NoClassDnc X) (h : Heap) (r : Ref)
    (φ : List (CbKind × Nat)) (b : Option Nat) :
    let out := deepcopy X r (start h φ b)
    ∀ r', out.1 = .ok r' → ∀ j, Reach out.2.heap r' j → j < h.length → DncShared X h r j := by
  intro out r' hok j hj hlt
  have hW := world_reach X h r
  have hroot : Good h.length (fun i => Reach h r i) r := by
    cases r with
    | sc s => trivial
    | obj i => exact Or.inr (Reach.self i)
  obtain ⟨hinv, hq⟩ := deepcopy_ps X hX hW r hroot (start h φ b) (HInv.start h _)
  rcases reach_good hW hinv hj (hq r' hok).good with hge | hA
  · omega
  · exact hA

/-- **deepcopy_disjoint_nodnc**: without `do_not_copy` attributes a deep copy
reaches no pre-existing object at all. -/
theorem deepcopy_disjoint_nodnc (X : Ctx) (hX : NoClassDnc X) (hN : NoAttrDnc X) (h : Heap) (r : Ref)
    (φ : List (CbKind × Nat)) (b : Option Nat) :
    let out := deepcopy X r (start h φ b)
    ∀ r', out.1 = .ok r' → ∀ j, Reach out.2.heap r' j → h.length ≤ j := by
  intro out r' hok j hj
  by_cases hlt : j < h.length
  · exact (not_dncShared_of_noAttrDnc hN (deepcopy_disjoint X hX h r φ b r' hok j hj hlt)).elim
  · omega

/-- Consequently the copy and the original share nothing: no object is
reachable from both (the original's graph is unchanged, by C01, and lies below
`h.length` when `h` is closed). -/
theorem deepcopy_shares_nothing (X : Ctx) (hX : NoClassDnc X) (hN : NoAttrDnc X) (h : Heap)
    (hc : Closed h) (r : Ref) (hr : Below h.length r) (φ : List (CbKind × Nat)) (b : Option Nat) :
    let out := deepcopy X r (start h φ b)
    ∀ r', out.1 = .ok r' → ∀ j, Reach out.2.heap r' j → ¬ Reach out.2.heap r j := by
  intro out r' hok j hj hrj
  have hge := deepcopy_disjoint_nodnc X hX hN h r φ b r' hok j hj
  have hfr := (deepcopy_fresh X hX h r φ b).1
  have : Reach h r j := (reach_of_frame hc hfr hr j).1 hrj
  have := reach_below hc this hr
  omega

/-- **dnc_by_identity**: `copy.deepcopy` of an instance yields an instance of
the same class in which every attribute declared `do_not_copy` holds exactly
the reference the original holds (carried by identity, not duplicated). -/
theorem dnc_by_identity (X : Ctx) (hX : NoClassDnc X) (h : Heap) (i j c : Nat) (t : Bool)
    (fs : List (Nat × Ref)) (a : Nat) (d : AttrDecl) (v : Ref)
    (φ : List (CbKind × Nat)) (b : Option Nat)
    (hi : h[i]? = some (.inst c t fs)) (hd : (X.cd c).attr? a = some d) (hdnc : d.dnc = true)
    (hv : alGet a fs = some v) :
    let out := deepcopy X (.obj i) (start h φ b)
    out.1 = .ok (.obj j) →
      ∃ fs', out.2.heap[j]? = some (.inst c false fs') ∧ alGet a fs' = some v ∧
        fs'.map (fun av => av.1) = fs.map (fun av => av.1) ∧ h.length ≤ j := by
  intro out hok
  have hrun : deepcopy X (.obj i) (start h φ b) = (.ok (.obj j), out.2) := by
    show out = _
    rw [← hok]
  obtain ⟨fs', hj, hrel, hn⟩ := deepcopy_inst_run X hX (s := start h φ b) hi hrun
  cases hj
  have hda : dncOf (X.cd c) a = true := by
    unfold dncOf; rw [hd]; exact hdnc
  exact ⟨fs', hn, hrel.alGet hda hv, hrel.keys, Nat.le_refl _⟩

/-- **no_visible_change**: if `r` cannot reach object `i`, then overwriting `i`
(any in-place mutation of `i`) changes neither what `r` reaches nor the content
of any object `r` reaches. -/
theorem no_visible_change (h : Heap) (r : Ref) (i : Nat) (n : Node) (hni : ¬ Reach h r i) :
    (∀ j, Reach (h.set i n) r j ↔ Reach h r j) ∧
    (∀ j, Reach h r j → (h.set i n)[j]? = h[j]?) :=
  ⟨reach_set_of_not_reach n hni, fun j hj => node_set_of_not_reach n hni hj⟩

/-- `no_visible_change` for the primitive `write` of the model. -/
theorem no_visible_change_write (s s' : MS) (r : Ref) (i : Nat) (n : Node) (u : Unit)
    (hni : ¬ Reach s.heap r i) (hw : write i n s = (.ok u, s')) :
    (∀ j, Reach s'.heap r j ↔ Reach s.heap r j) ∧
    (∀ j, Reach s.heap r j → s'.heap[j]? = s.heap[j]?) := by
  rw [write_run_prov hw]
  exact no_visible_change s.heap r i n hni

/-- A deep copy is insulated from later in-place mutation of the original:
after `deepcopy(r)` (no `do_not_copy` attribute), overwriting any pre-existing
object `i` is invisible through the copy. -/
theorem copy_insulated (X : Ctx) (hX : NoClassDnc X) (hN : NoAttrDnc X) (h : Heap) (r : Ref)
    (φ : List (CbKind × Nat)) (b : Option Nat) (i : Nat) (hi : i < h.length) (n : Node) :
    let out := deepcopy X r (start h φ b)
    ∀ r', out.1 = .ok r' →
      (∀ j, Reach (out.2.heap.set i n) r' j ↔ Reach out.2.heap r' j) ∧
      (∀ j, Reach out.2.heap r' j → (out.2.heap.set i n)[j]? = out.2.heap[j]?) := by
  intro out r' hok
  refine no_visible_change out.2.heap r' i n (fun hreach => ?_)
  have := deepcopy_disjoint_nodnc X hX hN h r φ b r' hok i hreach
  omega

/-! ## result_disjoint: the copy-on-write helpers -/

/-- **result_disjoint**: for every public operation not called in place
(`Op.cowCovered`: the constructor, `copy.deepcopy`, `with_<a>`, `update_<a>`,
`transform_<a>` with a transform returning its argument or a scalar,
`reset_<a>`, the element helpers `with_/update_/transform_/without_<item>` with
any callback, `update(**kw)` / `transform(**kw)` with at least one keyword,
`reset()`), for every fault plan and crash point: every pre-existing object `j`
reachable from a successful result is reachable (in the start heap) from the
value of a `do_not_copy` attribute of some instance (`DncAny`), or from an
argument of the call (`Op.args`).  In particular nothing of the receiver's own
graph is shared except through `do_not_copy` attributes. -/
theorem result_disjoint (X₀ : Ctx) (hX : NoClassDnc X₀) (h : Heap) (op : Op)
    (hcov : op.cowCovered = true) (φ : List (CbKind × Nat)) (b : Option Nat) :
    let out := step X₀.close h op φ b
    ∀ r', out.1 = .ok r' → ∀ j, Reach out.2.heap r' j → j < h.length →
      AllowedFrom X₀ h (fun v => v ∈ op.args) j := by
  intro out r' hok j hj hlt
  have hW := world_any X₀ h (fun v => v ∈ op.args)
  obtain ⟨hinv, hq⟩ := runOp_ps X₀ hX hW op hcov (fun v hv => good_of_S hv) (start h φ b)
    (HInv.start h _)
  rcases reach_good hW hinv hj (hq r' hok).good with hge | hA
  · omega
  · exact hA

/-- The name under which the first, partial version was announced. -/
theorem result_disjoint_partial (X₀ : Ctx) (hX : NoClassDnc X₀) (h : Heap) (op : Op)
    (hcov : op.cowCovered = true) (φ : List (CbKind × Nat)) (b : Option Nat) :
    let out := step X₀.close h op φ b
    ∀ r', out.1 = .ok r' → ∀ j, Reach out.2.heap r' j → j < h.length →
      AllowedFrom X₀ h (fun v => v ∈ op.args) j :=
  result_disjoint X₀ hX h op hcov φ b

/-- The result of a covered operation is a scalar or an object allocated by the call. -/
theorem result_fresh (X₀ : Ctx) (hX : NoClassDnc X₀) (h : Heap) (op : Op)
    (hcov : op.cowCovered = true) (φ : List (CbKind × Nat)) (b : Option Nat) :
    let out := step X₀.close h op φ b
    ∀ j, out.1 = .ok (.obj j) → h.length ≤ j := by
  intro out j hok
  have hW := world_any X₀ h (fun v => v ∈ op.args)
  obtain ⟨_, hq⟩ := runOp_ps X₀ hX hW op hcov (fun v hv => good_of_S hv) (start h φ b)
    (HInv.start h _)
  exact hq _ hok j rfl

/-- Without `do_not_copy` attributes and with scalar arguments only, the result
of a covered copy-on-write operation reaches no pre-existing object at all. -/
theorem result_disjoint_nodnc (X₀ : Ctx) (hX : NoClassDnc X₀) (hN : NoAttrDnc X₀) (h : Heap) (op : Op)
    (hcov : op.cowCovered = true) (hargs : ∀ v, v ∈ op.args → ∃ s, v = .sc s)
    (φ : List (CbKind × Nat)) (b : Option Nat) :
    let out := step X₀.close h op φ b
    ∀ r', out.1 = .ok r' → ∀ j, Reach out.2.heap r' j → h.length ≤ j := by
  intro out r' hok j hj
  by_cases hlt : j < h.length
  · rcases result_disjoint X₀ hX h op hcov φ b r' hok j hj hlt with hd | ⟨v, hv, hvj⟩
    · exact (not_dncAny_of_noAttrDnc hN hd).elim
    · obtain ⟨s, rfl⟩ := hargs v hv
      exact (not_reach_sc hvj).elim
  · omega

/-- The statement without the side conditions of `Op.cowCovered`.  It is **false**
in the model (and in the library): `v.update()` / `v.transform()` without any
keyword return the receiver itself (see the examples at the end of the file:
`step X2 h2 (.update (.obj 0) [] false) = ok (obj 0)`), and `transform_<a>(f)`
with `f = rebuild` / `append` builds a new list holding the receiver's own items.
Kept only to record what `result_disjoint` does not claim. -/
def result_disjoint_Full : Prop :=
  ∀ (X₀ : Ctx), NoClassDnc X₀ → ∀ (h : Heap) (op : Op), op.inplace = false →
    ∀ (φ : List (CbKind × Nat)) (b : Option Nat) (r' : Ref),
      (step X₀.close h op φ b).1 = .ok r' →
      ∀ j, Reach (step X₀.close h op φ b).2.heap r' j → j < h.length →
        AllowedFrom X₀ h (fun v => v ∈ op.args) j

/-! ## Non-vacuity -/

/-- `class C0: a0: List[int] = Attr(default_factory=lambda: [1]);
a1: List[int] = Attr(default_factory=lambda: [2], do_not_copy=True)` -/
def T2 : List ClassDecl :=
  [{ attrs := [{ name := 0, kind := .listInt, dk := .factory, lit := .list [.int 1], owner := 0 },
               { name := 1, kind := .listInt, dk := .factory, lit := .list [.int 2], dnc := true,
                 owner := 0 }] }]

def X2 : Ctx := (boot T2).1
/-- the heap after `C0()`: the instance is object 0, its lists objects 1 and 2 -/
def h2 : Heap := (step X2 (boot T2).2 (.construct 0 []) [] none).2.heap

example : noClassDncB T2 = true := by decide
example : h2 = [.inst 0 false [(0, .obj 1), (1, .obj 2)],
                .list [.sc (.int 1)], .list [.sc (.int 2)]] := by decide
/-- `copy.deepcopy(v)` succeeds and returns the new object 3 -/
example : (deepcopy X2 (.obj 0) (start h2 [] none)).1 = .ok (.obj 3) := by decide
/-- the `do_not_copy` field of the copy is the same reference (object 2), the
other list field is the new object 4 -/
example : (deepcopy X2 (.obj 0) (start h2 [] none)).2.heap[3]?
    = some (.inst 0 false [(0, .obj 4), (1, .obj 2)]) := by decide
example : (deepcopy X2 (.obj 0) (start h2 [] none)).2.heap[4]?
    = some (.list [.sc (.int 1)]) := by decide
/-- `reset_a1()` replaces the shared `do_not_copy` value by a new default (object 5) -/
example : (step X2 h2 (.resetAttr (.obj 0) 1 false) [] none).1 = .ok (.obj 3) := by decide
example : (step X2 h2 (.resetAttr (.obj 0) 1 false) [] none).2.heap[3]?
    = some (.inst 0 false [(0, .obj 4), (1, .obj 5)]) := by decide
/-- `with_a0(lst)` stores the caller's list (object 2) by reference -/
example : (step X2 h2 (.withAttr (.obj 0) 0 (.obj 2) [] false) [] none).2.heap[3]?
    = some (.inst 0 false [(0, .obj 2), (1, .obj 2)]) := by decide
/-- `update_a0()` without value or keywords copies the unchanged value (new object 3) -/
example : (step X2 h2 (.updateAttr (.obj 0) 0 (.sc .missing) [] false) [] none).2.heap[4]?
    = some (.inst 0 false [(0, .obj 3), (1, .obj 2)]) := by decide
/-- `with_a0_item(7)`: the edited list is a copy (object 3) -/
example : (step X2 h2 (.elem (.obj 0) 0 (.add (.sc (.int 7)) (.sc .missing) false []) false) []
    none).2.heap[3]? = some (.list [.sc (.int 1), .sc (.int 7)]) := by decide
/-- not covered (and not true): `update()` without keywords returns the receiver itself -/
example : (step X2 h2 (.update (.obj 0) [] false) [] none).1 = .ok (.obj 0) := by decide
example : (Op.update (.obj 0) [] false).cowCovered = false := by decide
/-- the table of C01 has no `do_not_copy` attribute: the copy of `C0(a0=5)` is disjoint -/
example : (deepcopy X1 (.obj 1) (start h1 [] none)).2.heap[3]?
    = some (.inst 0 false [(0, .sc (.int 5)), (1, .obj 4)]) := by decide

end SpecVerif.Props.C02
