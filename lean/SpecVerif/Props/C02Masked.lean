import SpecVerif.Proofs.C02Masked
/-!
# C02 for instances with descriptor-backed ("masked") attributes

Property theorems only; the model is `Model/C02Masked.lean` (on top of the heap
of `Model/Heap.lean` / `Model/Inst.lean`), the lemmas are in
`Proofs/C02Masked.lean`.

An instance's `__dict__` may hold, besides plain managed attributes, the cache /
override of a `spec_property`, the local override of an `Alias`, the backing
field of a `property` — under the attribute's own name or under another name
(`slot`).  The theorems quantify over **every** class table without class-level
`do_not_copy` (`NoClassDnc`), every assignment of descriptors to (class,
attribute) pairs, every lookup depth, **every** heap (so: every receiver state,
whatever was materialised on it before, whatever generation of copy it is),
every fault plan `φ` and crash point `b`.

* `derive_disjoint` / `derive_fresh`: the result of `copy.deepcopy`,
  `with_<a>(v)` and `reset_<a>()` — for a plain *or masked* attribute `a` — is a
  new object from which the only pre-existing objects reachable are those held
  by a `do_not_copy` attribute or handed in by the caller;
* `derive_view_disjoint`: the same for everything the result *shows through its
  attribute interface* afterwards (`getattr` through the descriptors, cache
  fills on the copy included);
* `derive_keeps_heap`: deriving writes no pre-existing object (the receiver's
  caches and overrides stay as they were);
* `read_writes_only_receiver`: `getattr(r, a)` writes no pre-existing object
  other than `r` itself (filling a cache of the original cannot touch a copy);
* `derive_disjoint_nodnc`, `derive_insulated`: without `do_not_copy` attributes
  and with scalar arguments the result reaches nothing pre-existing, hence no
  later in-place change of any pre-existing object is visible through it.
-/
set_option linter.unusedSectionVars false
set_option linter.unusedVariables false
namespace SpecVerif.Props.C02Masked
open SpecVerif.Py SpecVerif.Heap SpecVerif.C02Masked

/-- **derive_disjoint**: every pre-existing object `j` reachable from the result
of a deriving operation (`deepcopy`, `with_<a>`, `reset_<a>` not in place; `a`
plain or masked by any descriptor) is reachable from the value of a
`do_not_copy` attribute of some instance, or from the argument of the call. -/
theorem derive_disjoint (X₀ : Ctx) (hX : NoClassDnc X₀) (descs : List ((Nat × Nat) × Desc))
    (depth : Nat) (h : Heap) (op : MOp) (hd : op.derives = true)
    (φ : List (CbKind × Nat)) (b : Option Nat) :
    let out := mstep (MCtx.ofTable X₀ descs depth) h op φ b
    ∀ r', out.1 = .ok r' → ∀ j, Reach out.2.heap r' j → j < h.length →
      AllowedFrom X₀ h (fun v => v ∈ op.args) j := by
  intro out r' hok j hj hlt
  have hW := (world_any X₀ h (fun v => v ∈ op.args)).close
  have hM := makeGood_close X₀ hX (world_any X₀ h (fun v => v ∈ op.args))
  obtain ⟨hinv, hq⟩ := runMOp_ps (MCtx.ofTable X₀ descs depth) (noClassDnc_close X₀ hX) hW hM op hd
    (fun v hv => good_of_S hv) { heap := h, faults := φ, budget := b } (HInv.start h _)
  rcases reach_good hW hinv hj (hq r' hok).good with hge | hA
  · omega
  · exact hA

/-- **derive_fresh**: the result of a deriving operation is a new identity. -/
theorem derive_fresh (X₀ : Ctx) (hX : NoClassDnc X₀) (descs : List ((Nat × Nat) × Desc))
    (depth : Nat) (h : Heap) (op : MOp) (hd : op.derives = true)
    (φ : List (CbKind × Nat)) (b : Option Nat) :
    let out := mstep (MCtx.ofTable X₀ descs depth) h op φ b
    ∀ j, out.1 = .ok (.obj j) → h.length ≤ j := by
  intro out j hok
  have hW := (world_any X₀ h (fun v => v ∈ op.args)).close
  have hM := makeGood_close X₀ hX (world_any X₀ h (fun v => v ∈ op.args))
  obtain ⟨_, hq⟩ := runMOp_ps (MCtx.ofTable X₀ descs depth) (noClassDnc_close X₀ hX) hW hM op hd
    (fun v hv => good_of_S hv) { heap := h, faults := φ, budget := b } (HInv.start h _)
  exact hq _ hok j rfl

/-- Derive, then read the attributes `as` of the result through their descriptors. -/
def deriveAndView (D : MCtx) (op : MOp) (as : List Nat) : M (Ref × List Ref) := do
  let r' ← runMOp D op
  let vs ← readAll D r' as
  pure (r', vs)

/-- **derive_view_disjoint**: after a deriving operation, whatever the result
shows through its attribute interface — `getattr` of any attributes `as`, in any
order, through `spec_property` / `Alias` / `property`, filling caches of the
copy on the way — reaches, among the pre-existing objects, only `do_not_copy`
values and the argument of the call; and so does the result itself afterwards. -/
theorem derive_view_disjoint (X₀ : Ctx) (hX : NoClassDnc X₀) (descs : List ((Nat × Nat) × Desc))
    (depth : Nat) (h : Heap) (op : MOp) (hd : op.derives = true) (as : List Nat)
    (φ : List (CbKind × Nat)) (b : Option Nat) :
    let out := deriveAndView (MCtx.ofTable X₀ descs depth) op as
      { heap := h, faults := φ, budget := b }
    ∀ r' vs, out.1 = .ok (r', vs) → ∀ v, (v = r' ∨ v ∈ vs) →
      ∀ j, Reach out.2.heap v j → j < h.length → AllowedFrom X₀ h (fun v => v ∈ op.args) j := by
  intro out r' vs hok v hv j hj hlt
  have hW := (world_any X₀ h (fun v => v ∈ op.args)).close
  have hM := makeGood_close X₀ hX (world_any X₀ h (fun v => v ∈ op.args))
  have hps : PS h (AllowedFrom X₀ h (fun v => v ∈ op.args))
      (deriveAndView (MCtx.ofTable X₀ descs depth) op as)
      (fun p => FreshRef h.length p.1 ∧
        ∀ w, w ∈ p.2 → Good h.length (AllowedFrom X₀ h (fun v => v ∈ op.args)) w) := by
    unfold deriveAndView
    refine (runMOp_ps (MCtx.ofTable X₀ descs depth) (noClassDnc_close X₀ hX) hW hM op hd
      (fun v hv => good_of_S hv)).bind (fun r hr => ?_)
    exact (readAll_ps (MCtx.ofTable X₀ descs depth) hW hM r hr as).bind
      (fun ws hws => PS.pure ⟨hr, hws⟩)
  obtain ⟨hinv, hq⟩ := hps { heap := h, faults := φ, budget := b } (HInv.start h _)
  obtain ⟨hfr, hgood⟩ := hq _ hok
  have hg : Good h.length (AllowedFrom X₀ h (fun v => v ∈ op.args)) v := by
    rcases hv with rfl | hv
    · exact hfr.good
    · exact hgood v hv
  rcases reach_good hW hinv hj hg with hge | hA
  · omega
  · exact hA

/-- **derive_keeps_heap**: a deriving operation changes no pre-existing object
(in particular not the receiver: its caches, overrides and backing fields stay
as they were), and every write it performs targets an identity it allocated. -/
theorem derive_keeps_heap (X₀ : Ctx) (hX : NoClassDnc X₀) (descs : List ((Nat × Nat) × Desc))
    (depth : Nat) (h : Heap) (op : MOp) (hd : op.derives = true)
    (φ : List (CbKind × Nat)) (b : Option Nat) :
    let out := mstep (MCtx.ofTable X₀ descs depth) h op φ b
    (∀ i, i < h.length → out.2.heap[i]? = h[i]?) ∧
    (∀ i, Ev.write i ∈ out.2.trace → h.length ≤ i) := by
  intro out
  obtain ⟨hp, _⟩ := runMOp_safe_derive (n₀ := h.length) (W := fun _ => False)
    (MCtx.ofTable X₀ descs depth) (noClassDnc_close X₀ hX) (makeSafe_close X₀ hX) op hd
    { heap := h, faults := φ, budget := b } (Nat.le_refl _)
  refine ⟨fun i hi => hp.frame i hi (fun hf => hf), ?_⟩
  intro i hi
  obtain ⟨evs, he, hw⟩ := hp.trace
  have h' : out.2.trace = evs ++ [] := he
  rw [List.append_nil] at h'
  rw [h'] at hi
  rcases hw i hi with hf | hge
  · exact hf.elim
  · exact hge

/-- **read_writes_only_receiver**: `getattr(r, a)` through any descriptor (cache
fill included) changes no pre-existing object other than the instance `r`
itself — reading an attribute of the original cannot alter a copy, nor the
other way round. -/
theorem read_writes_only_receiver (X₀ : Ctx) (hX : NoClassDnc X₀)
    (descs : List ((Nat × Nat) × Desc)) (depth : Nat) (h : Heap) (i a : Nat)
    (φ : List (CbKind × Nat)) (b : Option Nat) :
    let out := mstep (MCtx.ofTable X₀ descs depth) h (.get (.obj i) a) φ b
    ∀ k, k < h.length → k ≠ i → out.2.heap[k]? = h[k]? := by
  intro out k hk hne
  obtain ⟨hp, _⟩ := readAttr_safe (n₀ := h.length) (W := fun j => j = i)
    (MCtx.ofTable X₀ descs depth) (makeSafe_close X₀ hX) depth (.obj i) a
    (writable_obj (Or.inl rfl)) { heap := h, faults := φ, budget := b } (Nat.le_refl _)
  exact hp.frame k hk hne

/-- **derive_disjoint_nodnc**: without `do_not_copy` attributes and with a scalar
argument, the result of a deriving operation reaches no pre-existing object. -/
theorem derive_disjoint_nodnc (X₀ : Ctx) (hX : NoClassDnc X₀) (hN : NoAttrDnc X₀)
    (descs : List ((Nat × Nat) × Desc)) (depth : Nat) (h : Heap) (op : MOp)
    (hd : op.derives = true) (hargs : ∀ v, v ∈ op.args → ∃ s, v = .sc s)
    (φ : List (CbKind × Nat)) (b : Option Nat) :
    let out := mstep (MCtx.ofTable X₀ descs depth) h op φ b
    ∀ r', out.1 = .ok r' → ∀ j, Reach out.2.heap r' j → h.length ≤ j := by
  intro out r' hok j hj
  by_cases hlt : j < h.length
  · rcases derive_disjoint X₀ hX descs depth h op hd φ b r' hok j hj hlt with hdn | ⟨v, hv, hvj⟩
    · exact (not_dncAny_of_noAttrDnc hN hdn).elim
    · obtain ⟨s, rfl⟩ := hargs v hv
      exact (not_reach_sc hvj).elim
  · omega

/-- **derive_insulated**: consequently any later in-place change of a
pre-existing object `i` (the receiver, a cached value of the receiver, …) is
invisible through the result: it changes neither what the result reaches nor
the content of anything it reaches. -/
theorem derive_insulated (X₀ : Ctx) (hX : NoClassDnc X₀) (hN : NoAttrDnc X₀)
    (descs : List ((Nat × Nat) × Desc)) (depth : Nat) (h : Heap) (op : MOp)
    (hd : op.derives = true) (hargs : ∀ v, v ∈ op.args → ∃ s, v = .sc s)
    (φ : List (CbKind × Nat)) (b : Option Nat) (i : Nat) (hi : i < h.length) (n : Node) :
    let out := mstep (MCtx.ofTable X₀ descs depth) h op φ b
    ∀ r', out.1 = .ok r' →
      (∀ j, Reach (out.2.heap.set i n) r' j ↔ Reach out.2.heap r' j) ∧
      (∀ j, Reach out.2.heap r' j → (out.2.heap.set i n)[j]? = out.2.heap[j]?) := by
  intro out r' hok
  have hni : ¬ Reach out.2.heap r' i := fun hreach => by
    have := derive_disjoint_nodnc X₀ hX hN descs depth h op hd hargs φ b r' hok i hreach
    omega
  exact ⟨reach_set_of_not_reach n hni, fun j hj => node_set_of_not_reach n hni hj⟩

/-! ## Non-vacuity

`class C0: a0: str = Attr(default_factory=lambda: ''); a2: List[int] =
Attr(default_factory=lambda: [1, 2]); a3: List[int]` with
`@spec_property(cache=True, overridable=False) def a3(self): return [7]`, and
`a4: List[int] = Alias('a2')` (local override under slot 204). -/
def T3 : List ClassDecl :=
  [{ attrs := [{ name := 0, kind := .str, dk := .factory, lit := .sc (.str 0), owner := 0 },
               { name := 2, kind := .listInt, dk := .factory, lit := .list [.int 1, .int 2], owner := 0 },
               { name := 3, kind := .listInt, owner := 0 },
               { name := 4, kind := .listInt, owner := 0 }] }]

def descs3 : List ((Nat × Nat) × Desc) :=
  [((0, 3), .specProp false true (.lit (.list [.int 7])) none),
   ((0, 4), .alias 2 204 false none)]

def X3 : Ctx := { T := T3 }
def D3 : MCtx := MCtx.ofTable X3 descs3 4

/-- `v = C0()`: instance 0, its list is object 1 -/
def h3a : Heap := (mstep D3 [] (.construct 0 []) [] none).2.heap
/-- `v.a3` evaluated: the cache (object 2) now sits in `v.__dict__` -/
def h3b : Heap := (mstep D3 h3a (.get (.obj 0) 3) [] none).2.heap
/-- `v.a4 = [9]` (the caller's list is object 3): stored under the override slot -/
def h3c : Heap :=
  (mstep D3 (h3b ++ [.list [.sc (.int 9)]]) (.set (.obj 0) 4 (.obj 3)) [] none).2.heap

example : T3.all (fun cd => !cd.dnc) = true := by decide
example : h3a = [.inst 0 false [(0, .sc (.str 0)), (2, .obj 1)], .list [.sc (.int 1), .sc (.int 2)]] := by
  decide
example : (mstep D3 h3a (.get (.obj 0) 3) [] none).1 = .ok (.obj 2) := by decide
example : h3b[0]? = some (.inst 0 false [(0, .sc (.str 0)), (2, .obj 1), (3, .obj 2)]) := by decide
/-- a second read returns the cached object itself -/
example : (mstep D3 h3b (.get (.obj 0) 3) [] none).1 = .ok (.obj 2) := by decide
example : h3c[0]? = some (.inst 0 false [(0, .sc (.str 0)), (2, .obj 1), (3, .obj 2), (204, .obj 3)]) := by
  decide
/-- the alias now reads the local override, not `a2` -/
example : (mstep D3 h3c (.get (.obj 0) 4) [] none).1 = .ok (.obj 3) := by decide
/-- `copy.deepcopy(v)`: the copy (object 4) holds new objects under `a2`, under the
cache entry `a3` and under the alias override slot -/
example : (mstep D3 h3c (.deepcopy (.obj 0)) [] none).1 = .ok (.obj 4) := by decide
example : (mstep D3 h3c (.deepcopy (.obj 0)) [] none).2.heap[4]?
    = some (.inst 0 false [(0, .sc (.str 0)), (2, .obj 5), (3, .obj 6), (204, .obj 7)]) := by decide
/-- `v.with_a0('x')` (an unrelated attribute): likewise -/
example : (mstep D3 h3c (.withAttr (.obj 0) 0 (.sc (.str 1)) false) [] none).2.heap[4]?
    = some (.inst 0 false [(0, .sc (.str 1)), (2, .obj 5), (3, .obj 6), (204, .obj 7)]) := by decide
/-- `v.reset_a4()`: the copy loses the override, its alias reads its own `a2` again -/
example : (mstep D3 h3c (.resetAttr (.obj 0) 4 false) [] none).2.heap[4]?
    = some (.inst 0 false [(0, .sc (.str 0)), (2, .obj 5), (3, .obj 6)]) := by decide
/-- the cached property is not overridable: `v.with_a3([1])` raises AttributeError
(after the copy was made; the receiver is untouched) -/
example : (mstep D3 (h3c ++ [.list [.sc (.int 1)]]) (.withAttr (.obj 0) 3 (.obj 4) false) [] none).1
    = .error (.py .attributeError) := by decide
example : (MOp.deepcopy (.obj 0)).derives = true := by decide
example : (MOp.get (.obj 0) 3).derives = false := by decide

end SpecVerif.Props.C02Masked
