import SpecVerif.Proofs.C03
import SpecVerif.Props.C05
/-!
# C03 — managed attributes always satisfy their declared type on every mutation route

Property theorems only (helper lemmas: `Proofs/C03.lean`). Every theorem is about the executable
definitions of `Model/C05.lean` + `Model/C03.lean` that the correspondence check runs against
`spec_classes`: `construct` (the generated `__init__`, keywords and dict-to-spec casting), `step`
(= `run` for `obj.a = v`, `del`, `with_/update_/transform_/reset_<attr>`, `update/transform/reset`, and
`elemRun` for `with_/update_/transform_/without_<item>` on list / dict / set attributes by index / key /
value), with preparers and item preparers that may return anything.

Quantification: every class table (any annotations built from int/str/bool/float/None/Literal/Union/
List/Set/Dict/spec classes, any defaults, keys, preparer assignment, subclass relations), every pool of
pure total preparers, every pure total transform, every argument value, every flag combination, every
amount of fuel, every history of calls of every length.
-/
set_option linter.unusedSectionVars false
set_option linter.unusedSimpArgs false
set_option linter.unusedVariables false
namespace SpecVerif.Props.C03
open SpecVerif.Py SpecVerif.C05 SpecVerif.C03 SpecVerif.C05.Proofs SpecVerif.C03.Proofs

variable (E : Env)

/-- The arguments of a call are acceptable inputs: every spec instance inside an argument value is well
typed (it was created through the API), and callbacks hand back values whose embedded instances are
well typed. Nothing is assumed about whether the values *conform* to anything. -/
def CallOK (c : Call) : Prop :=
  match c.op with
  | .withA _ v kw => WT E v ∧ ∀ kv ∈ kw, WT E kv.2
  | .updateA _ v kw => WT E v ∧ ∀ kv ∈ kw, WT E kv.2
  | .transformA _ f kt => (∀ g, f = some g → TrOK E g) ∧ ∀ af ∈ kt, TrOK E af.2
  | .resetA _ => True
  | .setattr _ v => WT E v
  | .delattr _ => True
  | .update v kw => WT E v ∧ ∀ kv ∈ kw, WT E kv.2
  | .transform f kt => (∀ g, f = some g → TrOK E g) ∧ ∀ af ∈ kt, TrOK E af.2
  | .reset => True

def RouteOK : Route → Prop
  | .api c => CallOK E c
  | .elem _ op _ _ => EOpOK E op

/-- the receiver's class table is coherent: the attributes listed for a class are found under their names -/
def ClassesOK : Prop :=
  ∀ c cs, E.cls? c = some cs → ∀ sp ∈ cs.attrs, cs.attr? sp.name = some sp

/-- **wellTyped_step.** Every API call, on any route, from a well-typed receiver leaves the receiver well
typed and returns a well-typed object — whether it succeeds or raises, copying or in place. -/
theorem wellTyped_step (hE : EnvOK E) (hC : ClassesOK E) (n : Nat) (recv : Val) (r : Route)
    (h : WellTyped E recv) (hr : RouteOK E r) :
    WellTyped E (step E n recv r).recv ∧ WellTyped E (step E n recv r).result := by
  cases r with
  | api c =>
    simp only [step]
    simp only [RouteOK, CallOK] at hr
    unfold run
    cases hop : c.op with
    | withA a v kw =>
      rw [hop] at hr; simp only [] at hr
      simp only []
      cases hsp : specOf E recv a with
      | none => exact outWT_raised E recv _ h
      | some sp => exact outWT_lift E recv _ h (outOK_withAttr E hE n recv a sp v kw _ _ hsp h hr.1 hr.2)
    | updateA a v kw =>
      rw [hop] at hr; simp only [] at hr
      simp only []
      cases hsp : specOf E recv a with
      | none => exact outWT_raised E recv _ h
      | some sp => exact outWT_lift E recv _ h (outOK_updateAttr E hE n recv a sp v kw _ _ hsp h hr.1 hr.2)
    | transformA a f kt =>
      rw [hop] at hr; simp only [] at hr
      simp only []
      cases hsp : specOf E recv a with
      | none => exact outWT_raised E recv _ h
      | some sp => exact outWT_lift E recv _ h (outOK_transformAttr E hE n recv a sp f kt _ _ hsp h hr.1 hr.2)
    | resetA a =>
      simp only []
      cases hsp : specOf E recv a with
      | none => exact outWT_raised E recv _ h
      | some sp => exact outWT_lift E recv _ h (outOK_resetAttr E hE n recv a sp _ _ hsp h)
    | setattr a v =>
      rw [hop] at hr; simp only [] at hr
      simp only []
      cases hsp : specOf E recv a with
      | none => exact outWT_raised E recv _ h
      | some sp =>
        simp only []
        cases hs : setAttrV E (n+1) false recv a v with
        | error e => exact outWT_raised E recv _ h
        | ok r' =>
          have := (knot E hE (n+1)).set false recv a v r' h hr hs
          exact ⟨this, this⟩
    | delattr a =>
      simp only []
      cases hsp : specOf E recv a with
      | none => exact outWT_raised E recv _ h
      | some sp =>
        simp only []
        cases hd : delAttrV E n recv sp with
        | error e => exact outWT_raised E recv _ h
        | ok r' =>
          have := wt_delAttrV E hE n recv a sp r' hsp h hd
          exact ⟨this, this⟩
    | update v kw =>
      rw [hop] at hr; simp only [] at hr
      exact outWT_lift E recv _ h (outOK_updateTop E hE n recv v kw _ _ h hr.1 hr.2)
    | transform f kt =>
      rw [hop] at hr; simp only [] at hr
      exact outWT_lift E recv _ h (outOK_transformTop E hE n recv f kt _ _ h hr.1 hr.2)
    | reset =>
      simp only [resetTop]
      split
      · exact outWT_noop E recv h
      · cases hcl : classOf recv with
        | none => exact outWT_raised E recv _ h
        | some c' =>
          simp only []
          cases hcs : E.cls? c' with
          | none => exact outWT_raised E recv _ h
          | some cs =>
            simp only []
            have hi : IsInst c' recv := by
              unfold classOf at hcl
              cases recv <;> simp at hcl
              subst hcl; exact ⟨_, rfl⟩
            have hw := (wt_resetAllV E hE n c' cs hcs cs.attrs recv (hC c' cs hcs) hi h).1
            cases hr' : resetAllV E n recv cs.attrs with
            | mk v oe =>
              rw [hr'] at hw
              cases oe with
              | none => exact outWT_outcomeOf E recv v _ h hw
              | some e => exact outWT_raised E recv _ h
  | elem a op i cnd =>
    simp only [step, elemRun]
    cases hsp : specOf E recv a with
    | none => exact outWT_raised E recv _ h
    | some sp =>
      simp only []
      split
      · exact outWT_raised E recv _ h
      · split
        · exact outWT_noop E recv h
        · obtain ⟨c, fs, rfl, hattr⟩ := specOf_inst E hsp
          cases hcoll : elemColl E n (.inst c fs) sp op with
          | error e => exact outWT_raised E _ _ h
          | ok coll =>
            simp only [storeColl]
            obtain ⟨hconf, hwt⟩ := elemColl_ok E hE n c fs a sp op coll h hattr hr hcoll
            have hname := attr?_name E hattr
            apply outWT_outcomeOf E _ _ _ h
            apply wt_invalidate E hE
            apply wt_setField E sp.name coll ⟨fs, rfl⟩ h
            right
            refine ⟨?_, hwt⟩
            intro sp' hsp'
            rw [hname, hattr] at hsp'
            cases hsp'
            exact hconf

/-- **wellTyped_reachable.** In every reachable state every managed attribute that is set conforms to its
annotation (deeply: element, key and value types, Union/Optional, Literal, nested spec classes). -/
theorem wellTyped_reachable (hE : EnvOK E) (hC : ClassesOK E) (v : Val) (h : Reachable E (RouteOK E) v) :
    WellTyped E v := by
  induction h with
  | init n c kw v hk hc => exact (knot E hE n).ctor c kw v hk hc
  | recv n v r _ hr ih => exact (wellTyped_step E hE hC n v r ih hr).1
  | result n v r _ hr ih => exact (wellTyped_step E hE hC n v r ih hr).2

/-- what `WellTyped` says about one attribute of a well-typed instance: it is unset, or it holds a value that
conforms to the annotation — `conformsDeep`: `check_type`, and for container classes `check_type` does not
look inside (`MutableSequence[t]` &c.) the element / key / value types as well -/
theorem wellTyped_attr (c : Nat) (fs : Flds) (a : Nat) (sp : AttrSpec) (h : WellTyped E (.inst c fs))
    (hsp : E.attr? c a = some sp) : fs.get a = MISSING ∨ conformsDeep E sp.ty (fs.get a) = true := by
  rcases wtFlds_get E c a fs h with h' | h'
  · exact Or.inl h'
  · exact Or.inr (h'.1 sp hsp)

/-- in particular `check_type` accepts it -/
theorem wellTyped_attr_check_type (c : Nat) (fs : Flds) (a : Nat) (sp : AttrSpec) (h : WellTyped E (.inst c fs))
    (hsp : E.attr? c a = some sp) : fs.get a = MISSING ∨ conforms E sp.ty (fs.get a) = true := by
  rcases wellTyped_attr E c fs a sp h hsp with h' | h'
  · exact Or.inl h'
  · exact Or.inr (conformsDeep_conforms E h')

/-- `conformsDeep` is `check_type` for every annotation `check_type` looks inside -/
theorem conformsDeep_is_check_type (ty : Ty) (v : Val) (h : ty.isAbstract = false) :
    conformsDeep E ty v = conforms E ty v := conformsDeep_eq E v h

/-! ## container classes `check_type` does not look inside -/

/-- **items_checked_by_prepare.** For an attribute annotated with a container class whose items `check_type`
does not look at (`MutableSequence[t]`, `MutableSet[t]`, `MutableMapping[k, v]`; the same holds for any
container annotation other than `List/Set/Dict`), whatever `CollectionAttrMutator.prepare()` lets through has
only conforming items, keys and values: the per-item pass (`_prepare_items`) is what guards them. -/
theorem items_checked_by_prepare (n : Nat) (inst : Val) (sp : AttrSpec) (v r : Val)
    (habs : sp.ty.isAbstract = true) (h : collPrepare E n inst sp v = .ok r) : conformsDeep E sp.ty r = true :=
  collPrepare_deep E n inst sp v r habs h

/-- **stored_value_conforms_deep.** What `prepare_attr_value` hands to `mutate_attr` conforms deeply as soon as
`check_type` accepts it — for every annotation, every value, every preparer. -/
theorem stored_value_conforms_deep (n : Nat) (inst : Val) (sp : AttrSpec) (v : Val) (kw : Kw) (pv : Val)
    (h : prepareAttrValue E n inst sp v kw = .ok pv) (hc : conforms E sp.ty pv = true) :
    conformsDeep E sp.ty pv = true :=
  prepareAttrValue_deepIf E n inst sp v kw pv h hc

/-! ## a non-conforming value is rejected and nothing is stored -/

/-- **bad_value_rejected.** When the value `with_<a>` is about to store (after the preparer, the dict cast
and the collection normalisation) does not conform to the annotation, the call raises TypeError and
the receiver is as it was — copying or in place. -/
theorem bad_value_rejected (n : Nat) (recv : Val) (a : Nat) (sp : AttrSpec) (v pv : Val) (kw : Kw) (i : Bool)
    (hsp : specOf E recv a = some sp) (hk : kwOk E sp.ty (kw.map (·.1)) = true)
    (hpv : prepareAttrValue E n recv sp v kw = .ok pv) (hns : pv.isSent = false)
    (hbad : conforms E sp.ty pv = false) :
    run E n recv { op := .withA a v kw, inplace := i } = ⟨recv, .raised .typeError⟩ := by
  unfold run
  simp [hsp, withAttr, hk, hpv, mutateAttr, hns, hbad, lift]

/-- the same for `obj.a = v` -/
theorem bad_value_rejected_setattr (n : Nat) (recv : Val) (a : Nat) (sp : AttrSpec) (v pv : Val)
    (hsp : specOf E recv a = some sp) (hpv : prepareAttrValue E n recv sp v [] = .ok pv)
    (hns : pv.isSent = false) (hbad : conforms E sp.ty pv = false) :
    run E n recv { op := .setattr a v } = ⟨recv, .raised .typeError⟩ := by
  rw [SpecVerif.Props.C05.setattr_is_with]
  exact bad_value_rejected E n recv a sp v pv [] true hsp (by simp [kwOk]) hpv hns hbad

/-! ## deletion / reset: the default goes through the same checks as an assigned value -/

/-- **bad_default_rejected.** When the class default of `a` (declared, produced by a default factory, or
overridden in a subclass), after the preparer / dict cast / collection normalisation, does not conform to the
annotation, `reset_<a>` (copying or in place) and `del obj.a` raise TypeError and the receiver keeps the
value it had. -/
theorem bad_default_rejected (n : Nat) (recv : Val) (a : Nat) (sp : AttrSpec) (pv : Val) (i : Bool)
    (hsp : specOf E recv a = some sp) (hd : sp.defaultVal ≠ MISSING)
    (hpv : prepareAttrValue E n recv sp sp.defaultVal [] = .ok pv) (hns : pv.isSent = false)
    (hbad : conforms E sp.ty pv = false) :
    run E n recv { op := .resetA a, inplace := i } = ⟨recv, .raised .typeError⟩ ∧
    run E n recv { op := .delattr a } = ⟨recv, .raised .typeError⟩ := by
  unfold run
  simp [hsp, resetAttr, delAttrV, hd, hpv, mutateAttrV, hns, hbad, lift, Except.map]

/-- the same when the pipeline itself rejects the default (e.g. the checking inserter: ValueError for a wrong
element of a default collection): the error is passed on and nothing is stored -/
theorem bad_default_error_stores_nothing (n : Nat) (recv : Val) (a : Nat) (sp : AttrSpec) (e : Err) (i : Bool)
    (hsp : specOf E recv a = some sp) (hd : sp.defaultVal ≠ MISSING)
    (hpv : prepareAttrValue E n recv sp sp.defaultVal [] = .error e) :
    run E n recv { op := .resetA a, inplace := i } = ⟨recv, .raised e⟩ ∧
    run E n recv { op := .delattr a } = ⟨recv, .raised e⟩ := by
  unfold run
  simp [hsp, resetAttr, delAttrV, hd, hpv, lift, Except.map]

/-- `reset()` is all-or-nothing: when it raises (a default that cannot be assigned), the receiver is as it was -/
theorem reset_error_stores_nothing (n : Nat) (recv : Val) (i cnd : Bool) (e : Err)
    (h : (resetTop E n recv i cnd).ret = .raised e) : (resetTop E n recv i cnd).recv = recv := by
  unfold resetTop at h ⊢
  split
  · rfl
  · cases hcl : classOf recv with
    | none => rfl
    | some c =>
      simp only []
      cases hcs : E.cls? c with
      | none => rfl
      | some cs =>
        simp only []
        cases hr : resetAllV E n recv cs.attrs with
        | mk v oe =>
          cases oe with
          | some e' => rfl
          | none =>
            rename_i hc
            simp only [hc, hcl, hcs, hr, if_false, Bool.false_eq_true] at h
            cases i <;> simp [outcomeOf] at h

/-- a list element that does not conform (given, or produced by the item preparer / a transform) is
rejected with ValueError by every sequence helper -/
theorem bad_element_rejected (t : Ty) (xs : List Val) (idx : Option Int) (item : Val) (ins : Bool)
    (hbad : conforms E t item = false) : seqInsert E t xs idx item ins = .error .valueError := by
  simp [seqInsert, hbad]

/-- a dict value or a dict key that does not conform is rejected with ValueError -/
theorem bad_dict_entry_rejected (kt vt : Ty) (kvs : KVs) (k it : Val)
    (hbad : conforms E vt it = false ∨ conforms E kt k = false) :
    mapInsert E kt vt kvs k it = .error .valueError := by
  unfold mapInsert
  rcases hbad with h | h
  · simp [h]
  · by_cases h' : conforms E vt it = true <;> simp [h, h']

/-- a set element that does not conform is rejected with ValueError -/
theorem bad_set_element_rejected (t : Ty) (xs : List Val) (index : Option Val) (it : Val)
    (hbad : conforms E t it = false) : setInsert E t xs index it = .error .valueError := by
  simp [setInsert, hbad]

/-- an element helper that raises stores nothing -/
theorem elem_error_stores_nothing (n : Nat) (recv : Val) (a : Nat) (op : EOp) (i cnd : Bool) (e : Err)
    (h : (elemRun E n recv a op i cnd).ret = .raised e) : (elemRun E n recv a op i cnd).recv = recv := by
  unfold elemRun at h ⊢
  cases hsp : specOf E recv a with
  | none => rfl
  | some sp =>
    rw [hsp] at h; simp only [] at h ⊢
    split
    · rfl
    · split
      · rfl
      · rename_i h1 h2
        simp only [h1, h2, if_false, Bool.false_eq_true] at h
        cases hc : elemColl E n recv sp op with
        | error e' => rfl
        | ok coll =>
          rw [hc] at h
          simp only [storeColl, outcomeOf] at h
          cases i <;> simp at h

/-! ## non-vacuity -/

/-- a class with a list, a dict and a set attribute; `a3 : int = 5` -/
def Ew : Env :=
  { classes := [{ id := 0,
                  attrs := [{ name := 0, ty := .list .int, default := some (.list (.cons (.sc (.int 1)) .nil)) },
                            { name := 1, ty := .dict .str .int },
                            { name := 2, ty := .set .int },
                            { name := 3, ty := .int, default := some (.sc (.int 5)), classAttr := some (.sc (.int 5)) }],
                  initOrder := [0, 1, 2, 3] }],
    prep := fun _ _ v => v }

def recvW : Val := .inst 0 (.cons 0 (.list (.cons (.sc (.int 1)) .nil)) (.cons 1 MISSING (.cons 2 MISSING
  (.cons 3 (.sc (.int 5)) .nil))))

example : construct Ew 6 0 [] = .ok recvW := by decide
example : WellTyped Ew recvW := by unfold WellTyped; decide

/-- the hypotheses of the theorems are satisfiable: this environment is `EnvOK` and `ClassesOK` -/
example : ClassesOK Ew := by
  intro c cs hcs sp hsp
  unfold Env.cls? at hcs
  simp [Ew] at hcs
  obtain ⟨_, h2⟩ := hcs
  subst h2
  simp at hsp
  rcases hsp with rfl | rfl | rfl | rfl <;> decide

example : EnvOK Ew where
  depDefaultDeep := by
    intro c a sp hsp hne
    exfalso; apply hne
    unfold Env.attr? Env.cls? at hsp
    by_cases hc : c = 0
    · subst hc
      simp [Ew, ClassSpec.attr?, Option.bind, List.find?] at hsp
      split at hsp <;> (try split at hsp) <;> (try split at hsp) <;> (try split at hsp) <;>
        first | (cases hsp; rfl) | (cases hsp)
    · have : (Ew.classes.find? fun x => x.id == c) = none := by
        simp [Ew]; omega
      rw [this] at hsp; cases hsp
  prepWT := fun _ _ _ _ hv => hv
  defaultWT := by
    intro c a sp hsp
    have hn := attr?_name Ew hsp
    unfold Env.attr? Env.cls? at hsp
    by_cases hc : c = 0
    · subst hc
      simp [Ew, ClassSpec.attr?, Option.bind, List.find?] at hsp
      split at hsp <;> (try split at hsp) <;> (try split at hsp) <;> (try split at hsp) <;>
        first | (cases hsp; rfl) | (cases hsp)
    · have : (Ew.classes.find? fun x => x.id == c) = none := by
        simp [Ew]; omega
      rw [this] at hsp; cases hsp
  classAttrWT := by
    intro c a sp d hsp hd
    unfold Env.attr? Env.cls? at hsp
    by_cases hc : c = 0
    · subst hc
      simp [Ew, ClassSpec.attr?, Option.bind, List.find?] at hsp
      split at hsp <;> (try split at hsp) <;> (try split at hsp) <;> (try split at hsp) <;>
        first
        | (cases hsp; cases hd; exact ⟨rfl, rfl⟩)
        | (cases hsp; cases hd)
        | (cases hsp)
    · have : (Ew.classes.find? fun x => x.id == c) = none := by
        simp [Ew]; omega
      rw [this] at hsp; cases hsp

/-- a valid element call changes the state and keeps the invariant … -/
example : (step Ew 6 recvW (.elem 0 (.seqWith (.sc (.int 7)) MISSING false) true true)).recv
    = .inst 0 (.cons 0 (.list (.cons (.sc (.int 1)) (.cons (.sc (.int 7)) .nil))) (.cons 1 MISSING (.cons 2 MISSING
        (.cons 3 (.sc (.int 5)) .nil)))) := by decide
example : WellTyped Ew (step Ew 6 recvW (.elem 0 (.seqWith (.sc (.int 7)) MISSING false) true true)).recv := by
  unfold WellTyped; decide

/-- … a wrong element, a wrong key and a wrong scalar are rejected and nothing is stored -/
example : step Ew 6 recvW (.elem 0 (.seqWith (.sc (.str 100)) MISSING false) true true)
    = ⟨recvW, .raised .valueError⟩ := by decide
example : step Ew 6 recvW (.elem 1 (.mapWith (.sc (.int 5)) (.sc (.int 1))) true true)
    = ⟨recvW, .raised .valueError⟩ := by decide
example : step Ew 6 recvW (.api { op := .setattr 3 (.sc (.str 100)) }) = ⟨recvW, .raised .typeError⟩ := by decide
example : step Ew 6 recvW (.api { op := .update MISSING [(3, .sc (.int 1)), (0, .list (.cons (.sc .none) .nil))], inplace := true })
    = ⟨recvW, .raised .valueError⟩ := by decide

/-! ### container classes `check_type` does not look inside, descriptor-backed attributes, bad defaults -/

/-- `a0 : MutableSequence[int]`, `a1 : MutableMapping[str, int]`, `a2 : int` backed by a property (no default of its
own; reading it without an override gives the getter's value 4), `a3 : int = None` (a default that does not
conform), `a4 : List[str]` with a default factory producing `["s100", 0]` -/
def Ex : Env :=
  { classes := [{ id := 0,
                  attrs := [{ name := 0, ty := .mseq .int },
                            { name := 1, ty := .mmap .str .int },
                            { name := 2, ty := .int, classAttr := some (.sc (.int 4)) },
                            { name := 3, ty := .int, default := some NONE, classAttr := some NONE },
                            { name := 4, ty := .list .str,
                              default := some (.list (.cons (.sc (.str 100)) (.cons (.sc (.int 0)) .nil))) }],
                  initOrder := [0, 1, 2, 3, 4] }],
    prep := fun _ _ v => v }

def l12 : Val := .list (.cons (.sc (.int 1)) (.cons (.sc (.int 2)) .nil))
def l1s : Val := .list (.cons (.sc (.int 1)) (.cons (.sc (.str 100)) .nil))
def lS : Val := .list (.cons (.sc (.str 100)) .nil)

/-- the defaults of `a3`, `a4` do not conform: the constructor refuses unless both are given … -/
example : construct Ex 8 0 [(0, l12)] = .error .typeError := by decide
example : construct Ex 8 0 [(0, l12), (3, .sc (.int 7))] = .error .valueError := by decide

def recvX : Val := .inst 0 (.cons 0 l12 (.cons 1 MISSING (.cons 2 MISSING (.cons 3 (.sc (.int 7)) (.cons 4 lS .nil)))))

example : construct Ex 8 0 [(0, l12), (3, .sc (.int 7)), (4, lS)] = .ok recvX := by decide
example : WellTyped Ex recvX := by unfold WellTyped; decide

/-- … and `del` / `reset_<a>` / `reset()` do not establish them later -/
example : step Ex 8 recvX (.api { op := .delattr 3 }) = ⟨recvX, .raised .typeError⟩ := by decide
example : step Ex 8 recvX (.api { op := .resetA 3, inplace := true }) = ⟨recvX, .raised .typeError⟩ := by decide
example : step Ex 8 recvX (.api { op := .resetA 4 }) = ⟨recvX, .raised .valueError⟩ := by decide
example : step Ex 8 recvX (.api { op := .reset, inplace := true }) = ⟨recvX, .raised .typeError⟩ := by decide

/-- `check_type` accepts the list with a wrong item for `MutableSequence[int]`, the invariant does not … -/
example : conforms Ex (.mseq .int) l1s = true := by decide
example : conformsDeep Ex (.mseq .int) l1s = false := by decide
/-- … and every whole-attribute route rejects it (the per-item pass), nothing stored -/
example : step Ex 8 recvX (.api { op := .withA 0 l1s [] }) = ⟨recvX, .raised .valueError⟩ := by decide
example : step Ex 8 recvX (.api { op := .setattr 0 l1s }) = ⟨recvX, .raised .valueError⟩ := by decide
example : step Ex 8 recvX (.api { op := .transformA 0 (some fun _ => l1s) [] , inplace := true })
    = ⟨recvX, .raised .valueError⟩ := by decide
example : step Ex 8 recvX (.api { op := .update MISSING [(0, l1s)] }) = ⟨recvX, .raised .valueError⟩ := by decide
example : step Ex 8 recvX (.api { op := .withA 1 (.dict (.cons (.sc (.str 100)) (.sc (.str 101)) .nil)) [] })
    = ⟨recvX, .raised .valueError⟩ := by decide
example : construct Ex 8 0 [(0, l1s), (3, .sc (.int 7)), (4, lS)] = .error .valueError := by decide
/-- a conforming container is stored, and the element helpers work on it -/
example : (step Ex 8 recvX (.api { op := .withA 0 (.list (.cons (.sc (.int 9)) .nil)) [], inplace := true })).recv
    = .inst 0 (.cons 0 (.list (.cons (.sc (.int 9)) .nil)) (.cons 1 MISSING (.cons 2 MISSING
        (.cons 3 (.sc (.int 7)) (.cons 4 lS .nil))))) := by decide
example : step Ex 8 recvX (.elem 0 (.seqWith (.sc (.str 100)) MISSING false) true true)
    = ⟨recvX, .raised .valueError⟩ := by decide
example : WellTyped Ex (step Ex 8 recvX (.elem 0 (.seqWith (.sc (.int 5)) MISSING false) true true)).recv := by
  unfold WellTyped; decide

/-- a property-backed attribute: an override must conform like any other value; deleting the override (there
is no default to fall back to) uncovers the getter again -/
example : step Ex 8 recvX (.api { op := .withA 2 (.sc (.str 100)) [] }) = ⟨recvX, .raised .typeError⟩ := by decide
example : step Ex 8 recvX (.api { op := .setattr 2 NONE }) = ⟨recvX, .raised .typeError⟩ := by decide
example : step Ex 8 recvX (.api { op := .transformA 2 (some fun _ => .sc (.flt 1)) [] }) = ⟨recvX, .raised .typeError⟩ := by
  decide
example : (step Ex 8 recvX (.api { op := .transformA 2 (some fun v => v) [], inplace := true })).recv.getAttr 2
    = .sc (.int 4) := by decide
example : step Ex 8 recvX (.api { op := .delattr 2 }) = ⟨recvX, .raised .attributeError⟩ := by decide

end SpecVerif.Props.C03
