import SpecVerif.Proofs.C03Boot
/-!
# C03 — the declared type of a managed attribute, whatever the decorator options and the order of first use

`Model/C03Boot.lean` mirrors `spec_class.bootstrap`: from the class statements (class bodies, `@spec_class(...)`
options, base classes) to the class table (`ClassSpec`) every other theorem of this property quantifies over.  The
correspondence check runs the real classes -- built fresh, used in a chosen order -- against this very function
(`decl` lines of `Drivers/C03.lean`).  The theorems say which type a managed attribute ends up with:

* `managed_attr_type` — every attribute the class manages is typed `attrType`: the decorator's type unless that is the
  `Any` placeholder, else the annotation visible on the class, else `Any`;
* `attrs_nominated_keeps_annotation` — naming an annotated attribute in `attrs=[...]` only nominates it: its type is
  its annotation (own or inherited);
* `attrs_typed_decides` — a type given through `attrs_typed=` (or the overflow attribute's `Dict[str, Any]`) wins over
  any annotation;
* `annotation_decides` — an attribute (re-)annotated in the class body is typed by THAT annotation, whatever the parent
  class said about it: a subclass narrowing an inherited attribute gets the narrow type, for the whole-value check
  and (the model derives the element type from the type: `Ty.itemTy`) for the element helpers;
* `inherited_attr_type` — an attribute the class does not declare keeps the type it has in the parent class, also when
  the class body merely gives it a new default;
* `key_attr_type` — a key attribute the class does not otherwise manage is typed by its annotation (else `Any`);
* `first_use_order_irrelevant`, `first_use_orders_agree` — lazy bootstrap (`useClass`: parents first, on first use) in
  ANY order of first use gives every class the table eager bootstrap in definition order gives it: nothing about a
  class can depend on which classes of its hierarchy were used before it;
* `constructB_wellTyped` — the constructor of a class with `init_overflow_attr` (which stores `{}` last) returns a
  well-typed instance.

All quantified over every chain of ancestors, every declaration, every history of first uses, every fuel.
-/
set_option linter.unusedSectionVars false
set_option linter.unusedSimpArgs false
set_option linter.unusedVariables false
namespace SpecVerif.Props.C03Boot
open SpecVerif.Py SpecVerif.C05 SpecVerif.C03 SpecVerif.C03Boot SpecVerif.C03Boot.Proofs SpecVerif.C03.Proofs

/-- the type under which class `R` manages attribute `a` (`none`: it does not manage it) -/
def typeOf (R : RClass) (a : Nat) : Option Ty := (R.attr? a).map (·.ty)

/-- **managed_attr_type.** Every attribute a spec class manages (annotated and not skipped, or named by `attrs=`,
`attrs_typed=`, `init_overflow_attr=`) is typed by `attrType`, whatever the ancestors are. -/
theorem managed_attr_type (chain : List RClass) (d : Decl) (a : Nat) (hs : d.isSpec = true) (ha : a ∈ d.managed) :
    typeOf (bootstrap chain d) a = some (attrType chain d a) := by
  unfold typeOf
  rw [attr?_eq_findA, bootstrap_attrs chain d hs]
  have hg := (managedFold_spec chain d a d.managed ((parentOf chain).attrs.map (inheritStep chain d))).1 ha
  cases hk : d.key with
  | named k =>
    simp only []
    split
    · rw [hg]; rfl
    · have : findA ((managedFold chain d d.managed ((parentOf chain).attrs.map (inheritStep chain d))) ++
          [{ spec := buildSpec chain d k (attrType chain d k), owner := d.id }]) a = some (built chain d a) := by
        unfold findA getA at hg ⊢
        rw [List.find?_append, hg]; rfl
      rw [this]; rfl
  | inherit => simp only []; rw [hg]; rfl
  | disabled => simp only []; rw [hg]; rfl

theorem mem_managed_of_self (d : Decl) (a : Nat) (t : Ty) (h : dictGet d.selfAttrs a = some t) : a ∈ d.managed := by
  unfold Decl.managed
  exact List.mem_append_right _ (dictGet_mem h)

/-- **attrs_nominated_keeps_annotation.** `attrs=[…, a, …]` (without `attrs_typed` / `init_overflow_attr` naming `a`)
leaves the type of `a` to the annotation visible on the class -- its own or the nearest ancestor's. -/
theorem attrs_nominated_keeps_annotation (chain : List RClass) (d : Decl) (a : Nat) (t : Ty) (hs : d.isSpec = true)
    (ha : a ∈ d.attrs) (ht : ∀ p ∈ d.attrsTyped, p.1 ≠ a) (ho : d.ovf ≠ some a) (hh : hints chain d a = some t) :
    typeOf (bootstrap chain d) a = some t := by
  have hself := selfAttrs_nominated d a ha ht ho
  rw [managed_attr_type chain d a hs (mem_managed_of_self d a _ hself)]
  unfold attrType
  rw [hself, hh]; simp

/-- **attrs_typed_decides.** A type the decorator gives (`attrs_typed`, or `Dict[str, Any]` for the overflow attribute)
is the managed type, whatever the annotations say. -/
theorem attrs_typed_decides (chain : List RClass) (d : Decl) (a : Nat) (t : Ty) (hs : d.isSpec = true)
    (ht : dictGet d.selfAttrs a = some t) (hne : t ≠ .any) : typeOf (bootstrap chain d) a = some t := by
  rw [managed_attr_type chain d a hs (mem_managed_of_self d a t ht)]
  unfold attrType
  rw [ht]; simp [hne]

/-- **annotation_decides.** An attribute annotated in the class body (and not skipped, not typed by the decorator) is
managed under THAT annotation -- for ANY ancestors, in particular when a parent class manages the same attribute
under a wider type (re-annotation / narrowing in a subclass). -/
theorem annotation_decides (chain : List RClass) (d : Decl) (a : Nat) (t : Ty) (hs : d.isSpec = true)
    (hi : d.inheritAnn = true) (hann : dictGet d.ownAnns a = some t)
    (hskip : (d.attrsSkip.getD []).contains a = false)
    (hself : dictGet d.selfAttrs a = none ∨ dictGet d.selfAttrs a = some .any) :
    typeOf (bootstrap chain d) a = some t := by
  have hm : a ∈ d.managed := by
    unfold Decl.managed
    apply List.mem_append_left
    rw [hi]
    simp only [if_true]
    have hns : a ∉ d.attrsSkip.getD [] := by
      intro hin
      have : (d.attrsSkip.getD []).contains a = true := by simpa using hin
      rw [hskip] at this; cases this
    exact List.mem_filter.mpr ⟨dictGet_mem hann, by simp [hns]⟩
  rw [managed_attr_type chain d a hs hm]
  have hh : hints chain d a = some t := by unfold hints; rw [hann]
  unfold attrType
  rcases hself with h | h <;> rw [h, hh] <;> simp

/-- **inherited_attr_type.** An attribute the class neither manages itself nor uses as its key keeps the type it has in
the parent class -- also when the class body gives it a new value (`Attr(...)` included). -/
theorem inherited_attr_type (chain : List RClass) (d : Decl) (a : Nat) (hs : d.isSpec = true)
    (hn : d.typed? a = false) : typeOf (bootstrap chain d) a = typeOf (parentOf chain) a := by
  have hnm : a ∉ d.managed := by
    intro h
    unfold Decl.typed? at hn
    have : d.managed.contains a = true := by simpa using h
    rw [this] at hn
    simp at hn
  have hkey : d.key ≠ .named a := by
    intro h
    unfold Decl.typed? at hn
    simp [h] at hn
  unfold typeOf
  rw [attr?_eq_findA, attr?_eq_findA, bootstrap_attrs chain d hs]
  have hf := (managedFold_spec chain d a d.managed ((parentOf chain).attrs.map (inheritStep chain d))).2 hnm
  rw [findA_map_pres (inheritStep chain d) (inheritStep_name chain d) a] at hf
  have hfinal : ((findA (managedFold chain d d.managed ((parentOf chain).attrs.map (inheritStep chain d))) a).map
        (·.spec)).map (·.ty) = ((findA (parentOf chain).attrs a).map (·.spec)).map (·.ty) := by
    rw [hf]
    cases findA (parentOf chain).attrs a with
    | none => rfl
    | some r => simp [inheritStep_ty]
  cases hk : d.key with
  | named k =>
    have hka : a ≠ k := by intro e; apply hkey; rw [hk, e]
    simp only []
    split
    · exact hfinal
    · have : findA ((managedFold chain d d.managed ((parentOf chain).attrs.map (inheritStep chain d))) ++
          [{ spec := buildSpec chain d k (attrType chain d k), owner := d.id }]) a =
          findA (managedFold chain d d.managed ((parentOf chain).attrs.map (inheritStep chain d))) a :=
        getA_append_other nameOf _ a hka _
      rw [this]
      exact hfinal
  | inherit => simp only []; exact hfinal
  | disabled => simp only []; exact hfinal

/-- **key_attr_type.** A key attribute the class does not manage (and does not inherit) still gets a table entry, typed
by its annotation (else `Any`): assignments to it are checked like any other. -/
theorem key_attr_type (chain : List RClass) (d : Decl) (k : Nat) (hs : d.isSpec = true) (hk : d.key = .named k)
    (hnm : k ∉ d.managed) (hp : (parentOf chain).attr? k = none) :
    typeOf (bootstrap chain d) k = some (attrType chain d k) := by
  unfold typeOf
  rw [attr?_eq_findA, bootstrap_attrs chain d hs]
  have hf := (managedFold_spec chain d k d.managed ((parentOf chain).attrs.map (inheritStep chain d))).2 hnm
  rw [findA_map_pres (inheritStep chain d) (inheritStep_name chain d) k] at hf
  have hpn : findA (parentOf chain).attrs k = none := by
    rw [attr?_eq_findA] at hp
    cases h : findA (parentOf chain).attrs k with
    | none => rfl
    | some r => rw [h] at hp; cases hp
  rw [hpn] at hf
  rw [hk]
  simp only []
  rw [if_neg (by rw [findA_none_any hf]; simp)]
  have := getA_append_miss nameOf ({ spec := buildSpec chain d k (attrType chain d k), owner := d.id } : RAttr) _
    (findA_none_any hf)
  unfold findA
  have hname : nameOf ({ spec := buildSpec chain d k (attrType chain d k), owner := d.id } : RAttr) = k := rfl
  rw [hname] at this
  rw [this]; rfl

/-! ## the order of first use -/

/-- **first_use_order_irrelevant.** Whatever classes of a (well-formed) program are used first, in whatever order, and
however deep the recursion is allowed to go: every class that got bootstrapped lazily has exactly the table eager
bootstrap in definition order gives it. -/
theorem first_use_order_irrelevant (ds : List Decl) (hwf : WF ds) (n : Nat) (us : List Nat) :
    ∀ R ∈ runUses ds n us, R ∈ bootAll ds :=
  (inv_runUses ds hwf n us [] ⟨fun R h => (by cases h), closed_nil⟩).1

/-- **first_use_orders_agree.** Two histories of first uses cannot disagree about any class. -/
theorem first_use_orders_agree (ds : List Decl) (hwf : WF ds) (n m : Nat) (us vs : List Nat) (R1 R2 : RClass)
    (h1 : R1 ∈ runUses ds n us) (h2 : R2 ∈ runUses ds m vs) (hid : R1.id = R2.id) : R1 = R2 := by
  have hn : ((bootAll ds).map (·.id)).Nodup := by rw [canon_ids]; exact hwf.1
  exact uniq_of_nodup_ids (bootAll ds) hn R1 (first_use_order_irrelevant ds hwf n us R1 h1) R2
    (first_use_order_irrelevant ds hwf m vs R2 h2) hid

/-! ## the constructor of a class that collects extra keywords -/

/-- **constructB_wellTyped.** When the overflow attribute is typed as a dict (`Dict[str, Any]`: `attrs_typed_decides`),
the constructor -- which stores `{}` in it after everything else -- returns a well-typed instance. -/
theorem constructB_wellTyped (E : Env) (hE : EnvOK E) (ovf : Option Nat) (n c : Nat) (kw : Kw) (r : Val)
    (hkw : ∀ kv ∈ kw, WT E kv.2)
    (hty : ∀ o, ovf = some o → ∀ c sp, E.attr? c o = some sp → conformsDeep E sp.ty (.dict .nil) = true)
    (h : constructB E ovf n c kw = .ok r) : WellTyped E r := by
  unfold constructB at h
  cases hc : construct E n c kw with
  | error e => rw [hc] at h; cases h
  | ok v =>
    rw [hc] at h
    have hv : WT E v := (knot E hE n).ctor c kw v hkw hc
    cases ho : ovf with
    | none => rw [ho] at h; simp only [] at h; cases h; exact hv
    | some o =>
      rw [ho] at h; simp only [] at h; cases h
      apply wt_setField_any E v o (.dict .nil) hv
      intro c' _
      exact Or.inr ⟨fun sp hsp => hty o ho c' sp hsp, rfl⟩

/-! ## non-vacuity: the shapes of the two seeded changes of round 5, evaluated -/

def FLOATS : Ty := .list .float
def INTS : Ty := .list .int

/-- `class Series: name: str = "series"; values: List[float] = []; weights: Dict[str, float] = {}` -/
def series : Decl :=
  { id := 0, entries := [
      { name := 0, ann := some .str, body := .value (.sc (.str 100)) },
      { name := 1, ann := some FLOATS, body := .value (.list .nil) },
      { name := 2, ann := some (.dict .str .float), body := .value (.dict .nil) }] }

/-- `class Counts(Series): values: List[int]; weights: Dict[str, int]` -/
def counts : Decl :=
  { id := 3, base := some 0, entries := [{ name := 1, ann := some INTS }, { name := 2, ann := some (.dict .str .int) }] }

/-- `@spec_class(attrs=["count", "tags"]) class Nominated: count: int = 0; tags: List[str] = []; note: str = ""` -/
def nominated : Decl :=
  { id := 5, attrs := [0, 1], entries := [
      { name := 0, ann := some .int, body := .value (.sc (.int 0)) },
      { name := 1, ann := some (.list .str), body := .value (.list .nil) },
      { name := 2, ann := some .str, body := .value (.sc (.str 999)) }] }

def prog : List Decl := [series, counts, nominated]

example : WF prog := by
  refine ⟨by decide, ?_⟩
  intro pre d post h b hb
  match pre, h with
  | [], h => cases h; cases hb
  | [_], h => cases h; cases hb; decide
  | [_, _], h => cases h; cases hb
  | _ :: _ :: _ :: pre, h => cases pre <;> cases h

-- the subclass manages the narrowed types, whichever class of the hierarchy is used first
example : typeOf (bootstrap [bootstrap [] series] counts) 1 = some INTS := by decide
example : typeOf (bootstrap [bootstrap [] series] counts) 2 = some (.dict .str .int) := by decide
example : typeOf (bootstrap [bootstrap [] series] counts) 0 = some .str := by decide
example : (runUses prog 5 [3]).find? (·.id == 3) = (bootAll prog).find? (·.id == 3) := by decide
example : (runUses prog 5 [0, 3]).find? (·.id == 3) = (bootAll prog).find? (·.id == 3) := by decide
example : (runUses prog 5 [3, 0, 5, 3]).find? (·.id == 3) = (bootAll prog).find? (·.id == 3) := by decide
example : ((runUses prog 5 [0, 3]).find? (·.id == 3)).bind (typeOf · 1) = some INTS := by decide
-- the inherited default survives the re-annotation, and the element type the helpers check is the narrow one
example : ((bootstrap [bootstrap [] series] counts).attr? 1).map (·.default) = some (some (.list .nil)) := by decide
example : ((bootstrap [bootstrap [] series] counts).attr? 1).map (·.ty.itemTy) = some .int := by decide
-- `attrs=` only nominates: annotated types stay, un-nominated annotations are not managed
example : typeOf (bootstrap [] nominated) 0 = some .int := by decide
example : typeOf (bootstrap [] nominated) 1 = some (.list .str) := by decide
example : typeOf (bootstrap [] nominated) 2 = none := by decide
-- `attrs_typed` wins over the annotation; the `Any` placeholder does not
example : typeOf (bootstrap [] { nominated with attrsTyped := [(0, .str), (1, .any)] }) 0 = some .str := by decide
example : typeOf (bootstrap [] { nominated with attrsTyped := [(0, .str), (1, .any)] }) 1 = some (.list .str) := by decide
-- a key attribute that is annotated but not managed, and the overflow attribute
example : typeOf (bootstrap [] { nominated with key := .named 2, ovf := some 9 }) 2 = some .str := by decide
example : typeOf (bootstrap [] { nominated with key := .named 2, ovf := some 9 }) 9 = some (.dict .str .any) := by decide
example : ((bootstrap [] { nominated with key := .named 2, ovf := some 9 }).attrs.map (·.spec.name)) = [0, 1, 9, 2] := by decide

end SpecVerif.Props.C03Boot
