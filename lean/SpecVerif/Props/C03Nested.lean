import SpecVerif.Props.C03
import SpecVerif.Props.C03Boot
/-!
# C03 — element, key and value types at ANY depth, independent of neighbours and of order

`check_type` (`conforms`) is the only guard of the element / key / value types of a container that is not itself
the collection the mutators walk item by item: a container inside `Optional[...]` / `Union[...]`, a container that
is an item or a value of a collection attribute (`Dict[str, List[V]]`, `List[Set[V]]`), two levels of nesting.
The theorems below say, for the executable model the correspondence check runs against `spec_classes`:

* the verdict on a container is the conjunction of the verdicts on its elements, one by one
  (`conforms_list_iff`, `conforms_set_iff`, `conforms_dict_iff`) — hence it does not depend on the order of the
  elements (`conforms_list_perm`, `conforms_set_perm`) nor on what precedes an element (`later_element_checked`);
* a value with ONE non-conforming leaf at any position of any nesting (`BadAt`: under list / set elements, dict keys,
  dict values, through both alternatives of a union) does not conform, whatever its neighbours are
  (`badAt_not_conforms`; `badAt_iff`: and that is the only way not to conform);
* such a value is rejected by every route with nothing stored (`nested_bad_value_rejected`,
  `nested_bad_value_rejected_setattr`, `nested_bad_item_rejected`, `nested_bad_dict_entry_rejected`,
  `nested_bad_set_element_rejected`), and no reachable state holds one (`wellTyped_no_bad_position`).

All quantified over every class table, annotation, value, validator (`E.pred`), fuel.
-/
set_option linter.unusedSectionVars false
set_option linter.unusedSimpArgs false
set_option linter.unusedVariables false
namespace SpecVerif.Props.C03Nested
open SpecVerif.Py SpecVerif.C05 SpecVerif.C03 SpecVerif.C05.Proofs SpecVerif.C03.Proofs

variable (E : Env)

theorem KVs_all_toList (p : Val → Val → Bool) : ∀ kvs : KVs, kvs.all p = kvs.toList.all (fun kv => p kv.1 kv.2)
  | .nil => rfl
  | .cons k v r => by simp [KVs.all, KVs.toList, KVs_all_toList p r]

/-! ## one verdict per element -/

/-- **conforms_list_iff.** `check_type(value, List[t])` on a list: every element, one by one. -/
theorem conforms_list_iff (t : Ty) (xs : Vals) :
    conforms E (.list t) (.list xs) = true ↔ ∀ x ∈ xs.toList, conforms E t x = true := by
  rw [conforms, Vals_all_toList, List.all_eq_true]

/-- the same for `Set[t]` -/
theorem conforms_set_iff (t : Ty) (xs : Vals) :
    conforms E (.set t) (.set xs) = true ↔ ∀ x ∈ xs.toList, conforms E t x = true := by
  rw [conforms, Vals_all_toList, List.all_eq_true]

/-- … and for `Dict[k, v]`: every key and every value -/
theorem conforms_dict_iff (kt vt : Ty) (kvs : KVs) :
    conforms E (.dict kt vt) (.dict kvs) = true ↔
      ∀ kv ∈ kvs.toList, conforms E kt kv.1 = true ∧ conforms E vt kv.2 = true := by
  rw [conforms, KVs_all_toList, List.all_eq_true]
  simp only [Bool.and_eq_true]

/-- **conforms_list_perm.** The verdict does not depend on the order of the elements: in particular a
non-conforming element is found whether it comes before or after conforming elements of the same class. -/
theorem conforms_list_perm (t : Ty) (xs ys : Vals) (h : xs.toList.Perm ys.toList) :
    conforms E (.list t) (.list xs) = conforms E (.list t) (.list ys) := by
  rw [Bool.eq_iff_iff, conforms_list_iff, conforms_list_iff]
  constructor
  · intro hx y hy; exact hx y (h.mem_iff.2 hy)
  · intro hy x hx; exact hy x (h.mem_iff.1 hx)

theorem conforms_set_perm (t : Ty) (xs ys : Vals) (h : xs.toList.Perm ys.toList) :
    conforms E (.set t) (.set xs) = conforms E (.set t) (.set ys) := by
  rw [Bool.eq_iff_iff, conforms_set_iff, conforms_set_iff]
  constructor
  · intro hx y hy; exact hx y (h.mem_iff.2 hy)
  · intro hy x hx; exact hy x (h.mem_iff.1 hx)

/-- **later_element_checked.** Whatever precedes it (any number of conforming elements of the same class) and
whatever follows it, an element of an accepted list conforms itself. -/
theorem later_element_checked (t : Ty) (pre post : List Val) (x : Val)
    (h : conforms E (.list t) (.list (Vals.ofList (pre ++ x :: post))) = true) : conforms E t x = true := by
  rw [conforms_list_iff, toList_ofList] at h
  exact h x (by simp)

/-! ## one non-conforming leaf at any depth -/

/-- there is a position inside `v` — under list / set elements, dict keys, dict values, at any depth; for a union:
under both alternatives — at which a sub-value does not conform to the corresponding part of the annotation -/
inductive BadAt (E : Env) : Ty → Val → Prop
  | leaf {t : Ty} {v : Val} : conforms E t v = false → BadAt E t v
  | listElem {t : Ty} {xs : Vals} {x : Val} : x ∈ xs.toList → BadAt E t x → BadAt E (.list t) (.list xs)
  | setElem {t : Ty} {xs : Vals} {x : Val} : x ∈ xs.toList → BadAt E t x → BadAt E (.set t) (.set xs)
  | dictKey {kt vt : Ty} {kvs : KVs} {k v : Val} : (k, v) ∈ kvs.toList → BadAt E kt k → BadAt E (.dict kt vt) (.dict kvs)
  | dictVal {kt vt : Ty} {kvs : KVs} {k v : Val} : (k, v) ∈ kvs.toList → BadAt E vt v → BadAt E (.dict kt vt) (.dict kvs)
  | union {a b : Ty} {v : Val} : BadAt E a v → BadAt E b v → BadAt E (.union a b) v

/-- **badAt_not_conforms.** One non-conforming leaf anywhere makes the whole value non-conforming — no matter how
many conforming neighbours (of the same class or not) it has, before or after it, on any level. -/
theorem badAt_not_conforms {t : Ty} {v : Val} (h : BadAt E t v) : conforms E t v = false := by
  induction h with
  | leaf h => exact h
  | listElem hx _ ih =>
    rw [Bool.eq_false_iff]
    intro hc
    have := (conforms_list_iff E _ _).1 hc _ hx
    rw [ih] at this; cases this
  | setElem hx _ ih =>
    rw [Bool.eq_false_iff]
    intro hc
    have := (conforms_set_iff E _ _).1 hc _ hx
    rw [ih] at this; cases this
  | dictKey hx _ ih =>
    rw [Bool.eq_false_iff]
    intro hc
    have := ((conforms_dict_iff E _ _ _).1 hc _ hx).1
    rw [ih] at this; cases this
  | dictVal hx _ ih =>
    rw [Bool.eq_false_iff]
    intro hc
    have := ((conforms_dict_iff E _ _ _).1 hc _ hx).2
    rw [ih] at this; cases this
  | union _ _ iha ihb => rw [conforms, iha, ihb]; rfl

/-- … and that is the only way not to conform -/
theorem badAt_iff (t : Ty) (v : Val) : BadAt E t v ↔ conforms E t v = false :=
  ⟨badAt_not_conforms E, BadAt.leaf⟩

/-! ## every route rejects it, no reachable state holds it -/

/-- **nested_bad_value_rejected.** When the value `with_<a>` is about to store has ONE non-conforming leaf at any
depth — e.g. `(2, 0)`-shaped: a conforming element first, then a non-conforming one of the same class, inside
`Optional[List[V]]` — the call raises TypeError and the receiver is as it was. -/
theorem nested_bad_value_rejected (n : Nat) (recv : Val) (a : Nat) (sp : AttrSpec) (v pv : Val) (kw : Kw) (i : Bool)
    (hsp : specOf E recv a = some sp) (hk : kwOk E sp.ty (kw.map (·.1)) = true)
    (hpv : prepareAttrValue E n recv sp v kw = .ok pv) (hns : pv.isSent = false)
    (hbad : BadAt E sp.ty pv) :
    run E n recv { op := .withA a v kw, inplace := i } = ⟨recv, .raised .typeError⟩ :=
  SpecVerif.Props.C03.bad_value_rejected E n recv a sp v pv kw i hsp hk hpv hns (badAt_not_conforms E hbad)

/-- the same for `obj.a = v` -/
theorem nested_bad_value_rejected_setattr (n : Nat) (recv : Val) (a : Nat) (sp : AttrSpec) (v pv : Val)
    (hsp : specOf E recv a = some sp) (hpv : prepareAttrValue E n recv sp v [] = .ok pv)
    (hns : pv.isSent = false) (hbad : BadAt E sp.ty pv) :
    run E n recv { op := .setattr a v } = ⟨recv, .raised .typeError⟩ :=
  SpecVerif.Props.C03.bad_value_rejected_setattr E n recv a sp v pv hsp hpv hns (badAt_not_conforms E hbad)

/-- **nested_bad_item_rejected.** An item of a list attribute (`List[Set[V]]`, `List[List[V]]`) with one
non-conforming leaf inside — given, produced by the item preparer or by a transform — is refused by the checking
inserter of every sequence helper. -/
theorem nested_bad_item_rejected (t : Ty) (xs : List Val) (idx : Option Int) (item : Val) (ins : Bool)
    (hbad : BadAt E t item) : seqInsert E t xs idx item ins = .error .valueError :=
  SpecVerif.Props.C03.bad_element_rejected E t xs idx item ins (badAt_not_conforms E hbad)

/-- the same for the value (`Dict[str, List[V]]`) or the key of a dict attribute -/
theorem nested_bad_dict_entry_rejected (kt vt : Ty) (kvs : KVs) (k it : Val)
    (hbad : BadAt E vt it ∨ BadAt E kt k) : mapInsert E kt vt kvs k it = .error .valueError :=
  SpecVerif.Props.C03.bad_dict_entry_rejected E kt vt kvs k it
    (hbad.elim (fun h => Or.inl (badAt_not_conforms E h)) (fun h => Or.inr (badAt_not_conforms E h)))

/-- … and for a set attribute -/
theorem nested_bad_set_element_rejected (t : Ty) (xs : List Val) (index : Option Val) (it : Val)
    (hbad : BadAt E t it) : setInsert E t xs index it = .error .valueError :=
  SpecVerif.Props.C03.bad_set_element_rejected E t xs index it (badAt_not_conforms E hbad)

/-- **wellTyped_no_bad_position.** In a well-typed instance (hence, by `wellTyped_reachable`, in every reachable
state) no managed attribute that is set has a non-conforming leaf at any depth. -/
theorem wellTyped_no_bad_position (c : Nat) (fs : Flds) (a : Nat) (sp : AttrSpec) (h : WellTyped E (.inst c fs))
    (hsp : E.attr? c a = some sp) : fs.get a = MISSING ∨ ¬ BadAt E sp.ty (fs.get a) := by
  rcases SpecVerif.Props.C03.wellTyped_attr_check_type E c fs a sp h hsp with h' | h'
  · exact Or.inl h'
  · refine Or.inr (fun hb => ?_)
    rw [badAt_not_conforms E hb] at h'; cases h'

/-- every reachable state, spelled out -/
theorem reachable_no_bad_position (hE : EnvOK E) (hC : SpecVerif.Props.C03.ClassesOK E) (c : Nat) (fs : Flds)
    (h : Reachable E (SpecVerif.Props.C03.RouteOK E) (.inst c fs)) (a : Nat) (sp : AttrSpec)
    (hsp : E.attr? c a = some sp) : fs.get a = MISSING ∨ ¬ BadAt E sp.ty (fs.get a) :=
  wellTyped_no_bad_position E c fs a sp (SpecVerif.Props.C03.wellTyped_reachable E hE hC _ h) hsp

/-! ## non-vacuity -/

/-- validator 0: an int greater than 0 (`bounded(int, gt=0)`).
`a0 : Optional[List[V]]`, `a1 : Dict[str, List[V]]`, `a2 : List[Set[V]]` -/
def posPred : Nat → Val → Bool
  | 0, .sc (.int n) => decide (0 < n)
  | _, _ => false

def VT : Ty := .valid .int 0

def En : Env :=
  { classes := [{ id := 0,
                  attrs := [{ name := 0, ty := .union (.list VT) .none, default := some NONE, classAttr := some NONE },
                            { name := 1, ty := .dict .str (.list VT) },
                            { name := 2, ty := .list (.set VT) }],
                  initOrder := [0, 1, 2] }],
    prep := fun _ _ v => v,
    pred := posPred }

def i (n : Int) : Val := .sc (.int n)
def l20 : Val := .list (.cons (i 2) (.cons (i 0) .nil))       -- conforming first, then non-conforming: `[2, 0]`
def l02 : Val := .list (.cons (i 0) (.cons (i 2) .nil))
def l23 : Val := .list (.cons (i 2) (.cons (i 3) .nil))
def recvN : Val := .inst 0 (.cons 0 NONE (.cons 1 MISSING (.cons 2 MISSING .nil)))

example : construct En 8 0 [] = .ok recvN := by decide
example : WellTyped En recvN := by unfold WellTyped; decide

/-- `[2, 0]` has a bad position (the second element), under the list alternative of `Optional[List[V]]` -/
example : BadAt En (.union (.list VT) .none) l20 :=
  .union (.listElem (x := i 0) (by simp [l20, Vals.toList]) (.leaf (by decide))) (.leaf (by decide))

example : conforms En (.union (.list VT) .none) l23 = true := by decide
example : conforms En (.union (.list VT) .none) l20 = false := by decide
example : conforms En (.union (.list VT) .none) l02 = false := by decide

/-- every whole-attribute route refuses `[2, 0]` and stores nothing; `[2, 3]` is stored -/
example : step En 8 recvN (.api { op := .withA 0 l20 [] }) = ⟨recvN, .raised .typeError⟩ := by decide
example : step En 8 recvN (.api { op := .setattr 0 l20 }) = ⟨recvN, .raised .typeError⟩ := by decide
example : step En 8 recvN (.api { op := .transformA 0 (some fun _ => l20) [], inplace := true })
    = ⟨recvN, .raised .typeError⟩ := by decide
example : step En 8 recvN (.api { op := .update MISSING [(0, l20)] }) = ⟨recvN, .raised .typeError⟩ := by decide
example : construct En 8 0 [(0, l20)] = .error .typeError := by decide
example : (step En 8 recvN (.api { op := .withA 0 l23 [], inplace := true })).recv.getAttr 0 = l23 := by decide
/-- the element helpers of `Dict[str, List[V]]` and `List[Set[V]]`: the item `[2, 0]` / `{2, 0}` is refused -/
example : step En 8 recvN (.elem 1 (.mapWith (.sc (.str 100)) l20) true true) = ⟨recvN, .raised .valueError⟩ := by decide
example : step En 8 recvN (.elem 2 (.seqWith (.set (.cons (i 2) (.cons (i 0) .nil))) MISSING false) true true)
    = ⟨recvN, .raised .valueError⟩ := by decide
example : (step En 8 recvN (.elem 1 (.mapWith (.sc (.str 100)) l23) true true)).recv.getAttr 1
    = .dict (.cons (.sc (.str 100)) l23 .nil) := by decide

end SpecVerif.Props.C03Nested
