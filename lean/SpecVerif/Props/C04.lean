import SpecVerif.Proofs.HeapC04
import SpecVerif.Props.C01
/-!
# C04 — an operation that raises leaves every pre-existing object unchanged

Property theorems only (the atomicity logic `Tri` / `Inv` and one lemma per
in-place model function are in `Proofs/HeapC04.lean`; the frame logic it builds
on is in `Proofs/Heap.lean` / `Proofs/HeapFrame.lean`).  They are about the
executable definitions of `Model/Heap.lean` / `Model/Inst.lean`.

Quantification: every class table without a class declared `do_not_copy=True`
(`NoClassDnc`), **every** heap (no reachability assumption), **every** public
operation (in place or not, any receiver, any arguments: ill-typed values,
unknown attributes, missing items, frozen receivers, dangling references are
just values of `op`), every callback fault plan `φ` (which invocation of which
user callback raises).  C04's fault model is callback and argument faults, not
crash points, so the crash budget is `none`.

Why it holds: copy-on-write calls never touch a pre-existing object (C01);
`__setattr__` / `__delattr__` / the in-place scalar helpers validate first and
commit with one write after which nothing can raise; in-place `update` /
`transform` / `reset` run inside `_rollback_on_error`, which restores the
receiver's `__dict__` (the only old object they write); the in-place element
helpers commit with one write to the collection node, and the `mutate_attr`
that follows cannot raise because its only guards (frozen, instance) were
already passed before the write.
-/
set_option linter.unusedSectionVars false
set_option linter.unusedVariables false
namespace SpecVerif.Props.C04
open SpecVerif.Py SpecVerif.Heap SpecVerif.Props.C01

/-- **raise_is_noop**: if a public operation raises (bad argument or callback
fault), every object that existed before the call is exactly what it was. -/
theorem raise_is_noop (X₀ : Ctx) (hX : NoClassDnc X₀) (h : Heap) (op : Op)
    (φ : List (CbKind × Nat)) (e : Exn)
    (he : (step X₀.close h op φ none).1 = .error e) :
    ∀ i, i < h.length → (step X₀.close h op φ none).2.heap[i]? = h[i]? := by
  obtain ⟨_, herr⟩ := runOp_tri (H := h) X₀.close (noClassDnc_close X₀ hX)
    (fun _ => makeSafe_close X₀ hX) op (start h φ none) ⟨rfl, rfl⟩
  exact (herr e he).frame

/-- The same as a statement about the heap as a whole: after a raise the old
heap is a prefix of the new one (only objects allocated during the failed call
were added). -/
theorem raise_keeps_heap_prefix (X₀ : Ctx) (hX : NoClassDnc X₀) (h : Heap) (op : Op)
    (φ : List (CbKind × Nat)) (e : Exn)
    (he : (step X₀.close h op φ none).1 = .error e) :
    (step X₀.close h op φ none).2.heap.take h.length = h := by
  apply List.ext_getElem?
  intro i
  rw [List.getElem?_take]
  split
  · exact raise_is_noop X₀ hX h op φ e he i ‹_›
  · rw [List.getElem?_eq_none (by omega)]

/-- The receiver in particular: the node of the receiver of a failed in-place
call is the node it had. -/
theorem raise_keeps_receiver (X₀ : Ctx) (hX : NoClassDnc X₀) (h : Heap) (op : Op)
    (φ : List (CbKind × Nat)) (e : Exn) (i : Nat) (n : Node)
    (hr : op.receiver = .obj i) (hn : h[i]? = some n)
    (he : (step X₀.close h op φ none).1 = .error e) :
    (step X₀.close h op φ none).2.heap[i]? = some n := by
  rw [raise_is_noop X₀ hX h op φ e he i (lt_of_getElem?_eq_some hn)]
  exact hn

/-! ## Non-vacuity: concrete failing (and succeeding) in-place calls

`T1`, `X1`, `h1` are those of `Props/C01.lean`: `class C0: a0: int = 1;
a1: List[int] = [1, 2]`, `h1 = [<default list>, C0(a0=5, a1=#2), [1, 2]]`. -/

/-- `v.a0 = "s"` raises TypeError ... -/
example : (step X1 h1 (.setattr (.obj 1) 0 (.sc (.str 1))) [] none).1
    = .error (.py .typeError) := by decide
/-- ... and the heap is the start heap. -/
example : (step X1 h1 (.setattr (.obj 1) 0 (.sc (.str 1))) [] none).2.heap = h1 := by decide

/-- `v.a0 = 7` succeeds and changes the receiver in place. -/
example : (step X1 h1 (.setattr (.obj 1) 0 (.sc (.int 7))) [] none).1 = .ok (.obj 1) := by decide
example : (step X1 h1 (.setattr (.obj 1) 0 (.sc (.int 7))) [] none).2.heap[1]?
    = some (.inst 0 false [(0, .sc (.int 7)), (1, .obj 2)]) := by decide

/-- `v.update(a0=7, a1=3, _inplace=True)`: the first keyword is applied (a write
to the receiver is logged), the second is ill-typed and raises, the rollback
restores the receiver: the old heap is a prefix of the final one. -/
example : (step X1 h1 (.update (.obj 1) [(0, .sc (.int 7)), (1, .sc (.int 3))] true) [] none).1
    = .error (.py .typeError) := by decide
example : Ev.write 1 ∈
    (step X1 h1 (.update (.obj 1) [(0, .sc (.int 7)), (1, .sc (.int 3))] true) [] none).2.trace := by
  decide
example : (step X1 h1 (.update (.obj 1) [(0, .sc (.int 7)), (1, .sc (.int 3))] true) [] none).2.heap.take 3
    = h1 := by decide
/-- ... while the valid `v.update(a0=7, _inplace=True)` changes the receiver. -/
example : (step X1 h1 (.update (.obj 1) [(0, .sc (.int 7))] true) [] none).2.heap[1]?
    = some (.inst 0 false [(0, .sc (.int 7)), (1, .obj 2)]) := by decide

/-- `v.transform(a0=inc, a1=inc, _inplace=True)`: `a0` is incremented in place,
then `inc` raises on the list, and the receiver is rolled back. -/
example : (step X1 h1 (.transform (.obj 1) [(0, .inc), (1, .inc)] true) [] none).1
    = .error (.py .typeError) := by decide
example : (step X1 h1 (.transform (.obj 1) [(0, .inc), (1, .inc)] true) [] none).2.heap[1]?
    = h1[1]? := by decide

/-- `v.transform_a1_item(0, inc, _inplace=True)` whose callback raises (fault
plan: first `transform` callback fails): RuntimeError, heap unchanged ... -/
example : (step X1 h1 (.elem (.obj 1) 1 (.tr (.sc (.int 0)) .inc (some true) []) true)
    [(.transform, 1)] none).1 = .error (.py .runtimeError) := by decide
example : (step X1 h1 (.elem (.obj 1) 1 (.tr (.sc (.int 0)) .inc (some true) []) true)
    [(.transform, 1)] none).2.heap = h1 := by decide
/-- ... and without the fault it edits the live list `#2` in place. -/
example : (step X1 h1 (.elem (.obj 1) 1 (.tr (.sc (.int 0)) .inc (some true) []) true)
    [] none).2.heap[2]? = some (.list [.sc (.int 2), .sc (.int 2)]) := by decide
/-- `v.with_a1_item("s", _inplace=True)`: ill-typed item, ValueError, heap unchanged. -/
example : (step X1 h1 (.elem (.obj 1) 1 (.add (.sc (.str 1)) (.sc .missing) false []) true)
    [] none).1 = .error (.py .valueError) := by decide
example : (step X1 h1 (.elem (.obj 1) 1 (.add (.sc (.str 1)) (.sc .missing) false []) true)
    [] none).2.heap = h1 := by decide

/-- A frozen class: `@spec_class(frozen=True) class F: xs: List[int]`, with an
instance `#0` holding the list `#1`. -/
def T2 : List ClassDecl :=
  [{ attrs := [{ name := 0, kind := .listInt, owner := 0 }], frozen := true }]
def X2₀ : Ctx := { T := T2 }
def h2 : Heap := [.inst 0 false [(0, .obj 1)], .list [.sc (.int 1)]]

example : noClassDncB T2 = true := by decide
/-- `f.with_x(9, _inplace=True)` on the frozen instance raises before the list is touched. -/
example : (step X2₀.close h2 (.elem (.obj 0) 0 (.add (.sc (.int 9)) (.sc .missing) false []) true)
    [] none).1 = .error (.py .frozenInstanceError) := by decide
/-- ... which is an instance of the theorem. -/
example : ∀ i, i < h2.length →
    (step X2₀.close h2 (.elem (.obj 0) 0 (.add (.sc (.int 9)) (.sc .missing) false []) true)
      [] none).2.heap[i]? = h2[i]? :=
  raise_is_noop X2₀ (noClassDnc_of_check X2₀ (by decide)) h2 _ [] (.py .frozenInstanceError) (by decide)

end SpecVerif.Props.C04
