import SpecVerif.Proofs.C05
import SpecVerif.Proofs.C05Ov
import SpecVerif.Proofs.C05Decl
/-!
# C05 — scalar and top-level helpers compute exactly the documented new state

Property theorems only (helper lemmas: `Proofs/C05.lean`). Every theorem is
about the executable definitions of `Model/C05.lean` that the correspondence
check runs against `spec_classes`: `run` (the implementation model: the eight
steps of `mutate_value`, `prepare_attr_value`, `mutate_attr`, the generated
`__init__/__setattr__/__delattr__` and the helper methods) and
`Spec.Doc.apply` (the transcription of the documentation).

Quantification: every class table `E.classes` (any annotations, defaults,
preparer assignment, keys, subclass relations), every preparer pool `E.prep`
(arbitrary pure total functions of the instance and the value), every
transform (arbitrary pure total functions), every receiver state, every
argument value, every flag combination, every amount of fuel.
-/
set_option linter.unusedSectionVars false
set_option linter.unusedSimpArgs false
set_option linter.unusedVariables false
namespace SpecVerif.Props.C05
open SpecVerif.Py SpecVerif.C05 SpecVerif.C05.Proofs

variable (E : Env)

/-! ## assignment of a nested attribute is the documented assignment -/

/-- `setattr(obj, a, v)` on a spec instance (the primitive `Spec.merge` is built from) stores
the prepared, type-checked value: `obj[a := prepared v]`. -/
theorem setAttrV_is_assign (m c : Nat) (fs : Flds) (a : Nat) (v : Val) (sp : AttrSpec)
    (ha : E.attr? c a = some sp) (hok : Spec.AssignOk E sp (.inst c fs) v) :
    setAttrV E (m+3) false (.inst c fs) a v = Spec.assignV E m (.inst c fs) sp v := by
  rw [setAttrV]
  simp only [ha]
  rw [prepareAttrValue_plain E m _ sp v hok.1 hok.2]
  rfl

/-- Explicit form for a scalar attribute: with no dict and no collection involved,
`obj.a = v` stores exactly `prep v` (and puts the dependants of `a` back at their defaults), or raises
TypeError when that does not conform. -/
theorem assign_scalar_explicit (m c : Nat) (fs : Flds) (a : Nat) (v : Val) (sp : AttrSpec)
    (ha : E.attr? c a = some sp) (hok : Spec.AssignOk E sp (.inst c fs) v)
    (hnd : Spec.isDict (Spec.prep E sp (.inst c fs) v) = false) (hnc : sp.ty.isCollection = false)
    (hns : (Spec.prep E sp (.inst c fs) v).isSent = false) :
    setAttrV E (m+3) false (.inst c fs) a v =
      if conforms E sp.ty (Spec.prep E sp (.inst c fs) v) then
        .ok (E.invalidate (.inst c (fs.set sp.name (Spec.prep E sp (.inst c fs) v))) sp.name)
      else .error .typeError := by
  rw [setAttrV_is_assign E m c fs a v sp ha hok]
  unfold Spec.assignV Spec.prepared Spec.castDict
  generalize hpv : Spec.prep E sp (.inst c fs) v = pv at *
  cases pv with
  | dict kvs => simp [Spec.isDict] at hnd
  | sc s => simp [hnc, mutateAttrV, hns, Val.setField]; split <;> simp_all
  | list xs => simp [hnc, mutateAttrV, hns, Val.setField]; split <;> simp_all
  | set xs => simp [hnc, mutateAttrV, hns, Val.setField]; split <;> simp_all
  | inst c' fs' => simp [hnc, mutateAttrV, hns, Val.setField]; split <;> simp_all

/-! ## refinement: the implementation computes the documented outcome -/

/-- **impl_refines_doc.** On every documented call (`Spec.Documented`: ordinary argument values,
no sentinel handed to a scalar helper — that is the open finding —, no dict of constructor
arguments together with keywords) the implementation returns / raises exactly what the
documentation says and leaves exactly the documented state on the receiver. -/
theorem impl_refines_doc (m : Nat) (recv : Val) (c : Call) (hdoc : Spec.Documented E m recv c) :
    run E (m+2) recv c = Spec.Doc.apply E m recv c := by
  unfold run Spec.Doc.apply
  cases hop : c.op with
  | withA a v kw =>
    simp only []
    cases hsp : specOf E recv a with
    | none => rfl
    | some sp =>
      simp only []
      have hD := hdoc; unfold Spec.Documented at hD; rw [hop] at hD
      obtain ⟨hD1, hD2⟩ := hD sp hsp
      clear hD hdoc
      unfold withAttr Spec.Doc.withA
      by_cases hk : kwOk E sp.ty (kw.map (·.1)) = true
      · simp only [hk, Bool.not_true, Bool.false_eq_true, if_false]
        by_cases hc : c.cond = true
        · simp only [hc, Bool.not_true, Bool.false_eq_true, if_false]
          by_cases hkw : kw = []
          · subst hkw
            rcases hD1 rfl with hok | hu
            · rw [prepareAttrValue_plain E m recv sp v hok.1 hok.2]
              simp only [hok.1, Bool.false_and, Bool.false_eq_true, if_false, List.isEmpty_nil, if_true]
              unfold Spec.assign
              cases Spec.prepared E m recv sp v <;> rfl
            · subst hu
              rw [prepareAttrValue_unchanged E (m+1) recv sp []]
              simp [Val.isSent, mutateAttr, lift, Spec.noop]
          · have hne : kw.isEmpty = false := by cases kw <;> simp_all
            obtain ⟨c', hty⟩ := kwOk_nonempty_spec E hkw hk
            have hcoll : sp.ty.isCollection = false := by rw [hty]; rfl
            by_cases hs : v.isSent = true
            · rcases sent_cases hs with h | h | h
              · subst h
                rw [prepareAttrValue_build E m recv sp _ kw c' hty (Or.inl rfl) hkw hk]
                simp only [hne, hty, Ty.kwClass]
                have : (MISSING : Val) ≠ UNCHANGED := by decide
                simp [Val.isSent, this]
                cases Spec.build E m c' kw <;> rfl
              · subst h
                rw [prepareAttrValue_build E m recv sp _ kw c' hty (Or.inr rfl) hkw hk]
                simp only [hne, hty, Ty.kwClass]
                have : (EMPTY : Val) ≠ UNCHANGED := by decide
                simp [Val.isSent, this]
                cases Spec.build E m c' kw <;> rfl
              · subst h
                rw [prepareAttrValue_unchanged E (m+1) recv sp kw]
                simp [Val.isSent, mutateAttr, lift, Spec.noop]
            · have hs' : v.isSent = false := by simpa using hs
              obtain ⟨hp, hd⟩ := hD2 hkw hs'
              rw [prepareAttrValue_merge E m recv sp v kw c' hty hs' hp hd]
              simp only [hs', Bool.false_and, Bool.false_eq_true, if_false, hne]
              cases Spec.merge E m (Spec.prep E sp recv v) kw <;> rfl
        · simp [hc, lift, Spec.noop]
      · simp [hk, lift]
  | updateA a v kw =>
    simp only []
    cases hsp : specOf E recv a with
    | none => rfl
    | some sp =>
      simp only []
      have hD := hdoc; unfold Spec.Documented at hD; rw [hop] at hD
      obtain ⟨hUk, hkv, hbase, hnest⟩ := hD sp hsp
      clear hD hdoc
      obtain ⟨hd, hm⟩ := hbase _ rfl
      unfold updateAttr Spec.Doc.updateA
      by_cases hk : kwOk E sp.ty (kw.map (·.1)) = true
      · simp only [hk, Bool.not_true, Bool.false_eq_true, if_false]
        by_cases hc : c.cond = true
        · simp only [hc, Bool.not_true, Bool.false_eq_true, if_false, Bool.false_or]
          by_cases hU : v = UNCHANGED
          · have hkw := hUk hU
            subst hU; subst hkw
            simp [Val.isSent, lift, Spec.noop]
          · have hkv' : kw = [] → v.isSent = false := by
              intro h; rcases hkv h with h' | h'
              · exact h'
              · exact absurd h' hU
            simp only [hU, decide_false, Bool.false_and, Bool.false_eq_true, if_false]
            rw [mutateValue_update E m recv sp v kw hU hk hkv' hd hm]
            have hnoop : (v.isSent && (kw.isEmpty || decide (v = UNCHANGED))) = false := by
              by_cases hs : v.isSent = true
              · have : kw.isEmpty = false := by
                  cases kw with
                  | nil => have := hkv' rfl; rw [hs] at this; cases this
                  | cons _ _ => rfl
                simp [hs, this, hU]
              · simp [hs]
            simp only [hU, decide_false] at hnoop
            simp only [hnoop, Bool.false_eq_true, if_false]
            cases hn : Spec.updateNested E m recv sp v kw with
            | error e => rfl
            | ok u =>
              simp only []
              obtain ⟨h1, h2⟩ := hnest u hn
              unfold withAttr
              simp only [List.map_nil, kwOk, List.isEmpty_nil, Bool.true_or, Bool.not_true, Bool.false_eq_true,
                if_false]
              rw [prepareAttrValue_plain E m recv sp u h1 h2]
              unfold Spec.assign
              cases Spec.prepared E m recv sp u <;> rfl
        · simp [hc, lift, Spec.noop]
      · simp [hk, lift]
  | transformA a f kt =>
    simp only []
    cases hsp : specOf E recv a with
    | none => rfl
    | some sp =>
      simp only []
      have hD := hdoc; unfold Spec.Documented at hD; rw [hop] at hD
      obtain ⟨hd, hm, hnest⟩ := hD sp hsp
      clear hD hdoc
      unfold transformAttr Spec.Doc.transformA
      by_cases hk : kwOk E sp.ty (kt.map (·.1)) = true
      · simp only [hk, Bool.not_true, Bool.false_eq_true, if_false]
        by_cases hc : c.cond = true
        · simp only [hc, Bool.not_true, Bool.false_eq_true, if_false]
          rw [mutateValue_transform E m recv sp f kt hd hm]
          cases hn : Spec.transformNested E m recv sp f kt with
          | error e => rfl
          | ok u =>
            simp only []
            unfold withAttr
            simp only [List.map_nil, kwOk, List.isEmpty_nil, Bool.true_or, Bool.not_true, Bool.false_eq_true,
              if_false]
            rcases hnest u hn with ⟨h1, h2⟩ | hu
            · rw [prepareAttrValue_plain E m recv sp u h1 h2]
              simp only [h1, Bool.false_eq_true, if_false]
              unfold Spec.assign
              cases Spec.prepared E m recv sp u <;> rfl
            · subst hu
              rw [prepareAttrValue_unchanged E (m+1) recv sp []]
              simp [Val.isSent, mutateAttr, lift, Spec.noop]
        · simp [hc, lift, Spec.noop]
      · simp [hk, lift]
  | resetA a =>
    simp only []
    cases hsp : specOf E recv a with
    | none => rfl
    | some sp =>
      simp only []
      have hD := hdoc; unfold Spec.Documented at hD; rw [hop] at hD
      have hD' := hD sp hsp
      clear hD hdoc
      unfold resetAttr Spec.Doc.resetA
      by_cases hc : c.cond = true
      · simp only [hc, Bool.not_true, Bool.false_eq_true, if_false]
        unfold delAttrV Spec.Doc.resetV
        by_cases hdm : sp.defaultVal = MISSING
        · simp only [hdm, if_true]
          split <;> rfl
        · simp only [hdm, if_false]
          obtain ⟨h1, h2⟩ := hD' hdm
          rw [prepareAttrValue_plain E m recv sp _ h1 h2]
          unfold Spec.assignV
          cases Spec.prepared E m recv sp sp.defaultVal with
          | error e => rfl
          | ok pv =>
            simp only []
            cases mutateAttrV E false recv sp pv <;> rfl
      · simp [hc, lift, Spec.noop]
  | setattr a v =>
    simp only []
    cases hsp : specOf E recv a with
    | none => rfl
    | some sp =>
      simp only []
      have hD := hdoc; unfold Spec.Documented at hD; rw [hop] at hD
      have hD' := hD sp hsp
      clear hD hdoc
      -- the receiver is an instance whose class owns `a`
      unfold specOf classOf at hsp
      cases recv with
      | inst c' fs =>
        simp only [Option.bind] at hsp
        rw [setAttrV]
        simp only [hsp]
        unfold Spec.Doc.withA
        simp only [List.map_nil, kwOk, List.isEmpty_nil, Bool.true_or, Bool.not_true, Bool.false_eq_true,
          if_false, if_true]
        rcases hD' with hok | hu
        · rw [prepareAttrValue_plain E m _ sp v hok.1 hok.2]
          simp only [hok.1, Bool.false_and, Bool.false_eq_true, if_false]
          unfold Spec.assign
          cases Spec.prepared E m (.inst c' fs) sp v with
          | error e => rfl
          | ok pv =>
            simp only [mutateAttrV, mutateAttr]
            by_cases h1 : pv.isSent = true
            · simp [h1, lift, Except.map]
            · by_cases h2 : conforms E sp.ty pv = true
              · simp [h1, h2, lift, Except.map]
              · simp [h1, h2, lift, Except.map]
        · subst hu
          rw [prepareAttrValue_unchanged E (m+1) _ sp []]
          simp [Val.isSent, mutateAttrV, lift, Spec.noop, Except.map]
      | sc s => simp [Option.bind] at hsp
      | list xs => simp [Option.bind] at hsp
      | set xs => simp [Option.bind] at hsp
      | dict kvs => simp [Option.bind] at hsp
  | delattr a =>
    simp only []
    cases hsp : specOf E recv a with
    | none => rfl
    | some sp =>
      simp only []
      have hD := hdoc; unfold Spec.Documented at hD; rw [hop] at hD
      have hD' := hD sp hsp
      clear hD hdoc
      unfold Spec.Doc.resetA
      simp only [Bool.not_true, Bool.false_eq_true, if_false]
      unfold delAttrV Spec.Doc.resetV
      by_cases hdm : sp.defaultVal = MISSING
      · simp only [hdm, if_true]
        split <;> simp [lift, Except.map, outcomeOf]
      · simp only [hdm, if_false]
        obtain ⟨h1, h2⟩ := hD' hdm
        rw [prepareAttrValue_plain E m recv sp _ h1 h2]
        unfold Spec.assignV
        cases Spec.prepared E m recv sp sp.defaultVal with
        | error e => rfl
        | ok pv =>
          simp only []
          generalize mutateAttrV E false recv sp pv = r
          cases r <;> rfl
  | update v kw =>
    simp only []
    unfold updateTop Spec.Doc.update
    by_cases hk : kwTopOk E recv (kw.map (·.1)) = true
    · simp only [hk, Bool.not_true, Bool.false_eq_true, if_false]
      by_cases hc : c.cond = true
      · simp only [hc, Bool.not_true, Bool.false_eq_true, if_false]
        by_cases hU : v = UNCHANGED
        · subst hU
          rw [mutateValue]
          simp [lift]
          rfl
        · rw [mutateValue_top_update E m recv v kw hU]
          simp only [hU, if_false]
          by_cases hs : v.isSent = true
          · have hv : v = MISSING ∨ v = EMPTY := by
              rcases sent_cases hs with h | h | h
              · exact Or.inl h
              · exact Or.inr h
              · exact absurd h hU
            simp only [hs, if_true]
            by_cases hkw : kw.isEmpty = true
            · have : Spec.merge E (m+1) recv kw = .ok recv := by simp [Spec.merge, hkw]
              rw [this]
              rcases hv with h | h <;> simp [h, hkw, lift, Spec.noop]
            · cases Spec.merge E (m+1) recv kw with
              | error e => simp [hkw, lift]
              | ok u => rcases hv with h | h <;> simp [h, hkw, lift] <;> decide
          · have hs' : v.isSent = false := by simpa using hs
            obtain ⟨h1, h2, _⟩ := ne_of_not_sent hs'
            simp only [hs', Bool.false_eq_true, if_false]
            cases Spec.merge E (m+1) v kw with
            | error e => simp [lift]
            | ok u => simp [h1, h2, hU, lift]
      · simp [hc, lift, Spec.noop]
    · simp [hk, lift]
  | transform f kt =>
    simp only []
    unfold transformTop Spec.Doc.transform
    by_cases hk : kwTopOk E recv (kt.map (·.1)) = true
    · simp only [hk, Bool.not_true, Bool.false_eq_true, if_false]
      by_cases hc : c.cond = true
      · simp only [hc, Bool.not_true, Bool.false_eq_true, if_false]
        rw [mutateValue_top_transform E m recv f kt]
        cases f with
        | some g =>
          simp only [applyOpt]
          cases Spec.mergeT E (m+1) (g recv) kt <;> rfl
        | none =>
          simp only [applyOpt]
          by_cases hkt : kt.isEmpty = true
          · have : kt = [] := by cases kt <;> simp_all
            subst this
            simp [Spec.mergeT, lift, Spec.noop, pure, Except.pure]
          · simp only [hkt, Bool.false_eq_true, if_false]
            cases Spec.mergeT E (m+1) recv kt <;> rfl
      · simp [hc, lift, Spec.noop]
    · simp [hk, lift]
  | reset =>
    simp only []
    have hD := hdoc; unfold Spec.Documented at hD; rw [hop] at hD
    unfold resetTop Spec.Doc.reset
    by_cases hc : c.cond = true
    · simp only [hc, Bool.not_true, Bool.false_eq_true, if_false]
      cases hcl : classOf recv with
      | none => rfl
      | some c' =>
        simp only []
        cases hcs : E.cls? c' with
        | none => rfl
        | some cs =>
          simp only []
          rw [resetAllV_eq E m cs.attrs (hD c' cs hcl hcs) recv]
    · simp [hc, Spec.noop]

/-! ## copy run vs in-place run -/

/-- the whole-object forms that hand back a value of their own (DESIGN.md §10 item 1):
`update(v, …)` with an ordinary `v` returns `v` (updated), `transform(f, …)` returns `f(self)` (transformed) -/
def returnsValue : Op → Bool
  | .update v _ => !v.isSent
  | .transform (some _) _ => true
  | _ => false

/-- `obj.a = v` and `del obj.a` have no copy form -/
def isHelper : Op → Bool
  | .setattr _ _ => false
  | .delattr _ => false
  | _ => true

/-- **inplace_commutes.** For every helper call: the copy run leaves the receiver as it was, and the
in-place run of the same call leaves on the receiver exactly the state the copy run returns and
returns the receiver itself (`Commutes`); when the copy run raises, so does the in-place run, with
the same class; when it is a no-op, so is the in-place run. The value-returning whole-object
forms give the identical outcome with either flag. -/
theorem inplace_commutes (n : Nat) (recv : Val) (c : Call) (hh : isHelper c.op = true) :
    let o₁ := run E n recv { c with inplace := false }
    let o₂ := run E n recv { c with inplace := true }
    Commutes recv o₁ o₂ ∨ (returnsValue c.op = true ∧ o₂ = o₁ ∧ o₁.recv = recv) := by
  unfold run
  cases hop : c.op with
  | withA a v kw =>
    simp only []
    cases specOf E recv a with
    | none => exact Or.inl (commutes_same_raise recv _)
    | some sp => exact Or.inl (commutes_withAttr E n recv sp v kw c.cond)
  | updateA a v kw =>
    simp only []
    cases specOf E recv a with
    | none => exact Or.inl (commutes_same_raise recv _)
    | some sp =>
      left
      simp only [updateAttr]
      by_cases hk : kwOk E sp.ty (kw.map (·.1)) = true
      · simp only [hk, Bool.not_true, Bool.false_eq_true, if_false]
        by_cases hc : (!c.cond || decide (v = UNCHANGED) && kw.isEmpty) = true
        · simp only [hc, if_true]; exact commutes_same_noop recv
        · simp only [hc, Bool.false_eq_true, if_false]
          cases mutateValue E n (E.getAttr recv sp.name) { new := v, ty := some sp.ty, attrs := kw } with
          | error e => exact commutes_same_raise recv e
          | ok u => exact commutes_withAttr E n recv sp u [] true
      · simp only [hk, Bool.not_false, if_true]; exact commutes_same_raise recv _
  | transformA a f kt =>
    simp only []
    cases specOf E recv a with
    | none => exact Or.inl (commutes_same_raise recv _)
    | some sp =>
      left
      simp only [transformAttr]
      by_cases hk : kwOk E sp.ty (kt.map (·.1)) = true
      · simp only [hk, Bool.not_true, Bool.false_eq_true, if_false]
        by_cases hc : c.cond = true
        · simp only [hc, Bool.not_true, Bool.false_eq_true, if_false]
          cases mutateValue E n (E.getAttr recv sp.name) { transform := f, ty := some sp.ty, attrTransforms := kt } with
          | error e => exact commutes_same_raise recv e
          | ok u => exact commutes_withAttr E n recv sp u [] true
        · simp only [hc, Bool.not_false, if_true]; exact commutes_same_noop recv
      · simp only [hk, Bool.not_false, if_true]; exact commutes_same_raise recv _
  | resetA a =>
    simp only []
    cases specOf E recv a with
    | none => exact Or.inl (commutes_same_raise recv _)
    | some sp =>
      left
      simp only [resetAttr]
      by_cases hc : c.cond = true
      · simp only [hc, Bool.not_true, Bool.false_eq_true, if_false]
        cases delAttrV E n recv sp with
        | error e => exact commutes_same_raise recv e
        | ok v => exact commutes_outcomeOf recv v
      · simp only [hc, Bool.not_false, if_true]; exact commutes_same_noop recv
  | setattr a v => rw [hop] at hh; cases hh
  | delattr a => rw [hop] at hh; cases hh
  | update v kw =>
    simp only [updateTop]
    by_cases hk : kwTopOk E recv (kw.map (·.1)) = true
    · simp only [hk, Bool.not_true, Bool.false_eq_true, if_false]
      by_cases hc : c.cond = true
      · simp only [hc, Bool.not_true, Bool.false_eq_true, if_false]
        cases mutateValue E n recv { new := v, attrs := kw } with
        | error e => exact Or.inl (commutes_same_raise recv e)
        | ok u =>
          simp only []
          by_cases h1 : (decide (v = UNCHANGED) || (decide (v = MISSING) || decide (v = EMPTY)) && kw.isEmpty) = true
          · simp only [h1, if_true]; exact Or.inl (commutes_same_noop recv)
          · simp only [h1, Bool.false_eq_true, if_false]
            by_cases h2 : (decide (v = MISSING) || decide (v = EMPTY)) = true
            · simp only [h2, if_true]; exact Or.inl (commutes_outcomeOf recv u)
            · simp only [h2, Bool.false_eq_true, if_false]
              right
              refine ⟨?_, by first | rfl | trivial, by first | rfl | trivial⟩
              simp only [returnsValue]
              cases hs : v.isSent with
              | false => rfl
              | true =>
                exfalso
                rcases sent_cases hs with h | h | h <;> simp [h] at h1 h2
      · simp only [hc, Bool.not_false, if_true]; exact Or.inl (commutes_same_noop recv)
    · simp only [hk, Bool.not_false, if_true]; exact Or.inl (commutes_same_raise recv _)
  | transform f kt =>
    simp only [transformTop]
    by_cases hk : kwTopOk E recv (kt.map (·.1)) = true
    · simp only [hk, Bool.not_true, Bool.false_eq_true, if_false]
      by_cases hc : c.cond = true
      · simp only [hc, Bool.not_true, Bool.false_eq_true, if_false]
        cases mutateValue E n recv { transform := f, attrTransforms := kt } with
        | error e => exact Or.inl (commutes_same_raise recv e)
        | ok u =>
          cases f with
          | some g => exact Or.inr ⟨rfl, rfl, rfl⟩
          | none =>
            simp only []
            by_cases h1 : kt.isEmpty = true
            · simp only [h1, if_true]; exact Or.inl (commutes_same_noop recv)
            · simp only [h1, Bool.false_eq_true, if_false]; exact Or.inl (commutes_outcomeOf recv u)
      · simp only [hc, Bool.not_false, if_true]; exact Or.inl (commutes_same_noop recv)
    · simp only [hk, Bool.not_false, if_true]; exact Or.inl (commutes_same_raise recv _)
  | reset =>
    left
    simp only [resetTop]
    by_cases hc : c.cond = true
    · simp only [hc, Bool.not_true, Bool.false_eq_true, if_false]
      cases classOf recv with
      | none => exact commutes_same_raise recv _
      | some c' =>
        simp only []
        cases E.cls? c' with
        | none => exact commutes_same_raise recv _
        | some cs =>
          simp only []
          cases hr : resetAllV E n recv cs.attrs with
          | mk v oe =>
            cases oe with
            | none => exact commutes_outcomeOf recv v
            | some e => exact commutes_same_raise recv e
    · simp only [hc, Bool.not_false, if_true]; exact commutes_same_noop recv

/-- **error_leaves_receiver.** A call that raises leaves the receiver as it was (copy-before-write,
roll-back of the in-place multi-attribute forms). -/
theorem error_leaves_receiver (n : Nat) (recv : Val) (c : Call) (e : Err)
    (h : (run E n recv c).ret = .raised e) : (run E n recv c).recv = recv := by
  unfold run at h ⊢
  cases hop : c.op with
  | reset =>
    rw [hop] at h
    simp only [resetTop] at h ⊢
    by_cases hc : c.cond = true
    · simp only [hc, Bool.not_true, Bool.false_eq_true, if_false] at h ⊢
      cases hcl : classOf recv with
      | none => rfl
      | some c' =>
        rw [hcl] at h; simp only [] at h ⊢
        cases hcs : E.cls? c' with
        | none => rfl
        | some cs =>
          rw [hcs] at h; simp only [] at h ⊢
          cases hr : resetAllV E n recv cs.attrs with
          | mk v oe =>
            rw [hr] at h
            cases oe with
            | some e' => rfl
            | none =>
              simp only [outcomeOf] at h
              cases hi : c.inplace <;> rw [hi] at h <;> simp at h
    · simp [hc]
  | withA a v kw =>
    rw [hop] at h; simp only [] at h ⊢
    cases hs : specOf E recv a with
    | none => rfl
    | some sp => rw [hs] at h; exact lift_raised_recv recv _ (good_withAttr E n recv sp v kw c.inplace c.cond) e h
  | updateA a v kw =>
    rw [hop] at h; simp only [] at h ⊢
    cases hs : specOf E recv a with
    | none => rfl
    | some sp => rw [hs] at h; exact lift_raised_recv recv _ (good_updateAttr E n recv sp v kw c.inplace c.cond) e h
  | transformA a f kt =>
    rw [hop] at h; simp only [] at h ⊢
    cases hs : specOf E recv a with
    | none => rfl
    | some sp => rw [hs] at h; exact lift_raised_recv recv _ (good_transformAttr E n recv sp f kt c.inplace c.cond) e h
  | resetA a =>
    rw [hop] at h; simp only [] at h ⊢
    cases hs : specOf E recv a with
    | none => rfl
    | some sp => rw [hs] at h; exact lift_raised_recv recv _ (good_resetAttr E n recv sp c.inplace c.cond) e h
  | setattr a v =>
    rw [hop] at h; simp only [] at h ⊢
    cases hs : specOf E recv a with
    | none => rfl
    | some sp => rw [hs] at h; exact lift_raised_recv recv _ (good_map_receiver _) e h
  | delattr a =>
    rw [hop] at h; simp only [] at h ⊢
    cases hs : specOf E recv a with
    | none => rfl
    | some sp => rw [hs] at h; exact lift_raised_recv recv _ (good_map_receiver _) e h
  | update v kw =>
    rw [hop] at h; simp only [] at h ⊢
    exact lift_raised_recv recv _ (good_updateTop E n recv v kw c.inplace c.cond) e h
  | transform f kt =>
    rw [hop] at h; simp only [] at h ⊢
    exact lift_raised_recv recv _ (good_transformTop E n recv f kt c.inplace c.cond) e h

/-! ## assignment, deletion -/

/-- **setattr_is_with.** `obj.a = v` is `obj.with_a(v, _inplace=True)` — same outcome, same
exception, for every value (sentinels included), every state, every fuel. -/
theorem setattr_is_with (n : Nat) (recv : Val) (a : Nat) (v : Val) (i cnd : Bool) :
    run E n recv { op := .setattr a v, inplace := i, cond := cnd }
      = run E n recv { op := .withA a v [], inplace := true, cond := true } := by
  unfold run
  simp only []
  cases hsp : specOf E recv a with
  | none => rfl
  | some sp =>
    simp only []
    unfold specOf classOf at hsp
    cases recv with
    | inst c fs =>
      simp only [Option.bind] at hsp
      rw [setAttrV]
      simp only [hsp, withAttr, List.map_nil, kwOk, List.isEmpty_nil, Bool.true_or, Bool.not_true,
        Bool.false_eq_true, if_false]
      cases prepareAttrValue E n (.inst c fs) sp v [] with
      | error e => rfl
      | ok pv =>
        simp only [mutateAttrV, mutateAttr]
        by_cases h1 : pv.isSent = true
        · simp [h1, lift, Except.map]
        · by_cases h2 : conforms E sp.ty pv = true
          · simp [h1, h2, lift, Except.map]
          · simp [h1, h2, lift, Except.map]
    | sc s => simp [Option.bind] at hsp
    | list xs => simp [Option.bind] at hsp
    | set xs => simp [Option.bind] at hsp
    | dict kvs => simp [Option.bind] at hsp

/-- **del_is_reset_inplace.** `del obj.a` is `obj.reset_a(_inplace=True)`. -/
theorem del_is_reset_inplace (n : Nat) (recv : Val) (a : Nat) (i cnd : Bool) :
    run E n recv { op := .delattr a, inplace := i, cond := cnd }
      = run E n recv { op := .resetA a, inplace := true, cond := true } := by
  unfold run
  simp only []
  cases specOf E recv a with
  | none => rfl
  | some sp =>
    simp only [resetAttr, Bool.not_true, Bool.false_eq_true, if_false]
    cases delAttrV E n recv sp <;> rfl

/-! ## keywords -/

/-- **with_keywords_is_construct.** `with_a(**kw)` on an attribute annotated with spec class `c` stores
the freshly constructed `c(**kw)` (MISSING keywords dropped), type checked, nothing else. -/
theorem with_keywords_is_construct (m : Nat) (recv : Val) (a : Nat) (sp : AttrSpec) (c : Nat) (kw : Kw)
    (i : Bool) (hsp : specOf E recv a = some sp) (hty : sp.ty = .spec c) (hne : kw ≠ [])
    (hk : kwOk E sp.ty (kw.map (·.1)) = true) :
    run E (m+2) recv { op := .withA a MISSING kw, inplace := i }
      = match construct E m c (kw.filter (fun kv => kv.2 != MISSING)) with
        | .error e => ⟨recv, .raised e⟩
        | .ok nested => lift recv (mutateAttr E recv sp nested i) := by
  unfold run
  simp only [hsp, withAttr, hk, Bool.not_true, Bool.false_eq_true, if_false]
  rw [prepareAttrValue_build E m recv sp _ kw c hty (Or.inl rfl) hne hk]
  unfold Spec.build
  cases construct E m c (kw.filter (fun kv => kv.2 != MISSING)) <;> rfl

/-- … and, when the attribute has no preparer, that is `with_a(c(**kw))`. -/
theorem with_keywords_eq_with_constructed (m : Nat) (recv : Val) (a : Nat) (sp : AttrSpec) (c : Nat) (kw : Kw)
    (i : Bool) (nested : Val) (hsp : specOf E recv a = some sp) (hty : sp.ty = .spec c) (hne : kw ≠ [])
    (hk : kwOk E sp.ty (kw.map (·.1)) = true) (hp : sp.prep = none)
    (hb : construct E m c (kw.filter (fun kv => kv.2 != MISSING)) = .ok nested) :
    run E (m+2) recv { op := .withA a MISSING kw, inplace := i }
      = run E (m+2) recv { op := .withA a nested [], inplace := i } := by
  rw [with_keywords_is_construct E m recv a sp c kw i hsp hty hne hk, hb]
  have hi := construct_isInst E hb
  have hns := isInst_not_sent hi
  obtain ⟨fs, rfl⟩ := hi
  unfold run
  simp only [hsp, withAttr, List.map_nil, kwOk, List.isEmpty_nil, Bool.true_or, Bool.not_true,
    Bool.false_eq_true, if_false]
  have hprep : Spec.prep E sp recv (.inst c fs) = .inst c fs := by simp [Spec.prep, hp]
  rw [prepareAttrValue_plain E m recv sp _ hns (by rw [hprep]; intro h; cases h)]
  simp [Spec.prepared, hprep, Spec.castDict, hty, Ty.isCollection]

/-- the result of a call as a value (or the exception) -/
def resultE (o : Outcome) : Except Err Val :=
  match o.ret with
  | .raised e => .error e
  | .receiver => .ok o.recv
  | .fresh v => .ok v

/-- **update_is_fold_with.** `update(**kw)` returns what the chain `with_a1(v1).with_a2(v2)…` returns
(and raises what it raises), keyword by keyword in the order given — preparers that read other
attributes see the earlier keywords already applied. (MISSING keywords are skipped by `update`
and are excluded here: `with_a(MISSING)` is the open finding.) -/
theorem update_is_fold_with (n c : Nat) (fs : Flds) (kw : Kw) (hne : kw ≠ [])
    (hk : kwTopOk E (.inst c fs) (kw.map (·.1)) = true) (hm : ∀ kv ∈ kw, kv.2 ≠ MISSING) :
    resultE (run E (n+2) (.inst c fs) { op := .update MISSING kw })
      = kw.foldlM (fun acc kv => resultE (run E n acc { op := .withA kv.1 kv.2 [] })) (.inst c fs) := by
  have hU : (MISSING : Val) ≠ UNCHANGED := by decide
  obtain ⟨cs, hcs, hall⟩ := kwOk_spec E hne (by simpa [kwTopOk, classOf] using hk)
  have hkwe : kw.isEmpty = false := by cases kw <;> simp_all
  -- left-hand side: the merge fold
  have hL : resultE (run E (n+2) (.inst c fs) { op := .update MISSING kw })
      = kw.foldlM (fun acc kv => setAttrV E (n+1) false acc kv.1 kv.2) (.inst c fs) := by
    unfold run
    simp only [updateTop, hk, Bool.not_true, Bool.false_eq_true, if_false]
    rw [mutateValue_top_update E n _ _ kw hU]
    simp only [Val.isSent, if_true, Spec.merge, hkwe, Bool.false_eq_true, if_false]
    have : (decide (Val.inst c fs = NONE) || decide (Val.inst c fs = MISSING)) = false := by
      simp
    simp only [this, Bool.false_eq_true, if_false]
    have hf : kw.foldlM (fun acc kv => if kv.2 = MISSING then Except.ok acc else setAttrV E (n+1) false acc kv.1 kv.2)
          (Val.inst c fs)
        = kw.foldlM (fun acc kv => setAttrV E (n+1) false acc kv.1 kv.2) (Val.inst c fs) := by
      apply foldlM_congr
      intro acc kv hkv
      simp [hm kv hkv]
    rw [hf]
    cases kw.foldlM (fun acc kv => setAttrV E (n+1) false acc kv.1 kv.2) (Val.inst c fs) with
    | error e => rfl
    | ok u => simp [lift, resultE, outcomeOf, hkwe]
  rw [hL]
  -- the two folds agree step by step on instances of class `c`
  apply foldlM_congr_inv (IsInst c)
  · exact ⟨fs, rfl⟩
  · intro acc kv hkv hacc
    obtain ⟨fs', rfl⟩ := hacc
    have hsome := hall kv hkv
    cases hattr : cs.attr? kv.1 with
    | none => rw [hattr] at hsome; cases hsome
    | some sp =>
      have hE : E.attr? c kv.1 = some sp := by simp [Env.attr?, hcs, hattr]
      rw [setAttrV]
      unfold run
      simp only [hE, specOf, classOf, Option.bind, withAttr, List.map_nil, kwOk, List.isEmpty_nil,
        Bool.true_or, Bool.not_true, Bool.false_eq_true, if_false]
      cases prepareAttrValue E n (.inst c fs') sp kv.2 [] with
      | error e => rfl
      | ok pv =>
        simp only [mutateAttrV, mutateAttr]
        by_cases h1 : pv.isSent = true
        · simp [h1, lift, resultE]
        · by_cases h2 : conforms E sp.ty pv = true
          · simp [h1, h2, lift, resultE]
          · simp [h1, h2, lift, resultE]
  · intro acc kv r hkv hacc hr
    unfold run at hr
    obtain ⟨fs', rfl⟩ := hacc
    have hsome := hall kv hkv
    cases hattr : cs.attr? kv.1 with
    | none => rw [hattr] at hsome; cases hsome
    | some sp =>
      have hE : E.attr? c kv.1 = some sp := by simp [Env.attr?, hcs, hattr]
      simp only [hE, specOf, classOf, Option.bind, withAttr, List.map_nil, kwOk, List.isEmpty_nil,
        Bool.true_or, Bool.not_true, Bool.false_eq_true, if_false] at hr
      cases hp : prepareAttrValue E n (.inst c fs') sp kv.2 [] with
      | error e => rw [hp] at hr; simp [lift, resultE] at hr
      | ok pv =>
        rw [hp] at hr
        simp only [mutateAttr] at hr
        by_cases h1 : pv.isSent = true
        · simp [h1, lift, resultE] at hr; subst hr; exact ⟨fs', rfl⟩
        · by_cases h2 : conforms E sp.ty pv = true
          · simp [h1, h2, lift, resultE] at hr; subst hr
            exact isInst_invalidate E _ (isInst_setField _ _ ⟨fs', rfl⟩)
          · simp [h1, h2, lift, resultE] at hr

/-! ## `invalidated_by`: a write puts the dependants back at their defaults — also a write of an equal value -/

/-- **write_resets_dependants.** After any successful `with_a(v)` (copy or in place; `obj.a = v` by
`setattr_is_with`), every attribute `d` of the receiver's class declared `invalidated_by=[…, a, …]` holds
its default in the resulting state — whatever the written value is, in particular when it equals the value
stored before. (`d`'s default conforms to its annotation or is absent.) -/
theorem write_resets_dependants (n c : Nat) (fs : Flds) (cs : ClassSpec) (a d : Nat) (spa spd : AttrSpec) (v pv : Val)
    (i : Bool) (hcs : E.cls? c = some cs)
    (hspa : E.attr? c a = some spa) (hspd : E.attr? c d = some spd)
    (hdep : spd.invalidatedBy.contains a = true) (hne : d ≠ a) (hmem : d ∈ cs.attrs.map (·.name))
    (hok : spd.defaultVal = MISSING ∨ conforms E spd.ty spd.defaultVal = true)
    (hpv : prepareAttrValue E n (.inst c fs) spa v [] = .ok pv) (hns : pv.isSent = false)
    (hconf : conforms E spa.ty pv = true) :
    (run E n (.inst c fs) { op := .withA a v [], inplace := i }).result.getAttr d = spd.defaultVal := by
  have hname : spa.name = a := by
    unfold Env.attr? at hspa
    rw [hcs] at hspa
    simp only [Option.bind, ClassSpec.attr?] at hspa
    simpa using List.find?_some hspa
  have hlen : cs.attrs.length = (cs.attrs.length - 1) + 1 := by
    have : 0 < cs.attrs.length := by
      cases hl : cs.attrs with
      | nil => rw [hl] at hmem; cases hmem
      | cons _ _ => simp
    omega
  have hres : (E.invalidate ((Val.inst c fs).setField spa.name pv) spa.name).getAttr d = spd.defaultVal := by
    unfold Env.invalidate
    simp only [Val.setField, hcs]
    rw [hlen, hname]
    exact (invalidateAux_resets E (cs.attrs.map (·.name)) _ _ ⟨_, rfl⟩ hspd hdep hne hmem hok).2
  unfold run
  simp only [specOf, classOf, Option.bind, hspa, withAttr, List.map_nil, kwOk, List.isEmpty_nil, Bool.true_or,
    Bool.not_true, Bool.false_eq_true, if_false, hpv, mutateAttr, hns, hconf]
  cases i <;> simpa [lift, Outcome.result] using hres

/-- a decided instance: `a1 : int = 10` is `invalidated_by=['a0']`; it was moved to 99; writing `a0 = 1` while
`a0` already is 1 puts `a1` back to 10 -/
def Einv : Env :=
  { classes := [{ id := 0,
                  attrs := [{ name := 0, ty := .int, default := some (.sc (.int 1)) },
                            { name := 1, ty := .int, default := some (.sc (.int 10)), invalidatedBy := [0] },
                            { name := 2, ty := .int, invalidatedBy := [1] }],
                  initOrder := [0, 1, 2] }],
    prep := fun _ _ v => v }

example :
    run Einv 3 (.inst 0 (.cons 0 (.sc (.int 1)) (.cons 1 (.sc (.int 99)) (.cons 2 (.sc (.int 5)) .nil))))
        { op := .withA 0 (.sc (.int 1)) [], inplace := true }
      = ⟨.inst 0 (.cons 0 (.sc (.int 1)) (.cons 1 (.sc (.int 10)) (.cons 2 MISSING .nil))), .receiver⟩ := by
  decide

/-! ## `_if=False`, UNCHANGED, MISSING -/

/-- the helper exists for the receiver and accepts the keywords given -/
def WellFormed (E : Env) (recv : Val) : Op → Prop
  | .withA a _ kw => ∃ sp, specOf E recv a = some sp ∧ kwOk E sp.ty (kw.map (·.1)) = true
  | .updateA a _ kw => ∃ sp, specOf E recv a = some sp ∧ kwOk E sp.ty (kw.map (·.1)) = true
  | .transformA a _ kt => ∃ sp, specOf E recv a = some sp ∧ kwOk E sp.ty (kt.map (·.1)) = true
  | .resetA a => ∃ sp, specOf E recv a = some sp
  | .setattr a _ => ∃ sp, specOf E recv a = some sp
  | .delattr a => ∃ sp, specOf E recv a = some sp
  | .update _ kw => kwTopOk E recv (kw.map (·.1)) = true
  | .transform _ kt => kwTopOk E recv (kt.map (·.1)) = true
  | .reset => True

/-- **if_false_noop.** `_if=False` makes every helper a no-op that returns the receiver, whatever
the other arguments. -/
theorem if_false_noop (n : Nat) (recv : Val) (op : Op) (i : Bool) (hh : isHelper op = true)
    (hw : WellFormed E recv op) :
    run E n recv { op := op, inplace := i, cond := false } = ⟨recv, .receiver⟩ := by
  unfold run
  cases op with
  | withA a v kw => obtain ⟨sp, hsp, hk⟩ := hw; simp [hsp, withAttr, hk, lift]
  | updateA a v kw => obtain ⟨sp, hsp, hk⟩ := hw; simp [hsp, updateAttr, hk, lift]
  | transformA a f kt => obtain ⟨sp, hsp, hk⟩ := hw; simp [hsp, transformAttr, hk, lift]
  | resetA a => obtain ⟨sp, hsp⟩ := hw; simp [hsp, resetAttr, lift]
  | setattr a v => cases hh
  | delattr a => cases hh
  | update v kw => simp only [WellFormed] at hw; simp [updateTop, hw, lift]
  | transform f kt => simp only [WellFormed] at hw; simp [transformTop, hw, lift]
  | reset => simp [resetTop]

/-- **unchanged_noop.** `with_a(UNCHANGED, …)` is a no-op returning the receiver, for every attribute
(collections included), whatever the keywords and flags … -/
theorem unchanged_noop (n : Nat) (recv : Val) (a : Nat) (sp : AttrSpec) (kw : Kw) (i cnd : Bool)
    (hsp : specOf E recv a = some sp) (hk : kwOk E sp.ty (kw.map (·.1)) = true) :
    run E (n+1) recv { op := .withA a UNCHANGED kw, inplace := i, cond := cnd } = ⟨recv, .receiver⟩ := by
  unfold run
  simp only [hsp, withAttr, hk, Bool.not_true, Bool.false_eq_true, if_false]
  cases cnd with
  | false => rfl
  | true =>
    simp only [Bool.not_true, Bool.false_eq_true, if_false]
    rw [prepareAttrValue_unchanged E n recv sp kw]
    simp [mutateAttr, Val.isSent, lift]

/-- … so is `obj.a = UNCHANGED` … -/
theorem unchanged_noop_setattr (n : Nat) (recv : Val) (a : Nat) (sp : AttrSpec)
    (hsp : specOf E recv a = some sp) :
    run E (n+1) recv { op := .setattr a UNCHANGED } = ⟨recv, .receiver⟩ := by
  rw [setattr_is_with]
  exact unchanged_noop E n recv a sp [] true true hsp (by simp [kwOk])

/-- … `update_a(UNCHANGED)` (any fuel) … -/
theorem unchanged_noop_update_attr (n : Nat) (recv : Val) (a : Nat) (sp : AttrSpec) (i cnd : Bool)
    (hsp : specOf E recv a = some sp) :
    run E n recv { op := .updateA a UNCHANGED [], inplace := i, cond := cnd } = ⟨recv, .receiver⟩ := by
  unfold run
  simp [hsp, updateAttr, kwOk, lift]

/-- … a transform that answers UNCHANGED … -/
theorem unchanged_noop_transform (n : Nat) (recv : Val) (a : Nat) (sp : AttrSpec) (f : Tr) (i : Bool)
    (hsp : specOf E recv a = some sp)
    (hf : mutateValue E (n+1) (E.getAttr recv sp.name) { transform := some f, ty := some sp.ty } = .ok UNCHANGED) :
    run E (n+1) recv { op := .transformA a (some f) [], inplace := i } = ⟨recv, .receiver⟩ := by
  unfold run
  simp only [hsp, transformAttr, List.map_nil, kwOk, List.isEmpty_nil, Bool.true_or, Bool.not_true,
    Bool.false_eq_true, if_false, hf, withAttr]
  rw [prepareAttrValue_unchanged E n recv sp []]
  simp [mutateAttr, Val.isSent, lift]

/-- … and `update(UNCHANGED, …)`. -/
theorem unchanged_noop_update (n : Nat) (recv : Val) (kw : Kw) (i cnd : Bool)
    (hk : kwTopOk E recv (kw.map (·.1)) = true) :
    run E (n+1) recv { op := .update UNCHANGED kw, inplace := i, cond := cnd } = ⟨recv, .receiver⟩ := by
  unfold run
  simp only [updateTop, hk, Bool.not_true, Bool.false_eq_true, if_false]
  cases cnd with
  | false => rfl
  | true =>
    simp only [Bool.not_true, Bool.false_eq_true, if_false]
    rw [mutateValue]
    simp [lift]

/-- a sentinel is given in the value position and nothing else -/
def MissingCall (c : Call) : Prop :=
  match c.op with
  | .withA _ v kw => (v = MISSING ∨ v = EMPTY) ∧ kw = []
  | .updateA _ v kw => (v = MISSING ∨ v = EMPTY) ∧ kw = []
  | .setattr _ v => v = MISSING ∨ v = EMPTY
  | .update v kw => (v = MISSING ∨ v = EMPTY) ∧ kw = []
  | _ => False

/-- The matcher of the open finding KF-C05-missing-constructs: a *scalar* helper (or an assignment)
handed MISSING / EMPTY / no argument. -/
def KF_C05 (c : Call) : Prop :=
  match c.op with
  | .withA _ v kw => (v = MISSING ∨ v = EMPTY) ∧ kw = []
  | .updateA _ v kw => (v = MISSING ∨ v = EMPTY) ∧ kw = []
  | .setattr _ v => v = MISSING ∨ v = EMPTY
  | _ => False

/-- The property's sentence about MISSING, at full strength. -/
def MissingNoopFull : Prop :=
  ∀ (E : Env) (n : Nat) (recv : Val) (c : Call), WellFormed E recv c.op → MissingCall c →
    run E (n+3) recv c = ⟨recv, .receiver⟩

/-- **missing_noop_partial.** Outside the finding's matcher, MISSING / EMPTY make the call a no-op
returning the receiver. -/
theorem missing_noop_partial (n : Nat) (recv : Val) (c : Call) (hw : WellFormed E recv c.op)
    (hm : MissingCall c) (hkf : ¬ KF_C05 c) : run E (n+1) recv c = ⟨recv, .receiver⟩ := by
  unfold MissingCall at hm
  unfold KF_C05 at hkf
  unfold run
  cases hop : c.op with
  | update v kw =>
    rw [hop] at hm hw
    simp only [WellFormed] at hw
    obtain ⟨hv, hkw⟩ := hm
    subst hkw
    simp only [updateTop, hw, Bool.not_true, Bool.false_eq_true, if_false]
    cases c.cond with
    | false => rfl
    | true =>
      have hU : v ≠ UNCHANGED := by rcases hv with h | h <;> (rw [h]; decide)
      cases n with
      | zero =>
        rw [mutateValue]
        simp only [hU, if_false]
        rw [mvValue_old _ _ hv rfl, mvConstruct_noTy E _ _ _ rfl]
        rcases hv with h | h <;> simp [h, mvAttrs_nil, mvTransform, applyOpt, mvAttrTransforms, lift, pure, Except.pure]
      | succ n =>
        rw [mutateValue_top_update E n recv v [] hU]
        rcases hv with h | h <;> simp [h, Spec.merge, lift, Val.isSent]
  | withA a v kw => rw [hop] at hm hkf; exact absurd hm hkf
  | updateA a v kw => rw [hop] at hm hkf; exact absurd hm hkf
  | setattr a v => rw [hop] at hm hkf; exact absurd hm hkf
  | transformA a f kt => rw [hop] at hm; cases hm
  | resetA a => rw [hop] at hm; cases hm
  | delattr a => rw [hop] at hm; cases hm
  | transform f kt => rw [hop] at hm; cases hm
  | reset => rw [hop] at hm; cases hm

/-- a MISSING keyword is skipped: `update(a=MISSING)` leaves the state alone (on a copy, or in place) -/
theorem missing_keyword_skipped (n : Nat) (recv : Val) (kw : Kw) (i : Bool)
    (hk : kwTopOk E recv (kw.map (·.1)) = true) (hne : kw ≠ []) (hall : ∀ kv ∈ kw, kv.2 = MISSING)
    (hr : recv ≠ NONE ∧ recv ≠ MISSING) :
    (run E (n+2) recv { op := .update MISSING kw, inplace := i }).result = recv
      ∧ (run E (n+2) recv { op := .update MISSING kw, inplace := i }).recv = recv := by
  have hU : (MISSING : Val) ≠ UNCHANGED := by decide
  have hkwe : kw.isEmpty = false := by cases kw <;> simp_all
  unfold run
  simp only [updateTop, hk, Bool.not_true, Bool.false_eq_true, if_false]
  rw [mutateValue_top_update E n recv _ kw hU]
  have hm : Spec.merge E (n+1) recv kw = .ok recv := by
    unfold Spec.merge
    simp only [hkwe, Bool.false_eq_true, if_false, hr.1, hr.2, decide_false, Bool.or_self]
    apply foldlM_skip
    intro acc kv hkv
    simp [hall kv hkv]
  simp only [Val.isSent, if_true, hm]
  cases i <;> simp [lift, outcomeOf, Outcome.result, hkwe]

/-! ## the finding, decided on the model that mirrors the code -/

/-- one class `C0` with `a0 : int = 5` and `a1 : List[int] = [1]`, no preparers -/
def Ew : Env :=
  { classes := [{ id := 0,
                  attrs := [{ name := 0, ty := .int, default := some (.sc (.int 5)), classAttr := some (.sc (.int 5)) },
                            { name := 1, ty := .list .int, default := some (.list (.cons (.sc (.int 1)) .nil)) }],
                  initOrder := [0, 1] }],
    prep := fun _ _ v => v }

/-- `C0(a0=7)` -/
def recvW : Val := .inst 0 (.cons 0 (.sc (.int 7)) (.cons 1 (.list (.cons (.sc (.int 1)) .nil)) .nil))

example : construct Ew 5 0 [(0, .sc (.int 7))] = .ok recvW := by decide

/-- `C0(a0=7).with_a0(MISSING)` returns a new object with `a0 == int() == 0` (what the code does) -/
theorem missing_constructs_value :
    run Ew 3 recvW { op := .withA 0 MISSING [] }
      = ⟨recvW, .fresh (.inst 0 (.cons 0 (.sc (.int 0)) (.cons 1 (.list (.cons (.sc (.int 1)) .nil)) .nil)))⟩ := by
  decide

/-- **missing_constructs_witness.** The full statement about MISSING does not hold of the
implementation model (which the correspondence ties to the code): finding KF-C05-missing-constructs. -/
theorem missing_constructs_witness : ¬ MissingNoopFull := by
  intro h
  have := h Ew 0 recvW { op := .withA 0 MISSING [] }
    ⟨_, rfl, by decide⟩ ⟨Or.inl rfl, rfl⟩
  revert this
  decide

/-- since fix 18d1613: UNCHANGED handed to a collection attribute keeps the collection … -/
example : run Ew 3 recvW { op := .withA 1 UNCHANGED [] } = ⟨recvW, .receiver⟩ := by decide

/-- … and `update_a(UNCHANGED)` hands back the receiver (the two former findings
KF-C05-unchanged-wipes-collection / KF-C05-sentinel-returns-copy; their failing inputs are in harness/corpus/C05). -/
example : run Ew 3 recvW { op := .updateA 0 UNCHANGED [] } = ⟨recvW, .receiver⟩ := by decide

/-! ## non-vacuity -/

/-- a documented call that changes the state: `C0(a0=7).with_a0(9)` -/
example : Spec.Documented Ew 1 recvW { op := .withA 0 (.sc (.int 9)) [] } := by
  intro sp hsp
  have : sp = { name := 0, ty := .int, default := some (.sc (.int 5)), classAttr := some (.sc (.int 5)) } := by
    have h : specOf Ew recvW 0 = some { name := 0, ty := .int, default := some (.sc (.int 5)), classAttr := some (.sc (.int 5)) } := by
      decide
    rw [h] at hsp; cases hsp; rfl
  subst this
  refine ⟨fun _ => Or.inl ⟨rfl, by decide⟩, fun h => absurd rfl h⟩

example : run Ew 3 recvW { op := .withA 0 (.sc (.int 9)) [] }
    = ⟨recvW, .fresh (.inst 0 (.cons 0 (.sc (.int 9)) (.cons 1 (.list (.cons (.sc (.int 1)) .nil)) .nil)))⟩ := by
  decide

/-- a non-conforming value raises and leaves the receiver -/
example : run Ew 3 recvW { op := .withA 0 (.sc (.str 100)) [], inplace := true } = ⟨recvW, .raised .typeError⟩ := by
  decide

/-- `update(a0=1, a1=[])` is well formed and succeeds (`update_is_fold_with`, `inplace_commutes`) -/
example : kwTopOk Ew recvW (([(0, Val.sc (.int 1)), (1, Val.list .nil)] : Kw).map (·.1)) = true := by decide
example : (run Ew 4 recvW { op := .update MISSING [(0, .sc (.int 1)), (1, .list .nil)], inplace := true }).ret
    = .receiver := by decide

/-- reset restores the class default -/
example : run Ew 3 recvW { op := .resetA 0 }
    = ⟨recvW, .fresh (.inst 0 (.cons 0 (.sc (.int 5)) (.cons 1 (.list (.cons (.sc (.int 1)) .nil)) .nil)))⟩ := by
  decide

/-! ## constructors that take `**kwargs` (`init_overflow_attr`) and the constructor-argument memo

`Model/C05Ov.lean`: `_get_function_args` with its per-function memo, and the recursive knot / the helpers over a
class table in which some classes collect extra constructor keywords. -/

section overflow
open SpecVerif.C05.Ov SpecVerif.C05.Ov.Proofs
variable (ov : OvMap)

/-- **args_memo_never_stale.** For every table of constructor signatures and every history of
`_get_function_args` calls starting from an empty memo, every answer is what the signature says about the keywords
of THAT call (`argsOf`): nothing remembered from an earlier call — on the same or on another constructor, with the
same or with other keywords — changes an answer.  (The invariant is `MemoOK`: only signatures without `**kwargs`
are remembered, as their own parameter list.) -/
theorem args_memo_never_stale (sigs : Nat → Sig) (calls : List (Nat × List Nat)) :
    runArgs sigs [] calls = calls.map (fun c => argsOf (sigs c.1) c.2) :=
  runArgs_eq sigs calls [] (memoOK_nil sigs)

/-- … and from every memo a history can have produced (`MemoOK` is preserved by every call). -/
theorem args_memo_never_stale_from (sigs : Nat → Sig) (memo : Memo) (h : MemoOK sigs memo) (f : Nat)
    (attrs : List Nat) :
    (getFunctionArgs sigs memo f attrs).1 = argsOf (sigs f) attrs ∧ MemoOK sigs (getFunctionArgs sigs memo f attrs).2 :=
  ⟨getFunctionArgs_fst sigs memo f attrs h, getFunctionArgs_snd sigs memo f attrs h⟩

/-- **ctor_keywords_from_signature.** Step 4 of `mutate_value` (build a nested value from keywords): the
keywords handed to the constructor of spec class `c`, and the `used_attrs` that are not assigned afterwards, are
exactly the keywords of the call that `argsOf (ctorSig …)` names — all of them for a `**kwargs` constructor, the
managed attributes otherwise. -/
theorem ctor_keywords_from_signature (ctor : Nat → Kw → Except Err Val) (p : MV) (ty : Ty) (c : Nat) (cs : ClassSpec)
    (hty : p.ty = some ty) (hc : ty.ctor = .spec c) (hcs : E.cls? c = some cs) :
    Ov.mvConstruct E ov ctor p MISSING =
      (ctor c (p.attrs.filter (fun kv =>
          ((p.attrs.map (·.1)).filter (fun a => (argsOf (ctorSig E ov c) (p.attrs.map (·.1))).contains a)).contains kv.1
            && kv.2 != MISSING))).map
        (·, (p.attrs.map (·.1)).filter (fun a => (argsOf (ctorSig E ov c) (p.attrs.map (·.1))).contains a)) :=
  mvConstruct_missing_args E ov ctor p ty c cs hty hc hcs

/-- **ov_conservative.** Without overflow classes the overflow-aware model IS the model the other theorems of
this file are about: every call has the same outcome, every construction the same result. -/
theorem ov_conservative (hov : ∀ c, ov c = none) (n : Nat) (recv : Val) (c : Call) :
    Ov.run E ov n recv c = run E n recv c :=
  run_eq E ov hov n recv c

theorem ov_conservative_construct (hov : ∀ c, ov c = none) (n c : Nat) (kw : Kw) :
    Ov.construct E ov n c kw = construct E n c kw :=
  (knot_eq E ov hov n).2.2.2 c kw

/-- **with_keywords_builds_overflow.** `with_a(**kw)` (also `with_a(EMPTY, **kw)`) on an attribute annotated
with a spec class `c` whose constructor takes `**kwargs` stores the freshly constructed `c(**kw)` — built from
EVERY keyword of this call, whatever their names (MISSING keywords dropped) —, type checked, nothing else: no
keyword is assigned on the result afterwards. -/
theorem with_keywords_builds_overflow (m : Nat) (recv : Val) (a : Nat) (sp : AttrSpec) (c o : Nat) (cs : ClassSpec)
    (v : Val) (kw : Kw) (i : Bool) (hsp : specOf E recv a = some sp) (hty : sp.ty = .spec c) (ho : ov c = some o)
    (hcs : E.cls? c = some cs) (hv : v = MISSING ∨ v = EMPTY) :
    Ov.run E ov (m+2) recv { op := .withA a v kw, inplace := i }
      = match Ov.construct E ov m c (kw.filter (fun kv => kv.2 != MISSING)) with
        | .error e => ⟨recv, .raised e⟩
        | .ok nested => lift recv (mutateAttr E recv sp nested i) := by
  unfold Ov.run
  have hk : Ov.kwOk E ov sp.ty (kw.map (·.1)) = true := by
    simp [Ov.kwOk, hty, Ty.kwClass, ho, hcs]
  simp only [hsp, Ov.withAttr, hk, Bool.not_true, Bool.false_eq_true, if_false]
  rw [prepareAttrValue_build_overflow E ov m recv sp v kw c o hty ho hv]
  cases Ov.construct E ov m c (kw.filter (fun kv => kv.2 != MISSING)) <;> rfl

/-- **overflow_collects_extras.** The generated `__init__` of a class declared with `init_overflow_attr=<o>`
(`<o> : Dict[str, Any]`, no preparers): whenever it succeeds, `<o>` holds exactly the keywords of the call that name
no managed attribute (or name `<o>` itself), as a dict in call order. -/
theorem overflow_collects_extras (n c o : Nat) (cs : ClassSpec) (spo : AttrSpec) (kw : Kw) (r : Val)
    (hcs : E.cls? c = some cs) (ho : ov c = some o) (hspo : cs.attr? o = some spo)
    (hty : spo.ty = .dict .str .any) (hp : spo.prep = none) (hip : spo.itemPrep = none)
    (hr : Ov.construct E ov n c kw = .ok r) :
    r.getAttr o = .dict (kwDict (kw.filter (isExtra cs (some o)))) :=
  construct_overflow_attr E ov n c o cs spo kw r hcs ho hspo hty hp hip hr

end overflow

/-- `C1(a0: int = 1, **a5)` nested in `C0(a0: C1)` -/
def Eo : Env :=
  { classes := [{ id := 1,
                  attrs := [{ name := 0, ty := .int, default := some (.sc (.int 1)), classAttr := some (.sc (.int 1)) },
                            { name := 5, ty := .dict .str .any }],
                  initOrder := [0] },
                { id := 0, attrs := [{ name := 0, ty := .spec 1 }], initOrder := [0] }],
    prep := fun _ _ v => v }
def ovo : Ov.OvMap := fun c => if c = 1 then some 5 else none

/-- non-vacuity of `with_keywords_builds_overflow` / `overflow_collects_extras`: a first call with keywords
`a0, a40`, then — on the same classes — a second one with the other keywords `a41, a42`: each result is built
from the keywords of its own call -/
example : Ov.run Eo ovo 6 (.inst 0 .nil) { op := .withA 0 MISSING [(0, .sc (.int 7)), (40, .sc (.str 100))] }
    = ⟨.inst 0 .nil, .fresh (.inst 0 (.cons 0 (.inst 1 (.cons 0 (.sc (.int 7))
        (.cons 5 (.dict (.cons (.sc (.str 40)) (.sc (.str 100)) .nil)) .nil))) .nil))⟩ := by decide
example : Ov.run Eo ovo 6 (.inst 0 .nil) { op := .withA 0 MISSING [(41, .sc (.int 4)), (42, .sc (.int 2))] }
    = ⟨.inst 0 .nil, .fresh (.inst 0 (.cons 0 (.inst 1 (.cons 0 (.sc (.int 1))
        (.cons 5 (.dict (.cons (.sc (.str 41)) (.sc (.int 4)) (.cons (.sc (.str 42)) (.sc (.int 2)) .nil))) .nil))) .nil))⟩ := by
  decide
/-- the memo: a `**kwargs` constructor (1) answers with the keywords of each call, a fixed one (0) is remembered -/
example : Ov.runArgs (fun f => if f = 0 then .fixed [0, 1] else .varkw [0]) []
    [(1, [0, 40]), (0, [7]), (1, [41, 42]), (0, [0]), (1, [])] = [[0, 40], [0, 1], [41, 42], [0, 1], []] := by decide

/-! ## where the preparer of an attribute comes from (`Model/C05Decl.lean`)

`Decl.bootstrap` walks a class hierarchy root first as `spec_class.bootstrap` / `build_attr_spec` do, for one
attribute and one of its callbacks (preparer or item preparer), and yields the entry of the class table the theorems
above take as data (`AttrSpec.prep` / `AttrSpec.itemPrep`, `Res.entry`) and the callback the generated
`with_/update_/transform_<a>` helpers close over (`Res.helper`).  The theorems quantify over every hierarchy. -/

section declarations
open SpecVerif.C05.Decl SpecVerif.C05.Decl.Proofs

/-- **bootstrap_prep_closed_form.** For every hierarchy (any depth, any mix of spec and plain classes, any bodies):
`getattr(cls, "_prepare_<a>")` is the nearest method; the class-table entry is decided by the nearest spec class
that mentions the attribute — the nearest method at or above it, else (a mere re-default) the entry of its parent,
else the decorator registration on its own `Attr` object —; the closure of the helpers by the nearest spec class that
owns it. -/
theorem bootstrap_prep_closed_form (ls : List Layer) :
    (bootstrap ls).meth = nearestMethod ls.reverse
    ∧ (bootstrap ls).entry = entrySpec ls.reverse
    ∧ (bootstrap ls).helper = helperSpec ls.reverse := by
  have := bootstrap_closed ls.reverse
  rwa [List.reverse_reverse] at this

/-- **decorator_preparer_registered.** A callback registered with `@<a>.preparer` / `@<a>.item_preparer` on the
`Attr(...)` object of a spec class body is THE callback of the attribute — for that class and for every class below
that leaves the attribute alone (spec classes not mentioning it, plain subclasses with or without a new default) —
whenever no conventionally named method is defined at or above the declaring class: in the class table and for
the generated helpers alike. -/
theorem decorator_preparer_registered (above below : List Layer) (L : Layer) (p : Nat)
    (hs : L.spec = true) (hb : L.body = .attr (some p))
    (hm : ∀ M ∈ above ++ [L], M.method = none)
    (hbelow : ∀ M ∈ below, M.untouched = true) :
    (bootstrap (above ++ L :: below)).entry = some p ∧ (bootstrap (above ++ L :: below)).helper = some p := by
  obtain ⟨_, h2, h3⟩ := bootstrap_prep_closed_form (above ++ L :: below)
  have hrev : (above ++ L :: below).reverse = below.reverse ++ (L :: above.reverse) := by simp
  have hb' : ∀ M ∈ below.reverse, M.untouched = true := fun M hM => hbelow M (by simpa using hM)
  have hnm : nearestMethod (L :: above.reverse) = none :=
    nearestMethod_none _ (fun M hM => hm M (by
      simp only [List.mem_cons, List.mem_reverse] at hM
      simp only [List.mem_append, List.mem_singleton]
      rcases hM with h | h
      · exact Or.inr h
      · exact Or.inl h))
  rw [h2, h3, hrev, entrySpec_untouched_prefix _ _ hb', helperSpec_untouched_prefix _ _ hb']
  have hu : L.untouched = false := by simp [Layer.untouched, hs, hb]
  constructor
  · simp only [entrySpec, hu, hnm, hb, Body.deco, orElse]
    simp
  · simp only [helperSpec, hs, hb, Body.owns, hnm, Body.deco, orElse]
    simp

/-- **method_beats_decorator.** When a spec class mentions the attribute and a `_prepare_<a>` method is visible from
it, the nearest such method is the entry — whatever decorator its `Attr` object carries — for that class and every
class below that leaves the attribute alone. -/
theorem method_beats_decorator (above below : List Layer) (L : Layer) (q : Nat)
    (hu : L.untouched = false) (hq : nearestMethod (L :: above.reverse) = some q)
    (hbelow : ∀ M ∈ below, M.untouched = true) :
    (bootstrap (above ++ L :: below)).entry = some q := by
  obtain ⟨_, h2, _⟩ := bootstrap_prep_closed_form (above ++ L :: below)
  have hrev : (above ++ L :: below).reverse = below.reverse ++ (L :: above.reverse) := by simp
  have hb' : ∀ M ∈ below.reverse, M.untouched = true := fun M hM => hbelow M (by simpa using hM)
  rw [h2, hrev, entrySpec_untouched_prefix _ _ hb']
  simp only [entrySpec, hu, hq, orElse]
  simp

/-- **untouched_subclass_inherits.** A plain subclass, or a spec subclass that does not mention the attribute,
changes neither the entry nor the helpers' callback — also when it defines a method of the conventional name (the code
never looks at it). -/
theorem untouched_subclass_inherits (ls : List Layer) (L : Layer) (hu : L.untouched = true) :
    (bootstrap (ls ++ [L])).entry = (bootstrap ls).entry ∧ (bootstrap (ls ++ [L])).helper = (bootstrap ls).helper := by
  rw [bootstrap_snoc]
  obtain ⟨sp, body, method⟩ := L
  cases sp with
  | false => simp [step]
  | true => cases body <;> simp_all [Layer.untouched, step]

/-- the full statement: the generated helpers prepare with the callback `obj.a = v` prepares with -/
def HelperPreparesAsSetattrFull : Prop :=
  ∀ ls : List Layer, (bootstrap ls).helperPrep = (bootstrap ls).entry

/-- **helper_prepares_as_setattr.** Since /repo a169c24 (`with_attr` looks the `Attr` up on `type(self)`) the full
statement holds, for every hierarchy: `with_/update_/transform_<a>` prepare with the very entry `obj.a = v`, the
constructor, `reset_<a>` / `del` and `update()` prepare with — re-defaulting spec subclasses, overridden methods
and decorator registrations included. -/
theorem helper_prepares_as_setattr : HelperPreparesAsSetattrFull := fun _ => rfl

/-- legacy (the code before /repo a169c24 prepared with the callback of the helpers' CLOSURE, `Res.helper`) -/
def LegacyHelperClosureFull : Prop :=
  ∀ ls : List Layer, (bootstrap ls).helper = (bootstrap ls).entry

/-- **helper_prepares_as_setattr_partial** (legacy). The closure agrees with the entry in every hierarchy in which each
spec class that merely re-defaults the attribute (`a = 3`) finds, by `getattr`, the callback its inherited helpers
closed over (`coherent`). -/
theorem helper_prepares_as_setattr_partial (ls : List Layer) (hc : coherent ls = true) :
    (bootstrap ls).helper = (bootstrap ls).entry :=
  coherentFrom_helper_eq_entry ls {} rfl hc

/-- **helper_owner_spec_witness** (legacy counter-model). Before /repo a169c24 the statement was false of the code
(repaired finding KF-C05-helper-owner-spec): `_prepare_a` overridden by a spec subclass that also re-defaults `a` —
`obj.a = v` used the override, `with_a` the parent's method. -/
theorem helper_owner_spec_witness : ¬ LegacyHelperClosureFull := by
  intro h
  have := h [⟨true, .annotated, some 0⟩, ⟨true, .value, some 1⟩]
  revert this
  decide

example : bootstrap [⟨true, .annotated, some 0⟩, ⟨true, .value, some 1⟩] = { meth := some 1, entry := some 1, helper := some 0 } := by
  decide
/-- … where the helpers now prepare with the override, as `obj.a = v` does -/
example : (bootstrap [⟨true, .annotated, some 0⟩, ⟨true, .value, some 1⟩]).helperPrep = some 1 := by decide

/-- the full statement (the code's own comment: "Only the default … was overridden, so the rest of the inherited
configuration still applies"): the entry of a spec subclass that merely re-defaults the attribute is the `_prepare_`
method found by name from it, and otherwise the callback of its parent — however that was declared -/
def RedefaultKeepsCallbackFull (boot : List Layer → Res) : Prop :=
  ∀ (ls : List Layer) (L : Layer), L.spec = true → L.body = .value →
    (boot (ls ++ [L])).entry = orElse (orElse L.method (boot ls).meth) (boot ls).entry

/-- **redefault_keeps_callback.** Since /repo 62b86d6 the full statement holds, for every hierarchy. -/
theorem redefault_keeps_callback : RedefaultKeepsCallbackFull bootstrap := by
  intro ls L hs hb
  rw [bootstrap_snoc]
  obtain ⟨sp, body, method⟩ := L
  simp only at hs hb
  subst hs hb
  simp [step]

/-- **redefault_keeps_callback_no_method.** In particular: with no `_prepare_` method in sight, a merely re-defaulting
spec subclass has exactly the entry of its parent — a decorator registration included. -/
theorem redefault_keeps_callback_no_method (ls : List Layer) (L : Layer) (hs : L.spec = true) (hb : L.body = .value)
    (hm : L.method = none) (hn : (bootstrap ls).meth = none) :
    (bootstrap (ls ++ [L])).entry = (bootstrap ls).entry := by
  rw [redefault_keeps_callback ls L hs hb, hm, hn]
  rfl

/-- **redefault_drops_decorator_witness** (legacy counter-model). Before /repo 62b86d6 the statement was false of the
code (repaired finding KF-C05-redefault-drops-decorator-preparer): `a0: int = Attr(default=1)` with `@a0.preparer`,
re-defaulted (`a0 = 3`) by a spec subclass — the `Attr` rebuilt from the plain value had no preparer. -/
theorem redefault_drops_decorator_witness : ¬ RedefaultKeepsCallbackFull bootstrapLegacy := by
  intro h
  have := h [⟨true, .attr (some 0), none⟩] ⟨true, .value, none⟩ rfl rfl
  revert this
  decide

/-- non-vacuity: decorator registration, re-defaulting spec subclass, plain subclass, another re-default -/
example : bootstrap [⟨true, .attr (some 0), none⟩, ⟨true, .value, none⟩, ⟨false, .value, none⟩, ⟨true, .value, none⟩]
    = { meth := none, entry := some 0, helper := some 0 } := by decide
example : (bootstrapLegacy [⟨true, .attr (some 0), none⟩, ⟨true, .value, none⟩]).entry = none := by decide

/-- **decorator_preparer_applied.** End to end: for a scalar attribute whose class-table entry is what `bootstrap`
computes from a hierarchy as in `decorator_preparer_registered`, `obj.a = v` stores exactly `p(obj, v)` — the
decorator-registered preparer applied to the value — (and puts the dependants of `a` back at their defaults), or
raises TypeError when that does not conform. -/
theorem decorator_preparer_applied (m c : Nat) (fs : Flds) (a : Nat) (v : Val) (sp : AttrSpec)
    (above below : List Layer) (L : Layer) (p : Nat)
    (ha : E.attr? c a = some sp)
    (hsp : sp.prep = (bootstrap (above ++ L :: below)).entry)
    (hs : L.spec = true) (hb : L.body = .attr (some p))
    (hm : ∀ M ∈ above ++ [L], M.method = none)
    (hbelow : ∀ M ∈ below, M.untouched = true)
    (hok : Spec.AssignOk E sp (.inst c fs) v)
    (hnd : Spec.isDict (E.prep p (.inst c fs) v) = false) (hnc : sp.ty.isCollection = false)
    (hns : (E.prep p (.inst c fs) v).isSent = false) :
    setAttrV E (m+3) false (.inst c fs) a v =
      if conforms E sp.ty (E.prep p (.inst c fs) v) then
        .ok (E.invalidate (.inst c (fs.set sp.name (E.prep p (.inst c fs) v))) sp.name)
      else .error .typeError := by
  have hp : sp.prep = some p := by
    rw [hsp]; exact (decorator_preparer_registered above below L p hs hb hm hbelow).1
  have hprep : Spec.prep E sp (.inst c fs) v = E.prep p (.inst c fs) v := by simp [Spec.prep, hp]
  have := assign_scalar_explicit E m c fs a v sp ha hok (by rw [hprep]; exact hnd) hnc (by rw [hprep]; exact hns)
  rw [hprep] at this
  exact this

/-- non-vacuity: `a: int = Attr(default=1)` with `@a.preparer` (preparer 0) in a spec class, a spec subclass not
mentioning `a`, a plain subclass re-defaulting it: the entry and the helpers' callback are preparer 0 -/
example : bootstrap [⟨true, .attr (some 0), none⟩, ⟨true, .absent, some 3⟩, ⟨false, .value, none⟩]
    = { meth := some 3, entry := some 0, helper := some 0 } := by decide
/-- … and a coherent hierarchy with a re-defaulting spec subclass (the method is inherited) -/
example : coherent [⟨true, .annotated, some 2⟩, ⟨true, .value, none⟩, ⟨true, .attr (some 5), none⟩] = true := by decide
example : bootstrap [⟨true, .annotated, some 2⟩, ⟨true, .value, none⟩, ⟨true, .attr (some 5), none⟩]
    = { meth := some 2, entry := some 2, helper := some 2 } := by decide

end declarations

end SpecVerif.Props.C05
