import SpecVerif.Proofs.HeapC07
import SpecVerif.Props.C01
/-!
# C07 — frozen instances are immutable yet evolvable by copy

Property theorems only (helper lemmas: `Proofs/HeapC07.lean`, frame logic:
`Proofs/Heap.lean`, `Proofs/HeapFrame.lean`).  They are about the executable
model `Model/Heap.lean` / `Model/Inst.lean`.

`Frozen X h r`: the receiver `r` is an instance of a class declared
`frozen=True`, outside any initialisation / thaw window (`thaw = false`, i.e. no
`__spec_class_initializing__` entry in its `__dict__`) — how every instance that
is stored in a variable looks.

Quantification: every class table without class-level `do_not_copy`
(`NoClassDnc`), every heap, every fault plan `φ`, every crash point `b`
unless a theorem says `none`.
-/
set_option linter.unusedSectionVars false
set_option linter.unusedVariables false
namespace SpecVerif.Props.C07
open SpecVerif.Py SpecVerif.Heap
open SpecVerif.Props.C01 (start cow_frame)

/-- The receiver is a settled instance of a frozen class. -/
def Frozen (X : Ctx) (h : Heap) (r : Ref) : Prop :=
  ∃ (i c : Nat) (fs : List (Nat × Ref)),
    r = .obj i ∧ h[i]? = some (Node.inst c false fs) ∧ (X.cd c).frozen = true

theorem Frozen.at {X : Ctx} {h : Heap} {i : Nat} (hf : Frozen X h (.obj i))
    (φ : List (CbKind × Nat)) (b : Option Nat) : FrozenAt X i (start h φ b) := by
  obtain ⟨i', c, fs, hr, h1, h2⟩ := hf
  cases hr
  exact ⟨c, fs, h1, h2⟩

theorem step_eq (X : Ctx) (h : Heap) (op : Op) (φ : List (CbKind × Nat)) (b : Option Nat) :
    step X h op φ b = runOp X op (start h φ b) := rfl

/-- `runOp` once the keyword check has passed. -/
theorem runOp_kw {X : Ctx} {op : Op} {s : MS} (hk : kwOk X s.heap op.receiver op = true) :
    runOp X op s = (match op with
      | .construct c kw => X.make c kw
      | .setattr r a v => do setAttr X r a v false; pure r
      | .delattr r a => do delAttr X r a false; pure r
      | .withAttr r a v kw ip => withAttr X r a v kw ip
      | .updateAttr r a v kw ip => updateAttr X r a v kw ip
      | .transformAttr r a f kwf ip => transformAttr X r a f kwf ip
      | .resetAttr r a ip => resetAttr X r a ip
      | .elem r a eop ip => elemHelper X r a eop ip
      | .update r kw ip => update X r kw ip
      | .transform r kwf ip => transform X r kwf ip
      | .reset r ip => reset X r ip
      | .deepcopy r => deepcopy X r) s := by
  unfold runOp
  simp [run_bind, guardM, hk]
  cases op <;> rfl

/-! ## 1. In-place operations on a frozen receiver are rejected -/

/-- `del v.a` on a frozen instance: FrozenInstanceError, nothing happened
(final state = start state: no effect at all), for every crash point. -/
theorem frozen_delattr_rejected (X : Ctx) (h : Heap) (r : Ref) (a : Nat)
    (φ : List (CbKind × Nat)) (b : Option Nat) (hf : Frozen X h r) :
    step X h (.delattr r a) φ b = (.error (.py .frozenInstanceError), start h φ b) := by
  obtain ⟨i, c, fs, rfl, h1, h2⟩ := hf
  rw [step_eq, runOp_kw (by rfl)]
  exact run_bind_err (delAttr_frozen_run ⟨c, fs, h1, h2⟩ a)

/-- `v.reset_a(_inplace=True)` on a frozen instance: FrozenInstanceError, no effect. -/
theorem frozen_resetAttr_rejected (X : Ctx) (h : Heap) (r : Ref) (a : Nat)
    (φ : List (CbKind × Nat)) (b : Option Nat) (hf : Frozen X h r) :
    step X h (.resetAttr r a true) φ b = (.error (.py .frozenInstanceError), start h φ b) := by
  obtain ⟨i, c, fs, rfl, h1, h2⟩ := hf
  rw [step_eq, runOp_kw (by rfl)]
  exact resetAttr_frozen_run ⟨c, fs, h1, h2⟩ a

/-- An in-place element helper (`with_/update_/transform_/without_<item>(…,
_inplace=True)`) on a frozen instance, once the keyword check has passed:
FrozenInstanceError for a declared collection attribute, AttributeError when the
attribute is not declared or not a collection; no effect in all three cases. -/
theorem frozen_elem_rejected (X : Ctx) (h : Heap) (i c : Nat) (fs : List (Nat × Ref)) (a : Nat)
    (eop : ElemOp) (φ : List (CbKind × Nat)) (b : Option Nat)
    (h1 : h[i]? = some (Node.inst c false fs)) (h2 : (X.cd c).frozen = true)
    (hk : kwOk X h (.obj i) (.elem (.obj i) a eop true) = true) :
    step X h (.elem (.obj i) a eop true) φ b =
      (match (X.cd c).attr? a with
        | none => (.error (.py .attributeError), start h φ b)
        | some d => (match d.kind.fam? with
          | none => (.error (.py .attributeError), start h φ b)
          | some _ => (.error (.py .frozenInstanceError), start h φ b))) := by
  rw [step_eq, runOp_kw hk]
  exact elemHelper_frozen_run (s := start h φ b) h1 h2 a eop

/-- The same, without assuming the keyword check passes: the only other outcome
is the TypeError of the keyword check — and still no effect. -/
theorem frozen_elem_rejected' (X : Ctx) (h : Heap) (i c : Nat) (fs : List (Nat × Ref)) (a : Nat)
    (eop : ElemOp) (φ : List (CbKind × Nat)) (b : Option Nat) (d : AttrDecl) (fam : Fam)
    (h1 : h[i]? = some (Node.inst c false fs)) (h2 : (X.cd c).frozen = true)
    (hd : (X.cd c).attr? a = some d) (hfam : d.kind.fam? = some fam) :
    step X h (.elem (.obj i) a eop true) φ b = (.error (.py .frozenInstanceError), start h φ b) ∨
    step X h (.elem (.obj i) a eop true) φ b = (.error (.py .typeError), start h φ b) := by
  cases hk : kwOk X h (.obj i) (.elem (.obj i) a eop true) with
  | true =>
    left
    rw [frozen_elem_rejected X h i c fs a eop φ b h1 h2 hk, hd]
    simp only [hfam]
  | false =>
    right
    rw [step_eq]
    exact runOp_kw_false _ _ hk

/-- `v.reset(_inplace=True)` on a frozen instance of a class with at least one
attribute: FrozenInstanceError, and every object is as before (the rollback
handler rewrites the receiver's own node). -/
theorem frozen_reset_rejected (X : Ctx) (h : Heap) (i c : Nat) (fs : List (Nat × Ref))
    (φ : List (CbKind × Nat))
    (h1 : h[i]? = some (Node.inst c false fs)) (h2 : (X.cd c).frozen = true)
    (hne : (X.cd c).attrs ≠ []) :
    (step X h (.reset (.obj i) true) φ none).1 = .error (.py .frozenInstanceError) ∧
    ∀ k : Nat, (step X h (.reset (.obj i) true) φ none).2.heap[k]? = h[k]? := by
  rw [step_eq, runOp_kw (by rfl)]
  exact reset_frozen_run (s := start h φ none) h1 h2 rfl hne

/-- … and of a class without attributes it is a no-op returning the receiver. -/
theorem frozen_reset_noattrs (X : Ctx) (h : Heap) (i c : Nat) (fs : List (Nat × Ref))
    (φ : List (CbKind × Nat)) (b : Option Nat)
    (h1 : h[i]? = some (Node.inst c false fs)) (hne : (X.cd c).attrs = []) :
    step X h (.reset (.obj i) true) φ b = (.ok (.obj i), start h φ b) := by
  rw [step_eq, runOp_kw (by rfl)]
  exact reset_frozen_noattrs_run (s := start h φ b) h1 hne

/-- **frozen_inplace_rejected**: the four in-place operations whose frozen guard
is the first thing they do. -/
theorem frozen_inplace_rejected (X : Ctx) (h : Heap) (i c : Nat) (fs : List (Nat × Ref))
    (φ : List (CbKind × Nat))
    (h1 : h[i]? = some (Node.inst c false fs)) (h2 : (X.cd c).frozen = true) :
    (∀ a b, step X h (.delattr (.obj i) a) φ b =
      (.error (.py .frozenInstanceError), start h φ b)) ∧
    (∀ a b, step X h (.resetAttr (.obj i) a true) φ b =
      (.error (.py .frozenInstanceError), start h φ b)) ∧
    (∀ a eop b d fam, (X.cd c).attr? a = some d → d.kind.fam? = some fam →
      kwOk X h (.obj i) (.elem (.obj i) a eop true) = true →
      step X h (.elem (.obj i) a eop true) φ b =
        (.error (.py .frozenInstanceError), start h φ b)) ∧
    ((X.cd c).attrs ≠ [] →
      (step X h (.reset (.obj i) true) φ none).1 = .error (.py .frozenInstanceError) ∧
      ∀ k : Nat, (step X h (.reset (.obj i) true) φ none).2.heap[k]? = h[k]?) := by
  have hf : Frozen X h (.obj i) := ⟨i, c, fs, rfl, h1, h2⟩
  refine ⟨fun a b => frozen_delattr_rejected X h _ a φ b hf,
    fun a b => frozen_resetAttr_rejected X h _ a φ b hf, ?_,
    fun hne => frozen_reset_rejected X h i c fs φ h1 h2 hne⟩
  intro a eop b d fam hd hfam hk
  rw [frozen_elem_rejected X h i c fs a eop φ b h1 h2 hk, hd]
  simp only [hfam]

/-- **frozen_inplace_no_effect**: every operation called in place on a frozen
receiver — including `setattr`, `with_a(…, _inplace=True)`, `update_a`,
`transform_a`, `update`, `transform`, whose value is prepared *before* the guard
— raises, or (nothing to do: MISSING value, no keyword) returns the receiver;
in every case every pre-existing object is unchanged.  Every fault plan, every
crash point. -/
theorem frozen_inplace_no_effect (X₀ : Ctx) (hX : NoClassDnc X₀) (h : Heap) (op : Op)
    (hip : op.inplace = true) (hf : Frozen X₀.close h op.receiver)
    (φ : List (CbKind × Nat)) (b : Option Nat) :
    ((∃ e, (step X₀.close h op φ b).1 = .error e) ∨
      (step X₀.close h op φ b).1 = .ok op.receiver) ∧
    ∀ i, i < h.length → (step X₀.close h op φ b).2.heap[i]? = h[i]? := by
  obtain ⟨i, c, fs, hr, h1, h2⟩ := hf
  have hi : i < h.length := by
    rcases Nat.lt_or_ge i h.length with h' | h'
    · exact h'
    · rw [List.getElem?_eq_none h'] at h1; cases h1
  obtain ⟨hk, hq⟩ := runOp_frozenF (n₀ := h.length) (noClassDnc_close X₀ hX)
    (makeSafe_close X₀ hX) op hip hr hi (start h φ b) (Nat.le_refl _) ⟨c, fs, h1, h2⟩
  refine ⟨?_, fun k hk' => hk.frame k hk'⟩
  rw [step_eq]
  cases hres : (runOp X₀.close op (start h φ b)).1 with
  | error e => exact Or.inl ⟨e, rfl⟩
  | ok r' => right; rw [hr, hq r' hres]

/-- **frozen_never_changes**: whatever public operation is called on a frozen
receiver — in place or not, returning or raising, for every callback fault plan
and every crash point — every pre-existing object (the receiver included) is
exactly as it was. -/
theorem frozen_never_changes (X₀ : Ctx) (hX : NoClassDnc X₀) (h : Heap) (op : Op)
    (hf : Frozen X₀.close h op.receiver) (φ : List (CbKind × Nat)) (b : Option Nat) :
    ∀ i, i < h.length → (step X₀.close h op φ b).2.heap[i]? = h[i]? := by
  cases hip : op.inplace with
  | false => exact cow_frame X₀ hX h op hip φ b
  | true => exact (frozen_inplace_no_effect X₀ hX h op hip hf φ b).2

/-- In particular the receiver's own node. -/
theorem frozen_receiver_unchanged (X₀ : Ctx) (hX : NoClassDnc X₀) (h : Heap) (op : Op) (i : Nat)
    (hr : op.receiver = .obj i) (hf : Frozen X₀.close h op.receiver)
    (φ : List (CbKind × Nat)) (b : Option Nat) :
    (step X₀.close h op φ b).2.heap[i]? = h[i]? := by
  obtain ⟨i', c, fs, hr', h1, _⟩ := id hf
  rw [hr] at hr'; cases hr'
  have hi : i < h.length := by
    rcases Nat.lt_or_ge i h.length with h' | h'
    · exact h'
    · rw [List.getElem?_eq_none h'] at h1; cases h1
  exact frozen_never_changes X₀ hX h op hf φ b i hi

/-- Sharper form for `v.a = <scalar>`: when the attribute is undeclared, or
declared with a non-collection type and no preparer (so that preparing the value
cannot fail), the outcome is exactly FrozenInstanceError with no effect at all. -/
theorem frozen_setattr_rejected_scalar (X : Ctx) (h : Heap) (i c : Nat) (fs : List (Nat × Ref))
    (a : Nat) (sc : Sc) (φ : List (CbKind × Nat)) (b : Option Nat)
    (h1 : h[i]? = some (Node.inst c false fs)) (h2 : (X.cd c).frozen = true)
    (hd : match (X.cd c).attr? a with
      | none => True
      | some d => d.prep = none ∧ d.kind.fam? = none)
    (hv : sc ≠ .missing) :
    step X h (.setattr (.obj i) a (.sc sc)) φ b =
      (.error (.py .frozenInstanceError), start h φ b) := by
  rw [step_eq, runOp_kw (by rfl)]
  simp only
  have hne' : ¬ (Ref.sc sc = Ref.sc Sc.missing) := by
    intro h; cases h; exact hv rfl
  have hset : setAttr X (.obj i) a (.sc sc) false (start h φ b) =
      (.error (.py .frozenInstanceError), start h φ b) := by
    unfold setAttr
    rw [run_bind_ok (getInst_run_of (s := start h φ b) h1)]
    simp only
    cases hattr : (X.cd c).attr? a with
    | none =>
      simp only
      rw [run_bind_ok (run_pure _ _), run_bind,
        mutateAttr_frozen_run (s := start h φ b) ⟨c, fs, h1, h2⟩]
      simp [hne']
    | some d =>
      rw [hattr] at hd
      simp only
      rw [run_bind_ok (prepareAttrValue0_scalar_run X d sc _ hd.1 hd.2 hv), run_bind,
        mutateAttr_frozen_run (s := start h φ b) ⟨c, fs, h1, h2⟩]
      simp [hne']
  exact run_bind_err hset
/-! ## 2. Copy-on-write results are distinct, new objects -/

/-- Operations whose normal result is always a newly allocated object. -/
def Op.alwaysCopies : Op → Bool
  | .construct _ _ => true
  | .resetAttr _ _ false => true
  | .reset _ false => true
  | .deepcopy _ => true
  | _ => false

/-- **frozen_cow_distinct**: a successful `reset_a()`, `reset()`, `deepcopy`
(and the constructor) returns an object that did not exist before — for a
frozen receiver as for any other. -/
theorem frozen_cow_distinct (X₀ : Ctx) (hX : NoClassDnc X₀) (h : Heap) (op : Op)
    (hop : Op.alwaysCopies op = true) (φ : List (CbKind × Nat)) (b : Option Nat) (j : Nat)
    (hres : (step X₀.close h op φ b).1 = .ok (.obj j)) : h.length ≤ j := by
  have hip : op.inplace = false := by
    cases op <;> first | rfl | (rename_i ip; cases ip <;> first | rfl | cases hop)
                       | cases hop
  obtain ⟨_, hq⟩ := runOp_cow (n₀ := h.length) (W := fun _ => False) (noClassDnc_close X₀ hX)
    (makeSafe_close X₀ hX) op hip (start h φ b) (Nat.le_refl _)
  have := hq _ hres
  cases op with
  | construct c kw => exact this j rfl
  | deepcopy r => exact this j rfl
  | resetAttr r a ip => exact this j rfl
  | reset r ip => exact this j rfl
  | setattr r a v => cases hop
  | delattr r a => cases hop
  | withAttr r a v kw ip => cases hop
  | updateAttr r a v kw ip => cases hop
  | transformAttr r a f kwf ip => cases hop
  | elem r a eop ip => cases hop
  | update r kw ip => cases hop
  | transform r kwf ip => cases hop

/-- **cow_result_self_or_new**: every helper not called in place returns either
a new object or — only when there is nothing to change (the prepared value is
MISSING, `update()` without keyword) — the receiver itself; never another
pre-existing object. -/
theorem cow_result_self_or_new (X₀ : Ctx) (hX : NoClassDnc X₀) (h : Heap) (op : Op)
    (hip : op.inplace = false) (φ : List (CbKind × Nat)) (b : Option Nat) (j : Nat)
    (hres : (step X₀.close h op φ b).1 = .ok (.obj j)) :
    op.receiver = .obj j ∨ h.length ≤ j := by
  obtain ⟨_, hq⟩ := runOp_cow (n₀ := h.length) (W := fun _ => False) (noClassDnc_close X₀ hX)
    (makeSafe_close X₀ hX) op hip (start h φ b) (Nat.le_refl _)
  have := hq _ hres
  cases op with
  | construct c kw => exact Or.inr (this j rfl)
  | deepcopy r => exact Or.inr (this j rfl)
  | resetAttr r a ip => exact Or.inr (this j rfl)
  | reset r ip => exact Or.inr (this j rfl)
  | setattr r a v => cases hip
  | delattr r a => cases hip
  | withAttr r a v kw ip => exact this.elim (fun h => Or.inl h.symm) (fun h => Or.inr (h j rfl))
  | updateAttr r a v kw ip => exact this.elim (fun h => Or.inl h.symm) (fun h => Or.inr (h j rfl))
  | transformAttr r a f kwf ip =>
    exact this.elim (fun h => Or.inl h.symm) (fun h => Or.inr (h j rfl))
  | elem r a eop ip => exact this.elim (fun h => Or.inl h.symm) (fun h => Or.inr (h j rfl))
  | update r kw ip => exact this.elim (fun h => Or.inl h.symm) (fun h => Or.inr (h j rfl))
  | transform r kwf ip => exact this.elim (fun h => Or.inl h.symm) (fun h => Or.inr (h j rfl))


/-! ## 3. The thaw window is closed again

`AllSettled h` (`Proofs/HeapC07.lean`): no instance stored in `h` carries the
`__spec_class_initializing__` marker. -/

/-- **thaw_window_closed_partial** (`deepcopy`): copying never opens a thaw
window — a settled heap stays settled, whether `deepcopy` returns or raises,
for every fault plan and crash point (copies carry the flag of their source). -/
theorem thaw_window_closed_partial (X : Ctx) (h : Heap) (r : Ref) (φ : List (CbKind × Nat))
    (b : Option Nat) (hs : AllSettled h) :
    AllSettled (step X h (.deepcopy r) φ b).2.heap := by
  rw [step_eq, runOp_kw (by rfl)]
  exact (deepcopy_stl X r (start h φ b) hs).1

def nodeRefs : Node → List Ref
  | .list xs => xs
  | .dict kvs => kvs.map (·.2)
  | .set _ => []
  | .inst _ _ fs => fs.map (·.2)

/-- No dangling reference: every identity mentioned in `rs` / in a node of `h` exists. -/
def RefsBelow (n : Nat) (rs : List Ref) : Prop := ∀ j, Ref.obj j ∈ rs → j < n
def HeapClosed (h : Heap) : Prop := ∀ (i : Nat) (n : Node), h[i]? = some n → RefsBelow h.length (nodeRefs n)

def elemOpRefs : ElemOp → List Ref
  | .add item key _ attrs => item :: key :: attrs.map (·.2)
  | .upd key item _ attrs => key :: item :: attrs.map (·.2)
  | .tr key _ _ _ => [key]
  | .rm key _ => [key]

def opRefs : Op → List Ref
  | .construct _ kw => kw.map (·.2)
  | .setattr r _ v => [r, v]
  | .delattr r _ => [r]
  | .withAttr r _ v kw _ => r :: v :: kw.map (·.2)
  | .updateAttr r _ v kw _ => r :: v :: kw.map (·.2)
  | .transformAttr r _ _ _ _ => [r]
  | .resetAttr r _ _ => [r]
  | .elem r _ eop _ => r :: elemOpRefs eop
  | .update r kw _ => r :: kw.map (·.2)
  | .transform r _ _ => [r]
  | .reset r _ => [r]
  | .deepcopy r => [r]

/-- OPEN (not proved).  The general statement needs the well-formedness
hypotheses below: with a dangling reference it is false (see
`dangling_ref_copies_half_initialised`).  Its proof needs a reachability invariant
(the thawed object is not reachable from what gets copied while its window is
open) which the frame logic of `Proofs/Heap.lean` does not track. -/
def thaw_window_closed_Full : Prop :=
  ∀ (X₀ : Ctx) (h : Heap) (op : Op) (φ : List (CbKind × Nat)) (r' : Ref),
    NoClassDnc X₀ → AllSettled h → HeapClosed h → RefsBelow h.length (opRefs op) →
    RefsBelow h.length ((X₀.clsDict ++ X₀.specDef).map (·.2)) →
    (step X₀.close h op φ none).1 = .ok r' →
    AllSettled (step X₀.close h op φ none).2.heap

/-! ## 4. A frozen class evolves by copy exactly like its unfrozen twin -/

/-- **frozen_cow_equals_twin_partial** (`deepcopy`): result *and* final state
(heap, effect trace, budget) of `copy.deepcopy(r)` are those of the twin table
with every `frozen` flag cleared — `frozen` is never consulted by `deepcopy`.
Every heap, fault plan, crash point. -/
theorem frozen_cow_equals_twin_partial (X₀ : Ctx) (h : Heap) (r : Ref)
    (φ : List (CbKind × Nat)) (b : Option Nat) :
    step X₀.unfreeze.close h (.deepcopy r) φ b = step X₀.close h (.deepcopy r) φ b := by
  rw [step_eq, step_eq, runOp_kw (by rfl), runOp_kw (by rfl)]
  simp only
  rw [deepcopy_congr (sameButFrozen_twin X₀)]

/-- The statement for every copy-on-write operation; it is **proved** as
`frozen_cow_equals_twin` in `Props/C07Twin.lean` (two-run simulation in
`Proofs/HeapTwin.lean`: the only difference between the runs are the thaw
windows, inside which the frozen guards see the marker).  The traces differ
(the frozen side logs the `setThaw` writes of `thawed`), so result and final
heap are compared, with `budget = none`. -/
def frozen_cow_equals_twin_Full : Prop :=
  ∀ (X₀ : Ctx) (h : Heap) (op : Op) (φ : List (CbKind × Nat)),
    NoClassDnc X₀ → AllSettled h → HeapClosed h → RefsBelow h.length (opRefs op) →
    RefsBelow h.length ((X₀.clsDict ++ X₀.specDef).map (·.2)) → op.inplace = false →
    (step X₀.close h op φ none).1 = (step X₀.unfreeze.close h op φ none).1 ∧
    (step X₀.close h op φ none).2.heap = (step X₀.unfreeze.close h op φ none).2.heap

/-- OPEN (not proved): a copy-on-write `reset_a()` on a frozen settled receiver
never fails with FrozenInstanceError (same missing ingredient). -/
def cow_never_frozen_error_resetAttr_Full : Prop :=
  ∀ (X₀ : Ctx) (h : Heap) (r : Ref) (a : Nat) (φ : List (CbKind × Nat)),
    NoClassDnc X₀ → AllSettled h → HeapClosed h →
    RefsBelow h.length ((X₀.clsDict ++ X₀.specDef).map (·.2)) → Frozen X₀.close h r →
    (step X₀.close h (.resetAttr r a false) φ none).1 ≠ .error (.py .frozenInstanceError)

/-! ## Non-vacuity: a frozen class, an instance, rejected and accepted calls -/

/-- `@spec_class(frozen=True) class C0: a0: int = 1; a1: List[int] = [1, 2]` -/
def T7 : List ClassDecl :=
  [{ frozen := true,
     attrs := [{ name := 0, kind := .int, dk := .plain, lit := .sc (.int 1), owner := 0 },
               { name := 1, kind := .listInt, dk := .plain, lit := .list [.int 1, .int 2], owner := 0 }] }]

def X7 : Ctx := (boot T7).1
/-- the twin context: same world, `frozen` cleared -/
def X7u : Ctx := X7.unfreeze.close
def h7 : Heap := (step X7 (boot T7).2 (.construct 0 [(0, .sc (.int 5))]) [] none).2.heap

example : C01.noClassDncB T7 = true := by decide
/-- the frozen instance `C0(a0=5)` is object 1 (settled), its list object 2 -/
example : h7 = [.list [.sc (.int 1), .sc (.int 2)],
                .inst 0 false [(0, .sc (.int 5)), (1, .obj 2)],
                .list [.sc (.int 1), .sc (.int 2)]] := by decide
example : (X7.cd 0).frozen = true := by decide
/-- `v.a0 = 7` raises FrozenInstanceError and changes nothing -/
example : (step X7 h7 (.setattr (.obj 1) 0 (.sc (.int 7))) [] none).1
    = .error (.py .frozenInstanceError) := by decide
example : (step X7 h7 (.setattr (.obj 1) 0 (.sc (.int 7))) [] none).2.heap = h7 := by decide
/-- an ill-typed value: the preparation/type check does not come first here (the
guard precedes the type check inside `mutate_attr`) -/
example : (step X7 h7 (.setattr (.obj 1) 0 (.sc (.str 1))) [] none).1
    = .error (.py .frozenInstanceError) := by decide
/-- `del v.a0`, `v.reset_a0(_inplace=True)`, `v.with_a1_item(9, _inplace=True)`,
`v.reset(_inplace=True)`, `v.update(a0=7, _inplace=True)` are rejected too -/
example : (step X7 h7 (.delattr (.obj 1) 0) [] none).1 = .error (.py .frozenInstanceError) := by
  decide
example : (step X7 h7 (.resetAttr (.obj 1) 0 true) [] none).1
    = .error (.py .frozenInstanceError) := by decide
example : (step X7 h7 (.elem (.obj 1) 1 (.add (.sc (.int 9)) (.sc .missing) false []) true) [] none).1
    = .error (.py .frozenInstanceError) := by decide
example : (step X7 h7 (.reset (.obj 1) true) [] none).1 = .error (.py .frozenInstanceError) := by
  decide
example : (step X7 h7 (.reset (.obj 1) true) [] none).2.heap = h7 := by decide
example : (step X7 h7 (.update (.obj 1) [(0, .sc (.int 7))] true) [] none).1
    = .error (.py .frozenInstanceError) := by decide
example : (step X7 h7 (.update (.obj 1) [(0, .sc (.int 7))] true) [] none).2.heap = h7 := by decide
/-- nothing to do: `v.update(_inplace=True)` hands back the receiver -/
example : (step X7 h7 (.update (.obj 1) [] true) [] none).1 = .ok (.obj 1) := by decide
/-- `v.with_a0(7)` returns a new instance (object 3) with the field changed;
the receiver's node is the same before and after; the copy is settled -/
example : (step X7 h7 (.withAttr (.obj 1) 0 (.sc (.int 7)) [] false) [] none).1 = .ok (.obj 3) := by
  decide
example : (step X7 h7 (.withAttr (.obj 1) 0 (.sc (.int 7)) [] false) [] none).2.heap[3]?
    = some (.inst 0 false [(0, .sc (.int 7)), (1, .obj 4)]) := by decide
example : (step X7 h7 (.withAttr (.obj 1) 0 (.sc (.int 7)) [] false) [] none).2.heap[1]?
    = h7[1]? := by decide
example : h7.length = 3 := by decide
/-- `v.reset_a0()` and `v.with_a1_item(9)` work on the frozen instance, by copy -/
example : (step X7 h7 (.resetAttr (.obj 1) 0 false) [] none).1 = .ok (.obj 3) := by decide
example : (step X7 h7 (.resetAttr (.obj 1) 0 false) [] none).2.heap[3]?
    = some (.inst 0 false [(0, .sc (.int 1)), (1, .obj 4)]) := by decide
example : (step X7 h7 (.elem (.obj 1) 1 (.add (.sc (.int 9)) (.sc .missing) false []) false) [] none).1
    = .ok (.obj 4) := by decide
/-- the twin (unfrozen) table gives the same results and heaps on these calls -/
example : (step X7u h7 (.withAttr (.obj 1) 0 (.sc (.int 7)) [] false) [] none).1
    = (step X7 h7 (.withAttr (.obj 1) 0 (.sc (.int 7)) [] false) [] none).1 := by decide
example : (step X7u h7 (.withAttr (.obj 1) 0 (.sc (.int 7)) [] false) [] none).2.heap
    = (step X7 h7 (.withAttr (.obj 1) 0 (.sc (.int 7)) [] false) [] none).2.heap := by decide
example : (step X7u h7 (.resetAttr (.obj 1) 0 false) [] none).2.heap
    = (step X7 h7 (.resetAttr (.obj 1) 0 false) [] none).2.heap := by decide
example : (step X7u h7 (.reset (.obj 1) false) [] none).2.heap
    = (step X7 h7 (.reset (.obj 1) false) [] none).2.heap := by decide
/-- … while in place the twin accepts what the frozen class rejects -/
example : (step X7u h7 (.setattr (.obj 1) 0 (.sc (.int 7))) [] none).1 = .ok (.obj 1) := by decide

/-- Why `thaw_window_closed_Full` needs `HeapClosed`: class `C0` (frozen) with
`a1: List[C0]`; the heap holds a list with a dangling reference to the next
identity; `C0(a1=that list)` succeeds and its `a1` holds a copy (object 2) of the
half-initialised instance (a copy never carries the initialisation marker; the
half-initialised ORIGINAL, object 1, is what the dangling reference exposes). -/
def Tdangling : List ClassDecl :=
  [{ frozen := true,
     attrs := [{ name := 0, kind := .int, dk := .plain, lit := .sc (.int 1), owner := 0 },
               { name := 1, kind := .listSpec 0, owner := 0 }] }]

theorem dangling_ref_copies_half_initialised :
    let X := (boot Tdangling).1
    let out := step X [.list [.obj 1]] (.construct 0 [(1, .obj 0)]) [] none
    out.1 = .ok (.obj 1) ∧
    out.2.heap[2]? = some (.inst 0 false [(0, .sc (.int 1))]) := by decide

end SpecVerif.Props.C07
