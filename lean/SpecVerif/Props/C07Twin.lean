import SpecVerif.Props.C07
import SpecVerif.Proofs.HeapTwin
/-!
# C07 — a frozen class evolves by copy exactly like its unfrozen twin

Property theorems only; the simulation argument (two runs compared step by
step, the thaw windows of the frozen run tracked explicitly) is in
`Proofs/HeapTwin.lean`.

`frozen_cow_equals_twin` proves `frozen_cow_equals_twin_Full` of `Props/C07.lean`
(stated there as OPEN): for **every** public operation not called in place
(`construct`, `with_a`, `update_a`, `transform_a`, `reset_a`, the element helpers
`with_/update_/transform_/without_<item>`, `update`, `transform`, `reset`,
`deepcopy`; with or without keyword arguments), every class table without
class-level `do_not_copy`, every closed heap, every callback fault plan, the
result (returned reference or raised exception) and the final heap under the
frozen table are those under the table with every `frozen` flag cleared.
-/
set_option linter.unusedSectionVars false
set_option linter.unusedVariables false
namespace SpecVerif.Props.C07
open SpecVerif.Py SpecVerif.Heap
open SpecVerif.Props.C01 (start)

/-- `HeapClosed` is the closedness notion of the simulation. -/
theorem twClosed_of_heapClosed {h : Heap} (hc : HeapClosed h) : TwClosed h := by
  intro i n hi r hr j hj
  subst hj
  refine hc i n hi j ?_
  cases n <;> exact hr

/-- The table with every `frozen` flag cleared is a twin of the original one. -/
theorem twStatic_unfreeze (X₀ : Ctx) (h : Heap) (hX : NoClassDnc X₀)
    (hdefs : RefsBelow h.length ((X₀.clsDict ++ X₀.specDef).map (·.2))) :
    TwStatic X₀ X₀.unfreeze h := by
  refine ⟨cd_unfreeze X₀, ?_, rfl, rfl, hX, ?_⟩
  · simp [Ctx.unfreeze, SpecVerif.Heap.unfreeze]
  · intro kv hkv j hj
    refine hdefs j ?_
    rw [← hj]
    exact List.mem_map.2 ⟨kv, hkv, rfl⟩

/-- **frozen_cow_equals_twin_general**: the statement with the hypotheses the
proof actually uses — no class-level `do_not_copy`, a closed heap (no dangling
reference inside a stored object), class-level default objects below the heap
size, crash-point budget `none`.  Neither `AllSettled h` nor any assumption on
the operation's arguments (`opRefs`) is needed. -/
theorem frozen_cow_equals_twin_general (X₀ : Ctx) (h : Heap) (op : Op) (φ : List (CbKind × Nat))
    (hX : NoClassDnc X₀) (hcl : HeapClosed h)
    (hdefs : RefsBelow h.length ((X₀.clsDict ++ X₀.specDef).map (·.2)))
    (hip : op.inplace = false) :
    (step X₀.close h op φ none).1 = (step X₀.unfreeze.close h op φ none).1 ∧
    (step X₀.close h op φ none).2.heap = (step X₀.unfreeze.close h op φ none).2.heap := by
  have hS := twStatic_unfreeze X₀ h hX hdefs
  have hC : TwCtx X₀.close X₀.unfreeze.close h := tw_ctx_close hS
  obtain ⟨h1, h2⟩ := runOp_sim (P := []) hC op hip _ _
    (tw_sim_start (T := X₀.close.T) h (twClosed_of_heapClosed hcl) φ)
  exact ⟨TwRes.eq_of_id h2, h1.heap_eq⟩

/-- **frozen_cow_equals_twin** (`frozen_cow_equals_twin_Full` of `Props/C07.lean`):
every copy-on-write operation on a class table with frozen classes has the
result and the final heap it has on the twin table with every `frozen` flag
cleared. -/
theorem frozen_cow_equals_twin : frozen_cow_equals_twin_Full := by
  intro X₀ h op φ hX _ hcl _ hdefs hip
  exact frozen_cow_equals_twin_general X₀ h op φ hX hcl hdefs hip

/-! ## Non-vacuity: the theorem applied to the frozen class `T7` of `Props/C07.lean` -/

/-- The (open) booted context of `T7`: `X7 = X7₀.close`, `X7u = X7₀.unfreeze.close`. -/
def X7₀ : Ctx :=
  match bootClasses 0 T7 { T := T7 } { heap := [] } with
  | (.ok X, _) => X
  | (.error _, _) => { T := T7 }

example : X7 = X7₀.close := rfl
example : X7u = X7₀.unfreeze.close := rfl

theorem h7_eq : h7 = [.list [.sc (.int 1), .sc (.int 2)],
                      .inst 0 false [(0, .sc (.int 5)), (1, .obj 2)],
                      .list [.sc (.int 1), .sc (.int 2)]] := by decide

/-- the hypotheses hold for the world of `T7` (a frozen class, a frozen instance) -/
theorem x7_noClassDnc : NoClassDnc X7₀ :=
  C01.noClassDnc_of_check X7₀ (by decide)

theorem h7_closed : HeapClosed h7 := by
  intro i n hi j hj
  rw [h7_eq] at hi ⊢
  match i, hi with
  | 0, hi => cases hi; simp [nodeRefs] at hj
  | 1, hi => cases hi; simp [nodeRefs] at hj; subst hj; decide
  | 2, hi => cases hi; simp [nodeRefs] at hj
  | _ + 3, hi => simp at hi

theorem x7_defs : RefsBelow h7.length ((X7₀.clsDict ++ X7₀.specDef).map (·.2)) := by
  have h1 : (X7₀.clsDict ++ X7₀.specDef).map (·.2) = [.obj 0, .sc (.int 1), .obj 0, .sc (.int 1)] := by
    decide
  intro j hj
  rw [h1] at hj
  simp at hj
  subst hj
  decide

/-- the theorem instantiated: any copy-on-write operation on the frozen instance -/
example (op : Op) (φ : List (CbKind × Nat)) (hip : op.inplace = false) :
    (step X7 h7 op φ none).1 = (step X7u h7 op φ none).1 ∧
    (step X7 h7 op φ none).2.heap = (step X7u h7 op φ none).2.heap :=
  frozen_cow_equals_twin_general X7₀ h7 op φ x7_noClassDnc h7_closed x7_defs hip

/-- concrete runs: the frozen side really goes through thaw windows (successful
results, keyword arguments, element helpers, callbacks, a raising callback) -/
example : (step X7 h7 (.elem (.obj 1) 1 (.add (.sc (.int 9)) (.sc .missing) false []) false) [] none).1
    = .ok (.obj 4) := by decide
example : (step X7u h7 (.elem (.obj 1) 1 (.add (.sc (.int 9)) (.sc .missing) false []) false) [] none).2.heap
    = (step X7 h7 (.elem (.obj 1) 1 (.add (.sc (.int 9)) (.sc .missing) false []) false) [] none).2.heap := by
  decide
example : (step X7 h7 (.update (.obj 1) [(0, .sc (.int 7))] false) [] none).1 = .ok (.obj 3) := by
  decide
example : (step X7 h7 (.update (.obj 1) [(0, .sc (.int 7))] false) [] none).2.heap[3]?
    = some (.inst 0 false [(0, .sc (.int 7)), (1, .obj 4)]) := by decide
example : (step X7u h7 (.update (.obj 1) [(0, .sc (.int 7))] false) [] none).2.heap
    = (step X7 h7 (.update (.obj 1) [(0, .sc (.int 7))] false) [] none).2.heap := by decide
example : (step X7 h7 (.transform (.obj 1) [(0, .inc)] false) [] none).2.heap[3]?
    = some (.inst 0 false [(0, .sc (.int 6)), (1, .obj 4)]) := by decide
example : (step X7u h7 (.transform (.obj 1) [(0, .inc)] false) [] none).2.heap
    = (step X7 h7 (.transform (.obj 1) [(0, .inc)] false) [] none).2.heap := by decide
/-- the attribute transform raises inside the window: same exception, same heap
(the window of the abandoned copy is closed again on the error path) -/
example : (step X7 h7 (.transform (.obj 1) [(0, .inc)] false) [(.attrTransform, 1)] none).1
    = .error (.py .runtimeError) := by decide
example : (step X7u h7 (.transform (.obj 1) [(0, .inc)] false) [(.attrTransform, 1)] none).2.heap
    = (step X7 h7 (.transform (.obj 1) [(0, .inc)] false) [(.attrTransform, 1)] none).2.heap := by
  decide
/-- … whereas the effect traces differ (the frozen run logs the two `setThaw` writes),
which is why the theorem compares result and heap only -/
example : (step X7u h7 (.withAttr (.obj 1) 0 (.sc (.int 7)) [] false) [] none).2.trace.length + 2
    = (step X7 h7 (.withAttr (.obj 1) 0 (.sc (.int 7)) [] false) [] none).2.trace.length := by decide

end SpecVerif.Props.C07
