import SpecVerif.Proofs.HeapProv
import SpecVerif.Props.C01
/-!
# C08 — no mutable state shared with defaults, constructor arguments or peers; reset / del yield a fresh default

Property theorems only (helper lemmas: `Proofs/HeapReach.lean`,
`Proofs/HeapProv.lean`; model: `Model/Heap.lean`, `Model/Inst.lean`).

* `reset_is_fresh*`: after `reset_<a>()` / `del obj.a` the attribute holds a
  scalar or an object allocated during the call (never a class-level default
  object, never an object of another instance);
* `init_fresh*`: the fields of a newly constructed instance refer only to
  scalars, to objects allocated by the constructor, or to objects shared
  through `do_not_copy`;
* `reset_eq_fresh_partial`: `del` / reset and the constructor install the
  default by the *same* computation;
* `peers_isolated*`: a new instance reaches no pre-existing object, so in-place
  mutation of class defaults, constructor arguments or other instances is
  invisible through it.

Quantification: every class table without class-level `do_not_copy`, every
heap, every fault plan and crash point; `X₀.close` is the context whose nested
constructor is the model's own `construct`.
-/
set_option linter.unusedSectionVars false
set_option linter.unusedVariables false
namespace SpecVerif.Props.C08
open SpecVerif.Py SpecVerif.Heap SpecVerif.Props.C01

/-! ## reset_is_fresh -/

/-- **reset_is_fresh** (`del obj.a`, i.e. `reset_a(_inplace=True)`): after a
successful `__delattr__` of a declared attribute of an editable instance `i`
(distinct `__dict__` keys), the instance keeps its other fields and attribute
`a` is either absent (no default: `object.__delattr__`) or holds a value that is
a scalar other than MISSING or an object allocated during the call. -/
theorem reset_is_fresh_inplace (X₀ : Ctx) (hX : NoClassDnc X₀) (h : Heap) (i c a : Nat) (t : Bool)
    (fs : List (Nat × Ref)) (d : AttrDecl) (φ : List (CbKind × Nat)) (b : Option Nat)
    (hi : h[i]? = some (.inst c t fs)) (hnd : (fs.map (fun av => av.1)).Nodup)
    (hd : (X₀.cd c).attr? a = some d) (hfr : (X₀.cd c).frozen = true → t = true) :
    let out := delAttr X₀.close (.obj i) a false (start h φ b)
    out.1 = .ok () →
      ∃ fs', out.2.heap[i]? = some (.inst c t fs') ∧
        ((alGet a fs' = none ∧ fs' = alDel a fs) ∨ (∃ v, FN h.length v ∧ fs' = alSet a v fs)) := by
  intro out hok
  have hrun : delAttr X₀.close (.obj i) a false (start h φ b) = (.ok (), out.2) := by
    show out = _
    rw [← hok]
  obtain ⟨fs', hn', _, hdisj⟩ := delAttr_run_fresh X₀.close (noClassDnc_close X₀ hX)
    (fun n => makeObj_close X₀ hX) (n₀ := h.length) (s := start h φ b) (Nat.le_refl _) hi hnd hd hfr
    hrun
  exact ⟨fs', hn', hdisj⟩

/-- The value read back from attribute `a` after `del obj.a` is a scalar or was
allocated during the call. -/
theorem reset_is_fresh_inplace_value (X₀ : Ctx) (hX : NoClassDnc X₀) (h : Heap) (i c a : Nat)
    (t : Bool) (fs : List (Nat × Ref)) (d : AttrDecl) (φ : List (CbKind × Nat)) (b : Option Nat)
    (hi : h[i]? = some (.inst c t fs)) (hnd : (fs.map (fun av => av.1)).Nodup)
    (hd : (X₀.cd c).attr? a = some d) (hfr : (X₀.cd c).frozen = true → t = true) :
    let out := delAttr X₀.close (.obj i) a false (start h φ b)
    out.1 = .ok () →
      ∃ fs', out.2.heap[i]? = some (.inst c t fs') ∧
        ∀ v, alGet a fs' = some v → FreshRef h.length v ∧ v ≠ .sc .missing := by
  intro out hok
  obtain ⟨fs', hn', hdisj⟩ := reset_is_fresh_inplace X₀ hX h i c a t fs d φ b hi hnd hd hfr hok
  refine ⟨fs', hn', fun v hv => ?_⟩
  rcases hdisj with ⟨hnone, _⟩ | ⟨v', hfn, rfl⟩
  · rw [hnone] at hv; cases hv
  · rw [alGet_alSet_self] at hv
    cases hv
    exact hfn

/-- The same through the public helper `reset_a(_inplace=True)`. -/
theorem reset_is_fresh_resetAttr_inplace (X₀ : Ctx) (hX : NoClassDnc X₀) (h : Heap) (i c a : Nat)
    (t : Bool) (fs : List (Nat × Ref)) (d : AttrDecl) (φ : List (CbKind × Nat)) (b : Option Nat)
    (hi : h[i]? = some (.inst c t fs)) (hnd : (fs.map (fun av => av.1)).Nodup)
    (hd : (X₀.cd c).attr? a = some d) (hfr : (X₀.cd c).frozen = true → t = true) :
    let out := resetAttr X₀.close (.obj i) a true (start h φ b)
    ∀ r', out.1 = .ok r' →
      r' = .obj i ∧ ∃ fs', out.2.heap[i]? = some (.inst c t fs') ∧
        ∀ v, alGet a fs' = some v → FreshRef h.length v ∧ v ≠ .sc .missing := by
  intro out r' hok
  have hrun : resetAttr X₀.close (.obj i) a true (start h φ b) = (.ok r', out.2) := by
    show out = _
    rw [← hok]
  unfold resetAttr at hrun
  simp only [Bool.not_true, Bool.false_eq_true, if_false] at hrun
  obtain ⟨u, s1, h1, h2⟩ := bind_ok_inv hrun
  obtain ⟨rfl, hs⟩ := pure_ok_inv h2
  have hok' : (delAttr X₀.close (.obj i) a false (start h φ b)).1 = .ok () := by rw [h1]
  obtain ⟨fs', hn', hv⟩ :=
    reset_is_fresh_inplace_value X₀ hX h i c a t fs d φ b hi hnd hd hfr hok'
  rw [h1] at hn'
  rw [hs] at hn'
  exact ⟨rfl, fs', hn', hv⟩

/-- **reset_is_fresh** (`reset_a()`, copy-on-write): the result is a new instance
(identity `h.length`) of the same class, with attribute names among the
receiver's (plus `a`), whose attribute `a` is absent or holds a scalar other
than MISSING / an object allocated during the call — also when `a` is declared
`do_not_copy` (the shared value is replaced, not kept). -/
theorem reset_is_fresh (X₀ : Ctx) (hX : NoClassDnc X₀) (h : Heap) (i c a : Nat) (t : Bool)
    (fs : List (Nat × Ref)) (d : AttrDecl) (φ : List (CbKind × Nat)) (b : Option Nat)
    (hi : h[i]? = some (.inst c t fs)) (hnd : (fs.map (fun av => av.1)).Nodup)
    (hd : (X₀.cd c).attr? a = some d) :
    let out := resetAttr X₀.close (.obj i) a false (start h φ b)
    ∀ r', out.1 = .ok r' →
      ∃ t' fs', r' = .obj h.length ∧ out.2.heap[h.length]? = some (.inst c t' fs') ∧
        fs'.map (fun av => av.1) ⊆ a :: fs.map (fun av => av.1) ∧
        ∀ v, alGet a fs' = some v → FreshRef h.length v ∧ v ≠ .sc .missing := by
  intro out r' hok
  have hrun : resetAttr X₀.close (.obj i) a false (start h φ b) = (.ok r', out.2) := by
    show out = _
    rw [← hok]
  exact resetAttr_run_fresh X₀.close (noClassDnc_close X₀ hX) (fun n => makeObj_close X₀ hX)
    (s := start h φ b) hi hnd hd hrun

/-! ## reset_eq_fresh -/

/-- **reset_eq_fresh_partial**: the value `del obj.a` / `reset_a` installs and
the value the constructor installs for an attribute that was not supplied are
produced by the *same* model computation
`lookupDefaultFor X d c >>= fun v => installDefault X obj a d v`
(`installDefault`: `prepareAttrValue0` then in-place `mutate_attr`):

1. `mutate_value` without keyword attributes / attribute transforms is `mutateValue0`;
2. hence `prepare_attr_value(spec, obj, v, {})` is `prepareAttrValue0`;
3. `__delattr__` of a declared attribute of an editable instance looks the
   default up and installs it (or removes the attribute when there is none);
4. the constructor's step for a non-supplied attribute looks the default up and
   `setattr`s it, and
5. that forced `setattr` is `installDefault`. -/
theorem reset_eq_fresh_partial (X : Ctx) :
    (∀ p : MV, p.attrs = [] → p.attrTransforms = [] → mutateValue X p = mutateValue0 X p) ∧
    (∀ (d : AttrDecl) (v : Ref), prepareAttrValue X d v [] = prepareAttrValue0 X d v) ∧
    (∀ (s : MS) (i c a : Nat) (t : Bool) (fs : List (Nat × Ref)) (d : AttrDecl),
      s.heap[i]? = some (.inst c t fs) → (X.cd c).attr? a = some d →
      ((X.cd c).frozen = true → t = true) →
      delAttr X (.obj i) a false s =
        (lookupDefaultFor X d c >>= fun v =>
          if v = .sc .missing then objDelAttr (.obj i) a else installDefault X (.obj i) a d v) s) ∧
    (∀ (self : Ref) (c : Nat) (kw : List (Nat × Ref)) (copyArgs : Bool) (sel : AttrDecl → Bool)
      (d : AttrDecl) (ds : List AttrDecl), sel d = true → alGet d.name kw = none →
      initAttrs X self c kw copyArgs sel (d :: ds) =
        (lookupDefaultFor X d c >>= fun v =>
          (if v != .sc .missing then setAttr X self d.name v true else pure ()) >>= fun _ =>
          initAttrs X self c kw copyArgs sel ds)) ∧
    (∀ (s : MS) (i c a : Nat) (t : Bool) (fs : List (Nat × Ref)) (d : AttrDecl) (v : Ref),
      s.heap[i]? = some (.inst c t fs) → (X.cd c).attr? a = some d →
      setAttr X (.obj i) a v true s = installDefault X (.obj i) a d v s) :=
  ⟨fun p ha ht => mutateValue_eq_mutateValue0 X p ha ht,
   fun d v => prepareAttrValue_nil X d v,
   fun s i c a t fs d hn hd hfr => delAttr_eq_install X a d hn hd hfr,
   fun self c kw copyArgs sel d ds hsel hkw =>
     initAttrs_step_default X self c kw copyArgs sel d ds hsel hkw,
   fun s i c a t fs d v hn hd => setAttr_eq_install X a d v hn hd⟩

/-- The content-level statement: the value installed by `del obj.a` has the same
*content* (isomorphic object graph) as attribute `a` of a freshly constructed
instance of the same class.  Left open: it needs determinism of the default
computation up to renaming of the identities it allocates — a simulation
between two runs of `lookupDefaultFor >>= installDefault` started from heaps
that agree on the pre-existing objects but differ in the objects allocated so
far (the relation has to be threaded through every model function, including
the fault plan and crash-point budget, which must be assumed equal in both
runs).  `reset_eq_fresh_partial` proves that both runs execute the same code. -/
def reset_eq_fresh_Full : Prop :=
  ∀ (X₀ : Ctx), NoClassDnc X₀ → ∀ (h : Heap) (i c a : Nat) (t : Bool) (fs : List (Nat × Ref))
    (d : AttrDecl), Closed h → h[i]? = some (.inst c t fs) → (X₀.cd c).attr? a = some d →
    ((X₀.cd c).frozen = true → t = true) →
    ∀ (s₁ s₂ : MS) (r : Ref),
      delAttr X₀.close (.obj i) a false { heap := h } = (.ok (), s₁) →
      construct X₀ (X₀.T.length + 1) c [] { heap := h } = (.ok r, s₂) →
      ∃ (j : Nat) (t₁ t₂ : Bool) (fs₁ fs₂ : List (Nat × Ref)), r = .obj j ∧
        s₁.heap[i]? = some (.inst c t₁ fs₁) ∧ s₂.heap[j]? = some (.inst c t₂ fs₂) ∧
        SameContent s₁.heap ((alGet a fs₁).getD (.sc .missing))
                    s₂.heap ((alGet a fs₂).getD (.sc .missing))

/-! ## init_fresh -/

/-- **init_fresh**: after a successful `Cls(**kw)` the result is the new object
`h.length`, and each field value of the new instance is a scalar, or an object
allocated by the constructor (`≥ h.length`), or — only for an attribute declared
`do_not_copy` — the supplied argument itself (`InitField`).  Never a class-level
default object, an ordinary argument, or part of another instance. -/
theorem init_fresh (X₀ : Ctx) (hX : NoClassDnc X₀) (h : Heap) (c : Nat) (kw : List (Nat × Ref))
    (φ : List (CbKind × Nat)) (b : Option Nat) :
    let out := construct X₀ (X₀.T.length + 1) c kw (start h φ b)
    ∀ r', out.1 = .ok r' → r' = .obj h.length ∧
      ∀ c' t fs, out.2.heap[h.length]? = some (.inst c' t fs) →
        ∀ a v, (a, v) ∈ fs →
          FreshRef h.length v ∨
          ∃ d, d ∈ (X₀.cd c).attrs ∧ d.name = a ∧ d.dnc = true ∧ alGet a kw = some v := by
  intro out r' hok
  have hrun : construct X₀ (X₀.T.length + 1) c kw (start h φ b) = (.ok r', out.2) := by
    show out = _
    rw [← hok]
  obtain ⟨hr, hf⟩ := construct_fields X₀ hX _ c kw hrun
  exact ⟨hr, fun c' t fs hn a v hav => hf c' t fs hn (a, v) hav⟩

/-- **init_fresh** (deep form): each child of the new instance is a scalar, an
object allocated by the constructor, or an old object reachable from an argument
supplied for a `do_not_copy` attribute / through a `do_not_copy` attribute of
an old instance (copies of arguments and defaults keep such values by reference);
together with the invariant on all new nodes this gives `init_disjoint`. -/
theorem init_fresh_good (X₀ : Ctx) (hX : NoClassDnc X₀) (h : Heap) (c : Nat) (kw : List (Nat × Ref))
    (φ : List (CbKind × Nat)) (b : Option Nat) :
    let out := construct X₀ (X₀.T.length + 1) c kw (start h φ b)
    ∀ r', out.1 = .ok r' → ∃ j, r' = .obj j ∧ h.length ≤ j ∧
      ∀ node, out.2.heap[j]? = some node → ∀ v, v ∈ node.children →
        Good h.length (AllowedFrom X₀ h (DncArg X₀ c kw)) v := by
  intro out r' hok
  have hW := world_any X₀ h (DncArg X₀ c kw)
  obtain ⟨hinv, hq⟩ := construct_ps X₀ hX hW _ c kw
    (fun d hd hdnc v hv => good_of_S ⟨d, hd, hdnc, hv⟩) (start h φ b) (HInv.start h _)
  obtain ⟨j, rfl, hj⟩ := hq r' hok
  exact ⟨j, rfl, hj, fun node hn v hv => hinv.prov j node hj hn v hv⟩

/-- `init_fresh_good` for instance nodes, field by field. -/
theorem init_fresh_good_fields (X₀ : Ctx) (hX : NoClassDnc X₀) (h : Heap) (c : Nat)
    (kw : List (Nat × Ref)) (φ : List (CbKind × Nat)) (b : Option Nat) :
    let out := construct X₀ (X₀.T.length + 1) c kw (start h φ b)
    ∀ j, out.1 = .ok (.obj j) → ∀ c' t fs, out.2.heap[j]? = some (.inst c' t fs) →
      ∀ a v, (a, v) ∈ fs → Good h.length (AllowedFrom X₀ h (DncArg X₀ c kw)) v := by
  intro out j hok c' t fs hn a v hav
  obtain ⟨j', hj', _, hch⟩ := init_fresh_good X₀ hX h c kw φ b (.obj j) hok
  cases hj'
  exact good_of_children_inst (hch _ hn) (a, v) hav

/-- Without `do_not_copy` attributes every field of a new instance is a scalar
or an object allocated by the constructor. -/
theorem init_fresh_nodnc (X₀ : Ctx) (hX : NoClassDnc X₀) (hN : NoAttrDnc X₀) (h : Heap) (c : Nat)
    (kw : List (Nat × Ref)) (φ : List (CbKind × Nat)) (b : Option Nat) :
    let out := construct X₀ (X₀.T.length + 1) c kw (start h φ b)
    ∀ j, out.1 = .ok (.obj j) → ∀ c' t fs, out.2.heap[j]? = some (.inst c' t fs) →
      ∀ a v, (a, v) ∈ fs → FreshRef h.length v := by
  intro out j hok c' t fs hn a v hav
  have hg := init_fresh_good_fields X₀ hX h c kw φ b j hok c' t fs hn a v hav
  intro k hk
  subst hk
  rcases hg with hge | hd | ⟨w, ⟨d, hd, hdnc, _⟩, _⟩
  · exact hge
  · exact (not_dncAny_of_noAttrDnc hN hd).elim
  · rw [hN c d hd] at hdnc; cases hdnc

/-! ## peers_isolated -/

/-- **init_disjoint**: every pre-existing object reachable from a new instance
is shared through `do_not_copy` (attribute of an old instance, or argument
supplied for a `do_not_copy` attribute). -/
theorem init_disjoint (X₀ : Ctx) (hX : NoClassDnc X₀) (h : Heap) (c : Nat) (kw : List (Nat × Ref))
    (φ : List (CbKind × Nat)) (b : Option Nat) :
    let out := construct X₀ (X₀.T.length + 1) c kw (start h φ b)
    ∀ r', out.1 = .ok r' → ∀ j, Reach out.2.heap r' j → j < h.length →
      AllowedFrom X₀ h (DncArg X₀ c kw) j := by
  intro out r' hok j hj hlt
  have hW := world_any X₀ h (DncArg X₀ c kw)
  obtain ⟨hinv, hq⟩ := construct_ps X₀ hX hW _ c kw
    (fun d hd hdnc v hv => good_of_S ⟨d, hd, hdnc, hv⟩) (start h φ b) (HInv.start h _)
  rcases reach_good hW hinv hj (hq r' hok).good with hge | hA
  · omega
  · exact hA

/-- **peers_isolated** (reachability form): without `do_not_copy` attributes a
freshly constructed instance reaches no pre-existing object — no class-level
default, no constructor argument, no part of another instance. -/
theorem peers_isolated (X₀ : Ctx) (hX : NoClassDnc X₀) (hN : NoAttrDnc X₀) (h : Heap) (c : Nat)
    (kw : List (Nat × Ref)) (φ : List (CbKind × Nat)) (b : Option Nat) :
    let out := construct X₀ (X₀.T.length + 1) c kw (start h φ b)
    ∀ r', out.1 = .ok r' → ∀ j, Reach out.2.heap r' j → h.length ≤ j := by
  intro out r' hok j hj
  by_cases hlt : j < h.length
  · rcases init_disjoint X₀ hX h c kw φ b r' hok j hj hlt with hd | ⟨w, ⟨d, hd, hdnc, _⟩, _⟩
    · exact (not_dncAny_of_noAttrDnc hN hd).elim
    · rw [hN c d hd] at hdnc; cases hdnc
  · omega

/-- **peers_isolated** (mutation form), first half: overwriting any pre-existing
object `i` (in-place mutation of a class default, a constructor argument or
another instance) after the construction changes neither what the new instance
reaches nor the content of anything it reaches. -/
theorem peers_isolated_old_write (X₀ : Ctx) (hX : NoClassDnc X₀) (hN : NoAttrDnc X₀) (h : Heap)
    (c : Nat) (kw : List (Nat × Ref)) (φ : List (CbKind × Nat)) (b : Option Nat)
    (i : Nat) (hi : i < h.length) (n : Node) :
    let out := construct X₀ (X₀.T.length + 1) c kw (start h φ b)
    ∀ r', out.1 = .ok r' →
      (∀ j, Reach (out.2.heap.set i n) r' j ↔ Reach out.2.heap r' j) ∧
      (∀ j, Reach out.2.heap r' j → (out.2.heap.set i n)[j]? = out.2.heap[j]?) := by
  intro out r' hok
  have hni : ¬ Reach out.2.heap r' i := by
    intro hreach
    have := peers_isolated X₀ hX hN h c kw φ b r' hok i hreach
    omega
  exact ⟨reach_set_of_not_reach n hni, fun j hj => node_set_of_not_reach n hni hj⟩

/-- **peers_isolated** (mutation form), second half: in a closed start heap, a
pre-existing reference `r` (class default, argument, other instance) reaches
after the construction exactly what it reached before, all of it unchanged and
pre-existing; so overwriting any object `i` allocated by the constructor
(in-place mutation of the new instance or of anything only it owns) is
invisible through `r`. -/
theorem peers_isolated_new_write (X₀ : Ctx) (hX : NoClassDnc X₀) (h : Heap) (hc : Closed h)
    (c : Nat) (kw : List (Nat × Ref)) (φ : List (CbKind × Nat)) (b : Option Nat)
    (r : Ref) (hr : Below h.length r) (i : Nat) (hi : h.length ≤ i) (n : Node) :
    let out := construct X₀ (X₀.T.length + 1) c kw (start h φ b)
    (∀ j, Reach out.2.heap r j ↔ Reach h r j) ∧
    (∀ j, Reach (out.2.heap.set i n) r j ↔ Reach h r j) ∧
    (∀ j, Reach h r j → (out.2.heap.set i n)[j]? = h[j]?) := by
  intro out
  have hfr : ∀ k, k < h.length → out.2.heap[k]? = h[k]? := by
    intro k hk
    obtain ⟨hp, _⟩ := construct_safe (n₀ := h.length) (W := fun _ => False) X₀ hX _ c kw
      (start h φ b) (Nat.le_refl _)
    exact hp.frame k hk (fun hf => hf)
  have h1 : ∀ j, Reach out.2.heap r j ↔ Reach h r j := reach_of_frame hc hfr hr
  have hni : ¬ Reach out.2.heap r i := by
    intro hreach
    have := reach_below hc ((h1 i).1 hreach) hr
    omega
  refine ⟨h1, fun j => (reach_set_of_not_reach n hni j).trans (h1 j), ?_⟩
  intro j hj
  rw [node_set_of_not_reach n hni ((h1 j).2 hj)]
  exact hfr j (reach_below hc hj hr)

/-! ## Non-vacuity -/

/-- `class C0: a0: List[int] = Attr(default_factory=lambda: [1]);
a1: List[int] = Attr(default_factory=lambda: [2], do_not_copy=True)` -/
def T2 : List ClassDecl :=
  [{ attrs := [{ name := 0, kind := .listInt, dk := .factory, lit := .list [.int 1], owner := 0 },
               { name := 1, kind := .listInt, dk := .factory, lit := .list [.int 2], dnc := true,
                 owner := 0 }] }]

def X2 : Ctx := (boot T2).1
def h2 : Heap := (step X2 (boot T2).2 (.construct 0 []) [] none).2.heap

example : noClassDncB T2 = true := by decide
example : h2 = [.inst 0 false [(0, .obj 1), (1, .obj 2)],
                .list [.sc (.int 1)], .list [.sc (.int 2)]] := by decide
/-- `C0(a0=l1, a1=l2)`: `a0` is copied (new object 4), the `do_not_copy` argument
`a1` is stored by reference (object 2) -/
example : (step X2 h2 (.construct 0 [(0, .obj 1), (1, .obj 2)]) [] none).1 = .ok (.obj 3) := by
  decide
example : (step X2 h2 (.construct 0 [(0, .obj 1), (1, .obj 2)]) [] none).2.heap[3]?
    = some (.inst 0 false [(0, .obj 4), (1, .obj 2)]) := by decide
/-- `del v.a1` installs a new default list (object 3) in place -/
example : (step X2 h2 (.delattr (.obj 0) 1) [] none).1 = .ok (.obj 0) := by decide
example : (step X2 h2 (.delattr (.obj 0) 1) [] none).2.heap[0]?
    = some (.inst 0 false [(0, .obj 1), (1, .obj 3)]) := by decide
/-- `v.reset_a1()` returns the new instance 3 whose `a1` is the new object 5 -/
example : (step X2 h2 (.resetAttr (.obj 0) 1 false) [] none).2.heap[3]?
    = some (.inst 0 false [(0, .obj 4), (1, .obj 5)]) := by decide
/-- the C01 table (class-level default list, object 0): the constructor copies it (object 2) -/
example : (step X1 (boot T1).2 (.construct 0 [(0, .sc (.int 5))]) [] none).2.heap
    = [.list [.sc (.int 1), .sc (.int 2)],
       .inst 0 false [(0, .sc (.int 5)), (1, .obj 2)],
       .list [.sc (.int 1), .sc (.int 2)]] := by decide

end SpecVerif.Props.C08
