import SpecVerif.Proofs.C09
import SpecVerif.Proofs.C09History
/-!
# C09 — the generated constructor assigns exactly what the class hierarchy specifies

Property theorems only (helper lemmas are in `Proofs/C09.lean`). Every theorem is
about the executable definitions of `Model/C09.lean` (`construct`, `bindGenerated`,
`lookupDefault`, … — the functions the driver runs against the real `spec_classes`).

Quantification: ANY class table (any number of classes, any depth and width of
inheritance; the MRO of each class is part of the table), any target class `c`, any
positional/keyword arguments, subject to the explicit decidable predicate
`wfCall env c` (`Model/C09.lean`; the driver evaluates it for every generated call and the
harness re-evaluates it on the REAL metadata) and — where stated — `allGenerated env c`
(no hand-written `__init__` among the spec classes of the MRO).

Spec: `nearestDefault cs mro a` — one line: the first class along the MRO whose body
assigns `a` supplies the default. "Prepared" = `specPrepare`: the preparer DECLARED for the attribute
(`declaredPrep`, a function of the declared class bodies alone), items of a collection through the
declared item preparer.

No state is shared between classes: `bootstrapAll_prefix` (metadata and class dict of a class are fixed
once it is bootstrapped) and `construct_ignores_later_classes` (what a constructor does is the same
whether or not further classes — subclasses, siblings — are defined/bootstrapped). The harness plays
histories on the real code (parent constructed before and after each subclass / sibling was first
used) against this history-free model.

Two open findings of the real code are modelled as they are; `wfCall` excludes them
(clauses marked STRICT in `wfAttr`/`wfCallG`), the full statements are kept as `def … : Prop`
together with `decide`d witnesses that they fail:
`KF-C09-diamond-second-parent`, `KF-C09-plain-subclass-key-default`.
-/
set_option linter.unusedSectionVars false
set_option linter.unusedSimpArgs false
set_option linter.unusedVariables false
namespace SpecVerif.Props.C09
open SpecVerif.Py SpecVerif.C09

/-- SPEC of "prepared": the value run through the preparer the hierarchy DECLARES for `a` on class `c`
(`declaredPrep`: the `_prepare_<a>` visible from the nearest class along `c`'s MRO that (re)builds the
attribute — a function of the declared class table alone, not of any metadata), then — collection
attributes — every item through the declared item preparer. -/
def specPrepare (env : Env) (c : Cls) (a : Name) (w : Val) : Val :=
  applyItemPrep (env.ty a) (declaredPrep env.classes (·.itemPreps) (mroOf env.classes c) a)
    (applyPrep (declaredPrep env.classes (·.preps) (mroOf env.classes c) a) w)

/-- SPEC of the instance `__dict__` entry of an init-enabled managed attribute after construction:
the prepared keyword value if one was given (the key possibly positionally), otherwise the
prepared nearest default along the MRO, otherwise no entry. -/
def expectedField (env : Env) (c : Cls) (im : Meta) (pos : List Val) (kw : Kw) (a : Name) : Option Val :=
  let given := givenVal im pos kw a
  let w := if given = .missing then nearestDefault env.classes (mroOf env.classes c) a else given
  if w = .missing then none else some (specPrepare env c a w)

variable {env : Env} {c : Cls} {im : Meta} {pos : List Val} {kw : Kw} {s : St}

/-- `instMeta` is the metadata `wfCall` speaks about. -/
theorem wf_meta (hw : wfCall env c = true) (him : instMeta env c = some im) :
    ∃ k, WFP env c k im := by
  obtain ⟨k, im', w⟩ := wfCall_spec hw
  have : im' = im := by
    unfold instMeta at him
    rw [w.hinst] at him
    simp only [Option.bind_some] at him
    rw [w.hmeta] at him; cases him; rfl
  subst this
  exact ⟨k, w⟩

/-- **ctor_resolves (partial: `wfCall` excludes the two open findings and the two readings).**
After a successful construction through generated constructors, every init-enabled managed
attribute (other than the overflow attribute) holds the prepared keyword value if one was given,
else the prepared nearest default along the MRO, else it is absent from the instance. -/
theorem ctor_resolves_partial (hw : wfCall env c = true) (hg : allGenerated env c = true)
    (him : instMeta env c = some im) (hok : construct env c pos kw = (s, none)) :
    ∀ a sp, (a, sp) ∈ im.attrs → sp.init = true → some a ≠ im.ovf →
      assoc s.fields a = expectedField env c im pos kw a := by
  obtain ⟨k, w⟩ := wf_meta hw him
  intro a sp hm hinit hov
  rw [construct_ok w hg hok, w.field_of _ a sp hm hinit hov]
  unfold expectedField resolveVal
  rw [kwGet_boundKw, w.lookup_eq_nearest hm hinit]
  have hp := w.preps (a, sp) hm hinit
  unfold wfPrep at hp
  simp only [Bool.and_eq_true, beq_iff_eq] at hp
  have hpv : ∀ v, prepareVal env im a v = specPrepare env c a v := by
    intro v
    unfold prepareVal specPrepare
    rw [assoc_eq_some_of_mem w.nodupA hm]
    simp only [hp.1, hp.2]
  simp only [hpv]

/-- Attributes with `init=False` (and the overflow attribute) are never written as ordinary
attributes by generated constructors: they read as the class-level default. -/
theorem noninit_not_assigned (hw : wfCall env c = true) (hg : allGenerated env c = true)
    (him : instMeta env c = some im) (hok : construct env c pos kw = (s, none)) (a : Name)
    (h : ∀ sp, (a, sp) ∈ im.attrs → sp.init = false ∨ some a = im.ovf) :
    assoc s.fields a = none ∧
    attrValue env c s a = classGetattr env.classes (mroOf env.classes c) a := by
  obtain ⟨k, w⟩ := wf_meta hw him
  have := w.field_untouched (boundKw im pos kw) a h
  rw [← construct_ok w hg hok] at this
  exact ⟨this, by simp [attrValue, this]⟩

/-- A generated top-level constructor is its signature binding followed by `InitMethod.init`. -/
theorem construct_generated (him : instMeta env c = some im) (hgen : allGenerated env c = true) :
    ∃ k, instInfo env c = some k ∧ construct env c pos kw =
      match bindGenerated im pos kw with
      | .error e => (St.empty, some e)
      | .ok kwargs => initOwner env im (mroOf env.classes c) k kwargs St.empty := by
  unfold instMeta at him
  cases hi : instInfo env c with
  | none => simp [hi] at him
  | some k =>
    have hm : k.«meta» = some im := by simpa [hi] using him
    have hh : k.cdef.hand = none := by
      unfold allGenerated at hgen
      rw [hi] at hgen
      simp only [Bool.and_eq_true, Option.isNone_iff_eq_none] at hgen
      exact hgen.1
    refine ⟨k, rfl, ?_⟩
    unfold construct
    have hi' : firstSpecCls env.classes (mroOf env.classes c) = some k := hi
    simp only [hi', hh, hm]
    cases bindGenerated im pos kw <;> rfl

/-- **key_positional.** Passing the key positionally is the same call as passing it by keyword. -/
theorem key_positional (him : instMeta env c = some im) (hgen : allGenerated env c = true)
    {kn : Name} (hk : im.key = some kn) (v : Val) (hnk : hasName kw kn = false) :
    construct env c [v] kw = construct env c [] ((kn, v) :: kw) := by
  have he : dictErase kw kn = kw := by
    have hn : kn ∉ kw.map (·.1) := by
      intro hm; have := hasName_iff.2 hm; rw [hnk] at this; cases this
    clear hnk
    induction kw with
    | nil => rfl
    | cons x r ih =>
      obtain ⟨n, w⟩ := x
      simp only [List.map_cons, List.mem_cons, not_or] at hn
      have hne : ¬ n = kn := fun e => hn.1 e.symm
      simp [dictErase, hne, ih hn.2]
  have e2 : dictErase ((kn, v) :: kw) kn = kw := by simp [dictErase, he]
  have hb : bindGenerated im [v] kw = bindGenerated im [] ((kn, v) :: kw) := by
    have k1 : keyValue im kn [v] kw = .ok v := by simp [keyValue, hnk]
    have k2 : keyValue im kn [] ((kn, v) :: kw) = .ok v := by simp [keyValue, assoc]
    unfold bindGenerated
    simp only [hk, k1, k2, e2, he]
    rfl
  obtain ⟨k, _, h1⟩ := construct_generated (pos := [v]) (kw := kw) him hgen
  obtain ⟨k', _, h2⟩ := construct_generated (pos := []) (kw := (kn, v) :: kw) him hgen
  have : k = k' := by simp_all
  subst this
  rw [h1, h2, hb]

/-- **unknown_kw.** Without an overflow attribute a keyword that is neither the key nor an
init-enabled managed attribute makes the generated constructor raise `TypeError` before anything
is assigned. -/
theorem unknown_kw (him : instMeta env c = some im) (hgen : allGenerated env c = true)
    (hov : im.ovf = none) (hu : ∃ p ∈ kw, p.1 ∉ validNames im ∧ some p.1 ≠ im.key) :
    construct env c pos kw = (St.empty, some .typeError) := by
  obtain ⟨p, hp, hnv, hnk⟩ := hu
  have hinv : invalidKw im (restKw im kw) = true := by
    unfold invalidKw
    have hmem : p ∈ restKw im kw := by
      unfold restKw
      cases hk : im.key with
      | none => exact hp
      | some kn =>
        have hpk : p.1 ≠ kn := by intro e; rw [hk, e] at hnk; exact hnk rfl
        simp only
        rw [dictErase_eq_filter, List.mem_filter]; exact ⟨hp, by simpa using hpk⟩
    have : (restKw im kw).any (fun p => !(validNames im).contains p.1) = true := by
      rw [List.any_eq_true]; exact ⟨p, hmem, by simpa using hnv⟩
    rw [hov, this]; rfl
  obtain ⟨k, _, h1⟩ := construct_generated (pos := pos) (kw := kw) him hgen
  rw [h1]
  cases hb : bindGenerated im pos kw with
  | error e => rw [bindGenerated_error hb]
  | ok kwargs =>
    have := bindGenerated_ok_valid hb
    rw [hinv] at this; cases this

/-- **key_required_iff_no_default (partial: `wfCall` excludes KF-C09-plain-subclass-key-default and
the diamond finding).** With the key absent from an otherwise acceptable call, the generated
constructor raises `TypeError` exactly when the key has no default along the MRO; when it has
one, binding succeeds with the key left to default resolution. -/
theorem key_required_iff_no_default_partial (hw : wfCall env c = true) (hgen : allGenerated env c = true)
    (him : instMeta env c = some im) {kn : Name} (hk : im.key = some kn) (hnk : hasName kw kn = false)
    (hvalid : im.ovf.isNone → ∀ p ∈ kw, p.1 ∈ validNames im) :
    (nearestDefault env.classes (mroOf env.classes c) kn = .missing →
        construct env c [] kw = (St.empty, some .typeError)) ∧
    (nearestDefault env.classes (mroOf env.classes c) kn ≠ .missing →
        bindGenerated im [] kw = .ok ((kn, .missing) :: dictErase kw kn)) := by
  obtain ⟨k, w⟩ := wf_meta hw him
  obtain ⟨sp, hsp, _, _, hdef⟩ := w.key kn hk
  have hnone : assoc kw kn = none := by
    unfold hasName at hnk
    cases h : assoc kw kn with
    | none => rfl
    | some v => simp [h] at hnk
  have hvalid' : invalidKw im (dictErase kw kn) = false := by
    rw [Bool.eq_false_iff]
    intro h
    unfold invalidKw at h
    simp only [Bool.and_eq_true, List.any_eq_true] at h
    obtain ⟨h1, p, hp, hp2⟩ := h
    rw [dictErase_eq_filter, List.mem_filter] at hp
    have := hvalid h1 p hp.1
    simp [this] at hp2
  constructor
  · intro hmiss
    have hd : sp.hasDefault = false := by rw [hdef, hmiss]; rfl
    have kv : keyValue im kn [] kw = .error .typeError := by simp [keyValue, hnone, hsp, hd]
    have hb : bindGenerated im [] kw = .error .typeError := by
      unfold bindGenerated; simp [hk, kv]
    obtain ⟨k', _, h1⟩ := construct_generated (pos := []) (kw := kw) him hgen
    rw [h1, hb]
  · intro hhas
    have hd : sp.hasDefault = true := by rw [hdef]; simpa using hhas
    have kv : keyValue im kn [] kw = .ok .missing := by simp [keyValue, hnone, hsp, hd]
    unfold bindGenerated
    simp [hk, kv, hvalid']

/-- **overflow_exact.** The overflow attribute receives exactly the keywords that are not
init-enabled managed attributes (unknown names, `init=False` names, and its own name), with their
values, in call order. -/
theorem overflow_exact (hw : wfCall env c = true) (hg : allGenerated env c = true)
    (him : instMeta env c = some im) (hok : construct env c pos kw = (s, none))
    {o : Name} (ho : im.ovf = some o) :
    s.ovf = some (kw.filter (fun p => match assoc im.attrs p.1 with
      | none => true
      | some sp => !sp.init || p.1 == o)) := by
  obtain ⟨k, w⟩ := wf_meta hw him
  rw [construct_ok w hg hok, w.final_ovf, ho]
  simp only [Option.map_some, Option.some.injEq]
  have hfun : (fun p : Name × Val => match assoc im.attrs p.1 with
      | none => true
      | some sp => !sp.init || p.1 == o) = ovfFilter im o := by
    funext p; unfold ovfFilter; rfl
  rw [hfun]
  unfold boundKw
  cases hk : im.key with
  | none => rfl
  | some kn =>
    obtain ⟨sp, hsp, hinit, hne, _⟩ := w.key kn hk
    have hkn : ovfFilter im o (kn, givenVal im pos kw kn) = false := by
      have : ¬ kn = o := by intro e; rw [ho, e] at hne; exact hne rfl
      simp [ovfFilter, hsp, hinit, this]
    simp only [List.filter_cons, hkn, Bool.false_eq_true, if_false, dictErase_eq_filter, List.filter_filter]
    apply List.filter_congr
    intro x _
    by_cases hx : x.1 = kn
    · have : ovfFilter im o x = false := by
        have hne' : ¬ kn = o := by intro e; rw [ho, e] at hne; exact hne rfl
        simp [ovfFilter, hx, hsp, hinit, hne']
      simp [this]
    · simp [hx]

/-- Without an overflow attribute nothing is collected. -/
theorem no_overflow (hw : wfCall env c = true) (hg : allGenerated env c = true)
    (him : instMeta env c = some im) (hok : construct env c pos kw = (s, none)) (ho : im.ovf = none) :
    s.ovf = none := by
  obtain ⟨k, w⟩ := wf_meta hw him
  rw [construct_ok w hg hok, w.final_ovf, ho]; rfl

/-- **owner_ctor_called_once.** The constructor bodies entered are: the instance's own spec class,
then every decorated class of its MRO — hand-written constructors included — each exactly once, from
the most basic upwards. -/
theorem owner_ctor_called_once (hw : wfCall env c = true) (ht : topGenerated env c = true)
    (hok : construct env c pos kw = (s, none)) :
    ∃ k, instInfo env c = some k ∧
      ctorCalls s.trace = k.cdef.name :: k.cdef.mro.tail.reverse.filter (isSpec env) ∧
      ∀ p ∈ k.cdef.mro, isSpec env p = true → (ctorCalls s.trace).count p = 1 := by
  obtain ⟨k, im, w⟩ := wfCall_spec hw
  have hc := (construct_trace_any w ht hok).1
  refine ⟨k, w.hinst, hc, ?_⟩
  intro p hp hsp
  rw [hc]
  have hnd : (k.cdef.name :: k.cdef.mro.tail.reverse.filter (isSpec env)).Nodup := by
    rw [List.nodup_cons]
    constructor
    · intro hm
      have := (List.mem_filter.1 hm).1
      exact w.tail_ne (List.mem_reverse.1 this) rfl
    · exact List.Nodup.sublist List.filter_sublist w.revNodup
  rw [hnd.count]
  have : p ∈ k.cdef.name :: k.cdef.mro.tail.reverse.filter (isSpec env) := by
    rw [mro_eq_cons w.head] at hp
    rcases List.mem_cons.1 hp with e | e
    · rw [e]; exact List.mem_cons_self
    · exact List.mem_cons_of_mem _ (List.mem_filter.2 ⟨List.mem_reverse.2 e, hsp⟩)
  rw [if_pos this]

/-- **each_attr_assigned_once (generated constructors).** No attribute is written twice, and an
init-enabled attribute is written iff it ends up in the instance. -/
theorem each_attr_assigned_once (hw : wfCall env c = true) (hg : allGenerated env c = true)
    (him : instMeta env c = some im) (hok : construct env c pos kw = (s, none)) :
    (setNames s.trace).Nodup ∧
    ∀ a sp, (a, sp) ∈ im.attrs → sp.init = true → some a ≠ im.ovf →
      (a ∈ setNames s.trace ↔ assoc s.fields a ≠ none) := by
  obtain ⟨k, w⟩ := wf_meta hw him
  have hnot : ∀ o, im.ovf = some o → o ∉ (allPlan env im (mroOf env.classes c) k (boundKw im pos kw)).map (·.1) := by
    intro o ho hm
    obtain ⟨⟨a', v⟩, hv, ha'⟩ := List.mem_map.1 hm
    simp only at ha'; subst ha'
    obtain ⟨_, _, _, h3, _, _⟩ := (w.mem_allPlan _ _ v).1 hv
    exact h3 ho.symm
  constructor
  · rw [construct_ok w hg hok, w.final_setNames]
    cases ho : im.ovf with
    | none => simpa using w.allPlan_names_nodup _
    | some o =>
      simp only [Option.toList_some]
      rw [List.nodup_append]
      refine ⟨w.allPlan_names_nodup _, by simp, ?_⟩
      intro a ha b hb e
      simp only [List.mem_singleton] at hb
      subst e; subst hb
      exact hnot _ ho ha
  · intro a sp hm hinit hov
    rw [construct_ok w hg hok, w.final_setNames, w.field_of _ a sp hm hinit hov]
    have hmem : a ∈ (allPlan env im (mroOf env.classes c) k (boundKw im pos kw)).map (·.1) ↔
        resolveVal env (mroOf env.classes c) (boundKw im pos kw) a sp ≠ .missing := by
      constructor
      · intro h
        obtain ⟨⟨a', v⟩, hv, ha'⟩ := List.mem_map.1 h
        simp only at ha'; subst ha'
        obtain ⟨sp', h1, _, _, h4, _⟩ := (w.mem_allPlan _ _ v).1 hv
        have : sp' = sp := by
          have e1 := assoc_eq_some_of_mem w.nodupA h1
          have e2 := assoc_eq_some_of_mem w.nodupA hm
          rw [e1] at e2; cases e2; rfl
        rw [this] at h4; exact h4
      · intro h
        exact List.mem_map.2 ⟨(a, _), (w.mem_allPlan _ a _).2 ⟨sp, hm, hinit, hov, h, rfl⟩, rfl⟩
    have hov' : a ∉ im.ovf.toList := by
      cases ho : im.ovf with
      | none => simp
      | some o => simp only [Option.toList_some, List.mem_singleton]; intro e; rw [ho, e] at hov; exact hov rfl
    rw [List.mem_append, hmem]
    constructor
    · rintro (h | h)
      · simp [h]
      · exact absurd h hov'
    · intro h
      left
      intro e
      simp [e] at h

/-- **post_init_once_last.** `__post_init__` — the nearest one along the MRO of the instance's class
(`postOf`) — runs exactly once, as the very last step (hand-written parent constructors included);
without one nothing of the kind runs. -/
theorem post_init_once_last (hw : wfCall env c = true) (ht : topGenerated env c = true)
    (hok : construct env c pos kw = (s, none)) :
    postCalls s.trace = (postOf env (mroOf env.classes c)).toList ∧
    ∀ pc, postOf env (mroOf env.classes c) = some pc → s.trace.getLast? = some (.post pc) := by
  obtain ⟨k, im, w⟩ := wfCall_spec hw
  exact (construct_trace_any w ht hok).2

/-! ## No state shared between the classes of a family -/

/-- **bootstrapAll_prefix.** Bootstrapping further classes (subclasses, siblings, unrelated classes) leaves the
class `__dict__` and the metadata — every `Attr` with its default, options, owner, preparer and item preparer —
of the classes bootstrapped before exactly as they were. -/
theorem bootstrapAll_prefix (defs more : List ClassDef) :
    ∃ ex, bootstrapAll (defs ++ more) = bootstrapAll defs ++ ex := by
  rw [bootstrapAll_append]
  exact bootstrapFrom_prefix _ _

/-- **construct_ignores_later_classes.** For a class `c` of a table `defs` (closed under its MROs), a constructor
call does exactly the same — same instance state, same exception, same events — whether or not further classes
`more` (subclasses of `c`, siblings, …) are defined and bootstrapped: what `c(...)` assigns depends on what the
hierarchy of `c` specifies, not on which other classes of the family exist or were used. -/
theorem construct_ignores_later_classes (tys : List (Name × Ty)) (defs more : List ClassDef)
    (c : Cls) (pos : List Val) (kw : Kw)
    (hc : (findCls (bootstrapAll defs) c).isSome = true) (hcl : closedTable (bootstrapAll defs) = true) :
    construct { tys := tys, classes := bootstrapAll (defs ++ more) } c pos kw =
      construct { tys := tys, classes := bootstrapAll defs } c pos kw := by
  obtain ⟨ex, h⟩ := bootstrapAll_prefix defs more
  rw [h]
  exact construct_append { tys := tys, classes := bootstrapAll defs } ex c pos kw hc hcl

/-! ## Non-vacuity and the open findings -/

namespace Examples

def mk (name : Cls) (bases mro : List Cls) (spec : Bool) (key ovf : Option (Option Name)) (post : Bool)
    (decls : List Decl) : ClassDef :=
  { name := name, bases := bases, mro := mro, spec := spec, keyArg := key, ovfArg := ovf, decls := decls,
    hand := none, post := post }

def dA : ClassDef := { mk "A" [] ["A"] true (some (some "k")) (some (some "o")) true
  [⟨"k", true, none⟩, ⟨"a", true, some (.lit (.int 1))⟩, ⟨"h", true, some (.attrObj (.int 2) .missing false)⟩]
  with preps := [("a", 1)] }
def dB : ClassDef := mk "B" [] ["B"] true none none false [⟨"b", true, some (.attrObj .missing (.list [3]) true)⟩]
def dC : ClassDef := mk "C" ["A", "B"] ["C", "A", "B"] true none none false
  [⟨"c", true, none⟩, ⟨"a", false, some (.lit (.int 7))⟩]
def dD : ClassDef := mk "D" ["C"] ["D", "C", "A", "B"] false none none false [⟨"c", false, some (.lit (.str "x"))⟩]
/-- Two spec parents (one keyed, with overflow, `init=False` attribute and `__post_init__`), a spec
subclass that re-defaults, a plain subclass that supplies a default. -/
def env1 : Env :=
  { tys := [("a", .int), ("b", .any), ("c", .str), ("h", .int), ("k", .str), ("o", .dict)],
    classes := bootstrapAll [dA, dB, dC, dD] }

example : wfCall env1 "D" = true ∧ allGenerated env1 "D" = true := by decide
/-- `D("key", a=205, zz=5)`: keyword prepared (205 % 100), `b` from B's factory, `c` from the plain
subclass, unknown keyword collected, constructors A, B once each, `__post_init__` last. -/
example : construct env1 "D" [.str "key"] [("a", .int 205), ("zz", .int 5)] =
    ({ fields := [("b", .list [3]), ("k", .str "key"), ("a", .int 5), ("c", .str "x")],
       ovf := some [("zz", .int 5)],
       trace := [.ctor "C", .ctor "B", .set "b" (.list [3]), .ctor "A", .set "k" (.str "key"),
                 .set "a" (.int 5), .set "c" (.str "x"), .setOvf "o", .post "A"] }, none) := by decide
example : construct env1 "D" [] [] = (St.empty, some .typeError) := by decide   -- key required

/-! ### preparers per class: declared, overridden without re-declaration, re-defaulted -/
def pA : ClassDef := { mk "A" [] ["A"] true none none false
  [⟨"a", true, some (.lit (.int 1))⟩, ⟨"ns", true, some (.attrObj .missing (.list [4]) true)⟩]
  with preps := [("a", 1)], itemPreps := [("ns", 1)] }
/-- overrides both preparers WITHOUT mentioning the attributes: the parent's `Attr`s are handed down as they are -/
def pB : ClassDef := { mk "B" ["A"] ["B", "A"] true none none false [⟨"b", true, none⟩]
  with preps := [("a", 2)], itemPreps := [("ns", 2)] }
/-- re-defaults `a` by a plain value: a new `Attr` is built, with the preparer visible from `C` -/
def pC : ClassDef := { mk "C" ["A"] ["C", "A"] true none none false [⟨"a", false, some (.lit (.int 7))⟩]
  with preps := [("a", 3)] }
def envP : Env := { tys := [("a", .int), ("b", .int), ("ns", .ints)], classes := bootstrapAll [pA, pB, pC] }

example : wfCall envP "A" = true ∧ wfCall envP "B" = true ∧ wfCall envP "C" = true ∧
    allGenerated envP "B" = true ∧ closedTable envP.classes = true ∧
    closedTable (bootstrapAll [pA]) = true := by decide
example : (construct envP "A" [] [("a", .int 205), ("ns", .list [301, 7])]).1.fields =
    [("a", .int 5), ("ns", .list [1, 7])] := by decide
example : (construct envP "B" [] [("a", .int 205), ("ns", .list [301, 7])]).1.fields =
    [("a", .int 5), ("ns", .list [1, 7])] := by decide
example : (construct envP "C" [] [("a", .int 205)]).1.fields = [("a", .int 2005), ("ns", .list [4])] := by decide
/-- the same call on `A` in the family where `B` and `C` do not exist -/
example : construct envP "A" [] [("a", .int 205)] =
    construct { tys := envP.tys, classes := bootstrapAll [pA] } "A" [] [("a", .int 205)] :=
  construct_ignores_later_classes _ [pA] [pB, pC] "A" _ _ (by decide) (by decide)

/-! ### KF-C09-diamond-second-parent -/
def dR : ClassDef := mk "R" [] ["R"] true none none false [⟨"d", true, some (.lit (.int 7))⟩]
def dA2 : ClassDef := mk "A" ["R"] ["A", "R"] true none none false []
def dB2 : ClassDef := mk "B" ["R"] ["B", "R"] true none none false [⟨"d", true, some (.attrObj .missing (.int 1) true)⟩]
def dC2 : ClassDef := mk "C" ["A", "B"] ["C", "A", "B", "R"] true none none false []
def env2 : Env := { tys := [("d", .int)], classes := bootstrapAll [dR, dA2, dB2, dC2] }

/-! ### KF-C09-plain-subclass-key-default -/
def dK : ClassDef := mk "A" [] ["A"] true (some (some "k")) none false [⟨"k", true, none⟩]
def dP : ClassDef := mk "P" ["A"] ["P", "A"] false none none false [⟨"k", false, some (.lit (.str "y"))⟩]
def env3 : Env := { tys := [("k", .str)], classes := bootstrapAll [dK, dP] }

end Examples

/-- The statement of `ctor_resolves` WITHOUT the coherence clauses of `wfCall` (only `wfCore`). -/
def ctor_resolves_full : Prop :=
  ∀ (env : Env) (c : Cls) (im : Meta) (pos : List Val) (kw : Kw) (s : St),
    wfCore env c = true → allGenerated env c = true → instMeta env c = some im →
    construct env c pos kw = (s, none) →
    ∀ a sp, (a, sp) ∈ im.attrs → sp.init = true → some a ≠ im.ovf →
      assoc s.fields a = expectedField env c im pos kw a

/-- KF-C09-diamond-second-parent: in the diamond `R; A(R); B(R) re-declares d with a factory; C(A, B)`
`C()` leaves `d` unset although the nearest default along the MRO (B's) exists. -/
theorem ctor_resolves_full_fails : ¬ ctor_resolves_full := by
  intro h
  have := h Examples.env2 "C" (bootstrapMeta (bootstrapAll [Examples.dR, Examples.dA2, Examples.dB2]) Examples.dC2)
    [] [] (construct Examples.env2 "C" [] []).1 (by decide) (by decide) (by decide) (by decide)
    "d" { default := .int 7, factory := .missing, init := true, owner := "R" } (by decide) rfl (by decide)
  revert this
  decide

/-- The statement of `key_required_iff_no_default` WITHOUT the static-signature clause. -/
def key_required_iff_no_default_full : Prop :=
  ∀ (env : Env) (c : Cls) (im : Meta) (kw : Kw) (kn : Name),
    wfCore env c = true → allGenerated env c = true → instMeta env c = some im →
    im.key = some kn → hasName kw kn = false → (im.ovf.isNone → ∀ p ∈ kw, p.1 ∈ validNames im) →
    (nearestDefault env.classes (mroOf env.classes c) kn ≠ .missing →
        bindGenerated im [] kw = .ok ((kn, .missing) :: dictErase kw kn))

/-- KF-C09-plain-subclass-key-default: `class P(A): k = 'y'` — `P()` still raises `TypeError`. -/
theorem key_required_iff_no_default_full_fails : ¬ key_required_iff_no_default_full := by
  intro h
  have := h Examples.env3 "P" (bootstrapMeta [] Examples.dK) [] "k"
    (by decide) (by decide) (by decide) (by decide) (by decide) (by decide) (by decide)
  have hb : bindGenerated (bootstrapMeta [] Examples.dK) [] [] = .error .typeError := by rfl
  rw [hb] at this
  cases this

end SpecVerif.Props.C09
