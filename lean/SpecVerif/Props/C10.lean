import SpecVerif.Proofs.C10
/-!
# C10 — equality, copying and repr are coherent and total

Property theorems only (helper lemmas are in `Proofs/C10.lean`). Every theorem is about the executable
definitions of `Model/C10.lean` (`pyEq` = `EqMethod.eq` under CPython's `==` dispatch, `deepcopy`,
`reconstruct`, `reprOf`), which the correspondence check runs against the real `spec_classes`.

Quantification: ANY class table `T` in which parents are defined before their subclasses (`wfTable`),
ANY values — finite trees of scalars, lists, dicts, sets, nested instances, bound methods, functions,
classes, modules, MISSING — that are well formed (`wfVal`: an instance carries one value per attribute
of its class); the copy theorems additionally ask for `okVal` (acyclic; bound methods occur directly as
attribute values, not inside containers). No bound on sizes, depths or the number of attributes.
-/
set_option linter.unusedSectionVars false
set_option linter.unusedSimpArgs false
set_option linter.unusedVariables false
namespace SpecVerif.Props.C10
open SpecVerif.C10

variable {T : Table}

/-- **eq_refl.** `x == x`. -/
theorem eq_refl (x : Val) : pyEq T x x = true := vEq_refl T x

/-- **eq_symm.** `(x == y) = (y == x)`. -/
theorem eq_symm (hT : wfTable T = true) {x y : Val} (hx : wfVal T x = true) (hy : wfVal T y = true) :
    pyEq T x y = pyEq T y x := vEq_symm hT hx hy

/-- **eq_trans.** `x == y` and `y == z` give `x == z`. -/
theorem eq_trans (hT : wfTable T = true) {x y z : Val}
    (hx : wfVal T x = true) (hy : wfVal T y = true) (hz : wfVal T z = true)
    (h1 : pyEq T x y = true) (h2 : pyEq T y z = true) : pyEq T x z = true :=
  vEq_trans hT hx hy hz h1 h2

/-- **eq_iff.** Two instances are equal exactly when they are of the same class and every compare-enabled
attribute is equal — `attrEq`: a pair of bound methods by function, otherwise Python's `==`; a missing
attribute (`Val.missing`) only equals a missing one. -/
theorem eq_iff (hT : wfTable T = true) {c1 c2 : Nat} {f1 f2 : Vals}
    (hx : wfVal T (.inst c1 f1) = true) (hy : wfVal T (.inst c2 f2) = true) :
    pyEq T (.inst c1 f1) (.inst c2 f2) = true ↔
      c1 = c2 ∧ ∀ i (h : i < (T.attrs c1).length), ((T.attrs c1)[i]).compare = true →
        attrEq T (nthVal f1 i) (nthVal f2 i) = true := by
  unfold pyEq
  rw [vEq_inst hT]
  simp only [wfVal, Bool.and_eq_true, beq_iff_eq] at hx hy ⊢
  constructor
  · rintro ⟨rfl, h⟩
    exact ⟨rfl, (fieldsEq_iff T _ _ _ hx.1 hy.1).1 h⟩
  · rintro ⟨rfl, h⟩
    exact ⟨rfl, (fieldsEq_iff T _ _ _ hx.1 hy.1).2 h⟩

/-- Missing only equals missing (as an attribute value). -/
theorem missing_eq_only_missing (v : Val) : attrEq T .missing v = true ↔ v = .missing := by
  cases v <;> simp [attrEq, vEq]

/-- **differing_attr_noticed.** A difference in a compare-enabled attribute at ANY position makes the
instances unequal — whatever the kinds of the values at the other positions. -/
theorem differing_attr_noticed (hT : wfTable T = true) {c : Nat} {f1 f2 : Vals}
    (hx : wfVal T (.inst c f1) = true) (hy : wfVal T (.inst c f2) = true)
    (i : Nat) (hi : i < (T.attrs c).length) (hc : ((T.attrs c)[i]).compare = true)
    (hd : attrEq T (nthVal f1 i) (nthVal f2 i) = false) :
    pyEq T (.inst c f1) (.inst c f2) = false := by
  rw [Bool.eq_false_iff]
  intro h
  have := ((eq_iff hT hx hy).1 h).2 i hi hc
  rw [hd] at this; cases this

/-- **compare_false_ignored.** Instances of one class that agree on every compare-enabled attribute are
equal, whatever their `compare=False` attributes hold. -/
theorem compare_false_ignored (hT : wfTable T = true) {c : Nat} {f1 f2 : Vals}
    (hx : wfVal T (.inst c f1) = true) (hy : wfVal T (.inst c f2) = true)
    (h : ∀ i (hi : i < (T.attrs c).length), ((T.attrs c)[i]).compare = true →
        attrEq T (nthVal f1 i) (nthVal f2 i) = true) :
    pyEq T (.inst c f1) (.inst c f2) = true :=
  (eq_iff hT hx hy).2 ⟨rfl, h⟩

/-- Instances of different classes (parent/child included) are never equal, in either order. -/
theorem different_class_unequal (hT : wfTable T = true) {c1 c2 : Nat} (f1 f2 : Vals) (h : c1 ≠ c2) :
    pyEq T (.inst c1 f1) (.inst c2 f2) = false := by
  unfold pyEq
  rw [vEq_inst hT]
  simp [h]

/-- **deepcopy_eq.** `deepcopy(x) == x` (self-bound methods re-bound, foreign ones re-bound to a copy of
their owner, `do_not_copy` attributes shared). -/
theorem deepcopy_eq {c : Nat} {fs : Vals} (hok : okVal (.inst c fs) = true) :
    pyEq T (deepcopy T (.inst c fs)) (.inst c fs) = true := by
  unfold pyEq deepcopy
  have := ((dc_eq_all T).2.1 fs).2 (by simpa [okVal] using hok) (T.attrs c)
  simp [vEq, isProperSub, isSub_refl, this.2]

/-- **reconstruct_eq.** Re-constructing an instance from its own attribute values gives an equal
instance, provided every compared attribute is passed to the constructor (init-enabled, has a value) or
still shows what a fresh instance shows (`reconstructible`). -/
theorem reconstruct_eq {c : Nat} {fs : Vals} (hok : okVal (.inst c fs) = true)
    (hrc : reconstructible T (T.attrs c) fs = true) :
    pyEq T (reconstruct T (.inst c fs)) (.inst c fs) = true := by
  unfold pyEq reconstruct
  have := rc_fields_eq T (T.attrs c) fs (by simpa [okVal] using hok) hrc
  simp [vEq, isProperSub, isSub_refl, this]

/-- **repr_total.** `repr` of an instance always produces a result — also with missing values and with
the instance itself among its values (rendered `<self>`): there is no failing branch. -/
theorem repr_total (c : Nat) (fs : Vals) : ∃ r, reprOf T (.inst c fs) = some r := ⟨_, rfl⟩

/-- **repr_lists_exactly.** `repr` lists exactly the `repr=True` attributes, in metadata (declaration) order. -/
theorem repr_lists_exactly (c : Nat) (fs : Vals) :
    ∃ es, reprOf T (.inst c fs) = some (T.cname c, es) ∧
      es.map (·.1) = ((T.attrs c).filter (·.repr)).map (·.name) :=
  ⟨_, rfl, reprEntries_names T _ _⟩

/-! ## Non-vacuity -/
namespace Examples

def aI (n : String) (cmp rp : Bool) : AttrInfo :=
  { name := n, compare := cmp, repr := rp, init := true, doNotCopy := false, dflt := .missing }

/-- `Child(key name, v)`, `S(a, cb, hidden[compare=False], l[repr=False])`, `T(S)` adds `z`. -/
def T1 : Table :=
  [ { name := "Child", parent := none, key := some 0, attrs := [aI "name" true true, aI "v" true true] },
    { name := "S", parent := none, key := none,
      attrs := [aI "a" true true, aI "cb" true true, aI "hidden" false true, aI "l" true false] },
    { name := "T", parent := some 1, key := none,
      attrs := [aI "a" true true, aI "cb" true true, aI "hidden" false true, aI "l" true false, aI "z" true true] } ]

def x1 : Val := .inst 1 (.cons (.int 1) (.cons (.bound none 0) (.cons (.int 5) (.cons (.list (.cons (.int 1) .nil)) .nil))))
/-- same function bound to another object, other hidden value: equal -/
def x2 : Val := .inst 1 (.cons (.int 1) (.cons (.bound (some 7) 0) (.cons (.int 6) (.cons (.list (.cons (.int 1) .nil)) .nil))))
/-- differs only in the LAST attribute, after a pair of bound methods -/
def x3 : Val := .inst 1 (.cons (.int 1) (.cons (.bound none 0) (.cons (.int 5) (.cons (.list .nil) .nil))))
def xT : Val := .inst 2 (.cons (.int 1) (.cons (.bound none 0) (.cons (.int 5) (.cons (.list (.cons (.int 1) .nil)) (.cons .missing .nil)))))

example : wfTable T1 = true ∧ wfVal T1 x1 = true ∧ wfVal T1 x2 = true ∧ okVal x1 = true := by decide
example : pyEq T1 x1 x2 = true ∧ pyEq T1 x1 x3 = false := by decide
example : pyEq T1 x1 xT = false ∧ pyEq T1 xT x1 = false := by decide          -- parent vs child
example : pyEq T1 (deepcopy T1 x2) x2 = true := by decide
example : (reprOf T1 x1).map (fun r => r.2.map (·.1)) = some ["a", "cb", "hidden"] := by decide
example : reconstructible T1 (T1.attrs 1) (.cons (.int 1) (.cons (.bound none 0) (.cons (.int 5) (.cons (.list .nil) .nil)))) = true := by
  decide

end Examples
end SpecVerif.Props.C10
