import SpecVerif.Proofs.C10
import SpecVerif.Proofs.C10H
/-!
# C10 — equality, copying and repr are coherent and total

Property theorems only (helper lemmas are in `Proofs/C10.lean`). Every theorem is about the executable
definitions of `Model/C10.lean` (`pyEq` = `EqMethod.eq` under CPython's `==` dispatch, `deepcopy`,
`construct` = `InitMethod.init` across the inheritance chain, `reconstruct` (through `construct`), `reprOf`),
which the correspondence check runs against the real `spec_classes`.

Quantification: ANY class table `T` in which parents are defined before their subclasses (`wfTable`),
ANY values — finite trees of scalars, lists, dicts, sets, nested instances, bound methods, functions,
classes, modules, MISSING — that are well formed (`wfVal`: an instance carries one value per attribute
of its class); the copy theorems additionally ask for `okVal` (acyclic; bound methods occur directly as
attribute values, not inside containers); the constructor theorems ask for `ownersOk` (every init-enabled
attribute of the class is owned by a class whose constructor runs) and hold for ANY keyword arguments.
The stored-state theorems (`deepcopy_stored_eq`, `stored_value_survives_copy`, `construct_shows_getter`) are about
`showS` / `copyShows`: what `getattr` shows for an instance's own `__dict__` state, attributes backed by a
`spec_property` included. `selfref_unequal` / `pyEqC_closed` are about `pyEqC`, the comparison that also covers ONE
operand referring to itself.
No bound on sizes, depths (of values or of the inheritance chain) or the number of attributes.
-/
set_option linter.unusedSectionVars false
set_option linter.unusedSimpArgs false
set_option linter.unusedVariables false
namespace SpecVerif.Props.C10
open SpecVerif.C10

variable {T : Table}

/-- **eq_refl.** `x == x`. -/
theorem eq_refl (x : Val) : pyEq T x x = true := vEq_refl T x

/-- **eq_symm.** `(x == y) = (y == x)`. -/
theorem eq_symm (hT : wfTable T = true) {x y : Val} (hx : wfVal T x = true) (hy : wfVal T y = true) :
    pyEq T x y = pyEq T y x := vEq_symm hT hx hy

/-- **eq_trans.** `x == y` and `y == z` give `x == z`. -/
theorem eq_trans (hT : wfTable T = true) {x y z : Val}
    (hx : wfVal T x = true) (hy : wfVal T y = true) (hz : wfVal T z = true)
    (h1 : pyEq T x y = true) (h2 : pyEq T y z = true) : pyEq T x z = true :=
  vEq_trans hT hx hy hz h1 h2

/-- **eq_iff.** Two instances are equal exactly when they are of the same class and every compare-enabled
attribute is equal — `attrEq`: a pair of bound methods by function, otherwise Python's `==`; a missing
attribute (`Val.missing`) only equals a missing one. -/
theorem eq_iff (hT : wfTable T = true) {c1 c2 : Nat} {f1 f2 : Vals}
    (hx : wfVal T (.inst c1 f1) = true) (hy : wfVal T (.inst c2 f2) = true) :
    pyEq T (.inst c1 f1) (.inst c2 f2) = true ↔
      c1 = c2 ∧ ∀ i (h : i < (T.attrs c1).length), ((T.attrs c1)[i]).compare = true →
        attrEq T (nthVal f1 i) (nthVal f2 i) = true := by
  unfold pyEq
  rw [vEq_inst hT]
  simp only [wfVal, Bool.and_eq_true, beq_iff_eq] at hx hy ⊢
  constructor
  · rintro ⟨rfl, h⟩
    exact ⟨rfl, (fieldsEq_iff T _ _ _ hx.1 hy.1).1 h⟩
  · rintro ⟨rfl, h⟩
    exact ⟨rfl, (fieldsEq_iff T _ _ _ hx.1 hy.1).2 h⟩

/-- Missing only equals missing (as an attribute value). -/
theorem missing_eq_only_missing (v : Val) : attrEq T .missing v = true ↔ v = .missing := by
  cases v <;> simp [attrEq, vEq]

/-- **differing_attr_noticed.** A difference in a compare-enabled attribute at ANY position makes the
instances unequal — whatever the kinds of the values at the other positions. -/
theorem differing_attr_noticed (hT : wfTable T = true) {c : Nat} {f1 f2 : Vals}
    (hx : wfVal T (.inst c f1) = true) (hy : wfVal T (.inst c f2) = true)
    (i : Nat) (hi : i < (T.attrs c).length) (hc : ((T.attrs c)[i]).compare = true)
    (hd : attrEq T (nthVal f1 i) (nthVal f2 i) = false) :
    pyEq T (.inst c f1) (.inst c f2) = false := by
  rw [Bool.eq_false_iff]
  intro h
  have := ((eq_iff hT hx hy).1 h).2 i hi hc
  rw [hd] at this; cases this

/-- **compare_false_ignored.** Instances of one class that agree on every compare-enabled attribute are
equal, whatever their `compare=False` attributes hold. -/
theorem compare_false_ignored (hT : wfTable T = true) {c : Nat} {f1 f2 : Vals}
    (hx : wfVal T (.inst c f1) = true) (hy : wfVal T (.inst c f2) = true)
    (h : ∀ i (hi : i < (T.attrs c).length), ((T.attrs c)[i]).compare = true →
        attrEq T (nthVal f1 i) (nthVal f2 i) = true) :
    pyEq T (.inst c f1) (.inst c f2) = true :=
  (eq_iff hT hx hy).2 ⟨rfl, h⟩

/-- Instances of different classes (parent/child included) are never equal, in either order. -/
theorem different_class_unequal (hT : wfTable T = true) {c1 c2 : Nat} (f1 f2 : Vals) (h : c1 ≠ c2) :
    pyEq T (.inst c1 f1) (.inst c2 f2) = false := by
  unfold pyEq
  rw [vEq_inst hT]
  simp [h]

/-- **deepcopy_eq.** `deepcopy(x) == x` (self-bound methods re-bound, foreign ones re-bound to a copy of
their owner, `do_not_copy` attributes shared). -/
theorem deepcopy_eq {c : Nat} {fs : Vals} (hok : okVal (.inst c fs) = true) :
    pyEq T (deepcopy T (.inst c fs)) (.inst c fs) = true := by
  unfold pyEq deepcopy
  have := ((dc_eq_all T).2.1 fs).2 (by simpa [okVal] using hok) (T.attrs c)
  simp [vEq, isProperSub, isSub_refl, this.2]

/-- **construct_eq_spec.** The constructor — run the way `InitMethod.init` runs it: the constructors of the
parent spec classes base-most first, each given the keyword arguments of the attributes it owns (popped from the
caller's, copied unless `do_not_copy`; the instance's default when nothing was passed), then the attributes
owned by the class itself — shows, attribute by attribute, exactly `shown a kv`: the passed value when one was
passed, else the default. For ANY class of any inheritance depth (plain subclasses included) whose init-enabled
attributes are owned by the classes of its chain (`ownersOk`) and ANY keyword arguments. -/
theorem construct_eq_spec {c : Nat} (h : ownersOk T c = true) (kw : Vals) :
    construct T c kw = specFields (T.attrs c) kw := SpecVerif.C10.construct_eq_spec h kw

/-- **construct_shows_passed.** A value passed for an init-enabled attribute is what the new instance shows
(a copy of it unless `do_not_copy`) — WHATEVER the value is (`0`, `""`, `[]`, `None`, … are values like any
other) and whichever class of the chain owns the attribute; also for an attribute backed by a `spec_property`
that honours stored values (`storable`: overridable or cached) — the override wins over the getter. -/
theorem construct_shows_passed {c : Nat} (h : ownersOk T c = true) (kw : Vals)
    (i : Nat) (hi : i < (T.attrs c).length) (hinit : ((T.attrs c)[i]).init = true)
    (hst : ((T.attrs c)[i]).storable = true)
    (hp : (nthVal kw i).isMissing = false) :
    nthVal (construct T c kw) i = protect ((T.attrs c)[i]) (nthVal kw i) := by
  rw [construct_eq_spec h]
  unfold specFields showS
  rw [nthVal_showFrom _ _ _ _ _ hi, nthVal_storedSpec _ _ _ hi]
  have hs : storedSlot ((T.attrs c)[i]) (nthVal kw i) = protect ((T.attrs c)[i]) (nthVal kw i) := by
    simp [storedSlot, hinit, hp]
  rw [hs, shownAttr_stored _ _ hst (by rw [protect_isMissing]; exact hp)]

/-- **construct_shows_default.** A plain attribute for which nothing is passed (or that is not init-enabled) shows
what a fresh instance shows. -/
theorem construct_shows_default {c : Nat} (h : ownersOk T c = true) (kw : Vals)
    (i : Nat) (hi : i < (T.attrs c).length) (hplain : ((T.attrs c)[i]).prop = none)
    (hp : ((T.attrs c)[i]).init = false ∨ (nthVal kw i).isMissing = true) :
    nthVal (construct T c kw) i = ((T.attrs c)[i]).dflt := by
  rw [construct_eq_spec h, nthVal_specFields_plain _ _ _ hi hplain]
  rcases hp with hp | hp <;> simp [shown, hp]

/-- **construct_shows_getter.** A property-backed attribute (its default is masked: `dflt = missing`) for which
nothing is passed shows what its getter returns on the new instance: the constant, or what the new instance shows
for the attribute the getter reads. -/
theorem construct_shows_getter {c : Nat} (h : ownersOk T c = true) (kw : Vals)
    (i : Nat) (hi : i < (T.attrs c).length) (p : PropInfo) (hprop : ((T.attrs c)[i]).prop = some p)
    (hd : ((T.attrs c)[i]).dflt = .missing)
    (hp : ((T.attrs c)[i]).init = false ∨ (nthVal kw i).isMissing = true) :
    nthVal (construct T c kw) i = getterValue (T.attrs c) (storedSpec (T.attrs c) kw) p.getter := by
  rw [construct_eq_spec h]
  unfold specFields showS
  rw [nthVal_showFrom _ _ _ _ _ hi, nthVal_storedSpec _ _ _ hi]
  have hs : storedSlot ((T.attrs c)[i]) (nthVal kw i) = .missing := by
    rcases hp with hp | hp <;> simp [storedSlot, hp, hd]
  rw [hs]
  simp [shownAttr, hprop, Val.isMissing]

/-- **construct_passed_equal.** What the new instance shows for a passed value compares equal (as an
attribute value) to the value passed. -/
theorem construct_passed_equal {c : Nat} (h : ownersOk T c = true) (kw : Vals)
    (i : Nat) (hi : i < (T.attrs c).length) (hinit : ((T.attrs c)[i]).init = true)
    (hst : ((T.attrs c)[i]).storable = true)
    (hp : (nthVal kw i).isMissing = false) (hok : okVal (nthVal kw i) = true) :
    attrEq T (nthVal (construct T c kw) i) (nthVal kw i) = true := by
  rw [construct_shows_passed h kw i hi hinit hst hp]
  unfold protect
  split
  · exact attrEq_refl T _
  · exact ((dc_eq_all T).1 _ hok).2

/-- **reconstruct_refines.** Re-construction through the constructor model is the attribute-wise
specification `rcFields`. -/
theorem reconstruct_refines {c : Nat} (h : ownersOk T c = true) (fs : Vals) :
    reconstruct T (.inst c fs) = .inst c (rcFields (T.attrs c) fs) := by
  simp [reconstruct, rcFields, construct_eq_spec h]

/-- **reconstruct_eq.** Re-constructing an instance from its own attribute values — through the constructor
as it runs (`construct`) — gives an equal instance, provided every compared attribute is passed to the
constructor (init-enabled, has a value) or still shows what a fresh instance shows (`reconstructible`). -/
theorem reconstruct_eq {c : Nat} {fs : Vals} (hown : ownersOk T c = true) (hok : okVal (.inst c fs) = true)
    (hrc : reconstructible T (T.attrs c) fs = true) :
    pyEq T (reconstruct T (.inst c fs)) (.inst c fs) = true := by
  rw [reconstruct_refines hown]
  unfold pyEq
  have := rc_fields_eq T (T.attrs c) fs (by simpa [okVal] using hok) hrc
  simp [vEq, isProperSub, isSub_refl, this]

/-- **deepcopy_stored_eq.** `deepcopy(x) == x` on the level of the instance's OWN state (`st`: one `__dict__`
entry per attribute, `missing` = none): the copy is made entry by entry, and what `getattr` then shows for it
(`copyShows`) equals what it shows for the original (`showS`) — including attributes backed by a `spec_property`,
whose entry is an assigned override or a memoised result (copied like any entry) and which otherwise show what
the getter returns on the copy. -/
theorem deepcopy_stored_eq {c : Nat} {st : Vals} (hok : okFields st = true) :
    pyEq T (.inst c (copyShows T c st)) (.inst c (showS (T.attrs c) st)) = true := by
  unfold pyEq copyShows
  simp [vEq, isProperSub, isSub_refl, copyShows_fieldsEq T (T.attrs c) st hok]

/-- **stored_value_survives_copy.** A value held in the instance's own state for an attribute that honours stored
values (a plain attribute; a property that is overridable or cached) is what the COPY shows for that attribute (up
to attribute equality) — never the getter's result instead of an assigned override. -/
theorem stored_value_survives_copy {c : Nat} {st : Vals} (hok : okFields st = true)
    (i : Nat) (hi : i < (T.attrs c).length) (hst : ((T.attrs c)[i]).storable = true)
    (hv : (nthVal st i).isMissing = false) :
    attrEq T (nthVal (copyShows T c st) i) (nthVal st i) = true := by
  unfold copyShows showS
  rw [nthVal_showFrom _ _ _ _ _ hi,
    nthVal_dcFields _ _ _ _ (List.getElem?_eq_getElem hi),
    shownAttr_stored _ _ hst (by rw [dcSlot_isMissing]; exact hv)]
  exact dcSlot_attrEq T _ (okFields_nth st i hok)

/-- **pyEqC_closed.** The comparison the correspondence evaluates (`pyEqC`: through `cEq` when an operand refers to
itself) is `==` itself on finite trees. -/
theorem pyEqC_closed {x y : Val} (hx : closed x = true) (hy : closed y = true) : pyEqC T x y = pyEq T x y := by
  unfold pyEqC pyEq
  simp [hx, hy, cEq_closed T false .none y hx]

/-- **selfref_unequal.** An instance that holds ITSELF under a compare-enabled attribute — directly (`x.a = x`) or
inside lists / sets / dict values (`x.a = [x]`, `x.a = {"k": x}`) — is unequal to every finite value, whichever
operand comes first (so `==` stays symmetric on such pairs, and "equal" is never answered on the strength of a
comparison that is still underway). -/
theorem selfref_unequal (hT : wfTable T = true) {c : Nat} {fs : Vals} (i : Nat)
    (hi : i < (T.attrs c).length) (hcmp : ((T.attrs c)[i]).compare = true)
    (hreach : reaches (nthVal fs i) = true)
    {w : Val} (hw : closed w = true) (hwf : wfVal T w = true) :
    pyEqC T (.inst c fs) w = false ∧ pyEqC T w (.inst c fs) = false := by
  have h := ((selfref_all hT c fs i hi hcmp hreach).1 w hw hwf).1
  have hx : closed (.inst c fs) = false := not_closed_of_reaches hreach
  unfold pyEqC
  simp [hw, hx, h]

/-- **repr_total.** `repr` of an instance always produces a result — also with missing values and with
the instance itself among its values (rendered `<self>`): there is no failing branch. -/
theorem repr_total (c : Nat) (fs : Vals) : ∃ r, reprOf T (.inst c fs) = some r := ⟨_, rfl⟩

/-- **repr_lists_exactly.** `repr` lists exactly the `repr=True` attributes, in metadata (declaration) order. -/
theorem repr_lists_exactly (c : Nat) (fs : Vals) :
    ∃ es, reprOf T (.inst c fs) = some (T.cname c, es) ∧
      es.map (·.1) = ((T.attrs c).filter (·.repr)).map (·.name) :=
  ⟨_, rfl, reprEntries_names T _ _⟩

/-! ## Non-vacuity -/
/-! ## The order of the attributes in the metadata (every decorator option), `Model/C10H.lean`

`repr_lists_exactly` says that `repr` lists the repr-enabled attributes in METADATA order; the theorems below say that the
metadata order assembled by `spec_class.bootstrap` (`metaOrder`: ordered-dict updates) IS the declaration order, for ANY
inherited attribute list, class body and decorator options (`attrs`, `attrs_typed`, `attrs_skip`, `init_overflow_attr`, `key`). -/

/-- **metaorder_is_declaration_order.** The key order of `metadata.attrs` is: the inherited attributes in the parent's
order, then the managed attributes annotated in the class body in BODY order (also those a decorator option names as
well), then the attributes named by the decorator only (`attrs`, `attrs_typed`, `init_overflow_attr`, in that order, first
occurrence), then the key when nothing else declares it. -/
theorem metaorder_is_declaration_order (inh : List String) (o : DecoOpts) (hann : o.annotations.Nodup) :
    metaOrder inh o = declOrder inh o := by
  unfold metaOrder declOrder
  simp only [dictKeys_managed inh o hann]
  cases o.key with
  | none => rfl
  | some k => simp only [addKey]

/-- **metaorder_keeps_inherited.** A subclass never moves an inherited attribute: the parent's order is a prefix,
whatever the subclass annotates or names. -/
theorem metaorder_keeps_inherited (inh : List String) (o : DecoOpts) : inh <+: metaOrder inh o := by
  unfold metaOrder
  simp only [dictKeys_eq _ inh]
  cases o.key with
  | none => exact List.prefix_append _ _
  | some k =>
    simp only [addKey]
    split
    · exact List.prefix_append _ _
    · rw [List.append_assoc]; exact List.prefix_append _ _

/-- **metaorder_body_order.** The attributes annotated in the class body (managed, not inherited) stand in the metadata
in the order of the body — naming one of them in `attrs` / `attrs_typed` / `init_overflow_attr` does not move it. -/
theorem metaorder_body_order (inh : List String) (o : DecoOpts) (hann : o.annotations.Nodup) :
    (metaOrder inh o).filter (fun a => o.managedAnn.contains a && !inh.contains a)
      = o.managedAnn.filter (fun a => !inh.contains a) := by
  rw [metaorder_is_declaration_order inh o hann]
  unfold declOrder
  have h1 : inh.filter (fun a => o.managedAnn.contains a && !inh.contains a) = [] := by
    rw [List.filter_eq_nil_iff]; intro a ha; simp [ha]
  have h2 : (o.managedAnn.filter (fun a => !inh.contains a)).filter (fun a => o.managedAnn.contains a && !inh.contains a)
      = o.managedAnn.filter (fun a => !inh.contains a) := by
    rw [List.filter_eq_self]; intro a ha
    simp only [List.mem_filter, Bool.not_eq_true'] at ha
    simp [ha.1, not_mem_of_contains_false ha.2]
  have h3 : (firsts (o.namedRaw.filter (fun a => !inh.contains a && !o.managedAnn.contains a))).filter
      (fun a => o.managedAnn.contains a && !inh.contains a) = [] := by
    rw [List.filter_eq_nil_iff]; intro a ha
    rw [mem_firsts, List.mem_filter] at ha
    have := ha.2
    simp only [Bool.and_eq_true, Bool.not_eq_true'] at this
    simp [not_mem_of_contains_false this.2]
  cases o.key with
  | none => simp only [List.filter_append, h1, h2, h3, List.nil_append, List.append_nil]
  | some k =>
    simp only []
    split
    · simp only [List.filter_append, h1, h2, h3, List.nil_append, List.append_nil]
    · rename_i hk
      simp only [List.filter_append, h1, h2, h3, List.nil_append, List.append_nil]
      have : [k].filter (fun a => o.managedAnn.contains a && !inh.contains a) = [] := by
        rw [List.filter_eq_nil_iff]; intro a ha
        simp only [List.mem_singleton] at ha; subst ha
        intro hp
        apply hk
        simp only [Bool.and_eq_true, Bool.not_eq_true', List.contains_iff_mem] at hp
        simp only [List.contains_iff_mem, List.mem_append, List.mem_filter]
        exact Or.inl (Or.inr ⟨hp.1, by simp [not_mem_of_contains_false hp.2]⟩)
      rw [this, List.append_nil]

/-! ## Comparisons, repr and copies that may be aborted; histories (`Model/C10H.lean`) -/

/-- **eq_outcome_values.** On the values of the tree model the outcome of `x == y` is its result under `pyEq`: nothing raises. -/
theorem eq_outcome_values (hT : wfTable T = true) (c1 c2 : Nat) (f1 f2 : Vals) :
    eqO T c1 (liftVals f1) c2 (liftVals f2) = .ok (pyEq T (.inst c1 f1) (.inst c2 f2)) := by
  unfold pyEq
  rw [eqO_inst hT, vEq_inst hT]
  by_cases h : c1 = c2
  · subst h; simp [fieldsO_lift]
  · simp [h]

/-- **eq_outcome_true_iff.** Also in the presence of values whose comparison raises and of reads that raise: `x == y`
answers `True` exactly when the classes are the same and EVERY compare-enabled attribute is equal without raising —
never because of anything else (such as a comparison of the same objects that is "already underway"). -/
theorem eq_outcome_true_iff (hT : wfTable T = true) {c1 c2 : Nat} {ls rs : List Slot}
    (hl : ls.length = (T.attrs c1).length) (hr : rs.length = (T.attrs c2).length) :
    eqO T c1 ls c2 rs = .ok true ↔
      c1 = c2 ∧ ∀ i (h : i < (T.attrs c1).length), ((T.attrs c1)[i]).compare = true →
        slotCmp T (ls.getD i .getterRaises) (rs.getD i .getterRaises) = .ok true := by
  rw [eqO_inst hT]
  by_cases h : c1 = c2
  · subst h
    simp only [if_true, true_and]
    exact fieldsO_true_iff T _ _ _ hl hr
  · simp [h]

/-- **eq_outcome_first_decides.** The FIRST compare-enabled attribute whose two values are not equal-without-raising
decides: `False` when they differ, an exception when reading or comparing them raises — whatever stands later. -/
theorem eq_outcome_first_decides (hT : wfTable T = true) {c : Nat} {ls rs : List Slot}
    (hl : ls.length = (T.attrs c).length) (hr : rs.length = (T.attrs c).length)
    (i : Nat) (h : i < (T.attrs c).length) (o : Outcome) (hc : ((T.attrs c)[i]).compare = true)
    (ho : slotCmp T (ls.getD i .getterRaises) (rs.getD i .getterRaises) = o) (hne : o ≠ .ok true)
    (hbefore : ∀ j (hj : j < (T.attrs c).length), j < i → ((T.attrs c)[j]).compare = true →
      slotCmp T (ls.getD j .getterRaises) (rs.getD j .getterRaises) = .ok true) :
    eqO T c ls c rs = o := by
  rw [eqO_inst hT]
  simp only [if_true]
  exact fieldsO_first T _ _ _ hl hr i h o hc ho hne hbefore

/-- **history_free.** What an operation answers after ANY history — assignments, comparisons, reprs, copies, completed
or aborted by an exception — is what it answers on the heap shaped by the assignments alone: an operation leaves
nothing behind that a later one could see. -/
theorem history_free (h : Heap) (pre : List HOp) (op : HOp) :
    runH T h (pre ++ [op]) = runH T h pre ++ [outStep T (heapAfter h (pre.filter HOp.isPut)) op] := by
  rw [runH_append, ← heapAfter_puts]; rfl

/-- **eq_after_any_history.** Once two objects hold values of the tree model (again), `x == y` is `pyEq` of these
values — the relation the equality theorems are about — whatever happened to the two objects before (e.g. a
comparison of this very pair that raised because one attribute held a signalling NaN). -/
theorem eq_after_any_history (hT : wfTable T = true) (h : Heap) (pre : List HOp) {i j : Nat} (hij : i ≠ j)
    (c1 c2 : Nat) (f1 f2 : Vals) :
    (runH T h (pre ++ [.put i c1 (liftVals f1), .put j c2 (liftVals f2), .cmp i j])).getLast?
      = some (.cmp (.ok (pyEq T (.inst c1 f1) (.inst c2 f2)))) := by
  have hji : (j == i) = false := by simpa using fun e => hij e.symm
  rw [runH_append]
  simp [runH, heapStep, outStep, Heap.find, List.find?, hji, eq_outcome_values hT]

/-- **repr_outcome_lists_exactly.** When `repr` answers, it lists exactly the repr-enabled attributes in metadata order
(objects outside the value grammar included). -/
theorem repr_outcome_lists_exactly (c : Nat) (ss : List Slot) (r : String × List (String × Kind))
    (h : reprO T c ss = some r) :
    r.1 = T.cname c ∧ r.2.map (·.1) = ((T.attrs c).filter (·.repr)).map (·.name) := by
  unfold reprO at h
  simp only [] at h
  split at h
  · cases h
  · cases h
    refine ⟨rfl, ?_⟩
    simp only [List.map_map]
    exact reprSlots_names (T.attrs c) ss

/-- **repr_outcome_total.** `repr` raises only when a read or the `__repr__` of a value raises. -/
theorem repr_outcome_total (c : Nat) (ss : List Slot) (h : ∀ s ∈ ss, s.reprRaises = false) :
    (reprO T c ss).isSome = true := by
  unfold reprO
  simp only []
  have : (reprSlots (T.attrs c) ss).any (fun e => e.2.reprRaises) = false := by
    rw [List.any_eq_false]
    intro e he
    simp [reprSlots_noraise (T.attrs c) ss h e he]
  simp [this]

namespace Examples

def aI (n : String) (cmp rp : Bool) : AttrInfo :=
  { name := n, compare := cmp, repr := rp, init := true, doNotCopy := false, dflt := .missing }

/-- `Child(key name, v)`, `S(a, cb, hidden[compare=False], l[repr=False])`, `T(S)` adds `z`. -/
def T1 : Table :=
  [ { name := "Child", parent := none, key := some 0, attrs := [aI "name" true true, aI "v" true true] },
    { name := "S", parent := none, key := none,
      attrs := [aI "a" true true, aI "cb" true true, aI "hidden" false true, aI "l" true false] },
    { name := "T", parent := some 1, key := none,
      attrs := [aI "a" true true, aI "cb" true true, aI "hidden" false true, aI "l" true false, aI "z" true true] } ]

def x1 : Val := .inst 1 (.cons (.int 1) (.cons (.bound none 0) (.cons (.int 5) (.cons (.list (.cons (.int 1) .nil)) .nil))))
/-- same function bound to another object, other hidden value: equal -/
def x2 : Val := .inst 1 (.cons (.int 1) (.cons (.bound (some 7) 0) (.cons (.int 6) (.cons (.list (.cons (.int 1) .nil)) .nil))))
/-- differs only in the LAST attribute, after a pair of bound methods -/
def x3 : Val := .inst 1 (.cons (.int 1) (.cons (.bound none 0) (.cons (.int 5) (.cons (.list .nil) .nil))))
def xT : Val := .inst 2 (.cons (.int 1) (.cons (.bound none 0) (.cons (.int 5) (.cons (.list (.cons (.int 1) .nil)) (.cons .missing .nil)))))

example : wfTable T1 = true ∧ wfVal T1 x1 = true ∧ wfVal T1 x2 = true ∧ okVal x1 = true := by decide
example : pyEq T1 x1 x2 = true ∧ pyEq T1 x1 x3 = false := by decide
example : pyEq T1 x1 xT = false ∧ pyEq T1 xT x1 = false := by decide          -- parent vs child
example : pyEq T1 (deepcopy T1 x2) x2 = true := by decide
example : (reprOf T1 x1).map (fun r => r.2.map (·.1)) = some ["a", "cb", "hidden"] := by decide
example : reconstructible T1 (T1.attrs 1) (.cons (.int 1) (.cons (.bound none 0) (.cons (.int 5) (.cons (.list .nil) .nil)))) = true := by
  decide


/-! The constructor across an inheritance chain: `S(retries=3, labels=["default"], note)`, spec subclass `T(S)` adding
`command="true"`, plain `Q(T)`, spec `U(T)` re-declaring `labels` (do_not_copy) and adding `z` (init=False). -/
def aO (n : String) (ow : Nat) (d : Val) (dnc : Bool := false) (ini : Bool := true) : AttrInfo :=
  { name := n, compare := true, repr := true, init := ini, doNotCopy := dnc, dflt := d, owner := ow }

def dfl : Val := .list (.cons (.str "default") .nil)
def sAttrs : List AttrInfo := [aO "retries" 1 (.int 3), aO "labels" 1 dfl, aO "note" 1 .missing]
def T2 : Table :=
  [ { name := "Child", parent := none, key := some 0, attrs := [aI "name" true true, aI "v" true true] },
    { name := "S", parent := none, key := none, attrs := sAttrs },
    { name := "T", parent := some 1, key := none, attrs := sAttrs ++ [aO "command" 2 (.str "true")] },
    { name := "Q", parent := some 2, key := none, spec := false, attrs := sAttrs ++ [aO "command" 2 (.str "true")] },
    { name := "U", parent := some 2, key := none,
      attrs := [aO "retries" 1 (.int 3), aO "labels" 4 dfl true, aO "note" 1 .missing, aO "command" 2 (.str "true"),
                aO "z" 4 (.int 7) false false] } ]

/-- falsy values for the inherited attributes, nothing for `command` -/
def kwFalsy : Vals := .cons (.int 0) (.cons (.list .nil) (.cons (.str "") (.cons .missing .nil)))

example : wfTable T2 = true ∧ ownersOk T2 1 = true ∧ ownersOk T2 2 = true ∧ ownersOk T2 3 = true ∧ ownersOk T2 4 = true := by
  decide
example : metaOf T2 3 = 2 ∧ specParents T2 2 = [1] ∧ specParents T2 4 = [1, 2] := by decide
/-- `T(retries=0, labels=[], note="")` shows `0`, `[]`, `""` and the default of `command` — also as plain `Q`. -/
example : pyEq T2 (.inst 2 (construct T2 2 kwFalsy))
    (.inst 2 (.cons (.int 0) (.cons (.list .nil) (.cons (.str "") (.cons (.str "true") .nil))))) = true := by decide
example : pyEq T2 (.inst 3 (construct T2 3 kwFalsy))
    (.inst 3 (.cons (.int 0) (.cons (.list .nil) (.cons (.str "") (.cons (.str "true") .nil))))) = true := by decide
/-- three levels; `z` is not init-enabled and shows its class-level default -/
example : pyEq T2 (.inst 4 (construct T2 4 kwFalsy))
    (.inst 4 (.cons (.int 0) (.cons (.list .nil) (.cons (.str "") (.cons (.str "true") (.cons (.int 7) .nil)))))) = true := by
  decide
/-- nothing passed: the defaults, `note` stays missing -/
example : pyEq T2 (.inst 2 (construct T2 2 .nil))
    (.inst 2 (.cons (.int 3) (.cons dfl (.cons .missing (.cons (.str "true") .nil))))) = true := by decide
def xFalsy : Val := .inst 2 (.cons (.int 0) (.cons (.list .nil) (.cons (.str "") (.cons (.str "ls") .nil))))
example : okVal xFalsy = true ∧ reconstructible T2 (T2.attrs 2) (.cons (.int 0) (.cons (.list .nil) (.cons (.str "") (.cons (.str "ls") .nil)))) = true ∧
    pyEq T2 (reconstruct T2 xFalsy) xFalsy = true := by decide
/-- an attribute owned by a class outside the chain is outside `ownersOk` (no constructor assigns it) -/
example : ownersOk [{ name := "X", parent := none, key := none, attrs := [aO "a" 5 .missing] }] 0 = false := by decide

/-! Property-backed attributes and self-references: `S(base: int = 1, total: int` backed by
`spec_property(cache=True)` returning `self.base`, `ref: Any = None)`. -/
def T3 : Table :=
  [ { name := "Child", parent := none, key := some 0, attrs := [aI "name" true true, aI "v" true true] },
    { name := "S", parent := none, key := none,
      attrs := [aO "base" 1 (.int 1),
                { aO "total" 1 .missing with prop := some { cache := true, overridable := true, getter := .sameAs 0 } },
                aO "ref" 1 .none] } ]

/-- `x = S(base=2); x.total = 99`: own state and what getattr shows -/
def stOver : Vals := .cons (.int 2) (.cons (.int 99) (.cons .none .nil))
example : okFields stOver = true ∧ showS (T3.attrs 1) stOver = stOver := ⟨by decide, rfl⟩
/-- nothing stored for `total`: the getter's result; a memo made when `base` was 2 stays after `base` became 3 -/
example : showS (T3.attrs 1) (.cons (.int 2) (.cons .missing (.cons .none .nil)))
    = .cons (.int 2) (.cons (.int 2) (.cons .none .nil)) := rfl
example : showS (T3.attrs 1) (.cons (.int 3) (.cons (.int 2) (.cons .none .nil)))
    = .cons (.int 3) (.cons (.int 2) (.cons .none .nil)) := rfl
/-- the copy shows the override (a copy that dropped the entry would show `2`) -/
example : copyShows T3 1 stOver = stOver ∧ ((T3.attrs 1)[1]).storable = true := ⟨rfl, rfl⟩
/-- `S(base=2, total=99)` shows the override, `S(base=2)` what the getter returns for the new instance -/
example : construct T3 1 (.cons (.int 2) (.cons (.int 99) .nil)) = stOver ∧ ownersOk T3 1 = true := ⟨rfl, by decide⟩
example : construct T3 1 (.cons (.int 2) .nil) = .cons (.int 2) (.cons (.int 2) (.cons .none .nil)) := rfl

/-- `x.ref = x`; `z` differs from `x` in `base`; `y.ref = z` -/
def xSelf : Val := .inst 1 (.cons (.int 1) (.cons (.int 1) (.cons .selfRef .nil)))
def zOther : Val := .inst 1 (.cons (.int 2) (.cons (.int 2) (.cons .none .nil)))
def yHolds : Val := .inst 1 (.cons (.int 1) (.cons (.int 1) (.cons zOther .nil)))
def xList : Val := .inst 1 (.cons (.int 1) (.cons (.int 1) (.cons (.list (.cons .selfRef .nil)) .nil)))
example : wfTable T3 = true ∧ closed yHolds = true ∧ wfVal T3 yHolds = true ∧ closed xSelf = false ∧
    reaches (nthVal (.cons (.int 1) (.cons (.int 1) (.cons .selfRef .nil))) 2) = true := by decide
example : pyEqC T3 xSelf yHolds = false ∧ pyEqC T3 yHolds xSelf = false ∧ pyEqC T3 xSelf xSelf = true ∧
    pyEqC T3 xSelf zOther = false ∧ pyEqC T3 zOther xSelf = false := by decide
example : pyEqC T3 xList (.inst 1 (.cons (.int 1) (.cons (.int 1) (.cons (.list (.cons zOther .nil)) .nil)))) = false := by
  decide
/-- with the self-reference under a `compare=False` attribute the instances are equal -/
example : pyEqC [ { name := "N", parent := none, key := none, attrs := [aI "a" true true, aI "r" false true] } ]
    (.inst 0 (.cons (.int 1) (.cons .selfRef .nil))) (.inst 0 (.cons (.int 1) (.cons .none .nil))) = true := by decide


/-! metadata order: the overflow attribute annotated in the body between two others (`@spec_class(init_overflow_attr=
"options")`, body `name, options, retries`); `attrs_typed={"h": …}, attrs_skip=[]` with body `a, h, b`; a subclass naming an
inherited attribute and a new one; decorator-only names after the body; skipped and private annotations; unmanaged key -/
def oJob : DecoOpts := { annotations := ["name", "options", "retries"], attrs := [], typed := [], skipGiven := false
                         skipNames := [], overflow := some "options", key := none }
def oSample : DecoOpts := { annotations := ["a", "h", "b"], attrs := [], typed := ["h"], skipGiven := true
                            skipNames := [], overflow := none, key := none }
def oSub : DecoOpts := { annotations := ["m", "_p", "q"], attrs := ["x", "j"], typed := ["i", "y"], skipGiven := true
                         skipNames := ["q"], overflow := none, key := some "k" }
example : metaOrder [] oJob = ["name", "options", "retries"] ∧ metaOrder [] oSample = ["a", "h", "b"] := by decide
example : metaOrder ["i", "j", "k"] oSub = ["i", "j", "k", "m", "x", "y"] ∧ oSub.annotations.Nodup := by decide
example : metaOrder [] { oSample with skipGiven := false } = ["h"] ∧
    metaOrder [] { oJob with key := some "id" } = ["name", "options", "retries", "id"] := by decide

/-! outcomes: an object whose comparison raises at the second attribute — the outcome is `raised` when the first attribute
agrees, `False` when it differs (either operand order); the same object on both sides is identical; after the value is
replaced the comparison is `pyEq` again; repr / copy raise exactly for the flags of the object -/
def TB : Table :=
  [{ name := "S", parent := none, key := none, attrs := [aI "a" true true, aI "b" true true, aI "r" false false] }]
def bm : Boom := { id := 0, eqRaises := true, reprRaises := false, copyRaises := true }
example : wfTable TB = true ∧
    eqO TB 0 [.val (.int 1), .boom bm, .val .none] 0 [.val (.int 1), .val (.int 5), .val .none] = .raised ∧
    eqO TB 0 [.val (.int 1), .val (.int 5), .val .none] 0 [.val (.int 1), .boom bm, .val .none] = .raised ∧
    eqO TB 0 [.val (.int 2), .boom bm, .val .none] 0 [.val (.int 1), .val (.int 5), .val .none] = .ok false ∧
    eqO TB 0 [.val (.int 1), .boom bm, .val .none] 0 [.val (.int 1), .boom bm, .val .none] = .ok true ∧
    eqO TB 0 [.val (.int 1), .val .missing, .val .none] 0 [.val (.int 1), .boom bm, .val .none] = .ok false ∧
    eqO TB 0 [.val (.int 1), .val (.int 5), .getterRaises] 0 [.val (.int 1), .val (.int 5), .val .none] = .ok true := by
  decide
example : (reprO TB 0 [.val (.int 1), .boom bm, .val .none]).isSome = true ∧
    reprO TB 0 [.val (.int 1), .boom { bm with reprRaises := true }, .val .none] = none ∧
    reprO TB 0 [.val (.int 1), .getterRaises, .val .none] = none ∧
    (reprO TB 0 [.val (.int 1), .val .none, .getterRaises]).isSome = true ∧
    copyRaises (TB.attrs 0) [.val (.int 1), .boom bm, .val .none] = true ∧
    copyRaises (TB.attrs 0) [.val (.int 1), .boom { bm with copyRaises := false }, .val .none] = false := by decide
/-- A comparison that raised, then the same pair again after the value was replaced: `False` (the first attribute differs
by then), in both orders — and `True` once the attributes agree. -/
example : (runH TB [] [.put 0 0 [.val (.int 1), .boom bm, .val .none], .put 1 0 [.val (.int 1), .val (.int 5), .val .none],
      .cmp 0 1, .cmp 1 0, .put 0 0 [.val (.int 2), .val (.int 5), .val .none], .cmp 0 1, .cmp 1 0,
      .put 0 0 [.val (.int 1), .val (.int 5), .val (.int 9)], .cmp 0 1]).filterMap (fun o => match o with
        | .cmp r => some r | _ => none)
    = [.raised, .raised, .ok false, .ok false, .ok true] := by decide
end Examples
end SpecVerif.Props.C10
