import SpecVerif.Proofs.C11
/-!
# C11 — derived values are never stale after a dependency changes

Property theorems only (helper lemmas and the vocabulary `Reach`, `WF`,
`GetterLocal`, `FreshCache`, `Fresh`, `Lineage` are in `Proofs/C11.lean`). Every
theorem is about the executable definitions of `Model/C11.lean` — the ones the
correspondence check runs against the real `spec_classes`.

Quantification: any value type `V`; any resolved class table `R` that is
well-formed (`WF`: dependants are declared names, no dependency cycle through an
attribute with a default, `reset()` visits every defaulted attribute); any
getters that read only their (transitive) declared dependencies
(`GetterLocal`); any instance state; any operation through any entry point, in
place or copy-on-write; any history of any length (`Lineage`). `Reach R d p`
is the strict transitive closure of "p lists d (or '*') in invalidated_by", so
chains of any length are covered.
-/
set_option linter.unusedSectionVars false
set_option linter.unusedSimpArgs false
set_option linter.unusedVariables false
namespace SpecVerif.Props.C11
open SpecVerif.Py SpecVerif.C11

variable {V : Type}

/-! ## The invalidation map is what the declarations say -/

/-- `d` is in `invalidation_map[k]` exactly when the most-derived declaration of `d` (among the
scanned classes) lists `k` in its `invalidated_by`. -/
theorem mem_invMapOf_iff {ds : List (Member V)} {k : Key} {d : Name} :
    d ∈ invMapOf ds k ↔ ∃ m, lookupMember ds d = some m ∧ k ∈ m.invBy :=
  mem_invMapOf_iff'

/-! ## Which declaration of a redeclared name counts (`bootstrap`: `metadata.attrs` along the hierarchy)

`T.code.invMap` is computed from `effOwn T.mro`: the effective `metadata.attrs` entries (`effSpec`)
followed by the binding members of `owner.mro()`. -/

/-- A managed name is invalidated by exactly the keys of its entry in `metadata.attrs` (members
of the same name further down the MRO are shadowed: `seen_attributes`). -/
theorem managed_invMap_iff (T : Tbl V) {d : Name} {sp : Eff V}
    (h : effSpec false (ownerMro T.mro) d = some sp) (k : Key) :
    d ∈ T.code.invMap k ↔ k ∈ sp.invBy := by
  simp only [Tbl.code, Tbl.resolveWith]
  rw [mem_invMapOf_iff', lookupMember_effOwn_managed h]
  simp [effMember]

/-- A name that is not managed is invalidated by the keys of the first member of `owner.mro()`
that binds it. -/
theorem unmanaged_invMap_iff (T : Tbl V) {d : Name} (h : effSpec false (ownerMro T.mro) d = none) (k : Key) :
    d ∈ T.code.invMap k ↔ ∃ m, clsVal (declsOf (ownerMro T.mro)) d = some m ∧ k ∈ m.invBy := by
  simp only [Tbl.code, Tbl.resolveWith]
  rw [mem_invMapOf_iff', lookupMember_effOwn_unmanaged h]

/-- **The instance's own class has the last word.** A property that the body of the (spec) class
of the instance declares with dependencies of its own is invalidated by exactly those — whether
the name is annotated there or not, whether an ancestor already managed it or not, and whatever
`invalidated_by` the ancestors declared for it. -/
theorem own_property_declaration_wins (T : Tbl V) (c : ClassDecl V) (rest : List (ClassDecl V))
    (hT : T.mro = c :: rest) (hc : c.spec = true) {d : Name} {m : Member V}
    (hl : lookupMember c.members d = some m) {ch o a : Bool} (hk : m.kind = .prop ch o a)
    (hne : m.invBy ≠ []) (k : Key) :
    d ∈ T.code.invMap k ↔ k ∈ m.invBy := by
  have hown : ownerMro T.mro = c :: rest := by simp [ownerMro, hT, hc]
  have hempty : m.invBy.isEmpty = false := by
    cases hi : m.invBy with
    | nil => exact absurd hi hne
    | cons _ _ => rfl
  have hann : m.annotated = a := by simp [Member.annotated, hk]
  have hbind : m.binds = true := by simp [Member.binds, hk]
  have hspec : effSpec false (c :: rest) d =
      if a then some (scratchSpec m (declsOf rest)) else (effSpec false rest d).map (overrideSpec m) := by
    conv => lhs; unfold effSpec
    simp [hc, hl, hann]
  cases ha : a with
  | true =>
    have h1 : effSpec false (ownerMro T.mro) d = some ⟨.prop ch o true, m.invBy⟩ := by
      rw [hown, hspec, ha]; simp [scratchSpec, hk]
    exact managed_invMap_iff T h1 k
  | false =>
    cases hin : effSpec false rest d with
    | some sp =>
      have h1 : effSpec false (ownerMro T.mro) d = some ⟨.prop ch o true, m.invBy⟩ := by
        rw [hown, hspec, ha, hin]; simp [overrideSpec, hk, ownOr, hempty]
      exact managed_invMap_iff T h1 k
    | none =>
      have h1 : effSpec false (ownerMro T.mro) d = none := by
        rw [hown, hspec, ha, hin]; rfl
      rw [unmanaged_invMap_iff T h1 k, hown, declsOf_cons]
      have hfind : clsVal (c.members ++ declsOf rest) d = some m := by
        have hl' : c.members.find? (fun x => x.name == d) = some m := hl
        unfold clsVal
        rw [List.find?_append, find?_and (fun x : Member V => x.name == d) (fun x => x.binds) c.members m hl' hbind]
        rfl
      rw [hfind]
      simp

/-- … and a property that declares no dependencies of its own, put over an inherited managed
attribute without re-annotating it, keeps the inherited `invalidated_by`. -/
theorem silent_property_inherits (T : Tbl V) (c : ClassDecl V) (rest : List (ClassDecl V))
    (hT : T.mro = c :: rest) (hc : c.spec = true) {d : Name} {m : Member V}
    (hl : lookupMember c.members d = some m) {ch o : Bool} (hk : m.kind = .prop ch o false)
    (he : m.invBy = []) {sp : Eff V} (hin : effSpec false rest d = some sp) (k : Key) :
    d ∈ T.code.invMap k ↔ k ∈ sp.invBy := by
  have hown : ownerMro T.mro = c :: rest := by simp [ownerMro, hT, hc]
  have h1 : effSpec false (ownerMro T.mro) d = some ⟨.prop ch o true, sp.invBy⟩ := by
    rw [hown]
    conv => lhs; unfold effSpec
    simp [hc, hl, Member.annotated, hk, hin, overrideSpec, ownOr, he]
  exact managed_invMap_iff T h1 k

/-- Re-defaulting an inherited managed attribute (`n = v` in the subclass body, no annotation)
changes the default and keeps the inherited `invalidated_by`. -/
theorem redefault_keeps_invalidated_by (T : Tbl V) (c : ClassDecl V) (rest : List (ClassDecl V))
    (hT : T.mro = c :: rest) (hc : c.spec = true) {d : Name} {m : Member V}
    (hl : lookupMember c.members d = some m) {v : V} (hk : m.kind = .plain (some v))
    {sp : Eff V} (hin : effSpec false rest d = some sp) (k : Key) :
    (d ∈ T.code.invMap k ↔ k ∈ sp.invBy) ∧ dfltOf T.code d = some v := by
  have hown : ownerMro T.mro = c :: rest := by simp [ownerMro, hT, hc]
  have h1 : effSpec false (ownerMro T.mro) d = some ⟨.attr (some v), sp.invBy⟩ := by
    rw [hown]
    conv => lhs; unfold effSpec
    simp [hc, hl, Member.annotated, hk, hin, overrideSpec]
  refine ⟨managed_invMap_iff T h1 k, ?_⟩
  have hall : effAll false T.mro = effOwn false T.mro := by
    simp [effAll, bindingDecls, declsOf, hT, hc]
  unfold dfltOf
  simp only [Tbl.code, Tbl.resolveWith, h1, hall, lookupMember_effOwn_managed h1]
  simp [effMember]

/-- `n = Attr(default=…, invalidated_by=…)` over an inherited managed attribute is a
redeclaration: nothing of the inherited `invalidated_by` survives, even when it declares none. -/
theorem redeclared_attr_wins (T : Tbl V) (c : ClassDecl V) (rest : List (ClassDecl V))
    (hT : T.mro = c :: rest) (hc : c.spec = true) {d : Name} {m : Member V}
    (hl : lookupMember c.members d = some m) {dv : Option V} (hk : m.kind = .attr dv)
    (hf : m.form = .bareAttr) {sp : Eff V} (hin : effSpec false rest d = some sp) (k : Key) :
    d ∈ T.code.invMap k ↔ k ∈ m.invBy := by
  have hown : ownerMro T.mro = c :: rest := by simp [ownerMro, hT, hc]
  have h1 : effSpec false (ownerMro T.mro) d = some ⟨.attr dv, m.invBy⟩ := by
    rw [hown]
    conv => lhs; unfold effSpec
    simp [hc, hl, Member.annotated, hk, hf, hin, overrideSpec]
  exact managed_invMap_iff T h1 k

/-- A class (spec or undecorated) whose body does not mention the name passes the inherited entry
on unchanged: inheritance of any depth. -/
theorem unmentioned_inherits (h : Bool) (c : ClassDecl V) (rest : List (ClassDecl V)) (d : Name)
    (hl : lookupMember c.members d = none) : effSpec h (c :: rest) d = effSpec h rest d := by
  conv => lhs; unfold effSpec
  simp [hl]

/-- An undecorated class in the hierarchy that puts a property over a managed name: instances see
the property (kind, no default), but the library's invalidation map keeps the INHERITED keys —
the property's own `invalidated_by` is ignored (`honour = false`), which is what
KF-C11-plain-middle-override is about; the property text asks for `honour = true`. -/
theorem plain_class_property_over_managed (h : Bool) (c : ClassDecl V) (rest : List (ClassDecl V))
    (hc : c.spec = false) {d : Name} {m : Member V} (hl : lookupMember c.members d = some m)
    {ch o a : Bool} (hk : m.kind = .prop ch o a) {sp : Eff V} (hin : effSpec h rest d = some sp) :
    effSpec h (c :: rest) d =
      some ⟨.prop ch o true, if h then ownOr m.invBy sp.invBy else sp.invBy⟩ := by
  conv => lhs; unfold effSpec
  simp [hl, hc, hin, plainOverride, hk]

/-! ## `invalidate_attrs` terminates and clears exactly the transitive dependants -/

/-- The fuel of the model is never exhausted on a well-formed table (the library's recursion
terminates), whatever the state and the iteration order. -/
theorem invalidate_total {R : RTbl V} (wf : WF R) (a : Name) (s : Dict V) :
    ∃ s', invalidateTop R a s = some s' :=
  ⟨_, invalidateTop_eq wf a s⟩

/-- After `invalidate_attrs(obj, a)`: every transitive dependant of `a` other than `a` itself is
deleted (or back at its default), cached or not, read or not yet read; nothing else changed. `a`
itself (when it lies on a dependency cycle, e.g. two members invalidated by `'*'`) keeps what it
holds unless ANOTHER node of such a cycle held a value (`CycleFull`): then that node's `delattr`
succeeds, re-enters `invalidate_attrs` with a fresh `_visited` and comes back to `a`. -/
theorem invalidate_eq {R : RTbl V} (wf : WF R) (a : Name) (s : Dict V) :
    ∃ s', invalidateTop R a s = some s' ∧
      (∀ x, (Reach R a x → x ≠ a → s' x = clearedVal R x) ∧ (¬ Reach R a x → s' x = s x)) ∧
      (¬ CycleFull R a s → s' a = s a) ∧ (Reach R a a → CycleFull R a s → s' a = clearedVal R a) :=
  ⟨_, invalidateTop_eq wf a s,
    fun x => ⟨fun h hne => clearReach_of_reach s h hne, fun h => clearReach_of_not s h⟩,
    fun h => clearReach_self_keep s h, fun hr h => clearReach_self_drop s hr h⟩

/-- **An assignment survives its own invalidation round** (fix 0ce7c4e): after a successful
`setattr` / `with_<a>` / … of `a`, the instance holds the assigned value — whatever depends on
what (`'*'` members, dependency cycles through `a`) — provided no other node on a dependency
cycle through `a` held a value at that moment. -/
theorem set_keeps_own_value {R : RTbl V} (wf : WF R) {a : Name} {v : V} {tc : Bool} {s s' : Dict V}
    (h : mutateAttr R a v tc s = .ok s') (hc : ¬ CycleFull R a (dset s a (Tag.user, v))) :
    s' a = some (Tag.user, v) := by
  rw [mutateAttr_ok wf h, clearReach_self_keep _ hc]
  simp [dset]

/-- In particular when `a` is on no dependency cycle at all. -/
theorem set_keeps_own_value_of_acyclic {R : RTbl V} (wf : WF R) {a : Name} {v : V} {tc : Bool} {s s' : Dict V}
    (h : mutateAttr R a v tc s = .ok s') (hr : ¬ Reach R a a) : s' a = some (Tag.user, v) :=
  set_keeps_own_value wf h (fun ⟨_, _, h1, h2, _⟩ => hr (h1.trans h2))

/-- … and the converse, which is what the library still does after 0ce7c4e (reported as a finding):
if another node of a cycle through `a` holds a value (a filled cache, an override), the value just
assigned to `a` is discarded again. -/
theorem set_drops_own_value_of_full_cycle {R : RTbl V} (wf : WF R) {a : Name} {v : V} {tc : Bool} {s s' : Dict V}
    (h : mutateAttr R a v tc s = .ok s') (hc : CycleFull R a (dset s a (Tag.user, v))) : s' a = none := by
  obtain ⟨y, _, h1, h2, _⟩ := hc
  have hr : Reach R a a := h1.trans h2
  have hdf : dfltOf R a = none := by
    cases hd : dfltOf R a with
    | none => rfl
    | some w => exact absurd hr (wf.acyc a (by simp [hd]))
  rw [mutateAttr_ok wf h, clearReach_self_drop _ hr ⟨y, ‹_›, h1, h2, ‹_›⟩, clearedVal_none hdf]

/-- The result does not depend on the order in which the dependants are visited (the library
iterates over a `set` union): any table with the same entries in another order gives the same state. -/
theorem invalidate_order_irrelevant {R : RTbl V} (wf : WF R) (im' : Key → List Name)
    (h : ∀ k d, d ∈ im' k ↔ d ∈ R.invMap k) (a : Name) (s : Dict V) :
    invalidateTop { R with invMap := im' } a s = invalidateTop R a s :=
  invalidateTop_order wf im' h a s

/-- The visited-set recursion from any intermediate call also terminates (any `_visited`, any fuel
above the measure). -/
theorem invalidate_terminates {R : RTbl V} (wf : WF R) (fuel : Nat) (r a : Name) (vis : List Name) (s : Dict V)
    (hv : VisOK R r vis s) (h : R.fuel ≤ fuel) : ∃ res, invalidate R fuel a vis s = some res := by
  obtain ⟨vis', s', h', _⟩ := inv_post wf fuel r a vis s (Nat.lt_of_lt_of_le (mu_lt_fuel R a vis s) h) hv
  exact ⟨_, h'⟩

/-! ## The invariant -/

/-- Construction (every write with `skip_invalidation=True`) yields a fresh instance. Caches
filled and attributes assigned in `__post_init__` are ordinary steps (`fresh_step`). -/
theorem fresh_init {R : RTbl V} {kw : List (Name × V)} {s : Dict V} (h : construct R kw = .ok s) :
    Fresh R ⟨s, fun _ => 0, 0⟩ :=
  ⟨construct_fresh h, fun z v _ d _ hlt => by simp at hlt, fun _ => Nat.le_refl _⟩

/-- Every entry point (getattr, setattr, delattr, with_/update_/transform_/reset_<a>, element
helpers, update/transform/reset), in place or on a copy, successful or failing, preserves `Fresh`
on whichever instance one continues with. -/
theorem fresh_step {R : RTbl V} (wf : WF R) (gl : GetterLocal R) {g : GInst V} (hf : Fresh R g)
    (op : Op V) (ip follow : Bool) : Fresh R (gnext R g op ip follow) :=
  fresh_gnext wf gl hf op ip follow

/-- `Fresh` holds after every history. -/
theorem fresh_reachable {R : RTbl V} (wf : WF R) (gl : GetterLocal R) {g : GInst V} (h : Lineage R g) :
    Fresh R g :=
  fresh_lineage wf gl h

/-- The same for several live instances (the form the driver executes). -/
theorem fresh_world_step {R : RTbl V} (wf : WF R) (gl : GetterLocal R) (w : World V)
    (hw : ∀ s ∈ w, FreshCache R s) (i : Nat) (op : Op V) (ip : Bool) :
    ∀ s ∈ (wstep R w i op ip).world, FreshCache R s :=
  wstep_fresh wf gl w hw i op ip

/-- A read never returns a stale value: it is the user's override, or the getter on the current
cache-free state. -/
theorem never_stale {R : RTbl V} {s : Dict V} (hf : FreshCache R s) (p : Name) {c o an : Bool}
    (hk : R.kind p = .prop c o an) :
    ∃ v, (readAttr R p s).val = .ok v ∧ ((∃ w, s p = some (Tag.user, w) ∧ v = w) ∨ v = R.getter p (nc s)) := by
  unfold readAttr
  rw [hk]
  simp only
  cases hsl : (if (o || c) = true then s p else none) with
  | none => exact ⟨_, rfl, Or.inr rfl⟩
  | some e =>
    obtain ⟨t, v⟩ := e
    refine ⟨v, rfl, ?_⟩
    have hs : s p = some (t, v) := by
      split at hsl
      · exact hsl
      · cases hsl
    cases t with
    | user => exact Or.inl ⟨v, hs, rfl⟩
    | cache => exact Or.inr (hf p v hs)

/-! ## What a mutation discards, and what it keeps -/

/-- After a successful call that assigned / deleted `d`, every property `p` downstream of `d`
(chains of any length, through cached, uncached or not-yet-read intermediates) has an empty slot:
the next read calls the getter on the current state. -/
theorem read_recomputes {R : RTbl V} (wf : WF R) (s : Dict V) (op : Op V) (ip : Bool) {s' : Dict V}
    (hok : (step R s op ip).res = .ok s') {d p : Name} (hd : d ∈ op.names R)
    (hex : op.exact = true ∨ (dfltOf R d).isSome) (hr : Reach R d p)
    (hp : p ∉ op.names R) (hpf : p ∉ op.fillable) {c o an : Bool} (hk : R.kind p = .prop c o an) :
    s' p = none ∧ (readAttr R p s').val = .ok (R.getter p (nc s')) ∧ (readAttr R p s').calls = [p] := by
  obtain ⟨F, D, hrun, hF, hD, hexact, hall⟩ := (step_spec wf s op ip).ok s' hok
  have hdD : d ∈ D := by
    rcases hex with h | h
    · exact hexact h d hd
    · exact hall d hd h
  have hnone : dfltOf R p = none := by unfold dfltOf; rw [hk]; split <;> rfl
  have hs' : s' p = none := by
    rw [hrun.cleared d hdD p hr (fun h => hp (hD p h)) (fun h => hpf (hF p h)), clearedVal_none hnone]
  refine ⟨hs', ?_, ?_⟩ <;> (unfold readAttr; rw [hk]; simp [hs'])

/-- … and every `invalidated_by` attribute downstream of `d` is back at its default. -/
theorem attr_back_at_default {R : RTbl V} (wf : WF R) (s : Dict V) (op : Op V) (ip : Bool) {s' : Dict V}
    (hok : (step R s op ip).res = .ok s') {d z : Name} (hd : d ∈ op.names R)
    (hex : op.exact = true ∨ (dfltOf R d).isSome) (hr : Reach R d z) (hz : z ∉ op.names R)
    {v : V} (hv : dfltOf R z = some v) : s' z = some (Tag.user, v) := by
  obtain ⟨F, D, hrun, hF, hD, hexact, hall⟩ := (step_spec wf s op ip).ok s' hok
  have hdD : d ∈ D := by
    rcases hex with h | h
    · exact hexact h d hd
    · exact hall d hd h
  have hcv : clearedVal R z = some (Tag.user, v) := by simp [clearedVal, hv]
  rw [hrun.cleared_some d hdD z hr (fun h => hz (hD z h)) (by simp [hcv]), hcv]

/-- Mutating unrelated names discards nothing: whatever a slot held, it still holds (in the
result and in the receiver). -/
theorem unrelated_keeps {R : RTbl V} (wf : WF R) (s : Dict V) (op : Op V) (ip : Bool) {s' : Dict V}
    (hok : (step R s op ip).res = .ok s') {t : Name} (ht : t ∉ op.names R)
    (hun : ∀ d ∈ op.names R, ¬ Reach R d t) {e : Tag × V} (he : s t = some e) :
    s' t = some e ∧ (step R s op ip).self t = some e := by
  obtain ⟨F, D, hrun, hF, hD, _, _⟩ := (step_spec wf s op ip).ok s' hok
  have h1 : s' t = some e :=
    hrun.keep t (fun h => ht (hD t h)) (fun d hd => hun d (hD d hd)) e he
  refine ⟨h1, ?_⟩
  rcases (step_spec wf s op ip).self with ⟨F', hr', _⟩ | ⟨s'', hs'', hself⟩
  · exact hr'.fills_keep t e he
  · rw [hok] at hs''; cases hs''; rw [hself]; exact h1

/-- A failed mutation discards nothing (and returns no instance). -/
theorem failed_keeps {R : RTbl V} (wf : WF R) (s : Dict V) (op : Op V) (ip : Bool) {err : Err}
    (hfail : (step R s op ip).res = .error err) :
    ∀ t e, s t = some e → (step R s op ip).self t = some e := by
  rcases (step_spec wf s op ip).self with ⟨F', hr', _⟩ | ⟨s'', hs'', _⟩
  · exact hr'.fills_keep
  · rw [hfail] at hs''; cases hs''

/-- A copy-on-write call discards nothing on the receiver either. -/
theorem copy_keeps_receiver {R : RTbl V} (s : Dict V) (op : Op V) (h : op.alwaysInPlace = false) :
    ∀ t e, s t = some e → (step R s op false).self t = some e := by
  obtain ⟨F, hr, _⟩ := step_self_copy (R := R) s op h
  exact hr.fills_keep

/-- In place, the receiver is the result. -/
theorem inplace_is_result {R : RTbl V} (s : Dict V) (op : Op V) {s' : Dict V}
    (h : (step R s op true).res = .ok s') : (step R s op true).self = s' :=
  step_self_inplace s op h

/-! ## Open finding KF-C11-plain-subclass (D12)

`SpecClassMetadata.invalidation_map` is computed once from `metadata.owner.mro()`;
members of undecorated subclasses of the owner are never scanned (`Tbl.code`),
although they are declared dependants of the instance's type (`Tbl.full`). -/

/-- Full statement: the library (`T.code`) keeps instances fresh with respect to every declared
dependant of the instance's type (`T.full`). -/
def FullStatement (V : Type) : Prop :=
  ∀ T : Tbl V, WF T.full → GetterLocal T.full → ∀ g, Lineage T.code g → Fresh T.full g

/-- "Every dependant is defined in a spec class of the MRO": the scan from the metadata owner
sees the same dependants as a scan of the whole MRO. -/
def OwnerCoversDependants (T : Tbl V) : Prop :=
  ∀ k d, d ∈ T.full.invMap k ↔ d ∈ T.code.invMap k

/-- "The declarations of undecorated classes inside the owner's hierarchy make no difference":
no such class puts a property with dependencies of its own over a managed name. -/
def PlainClassesSilent (T : Tbl V) : Prop :=
  ∀ n, effSpec true (ownerMro T.mro) n = effSpec false (ownerMro T.mro) n

/-- … which holds in particular when the undecorated classes declare no `invalidated_by` at all. -/
theorem plainClassesSilent_of_no_invBy (T : Tbl V)
    (h : ∀ c ∈ ownerMro T.mro, c.spec = false → ∀ m ∈ c.members, m.invBy = []) : PlainClassesSilent T :=
  effSpec_honour_irrelevant _ h

theorem effOwn_congr (T : Tbl V) (hs : PlainClassesSilent T) : effOwn true T.mro = effOwn false T.mro := by
  unfold effOwn effManaged
  congr 2
  funext n
  rw [hs n]

/-- Holds when the instance's class is itself a spec class — PROVIDED no undecorated class between
the spec classes overrides a managed name with dependencies of its own (`PlainClassesSilent`; without
it the statement is false: `middle_override_not_covered`). -/
theorem owner_covers_of_spec_head (T : Tbl V) (c : ClassDecl V) (cs : List (ClassDecl V))
    (h : T.mro = c :: cs) (hc : c.spec = true) (hs : PlainClassesSilent T) : OwnerCoversDependants T := by
  intro k d
  have : effAll true T.mro = effOwn false T.mro := by
    rw [← effOwn_congr T hs]
    simp [effAll, bindingDecls, declsOf, h, hc]
  simp only [Tbl.full, Tbl.code, Tbl.resolveWith, this]

/-- … and when the undecorated subclasses in front of the owner declare no `invalidated_by`
and do not redeclare a name of the owner's hierarchy. -/
theorem owner_covers_of_silent_plain (T : Tbl V) (hs : PlainClassesSilent T)
    (h : ∀ m ∈ declsOf (T.mro.takeWhile (fun c => !c.spec)),
      m.invBy = [] ∧ lookupMember (declsOf (ownerMro T.mro)) m.name = none) :
    OwnerCoversDependants T := by
  intro k d
  simp only [Tbl.full, Tbl.code, Tbl.resolveWith]
  rw [mem_invMapOf_iff', mem_invMapOf_iff']
  unfold effAll
  rw [effOwn_congr T hs, lookupMember_append]
  cases hpre : lookupMember (bindingDecls (T.mro.takeWhile (fun c => !c.spec))) d with
  | none => simp
  | some m =>
    obtain ⟨hmem, hname⟩ := lookupMember_some hpre
    obtain ⟨hinv, hno⟩ := h m (List.mem_filter.1 hmem).1
    rw [hname] at hno
    simp [hinv, lookupMember_effOwn_none false hno]

/-- The property for every table in which the owner's scan covers all declared dependants. -/
theorem fresh_reachable_partial (T : Tbl V) (hcov : OwnerCoversDependants T)
    (wf : WF T.full) (gl : GetterLocal T.full) {g : GInst V} (h : Lineage T.code g) : Fresh T.full g := by
  have hr : ∀ a d, Reach T.full a d ↔ Reach T.code a d := fun a d => reach_congr hcov
  have hdf : ∀ n, dfltOf T.full n = dfltOf T.code n := fun n => rfl
  have wf' : WF T.code :=
    ⟨resolve_closed T _ (effOwn_names' _ T.mro),
     fun z hz hrz => wf.acyc z hz ((hr z z).2 hrz),
     resolve_managedComplete T _⟩
  have gl' : GetterLocal T.code := by
    intro p f g' hfg
    exact gl p f g' (fun n hn => hfg n ((hr n p).1 hn))
  have hf := fresh_lineage wf' gl' h
  exact ⟨hf.cache, fun z v hz d hd hlt => hf.attr z v hz d ((hr d z).1 hd) hlt, hf.clock⟩

/-! ### the counter-witness (`witnessT`, `witnessG` and their lemmas are in `Proofs/C11.lean`) -/

/-- The full statement is false of the model — and of the library, which the correspondence check
shows on every run (the witness is replayed as a known finding). -/
theorem full_statement_fails : ¬ FullStatement Int := by
  intro h
  have hf := h witnessT witness_wf witness_getterLocal witnessG witness_lineage
  have := hf.cache 1 1 witness_stale.1
  rw [witness_stale.2] at this
  exact absurd this (by decide)

/-- On the table the property asks for (`Tbl.full`) the same history is fresh: the defect is the
scan, not the invalidation algorithm. -/
theorem witness_full_ok :
    (gnext witnessT.full (gnext witnessT.full ⟨dset Dict.empty 0 (Tag.user, 1), fun _ => 0, 0⟩
      (.read 1) true true) (.setattr 0 5) true true).d 1 = none := by
  decide

/-! ## Open finding KF-C11-plain-middle-override

An undecorated class BETWEEN two spec classes that puts a cached property over a managed
attribute: the instance's class is a spec class, yet the property's own `invalidated_by` never
reaches the map (`plain_class_property_over_managed`). `witness2T`, `witness2G` in `Proofs/C11.lean`. -/

/-- `owner_covers_of_spec_head` needs `PlainClassesSilent`: there is a table whose head is a spec
class, well-formed and getter-local on `Tbl.full`, with a history of the library (`Tbl.code`) that
is not fresh — `x = S2(); x.n; x.b = 5` leaves `n` stale. -/
theorem middle_override_not_covered :
    ∃ T : Tbl Int, (∃ c cs, T.mro = c :: cs ∧ c.spec = true) ∧ WF T.full ∧ GetterLocal T.full ∧
      ∃ g, Lineage T.code g ∧ ¬ Fresh T.full g := by
  refine ⟨witness2T, ⟨_, _, rfl, rfl⟩, witness2_wf, witness2_getterLocal, witness2G, witness2_lineage, ?_⟩
  intro hf
  have := hf.cache 2 20 witness2_stale.1
  rw [witness2_stale.2] at this
  exact absurd this (by decide)

/-- The library's map of the witness lists `n` under `a` only (the inherited key); the table the
property asks for lists it under `b` (its own declaration). -/
theorem middle_override_maps :
    (2 ∈ witness2T.code.invMap (.nm 0) ∧ 2 ∉ witness2T.code.invMap (.nm 1)) ∧
    (2 ∉ witness2T.full.invMap (.nm 0) ∧ 2 ∈ witness2T.full.invMap (.nm 1)) := by
  decide

/-- On `Tbl.full` the same history is fresh: the defect is the map, not the algorithm. -/
theorem middle_override_full_ok :
    (gnext witness2T.full (gnext witness2T.full
      ⟨dset (dset Dict.empty 0 (Tag.user, 1)) 1 (Tag.user, 2), fun _ => 0, 0⟩
      (.read 2) true true) (.setattr 1 5) true true).d 2 = none := by
  decide

/-! ## Non-vacuity: a non-trivial table satisfying every hypothesis -/

/-! `exT` (in `Proofs/C11.lean`): `a: int = 1`; `z: int = Attr(default=7, invalidated_by=['a'])`; cached `p`
(invalidated_by z, returns a + z); cached `w`, `w2` (invalidated_by '*': a dependency cycle without
defaults); `ex_wf : WF exT.code`, `ex_getterLocal : GetterLocal exT.code`. -/

/-- A history on `exT` that fills caches, overrides, mutates in place and on a copy, and fails once. -/
example : ∃ g, Lineage exT.code g ∧ Fresh exT.code g ∧ g.d 2 = some (Tag.cache, 12) ∧ g.d 1 = some (Tag.user, 7) := by
  have h0 : construct exT.code [(1, 9)] = .ok (dset (dset Dict.empty 0 (Tag.user, 1)) 1 (Tag.user, 9)) := rfl
  let g := gnext exT.code (gnext exT.code (gnext exT.code (gnext exT.code
      ⟨dset (dset Dict.empty 0 (Tag.user, 1)) 1 (Tag.user, 9), fun _ => 0, 0⟩
      (.read 2) true true) (.withAttr 0 5) false true) (.setattr 4 3) true true) (.read 2) true true
  have hl : Lineage exT.code g := .step _ _ _ _ (.step _ _ _ _ (.step _ _ _ _ (.step _ _ _ _ (.init _ _ h0))))
  exact ⟨g, hl, fresh_reachable ex_wf ex_getterLocal hl, by decide, by decide⟩

/-- `read_recomputes` is not vacuous: `with_a(5)` after reading `p` (two steps down the chain
a → z → p) empties `p`'s slot; `z` is back at 7. -/
example :
    let s0 : Dict Int := dset (dset (dset Dict.empty 0 (Tag.user, 1)) 1 (Tag.user, 9)) 2 (Tag.cache, 10)
    ∃ s', (step exT.code s0 (.withAttr 0 5) false).res = .ok s' ∧ s' 2 = none ∧ s' 1 = some (Tag.user, 7) ∧
      (step exT.code s0 (.withAttr 0 5) false).self 2 = some (Tag.cache, 10) := by
  intro s0
  refine ⟨_, rfl, ?_, ?_, ?_⟩ <;> decide

/-- `failed_keeps` is not vacuous: overriding the non-overridable `w2` raises and keeps the caches. -/
example :
    let s0 : Dict Int := dset (dset Dict.empty 0 (Tag.user, 1)) 3 (Tag.cache, 0)
    (step exT.code s0 (.setattr 4 3) true).res = .error .attributeError ∧
    (step exT.code s0 (.setattr 4 3) true).self 3 = some (Tag.cache, 0) := by
  intro s0
  exact ⟨rfl, by decide⟩

/-! `ovT`: `class Order` (spec): `net: int = 0` (0), `shipping: int = 0` (1), annotated cached `total` (2,
`invalidated_by=['net']`), `note: int = Attr(default=7, invalidated_by=['net'])` (3), un-annotated
`weight` property without dependencies (4); `class ShippedOrder(Order)` (spec) overrides, without
annotating: `total` with `invalidated_by=['net', 'shipping']`, `note = 9`, and `weight` stays. -/
def ovT : Tbl Int :=
  { mro := [⟨true, [⟨2, .prop true true false, [.nm 0, .nm 1], .std⟩, ⟨3, .plain (some 9), [], .std⟩]⟩,
            ⟨true, [⟨0, .attr (some 0), [], .std⟩, ⟨1, .attr (some 0), [], .std⟩,
                     ⟨2, .prop true true true, [.nm 0], .std⟩, ⟨3, .attr (some 7), [.nm 0], .viaAttr⟩,
                     ⟨4, .prop false true false, [], .std⟩]⟩]
    getter := fun p f => if p = 2 then (f 0).getD 0 + (f 1).getD 0 else 1
    okType := fun _ _ => true
    ctor0 := fun _ => some 0 }

/-- `own_property_declaration_wins` / `redefault_keeps_invalidated_by` are not vacuous: on `ovT` the
subclass's `total` is invalidated by `shipping` (which only the subclass lists), `note` keeps
`invalidated_by=['net']` with the new default 9, and the history `s.total; s.shipping = 7` leaves the
slot of `total` empty, so that the next read recomputes. -/
example : (∀ k, 2 ∈ ovT.code.invMap k ↔ k ∈ [Key.nm 0, Key.nm 1]) ∧
    ((∀ k, 3 ∈ ovT.code.invMap k ↔ k ∈ [Key.nm 0]) ∧ dfltOf ovT.code 3 = some 9) ∧
    (gnext ovT.code (gnext ovT.code ⟨dset (dset (dset Dict.empty 0 (Tag.user, 0)) 1 (Tag.user, 0)) 3 (Tag.user, 9),
      fun _ => 0, 0⟩ (.read 2) true true) (.setattr 1 7) true true).d 2 = none :=
  ⟨fun k => own_property_declaration_wins ovT _ _ rfl rfl (d := 2) rfl rfl (by simp) k,
   ⟨fun k => (redefault_keeps_invalidated_by ovT _ _ rfl rfl (d := 3) rfl rfl
      (sp := ⟨.attr (some 7), [.nm 0]⟩) rfl k).1,
    (redefault_keeps_invalidated_by ovT _ _ rfl rfl (d := 3) rfl rfl
      (sp := ⟨.attr (some 7), [.nm 0]⟩) rfl Key.star).2⟩,
   by decide⟩

/-- `set_keeps_own_value` on the table with two `'*'` properties (`w` = 3 overridable, `w2` = 4):
`x.w = -1` with `w2` not yet read keeps the override, and the next read returns it. -/
example :
    let s0 : Dict Int := dset Dict.empty 0 (Tag.user, 1)
    ∃ s', (step exT.code s0 (.setattr 3 (-1)) true).res = .ok s' ∧ s' 3 = some (Tag.user, -1) ∧
      (readAttr exT.code 3 s').val = .ok (-1) ∧ (readAttr exT.code 3 s').calls = [] := by
  intro s0
  refine ⟨_, rfl, ?_, ?_, ?_⟩ <;> first | decide | rfl

/-- … and `set_drops_own_value_of_full_cycle` on the same table: with the cache of `w2` filled
(`x.w2; x.w = -1`) the override is discarded again and the next read calls the getter. -/
example :
    let s0 : Dict Int := dset (dset Dict.empty 0 (Tag.user, 1)) 4 (Tag.cache, 0)
    ∃ s', (step exT.code s0 (.setattr 3 (-1)) true).res = .ok s' ∧ s' 3 = none ∧ s' 4 = none ∧
      (readAttr exT.code 3 s').calls = [3] := by
  intro s0
  refine ⟨_, rfl, ?_, ?_, ?_⟩ <;> decide

/-- The hypotheses of `fresh_reachable_partial` hold for a table with a spec subclass. -/
example : OwnerCoversDependants exT :=
  owner_covers_of_spec_head exT _ _ rfl rfl (plainClassesSilent_of_no_invBy exT (by simp [exT, ownerMro]))

end SpecVerif.Props.C11
