import SpecVerif.Proofs.C11
/-!
# C11 — derived values are never stale after a dependency changes

Property theorems only (helper lemmas and the vocabulary `Reach`, `WF`,
`GetterLocal`, `FreshCache`, `Fresh`, `Lineage` are in `Proofs/C11.lean`). Every
theorem is about the executable definitions of `Model/C11.lean` — the ones the
correspondence check runs against the real `spec_classes`.

Quantification: any value type `V`; any resolved class table `R` that is
well-formed (`WF`: dependants are declared names, no dependency cycle through an
attribute with a default, `reset()` visits every defaulted attribute); any
getters that read only their (transitive) declared dependencies
(`GetterLocal`); any instance state; any operation through any entry point, in
place or copy-on-write; any history of any length (`Lineage`). `Reach R d p`
is the strict transitive closure of "p lists d (or '*') in invalidated_by", so
chains of any length are covered.
-/
set_option linter.unusedSectionVars false
set_option linter.unusedSimpArgs false
set_option linter.unusedVariables false
namespace SpecVerif.Props.C11
open SpecVerif.Py SpecVerif.C11

variable {V : Type}

/-! ## The invalidation map is what the declarations say -/

/-- `d` is in `invalidation_map[k]` exactly when the most-derived declaration of `d` (among the
scanned classes) lists `k` in its `invalidated_by`. -/
theorem mem_invMapOf_iff {ds : List (Member V)} {k : Key} {d : Name} :
    d ∈ invMapOf ds k ↔ ∃ m, lookupMember ds d = some m ∧ k ∈ m.invBy :=
  mem_invMapOf_iff'

/-! ## `invalidate_attrs` terminates and clears exactly the transitive dependants -/

/-- The fuel of the model is never exhausted on a well-formed table (the library's recursion
terminates), whatever the state and the iteration order. -/
theorem invalidate_total {R : RTbl V} (wf : WF R) (a : Name) (s : Dict V) :
    ∃ s', invalidateTop R a s = some s' :=
  ⟨_, invalidateTop_eq wf a s⟩

/-- After `invalidate_attrs(obj, a)`: every transitive dependant of `a` is deleted (or back at
its default), cached or not, read or not yet read; nothing else changed. -/
theorem invalidate_eq {R : RTbl V} (wf : WF R) (a : Name) (s : Dict V) :
    ∃ s', invalidateTop R a s = some s' ∧
      ∀ x, (Reach R a x → s' x = clearedVal R x) ∧ (¬ Reach R a x → s' x = s x) :=
  ⟨_, invalidateTop_eq wf a s, fun x =>
    ⟨fun h => clearReach_of_reach s h, fun h => clearReach_of_not s h⟩⟩

/-- The result does not depend on the order in which the dependants are visited (the library
iterates over a `set` union): any table with the same entries in another order gives the same state. -/
theorem invalidate_order_irrelevant {R : RTbl V} (wf : WF R) (im' : Key → List Name)
    (h : ∀ k d, d ∈ im' k ↔ d ∈ R.invMap k) (a : Name) (s : Dict V) :
    invalidateTop { R with invMap := im' } a s = invalidateTop R a s :=
  invalidateTop_order wf im' h a s

/-- The visited-set recursion from any intermediate call also terminates (any `_visited`, any fuel
above the measure). -/
theorem invalidate_terminates {R : RTbl V} (wf : WF R) (fuel : Nat) (a : Name) (vis : List Name) (s : Dict V)
    (h : R.fuel ≤ fuel) : ∃ r, invalidate R fuel a vis s = some r := by
  obtain ⟨vis', s', h', _⟩ := inv_post wf fuel a vis s (Nat.lt_of_lt_of_le (mu_lt_fuel R a vis s) h)
  exact ⟨_, h'⟩

/-! ## The invariant -/

/-- Construction (every write with `skip_invalidation=True`) yields a fresh instance. Caches
filled and attributes assigned in `__post_init__` are ordinary steps (`fresh_step`). -/
theorem fresh_init {R : RTbl V} {kw : List (Name × V)} {s : Dict V} (h : construct R kw = .ok s) :
    Fresh R ⟨s, fun _ => 0, 0⟩ :=
  ⟨construct_fresh h, fun z v _ d _ hlt => by simp at hlt, fun _ => Nat.le_refl _⟩

/-- Every entry point (getattr, setattr, delattr, with_/update_/transform_/reset_<a>, element
helpers, update/transform/reset), in place or on a copy, successful or failing, preserves `Fresh`
on whichever instance one continues with. -/
theorem fresh_step {R : RTbl V} (wf : WF R) (gl : GetterLocal R) {g : GInst V} (hf : Fresh R g)
    (op : Op V) (ip follow : Bool) : Fresh R (gnext R g op ip follow) :=
  fresh_gnext wf gl hf op ip follow

/-- `Fresh` holds after every history. -/
theorem fresh_reachable {R : RTbl V} (wf : WF R) (gl : GetterLocal R) {g : GInst V} (h : Lineage R g) :
    Fresh R g :=
  fresh_lineage wf gl h

/-- The same for several live instances (the form the driver executes). -/
theorem fresh_world_step {R : RTbl V} (wf : WF R) (gl : GetterLocal R) (w : World V)
    (hw : ∀ s ∈ w, FreshCache R s) (i : Nat) (op : Op V) (ip : Bool) :
    ∀ s ∈ (wstep R w i op ip).world, FreshCache R s :=
  wstep_fresh wf gl w hw i op ip

/-- A read never returns a stale value: it is the user's override, or the getter on the current
cache-free state. -/
theorem never_stale {R : RTbl V} {s : Dict V} (hf : FreshCache R s) (p : Name) {c o an : Bool}
    (hk : R.kind p = .prop c o an) :
    ∃ v, (readAttr R p s).val = .ok v ∧ ((∃ w, s p = some (Tag.user, w) ∧ v = w) ∨ v = R.getter p (nc s)) := by
  unfold readAttr
  rw [hk]
  simp only
  cases hsl : (if (o || c) = true then s p else none) with
  | none => exact ⟨_, rfl, Or.inr rfl⟩
  | some e =>
    obtain ⟨t, v⟩ := e
    refine ⟨v, rfl, ?_⟩
    have hs : s p = some (t, v) := by
      split at hsl
      · exact hsl
      · cases hsl
    cases t with
    | user => exact Or.inl ⟨v, hs, rfl⟩
    | cache => exact Or.inr (hf p v hs)

/-! ## What a mutation discards, and what it keeps -/

/-- After a successful call that assigned / deleted `d`, every property `p` downstream of `d`
(chains of any length, through cached, uncached or not-yet-read intermediates) has an empty slot:
the next read calls the getter on the current state. -/
theorem read_recomputes {R : RTbl V} (wf : WF R) (s : Dict V) (op : Op V) (ip : Bool) {s' : Dict V}
    (hok : (step R s op ip).res = .ok s') {d p : Name} (hd : d ∈ op.names R)
    (hex : op.exact = true ∨ (dfltOf R d).isSome) (hr : Reach R d p)
    (hp : p ∉ op.names R) (hpf : p ∉ op.fillable) {c o an : Bool} (hk : R.kind p = .prop c o an) :
    s' p = none ∧ (readAttr R p s').val = .ok (R.getter p (nc s')) ∧ (readAttr R p s').calls = [p] := by
  obtain ⟨F, D, hrun, hF, hD, hexact, hall⟩ := (step_spec wf s op ip).ok s' hok
  have hdD : d ∈ D := by
    rcases hex with h | h
    · exact hexact h d hd
    · exact hall d hd h
  have hnone : dfltOf R p = none := by unfold dfltOf; rw [hk]; split <;> rfl
  have hs' : s' p = none := by
    rw [hrun.cleared d hdD p hr (fun h => hp (hD p h)) (fun h => hpf (hF p h)), clearedVal_none hnone]
  refine ⟨hs', ?_, ?_⟩ <;> (unfold readAttr; rw [hk]; simp [hs'])

/-- … and every `invalidated_by` attribute downstream of `d` is back at its default. -/
theorem attr_back_at_default {R : RTbl V} (wf : WF R) (s : Dict V) (op : Op V) (ip : Bool) {s' : Dict V}
    (hok : (step R s op ip).res = .ok s') {d z : Name} (hd : d ∈ op.names R)
    (hex : op.exact = true ∨ (dfltOf R d).isSome) (hr : Reach R d z) (hz : z ∉ op.names R)
    {v : V} (hv : dfltOf R z = some v) : s' z = some (Tag.user, v) := by
  obtain ⟨F, D, hrun, hF, hD, hexact, hall⟩ := (step_spec wf s op ip).ok s' hok
  have hdD : d ∈ D := by
    rcases hex with h | h
    · exact hexact h d hd
    · exact hall d hd h
  have hcv : clearedVal R z = some (Tag.user, v) := by simp [clearedVal, hv]
  rw [hrun.cleared_some d hdD z hr (fun h => hz (hD z h)) (by simp [hcv]), hcv]

/-- Mutating unrelated names discards nothing: whatever a slot held, it still holds (in the
result and in the receiver). -/
theorem unrelated_keeps {R : RTbl V} (wf : WF R) (s : Dict V) (op : Op V) (ip : Bool) {s' : Dict V}
    (hok : (step R s op ip).res = .ok s') {t : Name} (ht : t ∉ op.names R)
    (hun : ∀ d ∈ op.names R, ¬ Reach R d t) {e : Tag × V} (he : s t = some e) :
    s' t = some e ∧ (step R s op ip).self t = some e := by
  obtain ⟨F, D, hrun, hF, hD, _, _⟩ := (step_spec wf s op ip).ok s' hok
  have h1 : s' t = some e :=
    hrun.keep t (fun h => ht (hD t h)) (fun d hd => hun d (hD d hd)) e he
  refine ⟨h1, ?_⟩
  rcases (step_spec wf s op ip).self with ⟨F', hr', _⟩ | ⟨s'', hs'', hself⟩
  · exact hr'.fills_keep t e he
  · rw [hok] at hs''; cases hs''; rw [hself]; exact h1

/-- A failed mutation discards nothing (and returns no instance). -/
theorem failed_keeps {R : RTbl V} (wf : WF R) (s : Dict V) (op : Op V) (ip : Bool) {err : Err}
    (hfail : (step R s op ip).res = .error err) :
    ∀ t e, s t = some e → (step R s op ip).self t = some e := by
  rcases (step_spec wf s op ip).self with ⟨F', hr', _⟩ | ⟨s'', hs'', _⟩
  · exact hr'.fills_keep
  · rw [hfail] at hs''; cases hs''

/-- A copy-on-write call discards nothing on the receiver either. -/
theorem copy_keeps_receiver {R : RTbl V} (s : Dict V) (op : Op V) (h : op.alwaysInPlace = false) :
    ∀ t e, s t = some e → (step R s op false).self t = some e := by
  obtain ⟨F, hr, _⟩ := step_self_copy (R := R) s op h
  exact hr.fills_keep

/-- In place, the receiver is the result. -/
theorem inplace_is_result {R : RTbl V} (s : Dict V) (op : Op V) {s' : Dict V}
    (h : (step R s op true).res = .ok s') : (step R s op true).self = s' :=
  step_self_inplace s op h

/-! ## Open finding KF-C11-plain-subclass (D12)

`SpecClassMetadata.invalidation_map` is computed once from `metadata.owner.mro()`;
members of undecorated subclasses of the owner are never scanned (`Tbl.code`),
although they are declared dependants of the instance's type (`Tbl.full`). -/

/-- Full statement: the library (`T.code`) keeps instances fresh with respect to every declared
dependant of the instance's type (`T.full`). -/
def FullStatement (V : Type) : Prop :=
  ∀ T : Tbl V, WF T.full → GetterLocal T.full → ∀ g, Lineage T.code g → Fresh T.full g

/-- "Every dependant is defined in a spec class of the MRO": the scan from the metadata owner
sees the same dependants as a scan of the whole MRO. -/
def OwnerCoversDependants (T : Tbl V) : Prop :=
  ∀ k d, d ∈ T.full.invMap k ↔ d ∈ T.code.invMap k

/-- Holds in particular when the instance's class is itself a spec class. -/
theorem owner_covers_of_spec_head (T : Tbl V) (c : ClassDecl V) (cs : List (ClassDecl V))
    (h : T.mro = c :: cs) (hc : c.spec = true) : OwnerCoversDependants T := by
  intro k d
  simp [Tbl.full, Tbl.code, Tbl.resolveWith, ownerMro, h, hc, List.dropWhile]

/-- … and when the undecorated subclasses in front of the owner declare no `invalidated_by`
and do not redeclare a name of the owner's hierarchy. -/
theorem owner_covers_of_silent_plain (T : Tbl V)
    (h : ∀ m ∈ declsOf (T.mro.takeWhile (fun c => !c.spec)),
      m.invBy = [] ∧ lookupMember (declsOf (ownerMro T.mro)) m.name = none) :
    OwnerCoversDependants T := by
  intro k d
  simp only [Tbl.full, Tbl.code, Tbl.resolveWith]
  rw [mem_invMapOf_iff', mem_invMapOf_iff']
  have hsplit : declsOf T.mro = declsOf (T.mro.takeWhile (fun c => !c.spec)) ++ declsOf (ownerMro T.mro) := by
    unfold declsOf ownerMro
    rw [← List.flatMap_append, List.takeWhile_append_dropWhile]
  rw [hsplit]
  unfold lookupMember
  rw [List.find?_append]
  cases hpre : List.find? (fun m => m.name == d) (declsOf (T.mro.takeWhile (fun c => !c.spec))) with
  | none => simp
  | some m =>
    obtain ⟨hmem, hname⟩ := lookupMember_some (ds := declsOf (T.mro.takeWhile (fun c => !c.spec))) hpre
    obtain ⟨hinv, hno⟩ := h m hmem
    rw [hname] at hno
    unfold lookupMember at hno
    simp [hinv, hno]

/-- The property for every table in which the owner's scan covers all declared dependants. -/
theorem fresh_reachable_partial (T : Tbl V) (hcov : OwnerCoversDependants T)
    (wf : WF T.full) (gl : GetterLocal T.full) {g : GInst V} (h : Lineage T.code g) : Fresh T.full g := by
  have hr : ∀ a d, Reach T.full a d ↔ Reach T.code a d := fun a d => reach_congr hcov
  have hdf : ∀ n, dfltOf T.full n = dfltOf T.code n := fun n => rfl
  have wf' : WF T.code :=
    ⟨resolve_closed T _ (ownerMro_sub T.mro),
     fun z hz hrz => wf.acyc z hz ((hr z z).2 hrz),
     resolve_managedComplete T _⟩
  have gl' : GetterLocal T.code := by
    intro p f g' hfg
    exact gl p f g' (fun n hn => hfg n ((hr n p).1 hn))
  have hf := fresh_lineage wf' gl' h
  exact ⟨hf.cache, fun z v hz d hd hlt => hf.attr z v hz d ((hr d z).1 hd) hlt, hf.clock⟩

/-! ### the counter-witness (`witnessT`, `witnessG` and their lemmas are in `Proofs/C11.lean`) -/

/-- The full statement is false of the model — and of the library, which the correspondence check
shows on every run (the witness is replayed as a known finding). -/
theorem full_statement_fails : ¬ FullStatement Int := by
  intro h
  have hf := h witnessT witness_wf witness_getterLocal witnessG witness_lineage
  have := hf.cache 1 1 witness_stale.1
  rw [witness_stale.2] at this
  exact absurd this (by decide)

/-- On the table the property asks for (`Tbl.full`) the same history is fresh: the defect is the
scan, not the invalidation algorithm. -/
theorem witness_full_ok :
    (gnext witnessT.full (gnext witnessT.full ⟨dset Dict.empty 0 (Tag.user, 1), fun _ => 0, 0⟩
      (.read 1) true true) (.setattr 0 5) true true).d 1 = none := by
  decide

/-! ## Non-vacuity: a non-trivial table satisfying every hypothesis -/

/-! `exT` (in `Proofs/C11.lean`): `a: int = 1`; `z: int = Attr(default=7, invalidated_by=['a'])`; cached `p`
(invalidated_by z, returns a + z); cached `w`, `w2` (invalidated_by '*': a dependency cycle without
defaults); `ex_wf : WF exT.code`, `ex_getterLocal : GetterLocal exT.code`. -/

/-- A history on `exT` that fills caches, overrides, mutates in place and on a copy, and fails once. -/
example : ∃ g, Lineage exT.code g ∧ Fresh exT.code g ∧ g.d 2 = some (Tag.cache, 12) ∧ g.d 1 = some (Tag.user, 7) := by
  have h0 : construct exT.code [(1, 9)] = .ok (dset (dset Dict.empty 0 (Tag.user, 1)) 1 (Tag.user, 9)) := rfl
  let g := gnext exT.code (gnext exT.code (gnext exT.code (gnext exT.code
      ⟨dset (dset Dict.empty 0 (Tag.user, 1)) 1 (Tag.user, 9), fun _ => 0, 0⟩
      (.read 2) true true) (.withAttr 0 5) false true) (.setattr 4 3) true true) (.read 2) true true
  have hl : Lineage exT.code g := .step _ _ _ _ (.step _ _ _ _ (.step _ _ _ _ (.step _ _ _ _ (.init _ _ h0))))
  exact ⟨g, hl, fresh_reachable ex_wf ex_getterLocal hl, by decide, by decide⟩

/-- `read_recomputes` is not vacuous: `with_a(5)` after reading `p` (two steps down the chain
a → z → p) empties `p`'s slot; `z` is back at 7. -/
example :
    let s0 : Dict Int := dset (dset (dset Dict.empty 0 (Tag.user, 1)) 1 (Tag.user, 9)) 2 (Tag.cache, 10)
    ∃ s', (step exT.code s0 (.withAttr 0 5) false).res = .ok s' ∧ s' 2 = none ∧ s' 1 = some (Tag.user, 7) ∧
      (step exT.code s0 (.withAttr 0 5) false).self 2 = some (Tag.cache, 10) := by
  intro s0
  refine ⟨_, rfl, ?_, ?_, ?_⟩ <;> decide

/-- `failed_keeps` is not vacuous: overriding the non-overridable `w2` raises and keeps the caches. -/
example :
    let s0 : Dict Int := dset (dset Dict.empty 0 (Tag.user, 1)) 3 (Tag.cache, 0)
    (step exT.code s0 (.setattr 4 3) true).res = .error .attributeError ∧
    (step exT.code s0 (.setattr 4 3) true).self 3 = some (Tag.cache, 0) := by
  intro s0
  exact ⟨rfl, by decide⟩

/-- The hypotheses of `fresh_reachable_partial` hold for a table with a spec subclass. -/
example : OwnerCoversDependants exT := owner_covers_of_spec_head exT _ _ rfl rfl

end SpecVerif.Props.C11
