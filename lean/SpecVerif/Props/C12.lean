import SpecVerif.Proofs.C12
/-!
# C12 — spec_property and classproperty follow the override / cache / getter protocol

Property theorems only (the invariant `Inv`/`CInv` and the helper lemmas are in
`Proofs/C12.lean`). Every theorem is about the executable definitions of
`Model/C12.lean` (`pget`/`pset`/`pdelete`/`assign`/`step`/`run`, and
`cget`/`cset`/`cdelete`/`cstep`/`crun`), which the correspondence check runs
against `spec_classes.types.spec_property` on every invocation.

Quantification: any value type (decidable equality), any `World` (getter,
preparer, type predicate, constructor, sentinels), ANY configuration `c : Cfg`
(all combinations of overridable / cache / custom setter / custom deleter /
spec-class host / managed annotation / preparer / getter present /
allow_attribute_error at once — nothing is enumerated), any operation
sequence of any length. For `classproperty`: any type of classes (so any
class tree), any `CCfg`.

`Spec.step`/`Spec.run` (in `Model/C12.lean`) is the protocol of the property
text as a state machine over the ghost state (`override`, `cached`).
-/
set_option linter.unusedSectionVars false
set_option linter.unusedVariables false
set_option linter.unusedSimpArgs false
namespace SpecVerif.Props.C12
open SpecVerif.Py SpecVerif.C12

variable {Val : Type} [DecidableEq Val]

/-! ## spec_property -/

/-- **Protocol (refinement).** From related states (in particular from the
initial ones) every operation sequence produces, step for step, the outputs
the specification machine produces, and the slot stays related to the ghost
override/cache by `Inv` (slot = override, else cache; an override exists only
if overridable and no custom setter; a cached value only if caching is on;
never both; sentinels are never cached). -/
theorem protocol_from (w : World Val) (c : Cfg) (ops : List (Op Val)) {s : St Val} {g : Ghost Val}
    (h : Inv w c s g) :
    (run w c s ops).2 = (Spec.run w c g ops).2 ∧
      Inv w c (run w c s ops).1 (Spec.run w c g ops).1 :=
  run_refines ops h

theorem protocol (w : World Val) (c : Cfg) (ops : List (Op Val)) :
    (run w c St.init ops).2 = (Spec.run w c Ghost.init ops).2 ∧
      Inv w c (run w c St.init ops).1 (Spec.run w c Ghost.init ops).1 :=
  run_refines ops (inv_init w c)

/-- **Read rule.** After ANY operation sequence, a read returns the user
override if one is set, otherwise the value cached since the last deletion,
otherwise the (prepared, checked) getter result on the current underlying
state — where override/cached are the ghost values the specification machine
reached on the same sequence. -/
theorem read_protocol (w : World Val) (c : Cfg) (ops : List (Op Val)) :
    (pget w c (run w c St.init ops).1).2 =
      match (Spec.run w c Ghost.init ops).1.override, (Spec.run w c Ghost.init ops).1.cached with
      | some v, _ => .val v
      | none, some v => .val v
      | none, none => getterChecked w c (run w c St.init ops).1.under := by
  have h := (protocol w c ops).2
  have hs := (step_refines h .read).1
  simp only [step, Spec.step] at hs
  rw [hs]
  unfold Spec.read
  cases (Spec.run w c Ghost.init ops).1.override with
  | some v => rfl
  | none =>
    cases (Spec.run w c Ghost.init ops).1.cached with
    | some v => rfl
    | none =>
      simp only [h.under]
      cases getterChecked w c (Spec.run w c Ghost.init ops).1.under <;> rfl

/-- What the ghost state means, part 1: a cached value exists only while
caching is on, is never a sentinel, and an override exists only for an
overridable property without custom setter — after any sequence. -/
theorem ghost_meaning (w : World Val) (c : Cfg) (ops : List (Op Val)) :
    let g := (Spec.run w c Ghost.init ops).1
    (g.cached.isSome → c.cache = true) ∧
    (∀ v, g.cached = some v → isSentinel w v = false) ∧
    (g.override.isSome → c.overridable = true ∧ c.hasSetter = false) ∧
    (g.override.isSome → g.cached = none) := by
  have h := (protocol w c ops).2
  exact ⟨h.cch, h.nosent, h.ovr, h.excl⟩

/-- With caching off and no override possible, every read is the getter
result on current state (corollary of `read_protocol`, any sequence). -/
theorem uncached_reads_getter (w : World Val) (c : Cfg) (ops : List (Op Val))
    (hc : c.cache = false) (ho : c.overridable = false) :
    (pget w c (run w c St.init ops).1).2 = getterChecked w c (run w c St.init ops).1.under := by
  rw [read_protocol]
  have h := ghost_meaning w c ops
  simp only at h
  cases hov : (Spec.run w c Ghost.init ops).1.override with
  | some v => have := (h.2.2.1 (by simp [hov])).1; simp [ho] at this
  | none =>
    cases hca : (Spec.run w c Ghost.init ops).1.cached with
    | some v => have := h.1 (by simp [hca]); simp [hc] at this
    | none => rfl

/-- **Cache hit.** With caching on, once a read has produced a (non-sentinel)
value, every later read returns that same value however the underlying state
is bumped in between — until an assignment or deletion. -/
theorem cache_hit_stable (w : World Val) (c : Cfg) (hc : c.cache = true) (ops : List (Op Val))
    (v : Val) (hv : (pget w c (run w c St.init ops).1).2 = .val v) (hns : isSentinel w v = false)
    (more : List (Op Val)) (hm : ∀ op ∈ more, op = .read ∨ op = .bump) :
    (pget w c (run w c (pget w c (run w c St.init ops).1).1 more).1).2 = .val v := by
  have hg : (c.overridable || c.cache) = true := by simp [hc]
  have hslot : (pget w c (run w c St.init ops).1).1.slot = some v := by
    generalize (run w c St.init ops).1 = s at hv ⊢
    unfold pget at hv ⊢
    simp only [hg, if_true] at hv ⊢
    cases hs : s.slot with
    | some v0 => simp only [hs] at hv ⊢; cases hv; rfl
    | none =>
      simp only [hs] at hv ⊢
      cases hgc : getterChecked w c s.under with
      | val v1 =>
        simp only [hgc] at hv ⊢
        cases hv
        simp [hc, hns]
      | done => simp [hgc] at hv
      | err e => simp [hgc] at hv
      | nested => simp [hgc] at hv
  exact pget_of_slot hg (slot_stable w c v hg more hm _ hslot).1

/-- **Override.** After a successful assignment on an overridable property
without custom setter, every later read returns the delivered value however
the underlying state changes — until the next assignment or deletion. -/
theorem override_stable (w : World Val) (c : Cfg) (ho : c.overridable = true) (hs : c.hasSetter = false)
    (s : St Val) (v v' : Val) (hd : delivered w c v = .deliver v')
    (more : List (Op Val)) (hm : ∀ op ∈ more, op = .read ∨ op = .bump) :
    (assign w c s v).2 = .done ∧
    (pget w c (run w c (assign w c s v).1 more).1).2 = .val v' := by
  have hg : (c.overridable || c.cache) = true := by simp [ho]
  have ha : assign w c s v = ({ s with slot := some v' }, .done) := by
    rw [assign_eq_delivered, hd]; simp [pset, ho, hs]
  refine ⟨by rw [ha], ?_⟩
  exact pget_of_slot hg (slot_stable w c v' hg more hm (assign w c s v).1 (by rw [ha])).1

/-- **Assignment rejected.** Neither overridable nor a setter: the descriptor's
`__set__` raises AttributeError and nothing changes; through `obj.x = v` the
state never changes either, the result is AttributeError on a plain class and
whenever the host delivers the value at all. -/
theorem set_rejected (w : World Val) (c : Cfg) (s : St Val) (v : Val)
    (ho : c.overridable = false) (hs : c.hasSetter = false) :
    pset c s v = (s, .err .attributeError) ∧
    (assign w c s v).1 = s ∧
    (c.onSpecClass = false → assign w c s v = (s, .err .attributeError)) ∧
    (∀ v', delivered w c v = .deliver v' → assign w c s v = (s, .err .attributeError)) := by
  have hp : ∀ x, pset c s x = (s, .err .attributeError) := by intro x; simp [pset, ho, hs]
  refine ⟨hp v, ?_, ?_, ?_⟩
  · rw [assign_eq_delivered]; cases delivered w c v <;> simp [hp]
  · intro hh; simp [assign, hh, hp]
  · intro v' hd; rw [assign_eq_delivered, hd]; exact hp v'

/-- …and over whole sequences: the protocol state (slot, log) of such a
property is never changed by an assignment, whatever happened before. -/
theorem set_rejected_run (w : World Val) (c : Cfg) (ops : List (Op Val)) (v : Val)
    (ho : c.overridable = false) (hs : c.hasSetter = false) :
    (step w c (run w c St.init ops).1 (.assign v)).1 = (run w c St.init ops).1 :=
  (set_rejected w c _ v ho hs).2.1

/-- **Deletion.** Without a custom deleter, in any reachable state: if an
override or a cached value exists the deletion succeeds, empties the slot and
the next read is the getter result on current state; otherwise it raises
AttributeError and nothing changes. -/
theorem delete_semantics (w : World Val) (c : Cfg) {s : St Val} {g : Ghost Val} (h : Inv w c s g)
    (hd : c.hasDeleter = false) :
    ((g.override.isSome ∨ g.cached.isSome) →
        pdelete c s = ({ s with slot := none }, .done) ∧
        (pget w c (pdelete c s).1).2 = getterChecked w c s.under) ∧
    (g.override = none → g.cached = none → pdelete c s = (s, .err .attributeError)) := by
  have hvis : s.slot.isSome = (g.override.isSome || g.cached.isSome) := by
    rw [h.slot]; unfold Ghost.visible; cases g.override <;> simp
  have hguard := guard_slot h
  constructor
  · intro hsome
    have hs : s.slot.isSome = true := by
      rw [hvis]; rcases hsome with h1 | h1 <;> simp [h1]
    have hoc : (c.overridable || c.cache) = true := by
      by_cases hg : (c.overridable || c.cache) = true
      · exact hg
      · simp only [hg] at hguard
        rw [← hguard] at hs; simp at hs
    have hdel : pdelete c s = ({ s with slot := none }, .done) := by
      simp [pdelete, hd, hoc, hs]
    refine ⟨hdel, ?_⟩
    rw [hdel]
    simp only [pget]
    have : (if (c.overridable || c.cache) = true then (none : Option Val) else none) = none := by simp
    simp only [this]
    cases getterChecked w c s.under <;> rfl
  · intro h1 h2
    have hs : s.slot.isSome = false := by rw [hvis]; simp [h1, h2]
    simp [pdelete, hd, hs]

/-- Deletion over whole sequences: after any history, deleting twice in a row
without a custom deleter always raises the second time. -/
theorem delete_twice_raises (w : World Val) (c : Cfg) (ops : List (Op Val))
    (hd : c.hasDeleter = false) :
    (step w c (step w c (run w c St.init ops).1 .delete).1 .delete).2 = .err .attributeError := by
  have h := (protocol w c ops).2
  have h1 := (step_refines h .delete).2
  have hstep := (step_refines h1 .delete).1
  rw [hstep]
  simp only [Spec.step, Spec.delete, hd, Bool.false_eq_true, if_false]
  by_cases hany : ((Spec.run w c Ghost.init ops).1.override.isSome ||
      (Spec.run w c Ghost.init ops).1.cached.isSome) = true
  · simp [hany]
  · simp only [hany, if_false]
    simp only [Bool.not_eq_true] at hany
    simp [hany]

/-- **Custom accessors.** A custom setter is called exactly once with the
delivered value and nothing else changes (the slot in particular); the same
for a custom deleter. -/
theorem custom_accessors (w : World Val) (c : Cfg) (s : St Val) :
    (c.hasSetter = true → ∀ v v', delivered w c v = .deliver v' →
        assign w c s v = ({ s with log := s.log ++ [.fset v'] }, .done)) ∧
    (c.hasSetter = true → ∀ v, pset c s v = ({ s with log := s.log ++ [.fset v] }, .done)) ∧
    (c.hasDeleter = true → pdelete c s = ({ s with log := s.log ++ [.fdel] }, .done)) := by
  refine ⟨?_, ?_, ?_⟩
  · intro hs v v' hd
    rw [assign_eq_delivered, hd]; simp [pset, hs]
  · intro hs v; simp [pset, hs]
  · intro hd; simp [pdelete, hd]

/-- Without custom accessors the log stays empty over any sequence (they are
never invented), and with them the slot is only ever filled by the cache. -/
theorem no_accessor_no_log (w : World Val) (c : Cfg) (ops : List (Op Val))
    (hs : c.hasSetter = false) (hd : c.hasDeleter = false) :
    (run w c St.init ops).1.log = [] := by
  suffices H : ∀ (s : St Val), s.log = [] → (run w c s ops).1.log = [] from H _ rfl
  induction ops with
  | nil => intro s h; exact h
  | cons op ops ih =>
    intro s h
    simp only [run]
    apply ih
    cases op with
    | bump => exact h
    | read =>
      simp only [step, pget]
      split
      · exact h
      · split
        · split <;> exact h
        · exact h
    | delete =>
      simp only [step, pdelete, hd, if_true]
      split <;> exact h
    | assign v =>
      simp only [step, assign_eq_delivered]
      split
      · exact h
      · exact h
      · simp only [pset, hs, if_true]
        split <;> exact h

/-- **Getter result checked.** On a spec class with the attribute managed, a
getter result is returned only after `prepare_attr_value` and only if it
conforms to the annotation; a non-conforming one raises ValueError; an
exception raised while preparing (the attribute's preparer) is what the read raises. -/
theorem getter_result_checked (w : World Val) (c : Cfg) (n : Nat)
    (hs : c.onSpecClass = true) (hm : c.managed = true) (hg : c.hasGetter = true) :
    (∀ v, getterChecked w c n = .val v →
        w.conforms v = true ∧ ∃ raw, w.getter n = .ok raw ∧ prepareAttrValue w c raw = .ok v) ∧
    (∀ raw v, w.getter n = .ok raw → prepareAttrValue w c raw = .ok v → w.conforms v = false →
        getterChecked w c n = .err .valueError) ∧
    (∀ raw v, w.getter n = .ok raw → prepareAttrValue w c raw = .ok v → w.conforms v = true →
        getterChecked w c n = .val v) ∧
    (∀ raw e, w.getter n = .ok raw → prepareAttrValue w c raw = .error e →
        getterChecked w c n = .err e) := by
  refine ⟨?_, ?_, ?_, ?_⟩
  · intro v hv
    refine ⟨getterChecked_conforms hs hm hv, ?_⟩
    unfold getterChecked at hv
    simp only [hg, Bool.true_eq_false, if_false] at hv
    cases hget : w.getter n with
    | error e => simp only [hget] at hv; split at hv <;> cases hv
    | ok raw =>
      simp only [hget, hs, hm, Bool.and_self, if_true] at hv
      cases hp : prepareAttrValue w c raw with
      | error e => simp only [hp] at hv; cases hv
      | ok v' =>
        simp only [hp] at hv
        split at hv
        · cases hv; exact ⟨raw, rfl, hp⟩
        · cases hv
  · intro raw v hget hp hc
    simp [getterChecked, hg, hget, hs, hm, hp, hc]
  · intro raw v hget hp hc
    simp [getterChecked, hg, hget, hs, hm, hp, hc]
  · intro raw e hget hp
    simp [getterChecked, hg, hget, hs, hm, hp]

/-- The preparer is applied exactly when the attribute has one (and the value
is a real value, not a sentinel); what it raises is raised. -/
theorem prepare_uses_preparer (w : World Val) (c : Cfg) (v : Val)
    (h1 : v ≠ w.unchanged) (h2 : v ≠ w.missing) (h3 : v ≠ w.empty) :
    (c.hasPreparer = true → ∀ v', w.preparer v = .ok v' → v' ≠ w.missing →
        prepareAttrValue w c v = .ok v') ∧
    (c.hasPreparer = true → ∀ e, w.preparer v = .error e → prepareAttrValue w c v = .error e) ∧
    (c.hasPreparer = false → prepareAttrValue w c v = .ok v) := by
  refine ⟨?_, ?_, ?_⟩
  · intro hp v' hv' hne; simp [prepareAttrValue, h1, h2, h3, hp, hv', hne]
  · intro hp e he; simp [prepareAttrValue, h1, h2, h3, hp, he]
  · intro hp; simp [prepareAttrValue, h1, h2, h3, hp]

/-- **A failing operation changes nothing.** Whatever raises — the getter, the
attribute's preparer, the type check of the getter result, the spec-class
assignment layer (preparer / type check of the assigned value), `__set__` on a
property that is neither overridable nor has a setter, `__delete__` with nothing
stored — the slot, the underlying state and the accessor log are exactly what
they were. For ANY state. In particular a failed read never leaves a value in
the cache slot. -/
theorem failed_op_changes_nothing (w : World Val) (c : Cfg) (s : St Val) (op : Op Val) :
    ((∃ e, (step w c s op).2 = .err e) ∨ (step w c s op).2 = .nested) → (step w c s op).1 = s := by
  intro h
  apply step_failed_unchanged
  · intro v hv; rcases h with ⟨e, he⟩ | he <;> rw [hv] at he <;> cases he
  · intro hd; rcases h with ⟨e, he⟩ | he <;> rw [hd] at he <;> cases he

/-- …so after a failed read the next read starts from scratch: with the
underlying state repaired (any number of `bump`s) it is again a function of the
ghost override/cache and the getter on current state, and what was computed by
the failed attempt is nowhere. Stated over whole histories. -/
theorem failed_read_leaves_no_trace (w : World Val) (c : Cfg) (ops : List (Op Val)) (e : Err)
    (h : (pget w c (run w c St.init ops).1).2 = .err e) :
    (pget w c (run w c St.init ops).1).1 = (run w c St.init ops).1 ∧
    (Spec.read w c (Spec.run w c Ghost.init ops).1).1 = (Spec.run w c Ghost.init ops).1 := by
  have hinv := (protocol w c ops).2
  have hs := step_refines hinv .read
  constructor
  · exact failed_op_changes_nothing w c _ .read (Or.inl ⟨e, h⟩)
  · have ho : (Spec.read w c (Spec.run w c Ghost.init ops).1).2 = .err e := by
      have := hs.1; simp only [step, Spec.step] at this; rw [← this]; exact h
    generalize (Spec.run w c Ghost.init ops).1 = g at ho ⊢
    unfold Spec.read at ho ⊢
    cases hov : g.override with
    | some v => rfl
    | none =>
      cases hca : g.cached with
      | some v => rfl
      | none =>
        simp only [hov, hca] at ho ⊢
        cases hg : getterChecked w c g.under with
        | val v => simp [hg] at ho
        | done => rfl
        | err e' => rfl
        | nested => rfl

/-- A preparer that raises while an assignment is being delivered on a managed
attribute: the assignment raises that exception and nothing changes. -/
theorem assign_preparer_error (w : World Val) (c : Cfg) (s : St Val) (v : Val) (e : Err)
    (hs : c.onSpecClass = true) (hm : c.managed = true)
    (hp : prepareAttrValue w c v = .error e) :
    assign w c s v = (s, .err e) := by
  simp [assign, hs, hm, hp]

/-- **Every value read conforms** on a managed spec-class attribute — override,
cached or fresh — over any operation sequence. -/
theorem reads_conform (w : World Val) (c : Cfg) (ops : List (Op Val))
    (hs : c.onSpecClass = true) (hm : c.managed = true) :
    ∀ v, Out.val v ∈ (run w c St.init ops).2 → w.conforms v = true :=
  run_vals_conform hs hm ops (inv_init w c)

/-! ## The instance as a whole: copies, copies of copies, helpers of other attributes

`Obj` / `OOp` / `ostep` / `orun` (in `Model/C12.lean`): the property operations interleaved with `copy.deepcopy`,
the copy-on-write helpers of ANOTHER attribute (`with_y`, `update_y`, `reset_y`, `obj.y = v`) and the copy-on-write
forms of assignment and deletion of the property itself (`with_x`, `reset_x`). `project` says what each of them is in
terms of the protocol (`none`: nothing). -/

/-- **A copy carries every entry of the instance dict** — the property's slot (override or cached value), the
state the getter reads, the accessor log, the other attribute. -/
theorem deepcopy_keeps_everything (o : Obj Val) : deepcopyObj o = o := deepcopyObj_eq o

/-- `obj.with_x(v)` / `obj.reset_x()` are `obj.x = v` / `del obj.x` performed on a copy: same resulting protocol
state, same result (value delivered through the preparer and type check, AttributeError when neither overridable nor a
setter, AttributeError when there is nothing to delete), the other attribute untouched. -/
theorem cow_forms (w : World Val) (c : Cfg) (o : Obj Val) (v : Val)
    (hs : c.onSpecClass = true) (hm : c.managed = true) :
    ((withSelf w c o v).1.st = (assign w c o.st v).1 ∧ (withSelf w c o v).2.1 = (assign w c o.st v).2 ∧
      (withSelf w c o v).1.other = o.other) ∧
    ((resetSelf c o).1.st = (pdelete c o.st).1 ∧ (resetSelf c o).2.1 = (pdelete c o.st).2 ∧
      (resetSelf c o).1.other = o.other) :=
  ⟨withSelf_eq_assign w c o v hs hm, resetSelf_eq_delete c o⟩

/-- **Histories with copies.** Whatever mixture of protocol operations, deep copies, helpers of the other attribute
and copy-on-write assignments / deletions an instance (an n-th generation copy) has been through: its protocol
state is the one the projected protocol operations alone produce on one instance, and the protocol operations gave,
output for output, what they give there. -/
theorem instance_history_projects (w : World Val) (c : Cfg) (y : Other Val) (ops : List (OOp Val)) :
    (orun w c y (Obj.init c y) ops).1.st = (run w c St.init (ops.filterMap (project c))).1 ∧
    propOuts c ops (orun w c y (Obj.init c y) ops).2 = (run w c St.init (ops.filterMap (project c))).2 :=
  orun_project w c y ops (Obj.init c y)

/-- **Read rule on any generation of copy.** After any such history a read returns the user override if one is set,
otherwise the value cached since the last deletion, otherwise the (prepared, checked) getter result on current state —
override / cached being what the specification machine reached on the projected history: copies and operations on
other attributes are neither deletions nor assignments. -/
theorem copies_follow_protocol (w : World Val) (c : Cfg) (y : Other Val) (ops : List (OOp Val)) :
    (pget w c (orun w c y (Obj.init c y) ops).1.st).2 =
      match (Spec.run w c Ghost.init (ops.filterMap (project c))).1.override,
            (Spec.run w c Ghost.init (ops.filterMap (project c))).1.cached with
      | some v, _ => .val v
      | none, some v => .val v
      | none, none => getterChecked w c (orun w c y (Obj.init c y) ops).1.st.under := by
  rw [(instance_history_projects w c y ops).1]
  exact read_protocol w c (ops.filterMap (project c))

/-- Operations that are nothing to the protocol can be erased from (or inserted into) any history. -/
theorem other_attribute_ops_invisible (w : World Val) (c : Cfg) (y : Other Val) (o : Obj Val)
    (ops : List (OOp Val)) :
    (orun w c y o ops).1.st = (orun w c y o (ops.filter fun op => (project c op).isSome)).1.st := by
  have hfm : ∀ l : List (OOp Val),
      (l.filter fun op => (project c op).isSome).filterMap (project c) = l.filterMap (project c) := by
    intro l
    induction l with
    | nil => rfl
    | cons a l ih =>
      cases ha : project c a with
      | none => simp [List.filter_cons, List.filterMap_cons, ha, ih]
      | some p => simp [List.filter_cons, List.filterMap_cons, ha, ih]
  rw [(orun_project w c y ops o).1, (orun_project w c y _ o).1, hfm]

/-- **An override survives copies of copies.** After a successful assignment — in place (`obj.x = v`) or in
copy-on-write form (`obj.with_x(v)`) — on an overridable property without custom setter, every later read returns the
delivered value: on the instance, on a copy, on a copy of a copy made by a helper for another attribute, whatever the
underlying state does — until the next assignment or deletion of the property. -/
theorem override_survives_copies (w : World Val) (c : Cfg) (y : Other Val)
    (ho : c.overridable = true) (hs : c.hasSetter = false) (o : Obj Val) (first : OOp Val) (v v' : Val)
    (hfirst : project c first = some (.assign v)) (hd : delivered w c v = .deliver v')
    (more : List (OOp Val))
    (hm : ∀ op ∈ more, project c op = none ∨ op = .prop .read ∨ op = .prop .bump) :
    (ostep w c y o first).2.1 = .done ∧
    (pget w c (orun w c y (ostep w c y o first).1 more).1.st).2 = .val v' := by
  have hstep := ostep_project w c y o first
  simp only [hfirst] at hstep
  have hmore : ∀ p ∈ more.filterMap (project c), p = Op.read ∨ p = Op.bump := by
    intro p hp
    obtain ⟨a, ha, hpa⟩ := List.mem_filterMap.mp hp
    rcases hm a ha with h | h | h
    · rw [h] at hpa; cases hpa
    · subst h; cases hpa; exact Or.inl rfl
    · subst h; cases hpa; exact Or.inr rfl
  have hov := override_stable w c ho hs o.st v v' hd (more.filterMap (project c)) hmore
  refine ⟨by rw [hstep.2 _ rfl]; exact hov.1, ?_⟩
  rw [(orun_project w c y more _).1, hstep.1]
  exact hov.2

/-- **A cached value survives copies of copies.** With caching on, once a read (on any generation of copy) has
produced a non-sentinel value, every later read — on that instance or on any copy made afterwards, by `deepcopy` or by
a helper of another attribute — returns that value however the underlying state is bumped, until an assignment or
deletion of the property. -/
theorem cache_survives_copies (w : World Val) (c : Cfg) (y : Other Val) (hc : c.cache = true)
    (ops : List (OOp Val)) (v : Val)
    (hv : (ostep w c y (orun w c y (Obj.init c y) ops).1 (.prop .read)).2.1 = .val v)
    (hns : isSentinel w v = false) (more : List (OOp Val))
    (hm : ∀ op ∈ more, project c op = none ∨ op = .prop .read ∨ op = .prop .bump) :
    (pget w c (orun w c y (ostep w c y (orun w c y (Obj.init c y) ops).1 (.prop .read)).1 more).1.st).2 =
      .val v := by
  have hmore : ∀ p ∈ more.filterMap (project c), p = Op.read ∨ p = Op.bump := by
    intro p hp
    obtain ⟨a, ha, hpa⟩ := List.mem_filterMap.mp hp
    rcases hm a ha with h | h | h
    · rw [h] at hpa; cases hpa
    · subst h; cases hpa; exact Or.inl rfl
    · subst h; cases hpa; exact Or.inr rfl
  have h0 := (instance_history_projects w c y ops).1
  rw [(orun_project w c y more _).1]
  simp only [ostep, step] at hv ⊢
  rw [h0] at hv ⊢
  exact cache_hit_stable w c hc (ops.filterMap (project c)) v hv hns _ hmore

/-- **A helper that raises changes nothing**: no new instance is returned and the current one (slot, underlying state,
accessor log, other attribute) is exactly what it was — `with_x` on a property that is neither overridable nor has a
setter, `reset_x` with nothing stored, an ill-typed value, a raising preparer, a helper that does not exist. -/
theorem failed_helper_changes_nothing (w : World Val) (c : Cfg) (y : Other Val) (o : Obj Val) (op : OOp Val) :
    ((∃ e, (ostep w c y o op).2.1 = .err e) ∨ (ostep w c y o op).2.1 = .nested) →
      (ostep w c y o op).1 = o ∧ (ostep w c y o op).2.2 = false := by
  intro h
  apply ostep_failed_unchanged
  · intro v hv; rcases h with ⟨e, he⟩ | he <;> rw [hv] at he <;> cases he
  · intro hd; rcases h with ⟨e, he⟩ | he <;> rw [hd] at he <;> cases he

/-! ## Where the property is declared (inheritance × property-backed attributes) -/

/-- **Managed means: some spec class of the chain annotates it.** Which class of
the inheritance chain of `type(instance)` declares the descriptor (a plain mixin
above, an un-annotating spec parent, the managing class itself, a subclass
below) plays no role. -/
theorem resolve_managed_iff (l : List ClassDesc) :
    (resolve l).managed = l.any (fun k => k.spec && k.annotates) := by
  simp [resolve, resolveFrom_managed, Resolved.none]

/-- The instance is a spec-class instance iff some class of the chain is decorated. -/
theorem resolve_onSpec_iff (l : List ClassDesc) :
    (resolve l).onSpecClass = l.any (fun k => k.spec) := by
  simp [resolve, resolveFrom_onSpec, Resolved.none]

/-- Moving the declaration(s) of the descriptor around in the chain changes
neither whether the instance is a spec-class instance nor whether the attribute
is managed. -/
theorem resolve_declares_irrelevant (l : List ClassDesc) (f : ClassDesc → Bool) :
    (resolve (l.map fun k => { k with declares := f k })).managed = (resolve l).managed ∧
    (resolve (l.map fun k => { k with declares := f k })).onSpecClass = (resolve l).onSpecClass := by
  simp [resolve_managed_iff, resolve_onSpec_iff, List.any_map, Function.comp_def]

/-- A preparer is in effect only on a managed attribute and only if some class
of the chain defines `_prepare_x`; when `type(instance)` itself is a spec class
annotating the attribute, it is in effect iff any class of the chain defines one. -/
theorem resolve_preparer (l : List ClassDesc) :
    ((resolve l).hasPreparer = true → (resolve l).managed = true ∧ l.any (fun k => k.prep) = true) ∧
    (∀ k, k.spec = true → k.annotates = true →
        (resolve (l ++ [k])).hasPreparer = (l ++ [k]).any (fun k => k.prep)) := by
  constructor
  · intro h
    have := resolveFrom_hasPreparer l (Resolved.none, false) (by simp [Resolved.none]) h
    refine ⟨this.2, ?_⟩
    have h2 := this.1
    rw [resolveFrom_prepVisible] at h2
    simpa using h2
  · intro k hs ha
    simp only [resolve, resolveFrom_append]
    have hpv := resolveFrom_prepVisible l (Resolved.none, false)
    simp only [resolveFrom, List.foldl_cons, List.foldl_nil, resolveStep, hs, ha, Bool.true_or, if_true]
    simp only [resolveFrom] at hpv
    rw [hpv]
    simp [List.any_append]

/-- **Inherited properties are checked.** Whatever the options and wherever in
the chain the descriptor is declared: if some spec class of the chain of
`type(instance)` annotates the attribute, every value read over any operation
sequence conforms to the annotation, and a returned getter result is the
prepared one. -/
theorem inherited_reads_conform (w : World Val) (o : Opts) (l : List ClassDesc)
    (h : l.any (fun k => k.spec && k.annotates) = true) (ops : List (Op Val)) :
    ∀ v, Out.val v ∈ (run w (layoutCfg o l) St.init ops).2 → w.conforms v = true := by
  have hm : (layoutCfg o l).managed = true := by simp [layoutCfg, cfgOf, resolve_managed_iff, h]
  have hs : (layoutCfg o l).onSpecClass = true := by
    simp only [layoutCfg, cfgOf, resolve_onSpec_iff]
    simp only [List.any_eq_true, Bool.and_eq_true] at h ⊢
    obtain ⟨k, hk, hk1, _⟩ := h
    exact ⟨k, hk, hk1⟩
  exact reads_conform w _ ops hs hm

theorem inherited_getter_result_checked (w : World Val) (o : Opts) (l : List ClassDesc) (n : Nat)
    (h : l.any (fun k => k.spec && k.annotates) = true) (hg : o.hasGetter = true) :
    (∀ v, getterChecked w (layoutCfg o l) n = .val v →
        w.conforms v = true ∧
          ∃ raw, w.getter n = .ok raw ∧ prepareAttrValue w (layoutCfg o l) raw = .ok v) := by
  have hm : (layoutCfg o l).managed = true := by simp [layoutCfg, cfgOf, resolve_managed_iff, h]
  have hs : (layoutCfg o l).onSpecClass = true := by
    simp only [layoutCfg, cfgOf, resolve_onSpec_iff]
    simp only [List.any_eq_true, Bool.and_eq_true] at h ⊢
    obtain ⟨k, hk, hk1, _⟩ := h
    exact ⟨k, hk, hk1⟩
  exact (getter_result_checked w _ n hs hm (by simpa [layoutCfg, cfgOf] using hg)).1

/-- Multiple inheritance degenerates correctly: with no right-hand base the
join class is an ordinary link of the chain. -/
theorem resolveMI_nil_right (L : List ClassDesc) (leaf : ClassDesc) (tail : List ClassDesc) :
    resolveMI L [] leaf tail = resolve (L ++ leaf :: tail) := by
  have hwf := resolveFrom_wf L _ walkWF_init
  simp only [resolveMI, resolve, resolveFrom_append]
  have : resolveFrom (Resolved.none, false) ([] : List ClassDesc) = (Resolved.none, false) := rfl
  rw [this, joinBases_none _ _ hwf]
  rfl

/-- **Mixins.** When the class joining two base chains is a spec class, the
attribute is managed on the instances of it (and of everything below) iff some
spec class anywhere in the hierarchy annotates it — in the left chain, in the
right chain, the join class or below — again wherever the descriptor is declared. -/
theorem resolveMI_managed_iff (L R : List ClassDesc) (leaf : ClassDesc) (tail : List ClassDesc)
    (hl : leaf.spec = true) :
    (resolveMI L R leaf tail).managed = (L ++ R ++ leaf :: tail).any (fun k => k.spec && k.annotates) := by
  simp only [resolveMI, resolveFrom_managed, joinBases, hl, if_true, resolveStep_managed,
    List.any_append, List.any_cons, Resolved.none, Bool.false_or, Bool.true_and, Bool.or_assoc]

theorem mi_inherited_reads_conform (w : World Val) (o : Opts) (L R : List ClassDesc) (leaf : ClassDesc)
    (tail : List ClassDesc) (hl : leaf.spec = true)
    (h : (L ++ R ++ leaf :: tail).any (fun k => k.spec && k.annotates) = true) (ops : List (Op Val)) :
    ∀ v, Out.val v ∈ (run w (cfgOf o (resolveMI L R leaf tail)) St.init ops).2 → w.conforms v = true := by
  have hm : (cfgOf o (resolveMI L R leaf tail)).managed = true := by
    simp only [cfgOf, resolveMI_managed_iff L R leaf tail hl]; exact h
  have hs : (cfgOf o (resolveMI L R leaf tail)).onSpecClass = true := by
    have hwf := resolveFrom_wf tail _ (by
      show WalkWF (joinBases (resolveFrom (Resolved.none, false) L) (resolveFrom (Resolved.none, false) R) leaf)
      unfold joinBases
      apply resolveStep_wf
      have ha := resolveFrom_wf L _ walkWF_init
      have hb := resolveFrom_wf R _ walkWF_init
      simp only [hl, if_true]
      revert ha hb
      generalize resolveFrom (Resolved.none, false) L = a
      generalize resolveFrom (Resolved.none, false) R = b
      obtain ⟨⟨os, m, hp⟩, pv⟩ := a
      obtain ⟨⟨os', m', hp'⟩, pv'⟩ := b
      cases os <;> cases m <;> cases hp <;> cases pv <;> cases os' <;> cases m' <;> cases hp' <;> cases pv' <;>
        simp [WalkWF])
    exact hwf.1 hm
  exact reads_conform w _ ops hs hm

/-! ## classproperty -/

variable {Cls : Type} [DecidableEq Cls]

/-- **Same protocol per key** (refinement of the per-key specification machine
`CSpec`, any class type, any configuration, any sequence). -/
theorem cp_protocol (w : CWorld Cls Val) (c : CCfg) (ops : List (COp Cls Val)) :
    (crun w c CSt.init ops).2 = (CSpec.run w c CGhost.init ops).2 ∧
      CInv c (crun w c CSt.init ops).1 (CSpec.run w c CGhost.init ops).1 :=
  crun_refines ops (cinv_init c)

/-- Read rule for the key of the class the access resolves to. -/
theorem cp_read_protocol (w : CWorld Cls Val) (c : CCfg) (ops : List (COp Cls Val))
    (t : Target Cls) :
    (cget w c (crun w c CSt.init ops).1 t).2 =
      match (CSpec.run w c CGhost.init ops).1.override (cacheKey c t.type),
            (CSpec.run w c CGhost.init ops).1.cached (cacheKey c t.type) with
      | some v, _ => .val v
      | none, some v => .val v
      | none, none => cgetter w c t.type (crun w c CSt.init ops).1.under := by
  have h := (cp_protocol w c ops).2
  have hs := (cstep_refines (w := w) h (.read t)).1
  simp only [cstep, CSpec.step] at hs
  rw [hs]
  unfold CSpec.read
  simp only
  cases (CSpec.run w c CGhost.init ops).1.override (cacheKey c t.type) with
  | some v => rfl
  | none =>
    cases (CSpec.run w c CGhost.init ops).1.cached (cacheKey c t.type) with
    | some v => rfl
    | none =>
      simp only [h.under]
      cases cgetter w c t.type (CSpec.run w c CGhost.init ops).1.under <;> rfl

theorem cp_set_rejected (c : CCfg) (s : CSt Cls Val) (t : Target Cls) (v : Val)
    (ho : c.overridable = false) (hs : c.hasSetter = false) :
    cset c s t v = (s, .err .attributeError) := by
  simp [cset, ho, hs]

theorem cp_delete_semantics (w : CWorld Cls Val) (c : CCfg) (s : CSt Cls Val) (t : Target Cls)
    (hd : c.hasDeleter = false) :
    ((s.cache (cacheKey c t.type)).isSome →
        cdelete c s t = ({ s with cache := upd s.cache (cacheKey c t.type) none }, .done) ∧
        (cget w c (cdelete c s t).1 t).2 = cgetter w c t.type s.under) ∧
    (s.cache (cacheKey c t.type) = none → cdelete c s t = (s, .err .attributeError)) := by
  constructor
  · intro hsome
    have hdel : cdelete c s t = ({ s with cache := upd s.cache (cacheKey c t.type) none }, .done) := by
      simp [cdelete, hd, hsome]
    refine ⟨hdel, ?_⟩
    rw [hdel]
    simp only [cget, upd_same]
    cases cgetter w c t.type s.under <;> rfl
  · intro hnone
    simp [cdelete, hd, hnone]

theorem cp_custom_accessors (c : CCfg) (s : CSt Cls Val) (t : Target Cls) :
    (c.hasSetter = true → ∀ v, cset c s t v = ({ s with log := s.log ++ [.fset t.type v] }, .done)) ∧
    (c.hasDeleter = true → cdelete c s t = ({ s with log := s.log ++ [.fdel t.type] }, .done)) := by
  constructor
  · intro hs v; simp [cset, hs]
  · intro hd; simp [cdelete, hd]

/-- Instance-level access acts on `type(obj)`: reaching the property through
an instance of class `k` is the same step as reaching it through `k`. -/
theorem cp_instance_acts_on_type (w : CWorld Cls Val) (c : CCfg) (s : CSt Cls Val) (k : Cls) (v : Val) :
    cstep w c s (.read (.inst k)) = cstep w c s (.read (.cls k)) ∧
    cstep w c s (.assign (.inst k) v) = cstep w c s (.assign (.cls k) v) ∧
    cstep w c s (.delete (.inst k)) = cstep w c s (.delete (.cls k)) :=
  ⟨rfl, rfl, rfl⟩

/-- The class an operation is about (`none` for `bump`). -/
def opClass : COp Cls Val → Option Cls
  | .read t => some t.type
  | .assign t _ => some t.type
  | .delete t => some t.type
  | .bump => none

/-- The outputs of the operations addressed to class `B`. -/
def outsFor (B : Cls) : List (COp Cls Val) → List (Out Val) → List (Out Val)
  | op :: ops, o :: os =>
    if opClass op = some B then o :: outsFor B ops os else outsFor B ops os
  | _, _ => []

/-- Operations that concern class `B`: those addressed to it, and `bump`. -/
def concerns (B : Cls) (op : COp Cls Val) : Bool :=
  decide (opClass op = some B) || decide (opClass op = none)

/-- **Per-subclass independence.** With `cache_per_subclass`, what class `B`
(and its instances) observes over ANY operation sequence is exactly what it
would observe had every operation on any other class of the tree — parent,
child or unrelated — never happened. -/
theorem cp_per_subclass_independent (w : CWorld Cls Val) (c : CCfg) (hp : c.perSubclass = true)
    (B : Cls) (ops : List (COp Cls Val)) :
    outsFor B ops (crun w c CSt.init ops).2 =
      outsFor B (ops.filter (concerns B)) (crun w c CSt.init (ops.filter (concerns B))).2 ∧
    (crun w c CSt.init ops).1.cache (some B) =
      (crun w c CSt.init (ops.filter (concerns B))).1.cache (some B) := by
  suffices H : ∀ (s s' : CSt Cls Val), s.cache (some B) = s'.cache (some B) → s.under = s'.under →
      outsFor B ops (crun w c s ops).2 =
        outsFor B (ops.filter (concerns B)) (crun w c s' (ops.filter (concerns B))).2 ∧
      (crun w c s ops).1.cache (some B) =
        (crun w c s' (ops.filter (concerns B))).1.cache (some B) from H _ _ rfl rfl
  induction ops with
  | nil => intro s s' h1 h2; exact ⟨rfl, h1⟩
  | cons op ops ih =>
    intro s s' h1 h2
    by_cases hc : concerns B op = true
    · -- the operation is replayed on both sides
      simp only [List.filter_cons, hc, if_true, crun]
      have hstep : (cstep w c s op).2 = (cstep w c s' op).2 ∧
          (cstep w c s op).1.cache (some B) = (cstep w c s' op).1.cache (some B) ∧
          (cstep w c s op).1.under = (cstep w c s' op).1.under := by
        cases op with
        | bump => exact ⟨rfl, h1, by simp [cstep, h2]⟩
        | read t =>
          have ht : t.type = B := by
            simp [concerns, opClass] at hc; exact hc
          simp only [cstep, cget, cacheKey_per hp, ht, ← h1, ← h2]
          cases hcb : s.cache (some B) with
          | some v => exact ⟨by first | rfl | trivial, by simpa [hcb] using h1, h2⟩
          | none =>
            simp only
            cases cgetter w c B s.under with
            | val v =>
              simp only
              by_cases hca : c.cache = true
              · simp [hca, upd_same, h2]
              · simp only [hca]; exact ⟨by first | rfl | trivial, by simpa [hcb] using h1, h2⟩
            | done => exact ⟨by first | rfl | trivial, by simpa [hcb] using h1, h2⟩
            | err e => exact ⟨by first | rfl | trivial, by simpa [hcb] using h1, h2⟩
            | nested => exact ⟨by first | rfl | trivial, by simpa [hcb] using h1, h2⟩
        | assign t v =>
          have ht : t.type = B := by
            simp [concerns, opClass] at hc; exact hc
          simp only [cstep, cset, cacheKey_per hp, ht]
          by_cases hfs : c.hasSetter = false
          · simp only [hfs, if_true]
            by_cases hov : c.overridable = true
            · simp [hov, upd_same, h2]
            · simp only [hov]; exact ⟨rfl, h1, h2⟩
          · simp only [hfs, if_false]; exact ⟨rfl, h1, h2⟩
        | delete t =>
          have ht : t.type = B := by
            simp [concerns, opClass] at hc; exact hc
          simp only [cstep, cdelete, cacheKey_per hp, ht, ← h1]
          by_cases hfd : c.hasDeleter = false
          · simp only [hfd, if_true]
            by_cases hs : (s.cache (some B)).isSome = true
            · simp [hs, upd_same, h2]
            · simp only [hs]; exact ⟨rfl, h1, h2⟩
          · simp only [hfd, if_false]; exact ⟨rfl, h1, h2⟩
      have := ih _ _ hstep.2.1 hstep.2.2
      refine ⟨?_, this.2⟩
      simp only [outsFor]
      by_cases hB : opClass op = some B
      · simp only [hB, if_true]; rw [hstep.1, this.1]
      · simp only [hB, if_false]; exact this.1
    · -- the operation is addressed to another class: it touches neither B's key nor the underlying state
      simp only [List.filter_cons, hc, crun]
      have hB : opClass op ≠ some B := by
        intro hh; simp [concerns, hh] at hc
      have hne : ∃ t : Target Cls, opClass op = some t.type ∧ t.type ≠ B := by
        cases op with
        | bump => simp [concerns, opClass] at hc
        | read t => exact ⟨t, rfl, fun hh => hB (by simp [opClass, hh])⟩
        | assign t v => exact ⟨t, rfl, fun hh => hB (by simp [opClass, hh])⟩
        | delete t => exact ⟨t, rfl, fun hh => hB (by simp [opClass, hh])⟩
      obtain ⟨t, _, htne⟩ := hne
      have hkey : ∀ t' : Target Cls, t'.type ≠ B → (some B : Option Cls) ≠ cacheKey c t'.type := by
        intro t' h' hh; rw [cacheKey_per hp] at hh; exact h' (Option.some.inj hh).symm
      have hstep : (cstep w c s op).1.cache (some B) = s.cache (some B) ∧
          (cstep w c s op).1.under = s.under := by
        cases op with
        | bump => simp [concerns, opClass] at hc
        | read t' =>
          have ht' : t'.type ≠ B := fun hh => hB (by simp [opClass, hh])
          simp only [cstep, cget]
          split
          · exact ⟨rfl, rfl⟩
          · split
            · split
              · exact ⟨upd_other _ _ (hkey t' ht'), rfl⟩
              · exact ⟨rfl, rfl⟩
            · exact ⟨rfl, rfl⟩
        | assign t' v =>
          have ht' : t'.type ≠ B := fun hh => hB (by simp [opClass, hh])
          simp only [cstep, cset]
          split
          · split
            · exact ⟨upd_other _ _ (hkey t' ht'), rfl⟩
            · exact ⟨rfl, rfl⟩
          · exact ⟨rfl, rfl⟩
        | delete t' =>
          have ht' : t'.type ≠ B := fun hh => hB (by simp [opClass, hh])
          simp only [cstep, cdelete]
          split
          · split
            · exact ⟨upd_other _ _ (hkey t' ht'), rfl⟩
            · exact ⟨rfl, rfl⟩
          · exact ⟨rfl, rfl⟩
      have := ih (cstep w c s op).1 s' (hstep.1.trans h1) (hstep.2.trans h2)
      simp only [outsFor, hB, if_false]
      exact this

/-- **One shared slot** without `cache_per_subclass`: every class resolves to
the same key, no per-class entry ever exists, and an override made through
any class or instance is what every other class and instance reads, after any
history. -/
theorem cp_shared_slot (w : CWorld Cls Val) (c : CCfg) (hp : c.perSubclass = false)
    (ops : List (COp Cls Val)) :
    (∀ A B : Cls, cacheKey c A = cacheKey c B) ∧
    (∀ k : Cls, (crun w c CSt.init ops).1.cache (some k) = none) ∧
    (c.overridable = true → c.hasSetter = false → ∀ (t1 t2 : Target Cls) (v : Val),
        (cstep w c (cstep w c (crun w c CSt.init ops).1 (.assign t1 v)).1 (.read t2)).2 = .val v) := by
  refine ⟨?_, ?_, ?_⟩
  · intro A B; simp [cacheKey, hp]
  · intro k; exact (cp_protocol w c ops).2.keys hp k
  · intro ho hs t1 t2 v
    simp [cstep, cset, cget, hs, ho, cacheKey_shared hp, upd_same]

/-! ## Non-vacuity: concrete instances of the hypotheses and of the behaviours -/

section Examples

/-- A concrete world over `Int`: the getter returns `10 + n`; the preparer adds
1000; negative numbers do not conform; sentinels are -1, -2, -3. -/
def exW : World Int :=
  { getter := fun n => .ok (10 + n), preparer := fun v => .ok (v + 1000),
    conforms := fun v => decide (0 ≤ v), construct := .ok 0, missing := -1, empty := -2, unchanged := -3 }

def exC (ov ca fs fd : Bool) : Cfg :=
  { overridable := ov, cache := ca, hasSetter := fs, hasDeleter := fd, onSpecClass := true,
    managed := true, hasPreparer := true, hasGetter := true, allowAttrErr := true }

-- override beats cache beats getter; deletion brings the getter back (cache on, overridable)
example : (run exW (exC true true false false) St.init
    [.read, .bump, .read, .assign 5, .read, .delete, .read, .delete, .delete]).2 =
    [.val 1010, .done, .val 1010, .done, .val 1005, .done, .val 1011, .done, .err .attributeError] := by
  decide

-- the invariant has non-trivial instances: an override, and a cached value
example : Inv exW (exC true true false false) ⟨some 1005, 0, []⟩ ⟨some 1005, none, 0, []⟩ := by
  refine ⟨rfl, ?_, ?_, ?_, rfl, rfl, ?_, ?_⟩ <;> simp [exC, exW]
example : Inv exW (exC false true false false) ⟨some 1010, 3, []⟩ ⟨none, some 1010, 3, []⟩ := by
  refine ⟨rfl, ?_, ?_, ?_, rfl, rfl, ?_, ?_⟩ <;> simp [exC, exW, Ghost.visible, isSentinel]

-- set_rejected's hypotheses are satisfiable and the run really raises
example : (run exW (exC false false false false) St.init [.assign 5, .read]).2 =
    [.err .attributeError, .val 1010] := by decide

-- custom accessors: called once each, slot untouched
example : (run exW (exC true false true true) St.init [.assign 5, .delete, .read]).1 =
    ⟨none, 0, [.fset 1005, .fdel]⟩ := by decide

-- getter_result_checked: a non-conforming getter result raises ValueError
example : getterChecked { exW with getter := fun _ => .ok (-5000) } (exC true true false false) 0 =
    .err .valueError := by decide

-- a preparer that raises on the first state and works afterwards: the failed read leaves nothing behind,
-- the next read (state repaired) is the prepared getter result, which is then cached
def exWr : World Int :=
  { exW with preparer := fun v => if v = 10 then .error .valueError else .ok (v + 1000) }

example : (run exWr (exC false true false false) St.init [.read, .read, .delete, .bump, .read, .bump, .read]) =
    (⟨some 1011, 2, []⟩,
     [.err .valueError, .err .valueError, .err .attributeError, .done, .val 1011, .done, .val 1011]) := by
  decide

-- …and an assignment whose preparation raises is rejected with that exception
example : (run exWr (exC true false false false) St.init [.assign 10, .read, .assign 11, .bump, .read]).2 =
    [.err .valueError, .err .valueError, .done, .done, .val 1011] := by decide

-- layouts: a property declared on a plain mixin and managed (with a preparer) by the spec class below;
-- declared un-annotated on a spec parent and annotated by the spec child; declared on the managing class
-- and read through a plain subclass; and a preparer defined only BELOW the class that built the attribute spec
def mixin : ClassDesc := ⟨false, true, false, false⟩
example : resolve [mixin, ⟨true, false, true, true⟩] = ⟨true, true, true⟩ := by decide
example : resolve [⟨true, true, false, false⟩, ⟨true, false, true, true⟩] = ⟨true, true, true⟩ := by decide
example : resolve [⟨true, true, true, true⟩, ⟨false, false, false, false⟩] = ⟨true, true, true⟩ := by decide
example : resolve [⟨true, true, true, false⟩, ⟨true, false, false, true⟩] = ⟨true, true, false⟩ := by decide
example : resolve [⟨true, false, true, false⟩, ⟨true, true, false, true⟩] = ⟨true, true, true⟩ := by decide
example : resolve [mixin, ⟨true, false, false, true⟩] = ⟨true, false, false⟩ := by decide
-- multiple inheritance: `class Leaf(SpecBase, Mixin)` with the property on the mixin to the right;
-- a plain join class sees only the left chain's metadata; a decorated one merges both
example : resolveMI [⟨true, false, true, true⟩] [mixin] ⟨false, false, false, false⟩ [] = ⟨true, true, true⟩ := by decide
example : resolveMI [⟨true, true, false, false⟩] [⟨true, false, true, true⟩] ⟨false, false, false, false⟩ [] =
    ⟨true, false, false⟩ := by decide
example : resolveMI [⟨true, true, false, false⟩] [⟨true, false, true, true⟩] ⟨true, false, false, false⟩ [] =
    ⟨true, true, true⟩ := by decide
-- the hypothesis of `inherited_reads_conform` holds for the mixin layout, and the read is prepared
example : (run exW (layoutCfg ⟨true, true, false, false, true, true⟩ [mixin, ⟨true, false, true, true⟩])
    St.init [.read, .bump, .read]).2 = [.val 1010, .done, .val 1010] := by decide

-- copies: an override assigned in place survives a helper of another attribute and a copy of that copy; a cached
-- value survives as well (the bump in between would otherwise show: 1011); `with_x` is assignment on a copy
def exY : Other Int := { dflt := 0, construct := 0, conforms := fun v => decide (0 ≤ v) }

example : (orun exW (exC true true false false) exY (Obj.init (exC true true false false) exY)
    [.prop (.assign 5), .withOther 7, .copy, .prop .read, .resetOther, .prop .bump, .prop .read]).2 =
    [.done, .done, .done, .val 1005, .done, .done, .val 1005] := by decide
example : (orun exW (exC false true false false) exY (Obj.init (exC false true false false) exY)
    [.prop .read, .withOther 7, .prop .bump, .copy, .prop .read, .resetSelf, .prop .read, .withSelf 5]).2 =
    [.val 1010, .done, .done, .done, .val 1010, .done, .val 1011, .err .attributeError] := by decide
example : (orun exW (exC true false false false) exY (Obj.init (exC true false false false) exY)
    [.withSelf 5, .withOther 7, .withOther (-4), .setOther 8, .prop .read]).1 =
    ⟨⟨some 1005, 0, []⟩, some 8⟩ := by decide
-- the hypotheses of `override_survives_copies` / `cache_survives_copies` are satisfiable
example : project (Val := Int) (exC true true false false) (.withSelf 5) = some (.assign 5) := by decide
example : delivered exW (exC true true false false) 5 = .deliver 1005 := by decide
example : project (Val := Int) (exC true true false false) (.withOther 7) = none := by decide
-- a constructor that raises (`typing.Union()`): a getter result MISSING makes the read raise that, nothing is cached
example : (run { exW with getter := fun _ => .ok (-1), construct := .error .typeError }
    (exC false true false false) St.init [.read, .read]) = (St.init, [.err .typeError, .err .typeError]) := by decide

-- classproperty over three classes (0 > 1 > 2): per-subclass caches are independent…
def exCW : CWorld Nat Int := { getter := fun k n => .ok (100 * (k + 1) + n) }
def exCC (ps : Bool) : CCfg :=
  { overridable := true, cache := true, perSubclass := ps, hasSetter := false, hasDeleter := false,
    hasGetter := true, allowAttrErr := true }

example : (crun exCW (exCC true) CSt.init
    [.read (.cls 0), .read (.inst 1), .assign (.inst 0) 7, .read (.cls 1), .read (.cls 0),
     .delete (.cls 0), .bump, .read (.inst 0), .read (.cls 1)]).2 =
    [.val 100, .val 200, .done, .val 200, .val 7, .done, .done, .val 101, .val 200] := by decide

-- …and one shared slot otherwise
example : (crun exCW (exCC false) CSt.init
    [.read (.cls 1), .read (.cls 0), .assign (.inst 2) 7, .read (.cls 0), .delete (.inst 1),
     .read (.cls 0)]).2 =
    [.val 200, .val 200, .done, .val 7, .done, .val 100] := by decide

-- `concerns` really filters: an operation on class 0 is dropped for B = 1
example : ([COp.read (.cls 0), .bump, .read (.inst 1)] : List (COp Nat Int)).filter (concerns 1) =
    [.bump, .read (.inst 1)] := by decide

end Examples

end SpecVerif.Props.C12
