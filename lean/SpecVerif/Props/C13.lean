import SpecVerif.Proofs.C13
import SpecVerif.Model.C13Pair
/-!
# C13 — KeyedList is a list with unique keys and a coherent key index

Property theorems only (helper lemmas are in `Proofs/C13.lean`). Every theorem
is about the executable definitions of `Model/C13.lean`, which the
correspondence check runs against `spec_classes.types.keyed.KeyedList`.

Quantification: any item type `α`, key type `κ` (decidable equality), any key
function, any typed/untyped configuration, any container state satisfying the
coherence invariant `Coh` (which every reachable state does: `coh_run`), any
operation, any operation sequence of any length. Last section: TWO containers with unrelated
configurations and the operations that take one of them as the operand of the other
(`Model/C13Pair.lean`).
-/
set_option linter.unusedSectionVars false
set_option linter.unusedSimpArgs false
namespace SpecVerif.Props.C13
open SpecVerif.Py SpecVerif.C13

variable {α κ : Type} [DecidableEq α] [DecidableEq κ]

/-- Coherence of the key index with the list, unique keys, and (typed
containers) only admissible items. -/
structure Coh (c : Cfg α κ) (l : KL α κ) : Prop where
  keysNodup : (l.list.map c.key).Nodup
  dictIff   : ∀ k x, (k, x) ∈ l.dict ↔ (x ∈ l.list ∧ c.key x = k)
  dictNodup : (l.dict.map (·.1)).Nodup
  typed     : ∀ x ∈ l.list, c.okItem x = true

theorem coh_empty (c : Cfg α κ) : Coh c (KL.empty : KL α κ) :=
  ⟨by simp [KL.empty], by simp [KL.empty], by simp [KL.empty], by simp [KL.empty]⟩

/-- Under coherence, `k in self._dict` is "some item of the list has key k". -/
theorem hasKey_iff_scan {c : Cfg α κ} {l : KL α κ} (h : Coh c l) (k : κ) :
    hasKey l.dict k = true ↔ ∃ x ∈ l.list, c.key x = k := by
  rw [hasKey_iff]
  constructor
  · rintro ⟨x, hx⟩; exact ⟨x, (h.dictIff k x).1 hx⟩
  · rintro ⟨x, hx, hk⟩; exact ⟨x, (h.dictIff k x).2 ⟨hx, hk⟩⟩

/-! ## insert / append -/

/-- `insert` succeeds exactly when the item is admissible and its key is new;
the list is then the plain `list.insert` result. -/
theorem insert_refines {c : Cfg α κ} {l : KL α κ} (h : Coh c l) (i : Int) (x : α) :
    insertAt c l i x =
      if c.okItem x = false then .error .typeError
      else if ∃ y ∈ l.list, c.key y = c.key x then .error .valueError
      else .ok ⟨pyInsert l.list i x, dictAdd l.dict (c.key x) x⟩ := by
  unfold insertAt validateNew
  by_cases hok : c.okItem x = true
  · by_cases hdup : ∃ y ∈ l.list, c.key y = c.key x
    · have : hasKey l.dict (c.key x) = true := (hasKey_iff_scan h _).2 hdup
      simp [hok, this, hdup]
    · have : hasKey l.dict (c.key x) = false := by
        rw [← Bool.not_eq_true]; intro ht; exact hdup ((hasKey_iff_scan h _).1 ht)
      simp [hok, this, hdup]
  · simp at hok; simp [hok]

theorem coh_insert {c : Cfg α κ} {l l' : KL α κ} (h : Coh c l) (i : Int) (x : α)
    (hi : insertAt c l i x = .ok l') : Coh c l' := by
  rw [insert_refines h] at hi
  split at hi
  · cases hi
  · rename_i hok
    split at hi
    · cases hi
    · rename_i hdup
      cases hi
      have hxnot : ∀ y ∈ l.list, c.key y ≠ c.key x := fun y hy hk => hdup ⟨y, hy, hk⟩
      refine ⟨?_, ?_, ?_, ?_⟩
      · have : ((x :: l.list).map c.key).Nodup := by
          simp only [List.map_cons, List.nodup_cons]
          refine ⟨?_, h.keysNodup⟩
          intro hm
          obtain ⟨y, hy, hk⟩ := List.mem_map.1 hm
          exact hxnot y hy hk
        exact ((perm_pyInsert l.list i x).map c.key).nodup_iff.2 this
      · intro k y
        simp only [mem_dictAdd, mem_pyInsert, h.dictIff]
        constructor
        · rintro (⟨hy, hk⟩ | ⟨hk, hy⟩)
          · exact ⟨Or.inr hy, hk⟩
          · subst hy; exact ⟨Or.inl rfl, hk.symm⟩
        · rintro ⟨hy | hy, hk⟩
          · subst hy; exact Or.inr ⟨hk.symm, rfl⟩
          · exact Or.inl ⟨hy, hk⟩
      · apply nodup_keys_dictAdd _ _ _ h.dictNodup
        intro hm
        obtain ⟨y, hy, hk⟩ := (hasKey_iff_scan h _).1 ((hasKey_iff_mem_keys _ _).2 hm)
        exact hxnot y hy hk
      · intro y hy
        rcases (mem_pyInsert _ _ _ _).1 hy with hy | hy
        · subst hy; simpa using hok
        · exact h.typed y hy

/-- `append` is `list.append` when it succeeds. -/
theorem append_list {c : Cfg α κ} {l l' : KL α κ} (h : Coh c l) (x : α)
    (ha : append c l x = .ok l') : l'.list = l.list ++ [x] := by
  unfold append at ha
  rw [insert_refines h] at ha
  split at ha
  · cases ha
  · split at ha
    · cases ha
    · cases ha; exact pyInsert_length _ _

/-! ## by-key access is a linear scan -/

/-- `l[k]` / `get(k)` return exactly the item a linear scan of the list finds. -/
theorem getKey_is_scan {c : Cfg α κ} {l : KL α κ} (h : Coh c l) (k : κ) :
    dictGet l.dict k = l.list.find? (fun x => c.key x == k) := by
  cases hf : l.list.find? (fun x => c.key x == k) with
  | none =>
    rw [dictGet_eq_none_iff, hasKey_false_iff]
    intro x hx
    have := (h.dictIff k x).1 hx
    have hn := List.find?_eq_none.1 hf x this.1
    simp [this.2] at hn
  | some x =>
    rw [dictGet_eq_some_iff _ h.dictNodup]
    have hx := List.mem_of_find?_eq_some hf
    have hk : c.key x = k := by simpa using List.find?_some hf
    exact (h.dictIff k x).2 ⟨hx, hk⟩

/-- `index_for_key` is the position a linear scan finds; KeyError exactly when no item has the key. -/
theorem indexForKey_is_scan {c : Cfg α κ} {l : KL α κ} (h : Coh c l) (k : κ) :
    indexForKey c l k =
      match l.list.findIdx? (fun x => c.key x == k) with
      | some i => .ok i
      | none => .error .keyError := by
  unfold indexForKey
  cases hf : l.list.findIdx? (fun x => c.key x == k) with
  | some i => 
    have : hasKey l.dict k = true := by
      rw [hasKey_iff_scan h]
      obtain ⟨x, hx, hk⟩ := (findIdx?_key_eq_some_iff c.key h.keysNodup k i).1 hf
      exact ⟨x, List.mem_of_getElem? hx, hk⟩
    simp [this]
  | none => split <;> rfl

/-- `keys()` holds exactly the keys of the listed items (as a set; order is dict insertion order). -/
theorem keys_is_scan {c : Cfg α κ} {l : KL α κ} (h : Coh c l) (k : κ) :
    k ∈ l.dict.map (·.1) ↔ k ∈ l.list.map c.key := by
  rw [← hasKey_iff_mem_keys, hasKey_iff_scan h, List.mem_map]

theorem keys_length {c : Cfg α κ} {l : KL α κ} (h : Coh c l) : l.dict.length = l.list.length := by
  have h1 : (l.dict.map (·.1)).Perm (l.list.map c.key) :=
    (List.perm_ext_iff_of_nodup h.dictNodup h.keysNodup).2 (fun k => keys_is_scan h k)
  simpa using h1.length_eq

/-! ## delete -/

theorem delIdx_refines {c : Cfg α κ} {l : KL α κ} (i : Int) :
    delIdx c l i =
      match pyIdx l.list.length i with
      | none => .error .indexError
      | some k => match l.list[k]? with
        | none => .error .indexError
        | some x => .ok ⟨l.list.eraseIdx k, dictDel l.dict (c.key x)⟩ := rfl

theorem coh_delIdx {c : Cfg α κ} {l l' : KL α κ} (h : Coh c l) (i : Int)
    (hd : delIdx c l i = .ok l') : Coh c l' := by
  unfold delIdx at hd
  split at hd
  · cases hd
  · rename_i k hk
    split at hd
    · cases hd
    · rename_i x hx
      cases hd
      have hlt : k < l.list.length := pyIdx_lt hk
      have hxe : l.list[k] = x := by
        have : l.list[k]? = some l.list[k] := by simp [hlt]
        rw [this] at hx; exact Option.some.inj hx
      have hnd := nodup_of_nodup_map_key c.key h.keysNodup
      have hmem := mem_eraseIdx_of_nodup l.list k hlt hnd
      have hxm : x ∈ l.list := hxe ▸ List.getElem_mem _
      refine ⟨?_, ?_, nodup_keys_dictDel _ _ h.dictNodup, ?_⟩
      · exact List.Nodup.sublist ((List.eraseIdx_sublist _ _).map c.key) h.keysNodup
      · intro k' y
        simp only [mem_dictDel, h.dictIff, hmem, hxe]
        constructor
        · rintro ⟨⟨hy, hk'⟩, hne⟩
          exact ⟨⟨hy, fun hyx => hne (hk' ▸ hyx ▸ rfl)⟩, hk'⟩
        · rintro ⟨⟨hy, hne⟩, hk'⟩
          refine ⟨⟨hy, hk'⟩, ?_⟩
          intro hkk
          exact hne (eq_of_key_eq c.key h.keysNodup hy hxm (hk'.trans hkk))
      · intro y hy
        exact h.typed y ((hmem y).1 hy).1

theorem coh_delKey {c : Cfg α κ} {l l' : KL α κ} (h : Coh c l) (k : κ)
    (hd : delKey c l k = .ok l') : Coh c l' := by
  unfold delKey at hd
  split at hd
  · cases hd
  · exact coh_delIdx h _ hd

/-- `del l[k]` removes exactly the item a scan finds (KeyError when there is none). -/
theorem delKey_refines {c : Cfg α κ} {l : KL α κ} (h : Coh c l) (k : κ) :
    delKey c l k =
      match l.list.findIdx? (fun x => c.key x == k) with
      | none => .error .keyError
      | some i => delIdx c l (Int.ofNat i) := by
  unfold delKey
  rw [indexForKey_is_scan h]
  cases l.list.findIdx? (fun x => c.key x == k) <;> rfl

/-! ## assignment -/

open Classical in
/-- `l[i] = x`: IndexError when out of range, TypeError for an inadmissible item,
ValueError exactly when another position already holds the key; otherwise the plain
`list.__setitem__` result. -/
theorem setIdx_refines {c : Cfg α κ} {l : KL α κ} (h : Coh c l) (i : Int) (x : α) :
    setIdx c l i x =
      match pyIdx l.list.length i with
      | none => .error .indexError
      | some k =>
        if c.okItem x = false then .error .typeError
        else if ∃ j y, j ≠ k ∧ l.list[j]? = some y ∧ c.key y = c.key x then .error .valueError
        else .ok ⟨l.list.set k x,
                  dictAdd (dictDel l.dict (c.key (l.list[k]?.getD x))) (c.key x) x⟩ := by
  unfold setIdx
  cases hk : pyIdx l.list.length i with
  | none => rfl
  | some k =>
    have hlt : k < l.list.length := pyIdx_lt hk
    have hget : l.list[k]? = some l.list[k] := by simp [hlt]
    simp only [hget, Option.getD_some]
    by_cases hok : c.okItem x = true
    · simp only [hok, Bool.not_true, Bool.false_eq_true, if_false, Bool.true_eq_false]
      by_cases hdup : ∃ j y, j ≠ k ∧ l.list[j]? = some y ∧ c.key y = c.key x
      · obtain ⟨j, y, hjk, hy, hyk⟩ := hdup
        have hym : y ∈ l.list := List.mem_of_getElem? hy
        have hne : c.key x ≠ c.key l.list[k] := by
          intro he
          have : y = l.list[k] := eq_of_key_eq c.key h.keysNodup hym (List.getElem_mem _) (hyk.trans he)
          have hnd := nodup_of_nodup_map_key c.key h.keysNodup
          have hjlt : j < l.list.length := by
            rcases Nat.lt_or_ge j l.list.length with hh | hh
            · exact hh
            · simp [List.getElem?_eq_none hh] at hy
          have hyj : l.list[j] = y := by
            have : l.list[j]? = some l.list[j] := by simp [hjlt]
            rw [this] at hy; exact Option.some.inj hy
          exact hjk ((List.Nodup.getElem_inj_iff hnd).1 (hyj.trans this))
        have hhas : hasKey l.dict (c.key x) = true := (hasKey_iff_scan h _).2 ⟨y, hym, hyk⟩
        have hbne : (c.key x != c.key l.list[k]) = true := by simpa using hne
        rw [if_pos (by simp [hbne, hhas]), if_pos ⟨j, y, hjk, hy, hyk⟩]
      · have hcond : (c.key x != c.key l.list[k] && hasKey l.dict (c.key x)) = false := by
          rw [Bool.and_eq_false_iff]
          by_cases he : c.key x = c.key l.list[k]
          · left; simp [he]
          · right
            rw [← Bool.not_eq_true]; intro ht
            obtain ⟨y, hym, hyk⟩ := (hasKey_iff_scan h _).1 ht
            rcases List.getElem_of_mem hym with ⟨j, hj, rfl⟩
            apply hdup
            refine ⟨j, l.list[j], ?_, by simp [hj], hyk⟩
            intro hjk; subst hjk; exact he hyk.symm
        rw [if_neg (by simp [hcond]), if_neg hdup]
    · simp at hok; simp [hok]

theorem coh_setIdx {c : Cfg α κ} {l l' : KL α κ} (h : Coh c l) (i : Int) (x : α)
    (hs : setIdx c l i x = .ok l') : Coh c l' := by
  rw [setIdx_refines h] at hs
  split at hs
  · cases hs
  · rename_i k hk
    split at hs
    · cases hs
    · rename_i hok
      split at hs
      · cases hs
      · rename_i hdup
        cases hs
        have hlt : k < l.list.length := pyIdx_lt hk
        have hget : l.list[k]? = some l.list[k] := by simp [hlt]
        simp only [hget, Option.getD_some]
        have hnd := nodup_of_nodup_map_key c.key h.keysNodup
        have holdm : l.list[k] ∈ l.list := List.getElem_mem _
        have huniq : ∀ j, l.list[j]? = some l.list[k] → j = k := by
          intro j hj
          have hjlt : j < l.list.length := by
            rcases Nat.lt_or_ge j l.list.length with hh | hh
            · exact hh
            · simp [List.getElem?_eq_none hh] at hj
          have : l.list[j] = l.list[k] := by
            have h2 : l.list[j]? = some l.list[j] := by simp [hjlt]
            rw [h2] at hj; exact Option.some.inj hj
          exact (List.Nodup.getElem_inj_iff hnd).1 this
        have hmem := fun y => mem_set_iff_of_get (x := x) (y := y) hget huniq
        -- no other position holds the new key
        have hother : ∀ y ∈ l.list, y ≠ l.list[k] → c.key y ≠ c.key x := by
          intro y hy hne hyk
          rcases List.getElem_of_mem hy with ⟨j, hj, rfl⟩
          apply hdup
          refine ⟨j, l.list[j], ?_, by simp [hj], hyk⟩
          intro hjk; subst hjk; exact hne rfl
        refine ⟨?_, ?_, ?_, ?_⟩
        · -- keys of the new list are still unique
          have hp := (perm_set_eraseIdx l.list k hlt x).map c.key
          rw [hp.nodup_iff, List.map_cons, List.nodup_cons]
          refine ⟨?_, List.Nodup.sublist ((List.eraseIdx_sublist _ _).map c.key) h.keysNodup⟩
          intro hm
          obtain ⟨y, hy, hyk⟩ := List.mem_map.1 hm
          have := (mem_eraseIdx_of_nodup l.list k hlt hnd y).1 hy
          exact hother y this.1 this.2 hyk
        · intro k' y
          simp only [mem_dictAdd, mem_dictDel, h.dictIff, hmem]
          constructor
          · rintro (⟨⟨hy, hk'⟩, hne⟩ | ⟨hk', hy⟩)
            · refine ⟨Or.inr ⟨hy, ?_⟩, hk'⟩
              intro hyo; exact hne (hk' ▸ hyo ▸ rfl)
            · subst hy; exact ⟨Or.inl rfl, hk'.symm⟩
          · rintro ⟨hy | ⟨hy, hne⟩, hk'⟩
            · subst hy; exact Or.inr ⟨hk'.symm, rfl⟩
            · refine Or.inl ⟨⟨hy, hk'⟩, ?_⟩
              intro hkk
              exact hne (eq_of_key_eq c.key h.keysNodup hy holdm (hk'.trans hkk))
        · apply nodup_keys_dictAdd _ _ _ (nodup_keys_dictDel _ _ h.dictNodup)
          intro hm
          rw [keys_dictDel, List.mem_filter] at hm
          obtain ⟨hm1, hm2⟩ := hm
          obtain ⟨y, hy, hyk⟩ := (hasKey_iff_scan h _).1 ((hasKey_iff_mem_keys _ _).2 hm1)
          by_cases hyo : y = l.list[k]
          · subst hyo; simp [hyk] at hm2
          · exact hother y hy hyo hyk
        · intro y hy
          rcases (hmem y).1 hy with hy | ⟨hy, _⟩
          · subst hy; simpa using hok
          · exact h.typed y hy

theorem coh_setKey {c : Cfg α κ} {l l' : KL α κ} (h : Coh c l) (k : κ) (x : α)
    (hs : setKey c l k x = .ok l') : Coh c l' := by
  unfold setKey at hs
  split at hs
  · cases hs
  · exact coh_setIdx h _ _ hs

/-! ## extend / += -/

/-- Characterisation of the staging loop of `extend`. -/
theorem stage_ok_iff (c : Cfg α κ) (l : KL α κ) : ∀ (xs : List α) (st st' : List (κ × α)),
    stage c l xs st = .ok st' ↔
      (st' = st ++ xs.map (fun x => (c.key x, x)) ∧ (∀ x ∈ xs, c.okItem x = true) ∧
       (∀ x ∈ xs, hasKey l.dict (c.key x) = false) ∧
       (∀ x ∈ xs, hasKey st (c.key x) = false) ∧ (xs.map c.key).Nodup)
  | [], st, st' => by
    simp only [stage, List.map_nil, List.append_nil, List.not_mem_nil, false_imp_iff, implies_true,
      List.nodup_nil, and_true]
    constructor
    · intro h; cases h; rfl
    · intro h; rw [h]
  | x :: xs, st, st' => by
    unfold stage
    by_cases hok : c.okItem x = true
    · by_cases hd : hasKey l.dict (c.key x) = true
      · simp [hok, hd]
      · by_cases hs : hasKey st (c.key x) = true
        · simp [hok, hs]
        · simp only [Bool.not_eq_true] at hd hs
          simp only [hok, hd, hs, Bool.not_true, Bool.false_eq_true, if_false, Bool.or_self]
          rw [stage_ok_iff c l xs]
          simp only [List.map_cons, List.mem_cons, forall_eq_or_imp, hok, hd, hs, true_and,
            List.nodup_cons, dictAdd, List.append_assoc, List.singleton_append]
          constructor
          · rintro ⟨h1, h2, h3, h4, h5⟩
            refine ⟨h1, h2, h3, ?_, ?_, h5⟩
            · intro y hy
              have := h4 y hy
              rw [hasKey_false_iff] at this ⊢
              intro z hz; exact this z (List.mem_append_left _ hz)
            · intro hm
              obtain ⟨y, hy, hyk⟩ := List.mem_map.1 hm
              have := h4 y hy
              rw [hasKey_false_iff] at this
              exact this x (by rw [hyk]; simp)
          · rintro ⟨h1, h2, h3, h4, h5, h6⟩
            refine ⟨h1, h2, h3, ?_, h6⟩
            intro y hy
            rw [hasKey_false_iff]
            intro z hz
            rcases List.mem_append.1 hz with hz | hz
            · exact (hasKey_false_iff _ _).1 (h4 y hy) z hz
            · simp only [List.mem_singleton, Prod.mk.injEq] at hz
              exact h5 (List.mem_map.2 ⟨y, hy, hz.1⟩)
    · simp only [Bool.not_eq_true] at hok
      simp [hok]

/-- `extend` / `+=` succeeds exactly when every incoming item is admissible and the
concatenated list still has unique keys; then it is plain `list.extend`. -/
theorem extend_refines {c : Cfg α κ} {l : KL α κ} (h : Coh c l) (xs : List α) (l' : KL α κ) :
    extend c l xs = .ok l' ↔
      ((∀ x ∈ xs, c.okItem x = true) ∧ ((l.list ++ xs).map c.key).Nodup ∧
        l' = ⟨l.list ++ xs, l.dict ++ xs.map (fun x => (c.key x, x))⟩) := by
  unfold extend
  have hkey : ((l.list ++ xs).map c.key).Nodup ↔
      (xs.map c.key).Nodup ∧ ∀ x ∈ xs, hasKey l.dict (c.key x) = false := by
    rw [List.map_append, List.nodup_append]
    constructor
    · rintro ⟨_, h2, h3⟩
      refine ⟨h2, ?_⟩
      intro x hx
      rw [← Bool.not_eq_true, hasKey_iff_scan h]
      rintro ⟨y, hy, hyk⟩
      exact h3 _ (List.mem_map.2 ⟨y, hy, rfl⟩) _ (List.mem_map.2 ⟨x, hx, rfl⟩) hyk
    · rintro ⟨h2, h3⟩
      refine ⟨h.keysNodup, h2, ?_⟩
      intro a ha b hb hab
      obtain ⟨y, hy, rfl⟩ := List.mem_map.1 ha
      obtain ⟨x, hx, rfl⟩ := List.mem_map.1 hb
      have := h3 x hx
      rw [← Bool.not_eq_true, hasKey_iff_scan h] at this
      exact this ⟨y, hy, hab⟩
  cases hst : stage c l xs [] with
  | error e =>
    simp only [reduceCtorEq, false_iff]
    rintro ⟨h1, h2, _⟩
    rw [hkey] at h2
    have : stage c l xs [] = .ok ([] ++ xs.map (fun x => (c.key x, x))) :=
      (stage_ok_iff c l xs [] _).2 ⟨rfl, h1, h2.2, by intro x _; rfl, h2.1⟩
    rw [hst] at this; cases this
  | ok st =>
    obtain ⟨h1, h2, h3, _, h5⟩ := (stage_ok_iff c l xs [] st).1 hst
    simp only [List.nil_append] at h1
    subst h1
    simp only [Except.ok.injEq, List.map_map]
    have hid : (List.map ((fun p : κ × α => p.2) ∘ fun x => (c.key x, x)) xs) = xs := by
      simp [Function.comp_def]
    rw [hid]
    constructor
    · intro hl; exact ⟨h2, hkey.2 ⟨h5, h3⟩, hl.symm⟩
    · rintro ⟨_, _, hl⟩; exact hl.symm

theorem coh_extend {c : Cfg α κ} {l l' : KL α κ} (h : Coh c l) (xs : List α)
    (he : extend c l xs = .ok l') : Coh c l' := by
  obtain ⟨hok, hnd, rfl⟩ := (extend_refines h xs l').1 he
  refine ⟨hnd, ?_, ?_, ?_⟩
  · intro k y
    simp only [List.mem_append, List.mem_map, Prod.mk.injEq, h.dictIff]
    constructor
    · rintro (⟨hy, hk⟩ | ⟨x, hx, hk, rfl⟩)
      · exact ⟨Or.inl hy, hk⟩
      · exact ⟨Or.inr hx, hk⟩
    · rintro ⟨hy | hy, hk⟩
      · exact Or.inl ⟨hy, hk⟩
      · exact Or.inr ⟨y, hy, hk, rfl⟩
  · have h1 : (l.dict.map (·.1)).Perm (l.list.map c.key) :=
      (List.perm_ext_iff_of_nodup h.dictNodup h.keysNodup).2 (fun k => keys_is_scan h k)
    have : ((l.dict ++ xs.map (fun x => (c.key x, x))).map (·.1)).Perm ((l.list ++ xs).map c.key) := by
      simp only [List.map_append, List.map_map]
      have hid : (List.map ((fun p : κ × α => p.1) ∘ fun x => (c.key x, x)) xs) = xs.map c.key := by
        simp [Function.comp_def]
      rw [hid]
      exact h1.append_right _
    exact this.nodup_iff.2 hnd
  · intro y hy
    rcases List.mem_append.1 hy with hy | hy
    · exact h.typed y hy
    · exact hok y hy

/-! ## reverse, pop, remove, clear -/

theorem coh_reverse {c : Cfg α κ} {l : KL α κ} (h : Coh c l) : Coh c (reverse l) := by
  refine ⟨?_, ?_, h.dictNodup, ?_⟩
  · simp only [reverse, List.map_reverse]; exact List.nodup_reverse.2 h.keysNodup
  · intro k x; simp only [reverse, List.mem_reverse]; exact h.dictIff k x
  · intro x hx; exact h.typed x (by simpa [reverse] using hx)

theorem reverse_list (l : KL α κ) : (reverse l).list = l.list.reverse := rfl

theorem coh_pop {c : Cfg α κ} {l l' : KL α κ} {v : α} (h : Coh c l) (i : Int)
    (hp : pop c l i = .ok (v, l')) : Coh c l' := by
  unfold pop at hp
  split at hp
  · cases hp
  · split at hp
    · cases hp
    · rename_i l'' hd
      cases hp
      exact coh_delIdx h i hd

/-- `pop(i)` returns `list[i]` and removes that position. -/
theorem pop_refines {c : Cfg α κ} {l : KL α κ} (i : Int) :
    pop c l i =
      match pyIdx l.list.length i with
      | none => .error .indexError
      | some k => match l.list[k]? with
        | none => .error .indexError
        | some x => .ok (x, ⟨l.list.eraseIdx k, dictDel l.dict (c.key x)⟩) := by
  unfold pop getIdx delIdx
  cases h1 : pyIdx l.list.length i with
  | none => simp
  | some k => cases h2 : l.list[k]? <;> simp [h2]

theorem coh_remove {c : Cfg α κ} {l l' : KL α κ} (h : Coh c l) (x : α)
    (hr : remove c l x = .ok l') : Coh c l' := by
  unfold remove at hr
  split at hr
  · cases hr
  · exact coh_delIdx h _ hr

theorem coh_clear_go {c : Cfg α κ} : ∀ (n : Nat) {l : KL α κ}, Coh c l → Coh c (clear.go c n l)
  | 0, _, h => h
  | n + 1, l, h => by
    unfold clear.go
    split
    · exact h
    · rename_i v l' hp
      exact coh_clear_go n (coh_pop h _ hp)

theorem coh_clear {c : Cfg α κ} {l : KL α κ} (h : Coh c l) : Coh c (clear c l) :=
  coh_clear_go _ h

theorem clear_go_list {c : Cfg α κ} : ∀ (n : Nat) (l : KL α κ), l.list.length ≤ n →
    (clear.go c n l).list = []
  | 0, l, hn => by
    unfold clear.go
    exact List.eq_nil_of_length_eq_zero (Nat.le_zero.1 hn)
  | n + 1, l, hn => by
    unfold clear.go
    rw [pop_refines]
    cases hl : l.list with
    | nil => simp [pyIdx, hl]
    | cons a t =>
      have hk : pyIdx (a :: t).length (-1) = some t.length := by
        unfold pyIdx; simp
      have hlt : t.length < (a :: t).length := by simp
      simp only [hk, List.getElem?_eq_getElem hlt]
      apply clear_go_list n
      simp only [List.length_eraseIdx, hlt, if_true]
      rw [hl] at hn; simp at hn ⊢; omega

/-- `clear()` empties the list. -/
theorem clear_list (c : Cfg α κ) (l : KL α κ) : (clear c l).list = [] :=
  clear_go_list _ _ (Nat.le_refl _)

/-! ## every operation preserves coherence; failures are atomic -/

theorem coh_step {c : Cfg α κ} {l : KL α κ} (h : Coh c l) (op : Op α κ) : Coh c (step c l op).1 := by
  cases op <;> simp only [step] <;> try exact h
  case setIdx i x => split <;> [exact coh_setIdx h _ _ ‹_›; exact h]
  case setKey k x => split <;> [exact coh_setKey h _ _ ‹_›; exact h]
  case delIdx i => split <;> [exact coh_delIdx h _ ‹_›; exact h]
  case delKey k => split <;> [exact coh_delKey h _ ‹_›; exact h]
  case insert i x => split <;> [exact coh_insert h _ _ ‹_›; exact h]
  case append x => split <;> [exact coh_insert h _ _ ‹_›; exact h]
  case extend xs => split <;> [exact coh_extend h _ ‹_›; exact h]
  case iadd xs => split <;> [exact coh_extend h _ ‹_›; exact h]
  case pop i => split <;> [exact coh_pop h _ ‹_›; exact h]
  case remove x => split <;> [exact coh_remove h _ ‹_›; exact h]
  case reverse => exact coh_reverse h
  case clear => exact coh_clear h

/-- An operation that reports an error leaves the container exactly as it was. -/
theorem step_atomic (c : Cfg α κ) (l : KL α κ) (op : Op α κ) (e : Err)
    (he : (step c l op).2 = .err e) : (step c l op).1 = l := by
  cases op <;> simp only [step] at he ⊢ <;> try rfl
  all_goals first | cases he | (split at he <;> first | rfl | cases he)

/-- Every state reachable from a coherent one by any operation sequence is coherent. -/
theorem coh_run {c : Cfg α κ} : ∀ (ops : List (Op α κ)) {l : KL α κ}, Coh c l → Coh c (run c l ops).1
  | [], _, h => h
  | op :: ops, l, h => by
    simp only [run]
    exact coh_run ops (coh_step h op)

/-- Construction from a sequence yields a coherent container (or raises). -/
theorem coh_ofList {c : Cfg α κ} : ∀ (xs : List α) {l l' : KL α κ}, Coh c l →
    ofList c xs l = .ok l' → Coh c l'
  | [], _, _, h, he => by simp only [ofList] at he; cases he; exact h
  | x :: xs, l, l', h, he => by
    simp only [ofList] at he
    split at he
    · cases he
    · rename_i l'' hi
      exact coh_ofList xs (coh_insert h _ _ hi) he

/-! ## construction, `+`, slices -/

/-- `KeyedList(xs)` (appending to a coherent prefix) succeeds exactly when every item is
admissible and the keys stay unique; the result lists the items in order. -/
theorem ofList_refines {c : Cfg α κ} : ∀ (xs : List α) {l : KL α κ} (l' : KL α κ), Coh c l →
    (ofList c xs l = .ok l' →
      l'.list = l.list ++ xs ∧ (∀ x ∈ xs, c.okItem x = true) ∧ ((l.list ++ xs).map c.key).Nodup)
  | [], l, l', h => by
    intro he; simp only [ofList] at he; cases he
    simpa using h.keysNodup
  | x :: xs, l, l', h => by
    intro he
    simp only [ofList] at he
    split at he
    · cases he
    · rename_i l'' hi
      have hc := coh_insert h _ _ hi
      have hl : l''.list = l.list ++ [x] := append_list h x hi
      have hokx : c.okItem x = true := by
        have := hc.typed x (by rw [hl]; simp)
        exact this
      obtain ⟨h1, h2, h3⟩ := ofList_refines xs l' hc he
      rw [hl] at h1 h3
      refine ⟨by simpa using h1, ?_, by simpa using h3⟩
      intro y hy
      rcases List.mem_cons.1 hy with hy | hy
      · subst hy; exact hokx
      · exact h2 y hy

/-- Conversely, construction cannot fail when items are admissible and keys unique. -/
theorem ofList_complete {c : Cfg α κ} : ∀ (xs : List α) {l : KL α κ}, Coh c l →
    (∀ x ∈ xs, c.okItem x = true) → ((l.list ++ xs).map c.key).Nodup →
    ∃ l', ofList c xs l = .ok l'
  | [], l, _, _, _ => ⟨l, rfl⟩
  | x :: xs, l, h, hok, hnd => by
    simp only [ofList]
    have hi : insertAt c l (Int.ofNat l.list.length) x =
        .ok ⟨pyInsert l.list (Int.ofNat l.list.length) x, dictAdd l.dict (c.key x) x⟩ := by
      rw [insert_refines h]
      have h1 : c.okItem x = true := hok x (by simp)
      have h2 : ¬ ∃ y ∈ l.list, c.key y = c.key x := by
        rintro ⟨y, hy, hk⟩
        rw [List.map_append, List.nodup_append] at hnd
        exact hnd.2.2 _ (List.mem_map.2 ⟨y, hy, rfl⟩) _ (List.mem_map.2 ⟨x, by simp, rfl⟩) hk
      simp [h1, h2]
    rw [hi]
    have hc := coh_insert h _ _ hi
    apply ofList_complete xs hc (fun y hy => hok y (List.mem_cons_of_mem _ hy))
    simp only [pyInsert_length]
    simpa using hnd

/-- `self + other`: a plain concatenation, ValueError/TypeError exactly when keys collide. -/
theorem add_refines {c : Cfg α κ} {l : KL α κ} (xs : List α) :
    (∀ r, add c l xs = .ok r → r.list = l.list ++ xs) ∧
    (((l.list ++ xs).map c.key).Nodup → ∃ r, add c l xs = .ok r) ∧
    ((∃ r, add c l xs = .ok r) → ((l.list ++ xs).map c.key).Nodup) := by
  unfold add
  have he : Coh { c with okItem := fun _ => true } (KL.empty : KL α κ) := coh_empty _
  refine ⟨?_, ?_, ?_⟩
  · intro r hr
    have := (ofList_refines (l.list ++ xs) r he hr).1
    simpa [KL.empty] using this
  · intro hnd
    exact ofList_complete (l.list ++ xs) he (fun _ _ => rfl) (by simpa [KL.empty] using hnd)
  · rintro ⟨r, hr⟩
    have := (ofList_refines (l.list ++ xs) r he hr).2.2
    simpa [KL.empty] using this

/-- A slice of a coherent list is a KeyedList holding exactly the plain-list slice. -/
theorem getSlice_refines {c : Cfg α κ} {l : KL α κ} (h : Coh c l) (a b : Option Int) :
    ∃ r, getSlice c l a b = .ok r ∧ r.list = pySlice l.list a b := by
  unfold getSlice
  have he : Coh { c with okItem := fun _ => true } (KL.empty : KL α κ) := coh_empty _
  have hsub : (pySlice l.list a b).Sublist l.list := by
    unfold pySlice
    exact (List.drop_sublist _ _).trans (List.take_sublist _ _)
  have hnd : (((KL.empty : KL α κ).list ++ pySlice l.list a b).map c.key).Nodup := by
    simp only [KL.empty, List.nil_append]
    exact List.Nodup.sublist (hsub.map c.key) h.keysNodup
  obtain ⟨r, hr⟩ := ofList_complete (c := { c with okItem := fun _ => true })
    (pySlice l.list a b) he (fun _ _ => rfl) hnd
  refine ⟨r, hr, ?_⟩
  have := (ofList_refines _ r he hr).1
  simpa [KL.empty] using this

/-! ## the refinement theorem: a plain list with one extra rule -/

/-- SPEC. What a plain Python list holding the same items does for each operation,
plus the single uniqueness rule. `none` = the operation raises (and changes nothing);
`some xs'` = it succeeds and the list is `xs'` afterwards. -/
def specStep (c : Cfg α κ) (xs : List α) : Op α κ → Option (List α)
  | .getIdx i => (pyIdx xs.length i).map fun _ => xs
  | .getKey k => (xs.find? (fun x => c.key x == k)).map fun _ => xs
  | .getSlice _ _ => some xs
  | .setIdx i x => (pyIdx xs.length i).bind fun k =>
      if c.okItem x = true ∧ ((xs.set k x).map c.key).Nodup then some (xs.set k x) else none
  | .setKey k x => (xs.findIdx? (fun y => c.key y == k)).bind fun i =>
      if c.okItem x = true ∧ ((xs.set i x).map c.key).Nodup then some (xs.set i x) else none
  | .setSlice => none
  | .delIdx i => (pyIdx xs.length i).map fun k => xs.eraseIdx k
  | .delKey k => (xs.findIdx? (fun y => c.key y == k)).map fun i => xs.eraseIdx i
  | .delSlice => none
  | .insert i x =>
      if c.okItem x = true ∧ ((pyInsert xs i x).map c.key).Nodup then some (pyInsert xs i x) else none
  | .append x =>
      if c.okItem x = true ∧ ((xs ++ [x]).map c.key).Nodup then some (xs ++ [x]) else none
  | .extend ys =>
      if (∀ y ∈ ys, c.okItem y = true) ∧ ((xs ++ ys).map c.key).Nodup then some (xs ++ ys) else none
  | .iadd ys =>
      if (∀ y ∈ ys, c.okItem y = true) ∧ ((xs ++ ys).map c.key).Nodup then some (xs ++ ys) else none
  | .pop i => (pyIdx xs.length (i.getD (-1))).map fun k => xs.eraseIdx k
  | .remove x => (xs.findIdx? (fun y => y == x)).map fun i => xs.eraseIdx i
  | .reverse => some xs.reverse
  | .clear => some []
  | .add ys => if ((xs ++ ys).map c.key).Nodup then some xs else none
  | .radd ys => if ((ys ++ xs).map c.key).Nodup then some xs else none
  | .index x => (xs.findIdx? (fun y => y == x)).map fun _ => xs
  | .indexForKey k => (xs.findIdx? (fun y => c.key y == k)).map fun _ => xs
  | .containsItem _ | .containsKey _ | .count _ | .get _ | .len | .iter | .keys | .items
  | .eqList _ => some xs

theorem nodup_insert_iff {c : Cfg α κ} {l : KL α κ} (h : Coh c l) (i : Int) (x : α) :
    ((pyInsert l.list i x).map c.key).Nodup ↔ ¬ ∃ y ∈ l.list, c.key y = c.key x := by
  rw [((perm_pyInsert l.list i x).map c.key).nodup_iff, List.map_cons, List.nodup_cons]
  constructor
  · rintro ⟨h1, _⟩ ⟨y, hy, hk⟩
    exact h1 (List.mem_map.2 ⟨y, hy, hk⟩)
  · intro h1
    refine ⟨?_, h.keysNodup⟩
    intro hm
    obtain ⟨y, hy, hk⟩ := List.mem_map.1 hm
    exact h1 ⟨y, hy, hk⟩

theorem nodup_set_iff {c : Cfg α κ} {l : KL α κ} (h : Coh c l) (k : Nat) (hk : k < l.list.length) (x : α) :
    ((l.list.set k x).map c.key).Nodup ↔
      ¬ ∃ j y, j ≠ k ∧ l.list[j]? = some y ∧ c.key y = c.key x := by
  have hnd := nodup_of_nodup_map_key c.key h.keysNodup
  rw [((perm_set_eraseIdx l.list k hk x).map c.key).nodup_iff, List.map_cons, List.nodup_cons]
  have hsub : ((l.list.eraseIdx k).map c.key).Nodup :=
    List.Nodup.sublist ((List.eraseIdx_sublist _ _).map c.key) h.keysNodup
  constructor
  · rintro ⟨h1, _⟩ ⟨j, y, hjk, hy, hyk⟩
    apply h1
    refine List.mem_map.2 ⟨y, ?_, hyk⟩
    rw [mem_eraseIdx_of_nodup l.list k hk hnd]
    refine ⟨List.mem_of_getElem? hy, ?_⟩
    intro hyo
    have hjlt : j < l.list.length := by
      rcases Nat.lt_or_ge j l.list.length with hh | hh
      · exact hh
      · simp [List.getElem?_eq_none hh] at hy
    have hyj : l.list[j] = y := by
      have : l.list[j]? = some l.list[j] := by simp [hjlt]
      rw [this] at hy; exact Option.some.inj hy
    exact hjk ((List.Nodup.getElem_inj_iff hnd).1 (hyj.trans hyo))
  · intro h1
    refine ⟨?_, hsub⟩
    intro hm
    obtain ⟨y, hy, hyk⟩ := List.mem_map.1 hm
    obtain ⟨hy1, hy2⟩ := (mem_eraseIdx_of_nodup l.list k hk hnd y).1 hy
    rcases List.getElem_of_mem hy1 with ⟨j, hj, rfl⟩
    apply h1
    refine ⟨j, l.list[j], ?_, by simp [hj], hyk⟩
    intro hjk; subst hjk; exact hy2 rfl

/-- **Refinement.** On a coherent container every operation does to the list exactly what
the plain-list specification `specStep` says: when the plain operation (with the
uniqueness and admissibility rule) succeeds, the KeyedList succeeds with that list; when it
raises, the KeyedList raises and is left exactly as it was. -/
theorem step_refines_list {c : Cfg α κ} {l : KL α κ} (h : Coh c l) (op : Op α κ) :
    match specStep c l.list op with
    | some xs' => (step c l op).1.list = xs' ∧ ∀ e, (step c l op).2 ≠ .err e
    | none => (step c l op).1 = l ∧ ∃ e, (step c l op).2 = .err e := by
  cases op with
  | getIdx i =>
    simp only [specStep, step, getIdx]
    cases hk : pyIdx l.list.length i with
    | none => simp
    | some k => simp [List.getElem?_eq_getElem (pyIdx_lt hk)]
  | getKey k =>
    simp only [specStep, step, getKey, getKey_is_scan h]
    cases l.list.find? (fun x => c.key x == k) <;> simp
  | getSlice a b =>
    obtain ⟨r, hr, _⟩ := getSlice_refines h a b
    simp [specStep, step, hr]
  | setIdx i x =>
    simp only [specStep, step]
    rw [setIdx_refines h]
    cases hk : pyIdx l.list.length i with
    | none => simp
    | some k =>
      have hns : ((List.map c.key l.list).set k (c.key x)).Nodup ↔
          ¬ ∃ j y, j ≠ k ∧ l.list[j]? = some y ∧ c.key y = c.key x := by
        rw [← List.map_set]; exact nodup_set_iff h k (pyIdx_lt hk) x
      simp only [Option.bind_some]
      by_cases hok : c.okItem x = true
      · by_cases hd : ∃ j y, j ≠ k ∧ l.list[j]? = some y ∧ c.key y = c.key x
        · rw [if_neg (by rintro ⟨_, hn⟩; exact ((nodup_set_iff h k (pyIdx_lt hk) x).1 hn) hd)]
          simp only [hok, Bool.true_eq_false, if_false, if_pos hd]
          simp
        · rw [if_pos ⟨hok, (nodup_set_iff h k (pyIdx_lt hk) x).2 hd⟩]
          simp only [hok, Bool.true_eq_false, if_false, if_neg hd]
          simp
      · simp only [Bool.not_eq_true] at hok; simp [hok]
  | setKey k x =>
    simp only [specStep, step, setKey]
    rw [indexForKey_is_scan h]
    cases hf : l.list.findIdx? (fun y => c.key y == k) with
    | none => simp
    | some i =>
      have hlt : i < l.list.length := by
        obtain ⟨y, hy, _⟩ := (findIdx?_key_eq_some_iff c.key h.keysNodup k i).1 hf
        rcases Nat.lt_or_ge i l.list.length with hh | hh
        · exact hh
        · simp [List.getElem?_eq_none hh] at hy
      have hk : pyIdx l.list.length (Int.ofNat i) = some i := by
        unfold pyIdx; simp [hlt]
      have hk' : pyIdx l.list.length ((i : Nat) : Int) = some i := hk
      simp only [Option.bind_some]
      rw [setIdx_refines h, hk]
      have hns : ((List.map c.key l.list).set i (c.key x)).Nodup ↔
          ¬ ∃ j y, j ≠ i ∧ l.list[j]? = some y ∧ c.key y = c.key x := by
        rw [← List.map_set]; exact nodup_set_iff h i hlt x
      by_cases hok : c.okItem x = true
      · by_cases hd : ∃ j y, j ≠ i ∧ l.list[j]? = some y ∧ c.key y = c.key x
        · rw [if_neg (by rintro ⟨_, hn⟩; exact ((nodup_set_iff h i hlt x).1 hn) hd)]
          simp only [hok, Bool.true_eq_false, if_false, if_pos hd]
          simp
        · rw [if_pos ⟨hok, (nodup_set_iff h i hlt x).2 hd⟩]
          simp only [hok, Bool.true_eq_false, if_false, if_neg hd]
          simp
      · simp only [Bool.not_eq_true] at hok; simp [hok]
  | setSlice => simp [specStep, step]
  | delIdx i =>
    simp only [specStep, step, delIdx]
    cases hk : pyIdx l.list.length i with
    | none => simp
    | some k => simp [List.getElem?_eq_getElem (pyIdx_lt hk)]
  | delKey k =>
    simp only [specStep, step]
    rw [delKey_refines h]
    cases hf : l.list.findIdx? (fun y => c.key y == k) with
    | none => simp
    | some i =>
      have hlt : i < l.list.length := by
        obtain ⟨y, hy, _⟩ := (findIdx?_key_eq_some_iff c.key h.keysNodup k i).1 hf
        rcases Nat.lt_or_ge i l.list.length with hh | hh
        · exact hh
        · simp [List.getElem?_eq_none hh] at hy
      have hk : pyIdx l.list.length (Int.ofNat i) = some i := by
        unfold pyIdx; simp [hlt]
      have hk' : pyIdx l.list.length ((i : Nat) : Int) = some i := hk
      simp [delIdx, hk', List.getElem?_eq_getElem hlt]
  | delSlice => simp [specStep, step]
  | insert i x =>
    simp only [specStep, step]
    rw [insert_refines h]
    by_cases hok : c.okItem x = true
    · by_cases hd : ∃ y ∈ l.list, c.key y = c.key x
      · rw [if_neg (by rintro ⟨_, hn⟩; exact ((nodup_insert_iff h i x).1 hn) hd)]
        simp only [hok, Bool.true_eq_false, if_false, if_pos hd]
        simp
      · rw [if_pos ⟨hok, (nodup_insert_iff h i x).2 hd⟩]
        simp only [hok, Bool.true_eq_false, if_false, if_neg hd]
        simp
    · simp only [Bool.not_eq_true] at hok; simp [hok]
  | append x =>
    simp only [specStep, step, append]
    rw [insert_refines h]
    by_cases hok : c.okItem x = true
    · by_cases hd : ∃ y ∈ l.list, c.key y = c.key x
      · rw [if_neg (by
          rintro ⟨_, hn⟩
          rw [← pyInsert_length] at hn
          exact ((nodup_insert_iff h _ x).1 hn) hd)]
        simp only [hok, Bool.true_eq_false, if_false, if_pos hd]
        simp
      · rw [if_pos ⟨hok, by rw [← pyInsert_length]; exact (nodup_insert_iff h _ x).2 hd⟩]
        simp only [hok, Bool.true_eq_false, if_false, if_neg hd]
        exact ⟨pyInsert_length _ _, fun e he => by cases he⟩
    · simp only [Bool.not_eq_true] at hok; simp [hok]
  | extend ys =>
    simp only [specStep, step]
    cases he : extend c l ys with
    | ok l' =>
      obtain ⟨h1, h2, rfl⟩ := (extend_refines h ys l').1 he
      rw [if_pos ⟨h1, h2⟩]
      simp
    | error e =>
      have : ¬ ((∀ y ∈ ys, c.okItem y = true) ∧ ((l.list ++ ys).map c.key).Nodup) := by
        rintro ⟨h1, h2⟩
        have := (extend_refines h ys ⟨l.list ++ ys, l.dict ++ ys.map (fun x => (c.key x, x))⟩).2 ⟨h1, h2, rfl⟩
        rw [he] at this; cases this
      rw [if_neg this]
      simp
  | iadd ys =>
    simp only [specStep, step]
    cases he : extend c l ys with
    | ok l' =>
      obtain ⟨h1, h2, rfl⟩ := (extend_refines h ys l').1 he
      rw [if_pos ⟨h1, h2⟩]
      simp
    | error e =>
      have : ¬ ((∀ y ∈ ys, c.okItem y = true) ∧ ((l.list ++ ys).map c.key).Nodup) := by
        rintro ⟨h1, h2⟩
        have := (extend_refines h ys ⟨l.list ++ ys, l.dict ++ ys.map (fun x => (c.key x, x))⟩).2 ⟨h1, h2, rfl⟩
        rw [he] at this; cases this
      rw [if_neg this]
      simp
  | pop i =>
    simp only [specStep, step]
    rw [pop_refines]
    cases hk : pyIdx l.list.length (i.getD (-1)) with
    | none => simp
    | some k => simp [List.getElem?_eq_getElem (pyIdx_lt hk)]
  | remove x =>
    simp only [specStep, step, remove, indexOf]
    cases hf : l.list.findIdx? (fun y => y == x) with
    | none => simp
    | some i =>
      have hlt : i < l.list.length := by
        have := List.findIdx?_eq_some_iff_getElem.1 hf
        exact this.1
      have hk : pyIdx l.list.length (Int.ofNat i) = some i := by
        unfold pyIdx; simp [hlt]
      have hk' : pyIdx l.list.length ((i : Nat) : Int) = some i := hk
      simp [delIdx, hk', List.getElem?_eq_getElem hlt]
  | reverse => simp [specStep, step, reverse]
  | clear => simp [specStep, step, clear_list]
  | add ys =>
    simp only [specStep, step]
    obtain ⟨_, h2, h3⟩ := add_refines (c := c) (l := l) ys
    by_cases hnd : ((l.list ++ ys).map c.key).Nodup
    · obtain ⟨r, hr⟩ := h2 hnd
      rw [if_pos hnd, hr]
      simp
    · rw [if_neg hnd]
      cases hr : add c l ys with
      | ok r => exact absurd (h3 ⟨r, hr⟩) hnd
      | error e => simp
  | radd ys =>
    simp only [specStep, step, radd]
    have he : Coh { c with okItem := fun _ => true } (KL.empty : KL α κ) := coh_empty _
    by_cases hnd : ((ys ++ l.list).map c.key).Nodup
    · obtain ⟨r, hr⟩ := ofList_complete (c := { c with okItem := fun _ => true }) (ys ++ l.list) he
        (fun _ _ => rfl) (by simpa [KL.empty] using hnd)
      rw [if_pos hnd, hr]
      simp
    · rw [if_neg hnd]
      cases hr : ofList { c with okItem := fun _ => true } (ys ++ l.list) KL.empty with
      | ok r =>
        have := (ofList_refines _ r he hr).2.2
        exact absurd (by simpa [KL.empty] using this) hnd
      | error e => simp
  | index x =>
    simp only [specStep, step, indexOf]
    cases l.list.findIdx? (fun y => y == x) <;> simp
  | indexForKey k =>
    simp only [specStep, step]
    rw [indexForKey_is_scan h]
    cases l.list.findIdx? (fun y => c.key y == k) <;> simp
  | containsItem x => simp [specStep, step]
  | containsKey k => simp [specStep, step]
  | count x => simp [specStep, step]
  | get k => simp [specStep, step]
  | len => simp [specStep, step]
  | iter => simp [specStep, step]
  | keys => simp [specStep, step]
  | items => simp [specStep, step]
  | eqList xs => simp [specStep, step]

/-- Lifted to operation sequences of any length: running the KeyedList and running the
plain-list specification from the same list keep the same list. -/
def specRun (c : Cfg α κ) : List α → List (Op α κ) → List α
  | xs, [] => xs
  | xs, op :: ops => specRun c ((specStep c xs op).getD xs) ops

theorem run_refines_list {c : Cfg α κ} : ∀ (ops : List (Op α κ)) {l : KL α κ}, Coh c l →
    (run c l ops).1.list = specRun c l.list ops
  | [], _, _ => rfl
  | op :: ops, l, h => by
    simp only [run, specRun]
    have hs := step_refines_list h op
    have hc := coh_step h op
    rw [run_refines_list ops hc]
    cases hsp : specStep c l.list op with
    | none => rw [hsp] at hs; simp [hs.1]
    | some xs' => rw [hsp] at hs; simp [hs.1]

/-! ## non-vacuity: a concrete coherent container and a failing/succeeding operation -/

private def exCfg : Cfg (Nat × Nat) Nat := { key := (·.1), okItem := fun _ => true, asKey := fun _ => none }
private def exKL : KL (Nat × Nat) Nat := ⟨[(1, 10), (2, 20)], [(1, (1, 10)), (2, (2, 20))]⟩

example : Coh exCfg exKL := by
  refine ⟨by decide, ?_, by decide, by intro x _; rfl⟩
  intro k x
  constructor
  · intro h
    simp [exKL] at h
    rcases h with ⟨rfl, rfl⟩ | ⟨rfl, rfl⟩ <;> simp [exKL, exCfg]
  · rintro ⟨h, rfl⟩
    simp [exKL] at h
    rcases h with rfl | rfl <;> simp [exKL, exCfg]
example : (step exCfg exKL (.setIdx (-1) (1, 99))).2 = .err .valueError := by rfl
example : (step exCfg exKL (.setIdx (-1) (2, 99))).1.list = [(1, 10), (2, 99)] := by rfl
example : (step exCfg exKL (.extend [(3, 0), (1, 0)])).1 = exKL := by rfl
example : specStep exCfg exKL.list (.setIdx (-1) (1, 99)) = none := by decide


/-! ## item equality that is not identity -/

/-- The operations whose result depends on item equality (`==`). -/
def eqOp : Op α κ → Bool
  | .remove _ | .index _ | .count _ | .containsItem _ | .eqList _ => true
  | _ => false

/-- Every other operation, in particular everything by key, is the `step` of the
identity-equality model whatever `==` is. -/
theorem stepE_of_not_eqOp (c : Cfg α κ) (eqv : α → α → Bool) (l : KL α κ) (op : Op α κ)
    (h : eqOp op = false) : stepE c eqv l op = step c l op := by
  cases op <;> first | rfl | (simp [eqOp] at h)

/-- **By-key access never consults item equality**: two item-equality relations give the
same result and the same state for every operation outside `remove/index/count/in/==`. -/
theorem byKey_ignores_item_equality (c : Cfg α κ) (eqv eqv' : α → α → Bool) (l : KL α κ)
    (op : Op α κ) (h : eqOp op = false) : stepE c eqv l op = stepE c eqv' l op := by
  rw [stepE_of_not_eqOp c eqv l op h, stepE_of_not_eqOp c eqv' l op h]

/-- With identity as item equality `stepE` is `step` (the theorems above this section are
the special case). -/
theorem stepE_structural (c : Cfg α κ) (l : KL α κ) (op : Op α κ) :
    stepE c (fun a b => a == b) l op = step c l op := by
  cases op <;> try rfl
  case containsItem x =>
    simp only [stepE, step, containsItemE, containsItem]
    have : (fun y => y == x) = (fun y => x == y) := by
      funext y; exact Bool.beq_comm
    rw [List.contains_eq_any_beq, this]
  case eqList xs => simp [stepE, step, listEqv_beq]

/-- `index(x)` returns the first position whose item is `==` to `x`. -/
theorem index_is_first_equal (eqv : α → α → Bool) (l : KL α κ) (x : α) (i : Nat) :
    indexOfE eqv l x = .ok i ↔
      ∃ h : i < l.list.length, eqv l.list[i] x = true ∧
        ∀ j (hj : j < i), eqv (l.list[j]'(Nat.lt_trans hj h)) x = false := by
  unfold indexOfE
  cases hf : l.list.findIdx? (fun y => eqv y x) with
  | none =>
    simp only [reduceCtorEq, false_iff]
    rintro ⟨h, he, _⟩
    have := List.findIdx?_eq_none_iff.1 hf l.list[i] (List.getElem_mem _)
    simp [he] at this
  | some k =>
    simp only [Except.ok.injEq]
    rw [List.findIdx?_eq_some_iff_getElem] at hf
    obtain ⟨hk, hke, hkj⟩ := hf
    constructor
    · rintro rfl
      exact ⟨hk, hke, fun j hj => by simpa using hkj j hj⟩
    · rintro ⟨h, he, hj⟩
      rcases Nat.lt_trichotomy k i with hlt | heq | hgt
      · have := hj k hlt; simp [hke] at this
      · exact heq
      · have := hkj i hgt; simp [he] at this

/-- `index(x)` raises ValueError exactly when no listed item is `==` to `x`. -/
theorem index_error_iff (eqv : α → α → Bool) (l : KL α κ) (x : α) :
    indexOfE eqv l x = .error .valueError ↔ ∀ y ∈ l.list, eqv y x = false := by
  unfold indexOfE
  cases hf : l.list.findIdx? (fun y => eqv y x) with
  | none => simpa using List.findIdx?_eq_none_iff.1 hf
  | some k =>
    simp only [reduceCtorEq, false_iff]
    intro hall
    rw [List.findIdx?_eq_some_iff_getElem] at hf
    obtain ⟨hk, hke, _⟩ := hf
    have := hall _ (List.getElem_mem hk)
    simp [hke] at this

/-- `remove(x)` deletes the first item that is `==` to `x` and drops the key **of that
item** from the index — also when `x` itself has a different key. -/
theorem remove_refines (c : Cfg α κ) (eqv : α → α → Bool) (l : KL α κ) (x : α) :
    removeE c eqv l x =
      match l.list.findIdx? (fun y => eqv y x) with
      | none => .error .valueError
      | some i => match l.list[i]? with
        | none => .error .indexError
        | some y => .ok ⟨l.list.eraseIdx i, dictDel l.dict (c.key y)⟩ := by
  unfold removeE indexOfE
  cases hf : l.list.findIdx? (fun y => eqv y x) with
  | none => rfl
  | some i =>
    have hlt : i < l.list.length := (List.findIdx?_eq_some_iff_getElem.1 hf).1
    have hk : pyIdx l.list.length ((i : Nat) : Int) = some i := by
      unfold pyIdx; simp [hlt]
    simp [delIdx, hk, List.getElem?_eq_getElem hlt]

theorem coh_removeE {c : Cfg α κ} {eqv : α → α → Bool} {l l' : KL α κ} (h : Coh c l) (x : α)
    (hr : removeE c eqv l x = .ok l') : Coh c l' := by
  unfold removeE at hr
  split at hr
  · cases hr
  · exact coh_delIdx h _ hr

/-- `x in l`: the key-index test (when the item can serve as a key) or some listed item `==` x. -/
theorem containsItem_iff (c : Cfg α κ) (eqv : α → α → Bool) (l : KL α κ) (x : α) :
    containsItemE c eqv l x = true ↔
      (∃ k, c.asKey x = some k ∧ hasKey l.dict k = true) ∨ ∃ y ∈ l.list, eqv y x = true := by
  unfold containsItemE
  cases c.asKey x <;> simp

/-- Coherence is preserved whatever item equality is (no assumption on `eqv` at all). -/
theorem coh_stepE {c : Cfg α κ} (eqv : α → α → Bool) {l : KL α κ} (h : Coh c l) (op : Op α κ) :
    Coh c (stepE c eqv l op).1 := by
  by_cases ho : eqOp op = false
  · rw [stepE_of_not_eqOp c eqv l op ho]; exact coh_step h op
  · cases op <;> simp [eqOp] at ho <;> simp only [stepE] <;> try exact h
    case remove x => split <;> [exact coh_removeE h _ ‹_›; exact h]

theorem coh_runE {c : Cfg α κ} (eqv : α → α → Bool) : ∀ (ops : List (Op α κ)) {l : KL α κ},
    Coh c l → Coh c (runE c eqv l ops).1
  | [], _, h => h
  | op :: ops, l, h => by
    simp only [runE]
    exact coh_runE eqv ops (coh_stepE eqv h op)

theorem stepE_atomic (c : Cfg α κ) (eqv : α → α → Bool) (l : KL α κ) (op : Op α κ) (e : Err)
    (he : (stepE c eqv l op).2 = .err e) : (stepE c eqv l op).1 = l := by
  by_cases ho : eqOp op = false
  · rw [stepE_of_not_eqOp c eqv l op ho] at he ⊢; exact step_atomic c l op e he
  · cases op <;> simp [eqOp] at ho <;> (simp only [stepE] at he ⊢; try rfl)
    all_goals first | cases he | (split at he <;> first | rfl | cases he)

/-- SPEC with item equality `eqv`: what a plain Python list does. -/
def specStepE (c : Cfg α κ) (eqv : α → α → Bool) (xs : List α) : Op α κ → Option (List α)
  | .remove x => (xs.findIdx? (fun y => eqv y x)).map fun i => xs.eraseIdx i
  | .index x => (xs.findIdx? (fun y => eqv y x)).map fun _ => xs
  | op => specStep c xs op

theorem specStepE_of_not_eqOp (c : Cfg α κ) (eqv : α → α → Bool) (xs : List α) (op : Op α κ)
    (h : eqOp op = false) : specStepE c eqv xs op = specStep c xs op := by
  cases op <;> first | rfl | (simp [eqOp] at h)

/-- **Refinement with arbitrary item equality.** -/
theorem stepE_refines_list {c : Cfg α κ} (eqv : α → α → Bool) {l : KL α κ} (h : Coh c l)
    (op : Op α κ) :
    match specStepE c eqv l.list op with
    | some xs' => (stepE c eqv l op).1.list = xs' ∧ ∀ e, (stepE c eqv l op).2 ≠ .err e
    | none => (stepE c eqv l op).1 = l ∧ ∃ e, (stepE c eqv l op).2 = .err e := by
  by_cases ho : eqOp op = false
  · rw [stepE_of_not_eqOp c eqv l op ho, specStepE_of_not_eqOp c eqv l.list op ho]
    exact step_refines_list h op
  · cases op <;> simp [eqOp] at ho
    case remove x =>
      simp only [specStepE, stepE]
      rw [remove_refines]
      cases hf : l.list.findIdx? (fun y => eqv y x) with
      | none => simp
      | some i =>
        have hlt : i < l.list.length := (List.findIdx?_eq_some_iff_getElem.1 hf).1
        simp [List.getElem?_eq_getElem hlt]
    case index x =>
      simp only [specStepE, stepE, indexOfE]
      cases l.list.findIdx? (fun y => eqv y x) <;> simp
    case count x => simp [specStepE, specStep, stepE]
    case containsItem x => simp [specStepE, specStep, stepE]
    case eqList xs => simp [specStepE, specStep, stepE]

def specRunE (c : Cfg α κ) (eqv : α → α → Bool) : List α → List (Op α κ) → List α
  | xs, [] => xs
  | xs, op :: ops => specRunE c eqv ((specStepE c eqv xs op).getD xs) ops

theorem runE_refines_list {c : Cfg α κ} (eqv : α → α → Bool) : ∀ (ops : List (Op α κ)) {l : KL α κ},
    Coh c l → (runE c eqv l ops).1.list = specRunE c eqv l.list ops
  | [], _, _ => rfl
  | op :: ops, l, h => by
    simp only [runE, specRunE]
    have hs := stepE_refines_list eqv h op
    have hc := coh_stepE eqv h op
    rw [runE_refines_list eqv ops hc]
    cases hsp : specStepE c eqv l.list op with
    | none => rw [hsp] at hs; simp [hs.1]
    | some xs' => rw [hsp] at hs; simp [hs.1]

/-- Locating the item stored under a key by item equality (`self._list.index(self._dict[k])`)
is the scan by key **only if** `==` is reflexive and equal listed items have equal keys. -/
theorem locate_by_equality_sound {c : Cfg α κ} {eqv : α → α → Bool} {l : KL α κ} (h : Coh c l)
    (hrefl : ∀ x ∈ l.list, eqv x x = true)
    (hresp : ∀ x ∈ l.list, ∀ y ∈ l.list, eqv y x = true → c.key y = c.key x)
    (k : κ) (x : α) (hx : dictGet l.dict k = some x) :
    indexOfE eqv l x = indexForKey c l k := by
  have hmem := (h.dictIff k x).1 ((dictGet_eq_some_iff _ h.dictNodup k x).1 hx)
  obtain ⟨hxl, hxk⟩ := hmem
  have hcongr : l.list.findIdx? (fun y => eqv y x) = l.list.findIdx? (fun y => c.key y == k) := by
    apply findIdx?_congr_mem
    intro y hy
    by_cases he : eqv y x = true
    · have := hresp x hxl y hy he
      simp [he, this, hxk]
    · by_cases hk : c.key y = k
      · have : y = x := eq_of_key_eq c.key h.keysNodup hy hxl (hk.trans hxk.symm)
        subst this
        exact absurd (hrefl y hy) he
      · simp only [Bool.not_eq_true] at he
        simp [he, hk]
  rw [indexForKey_is_scan h, indexOfE, hcongr]
  cases hf : l.list.findIdx? (fun y => c.key y == k) with
  | some i => rfl
  | none =>
    have := List.findIdx?_eq_none_iff.1 hf x hxl
    simp [hxk] at this

/-! non-vacuity / necessity of the hypothesis: items equal on the payload, keyed by the first
component -/
private def exCfgE : Cfg (Nat × Nat) Nat := { key := (·.1), okItem := fun _ => true, asKey := fun _ => none }
private def exEqv : Nat × Nat → Nat × Nat → Bool := fun a b => a.2 == b.2
private def exKLE : KL (Nat × Nat) Nat := ⟨[(1, 5), (2, 5), (3, 7)], [(1, (1, 5)), (2, (2, 5)), (3, (3, 7))]⟩

/-- without "equal items have equal keys" the two ways of locating differ -/
example : indexOfE exEqv exKLE (2, 5) = .ok 0 ∧ indexForKey exCfgE exKLE 2 = .ok 1 := by decide
example : (stepE exCfgE exEqv exKLE (.delKey 2)).1.list = [(1, 5), (3, 7)] := by decide
example : (stepE exCfgE exEqv exKLE (.remove (9, 5))).1 = ⟨[(2, 5), (3, 7)], [(2, (2, 5)), (3, (3, 7))]⟩ := by rfl
example : (stepE exCfgE exEqv exKLE (.count (0, 5))).2 = .nat 2 := by rfl

/-! # Two containers at once: a KeyedList as the operand of another one (`Model/C13Pair.lean`) -/

/-! ## the constructor -/

/-- On an unparameterised configuration, `ofList` (successive inserts) is: ValueError iff the keys
collide, else the items in order with the index in the same order. -/
theorem ofList_untyped {c : Cfg α κ} (hc : ∀ x, c.okItem x = true) : ∀ (xs : List α) {l : KL α κ}, Coh c l →
    ofList c xs l =
      if ((l.list ++ xs).map c.key).Nodup
      then .ok ⟨l.list ++ xs, l.dict ++ xs.map (fun x => (c.key x, x))⟩
      else .error .valueError
  | [], l, h => by
    simp [ofList, h.keysNodup]
  | x :: xs, l, h => by
    simp only [ofList]
    rw [insert_refines h]
    by_cases hdup : ∃ y ∈ l.list, c.key y = c.key x
    · have hnd : ¬ ((l.list ++ x :: xs).map c.key).Nodup := by
        obtain ⟨y, hy, hk⟩ := hdup
        rw [List.map_append, List.nodup_append]
        rintro ⟨_, _, h3⟩
        exact h3 _ (List.mem_map.2 ⟨y, hy, rfl⟩) _ (List.mem_map.2 ⟨x, by simp, rfl⟩) hk
      rw [if_neg hnd]
      simp [hc x, hdup]
    · have hi : insertAt c l (Int.ofNat l.list.length) x =
          .ok ⟨pyInsert l.list (Int.ofNat l.list.length) x, dictAdd l.dict (c.key x) x⟩ := by
        rw [insert_refines h]; simp [hc x, hdup]
      have hcoh := coh_insert h _ _ hi
      simp only [hc x, hdup, Bool.true_eq_false, if_false]
      rw [ofList_untyped hc xs hcoh]
      simp only [pyInsert_length, dictAdd, List.append_assoc, List.singleton_append, List.map_cons]

/-- **`KeyedList[T, K](xs, key=…)`**: ValueError iff two items share a key (wherever they are),
else TypeError iff some item is inadmissible, else the items in order, indexed in order. -/
theorem construct_refines (c : Cfg α κ) (xs : List α) :
    construct c xs =
      if ¬ (xs.map c.key).Nodup then .error .valueError
      else if xs.all c.okItem = false then .error .typeError
      else .ok ⟨xs, xs.map (fun x => (c.key x, x))⟩ := by
  unfold construct
  have h0 : Coh { c with okItem := fun _ => true } (KL.empty : KL α κ) := coh_empty _
  rw [ofList_untyped (c := { c with okItem := fun _ => true }) (fun _ => rfl) xs h0]
  simp only [KL.empty, List.nil_append]
  by_cases hnd : (xs.map c.key).Nodup
  · by_cases hall : xs.all c.okItem = true
    · simp [hnd, hall]
    · simp only [Bool.not_eq_true] at hall
      simp [hnd, hall]
  · simp [hnd]

/-- A constructed container is coherent (for its own configuration, type parameters included). -/
theorem coh_construct {c : Cfg α κ} {xs : List α} {l : KL α κ} (h : construct c xs = .ok l) : Coh c l := by
  unfold construct at h
  split at h
  · cases h
  · rename_i l' hl
    have hc := coh_ofList (c := { c with okItem := fun _ => true }) xs (coh_empty _) hl
    split at h
    · rename_i hall
      cases h
      exact ⟨hc.keysNodup, hc.dictIff, hc.dictNodup, fun x hx => List.all_eq_true.1 hall x hx⟩
    · cases h

/-! ## the two-container machine -/

/-- Both containers coherent, each for ITS OWN configuration (key function, type parameters). -/
def CohP (c : Cfg2 α κ) (p : Pair α κ) : Prop := ∀ s, Coh (c.get s) (p.get s)

theorem Pair.get_set_same (p : Pair α κ) (s : Side) (l : KL α κ) : (p.set s l).get s = l := by
  cases s <;> rfl

theorem Pair.get_set_flip (p : Pair α κ) (s : Side) (l : KL α κ) : (p.set s l).get s.flip = p.get s.flip := by
  cases s <;> rfl

theorem Pair.set_get (p : Pair α κ) (s : Side) : p.set s (p.get s) = p := by
  cases s <;> rfl

theorem cohP_set {c : Cfg2 α κ} {p : Pair α κ} (h : CohP c p) (s : Side) {l : KL α κ}
    (hl : Coh (c.get s) l) : CohP c (p.set s l) := by
  intro t
  cases s <;> cases t <;> first | exact hl | exact h _

/-- **Coherence of both containers survives every operation**, cross operations included, whatever
the two key functions and type parameters are (they need not be related in any way). -/
theorem coh_stepP {c : Cfg2 α κ} (eqv : α → α → Bool) {p : Pair α κ} (h : CohP c p) (op : OpP α κ) :
    CohP c (stepP c eqv p op).1 := by
  cases op <;> simp only [stepP] <;> try exact h
  case on s op => exact cohP_set h s (coh_stepE eqv (h s) op)
  case extendFrom s => split <;> [exact cohP_set h s (coh_extend (h s) _ ‹_›); exact h]
  case iaddFrom s => split <;> [exact cohP_set h s (coh_extend (h s) _ ‹_›); exact h]
  case extendSelf s => split <;> [exact cohP_set h s (coh_extend (h s) _ ‹_›); exact h]
  case extendFromSlice s a b =>
    split
    · exact h
    · split <;> [exact cohP_set h s (coh_extend (h s) _ ‹_›); exact h]

/-- … and therefore every operation sequence of any length. -/
theorem coh_runP {c : Cfg2 α κ} (eqv : α → α → Bool) : ∀ (ops : List (OpP α κ)) {p : Pair α κ},
    CohP c p → CohP c (runP c eqv p ops).1
  | [], _, h => h
  | op :: ops, p, h => by
    simp only [runP]
    exact coh_runP eqv ops (coh_stepP eqv h op)

/-- An operation that reports an error leaves BOTH containers exactly as they were. -/
theorem stepP_atomic (c : Cfg2 α κ) (eqv : α → α → Bool) (p : Pair α κ) (op : OpP α κ) (e : Err)
    (he : (stepP c eqv p op).2 = .out (.err e)) : (stepP c eqv p op).1 = p := by
  cases op <;> simp only [stepP] at he ⊢ <;> try rfl
  case on s op =>
    have : (stepE (c.get s) eqv (p.get s) op).2 = .err e := by
      injection he
    rw [stepE_atomic _ eqv _ op e this, Pair.set_get]
  case extendFrom s => split <;> [(split at he <;> simp_all); rfl]
  case iaddFrom s => split <;> [(split at he <;> simp_all); rfl]
  case extendSelf s => split <;> [(split at he <;> simp_all); rfl]
  case extendFromSlice s a b =>
    split
    · rfl
    · split <;> [(split at he <;> (try split at he) <;> simp_all); rfl]

/-- **Frame.** An operation changes at most its receiver: the operand — its list AND its key index —
is exactly as before (no shared storage, nothing moved out of it). -/
theorem stepP_frame (c : Cfg2 α κ) (eqv : α → α → Bool) (p : Pair α κ) (op : OpP α κ) :
    (stepP c eqv p op).1.get op.receiver.flip = p.get op.receiver.flip := by
  cases op <;> simp only [stepP, OpP.receiver] <;> try rfl
  case on s op => exact Pair.get_set_flip _ _ _
  case extendFrom s => split <;> [exact Pair.get_set_flip _ _ _; rfl]
  case iaddFrom s => split <;> [exact Pair.get_set_flip _ _ _; rfl]
  case extendSelf s => split <;> [exact Pair.get_set_flip _ _ _; rfl]
  case extendFromSlice s a b =>
    split
    · rfl
    · split <;> [exact Pair.get_set_flip _ _ _; rfl]

/-- **Handing over a KeyedList is handing over a plain list of its items.** Every cross operation
is the single-container operation `lower p op` (whose argument is the operand's `list`, nothing
else of the operand) on the receiver: same new state, same result. -/
theorem stepP_lower {c : Cfg2 α κ} (eqv : α → α → Bool) {p : Pair α κ} (h : CohP c p)
    (op : OpP α κ) (op' : Op α κ) (hl : lower p op = some op') :
    (stepP c eqv p op).1 = p.set op.receiver (stepE (c.get op.receiver) eqv (p.get op.receiver) op').1 ∧
    (stepP c eqv p op).2.flat = (stepE (c.get op.receiver) eqv (p.get op.receiver) op').2 := by
  cases op <;> simp only [lower, Option.some.injEq, reduceCtorEq] at hl <;> subst hl <;>
    simp only [stepP, OpP.receiver]
  case on s op => simp [OutP.flat]
  case extendFrom s =>
    cases hx : extend (c.get s) (p.get s) (p.get s.flip).list <;> simp [stepE, step, hx, Pair.set_get, OutP.flat]
  case iaddFrom s =>
    cases hx : extend (c.get s) (p.get s) (p.get s.flip).list <;> simp [stepE, step, hx, Pair.set_get, OutP.flat]
  case extendSelf s =>
    cases hx : extend (c.get s) (p.get s) (p.get s).list <;> simp [stepE, step, hx, Pair.set_get, OutP.flat]
  case extendFromSlice s a b =>
    obtain ⟨r, hr, hrl⟩ := getSlice_refines (h s.flip) a b
    rw [hr]
    simp only [hrl]
    cases hx : extend (c.get s) (p.get s) (pySlice (p.get s.flip).list a b) <;>
      simp [stepE, step, hx, Pair.set_get, OutP.flat]
  case addFrom s =>
    cases hx : add (c.get s) (p.get s) (p.get s.flip).list <;> simp [stepE, step, hx, Pair.set_get, OutP.flat]
  case raddFrom s =>
    cases hx : radd (c.get s) (p.get s) (p.get s.flip).list <;> simp [stepE, step, hx, Pair.set_get, OutP.flat]
  case eqFrom s => simp [stepE, Pair.set_get, OutP.flat]

/-- **Refinement for cross operations**: against the plain-list specification `specStepE` of the
lowered operation — when the plain operation (with the uniqueness rule under the RECEIVER's key
function and type parameters) succeeds, the receiver holds exactly that list; when it raises,
both containers are untouched and an error is reported. -/
theorem stepP_refines_list {c : Cfg2 α κ} (eqv : α → α → Bool) {p : Pair α κ} (h : CohP c p)
    (op : OpP α κ) (op' : Op α κ) (hl : lower p op = some op') :
    match specStepE (c.get op.receiver) eqv (p.get op.receiver).list op' with
    | some xs' => ((stepP c eqv p op).1.get op.receiver).list = xs' ∧ ∀ e, (stepP c eqv p op).2.flat ≠ .err e
    | none => (stepP c eqv p op).1 = p ∧ ∃ e, (stepP c eqv p op).2.flat = .err e := by
  obtain ⟨h1, h2⟩ := stepP_lower eqv h op op' hl
  have hs := stepE_refines_list eqv (h op.receiver) op'
  rw [h1, h2, Pair.get_set_same]
  cases hsp : specStepE (c.get op.receiver) eqv (p.get op.receiver).list op' with
  | some xs' => rw [hsp] at hs; exact hs
  | none => rw [hsp] at hs; exact ⟨by rw [hs.1, Pair.set_get], hs.2⟩

/-- **Nothing of the operand but its items, in order, reaches the receiver.** Replace the operand
by ANY other coherent container with the same `list` — another key function, other type
parameters, a key index in another order — and every operation run by the receiver gives the same
receiver state and the same result. -/
theorem stepP_ignores_operand_index {c c' : Cfg2 α κ} (eqv : α → α → Bool) {p p' : Pair α κ}
    (h : CohP c p) (h' : CohP c' p') (op : OpP α κ)
    (hc : c.get op.receiver = c'.get op.receiver) (hp : p.get op.receiver = p'.get op.receiver)
    (hl : (p.get op.receiver.flip).list = (p'.get op.receiver.flip).list) :
    (stepP c eqv p op).1.get op.receiver = (stepP c' eqv p' op).1.get op.receiver ∧
    (stepP c eqv p op).2 = (stepP c' eqv p' op).2 := by
  cases op <;> simp only [OpP.receiver] at hc hp hl <;> simp only [stepP, OpP.receiver, hc, hp, hl]
  case on s op => simp [Pair.get_set_same]
  case extendFrom s =>
    cases hx : extend (c'.get s) (p'.get s) (p'.get s.flip).list <;> simp [Pair.get_set_same, hp]
  case iaddFrom s =>
    cases hx : extend (c'.get s) (p'.get s) (p'.get s.flip).list <;> simp [Pair.get_set_same, hp]
  case extendSelf s =>
    cases hx : extend (c'.get s) (p'.get s) (p'.get s).list <;> simp [Pair.get_set_same, hp]
  case extendFromSlice s a b =>
    obtain ⟨r, hr, hrl⟩ := getSlice_refines (h s.flip) a b
    obtain ⟨r', hr', hrl'⟩ := getSlice_refines (h' s.flip) a b
    rw [hr, hr']
    simp only [hrl, hrl', hl]
    cases hx : extend (c'.get s) (p'.get s) (pySlice (p'.get s.flip).list a b) <;>
      simp [Pair.get_set_same, hp]
  case addFrom s => simp [hp]
  case raddFrom s => simp [hp]
  case eqFrom s => simp [hp]
  case ctorFrom s => simp [hp]

/-- `a.extend(b)` / `a += b` for two KeyedLists, spelled out: it succeeds exactly when every item
of `b` is admissible FOR `a` and the concatenation has unique keys UNDER `a`'s KEY FUNCTION; `a`
then lists `a ++ b` and indexes the new items under `a`'s keys. `b`'s key function, type parameters
and index do not occur. Otherwise it raises and nothing changes. -/
theorem extendFrom_refines {c : Cfg2 α κ} (eqv : α → α → Bool) {p : Pair α κ} (h : CohP c p) (s : Side) :
    ((∀ x ∈ (p.get s.flip).list, (c.get s).okItem x = true) ∧
      (((p.get s).list ++ (p.get s.flip).list).map (c.get s).key).Nodup →
      stepP c eqv p (.extendFrom s) =
        (p.set s ⟨(p.get s).list ++ (p.get s.flip).list,
                  (p.get s).dict ++ (p.get s.flip).list.map (fun x => ((c.get s).key x, x))⟩, .out .none)) ∧
    (¬ ((∀ x ∈ (p.get s.flip).list, (c.get s).okItem x = true) ∧
      (((p.get s).list ++ (p.get s.flip).list).map (c.get s).key).Nodup) →
      ∃ e, stepP c eqv p (.extendFrom s) = (p, .out (.err e))) := by
  simp only [stepP]
  constructor
  · rintro ⟨h1, h2⟩
    rw [(extend_refines (h s) _ _).2 ⟨h1, h2, rfl⟩]
  · intro hn
    cases hx : extend (c.get s) (p.get s) (p.get s.flip).list with
    | error e => exact ⟨e, rfl⟩
    | ok l' =>
      obtain ⟨h1, h2, _⟩ := (extend_refines (h s) _ _).1 hx
      exact absurd ⟨h1, h2⟩ hn

/-- `KeyedList[T, K](b, key=f)` from a KeyedList `b`: re-keyed with `f` and re-validated against
`[T, K]` from scratch; `b`'s own index and key function play no role. -/
theorem ctorFrom_refines (c : Cfg2 α κ) (eqv : α → α → Bool) (p : Pair α κ) (s : Side) :
    stepP c eqv p (.ctorFrom s) =
      (p, if ¬ ((p.get s.flip).list.map (c.get s).key).Nodup then .out (.err .valueError)
          else if (p.get s.flip).list.all (c.get s).okItem = false then .out (.err .typeError)
          else .kl ⟨(p.get s.flip).list, (p.get s.flip).list.map (fun x => ((c.get s).key x, x))⟩) := by
  simp only [stepP, construct_refines]
  by_cases h1 : ((p.get s.flip).list.map (c.get s).key).Nodup
  · by_cases h2 : (p.get s.flip).list.all (c.get s).okItem = false
    · simp [h1, h2]
    · simp [h1, h2]
  · simp [h1]

/-! ## new containers (`+`, slices) -/

/-- `newContainer` is the container whose items `step` returns. -/
theorem newContainer_step (c : Cfg α κ) (l : KL α κ) (op : Op α κ) (r : Except Err (KL α κ))
    (h : newContainer c l op = some r) :
    (step c l op).2 = match r with | .ok k => .items k.list | .error e => .err e := by
  cases op <;> simp only [newContainer, Option.some.injEq, reduceCtorEq] at h <;> simp only [step, h] <;>
    cases r <;> rfl

/-- A container built by `+` or a slice is coherent for the receiver's key function (it is
unparameterised: `type(self)(...)`). -/
theorem coh_newContainer (c : Cfg α κ) (l : KL α κ) (op : Op α κ) (k : KL α κ)
    (h : newContainer c l op = some (.ok k)) : Coh { c with okItem := fun _ => true } k := by
  cases op <;> simp only [newContainer, Option.some.injEq, reduceCtorEq] at h
  case add xs => exact coh_ofList _ (coh_empty _) h
  case radd xs => exact coh_ofList _ (coh_empty _) h
  case getSlice a b => exact coh_ofList _ (coh_empty _) h

/-! ## the shortcut that must not be taken -/

/-- Taking over the operand's key index instead of re-keying its items is sound when the two
containers share ONE configuration and the operand's index is in list order (true of a container
built by the constructor / `append` / `extend` only)… -/
theorem extendFast_sound {c : Cfg α κ} {l o : KL α κ} (hl : Coh c l) (ho : Coh c o)
    (hord : o.dict = o.list.map (fun x => (c.key x, x))) (l' : KL α κ) :
    extendFast l o = .ok l' ↔ extend c l o.list = .ok l' := by
  rw [extend_refines hl]
  unfold extendFast
  have hcol : o.dict.any (fun q => hasKey l.dict q.1) = true ↔ ¬ ((l.list ++ o.list).map c.key).Nodup := by
    rw [hord, List.any_map, List.any_eq_true, List.map_append, List.nodup_append]
    constructor
    · rintro ⟨x, hx, hk⟩ ⟨_, _, h3⟩
      obtain ⟨y, hy, hyk⟩ := (hasKey_iff_scan hl _).1 hk
      exact h3 _ (List.mem_map.2 ⟨y, hy, rfl⟩) _ (List.mem_map.2 ⟨x, hx, rfl⟩) hyk
    · intro hn
      by_contra hcon
      apply hn
      refine ⟨hl.keysNodup, ho.keysNodup, ?_⟩
      intro a ha b hb hab
      obtain ⟨y, hy, rfl⟩ := List.mem_map.1 ha
      obtain ⟨x, hx, rfl⟩ := List.mem_map.1 hb
      exact hcon ⟨x, hx, (hasKey_iff_scan hl _).2 ⟨y, hy, hab⟩⟩
  by_cases hc : o.dict.any (fun q => hasKey l.dict q.1) = true
  · have := hcol.1 hc
    rw [List.map_append] at this
    simp only [hc, if_true, reduceCtorEq, false_iff]
    rintro ⟨_, h2, _⟩
    exact this (by simpa using h2)
  · have hnd : ((l.list ++ o.list).map c.key).Nodup := by
      by_contra hn; exact hc (hcol.2 hn)
    simp only [hc, Bool.false_eq_true, if_false, Except.ok.injEq]
    constructor
    · intro he; exact ⟨ho.typed, hnd, by rw [← he, hord]⟩
    · rintro ⟨_, _, he⟩; rw [he, hord]

private def exCfgK : Cfg (Nat × Nat) Nat := { key := (·.1), okItem := fun _ => true, asKey := fun _ => none }
private def exCfgP : Cfg (Nat × Nat) Nat := { key := (·.2), okItem := fun _ => true, asKey := fun _ => none }
private def exByKey : KL (Nat × Nat) Nat := ⟨[(1, 10)], [(1, (1, 10))]⟩
private def exByPayload : KL (Nat × Nat) Nat := ⟨[(1, 5)], [(5, (1, 5))]⟩
private def exByPayload2 : KL (Nat × Nat) Nat := ⟨[(2, 1)], [(1, (2, 1))]⟩

private theorem coh_single (c : Cfg (Nat × Nat) Nat) (hc : ∀ x, c.okItem x = true) (x : Nat × Nat) :
    Coh c ⟨[x], [(c.key x, x)]⟩ := by
  refine ⟨by simp, ?_, by simp, fun y _ => hc y⟩
  intro k y
  simp only [List.mem_singleton, Prod.mk.injEq]
  constructor
  · rintro ⟨rfl, rfl⟩; exact ⟨rfl, rfl⟩
  · rintro ⟨rfl, rfl⟩; exact ⟨rfl, rfl⟩

/-- … and WRONG as soon as the operand is keyed by another key function, although both containers
are coherent: (1) the shortcut admits a second item with a key the receiver already holds (the
real `extend` raises ValueError) and leaves an incoherent container; (2) it refuses, on a clash of
FOREIGN keys, an extension that is perfectly fine. -/
theorem extendFast_unsound :
    Coh exCfgK exByKey ∧ Coh exCfgP exByPayload ∧ Coh exCfgP exByPayload2 ∧
    (∃ l', extendFast exByKey exByPayload = .ok l' ∧ ¬ Coh exCfgK l' ∧
      extend exCfgK exByKey exByPayload.list = .error .valueError) ∧
    (extendFast exByKey exByPayload2 = .error .valueError ∧
      ∃ l', extend exCfgK exByKey exByPayload2.list = .ok l') := by
  refine ⟨coh_single exCfgK (fun _ => rfl) (1, 10), coh_single exCfgP (fun _ => rfl) (1, 5),
    coh_single exCfgP (fun _ => rfl) (2, 1), ⟨_, rfl, ?_, rfl⟩, rfl, ⟨_, rfl⟩⟩
  intro hc
  exact absurd hc.keysNodup (by decide)

/-! non-vacuity of the two-container theorems: a coherent pair keyed differently, a cross operation
that succeeds and one that is refused -/
private def exPair : Pair (Nat × Nat) Nat := ⟨exByKey, exByPayload2⟩
private def exCfg2 : Cfg2 (Nat × Nat) Nat := ⟨exCfgK, exCfgP⟩

example : CohP exCfg2 exPair := by
  intro s
  cases s
  · exact coh_single exCfgK (fun _ => rfl) (1, 10)
  · exact coh_single exCfgP (fun _ => rfl) (2, 1)
example : (stepP exCfg2 (fun a b => a == b) exPair (.extendFrom .main)).1.main =
    ⟨[(1, 10), (2, 1)], [(1, (1, 10)), (2, (2, 1))]⟩ := by rfl
example : (stepP exCfg2 (fun a b => a == b) exPair (.extendFrom .main)).1.other = exByPayload2 := by rfl
example : (stepP exCfg2 (fun a b => a == b) ⟨exByKey, exByPayload⟩ (.extendFrom .main)).2 =
    .out (.err .valueError) := by rfl
example : lower exPair (.extendFrom .main) = some (.extend [(2, 1)]) := by rfl

/-! # Type parameters: `KeyedList[T, K]` (round 5)

`_validate_item` = `check_type(item, T)` and `check_type(key(item), K)` (`typedCfg`). The verdicts are
arbitrary predicates here (`Union`, `Optional`, `Literal`, `Dict[str, Any]`, `Tuple`, bounded types …: the
tie feeds in the verdict of an independent reference checker). What is proved: the verdict is consulted for the
incoming items and for nothing else; on admissible items a parameterised container IS the unparameterised one;
TypeError is raised only for an inadmissible incoming item, and always for one. -/

theorem typedCfg_okItem (key : α → κ) (okT : α → Bool) (okK : κ → Bool) (asKey : α → Option κ) (x : α) :
    (typedCfg key okT okK asKey).okItem x = true ↔ okT x = true ∧ okK (key x) = true := by
  simp [typedCfg]

theorem clear_go_okItem (c : Cfg α κ) (ok : α → Bool) : ∀ (n : Nat) (l : KL α κ),
    clear.go { c with okItem := ok } n l = clear.go c n l
  | 0, l => rfl
  | n + 1, l => by
    have hp : pop { c with okItem := ok } l (-1) = pop c l (-1) := rfl
    simp only [clear.go, hp]
    cases pop c l (-1) with
    | error e => rfl
    | ok r => exact clear_go_okItem c ok n r.2

theorem stage_okItem (c : Cfg α κ) (ok : α → Bool) (l : KL α κ) : ∀ (xs : List α) (st : List (κ × α)),
    (∀ x ∈ xs, ok x = c.okItem x) → stage { c with okItem := ok } l xs st = stage c l xs st
  | [], st, _ => rfl
  | x :: xs, st, h => by
    simp only [stage]
    rw [h x (by simp), stage_okItem c ok l xs _ (fun y hy => h y (by simp [hy]))]

/-- **The type check sees the incoming items only.** Replace the admissibility verdict by any other one that
agrees on the items the operation tries to put into the container: same new state, same result. (Stored items
are never re-judged; `+`, `radd`, slices, deletions, reads never consult the type parameters.) -/
theorem stepE_okItem_local (c : Cfg α κ) (ok : α → Bool) (eqv : α → α → Bool) (l : KL α κ) (op : Op α κ)
    (h : ∀ x ∈ op.incoming, ok x = c.okItem x) :
    stepE { c with okItem := ok } eqv l op = stepE c eqv l op := by
  cases op with
  | setIdx i x =>
    have hx := h x (by simp [Op.incoming])
    simp only [stepE, step, setIdx, hx]
  | setKey k x =>
    have hx := h x (by simp [Op.incoming])
    have hi : indexForKey { c with okItem := ok } l k = indexForKey c l k := rfl
    simp only [stepE, step, setKey, setIdx, hx, hi]
  | insert i x =>
    have hx := h x (by simp [Op.incoming])
    simp only [stepE, step, insertAt, validateNew, hx]
  | append x =>
    have hx := h x (by simp [Op.incoming])
    simp only [stepE, step, append, insertAt, validateNew, hx]
  | extend xs =>
    have hs := stage_okItem c ok l xs [] (fun x hx => h x (by simpa [Op.incoming] using hx))
    simp only [stepE, step, extend, hs]
  | iadd xs =>
    have hs := stage_okItem c ok l xs [] (fun x hx => h x (by simpa [Op.incoming] using hx))
    simp only [stepE, step, extend, hs]
  | clear => simp only [stepE, step, clear, clear_go_okItem]
  | _ => rfl

/-- **On admissible items a parameterised KeyedList is the unparameterised one**: if every incoming item passes
the type check, the operation does exactly what it does on `KeyedList(…)` without type parameters (for which
`step_refines_list` says: a plain list plus the uniqueness rule). -/
theorem valid_items_as_untyped (c : Cfg α κ) (eqv : α → α → Bool) (l : KL α κ) (op : Op α κ)
    (h : ∀ x ∈ op.incoming, c.okItem x = true) :
    stepE c eqv l op = stepE c.untyped eqv l op :=
  (stepE_okItem_local c (fun _ => true) eqv l op (fun x hx => (h x hx).symm)).symm

/-! no primitive raises TypeError unless the type check fails -/
section nte
variable (c : Cfg α κ) (l : KL α κ)
theorem getIdx_nte (i : Int) : getIdx l i ≠ .error .typeError := by
  unfold getIdx; (repeat' split) <;> simp
theorem getKey_nte (k : κ) : getKey l k ≠ .error .typeError := by
  unfold getKey; (repeat' split) <;> simp
theorem indexForKey_nte (k : κ) : indexForKey c l k ≠ .error .typeError := by
  unfold indexForKey; (repeat' split) <;> simp
theorem delIdx_nte (i : Int) : delIdx c l i ≠ .error .typeError := by
  unfold delIdx; (repeat' split) <;> simp
theorem delKey_nte (k : κ) : delKey c l k ≠ .error .typeError := by
  have := indexForKey_nte c l k
  unfold delKey; split
  · simp_all
  · exact delIdx_nte c l _
theorem setIdx_nte (hc : ∀ x, c.okItem x = true) (i : Int) (x : α) : setIdx c l i x ≠ .error .typeError := by
  unfold setIdx; (repeat' split) <;> simp_all
theorem setKey_nte (hc : ∀ x, c.okItem x = true) (k : κ) (x : α) : setKey c l k x ≠ .error .typeError := by
  have := indexForKey_nte c l k
  unfold setKey; split
  · simp_all
  · exact setIdx_nte c l hc _ _
theorem insertAt_nte (hc : ∀ x, c.okItem x = true) (i : Int) (x : α) : insertAt c l i x ≠ .error .typeError := by
  have hv : validateNew c l x ≠ .error .typeError := by
    unfold validateNew; simp only [hc x]; (repeat' split) <;> simp_all
  unfold insertAt; split <;> simp_all
theorem stage_nte (hc : ∀ x, c.okItem x = true) : ∀ (xs : List α) (st : List (κ × α)),
    stage c l xs st ≠ .error .typeError
  | [], st => by simp [stage]
  | x :: xs, st => by
    simp only [stage, hc x, Bool.not_true, Bool.false_eq_true, if_false]
    split
    · simp
    · exact stage_nte hc xs _
theorem extend_nte (hc : ∀ x, c.okItem x = true) (xs : List α) : extend c l xs ≠ .error .typeError := by
  have := stage_nte c l hc xs []
  unfold extend; split <;> simp_all
theorem pop_nte (i : Int) : pop c l i ≠ .error .typeError := by
  have h1 := getIdx_nte l i
  have h2 := delIdx_nte c l i
  unfold pop; (repeat' split) <;> simp_all
theorem indexOfE_nte (eqv : α → α → Bool) (x : α) : indexOfE eqv l x ≠ .error .typeError := by
  unfold indexOfE; (repeat' split) <;> simp
theorem removeE_nte (eqv : α → α → Bool) (x : α) : removeE c eqv l x ≠ .error .typeError := by
  have := indexOfE_nte l eqv x
  unfold removeE; split
  · simp_all
  · exact delIdx_nte c l _
end nte

/-- An unparameterised KeyedList never raises TypeError. -/
theorem untyped_never_typeError (c : Cfg α κ) (eqv : α → α → Bool) (l : KL α κ) (op : Op α κ) :
    (stepE c.untyped eqv l op).2 ≠ .err .typeError := by
  have hc : ∀ x, c.untyped.okItem x = true := fun _ => rfl
  have hof : ∀ xs : List α, ofList { c.untyped with okItem := fun _ => true } xs KL.empty ≠ .error .typeError := by
    intro xs
    rw [ofList_untyped (c := { c.untyped with okItem := fun _ => true }) (fun _ => rfl) xs (coh_empty _)]
    split <;> simp
  cases op with
  | getIdx i => have := getIdx_nte l i; simp only [stepE, step]; split <;> simp_all
  | getKey k => have := getKey_nte l k; simp only [stepE, step]; split <;> simp_all
  | getSlice a b => have := hof (pySlice l.list a b); simp only [stepE, step, getSlice]; split <;> simp_all
  | setIdx i x => have := setIdx_nte c.untyped l hc i x; simp only [stepE, step]; split <;> simp_all
  | setKey k x => have := setKey_nte c.untyped l hc k x; simp only [stepE, step]; split <;> simp_all
  | delIdx i => have := delIdx_nte c.untyped l i; simp only [stepE, step]; split <;> simp_all
  | delKey k => have := delKey_nte c.untyped l k; simp only [stepE, step]; split <;> simp_all
  | insert i x => have := insertAt_nte c.untyped l hc i x; simp only [stepE, step]; split <;> simp_all
  | append x => have := insertAt_nte c.untyped l hc (Int.ofNat l.list.length) x; simp only [stepE, step, append]; split <;> simp_all
  | extend xs => have := extend_nte c.untyped l hc xs; simp only [stepE, step]; split <;> simp_all
  | iadd xs => have := extend_nte c.untyped l hc xs; simp only [stepE, step]; split <;> simp_all
  | pop i => have := pop_nte c.untyped l (i.getD (-1)); simp only [stepE, step]; split <;> simp_all
  | remove x => have := removeE_nte c.untyped l eqv x; simp only [stepE]; split <;> simp_all
  | add xs => have := hof (l.list ++ xs); simp only [stepE, step, add]; split <;> simp_all
  | radd xs => have := hof (xs ++ l.list); simp only [stepE, step, radd]; split <;> simp_all
  | index x => have := indexOfE_nte l eqv x; simp only [stepE]; split <;> simp_all
  | indexForKey k => have := indexForKey_nte c.untyped l k; simp only [stepE, step]; split <;> simp_all
  | _ => simp [stepE, step]

/-- **TypeError is reserved for a wrong item / key type**: an operation that reports TypeError was handed an
item that fails the type check (so a valid item is never rejected with TypeError, whatever `T` and `K` are). -/
theorem typeError_only_for_wrong_type (c : Cfg α κ) (eqv : α → α → Bool) (l : KL α κ) (op : Op α κ)
    (h : (stepE c eqv l op).2 = .err .typeError) : ∃ x ∈ op.incoming, c.okItem x = false := by
  apply Classical.byContradiction
  intro hn
  have hall : ∀ x ∈ op.incoming, c.okItem x = true := by
    intro x hx
    cases hok : c.okItem x with
    | true => rfl
    | false => exact absurd ⟨x, hx, hok⟩ hn
  rw [valid_items_as_untyped c eqv l op hall] at h
  exact untyped_never_typeError c eqv l op h

/-- **…and a wrong type is always rejected, with nothing changed**: `insert`, `append` and (at a valid
position) `l[i] = x` of an inadmissible item report TypeError and leave list and index as they were — before
any duplicate-key test. -/
theorem wrong_type_rejected (c : Cfg α κ) (eqv : α → α → Bool) (l : KL α κ) (i : Int) (x : α)
    (hx : c.okItem x = false) :
    stepE c eqv l (.insert i x) = (l, .err .typeError) ∧
    stepE c eqv l (.append x) = (l, .err .typeError) ∧
    (∀ k, pyIdx l.list.length i = some k → k < l.list.length →
      stepE c eqv l (.setIdx i x) = (l, .err .typeError)) := by
  refine ⟨?_, ?_, ?_⟩
  · simp [stepE, step, insertAt, validateNew, hx]
  · simp [stepE, step, append, insertAt, validateNew, hx]
  · intro k hk hlt
    have : l.list[k]? = some l.list[k] := List.getElem?_eq_getElem hlt
    simp [stepE, step, setIdx, hk, this, hx]

/-- `extend` / `+=` with an inadmissible item among the incoming ones fails as a whole (TypeError, or ValueError
when a duplicate key comes first) and changes nothing. -/
theorem extend_wrong_type_rejected (c : Cfg α κ) (eqv : α → α → Bool) (l : KL α κ) (xs : List α)
    (hx : ∃ x ∈ xs, c.okItem x = false) :
    ∃ e, (e = .typeError ∨ e = .valueError) ∧ stepE c eqv l (.extend xs) = (l, .err e) ∧
      stepE c eqv l (.iadd xs) = (l, .err e) := by
  have hs : ∀ (xs : List α) (st : List (κ × α)), (∃ x ∈ xs, c.okItem x = false) →
      ∃ e, (e = .typeError ∨ e = .valueError) ∧ stage c l xs st = .error e := by
    intro xs
    induction xs with
    | nil => intro st h; simp at h
    | cons y ys ih =>
      intro st h
      simp only [stage]
      cases hy : c.okItem y with
      | false => exact ⟨.typeError, .inl rfl, by simp⟩
      | true =>
        simp only [Bool.not_true, Bool.false_eq_true, if_false]
        split
        · exact ⟨.valueError, .inr rfl, rfl⟩
        · apply ih
          obtain ⟨x, hxm, hxo⟩ := h
          rcases List.mem_cons.1 hxm with rfl | hm
          · simp [hy] at hxo
          · exact ⟨x, hm, hxo⟩
  obtain ⟨e, he, hst⟩ := hs xs [] hx
  exact ⟨e, he, by simp [stepE, step, extend, hst], by simp [stepE, step, extend, hst]⟩

/-! non-vacuity: `KeyedList[Optional[Union[int, str]], …]` in miniature — items `(key, kind)`, kind 0 an int,
1 a str, 2 a float; `T` admits kinds 0 and 1, `K` admits keys below 10 -/
def exTyped : Cfg (Nat × Nat) Nat := typedCfg (·.1) (fun x => x.2 == 0 || x.2 == 1) (fun k => k < 10) (fun _ => none)
example : (stepE exTyped (· == ·) ⟨[(1, 0)], [(1, (1, 0))]⟩ (.append (2, 1))).1.list = [(1, 0), (2, 1)] := by rfl
example : (stepE exTyped (· == ·) ⟨[(1, 0)], [(1, (1, 0))]⟩ (.append (2, 2))).2 = .err .typeError := by rfl
example : (stepE exTyped (· == ·) ⟨[(1, 0)], [(1, (1, 0))]⟩ (.append (12, 1))).2 = .err .typeError := by rfl
example : (stepE exTyped (· == ·) ⟨[(1, 0)], [(1, (1, 0))]⟩ (.append (1, 1))).2 = .err .valueError := by rfl
example : ∀ x ∈ (Op.append (2, 1) : Op (Nat × Nat) Nat).incoming, exTyped.okItem x = true := by decide

end SpecVerif.Props.C13
