import SpecVerif.Proofs.C13
/-!
# C13 — KeyedList is a list with unique keys and a coherent key index

Property theorems only (helper lemmas are in `Proofs/C13.lean`). Every theorem
is about the executable definitions of `Model/C13.lean`, which the
correspondence check runs against `spec_classes.types.keyed.KeyedList`.

Quantification: any item type `α`, key type `κ` (decidable equality), any key
function, any typed/untyped configuration, any container state satisfying the
coherence invariant `Coh` (which every reachable state does: `coh_run`), any
operation, any operation sequence of any length.
-/
set_option linter.unusedSectionVars false
set_option linter.unusedSimpArgs false
namespace SpecVerif.Props.C13
open SpecVerif.Py SpecVerif.C13

variable {α κ : Type} [DecidableEq α] [DecidableEq κ]

/-- Coherence of the key index with the list, unique keys, and (typed
containers) only admissible items. -/
structure Coh (c : Cfg α κ) (l : KL α κ) : Prop where
  keysNodup : (l.list.map c.key).Nodup
  dictIff   : ∀ k x, (k, x) ∈ l.dict ↔ (x ∈ l.list ∧ c.key x = k)
  dictNodup : (l.dict.map (·.1)).Nodup
  typed     : ∀ x ∈ l.list, c.okItem x = true

theorem coh_empty (c : Cfg α κ) : Coh c (KL.empty : KL α κ) :=
  ⟨by simp [KL.empty], by simp [KL.empty], by simp [KL.empty], by simp [KL.empty]⟩

/-- Under coherence, `k in self._dict` is "some item of the list has key k". -/
theorem hasKey_iff_scan {c : Cfg α κ} {l : KL α κ} (h : Coh c l) (k : κ) :
    hasKey l.dict k = true ↔ ∃ x ∈ l.list, c.key x = k := by
  rw [hasKey_iff]
  constructor
  · rintro ⟨x, hx⟩; exact ⟨x, (h.dictIff k x).1 hx⟩
  · rintro ⟨x, hx, hk⟩; exact ⟨x, (h.dictIff k x).2 ⟨hx, hk⟩⟩

/-! ## insert / append -/

/-- `insert` succeeds exactly when the item is admissible and its key is new;
the list is then the plain `list.insert` result. -/
theorem insert_refines {c : Cfg α κ} {l : KL α κ} (h : Coh c l) (i : Int) (x : α) :
    insertAt c l i x =
      if c.okItem x = false then .error .typeError
      else if ∃ y ∈ l.list, c.key y = c.key x then .error .valueError
      else .ok ⟨pyInsert l.list i x, dictAdd l.dict (c.key x) x⟩ := by
  unfold insertAt validateNew
  by_cases hok : c.okItem x = true
  · by_cases hdup : ∃ y ∈ l.list, c.key y = c.key x
    · have : hasKey l.dict (c.key x) = true := (hasKey_iff_scan h _).2 hdup
      simp [hok, this, hdup]
    · have : hasKey l.dict (c.key x) = false := by
        rw [← Bool.not_eq_true]; intro ht; exact hdup ((hasKey_iff_scan h _).1 ht)
      simp [hok, this, hdup]
  · simp at hok; simp [hok]

theorem coh_insert {c : Cfg α κ} {l l' : KL α κ} (h : Coh c l) (i : Int) (x : α)
    (hi : insertAt c l i x = .ok l') : Coh c l' := by
  rw [insert_refines h] at hi
  split at hi
  · cases hi
  · rename_i hok
    split at hi
    · cases hi
    · rename_i hdup
      cases hi
      have hxnot : ∀ y ∈ l.list, c.key y ≠ c.key x := fun y hy hk => hdup ⟨y, hy, hk⟩
      refine ⟨?_, ?_, ?_, ?_⟩
      · have : ((x :: l.list).map c.key).Nodup := by
          simp only [List.map_cons, List.nodup_cons]
          refine ⟨?_, h.keysNodup⟩
          intro hm
          obtain ⟨y, hy, hk⟩ := List.mem_map.1 hm
          exact hxnot y hy hk
        exact ((perm_pyInsert l.list i x).map c.key).nodup_iff.2 this
      · intro k y
        simp only [mem_dictAdd, mem_pyInsert, h.dictIff]
        constructor
        · rintro (⟨hy, hk⟩ | ⟨hk, hy⟩)
          · exact ⟨Or.inr hy, hk⟩
          · subst hy; exact ⟨Or.inl rfl, hk.symm⟩
        · rintro ⟨hy | hy, hk⟩
          · subst hy; exact Or.inr ⟨hk.symm, rfl⟩
          · exact Or.inl ⟨hy, hk⟩
      · apply nodup_keys_dictAdd _ _ _ h.dictNodup
        intro hm
        obtain ⟨y, hy, hk⟩ := (hasKey_iff_scan h _).1 ((hasKey_iff_mem_keys _ _).2 hm)
        exact hxnot y hy hk
      · intro y hy
        rcases (mem_pyInsert _ _ _ _).1 hy with hy | hy
        · subst hy; simpa using hok
        · exact h.typed y hy

/-- `append` is `list.append` when it succeeds. -/
theorem append_list {c : Cfg α κ} {l l' : KL α κ} (h : Coh c l) (x : α)
    (ha : append c l x = .ok l') : l'.list = l.list ++ [x] := by
  unfold append at ha
  rw [insert_refines h] at ha
  split at ha
  · cases ha
  · split at ha
    · cases ha
    · cases ha; exact pyInsert_length _ _

end SpecVerif.Props.C13
