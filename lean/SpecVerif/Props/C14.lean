import SpecVerif.Proofs.C14
/-!
# C14 — KeyedSet is a set of items identified by key

Property theorems only (helper lemmas and the definitions of the invariants
`WF`, `Adm`, `SameKind`, `DenotesM`, `Unamb`, `DenotesL` are in `Proofs/C14.lean`).
Every theorem is about the executable definitions of `Model/C14.lean`, which
the correspondence check runs against `spec_classes.types.keyed.KeyedSet`.

Quantification: any value type `α`, key type `κ` (decidable equality), any
configuration `Cfg` (key function that may raise, as-key reading, hashability,
typed or not, any type predicates), both settings of `enforce`, any state
satisfying the invariant `Inv` (which every reachable state does: `inv_run`),
any operation, any operand (KeyedSet with its own configuration, built-in set,
list), any operation sequence of any length.

The abstraction of a state is the finite map `abs s : κ → Option α`
("most recently added item per key").
-/
set_option linter.unusedSectionVars false
set_option linter.unusedSimpArgs false
set_option linter.unusedVariables false
namespace SpecVerif.Props.C14
open SpecVerif.Py SpecVerif.C14

variable {α κ : Type} [DecidableEq α] [DecidableEq κ]

/-- The abstraction: the finite map key ⇀ item. -/
def abs (s : KS α κ) : κ → Option α := dictGet s.dict

/-- the map with `k` bound to `x` -/
def upd (m : κ → Option α) (k : κ) (x : α) : κ → Option α := fun k' => if k' = k then some x else m k'
/-- the map without `k` -/
def erase (m : κ → Option α) (k : κ) : κ → Option α := fun k' => if k' = k then none else m k'

theorem mem_keys_iff_abs (s : KS α κ) (k : κ) : k ∈ s.keys ↔ (abs s k).isSome = true := by
  unfold abs KS.keys
  rw [dictGet_isSome, hasKey_iff_mem_keys]

/-! ## Invariants over all operation sequences -/

/-- A freshly constructed set satisfies the invariants (unique keys, every item
under its own key, typed sets hold only well-typed items and keys). -/
theorem inv_construct {c : Cfg α κ} {enforce : Bool} {xs : List α} {s : KS α κ}
    (h : construct c enforce xs = .ok s) : Inv s ∧ s.cfg = c ∧ s.enforce = enforce := by
  unfold construct at h
  cases hf : filterAdd (fun _ => .ok true) (⟨{ c with typed := false }, enforce, []⟩ : KS α κ) xs with
  | error e => simp [hf] at h
  | ok s0 =>
    simp only [hf] at h
    have hinv0 : Inv (⟨{ c with typed := false }, enforce, []⟩ : KS α κ) :=
      ⟨⟨by simp, by simp⟩, by intro _ k v hm; simp at hm⟩
    obtain ⟨hi, hk⟩ := inv_filterAdd _ xs hinv0 hf
    have hwf : WF ({ s0 with cfg := c } : KS α κ) :=
      ⟨hi.wf.nodup, by
        intro k v hm
        have := hi.wf.keyed k v hm
        rw [hk.1] at this; exact this⟩
    by_cases ht : c.typed = true
    · simp only [ht, if_true] at h
      cases hva : validateAll c ({ s0 with cfg := c } : KS α κ).iter with
      | error e => simp [hva] at h
      | ok u =>
        simp only [hva] at h
        cases h
        refine ⟨⟨hwf, ?_⟩, rfl, hk.2⟩
        intro _ k v hm
        -- every stored item passed `validate`
        have hall : ∀ (l : List α), validateAll c l = .ok () → ∀ x ∈ l, ∃ k', validate c x = .ok k' := by
          intro l
          induction l with
          | nil => intro _ x hx; cases hx
          | cons y ys ih =>
            intro hl x hx
            unfold validateAll at hl
            cases hvy : validate c y with
            | error e => simp [hvy] at hl
            | ok k' =>
              simp only [hvy] at hl
              rcases List.mem_cons.1 hx with rfl | hx
              · exact ⟨k', hvy⟩
              · exact ih hl x hx
        have hvm : v ∈ ({ s0 with cfg := c } : KS α κ).iter := by
          unfold KS.iter; exact List.mem_map.2 ⟨(k, v), hm, rfl⟩
        obtain ⟨k', hk'⟩ := hall _ hva v hvm
        obtain ⟨hkey, hok⟩ := validate_ok hk'
        have : k' = k := by
          have := hwf.keyed k v hm
          simp only at this
          rw [hkey] at this; cases this; rfl
        subst this
        exact hok ht
    · simp only [ht, Bool.false_eq_true, if_false] at h
      cases h
      exact ⟨⟨hwf, fun h' => absurd h' ht⟩, rfl, hk.2⟩

/-- **Invariant induction.** Under every operation sequence (of any length, with
any operands, including rebinding the set to operator results) a KeyedSet keeps:
unique keys, every item stored under its own key, and the same key function /
flag / type parameters. -/
theorem wf_run (s : KS α κ) (ops : List (Op α κ)) (hi : Inv s) :
    WF (run s ops).1 ∧ (run s ops).1.cfg = s.cfg ∧ (run s ops).1.enforce = s.enforce :=
  let ⟨h1, h2⟩ := inv_run ops hi
  ⟨h1.wf, h2.1, h2.2⟩

/-- **A parameterised `KeyedSet[T, K]` never admits an item or key of the wrong
type**: for every state reachable by any operation sequence from a set that
satisfies the invariants (e.g. a constructed one, `inv_construct`), every stored
item passes the item type check and every key the key type check. -/
theorem typed_never_admits (s : KS α κ) (ops : List (Op α κ)) (hi : Inv s)
    (ht : s.cfg.typed = true) :
    ∀ k v, (k, v) ∈ (run s ops).1.dict → s.cfg.okItem v = true ∧ s.cfg.okKey k = true := by
  obtain ⟨h1, h2⟩ := inv_run ops hi
  intro k v hm
  have := h1.adm (by rw [h2.1]; exact ht) k v hm
  rw [h2.1] at this; exact this

/-- … and the sets *returned* by `| & - ^` identify items like the receiver
(same key function, flag, type parameters) and satisfy the same invariants, so
they never admit ill-typed items either. -/
theorem bin_result_kind (b : BinOp) (s r : KS α κ) (o : Operand α κ) (h : binOp b s o = .ok r) :
    r.cfg = s.cfg ∧ r.enforce = s.enforce ∧ WF r ∧
      (s.cfg.typed = true → ∀ k v, (k, v) ∈ r.dict → s.cfg.okItem v = true ∧ s.cfg.okKey k = true) := by
  obtain ⟨h1, h2⟩ := inv_binOp h
  refine ⟨h2.1, h2.2, h1.wf, ?_⟩
  intro ht k v hm
  have := h1.adm (by rw [h2.1]; exact ht) k v hm
  rw [h2.1] at this; exact this

/-- **Second generation.** A set obtained as the result of `| & - ^` from ANY reachable state of a parameterised
set, and then driven by any further operation sequence (adds, `|=`, further rebinding …), keeps the type
parameters of the original set and still holds only items / keys that pass the ORIGINAL type checks:
results of operators never "forget" `T` and `K`. -/
theorem typed_second_generation (s r : KS α κ) (ops ops' : List (Op α κ)) (b : BinOp) (o : Operand α κ)
    (hi : Inv s) (ht : s.cfg.typed = true) (h : binOp b (run s ops).1 o = .ok r) :
    (run r ops').1.cfg = s.cfg ∧
      ∀ k v, (k, v) ∈ (run r ops').1.dict → s.cfg.okItem v = true ∧ s.cfg.okKey k = true := by
  obtain ⟨h1, h2⟩ := inv_run ops hi
  obtain ⟨h3, h4⟩ := inv_binOp h
  obtain ⟨h5, h6⟩ := inv_run ops' h3
  have hc : (run r ops').1.cfg = s.cfg := (h6.1.trans h4.1).trans h2.1
  refine ⟨hc, ?_⟩
  intro k v hm
  have := h5.adm (by rw [hc]; exact ht) k v hm
  rw [hc] at this; exact this

/-- `validateAll` succeeds exactly when every element validates. -/
theorem validateAll_ok_iff (c : Cfg α κ) (xs : List α) :
    validateAll c xs = .ok () ↔ ∀ x ∈ xs, ∃ k, validate c x = .ok k := by
  induction xs with
  | nil => simp [validateAll]
  | cons x xs ih =>
    simp only [validateAll, List.mem_cons, forall_eq_or_imp]
    cases hv : validate c x with
    | error e => simp
    | ok k => simp [ih]

/-- **The parameterised constructor is decided by the survivors.** `KeyedSet[T, K](xs, …)` succeeds exactly
when the unparameterised constructor does (every element keyed; with `enforce` no two unequal elements under one
key) and every item that is IN the constructed mapping (the last one per key) passes the item and key checks; an
ill-typed element that a later element of the same key replaced is never part of the set. The constructed set is
the unparameterised one with the type parameters attached. -/
theorem construct_typed_survivors (c : Cfg α κ) (enforce : Bool) (xs : List α) (s : KS α κ)
    (ht : c.typed = true) :
    construct c enforce xs = .ok s ↔
      ∃ s0, construct { c with typed := false } enforce xs = .ok s0 ∧ s = { s0 with cfg := c } ∧
        ∀ x ∈ s0.iter, ∃ k, validate c x = .ok k := by
  unfold construct
  cases hf : filterAdd (fun _ => .ok true) (⟨{ c with typed := false }, enforce, []⟩ : KS α κ) xs with
  | error e => simp
  | ok s1 =>
    simp only [ht, if_true]
    have hiter : ({ s1 with cfg := c } : KS α κ).iter = s1.iter := rfl
    constructor
    · intro h
      cases hva : validateAll c ({ s1 with cfg := c } : KS α κ).iter with
      | error e => simp [hva] at h
      | ok u =>
        simp only [hva] at h
        refine ⟨{ s1 with cfg := { c with typed := false } }, by simp, ?_, ?_⟩
        · cases h; rfl
        · have := (validateAll_ok_iff c _).1 (by cases u; exact hva)
          simpa [KS.iter] using this
    · rintro ⟨s0, h0, hs, hall⟩
      simp at h0
      subst h0
      have : validateAll c ({ s1 with cfg := c } : KS α κ).iter = .ok () :=
        (validateAll_ok_iff c _).2 (by simpa [KS.iter] using hall)
      simp [this, hs]

/-- reflected operators with a built-in set / list on the left run the receiver's
method: same statement. With a KeyedSet `t` on the left the result is of `t`'s kind. -/
theorem rbin_result_kind (b : BinOp) (s r : KS α κ) (o : Operand α κ) (h : rbinOp b s o = .ok r) :
    (match o with
     | .ks t => r.cfg = t.cfg ∧ r.enforce = t.enforce
     | _ => r.cfg = s.cfg ∧ r.enforce = s.enforce) ∧ WF r := by
  cases o with
  | ks t =>
    obtain ⟨h1, h2⟩ := inv_binOp (b := b) (s := t) (o := .ks s) h
    exact ⟨⟨h2.1, h2.2⟩, h1.wf⟩
  | pyset xs =>
    cases b
    · obtain ⟨h1, h2⟩ := inv_andOp h; exact ⟨⟨h2.1, h2.2⟩, h1.wf⟩
    · obtain ⟨h1, h2⟩ := inv_orOp h; exact ⟨⟨h2.1, h2.2⟩, h1.wf⟩
    · obtain ⟨h1, h2⟩ := inv_rsubOp (s := s) (o := .pyset xs) h; exact ⟨⟨h2.1, h2.2⟩, h1.wf⟩
    · obtain ⟨h1, h2⟩ := inv_xorOp (s := s) (o := .pyset xs) h; exact ⟨⟨h2.1, h2.2⟩, h1.wf⟩
  | pyfrozen xs =>
    cases b
    · obtain ⟨h1, h2⟩ := inv_andOp h; exact ⟨⟨h2.1, h2.2⟩, h1.wf⟩
    · obtain ⟨h1, h2⟩ := inv_orOp h; exact ⟨⟨h2.1, h2.2⟩, h1.wf⟩
    · obtain ⟨h1, h2⟩ := inv_rsubOp (s := s) (o := .pyfrozen xs) h; exact ⟨⟨h2.1, h2.2⟩, h1.wf⟩
    · obtain ⟨h1, h2⟩ := inv_xorOp (s := s) (o := .pyfrozen xs) h; exact ⟨⟨h2.1, h2.2⟩, h1.wf⟩
  | pylist xs =>
    cases b
    · obtain ⟨h1, h2⟩ := inv_andOp h; exact ⟨⟨h2.1, h2.2⟩, h1.wf⟩
    · obtain ⟨h1, h2⟩ := inv_orOp h; exact ⟨⟨h2.1, h2.2⟩, h1.wf⟩
    · obtain ⟨h1, h2⟩ := inv_rsubOp (s := s) (o := .pylist xs) h; exact ⟨⟨h2.1, h2.2⟩, h1.wf⟩
    · obtain ⟨h1, h2⟩ := inv_xorOp (s := s) (o := .pylist xs) h; exact ⟨⟨h2.1, h2.2⟩, h1.wf⟩

/-! ## add -/

/-- **`abs (add s x) = (abs s)[keyOf x ↦ x]`** whenever `add` succeeds. -/
theorem abs_add {s s' : KS α κ} {x : α} (h : add s x = .ok s') :
    ∃ k, s.cfg.keyOf x = .ok k ∧ abs s' = upd (abs s) k x := by
  obtain ⟨k, hv, rfl, _⟩ := add_ok h
  refine ⟨k, (validate_ok hv).1, ?_⟩
  funext k'
  simp [abs, upd, dictGet_dictSet]

/-- … and it succeeds exactly as the statement says: the item has a key, is of
the right type (typed sets), and — with `enforce` — its key is absent or bound
to an equal item. -/
theorem add_succeeds (s : KS α κ) (x : α) (k : κ) (hk : s.cfg.keyOf x = .ok k)
    (ht : s.cfg.typed = true → s.cfg.okItem x = true ∧ s.cfg.okKey k = true)
    (he : s.enforce = true → abs s k = none ∨ abs s k = some x) :
    ∃ s', add s x = .ok s' := by
  unfold add
  rw [validate_of hk ht]
  simp only
  by_cases hc : (s.enforce && hasKey s.dict k && (dictGet s.dict k != some x)) = true
  · exfalso
    simp only [Bool.and_eq_true, bne_iff_ne, ne_eq] at hc
    rcases he hc.1.1 with h | h
    · have := (dictGet_eq_none_iff _ _).1 h
      rw [hc.1.2] at this; cases this
    · exact hc.2 h
  · simp [hc]

/-- **With `enforce_item_equivalence=True`, adding an unequal item under an
existing key raises `ValueError`** … -/
theorem enforce_rejects (s : KS α κ) (x y : α) (k : κ) (he : s.enforce = true)
    (hk : s.cfg.keyOf x = .ok k)
    (ht : s.cfg.typed = true → s.cfg.okItem x = true ∧ s.cfg.okKey k = true)
    (hy : abs s k = some y) (hne : y ≠ x) : add s x = .error .valueError := by
  unfold add
  rw [validate_of hk ht]
  have h1 : hasKey s.dict k = true := hasKey_of_dictGet hy
  have h2 : (dictGet s.dict k != some x) = true := by
    unfold abs at hy
    rw [hy]; simp [hne]
  simp [he, h1, h2]

/-- … **and changes nothing**. -/
theorem enforce_rejects_unchanged (s : KS α κ) (x y : α) (k : κ) (he : s.enforce = true)
    (hk : s.cfg.keyOf x = .ok k)
    (ht : s.cfg.typed = true → s.cfg.okItem x = true ∧ s.cfg.okKey k = true)
    (hy : abs s k = some y) (hne : y ≠ x) : step s (.add x) = (s, .err .valueError) := by
  simp only [step, enforce_rejects s x y k he hk ht hy hne]

/-- a typed set refuses an ill-typed item or key with `TypeError`, unchanged -/
theorem typed_rejects (s : KS α κ) (x : α) (k : κ) (ht : s.cfg.typed = true)
    (hk : s.cfg.keyOf x = .ok k) (hbad : s.cfg.okItem x = false ∨ s.cfg.okKey k = false) :
    step s (.add x) = (s, .err .typeError) := by
  have : add s x = .error .typeError := by
    unfold add validate
    rw [hk]
    rcases hbad with h | h
    · simp [ht, h]
    · by_cases hi : s.cfg.okItem x = true <;> simp [ht, h, hi]
  simp only [step, this]

/-! ## membership, lookup, discard, remove accept an item or its key -/

/-- **`x in s`** is true exactly when `x` denotes a present key — as a key, or
as an item whose key is present (and, with `enforce`, bound to an equal item). -/
theorem member_item_or_key {s : KS α κ} {x : α} {b : Bool} (h : contains s x = .ok b) :
    b = true ↔ ∃ k, DenotesM s x k := contains_ok_iff h

/-- membership never raises when the key function only raises `TypeError` -/
theorem member_total (s : KS α κ) (x : α) (hx : KeyTotal s.cfg x) : ∃ b, contains s x = .ok b :=
  contains_total hx

/-- **lookup `s[x]`** returns the item bound to a key that `x` denotes (as a key
or as an item; the item reading ignores `enforce`) … -/
theorem lookup_sound {s : KS α κ} {x v : α} (h : getItem s x = .ok v) :
    ∃ k, DenotesL s x k ∧ abs s k = some v := by
  unfold getItem at h
  cases hd : inDict s x with
  | some k =>
    simp only [hd] at h
    have hk := (inDict_eq_some_iff s x k).1 hd
    cases hg : dictGet s.dict k with
    | none => simp [hg] at h
    | some w =>
      simp only [hg] at h; cases h
      exact ⟨k, ⟨Or.inl hk.1, hk.2⟩, hg⟩
  | none =>
    simp only [hd] at h
    cases hk : s.cfg.keyOf x with
    | error e => cases e <;> simp [hk] at h
    | ok k =>
      simp only [hk] at h
      cases hg : dictGet s.dict k with
      | none => simp [hg] at h
      | some w =>
        simp only [hg] at h; cases h
        exact ⟨k, ⟨Or.inr hk, hasKey_of_dictGet hg⟩, hg⟩

/-- … it finds it whenever `x` denotes a present key, unambiguously … -/
theorem lookup_complete {s : KS α κ} {x : α} {k : κ} (hd : DenotesL s x k)
    (hu : ∀ k', DenotesL s x k' → k' = k) : ∃ v, getItem s x = .ok v ∧ abs s k = some v := by
  obtain ⟨v, hv⟩ := dictGet_of_hasKey hd.2
  refine ⟨v, ?_, hv⟩
  unfold getItem
  cases hin : inDict s x with
  | some k' =>
    have hk' := (inDict_eq_some_iff s x k').1 hin
    have : k' = k := hu k' ⟨Or.inl hk'.1, hk'.2⟩
    subst this
    simp [hv]
  | none =>
    simp only
    rcases hd.1 with ha | hk
    · have := (inDict_eq_none_iff s x).1 hin k ha
      rw [hd.2] at this; cases this
    · simp [hk, hv]

/-- … and raises `KeyError` when `x` denotes nothing. -/
theorem lookup_absent {s : KS α κ} {x : α} (hx : KeyTotal s.cfg x) (hn : ¬ ∃ k, DenotesL s x k) :
    getItem s x = .error .keyError := by
  unfold getItem
  cases hin : inDict s x with
  | some k =>
    have hk := (inDict_eq_some_iff s x k).1 hin
    exact absurd ⟨k, Or.inl hk.1, hk.2⟩ hn
  | none =>
    simp only
    cases hk : s.cfg.keyOf x with
    | error e => have := hx e hk; subst this; rfl
    | ok k =>
      simp only
      cases hg : dictGet s.dict k with
      | none => rfl
      | some v => exact absurd ⟨k, Or.inr hk, hasKey_of_dictGet hg⟩ hn

/-- `get(key)` is the dict accessor: the binding of the key, `None` when absent. -/
theorem get_by_key (s : KS α κ) (x : α) (k : κ) (hh : s.cfg.hashable x = true)
    (ha : s.cfg.asKey x = some k) : getOpt s x = .ok (abs s k) := by
  unfold getOpt; simp [hh, ha, abs]

/-- **`discard(x)`** removes a key that `x` denotes (item or key) and nothing else;
when `x` denotes nothing the set is unchanged. -/
theorem discard_spec {s s' : KS α κ} {x : α} (h : discard s x = .ok s') :
    (∃ k, DenotesM s x k ∧ abs s' = erase (abs s) k ∧ s'.cfg = s.cfg ∧ s'.enforce = s.enforce) ∨
    ((¬ ∃ k, DenotesM s x k) ∧ s' = s) := by
  rcases discard_cases h with ⟨k, hk, rfl⟩ | ⟨hn, rfl⟩
  · refine Or.inl ⟨k, hk, ?_, rfl, rfl⟩
    funext k'
    simp [abs, erase, dictGet_dictDel]
  · exact Or.inr ⟨hn, rfl⟩

/-- Under the unambiguity hypothesis it is *the* key `x` denotes, and afterwards
`x` is no longer a member. -/
theorem discard_unamb {s s' : KS α κ} {x : α} {k : κ} (hu : Unamb s x) (hk : DenotesM s x k)
    (h : discard s x = .ok s') : abs s' = erase (abs s) k ∧ contains s' x ≠ .ok true := by
  rcases discard_spec h with ⟨k', hk', habs, hcfg, henf⟩ | ⟨hn, _⟩
  · have : k' = k := hu k' k hk' hk
    subst this
    refine ⟨habs, ?_⟩
    intro hc
    obtain ⟨k'', hk''⟩ := (contains_ok_iff hc).1 rfl
    -- anything `x` denotes in `s'` it denoted in `s`, hence it is `k'`, which is gone
    have hget : ∀ j, dictGet s'.dict j = if j = k' then none else dictGet s.dict j := by
      intro j; have := congrFun habs j; simpa [abs, erase] using this
    have hhas : ∀ j, hasKey s'.dict j = true → hasKey s.dict j = true ∧ j ≠ k' := by
      intro j hj
      obtain ⟨v, hv⟩ := dictGet_of_hasKey hj
      rw [hget j] at hv
      by_cases hjk : j = k'
      · simp [hjk] at hv
      · simp only [hjk, if_false] at hv
        exact ⟨hasKey_of_dictGet hv, hjk⟩
    have hden : DenotesM s x k'' ∧ k'' ≠ k' := by
      rcases hk'' with ⟨ha, hh⟩ | ⟨hkey, hh, heq⟩
      · rw [hcfg] at ha
        exact ⟨Or.inl ⟨ha, (hhas k'' hh).1⟩, (hhas k'' hh).2⟩
      · rw [hcfg] at hkey
        refine ⟨Or.inr ⟨hkey, (hhas k'' hh).1, ?_⟩, (hhas k'' hh).2⟩
        intro he
        have := heq (by rw [henf]; exact he)
        rw [hget k''] at this
        simp only [(hhas k'' hh).2, if_false] at this
        exact this
    exact hden.2 (hu k'' k' hden.1 hk')
  · exact absurd ⟨k, hk⟩ hn

/-- **`remove(x)`**: like `discard` when `x` is a member … -/
theorem remove_spec {s s' : KS α κ} {x : α} (h : remove s x = .ok s') :
    ∃ k, DenotesM s x k ∧ abs s' = erase (abs s) k := by
  unfold remove at h
  cases hc : contains s x with
  | error e => simp [hc] at h
  | ok b =>
    cases b with
    | false => simp [hc] at h
    | true =>
      simp only [hc] at h
      rcases discard_spec h with ⟨k, hk, habs, _, _⟩ | ⟨hn, _⟩
      · exact ⟨k, hk, habs⟩
      · exact absurd ((contains_ok_iff hc).1 rfl) hn

/-- … and it succeeds for every member. -/
theorem remove_member {s : KS α κ} {x : α} {k : κ} (hk : DenotesM s x k) : ∃ s', remove s x = .ok s' := by
  unfold remove
  rw [contains_true_of_denotes hk]
  simp only
  unfold SpecVerif.C14.discard
  cases hd : inDict s x with
  | some k' => exact ⟨_, rfl⟩
  | none =>
    rcases hk with h | h
    · have := (inDict_eq_none_iff s x).1 hd k h.1
      rw [h.2] at this; cases this
    · simp only [(itemMatch_some_iff s x k).2 h]
      exact ⟨_, rfl⟩

/-- … `KeyError`, set unchanged, when `x` denotes nothing. -/
theorem remove_absent {s : KS α κ} {x : α} (hx : KeyTotal s.cfg x) (hn : ¬ ∃ k, DenotesM s x k) :
    step s (.remove x) = (s, .err .keyError) := by
  obtain ⟨b, hb⟩ := contains_total (s := s) hx
  have : b = false := by
    cases b with
    | false => rfl
    | true => exact absurd ((contains_ok_iff hb).1 rfl) hn
  subst this
  simp only [step, remove, hb]

/-- In a well-formed set an item and its key denote the same thing: a stored
item is a member, its key is a member (when usable as a key), and both remove
the same binding. -/
theorem stored_item_is_member {s : KS α κ} (hwf : WF s) {k : κ} {v : α} (hm : (k, v) ∈ s.dict) :
    contains s v = .ok true ∧ (∃ w, getItem s v = .ok w) :=
  ⟨contains_true_of_denotes (Or.inr (denotes_stored hwf hm)), by
    unfold getItem
    cases hd : inDict s v with
    | some k' =>
      have hk' := (inDict_eq_some_iff s v k').1 hd
      obtain ⟨w, hw⟩ := dictGet_of_hasKey hk'.2
      exact ⟨w, by simp [hw]⟩
    | none =>
      have := (dictGet_eq_some_iff _ hwf.nodup k v).2 hm
      exact ⟨v, by simp [hwf.keyed k v hm, this]⟩⟩

/-! ## len and iteration see one item per key -/

/-- **`len` / iteration / `keys()` / `items()`**: the keys are distinct, `len` is
their number, iteration yields exactly the bound item of each key in order, each
iterated item has the corresponding key, and `items()` is the graph of `abs`. -/
theorem len_iter (s : KS α κ) (hwf : WF s) :
    s.keys.Nodup ∧ s.len = s.keys.length ∧ s.iter.length = s.len ∧
    s.iter = s.keys.filterMap (abs s) ∧
    s.iter.map s.cfg.keyOf = s.keys.map .ok ∧
    (∀ k v, (k, v) ∈ s.dict ↔ abs s k = some v) := by
  refine ⟨hwf.nodup, by simp [KS.len, KS.keys], by simp [KS.len, KS.iter], ?_, ?_, ?_⟩
  · -- iteration = lookup of every key
    unfold KS.iter KS.keys abs
    have : ∀ p ∈ s.dict, dictGet s.dict p.1 = some p.2 := by
      intro p hp; exact (dictGet_eq_some_iff _ hwf.nodup p.1 p.2).2 hp
    generalize hd : s.dict = d at this
    clear hd
    induction d with
    | nil => rfl
    | cons p ps ih =>
      -- use the general statement over an arbitrary lookup function instead
      simp only [List.map_cons, List.filterMap_cons, this p List.mem_cons_self]
      congr 1
      -- tails: lookups agree because `this` holds for them
      have aux : ∀ (l : List (κ × α)) (f : κ → Option α), (∀ q ∈ l, f q.1 = some q.2) →
          l.map (·.2) = (l.map (·.1)).filterMap f := by
        intro l f hf
        induction l with
        | nil => rfl
        | cons q qs ihq =>
          simp only [List.map_cons, List.filterMap_cons, hf q List.mem_cons_self]
          congr 1
          exact ihq (fun r hr => hf r (List.mem_cons_of_mem _ hr))
      exact aux ps _ (fun q hq => this q (List.mem_cons_of_mem _ hq))
  · unfold KS.iter KS.keys
    rw [List.map_map, List.map_map]
    apply List.map_congr_left
    intro p hp
    exact hwf.keyed p.1 p.2 hp
  · intro k v
    exact (dictGet_eq_some_iff _ hwf.nodup k v).symm

/-! ## pop / clear -/

/-- `pop()` returns the first item; the set loses exactly one binding (that of
the item's key when the item is unambiguous). -/
theorem pop_spec {s s' : KS α κ} {v : α} (hwf : WF s) (h : pop s = .ok (v, s')) :
    (∃ k, abs s k = some v ∧ (Unamb s v → abs s' = erase (abs s) k)) ∧ s'.len + 1 = s.len := by
  unfold pop at h
  cases hd : s.dict with
  | nil => simp [hd] at h
  | cons p ps =>
    simp only [hd] at h
    cases hdis : discard s p.2 with
    | error e => simp [hdis] at h
    | ok s'' =>
      simp only [hdis] at h
      cases h
      have hm : (p.1, p.2) ∈ s.dict := by rw [hd]; exact List.mem_cons_self
      have hden := denotes_stored hwf hm
      refine ⟨⟨p.1, (dictGet_eq_some_iff _ hwf.nodup _ _).2 hm, ?_⟩, ?_⟩
      · intro hu
        exact (discard_unamb hu (Or.inr hden) hdis).1
      · rcases discard_cases hdis with ⟨k, hk, rfl⟩ | ⟨hn, _⟩
        · have hk' : hasKey s.dict k = true := by
            rcases hk with hk | hk
            · exact hk.2
            · exact hk.2.1
          exact length_dictDel_of_hasKey _ _ hwf.nodup hk'
        · exact absurd ⟨p.1, Or.inr hden⟩ hn

/-- `pop()` on an empty set raises `KeyError`. -/
theorem pop_empty (s : KS α κ) (h : s.dict = []) : pop s = .error .keyError := by
  unfold pop; rw [h]

/-- `clear()` empties any well-formed set and never raises (even in the
ambiguous case, where `pop` may remove another binding than the one it returns). -/
theorem clear_spec (s : KS α κ) (hwf : WF s) : clear s = ({ s with dict := [] }, none) := by
  unfold clear
  suffices h : ∀ (n : Nat) (s : KS α κ), WF s → s.dict.length = n →
      clear.go n s = ({ s with dict := [] }, none) from h _ s hwf rfl
  intro n
  induction n with
  | zero =>
    intro s _ hl
    have : s.dict = [] := List.eq_nil_of_length_eq_zero hl
    unfold clear.go
    cases s; simp_all
  | succ n ih =>
    intro s hwf hl
    unfold clear.go
    cases hd : s.dict with
    | nil => rw [hd] at hl; cases hl
    | cons p ps =>
      have hm : (p.1, p.2) ∈ s.dict := by rw [hd]; exact List.mem_cons_self
      have hden := denotes_stored hwf hm
      obtain ⟨s', hs'⟩ := discard_total (s := s) (x := p.2) (by
        cases hin : inDict s p.2 with
        | some k => exact Or.inr ⟨k, rfl⟩
        | none =>
          refine Or.inl ?_
          intro e he; rw [hden.1] at he; cases he)
      have hpop : pop s = .ok (p.2, s') := by
        unfold pop; rw [hd]; simp only [hs']
      rw [hpop]
      simp only
      obtain ⟨_, hlen⟩ := pop_spec hwf hpop
      have hinv : WF s' ∧ SameKind s' s := by
        rcases discard_ok hs' with rfl | ⟨k, _, rfl⟩
        · exact ⟨hwf, SameKind.refl _⟩
        · exact ⟨⟨nodup_keys_dictDel _ _ hwf.nodup,
            fun k' v' h => hwf.keyed k' v' ((mem_dictDel _ _ _ _).1 h).1⟩, ⟨rfl, rfl⟩⟩
      have hl' : s'.dict.length = n := by
        have : s.len = n + 1 := hl
        unfold KS.len at hlen this; omega
      rw [ih s' hinv.1 hl']
      obtain ⟨h1, h2⟩ := hinv.2
      cases s; cases s'; simp_all

/-! ## operator results are values of their own -/

/-- **The result of `| & - ^` (and reflected) never aliases an operand**: mutating the
result (`probe` toggles `x` in it) leaves the receiver exactly as it was, and the
receiver's own later mutation is the one it would have undergone without the
operator. (In the model a result is a fresh value; the correspondence checks
`r is not a and r is not b` and the re-reads on the real objects.) -/
theorem probe_independent (s : KS α κ) (refl : Bool) (b : BinOp) (o : Operand α κ) (x : α) (r : KS α κ)
    (h : (if refl then rbinOp b s o else binOp b s o) = .ok r) :
    step s (.probe refl b o x) = ((toggleAllP s [x]).1, .probe (toggleAllP r [x]).1 s) := by
  simp only [step, h]

/-! ## failing operations leave the set unchanged -/

/-- Every operation that raises leaves the set as it was — except the bulk
in-place operators `|= &= -= ^=`, which (CPython `MutableSet`) keep the elements
processed before the failing one: see `ior_failure_prefix`. -/
theorem failed_step_unchanged (s : KS α κ) (op : Op α κ) (e : Err)
    (hop : match op with
      | .inplace _ _ => False | .inplaceSelf _ => False | .clear => False | _ => True)
    (h : (step s op).2 = .err e) : (step s op).1 = s := by
  cases op with
  | add x => simp only [step] at h ⊢; split <;> simp_all
  | discard x => simp only [step] at h ⊢; split <;> simp_all
  | remove x => simp only [step] at h ⊢; split <;> simp_all
  | pop => simp only [step] at h ⊢; split <;> simp_all
  | rebind b o => simp only [step] at h ⊢; split <;> simp_all
  | probe refl b o x => simp only [step] at h ⊢; split <;> simp_all
  | clear => cases hop
  | inplace i o => cases hop
  | inplaceSelf i => cases hop
  | contains x => rfl
  | getItem x => rfl
  | get x => rfl
  | keys => rfl
  | items => rfl
  | len => rfl
  | iter => rfl
  | bin b o => rfl
  | rbin b o => rfl
  | cmp c o => rfl
  | rcmp c o => rfl

/-- a failing `s |= it` has added exactly the elements before the first one whose
`add` fails; that `add` itself changed nothing. -/
theorem ior_failure_prefix (s s' : KS α κ) (xs : List α) (e : Err) (h : addAllP s xs = (s', some e)) :
    ∃ pre x post, xs = pre ++ x :: post ∧ addAllP s pre = (s', none) ∧ add s' x = .error e := by
  induction xs generalizing s with
  | nil => simp [addAllP] at h
  | cons y ys ih =>
    unfold addAllP at h
    cases ha : add s y with
    | error e' =>
      simp only [ha] at h
      cases h
      exact ⟨[], y, ys, rfl, rfl, ha⟩
    | ok s1 =>
      simp only [ha] at h
      obtain ⟨pre, x, post, hxs, hpre, hx⟩ := ih s1 h
      refine ⟨y :: pre, x, post, by rw [hxs]; rfl, ?_, hx⟩
      unfold addAllP; simp only [ha]; exact hpre


/-! ## Set algebra on keys

General forms first (no hypothesis on the operand: exactly what the code
computes), then the key-level set algebra for operands that are sets of items:
`PlainFor` excludes the documented key/item ambiguity, `AgreeE`/`AgreeS` say the
operands hold equal items under common keys ("items are identified by key").
`keysOf c xs k` : `k` is the key of an element of `xs`. -/

/-- `s | other` (also `other | s` for a built-in set / list): the keys of the
result are the union of the keys; items of `other` win on common keys
(`or_items`). -/
theorem or_keys {s r : KS α κ} {o : Operand α κ} (hwf : WF s) (h : orOp s o = .ok r) (k : κ) :
    k ∈ r.keys ↔ k ∈ s.keys ∨ keysOf s.cfg o.iter k := by
  unfold orOp fromIterable at h
  rw [mem_keys_iff_hasKey, filterAdd_keys _ _ h k, mem_keys_iff_hasKey]
  simp only [KS.emptyLike, hasKey_nil, Bool.false_eq_true, false_or, true_and]
  constructor
  · rintro ⟨x, hx, hk⟩
    rcases List.mem_append.1 hx with hx | hx
    · exact Or.inl ((keysOf_iter hwf k).1 ⟨x, hx, hk⟩)
    · exact Or.inr ⟨x, hx, hk⟩
  · rintro (hk | ⟨x, hx, hk⟩)
    · obtain ⟨x, hx, hk⟩ := (keysOf_iter hwf k).2 hk
      exact ⟨x, List.mem_append.2 (Or.inl hx), hk⟩
    · exact ⟨x, List.mem_append.2 (Or.inr hx), hk⟩

/-- every item of `s | other` is an item of `s` or an element of `other` (stored under its key) -/
theorem or_items {s r : KS α κ} {o : Operand α κ} (hwf : WF s) (h : orOp s o = .ok r) (k : κ) (v : α)
    (hv : abs r k = some v) : abs s k = some v ∨ (v ∈ o.iter ∧ s.cfg.keyOf v = .ok k) := by
  unfold orOp fromIterable at h
  rcases filterAdd_items _ _ h k v hv with h1 | ⟨h1, _, h3⟩
  · simp [KS.emptyLike, dictGet_nil] at h1
  · rcases List.mem_append.1 h1 with hx | hx
    · obtain ⟨k', hm⟩ := mem_iter_iff.1 hx
      have := hwf.keyed k' v hm
      simp only [KS.emptyLike] at h3
      rw [h3] at this; cases this
      exact Or.inl ((dictGet_eq_some_iff _ hwf.nodup k v).2 hm)
    · exact Or.inr ⟨hx, h3⟩

/-- without `enforce`, `|` succeeds whenever every element of `other` has a key and (typed sets) the right type -/
theorem or_succeeds (s : KS α κ) (o : Operand α κ) (hi : Inv s) (he : s.enforce = false)
    (hv : ∀ x ∈ o.iter, ∃ k, validate s.cfg x = .ok k) : ∃ r, orOp s o = .ok r := by
  unfold orOp fromIterable
  apply filterAdd_succeeds
  · intro x _; exact ⟨true, rfl⟩
  · intro x hx _
    rcases List.mem_append.1 hx with hx | hx
    · obtain ⟨k, hm⟩ := mem_iter_iff.1 hx
      exact ⟨k, validate_stored hi hm⟩
    · exact hv x hx
  · exact he

/-- `s & other`, general form: the elements of `other` that are members of `s`. -/
theorem and_keys_general {s r : KS α κ} {o : Operand α κ} (h : andOp s o = .ok r) (k : κ) :
    k ∈ r.keys ↔ ∃ x ∈ o.iter, contains s x = .ok true ∧ s.cfg.keyOf x = .ok k := by
  unfold andOp at h
  rw [mem_keys_iff_hasKey, filterAdd_keys _ _ h k]
  simp [KS.emptyLike, hasKey_nil]

/-- **`&` is intersection on keys** for an operand that is a set of items. -/
theorem and_keys {s r : KS α κ} {o : Operand α κ} (hp : PlainFor s o.iter) (ha : AgreeE s o.iter)
    (h : andOp s o = .ok r) (k : κ) : k ∈ r.keys ↔ k ∈ s.keys ∧ keysOf s.cfg o.iter k := by
  rw [and_keys_general h k, mem_keys_iff_hasKey]
  constructor
  · rintro ⟨x, hx, hc, hk⟩
    have := contains_plain (hp.mono (fun y hy => by rw [List.mem_singleton.1 hy]; exact hx))
      (ha.mono (fun y hy => by rw [List.mem_singleton.1 hy]; exact hx)) hk
    rw [this] at hc
    exact ⟨Except.ok.inj hc, x, hx, hk⟩
  · rintro ⟨hh, x, hx, hk⟩
    refine ⟨x, hx, ?_, hk⟩
    rw [contains_plain (hp.mono (fun y hy => by rw [List.mem_singleton.1 hy]; exact hx))
      (ha.mono (fun y hy => by rw [List.mem_singleton.1 hy]; exact hx)) hk, hh]

/-- `s - other` for a `Set` operand, general form: the items of `s` that are not `in other`. -/
theorem sub_keys_general {s r : KS α κ} {o : Operand α κ} (hset : o.isSet = true) (hwf : WF s)
    (h : subOp s o = .ok r) (k : κ) :
    k ∈ r.keys ↔ ∃ v, (k, v) ∈ s.dict ∧ o.contains s.cfg v = .ok false := by
  unfold subOp toSet at h
  simp only [hset, if_true] at h
  rw [mem_keys_iff_hasKey, filterAdd_keys _ _ h k]
  simp only [KS.emptyLike, hasKey_nil, Bool.false_eq_true, false_or, notM_ok_iff, Bool.not_true]
  constructor
  · rintro ⟨x, hx, hc, hk⟩
    obtain ⟨k', hm⟩ := mem_iter_iff.1 hx
    have := hwf.keyed k' x hm
    rw [hk] at this; cases this
    exact ⟨x, hm, hc⟩
  · rintro ⟨v, hm, hc⟩
    exact ⟨v, mem_iter_iff.2 ⟨k, hm⟩, hc, hwf.keyed k v hm⟩

/-- **`-` is difference on keys** against a KeyedSet that identifies items the
same way; it never fails. -/
theorem sub_keys {s t : KS α κ} (hi : Inv s) (hkf : t.cfg.keyOf = s.cfg.keyOf)
    (hp : PlainFor t s.iter) (ha : AgreeE t s.iter) :
    ∃ r, subOp s (.ks t) = .ok r ∧ ∀ k, k ∈ r.keys ↔ k ∈ s.keys ∧ k ∉ t.keys := by
  have hc : ∀ k v, (k, v) ∈ s.dict → contains t v = .ok (hasKey t.dict k) := by
    intro k v hm
    have hv : v ∈ s.iter := mem_iter_iff.2 ⟨k, hm⟩
    exact contains_plain (hp.mono (fun y hy => by rw [List.mem_singleton.1 hy]; exact hv))
      (ha.mono (fun y hy => by rw [List.mem_singleton.1 hy]; exact hv))
      (by rw [hkf]; exact hi.wf.keyed k v hm)
  have hsucc : ∃ r, subOp s (.ks t) = .ok r := by
    unfold subOp toSet
    simp only [Operand.isSet, if_true]
    apply filterAdd_self_succeeds _ hi
    intro x hx
    obtain ⟨k, hm⟩ := mem_iter_iff.1 hx
    exact ⟨!(hasKey t.dict k), by simp [Operand.contains, hc k x hm, C14.notM]⟩
  obtain ⟨r, hr⟩ := hsucc
  refine ⟨r, hr, fun k => ?_⟩
  rw [sub_keys_general rfl hi.wf hr k, mem_keys_iff_hasKey, mem_keys_iff_hasKey]
  constructor
  · rintro ⟨v, hm, hcv⟩
    simp only [Operand.contains, hc k v hm, Except.ok.injEq] at hcv
    exact ⟨(hasKey_iff _ _).2 ⟨v, hm⟩, by simp [hcv]⟩
  · rintro ⟨hh, hn⟩
    obtain ⟨v, hm⟩ := (hasKey_iff _ _).1 hh
    refine ⟨v, hm, ?_⟩
    simp only [Operand.contains, hc k v hm, Except.ok.injEq]
    simpa using hn

/-- FULL statement for a built-in set operand (does NOT hold for the code as it is:
`sub_pyset_keys_full_fails`): `s - {…}` is the difference on keys for every
well-formed `s` and every agreeing built-in set. -/
def sub_pyset_keys_full (α κ : Type) [DecidableEq α] [DecidableEq κ] : Prop :=
  ∀ (s : KS α κ) (xs : List α), Inv s → AgreeS s xs →
    ∃ r, subOp s (.pyset xs) = .ok r ∧ ∀ k, k ∈ r.keys ↔ k ∈ s.keys ∧ ¬ keysOf s.cfg xs k

/-- **`-` against a built-in set** is difference on keys *provided every item of
the receiver is hashable* (known finding `unhashable_items_vs_builtin_set`: with
an unhashable item `item in <set>` raises `TypeError`). -/
theorem sub_pyset_keys_partial {s : KS α κ} {xs : List α} (hi : Inv s) (ha : AgreeS s xs)
    (hh : ∀ v ∈ s.iter, s.cfg.hashable v = true) :
    ∃ r, subOp s (.pyset xs) = .ok r ∧ ∀ k, k ∈ r.keys ↔ k ∈ s.keys ∧ ¬ keysOf s.cfg xs k := by
  have hsucc : ∃ r, subOp s (.pyset xs) = .ok r := by
    unfold subOp toSet
    simp only [Operand.isSet, if_true]
    apply filterAdd_self_succeeds _ hi
    intro x hx
    exact ⟨!(xs.contains x), by simp [Operand.contains, hh x hx, C14.notM]⟩
  obtain ⟨r, hr⟩ := hsucc
  refine ⟨r, hr, fun k => ?_⟩
  rw [sub_keys_general rfl hi.wf hr k, mem_keys_iff_hasKey]
  constructor
  · rintro ⟨v, hm, hcv⟩
    have hv : v ∈ s.iter := mem_iter_iff.2 ⟨k, hm⟩
    simp only [Operand.contains, hh v hv, if_true, Except.ok.injEq] at hcv
    refine ⟨(hasKey_iff _ _).2 ⟨v, hm⟩, ?_⟩
    rintro ⟨x, hx, hk⟩
    have := ha x hx k v hk ((dictGet_eq_some_iff _ hi.wf.nodup k v).2 hm)
    subst this
    simp [hx] at hcv
  · rintro ⟨hk, hn⟩
    obtain ⟨v, hm⟩ := (hasKey_iff _ _).1 hk
    have hv : v ∈ s.iter := mem_iter_iff.2 ⟨k, hm⟩
    refine ⟨v, hm, ?_⟩
    simp only [Operand.contains, hh v hv, if_true, Except.ok.injEq]
    cases hc : xs.contains v with
    | false => rfl
    | true =>
      exfalso; apply hn
      exact ⟨v, by simpa using hc, hi.wf.keyed k v hm⟩

/-- **`<=` is inclusion of the key sets** against a KeyedSet that identifies items the same way. -/
theorem le_keys {s t : KS α κ} (hws : WF s) (hwt : WF t) (hkf : t.cfg.keyOf = s.cfg.keyOf)
    (hp : PlainFor t s.iter) (ha : AgreeE t s.iter) :
    ∃ b, leOp s (.ks t) = .ok b ∧ (b = true ↔ ∀ k, k ∈ s.keys → k ∈ t.keys) := by
  have hc : ∀ v ∈ s.iter, Operand.contains s.cfg (.ks t) v
      = .ok (match s.cfg.keyOf v with | .ok k => hasKey t.dict k | .error _ => false) := by
    intro v hv
    obtain ⟨k, hm⟩ := mem_iter_iff.1 hv
    have hk := hws.keyed k v hm
    simp only [Operand.contains, hk]
    exact contains_plain (hp.mono (fun y hy => by rw [List.mem_singleton.1 hy]; exact hv))
      (ha.mono (fun y hy => by rw [List.mem_singleton.1 hy]; exact hv)) (by rw [hkf]; exact hk)
  unfold leOp
  simp only [Operand.isSet, Bool.not_true, Bool.false_eq_true, if_false]
  by_cases hlen : s.len > (Operand.ks t : Operand α κ).len
  · simp only [hlen, if_true]
    refine ⟨false, rfl, ?_⟩
    simp only [Bool.false_eq_true, false_iff]
    intro hsub
    have : s.keys.length ≤ t.keys.length := hws.nodup.length_le_of_subset (fun k hk => hsub k hk)
    simp [KS.len, Operand.len, Operand.iter, KS.iter, KS.keys] at hlen this
    omega
  · simp only [hlen, if_false]
    rw [allM_total _ _ _ hc]
    refine ⟨_, rfl, ?_⟩
    rw [List.all_eq_true]
    constructor
    · intro hall k hk
      obtain ⟨v, hm⟩ := (hasKey_iff _ _).1 ((mem_keys_iff_hasKey s k).1 hk)
      have := hall v (mem_iter_iff.2 ⟨k, hm⟩)
      rw [hws.keyed k v hm] at this
      exact (mem_keys_iff_hasKey t k).2 this
    · intro hsub v hv
      obtain ⟨k, hm⟩ := mem_iter_iff.1 hv
      rw [hws.keyed k v hm]
      exact (mem_keys_iff_hasKey t k).1 (hsub k ((mem_keys_iff_hasKey s k).2 ((hasKey_iff _ _).2 ⟨v, hm⟩)))

/-- **`==` between KeyedSets is equality of the key → item maps.** -/
theorem eq_keys {s t : KS α κ} (hws : WF s) (hwt : WF t) :
    eqOp s (.ks t) = true ↔ abs s = abs t := by
  unfold eqOp dictEq
  simp only [Bool.and_eq_true, beq_iff_eq, List.all_eq_true]
  constructor
  · rintro ⟨hlen, hall⟩
    have hsub : ∀ k ∈ s.keys, k ∈ t.keys := by
      intro k hk
      obtain ⟨v, hm⟩ := (hasKey_iff _ _).1 ((mem_keys_iff_hasKey s k).1 hk)
      exact (mem_keys_iff_hasKey t k).2 (hasKey_of_dictGet (hall (k, v) hm))
    have hsup := subset_of_length_eq hws.nodup hsub (by simpa [KS.keys] using hlen)
    funext k
    unfold abs
    cases hs : dictGet s.dict k with
    | some v => exact (hall (k, v) (mem_of_dictGet hs)).symm
    | none =>
      cases ht : dictGet t.dict k with
      | none => rfl
      | some w =>
        have := (hasKey_iff_mem_keys _ _).2 (hsup k ((mem_keys_iff_hasKey t k).2 (hasKey_of_dictGet ht)))
        rw [← dictGet_isSome, hs] at this
        cases this
  · intro he
    have hget : ∀ k, dictGet s.dict k = dictGet t.dict k := fun k => congrFun he k
    have hk : ∀ k, k ∈ s.keys ↔ k ∈ t.keys := by
      intro k
      rw [mem_keys_iff_hasKey, mem_keys_iff_hasKey, ← dictGet_isSome, ← dictGet_isSome, hget k]
    constructor
    · have := ((List.perm_ext_iff_of_nodup hws.nodup hwt.nodup).2 hk).length_eq
      simpa [KS.keys] using this
    · intro p hp
      rw [← hget p.1]
      exact (dictGet_eq_some_iff _ hws.nodup p.1 p.2).2 hp

/-- `==` against a built-in set: equal exactly when every item is hashable and
both hold the same items (so never equal to a set when an item is unhashable). -/
theorem eq_pyset (s : KS α κ) (xs : List α) :
    eqOp s (.pyset xs) = true ↔
      (∀ v ∈ s.iter, s.cfg.hashable v = true) ∧ (∀ v, v ∈ s.iter ↔ v ∈ xs) := by
  unfold eqOp
  simp only [Bool.and_eq_true, List.all_eq_true, List.contains_iff_mem]
  constructor
  · rintro ⟨⟨h1, h2⟩, h3⟩; exact ⟨h1, fun v => ⟨h2 v, h3 v⟩⟩
  · rintro ⟨h1, h2⟩; exact ⟨⟨h1, fun v hv => (h2 v).1 hv⟩, fun v hv => (h2 v).2 hv⟩

/-- **`|=`**: when it completes, the keys are the union (the state is the same as
that of `s | other`, built in place). -/
theorem ior_keys {s s' : KS α κ} {o : Operand α κ} (hwf : WF s) (h : iorOp s o = (s', none)) (k : κ) :
    (k ∈ s'.keys ↔ k ∈ s.keys ∨ keysOf s.cfg o.iter k) ∧ s'.cfg = s.cfg ∧ s'.enforce = s.enforce := by
  unfold iorOp at h
  have hf := (addAllP_none_iff _ _ _).1 h
  refine ⟨?_, ?_⟩
  · rw [mem_keys_iff_hasKey, filterAdd_keys _ _ hf k, mem_keys_iff_hasKey]
    simp [keysOf]
  · exact sameKind_filterAdd _ _ hf

/-- **`-=`** with an operand that is a set of items: never fails, and the keys
are the difference. -/
theorem isub_keys (s : KS α κ) (xs : List α) (hwf : WF s) (hp : PlainFor s xs) (ha : AgreeE s xs)
    (hkeyed : ∀ x ∈ xs, ∃ k, s.cfg.keyOf x = .ok k) :
    ∃ s', discardAllP s xs = (s', none) ∧ SameKind s' s ∧ WF s' ∧
      ∀ k, k ∈ s'.keys ↔ k ∈ s.keys ∧ ¬ keysOf s.cfg xs k := by
  induction xs generalizing s with
  | nil =>
    refine ⟨s, rfl, SameKind.refl _, hwf, fun k => ?_⟩
    simp [keysOf]
  | cons x xs ih =>
    obtain ⟨k0, hk0⟩ := hkeyed x List.mem_cons_self
    obtain ⟨s1, hd, hkind, hget, hwf1⟩ := discard_plain
      (hp.mono (fun y hy => by rw [List.mem_singleton.1 hy]; exact List.mem_cons_self))
      (ha.mono (fun y hy => by rw [List.mem_singleton.1 hy]; exact List.mem_cons_self)) hk0
    have hhas : ∀ j, hasKey s1.dict j = true ↔ hasKey s.dict j = true ∧ j ≠ k0 := by
      intro j
      rw [← dictGet_isSome, ← dictGet_isSome, hget j]
      by_cases hj : j = k0 <;> simp [hj]
    have hp1 : PlainFor s1 xs := by
      intro y hy k hak hh
      rw [hkind.1] at hak ⊢
      exact hp y (List.mem_cons_of_mem _ hy) k hak ((hhas k).1 hh).1
    have ha1 : AgreeE s1 xs := by
      intro he y hy k v hk hv
      rw [hkind.1] at hk
      rw [hget k] at hv
      by_cases hj : k = k0
      · simp [hj] at hv
      · simp only [hj, if_false] at hv
        exact ha (by rw [← hkind.2]; exact he) y (List.mem_cons_of_mem _ hy) k v hk hv
    obtain ⟨s', hs', hkind', hwf', hkeys⟩ := ih s1 (hwf1 hwf) hp1 ha1
      (fun y hy => by rw [hkind.1]; exact hkeyed y (List.mem_cons_of_mem _ hy))
    refine ⟨s', ?_, hkind'.trans hkind, hwf', fun k => ?_⟩
    · unfold discardAllP; simp only [hd]; exact hs'
    · rw [hkeys k, mem_keys_iff_hasKey, hhas k, mem_keys_iff_hasKey, hkind.1]
      constructor
      · rintro ⟨⟨h1, h2⟩, h3⟩
        refine ⟨h1, ?_⟩
        rintro ⟨y, hy, hky⟩
        rcases List.mem_cons.1 hy with rfl | hy
        · rw [hk0] at hky; cases hky; exact h2 rfl
        · exact h3 ⟨y, hy, hky⟩
      · rintro ⟨h1, h2⟩
        refine ⟨⟨h1, ?_⟩, ?_⟩
        · intro e; subst e; exact h2 ⟨x, List.mem_cons_self, hk0⟩
        · rintro ⟨y, hy, hky⟩; exact h2 ⟨y, List.mem_cons_of_mem _ hy, hky⟩

/-- **`^` is symmetric difference on keys** between KeyedSets that identify items
the same way. -/
theorem xor_keys {s t r : KS α κ} (his : Inv s) (hit : Inv t) (hkf : t.cfg.keyOf = s.cfg.keyOf)
    (hp1 : PlainFor t s.iter) (ha1 : AgreeE t s.iter) (hp2 : PlainFor s t.iter) (ha2 : AgreeE s t.iter)
    (h : xorOp s (.ks t) = .ok r) (k : κ) :
    k ∈ r.keys ↔ (k ∈ s.keys ∧ k ∉ t.keys) ∨ (k ∈ t.keys ∧ k ∉ s.keys) := by
  obtain ⟨a, ha, hka⟩ := sub_keys his hkf hp1 ha1
  obtain ⟨b, hb, hkb⟩ := sub_keys hit hkf.symm hp2 ha2
  unfold xorOp toSet at h
  simp only [Operand.isSet, if_true, ha, hb] at h
  obtain ⟨hia, hsa⟩ := inv_subOp ha
  obtain ⟨hib, hsb⟩ := inv_subOp hb
  rw [or_keys hia.wf h k, hka k]
  have : keysOf a.cfg (Operand.ks b : Operand α κ).iter k ↔ k ∈ b.keys := by
    have hcfg : a.cfg.keyOf = b.cfg.keyOf := by rw [hsa.1, hsb.1, hkf]
    unfold keysOf
    rw [hcfg]
    exact (keysOf_iter hib.wf k).trans (mem_keys_iff_hasKey b k).symm
  rw [this, hkb k]


/-- **`<=` against a built-in set** is inclusion of the key sets, again provided
every item of the receiver is hashable (same known finding as `sub_pyset_keys_partial`). -/
theorem le_pyset_keys_partial {s : KS α κ} {xs : List α} (hws : WF s) (ha : AgreeS s xs)
    (hh : ∀ v ∈ s.iter, s.cfg.hashable v = true) :
    ∃ b, leOp s (.pyset xs) = .ok b ∧ (b = true ↔ ∀ k, k ∈ s.keys → keysOf s.cfg xs k) := by
  have hc : ∀ v ∈ s.iter, Operand.contains s.cfg (.pyset xs) v = .ok (xs.contains v) := by
    intro v hv; simp [Operand.contains, hh v hv]
  have hmem : (∀ k, k ∈ s.keys → keysOf s.cfg xs k) ↔ ∀ v ∈ s.iter, v ∈ xs := by
    constructor
    · intro hsub v hv
      obtain ⟨k, hm⟩ := mem_iter_iff.1 hv
      obtain ⟨x, hx, hk⟩ := hsub k ((mem_keys_iff_hasKey s k).2 ((hasKey_iff _ _).2 ⟨v, hm⟩))
      rw [ha x hx k v hk ((dictGet_eq_some_iff _ hws.nodup k v).2 hm)]
      exact hx
    · intro hall k hk
      obtain ⟨v, hm⟩ := (hasKey_iff _ _).1 ((mem_keys_iff_hasKey s k).1 hk)
      exact ⟨v, hall v (mem_iter_iff.2 ⟨k, hm⟩), hws.keyed k v hm⟩
  unfold leOp
  simp only [Operand.isSet, Bool.not_true, Bool.false_eq_true, if_false]
  by_cases hlen : s.len > (Operand.pyset xs : Operand α κ).len
  · simp only [hlen, if_true]
    refine ⟨false, rfl, ?_⟩
    simp only [Bool.false_eq_true, false_iff]
    intro hsub
    have hnd : s.iter.Nodup := (iter_pairwise hws).imp (fun hne e => hne (by rw [e]))
    have : s.iter.length ≤ xs.length := hnd.length_le_of_subset (fun v hv => hmem.1 hsub v hv)
    simp [KS.len, Operand.len, Operand.iter, KS.iter] at hlen this
    omega
  · simp only [hlen, if_false]
    rw [allM_total _ _ _ hc]
    refine ⟨_, rfl, ?_⟩
    rw [List.all_eq_true, hmem]
    simp

/-! ## The known finding: built-in set operands and unhashable items -/

/-- an untyped set with one unhashable item (think `KeyedSet([["k0", 1]], key=lambda x: x[0])`) -/
def witnessCfg : Cfg Nat Nat :=
  { keyOf := fun x => .ok x, asKey := fun _ => none, hashable := fun _ => false,
    typed := false, okItem := fun _ => true, okKey := fun _ => true }
def witness : KS Nat Nat := ⟨witnessCfg, false, [(0, 0)]⟩

/-- `witness - set()` raises `TypeError` (unhashable item asked `in` a built-in set) … -/
theorem witness_sub_raises :
    (match subOp witness (.pyset []) with | .error e => some e | .ok _ => none) = some Err.typeError := by
  decide

/-- … so the full statement does not hold of the code as it is. -/
theorem sub_pyset_keys_full_fails : ¬ sub_pyset_keys_full Nat Nat := by
  intro h
  have hinv : Inv witness :=
    ⟨⟨by simp [witness], by intro k v hm; simp [witness] at hm; simp [witness, witnessCfg, hm]⟩,
     by intro ht; simp [witness, witnessCfg] at ht⟩
  obtain ⟨r, hr, _⟩ := h witness [] hinv (by intro x hx; cases hx)
  have := witness_sub_raises
  rw [hr] at this
  cases this

/-! ## Non-vacuity: concrete states satisfying the hypotheses used above -/

section Examples

/-- items `(key, payload)`, explicit key function, nothing usable directly as a key -/
def exCfg (typed : Bool) : Cfg (Nat × Nat) Nat :=
  { keyOf := fun x => .ok x.1, asKey := fun _ => none, hashable := fun _ => true,
    typed := typed, okItem := fun x => x.2 < 100, okKey := fun k => k < 10 }
def exS : KS (Nat × Nat) Nat := ⟨exCfg true, true, [(1, (1, 5)), (2, (2, 7))]⟩
def exT : KS (Nat × Nat) Nat := ⟨exCfg false, false, [(2, (2, 7)), (3, (3, 0))]⟩

example : Inv exS :=
  ⟨⟨by decide, by intro k v hm; simp [exS] at hm; rcases hm with ⟨rfl, rfl⟩ | ⟨rfl, rfl⟩ <;> rfl⟩,
   by intro _ k v hm; simp [exS] at hm; rcases hm with ⟨rfl, rfl⟩ | ⟨rfl, rfl⟩ <;> decide⟩
example : PlainFor exT exS.iter := by intro x _ k hk; simp [exT, exCfg] at hk
example : AgreeE exS exT.iter := by
  intro _ x hx k v hk hv
  simp [exT, KS.iter] at hx
  rcases hx with rfl | rfl
  · simp [exS, exCfg] at hk; subst hk; simp [exS, dictGet] at hv; exact hv.symm
  · simp [exS, exCfg] at hk; subst hk; simp [exS, dictGet] at hv
example : DenotesM exS (1, 5) 1 := Or.inr ⟨rfl, by decide, fun _ => by decide⟩
example : Unamb exS (1, 5) := by
  intro k k' h h'
  rcases h with ⟨h, _⟩ | ⟨h, _, _⟩ <;> rcases h' with ⟨h', _⟩ | ⟨h', _, _⟩ <;>
    simp [exS, exCfg] at h h' <;> omega
-- the operators do something on these states (evaluated by the kernel)
example : (binOp .or exS (.ks exT)).toOption.map (·.keys) = some [1, 2, 3] := by decide
example : (binOp .and exS (.ks exT)).toOption.map (·.keys) = some [2] := by decide
example : (binOp .sub exS (.ks exT)).toOption.map (·.keys) = some [1] := by decide
example : (binOp .xor exS (.ks exT)).toOption.map (·.keys) = some [1, 3] := by decide
example : (binOp .or exS (.ks exT)).toOption.map (fun r => (r.enforce, r.cfg.typed)) = some (true, true) := by decide
-- enforce: an unequal item under key 1 is refused, a wrong-typed one too
example : (match add exS (1, 6) with | .error e => some e | .ok _ => none) = some Err.valueError := by decide
example : (match add exS (4, 100) with | .error e => some e | .ok _ => none) = some Err.typeError := by decide
example : (match add exS (11, 0) with | .error e => some e | .ok _ => none) = some Err.typeError := by decide
-- second generation (`typed_second_generation` is not vacuous): the result of `exS | exT` refuses an ill-typed item and an
-- ill-typed key, through `add` and through `|=`
example : ((binOp .or exS (.ks exT)).toOption.map fun r =>
    ((run r [.add (4, 100), .add (11, 0), .inplace .ior (.pylist [(5, 1), (6, 100)])]).1.keys,
     (run r [.add (4, 100)]).2.map fun o => match o with | .err e => some e | _ => none)) =
    some ([1, 2, 3, 5], [some Err.typeError]) := by decide
-- the parameterised constructor is decided by the survivors (`construct_typed_survivors`): an ill-typed item replaced by a
-- later well-typed one of the same key is not in the set; one that survives makes the construction fail
example : (construct (exCfg true) false [(1, 100), (1, 5)]).toOption.map (·.dict) = some [(1, (1, 5))] := by decide
example : (match construct (exCfg true) false [(1, 5), (1, 100)] with | .error e => some e | .ok _ => none)
    = some Err.typeError := by decide
example : (match construct (exCfg true) false [(1, 5), (11, 0)] with | .error e => some e | .ok _ => none)
    = some Err.typeError := by decide

/-- the documented ambiguity: ints keyed by `x / 10`, every int usable as a key -/
def ambCfg : Cfg Nat Nat :=
  { keyOf := fun x => .ok (x / 10), asKey := fun x => some x, hashable := fun _ => true,
    typed := false, okItem := fun _ => true, okKey := fun _ => true }
def ambS : KS Nat Nat := ⟨ambCfg, false, [(0, 1), (1, 10)]⟩
/-- `1` is at once the present key 1 and an item of the present key 0 … -/
example : ¬ Unamb ambS 1 := by
  intro h
  have := h 1 0 (Or.inl ⟨rfl, by decide⟩) (Or.inr ⟨rfl, by decide, fun he => by simp [ambS] at he⟩)
  cases this
/-- … and `pop()` returns item `1` but removes the binding of key 1 (the model mirrors the code). -/
example : (pop ambS).toOption.map (fun r => (r.1, r.2.dict)) = some (1, [(0, 1)]) := by decide

end Examples

end SpecVerif.Props.C14
