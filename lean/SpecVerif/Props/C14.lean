import SpecVerif.Proofs.C14
/-!
# C14 — KeyedSet is a set of items identified by key

Property theorems only (helper lemmas and the definitions of the invariants
`WF`, `Adm`, `SameKind`, `DenotesM`, `Unamb`, `DenotesL` are in `Proofs/C14.lean`).
Every theorem is about the executable definitions of `Model/C14.lean`, which
the correspondence check runs against `spec_classes.types.keyed.KeyedSet`.

Quantification: any value type `α`, key type `κ` (decidable equality), any
configuration `Cfg` (key function that may raise, as-key reading, hashability,
typed or not, any type predicates), both settings of `enforce`, any state
satisfying the invariant `Inv` (which every reachable state does: `inv_run`),
any operation, any operand (KeyedSet with its own configuration, built-in set,
list), any operation sequence of any length.

The abstraction of a state is the finite map `abs s : κ → Option α`
("most recently added item per key").
-/
set_option linter.unusedSectionVars false
set_option linter.unusedSimpArgs false
set_option linter.unusedVariables false
namespace SpecVerif.Props.C14
open SpecVerif.Py SpecVerif.C14

variable {α κ : Type} [DecidableEq α] [DecidableEq κ]

/-- The abstraction: the finite map key ⇀ item. -/
def abs (s : KS α κ) : κ → Option α := dictGet s.dict

/-- the map with `k` bound to `x` -/
def upd (m : κ → Option α) (k : κ) (x : α) : κ → Option α := fun k' => if k' = k then some x else m k'
/-- the map without `k` -/
def erase (m : κ → Option α) (k : κ) : κ → Option α := fun k' => if k' = k then none else m k'

theorem mem_keys_iff_abs (s : KS α κ) (k : κ) : k ∈ s.keys ↔ (abs s k).isSome = true := by
  unfold abs KS.keys
  rw [dictGet_isSome, hasKey_iff_mem_keys]

/-! ## Invariants over all operation sequences -/

/-- A freshly constructed set satisfies the invariants (unique keys, every item
under its own key, typed sets hold only well-typed items and keys). -/
theorem inv_construct {c : Cfg α κ} {enforce : Bool} {xs : List α} {s : KS α κ}
    (h : construct c enforce xs = .ok s) : Inv s ∧ s.cfg = c ∧ s.enforce = enforce := by
  unfold construct at h
  cases hf : filterAdd (fun _ => .ok true) (⟨{ c with typed := false }, enforce, []⟩ : KS α κ) xs with
  | error e => simp [hf] at h
  | ok s0 =>
    simp only [hf] at h
    have hinv0 : Inv (⟨{ c with typed := false }, enforce, []⟩ : KS α κ) :=
      ⟨⟨by simp, by simp⟩, by intro _ k v hm; simp at hm⟩
    obtain ⟨hi, hk⟩ := inv_filterAdd _ xs hinv0 hf
    have hwf : WF ({ s0 with cfg := c } : KS α κ) :=
      ⟨hi.wf.nodup, by
        intro k v hm
        have := hi.wf.keyed k v hm
        rw [hk.1] at this; exact this⟩
    by_cases ht : c.typed = true
    · simp only [ht, if_true] at h
      cases hva : validateAll c ({ s0 with cfg := c } : KS α κ).iter with
      | error e => simp [hva] at h
      | ok u =>
        simp only [hva] at h
        cases h
        refine ⟨⟨hwf, ?_⟩, rfl, hk.2⟩
        intro _ k v hm
        -- every stored item passed `validate`
        have hall : ∀ (l : List α), validateAll c l = .ok () → ∀ x ∈ l, ∃ k', validate c x = .ok k' := by
          intro l
          induction l with
          | nil => intro _ x hx; cases hx
          | cons y ys ih =>
            intro hl x hx
            unfold validateAll at hl
            cases hvy : validate c y with
            | error e => simp [hvy] at hl
            | ok k' =>
              simp only [hvy] at hl
              rcases List.mem_cons.1 hx with rfl | hx
              · exact ⟨k', hvy⟩
              · exact ih hl x hx
        have hvm : v ∈ ({ s0 with cfg := c } : KS α κ).iter := by
          unfold KS.iter; exact List.mem_map.2 ⟨(k, v), hm, rfl⟩
        obtain ⟨k', hk'⟩ := hall _ hva v hvm
        obtain ⟨hkey, hok⟩ := validate_ok hk'
        have : k' = k := by
          have := hwf.keyed k v hm
          simp only at this
          rw [hkey] at this; cases this; rfl
        subst this
        exact hok ht
    · simp only [ht, Bool.false_eq_true, if_false] at h
      cases h
      exact ⟨⟨hwf, fun h' => absurd h' ht⟩, rfl, hk.2⟩

/-- **Invariant induction.** Under every operation sequence (of any length, with
any operands, including rebinding the set to operator results) a KeyedSet keeps:
unique keys, every item stored under its own key, and the same key function /
flag / type parameters. -/
theorem wf_run (s : KS α κ) (ops : List (Op α κ)) (hi : Inv s) :
    WF (run s ops).1 ∧ (run s ops).1.cfg = s.cfg ∧ (run s ops).1.enforce = s.enforce :=
  let ⟨h1, h2⟩ := inv_run ops hi
  ⟨h1.wf, h2.1, h2.2⟩

/-- **A parameterised `KeyedSet[T, K]` never admits an item or key of the wrong
type**: for every state reachable by any operation sequence from a set that
satisfies the invariants (e.g. a constructed one, `inv_construct`), every stored
item passes the item type check and every key the key type check. -/
theorem typed_never_admits (s : KS α κ) (ops : List (Op α κ)) (hi : Inv s)
    (ht : s.cfg.typed = true) :
    ∀ k v, (k, v) ∈ (run s ops).1.dict → s.cfg.okItem v = true ∧ s.cfg.okKey k = true := by
  obtain ⟨h1, h2⟩ := inv_run ops hi
  intro k v hm
  have := h1.adm (by rw [h2.1]; exact ht) k v hm
  rw [h2.1] at this; exact this

/-- … and the sets *returned* by `| & - ^` identify items like the receiver
(same key function, flag, type parameters) and satisfy the same invariants, so
they never admit ill-typed items either. -/
theorem bin_result_kind (b : BinOp) (s r : KS α κ) (o : Operand α κ) (h : binOp b s o = .ok r) :
    r.cfg = s.cfg ∧ r.enforce = s.enforce ∧ WF r ∧
      (s.cfg.typed = true → ∀ k v, (k, v) ∈ r.dict → s.cfg.okItem v = true ∧ s.cfg.okKey k = true) := by
  obtain ⟨h1, h2⟩ := inv_binOp h
  refine ⟨h2.1, h2.2, h1.wf, ?_⟩
  intro ht k v hm
  have := h1.adm (by rw [h2.1]; exact ht) k v hm
  rw [h2.1] at this; exact this

/-- reflected operators with a built-in set / list on the left run the receiver's
method: same statement. With a KeyedSet `t` on the left the result is of `t`'s kind. -/
theorem rbin_result_kind (b : BinOp) (s r : KS α κ) (o : Operand α κ) (h : rbinOp b s o = .ok r) :
    (match o with
     | .ks t => r.cfg = t.cfg ∧ r.enforce = t.enforce
     | _ => r.cfg = s.cfg ∧ r.enforce = s.enforce) ∧ WF r := by
  cases o with
  | ks t =>
    obtain ⟨h1, h2⟩ := inv_binOp (b := b) (s := t) (o := .ks s) h
    exact ⟨⟨h2.1, h2.2⟩, h1.wf⟩
  | pyset xs =>
    cases b
    · obtain ⟨h1, h2⟩ := inv_andOp h; exact ⟨⟨h2.1, h2.2⟩, h1.wf⟩
    · obtain ⟨h1, h2⟩ := inv_orOp h; exact ⟨⟨h2.1, h2.2⟩, h1.wf⟩
    · obtain ⟨h1, h2⟩ := inv_rsubOp (s := s) (o := .pyset xs) h; exact ⟨⟨h2.1, h2.2⟩, h1.wf⟩
    · obtain ⟨h1, h2⟩ := inv_xorOp (s := s) (o := .pyset xs) h; exact ⟨⟨h2.1, h2.2⟩, h1.wf⟩
  | pylist xs =>
    cases b
    · obtain ⟨h1, h2⟩ := inv_andOp h; exact ⟨⟨h2.1, h2.2⟩, h1.wf⟩
    · obtain ⟨h1, h2⟩ := inv_orOp h; exact ⟨⟨h2.1, h2.2⟩, h1.wf⟩
    · obtain ⟨h1, h2⟩ := inv_rsubOp (s := s) (o := .pylist xs) h; exact ⟨⟨h2.1, h2.2⟩, h1.wf⟩
    · obtain ⟨h1, h2⟩ := inv_xorOp (s := s) (o := .pylist xs) h; exact ⟨⟨h2.1, h2.2⟩, h1.wf⟩

/-! ## add -/

/-- **`abs (add s x) = (abs s)[keyOf x ↦ x]`** whenever `add` succeeds. -/
theorem abs_add {s s' : KS α κ} {x : α} (h : add s x = .ok s') :
    ∃ k, s.cfg.keyOf x = .ok k ∧ abs s' = upd (abs s) k x := by
  obtain ⟨k, hv, rfl, _⟩ := add_ok h
  refine ⟨k, (validate_ok hv).1, ?_⟩
  funext k'
  simp [abs, upd, dictGet_dictSet]

/-- … and it succeeds exactly as the statement says: the item has a key, is of
the right type (typed sets), and — with `enforce` — its key is absent or bound
to an equal item. -/
theorem add_succeeds (s : KS α κ) (x : α) (k : κ) (hk : s.cfg.keyOf x = .ok k)
    (ht : s.cfg.typed = true → s.cfg.okItem x = true ∧ s.cfg.okKey k = true)
    (he : s.enforce = true → abs s k = none ∨ abs s k = some x) :
    ∃ s', add s x = .ok s' := by
  unfold add
  rw [validate_of hk ht]
  simp only
  by_cases hc : (s.enforce && hasKey s.dict k && (dictGet s.dict k != some x)) = true
  · exfalso
    simp only [Bool.and_eq_true, bne_iff_ne, ne_eq] at hc
    rcases he hc.1.1 with h | h
    · have := (dictGet_eq_none_iff _ _).1 h
      rw [hc.1.2] at this; cases this
    · exact hc.2 h
  · simp [hc]

/-- **With `enforce_item_equivalence=True`, adding an unequal item under an
existing key raises `ValueError`** … -/
theorem enforce_rejects (s : KS α κ) (x y : α) (k : κ) (he : s.enforce = true)
    (hk : s.cfg.keyOf x = .ok k)
    (ht : s.cfg.typed = true → s.cfg.okItem x = true ∧ s.cfg.okKey k = true)
    (hy : abs s k = some y) (hne : y ≠ x) : add s x = .error .valueError := by
  unfold add
  rw [validate_of hk ht]
  have h1 : hasKey s.dict k = true := hasKey_of_dictGet hy
  have h2 : (dictGet s.dict k != some x) = true := by
    unfold abs at hy
    rw [hy]; simp [hne]
  simp [he, h1, h2]

/-- … **and changes nothing**. -/
theorem enforce_rejects_unchanged (s : KS α κ) (x y : α) (k : κ) (he : s.enforce = true)
    (hk : s.cfg.keyOf x = .ok k)
    (ht : s.cfg.typed = true → s.cfg.okItem x = true ∧ s.cfg.okKey k = true)
    (hy : abs s k = some y) (hne : y ≠ x) : step s (.add x) = (s, .err .valueError) := by
  simp only [step, enforce_rejects s x y k he hk ht hy hne]

/-- a typed set refuses an ill-typed item or key with `TypeError`, unchanged -/
theorem typed_rejects (s : KS α κ) (x : α) (k : κ) (ht : s.cfg.typed = true)
    (hk : s.cfg.keyOf x = .ok k) (hbad : s.cfg.okItem x = false ∨ s.cfg.okKey k = false) :
    step s (.add x) = (s, .err .typeError) := by
  have : add s x = .error .typeError := by
    unfold add validate
    rw [hk]
    rcases hbad with h | h
    · simp [ht, h]
    · by_cases hi : s.cfg.okItem x = true <;> simp [ht, h, hi]
  simp only [step, this]

/-! ## membership, lookup, discard, remove accept an item or its key -/

/-- **`x in s`** is true exactly when `x` denotes a present key — as a key, or
as an item whose key is present (and, with `enforce`, bound to an equal item). -/
theorem member_item_or_key {s : KS α κ} {x : α} {b : Bool} (h : contains s x = .ok b) :
    b = true ↔ ∃ k, DenotesM s x k := contains_ok_iff h

/-- membership never raises when the key function only raises `TypeError` -/
theorem member_total (s : KS α κ) (x : α) (hx : KeyTotal s.cfg x) : ∃ b, contains s x = .ok b :=
  contains_total hx

/-- **lookup `s[x]`** returns the item bound to a key that `x` denotes (as a key
or as an item; the item reading ignores `enforce`) … -/
theorem lookup_sound {s : KS α κ} {x v : α} (h : getItem s x = .ok v) :
    ∃ k, DenotesL s x k ∧ abs s k = some v := by
  unfold getItem at h
  cases hd : inDict s x with
  | some k =>
    simp only [hd] at h
    have hk := (inDict_eq_some_iff s x k).1 hd
    cases hg : dictGet s.dict k with
    | none => simp [hg] at h
    | some w =>
      simp only [hg] at h; cases h
      exact ⟨k, ⟨Or.inl hk.1, hk.2⟩, hg⟩
  | none =>
    simp only [hd] at h
    cases hk : s.cfg.keyOf x with
    | error e => cases e <;> simp [hk] at h
    | ok k =>
      simp only [hk] at h
      cases hg : dictGet s.dict k with
      | none => simp [hg] at h
      | some w =>
        simp only [hg] at h; cases h
        exact ⟨k, ⟨Or.inr hk, hasKey_of_dictGet hg⟩, hg⟩

/-- … it finds it whenever `x` denotes a present key, unambiguously … -/
theorem lookup_complete {s : KS α κ} {x : α} {k : κ} (hd : DenotesL s x k)
    (hu : ∀ k', DenotesL s x k' → k' = k) : ∃ v, getItem s x = .ok v ∧ abs s k = some v := by
  obtain ⟨v, hv⟩ := dictGet_of_hasKey hd.2
  refine ⟨v, ?_, hv⟩
  unfold getItem
  cases hin : inDict s x with
  | some k' =>
    have hk' := (inDict_eq_some_iff s x k').1 hin
    have : k' = k := hu k' ⟨Or.inl hk'.1, hk'.2⟩
    subst this
    simp [hv]
  | none =>
    simp only
    rcases hd.1 with ha | hk
    · have := (inDict_eq_none_iff s x).1 hin k ha
      rw [hd.2] at this; cases this
    · simp [hk, hv]

/-- … and raises `KeyError` when `x` denotes nothing. -/
theorem lookup_absent {s : KS α κ} {x : α} (hx : KeyTotal s.cfg x) (hn : ¬ ∃ k, DenotesL s x k) :
    getItem s x = .error .keyError := by
  unfold getItem
  cases hin : inDict s x with
  | some k =>
    have hk := (inDict_eq_some_iff s x k).1 hin
    exact absurd ⟨k, Or.inl hk.1, hk.2⟩ hn
  | none =>
    simp only
    cases hk : s.cfg.keyOf x with
    | error e => have := hx e hk; subst this; rfl
    | ok k =>
      simp only
      cases hg : dictGet s.dict k with
      | none => rfl
      | some v => exact absurd ⟨k, Or.inr hk, hasKey_of_dictGet hg⟩ hn

/-- `get(key)` is the dict accessor: the binding of the key, `None` when absent. -/
theorem get_by_key (s : KS α κ) (x : α) (k : κ) (hh : s.cfg.hashable x = true)
    (ha : s.cfg.asKey x = some k) : getOpt s x = .ok (abs s k) := by
  unfold getOpt; simp [hh, ha, abs]

/-- **`discard(x)`** removes a key that `x` denotes (item or key) and nothing else;
when `x` denotes nothing the set is unchanged. -/
theorem discard_spec {s s' : KS α κ} {x : α} (h : discard s x = .ok s') :
    (∃ k, DenotesM s x k ∧ abs s' = erase (abs s) k ∧ s'.cfg = s.cfg ∧ s'.enforce = s.enforce) ∨
    ((¬ ∃ k, DenotesM s x k) ∧ s' = s) := by
  rcases discard_cases h with ⟨k, hk, rfl⟩ | ⟨hn, rfl⟩
  · refine Or.inl ⟨k, hk, ?_, rfl, rfl⟩
    funext k'
    simp [abs, erase, dictGet_dictDel]
  · exact Or.inr ⟨hn, rfl⟩

/-- Under the unambiguity hypothesis it is *the* key `x` denotes, and afterwards
`x` is no longer a member. -/
theorem discard_unamb {s s' : KS α κ} {x : α} {k : κ} (hu : Unamb s x) (hk : DenotesM s x k)
    (h : discard s x = .ok s') : abs s' = erase (abs s) k ∧ contains s' x ≠ .ok true := by
  rcases discard_spec h with ⟨k', hk', habs, hcfg, henf⟩ | ⟨hn, _⟩
  · have : k' = k := hu k' k hk' hk
    subst this
    refine ⟨habs, ?_⟩
    intro hc
    obtain ⟨k'', hk''⟩ := (contains_ok_iff hc).1 rfl
    -- anything `x` denotes in `s'` it denoted in `s`, hence it is `k'`, which is gone
    have hget : ∀ j, dictGet s'.dict j = if j = k' then none else dictGet s.dict j := by
      intro j; have := congrFun habs j; simpa [abs, erase] using this
    have hhas : ∀ j, hasKey s'.dict j = true → hasKey s.dict j = true ∧ j ≠ k' := by
      intro j hj
      obtain ⟨v, hv⟩ := dictGet_of_hasKey hj
      rw [hget j] at hv
      by_cases hjk : j = k'
      · simp [hjk] at hv
      · simp only [hjk, if_false] at hv
        exact ⟨hasKey_of_dictGet hv, hjk⟩
    have hden : DenotesM s x k'' ∧ k'' ≠ k' := by
      rcases hk'' with ⟨ha, hh⟩ | ⟨hkey, hh, heq⟩
      · rw [hcfg] at ha
        exact ⟨Or.inl ⟨ha, (hhas k'' hh).1⟩, (hhas k'' hh).2⟩
      · rw [hcfg] at hkey
        refine ⟨Or.inr ⟨hkey, (hhas k'' hh).1, ?_⟩, (hhas k'' hh).2⟩
        intro he
        have := heq (by rw [henf]; exact he)
        rw [hget k''] at this
        simp only [(hhas k'' hh).2, if_false] at this
        exact this
    exact hden.2 (hu k'' k' hden.1 hk')
  · exact absurd ⟨k, hk⟩ hn

/-- **`remove(x)`**: like `discard` when `x` is a member … -/
theorem remove_spec {s s' : KS α κ} {x : α} (h : remove s x = .ok s') :
    ∃ k, DenotesM s x k ∧ abs s' = erase (abs s) k := by
  unfold remove at h
  cases hc : contains s x with
  | error e => simp [hc] at h
  | ok b =>
    cases b with
    | false => simp [hc] at h
    | true =>
      simp only [hc] at h
      rcases discard_spec h with ⟨k, hk, habs, _, _⟩ | ⟨hn, _⟩
      · exact ⟨k, hk, habs⟩
      · exact absurd ((contains_ok_iff hc).1 rfl) hn

/-- … and it succeeds for every member. -/
theorem remove_member {s : KS α κ} {x : α} {k : κ} (hk : DenotesM s x k) : ∃ s', remove s x = .ok s' := by
  unfold remove
  rw [contains_true_of_denotes hk]
  simp only
  unfold SpecVerif.C14.discard
  cases hd : inDict s x with
  | some k' => exact ⟨_, rfl⟩
  | none =>
    rcases hk with h | h
    · have := (inDict_eq_none_iff s x).1 hd k h.1
      rw [h.2] at this; cases this
    · simp only [(itemMatch_some_iff s x k).2 h]
      exact ⟨_, rfl⟩

/-- … `KeyError`, set unchanged, when `x` denotes nothing. -/
theorem remove_absent {s : KS α κ} {x : α} (hx : KeyTotal s.cfg x) (hn : ¬ ∃ k, DenotesM s x k) :
    step s (.remove x) = (s, .err .keyError) := by
  obtain ⟨b, hb⟩ := contains_total (s := s) hx
  have : b = false := by
    cases b with
    | false => rfl
    | true => exact absurd ((contains_ok_iff hb).1 rfl) hn
  subst this
  simp only [step, remove, hb]

/-- In a well-formed set an item and its key denote the same thing: a stored
item is a member, its key is a member (when usable as a key), and both remove
the same binding. -/
theorem stored_item_is_member {s : KS α κ} (hwf : WF s) {k : κ} {v : α} (hm : (k, v) ∈ s.dict) :
    contains s v = .ok true ∧ (∃ w, getItem s v = .ok w) :=
  ⟨contains_true_of_denotes (Or.inr (denotes_stored hwf hm)), by
    unfold getItem
    cases hd : inDict s v with
    | some k' =>
      have hk' := (inDict_eq_some_iff s v k').1 hd
      obtain ⟨w, hw⟩ := dictGet_of_hasKey hk'.2
      exact ⟨w, by simp [hw]⟩
    | none =>
      have := (dictGet_eq_some_iff _ hwf.nodup k v).2 hm
      exact ⟨v, by simp [hwf.keyed k v hm, this]⟩⟩

/-! ## len and iteration see one item per key -/

/-- **`len` / iteration / `keys()` / `items()`**: the keys are distinct, `len` is
their number, iteration yields exactly the bound item of each key in order, each
iterated item has the corresponding key, and `items()` is the graph of `abs`. -/
theorem len_iter (s : KS α κ) (hwf : WF s) :
    s.keys.Nodup ∧ s.len = s.keys.length ∧ s.iter.length = s.len ∧
    s.iter = s.keys.filterMap (abs s) ∧
    s.iter.map s.cfg.keyOf = s.keys.map .ok ∧
    (∀ k v, (k, v) ∈ s.dict ↔ abs s k = some v) := by
  refine ⟨hwf.nodup, by simp [KS.len, KS.keys], by simp [KS.len, KS.iter], ?_, ?_, ?_⟩
  · -- iteration = lookup of every key
    unfold KS.iter KS.keys abs
    have : ∀ p ∈ s.dict, dictGet s.dict p.1 = some p.2 := by
      intro p hp; exact (dictGet_eq_some_iff _ hwf.nodup p.1 p.2).2 hp
    generalize hd : s.dict = d at this
    clear hd
    induction d with
    | nil => rfl
    | cons p ps ih =>
      -- use the general statement over an arbitrary lookup function instead
      simp only [List.map_cons, List.filterMap_cons, this p List.mem_cons_self]
      congr 1
      -- tails: lookups agree because `this` holds for them
      have aux : ∀ (l : List (κ × α)) (f : κ → Option α), (∀ q ∈ l, f q.1 = some q.2) →
          l.map (·.2) = (l.map (·.1)).filterMap f := by
        intro l f hf
        induction l with
        | nil => rfl
        | cons q qs ihq =>
          simp only [List.map_cons, List.filterMap_cons, hf q List.mem_cons_self]
          congr 1
          exact ihq (fun r hr => hf r (List.mem_cons_of_mem _ hr))
      exact aux ps _ (fun q hq => this q (List.mem_cons_of_mem _ hq))
  · unfold KS.iter KS.keys
    rw [List.map_map, List.map_map]
    apply List.map_congr_left
    intro p hp
    exact hwf.keyed p.1 p.2 hp
  · intro k v
    exact (dictGet_eq_some_iff _ hwf.nodup k v).symm

/-! ## pop / clear -/

/-- `pop()` returns the first item; the set loses exactly one binding (that of
the item's key when the item is unambiguous). -/
theorem pop_spec {s s' : KS α κ} {v : α} (hwf : WF s) (h : pop s = .ok (v, s')) :
    (∃ k, abs s k = some v ∧ (Unamb s v → abs s' = erase (abs s) k)) ∧ s'.len + 1 = s.len := by
  unfold pop at h
  cases hd : s.dict with
  | nil => simp [hd] at h
  | cons p ps =>
    simp only [hd] at h
    cases hdis : discard s p.2 with
    | error e => simp [hdis] at h
    | ok s'' =>
      simp only [hdis] at h
      cases h
      have hm : (p.1, p.2) ∈ s.dict := by rw [hd]; exact List.mem_cons_self
      have hden := denotes_stored hwf hm
      refine ⟨⟨p.1, (dictGet_eq_some_iff _ hwf.nodup _ _).2 hm, ?_⟩, ?_⟩
      · intro hu
        exact (discard_unamb hu (Or.inr hden) hdis).1
      · rcases discard_cases hdis with ⟨k, hk, rfl⟩ | ⟨hn, _⟩
        · have hk' : hasKey s.dict k = true := by
            rcases hk with hk | hk
            · exact hk.2
            · exact hk.2.1
          exact length_dictDel_of_hasKey _ _ hwf.nodup hk'
        · exact absurd ⟨p.1, Or.inr hden⟩ hn

/-- `pop()` on an empty set raises `KeyError`. -/
theorem pop_empty (s : KS α κ) (h : s.dict = []) : pop s = .error .keyError := by
  unfold pop; rw [h]

/-- `clear()` empties any well-formed set and never raises (even in the
ambiguous case, where `pop` may remove another binding than the one it returns). -/
theorem clear_spec (s : KS α κ) (hwf : WF s) : clear s = ({ s with dict := [] }, none) := by
  unfold clear
  suffices h : ∀ (n : Nat) (s : KS α κ), WF s → s.dict.length = n →
      clear.go n s = ({ s with dict := [] }, none) from h _ s hwf rfl
  intro n
  induction n with
  | zero =>
    intro s _ hl
    have : s.dict = [] := List.eq_nil_of_length_eq_zero hl
    unfold clear.go
    cases s; simp_all
  | succ n ih =>
    intro s hwf hl
    unfold clear.go
    cases hd : s.dict with
    | nil => rw [hd] at hl; cases hl
    | cons p ps =>
      have hm : (p.1, p.2) ∈ s.dict := by rw [hd]; exact List.mem_cons_self
      have hden := denotes_stored hwf hm
      obtain ⟨s', hs'⟩ := discard_total (s := s) (x := p.2) (by
        cases hin : inDict s p.2 with
        | some k => exact Or.inr ⟨k, rfl⟩
        | none =>
          refine Or.inl ?_
          intro e he; rw [hden.1] at he; cases he)
      have hpop : pop s = .ok (p.2, s') := by
        unfold pop; rw [hd]; simp only [hs']
      rw [hpop]
      simp only
      obtain ⟨_, hlen⟩ := pop_spec hwf hpop
      have hinv : WF s' ∧ SameKind s' s := by
        rcases discard_ok hs' with rfl | ⟨k, _, rfl⟩
        · exact ⟨hwf, SameKind.refl _⟩
        · exact ⟨⟨nodup_keys_dictDel _ _ hwf.nodup,
            fun k' v' h => hwf.keyed k' v' ((mem_dictDel _ _ _ _).1 h).1⟩, ⟨rfl, rfl⟩⟩
      have hl' : s'.dict.length = n := by
        have : s.len = n + 1 := hl
        unfold KS.len at hlen this; omega
      rw [ih s' hinv.1 hl']
      obtain ⟨h1, h2⟩ := hinv.2
      cases s; cases s'; simp_all

/-! ## failing operations leave the set unchanged -/

/-- Every operation that raises leaves the set as it was — except the bulk
in-place operators `|= &= -= ^=`, which (CPython `MutableSet`) keep the elements
processed before the failing one: see `ior_failure_prefix`. -/
theorem failed_step_unchanged (s : KS α κ) (op : Op α κ) (e : Err)
    (hop : match op with
      | .inplace _ _ => False | .inplaceSelf _ => False | .clear => False | _ => True)
    (h : (step s op).2 = .err e) : (step s op).1 = s := by
  cases op with
  | add x => simp only [step] at h ⊢; split <;> simp_all
  | discard x => simp only [step] at h ⊢; split <;> simp_all
  | remove x => simp only [step] at h ⊢; split <;> simp_all
  | pop => simp only [step] at h ⊢; split <;> simp_all
  | rebind b o => simp only [step] at h ⊢; split <;> simp_all
  | clear => cases hop
  | inplace i o => cases hop
  | inplaceSelf i => cases hop
  | contains x => rfl
  | getItem x => rfl
  | get x => rfl
  | keys => rfl
  | items => rfl
  | len => rfl
  | iter => rfl
  | bin b o => rfl
  | rbin b o => rfl
  | cmp c o => rfl
  | rcmp c o => rfl

/-- a failing `s |= it` has added exactly the elements before the first one whose
`add` fails; that `add` itself changed nothing. -/
theorem ior_failure_prefix (s s' : KS α κ) (xs : List α) (e : Err) (h : addAllP s xs = (s', some e)) :
    ∃ pre x post, xs = pre ++ x :: post ∧ addAllP s pre = (s', none) ∧ add s' x = .error e := by
  induction xs generalizing s with
  | nil => simp [addAllP] at h
  | cons y ys ih =>
    unfold addAllP at h
    cases ha : add s y with
    | error e' =>
      simp only [ha] at h
      cases h
      exact ⟨[], y, ys, rfl, rfl, ha⟩
    | ok s1 =>
      simp only [ha] at h
      obtain ⟨pre, x, post, hxs, hpre, hx⟩ := ih s1 h
      refine ⟨y :: pre, x, post, by rw [hxs]; rfl, ?_, hx⟩
      unfold addAllP; simp only [ha]; exact hpre

end SpecVerif.Props.C14
