import SpecVerif.Proofs.C15
/-!
# C15 — the run-time type check accepts a value exactly when it conforms structurally

Property theorems only (helper lemmas: `Proofs/C15.lean`).  Every theorem is about
the executable definitions of `Model/C15.lean`:

* `checkType` — IMPL, the branch order of `spec_classes/utils/type_checking.py`
  (`check_type`, `_check_subclass`) and of the `isinstance` hook of
  `spec_classes/types/validated.py` (`ValidatedTypeMeta.__instancecheck__`, `bounded`),
  with every point where the Python code can raise;
* `conforms` — SPEC, the structural relation of the statement of C15.

Both are run against the real `check_type` (and `conforms` against an independent
Python reference checker) by `harness/corr_C15.py` on every check.

Quantification: any environment `E` (subclass table of the user/spec classes, total
predicates of the `validated` types), any annotation `t` of ANY nesting depth
satisfying `Ty.wf`, any value `v` of the value universe.  `Ty.wf` is a decidable
sanity predicate (see `Model/C15.lean`): the argument of `Type[..]` has no `Literal`
on its union spine, the base of `bounded(..)` is a numeric annotation, Literal choices
are scalars.  `wf_is_needed_*` show the code does raise outside it.

Generations: `Ty.chain base gens` is `bounded(..)` of `bounded(..)` of … (and validated types
over a base, `Ty.refined`) applied to `base`; `generations_iff` and its corollaries state that
every generation's predicate counts, for any number of generations.
-/
set_option linter.unusedSectionVars false
set_option linter.unusedSimpArgs false
namespace SpecVerif.Props.C15
open SpecVerif.Py SpecVerif.C15

variable (E : Env)

/-! ## The main theorem: never raises, and exact -/

/-- **IMPL = SPEC.** On a well-formed annotation of any depth `check_type` does not
raise and returns exactly whether the value conforms structurally. -/
theorem checkType_eq_conforms {t : Ty} (hwf : t.wf = true) (v : Val) :
    checkType E t v = .ok (conforms E t v) :=
  checkType_ok E t hwf v

/-- Within the annotation language the check never raises. -/
theorem checkType_never_raises {t : Ty} (hwf : t.wf = true) (v : Val) (e : Err) :
    checkType E t v ≠ .error e := by
  rw [checkType_eq_conforms E hwf v]; intro h; cases h

/-- Accepted exactly when conforming. -/
theorem checkType_true_iff {t : Ty} (hwf : t.wf = true) (v : Val) :
    checkType E t v = .ok true ↔ conforms E t v = true := by
  rw [checkType_eq_conforms E hwf v]
  constructor
  · intro h; injection h
  · intro h; rw [h]

/-- Rejected exactly when not conforming. -/
theorem checkType_false_iff {t : Ty} (hwf : t.wf = true) (v : Val) :
    checkType E t v = .ok false ↔ conforms E t v = false := by
  rw [checkType_eq_conforms E hwf v]
  constructor
  · intro h; injection h
  · intro h; rw [h]

/-- Outside `wf` the code really raises: `Type[Literal[1]]` against a class. -/
theorem wf_is_needed_type_literal :
    (Ty.type_ (.literal (.cons (.int 1) .nil))).wf = false ∧
    checkType E (.type_ (.literal (.cons (.int 1) .nil))) (.cls .int) = .error .typeError :=
  ⟨rfl, rfl⟩

/-- Outside `wf` the code really raises: `bounded(Any, ge=0)` against a string
(`"a" < 0` is a TypeError). -/
theorem wf_is_needed_bounded_base :
    (Ty.bounded .any (some 0) none none none).wf = false ∧
    checkType E (.bounded .any (some 0) none none none) (.str "a") = .error .typeError :=
  ⟨rfl, rfl⟩

/-! ## Class membership, int for float, None -/

/-- Plain class annotation = `isinstance` on the class lattice. -/
theorem class_membership (c : ClassId) (v : Val) :
    checkType E (.cls c) v = .ok (v.typeOf.sub E c) := rfl

/-- `bool <: int`: a bool is accepted for `int`, an int is not accepted for `bool`. -/
theorem bool_is_int (b : Bool) (n : Int) :
    checkType E (.cls .int) (.bool b) = .ok true ∧ checkType E (.cls .bool) (.int n) = .ok false :=
  ⟨rfl, rfl⟩

/-- An int (and hence a bool) is accepted where `float` is declared. -/
theorem int_for_float (n : Int) (b : Bool) (h : Int) :
    checkType E .float (.int n) = .ok true ∧ checkType E .float (.bool b) = .ok true ∧
    checkType E .float (.float h) = .ok true :=
  ⟨rfl, rfl, rfl⟩

/-- `float` accepts exactly ints, bools and floats. -/
theorem float_iff (v : Val) :
    checkType E .float v = .ok true ↔ (∃ n, v = .int n) ∨ (∃ b, v = .bool b) ∨ (∃ h, v = .float h) := by
  cases v <;> simp [checkType, isReal, Val.typeOf]

/-- …but a float is not accepted for `int`. -/
theorem float_not_for_int (h : Int) : checkType E (.cls .int) (.float h) = .ok false := rfl

/-- `NoneType` accepts exactly `None`; the object `None` used as the annotation means the same. -/
theorem none_iff (v : Val) :
    (checkType E .noneType v = .ok true ↔ v = .none) ∧ checkType E .noneLit v = checkType E .noneType v := by
  refine ⟨?_, rfl⟩
  cases v <;> simp [checkType, isInstance, Val.typeOf, ClassId.sub]

/-- `Any` and an unconstrained `TypeVar` accept everything. -/
theorem any_accepts (v : Val) : checkType E .any v = .ok true ∧ checkType E .typeVar v = .ok true :=
  ⟨rfl, rfl⟩

/-! ## Union / Optional / X | Y -/

/-- A union accepts exactly the values conforming to some alternative. -/
theorem union_any {ts : Tys} (hwf : (Ty.union ts).wf = true) (v : Val) :
    checkType E (.union ts) v = .ok true ↔ ∃ t ∈ ts.toList, conforms E t v = true := by
  rw [checkType_true_iff E hwf v]
  simp only [conforms]
  exact conformsAny_iff E v ts

/-- `Optional[t]` accepts `None` and whatever `t` accepts. -/
theorem optional_iff {t : Ty} (hwf : t.wf = true) (v : Val) :
    checkType E (.union (.cons t (.cons .noneType .nil))) v = .ok true ↔
      (conforms E t v = true ∨ v = .none) := by
  have h : (Ty.union (.cons t (.cons .noneType .nil))).wf = true := by simp [Ty.wf, Tys.wf, hwf]
  rw [union_any E h v]
  simp [Tys.toList, conforms, isInstance_noneType]

/-! ## Literal -/

/-- A Literal accepts exactly the values equal (Python `==`) to one of its choices. -/
theorem literal_eq (cs : Vals) (v : Val) :
    checkType E (.literal cs) v = .ok true ↔ ∃ c ∈ cs.toList, pyEq c v = true := by
  simp only [checkType, inChoices]
  rw [← Vals.any_iff]
  constructor
  · intro h; cases h' : cs.any (fun c => pyEq c v) <;> simp_all
  · intro h; rw [h]

/-- Python equality facts the Literal check inherits: `1 == True`, `1 == 1.0`, `1 != "1"`, `b"a" != "a"`. -/
theorem literal_equality_facts :
    pyEq (.int 1) (.bool true) = true ∧ pyEq (.int 1) (.float 2) = true ∧
    pyEq (.int 1) (.str "1") = false ∧ pyEq (.bytes "a") (.str "a") = false ∧
    pyEq (.int 0) .none = false :=
  ⟨rfl, rfl, rfl, rfl, rfl⟩

/-! ## List / Set / Dict / Tuple -/

/-- `List[t]` accepts exactly the lists all of whose elements conform to `t`. -/
theorem list_elems {t : Ty} (hwf : t.wf = true) (v : Val) :
    checkType E (.list t) v = .ok true ↔ ∃ xs, v = .list xs ∧ ∀ x ∈ xs.toList, conforms E t x = true := by
  rw [checkType_true_iff E (t := .list t) (by simpa [Ty.wf] using hwf) v]
  cases v <;> simp [conforms, Vals.all_iff]

/-- `Set[t]` accepts exactly the sets all of whose elements conform to `t`. -/
theorem set_elems {t : Ty} (hwf : t.wf = true) (v : Val) :
    checkType E (.set t) v = .ok true ↔ ∃ xs, v = .set xs ∧ ∀ x ∈ xs.toList, conforms E t x = true := by
  rw [checkType_true_iff E (t := .set t) (by simpa [Ty.wf] using hwf) v]
  cases v <;> simp [conforms, Vals.all_iff]

/-- The verdict on a set does not depend on its iteration order. -/
theorem set_order_irrelevant {t : Ty} (hwf : t.wf = true) (xs ys : Vals)
    (hp : xs.toList.Perm ys.toList) :
    checkType E (.set t) (.set xs) = checkType E (.set t) (.set ys) := by
  have h : (Ty.set t).wf = true := by simpa [Ty.wf] using hwf
  rw [checkType_eq_conforms E h, checkType_eq_conforms E h]
  congr 1
  simp only [conforms]
  rw [Bool.eq_iff_iff, Vals.all_iff, Vals.all_iff]
  constructor
  · intro hx x hm; exact hx x (hp.mem_iff.2 hm)
  · intro hy x hm; exact hy x (hp.mem_iff.1 hm)

/-- `Dict[k, w]` accepts exactly the dicts all of whose keys conform to `k` and values to `w`. -/
theorem dict_keys_values {k w : Ty} (hk : k.wf = true) (hw : w.wf = true) (v : Val) :
    checkType E (.dict k w) v = .ok true ↔
      ∃ kvs, v = .dict kvs ∧ ∀ p ∈ kvs.toList, conforms E k p.1 = true ∧ conforms E w p.2 = true := by
  rw [checkType_true_iff E (t := .dict k w) (by simp [Ty.wf, hk, hw]) v]
  cases v <;> simp [conforms, KVs.all_iff]

/-- `Tuple[t1, …, tn]` accepts exactly the tuples of length `n` whose i-th element
conforms to `ti` (`zip` pairs slot i with element i). -/
theorem tuple_positional {ts : Tys} (hwf : ts.wf = true) (v : Val) :
    checkType E (.tuple ts) v = .ok true ↔
      ∃ xs, v = .tuple xs ∧ xs.toList.length = ts.toList.length ∧
        ∀ p ∈ ts.toList.zip xs.toList, conforms E p.1 p.2 = true := by
  rw [checkType_true_iff E (t := .tuple ts) (by simpa [Ty.wf] using hwf) v]
  cases v <;> simp [conforms, conformsSlots_iff]

/-- A tuple of the wrong length is rejected whatever its elements. -/
theorem tuple_arity {ts : Tys} (hwf : ts.wf = true) (xs : Vals) (h : xs.length ≠ ts.length) :
    checkType E (.tuple ts) (.tuple xs) = .ok false := by
  rw [checkType_false_iff E (t := .tuple ts) (by simpa [Ty.wf] using hwf)]
  simp [conforms, conformsSlots_len_ne E ts xs h]

/-- `Tuple[t, ...]` accepts exactly the tuples (of any length) all of whose elements conform to `t`. -/
theorem tuple_variadic {t : Ty} (hwf : t.wf = true) (v : Val) :
    checkType E (.tupleVar t) v = .ok true ↔ ∃ xs, v = .tuple xs ∧ ∀ x ∈ xs.toList, conforms E t x = true := by
  rw [checkType_true_iff E (t := .tupleVar t) (by simpa [Ty.wf] using hwf) v]
  cases v <;> simp [conforms, Vals.all_iff]

/-! ## Type[T] -/

/-- `Type[T]` accepts exactly the class objects that are subclasses of `T`. -/
theorem type_subclass {t : Ty} (hc : t.classArg = true) (v : Val) :
    checkType E (.type_ t) v = .ok true ↔ ∃ d, v = .cls d ∧ subclassOf E t d = true := by
  rw [checkType_true_iff E (t := .type_ t) (by simpa [Ty.wf] using hc) v]
  cases v <;> simp [conforms]

/-- For a plain class it is the subclass relation of the lattice… -/
theorem type_subclass_cls (c d : ClassId) :
    checkType E (.type_ (.cls c)) (.cls d) = .ok (d.sub E c) := rfl

/-- …`Type[Any]` admits every class, `Type[Union[..]]` the subclasses of any alternative,
`Type[List[t]]` the subclasses of `list`; instances are never accepted. -/
theorem type_special_forms (d : ClassId) (ts : Tys) (t : Ty) (n i : Nat) :
    checkType E (.type_ .any) (.cls d) = .ok true ∧
    (ts.classArgs = true → (checkType E (.type_ (.union ts)) (.cls d) = .ok true ↔
        ∃ a ∈ ts.toList, subclassOf E a d = true)) ∧
    checkType E (.type_ (.list t)) (.cls d) = .ok (d.sub E .list) ∧
    checkType E (.type_ .any) (.inst n i) = .ok false := by
  refine ⟨rfl, ?_, rfl, rfl⟩
  intro h
  rw [type_subclass E (t := .union ts) (by simpa [Ty.classArg] using h)]
  simp [subclassOf, subclassOfAny_iff]

/-- At the class level there is no int-for-float: `int` is not a subclass of `float`,
but `bool` is a subclass of `int`. -/
theorem type_float_not_int :
    checkType E (.type_ .float) (.cls .int) = .ok false ∧
    checkType E (.type_ .float) (.cls .float) = .ok true ∧
    checkType E (.type_ (.cls .int)) (.cls .bool) = .ok true :=
  ⟨rfl, rfl, rfl⟩

/-! ## validated / bounded -/

/-- A validated type accepts exactly the values satisfying its predicate. -/
theorem validated_pred (p : Nat) (v : Val) : checkType E (.validated p) v = .ok (E.pred p v) := rfl

/-- `bounded(base, ge, gt, le, lt)` accepts exactly the numbers conforming to `base`
with `ge ≤ x`, `gt < x`, `x ≤ le`, `x < lt` for every declared bound (values in halves). -/
theorem bounded_iff {b : Ty} (hwf : b.wf = true) (hn : b.numeric = true) (ge gt le lt : Option Int) (v : Val) :
    checkType E (.bounded b ge gt le lt) v = .ok true ↔
      conforms E b v = true ∧ ∃ x, num v = some x ∧
        (∀ g, ge = some g → g ≤ x) ∧ (∀ g, gt = some g → g < x) ∧
        (∀ g, le = some g → x ≤ g) ∧ (∀ g, lt = some g → x < g) := by
  rw [checkType_true_iff E (t := .bounded b ge gt le lt) (by simp [Ty.wf, hwf, hn]) v]
  simp only [conforms, Bool.and_eq_true]
  constructor
  · rintro ⟨⟨⟨⟨hb, h1⟩, h2⟩, h3⟩, h4⟩
    obtain ⟨x, hx⟩ := numeric_conforms E b hn v hb
    refine ⟨hb, x, hx, ?_, ?_, ?_, ?_⟩
    · intro g hg; subst hg; simpa [boundOk, hx] using h1
    · intro g hg; subst hg; simpa [boundOk, hx] using h2
    · intro g hg; subst hg; simpa [boundOk, hx] using h3
    · intro g hg; subst hg; simpa [boundOk, hx] using h4
  · rintro ⟨hb, x, hx, h1, h2, h3, h4⟩
    refine ⟨⟨⟨⟨hb, ?_⟩, ?_⟩, ?_⟩, ?_⟩
    · cases ge <;> simp [boundOk, hx]; exact h1 _ rfl
    · cases gt <;> simp [boundOk, hx]; exact h2 _ rfl
    · cases le <;> simp [boundOk, hx]; exact h3 _ rfl
    · cases lt <;> simp [boundOk, hx]; exact h4 _ rfl

/-- `ge`/`le` are inclusive, `gt`/`lt` exclusive, for every integer bound `b`
(including `b = 0`) and every int `n`. -/
theorem bounded_inclusive_exclusive (b n : Int) :
    checkType E (.bounded (.cls .int) (some (2 * b)) none none none) (.int n) = .ok (decide (b ≤ n)) ∧
    checkType E (.bounded (.cls .int) none (some (2 * b)) none none) (.int n) = .ok (decide (b < n)) ∧
    checkType E (.bounded (.cls .int) none none (some (2 * b)) none) (.int n) = .ok (decide (n ≤ b)) ∧
    checkType E (.bounded (.cls .int) none none none (some (2 * b))) (.int n) = .ok (decide (n < b)) := by
  have hwf : ∀ ge gt le lt, (Ty.bounded (.cls .int) ge gt le lt).wf = true := by
    intros; simp [Ty.wf, Ty.numeric]
  refine ⟨?_, ?_, ?_, ?_⟩ <;>
    · rw [checkType_eq_conforms E (hwf _ _ _ _)]
      simp [conforms, isInstance, Val.typeOf, ClassId.sub, boundOk, num]
      try omega

/-- The bound 0 is a bound like any other (no truthiness shortcut): `ge=0`/`le=0`
accept 0, `gt=0`/`lt=0` reject it, and the neighbours fall on the right sides. -/
theorem bounded_zero :
    checkType E (.bounded (.cls .int) (some 0) none none none) (.int 0) = .ok true ∧
    checkType E (.bounded (.cls .int) (some 0) none none none) (.int (-1)) = .ok false ∧
    checkType E (.bounded (.cls .int) none (some 0) none none) (.int 0) = .ok false ∧
    checkType E (.bounded (.cls .int) none (some 0) none none) (.int 1) = .ok true ∧
    checkType E (.bounded (.cls .int) none none (some 0) none) (.int 0) = .ok true ∧
    checkType E (.bounded (.cls .int) none none (some 0) none) (.int 1) = .ok false ∧
    checkType E (.bounded (.cls .int) none none none (some 0)) (.int 0) = .ok false ∧
    checkType E (.bounded (.cls .int) none none none (some 0)) (.int (-1)) = .ok true ∧
    checkType E (.bounded .float (some 0) none none none) (.float (-1)) = .ok false ∧
    checkType E (.bounded .float none (some 0) none none) (.float 1) = .ok true :=
  ⟨rfl, rfl, rfl, rfl, rfl, rfl, rfl, rfl, rfl, rfl⟩

/-- A bounded type rejects values that do not conform to its base, whatever the bounds:
a float for `bounded(int, …)`, a string for `bounded(float, …)`. -/
theorem bounded_base_first (ge gt le lt : Option Int) (h : Int) (s : String) :
    checkType E (.bounded (.cls .int) ge gt le lt) (.float h) = .ok false ∧
    checkType E (.bounded .float ge gt le lt) (.str s) = .ok false :=
  ⟨rfl, rfl⟩

/-! ## Generations: bounded of bounded, validated over a base, bounded over validated -/

/-- A validated type over a base (`validated(lambda x: check_type(x, base) and pred(x))`)
accepts exactly the values conforming to the base that satisfy the predicate. -/
theorem refined_iff {b : Ty} (hwf : b.wf = true) (p : Nat) (v : Val) :
    checkType E (.refined b p) v = .ok true ↔ conforms E b v = true ∧ E.pred p v = true := by
  rw [checkType_true_iff E (t := .refined b p) (by simpa [Ty.wf] using hwf) v]
  simp [conforms]

/-- **Every generation counts.** Any number of generations (`bounded(..)` of `bounded(..)` of …,
validated types in between, in any order) over a base: the value is accepted exactly when it
conforms to the base and satisfies the predicate of EVERY generation — no generation's bound
is dropped, merged away or overridden by another one.  No bound on the number of generations. -/
theorem generations_iff {base : Ty} {gens : List Gen} (hwf : (Ty.chain base gens).wf = true) (v : Val) :
    checkType E (Ty.chain base gens) v = .ok true ↔
      conforms E base v = true ∧ ∀ g ∈ gens, g.holds E v = true := by
  rw [checkType_true_iff E hwf v, conforms_chain]
  simp [List.all_eq_true]

/-- …and such a chain over a well-formed numeric base is always inside the language
(hence `check_type` never raises on it). -/
theorem generations_wf {base : Ty} (hwf : base.wf = true) (hn : base.numeric = true) (gens : List Gen) :
    (Ty.chain base gens).wf = true ∧ ∀ v e, checkType E (Ty.chain base gens) v ≠ .error e :=
  ⟨wf_chain_of_numeric base hwf hn gens,
   fun v e => checkType_never_raises E (wf_chain_of_numeric base hwf hn gens) v e⟩

/-- For bounded generations the predicate is the four declared comparisons on the number. -/
theorem bounded_generations_iff {base : Ty} (hwf : base.wf = true) (hn : base.numeric = true)
    (bs : List (Option Int × Option Int × Option Int × Option Int)) (v : Val) :
    checkType E (Ty.chain base (bs.map fun b => Gen.bnd b.1 b.2.1 b.2.2.1 b.2.2.2)) v = .ok true ↔
      conforms E base v = true ∧ ∃ x, num v = some x ∧ ∀ b ∈ bs,
        (∀ g, b.1 = some g → g ≤ x) ∧ (∀ g, b.2.1 = some g → g < x) ∧
        (∀ g, b.2.2.1 = some g → x ≤ g) ∧ (∀ g, b.2.2.2 = some g → x < g) := by
  rw [generations_iff E (wf_chain_of_numeric base hwf hn _) v]
  constructor
  · rintro ⟨hb, hg⟩
    obtain ⟨x, hx⟩ := numeric_conforms E base hn v hb
    refine ⟨hb, x, hx, fun b hbm => ?_⟩
    exact (holds_bnd_iff E hx _ _ _ _).1 (hg _ (List.mem_map.2 ⟨b, hbm, rfl⟩))
  · rintro ⟨hb, x, hx, hall⟩
    refine ⟨hb, fun g hgm => ?_⟩
    obtain ⟨b, hbm, rfl⟩ := List.mem_map.1 hgm
    exact (holds_bnd_iff E hx _ _ _ _).2 (hall b hbm)

/-- The verdict does not depend on the order in which the generations were applied. -/
theorem generations_order_irrelevant {base : Ty} {gens gens' : List Gen} (hp : gens.Perm gens')
    (hwf : (Ty.chain base gens).wf = true) (hwf' : (Ty.chain base gens').wf = true) (v : Val) :
    checkType E (Ty.chain base gens) v = checkType E (Ty.chain base gens') v := by
  rw [checkType_eq_conforms E hwf, checkType_eq_conforms E hwf', conforms_chain, conforms_chain]
  congr 2
  rw [Bool.eq_iff_iff, List.all_eq_true, List.all_eq_true]
  constructor
  · intro h g hm; exact h g (hp.mem_iff.2 hm)
  · intro h g hm; exact h g (hp.mem_iff.1 hm)

/-- Re-bounding on the SAME value: when two generations bound the same side at the same value
`b`, one inclusive and one exclusive, the exclusive one decides — whichever generation declared
it (for every integer `b`, incl. 0, and every int `n`). -/
theorem rebound_same_value (b n : Int) :
    checkType E (.bounded (.bounded (.cls .int) (some (2 * b)) none none none) none (some (2 * b)) none none) (.int n)
      = .ok (decide (b < n)) ∧
    checkType E (.bounded (.bounded (.cls .int) none (some (2 * b)) none none) (some (2 * b)) none none none) (.int n)
      = .ok (decide (b < n)) ∧
    checkType E (.bounded (.bounded (.cls .int) none none (some (2 * b)) none) none none none (some (2 * b))) (.int n)
      = .ok (decide (n < b)) ∧
    checkType E (.bounded (.bounded (.cls .int) none none none (some (2 * b))) none none (some (2 * b)) none) (.int n)
      = .ok (decide (n < b)) := by
  have hwf : ∀ a b c d a' b' c' d', (Ty.bounded (.bounded (.cls .int) a b c d) a' b' c' d').wf = true := by
    intros; simp [Ty.wf, Ty.numeric]
  refine ⟨?_, ?_, ?_, ?_⟩ <;>
    · rw [checkType_eq_conforms E (hwf _ _ _ _ _ _ _ _)]
      simp [conforms, isInstance, Val.typeOf, ClassId.sub, boundOk, num]
      try omega

/-- Re-bounding on different values: both generations' bounds hold, i.e. the tighter one decides,
whether it is the inner or the outer one; a bound on the other side given by only one generation
is kept. -/
theorem rebound_tightest (a b c n : Int) :
    checkType E (.bounded (.bounded (.cls .int) (some (2 * a)) none none none) (some (2 * b)) none none none) (.int n)
      = .ok (decide (a ≤ n ∧ b ≤ n)) ∧
    checkType E (.bounded (.bounded (.cls .int) none none (some (2 * a)) none) none none none (some (2 * b))) (.int n)
      = .ok (decide (n ≤ a ∧ n < b)) ∧
    checkType E (.bounded (.bounded (.cls .int) (some (2 * a)) none (some (2 * c)) none) none (some (2 * b)) none none) (.int n)
      = .ok (decide (a ≤ n ∧ n ≤ c ∧ b < n)) := by
  have hwf : ∀ a b c d a' b' c' d', (Ty.bounded (.bounded (.cls .int) a b c d) a' b' c' d').wf = true := by
    intros; simp [Ty.wf, Ty.numeric]
  refine ⟨?_, ?_, ?_⟩ <;>
    · rw [checkType_eq_conforms E (hwf _ _ _ _ _ _ _ _)]
      simp [conforms, isInstance, Val.typeOf, ClassId.sub, boundOk, num, Bool.and_assoc]
      try omega


/-! ## Non-vacuity: concrete deep annotations are well-formed, accepted and rejected -/

/-- the lattice of the harness: A=0, B(A)=1, E=4 … (only what the examples use) -/
def exEnv : Env :=
  { userSub := fun a b => a == b || (a == 1 && b == 0), pred := fun _ v => match v with | .str _ => true | _ => false }

/-- `Dict[str, List[Optional[Tuple[int, float]]]]` (depth 4) -/
def exTy : Ty :=
  .dict (.cls .str) (.list (.union (.cons (.tuple (.cons (.cls .int) (.cons .float .nil))) (.cons .noneType .nil))))

example : exTy.wf = true := rfl
-- {"a": [(1, 2), None]} conforms (2 is an int accepted for float)
example : checkType exEnv exTy
    (.dict (.cons (.str "a") (.list (.cons (.tuple (.cons (.int 1) (.cons (.int 2) .nil))) (.cons .none .nil))) .nil))
    = .ok true := rfl
-- {"a": [(1, "x")]} fails at tuple slot 1, depth 4
example : checkType exEnv exTy
    (.dict (.cons (.str "a") (.list (.cons (.tuple (.cons (.int 1) (.cons (.str "x") .nil))) .nil)) .nil))
    = .ok false := rfl
-- {1: []} fails at the key
example : checkType exEnv exTy (.dict (.cons (.int 1) (.list .nil) .nil)) = .ok false := rfl
-- Type[Union[B, List[int]]]: B and list are accepted, A (a superclass) and an instance of B are not
example : (Ty.type_ (.union (.cons (.cls (.user 1)) (.cons (.list (.cls .int)) .nil)))).wf = true := rfl
example : checkType exEnv (.type_ (.union (.cons (.cls (.user 1)) (.cons (.list (.cls .int)) .nil)))) (.cls (.user 1)) = .ok true := rfl
example : checkType exEnv (.type_ (.union (.cons (.cls (.user 1)) (.cons (.list (.cls .int)) .nil)))) (.cls .list) = .ok true := rfl
example : checkType exEnv (.type_ (.union (.cons (.cls (.user 1)) (.cons (.list (.cls .int)) .nil)))) (.cls (.user 0)) = .ok false := rfl
example : checkType exEnv (.type_ (.union (.cons (.cls (.user 1)) (.cons (.list (.cls .int)) .nil)))) (.inst 1 0) = .ok false := rfl
-- an instance of B is an A; an instance of A is not a B
example : checkType exEnv (.cls (.user 0)) (.inst 1 0) = .ok true ∧ checkType exEnv (.cls (.user 1)) (.inst 0 0) = .ok false := ⟨rfl, rfl⟩
-- Set[bounded(float, gt=0, le=1.5)] : {0.5, 1} ok, {0.5, 0} rejected at the exclusive bound 0
example : (Ty.set (.bounded .float none (some 0) (some 3) none)).wf = true := rfl
example : checkType exEnv (.set (.bounded .float none (some 0) (some 3) none)) (.set (.cons (.float 1) (.cons (.int 1) .nil))) = .ok true := rfl
example : checkType exEnv (.set (.bounded .float none (some 0) (some 3) none)) (.set (.cons (.float 1) (.cons (.int 0) .nil))) = .ok false := rfl
-- the hypotheses of `bounded_iff`, `union_any`, `tuple_positional` are satisfiable
example : (Ty.cls .int).wf = true ∧ (Ty.cls .int).numeric = true := ⟨rfl, rfl⟩
example : (Ty.union (.cons (.cls .int) (.cons (.literal (.cons (.str "a") .nil)) .nil))).wf = true := rfl
example : (Tys.cons (.cls .int) (.cons (.validated 0) .nil)).wf = true := rfl
-- generations: bounded(validated-over(bounded(float, ge=0, le=100), pred), gt=0, lt=100) is inside the language;
-- 0 and 100 (on the exclusive outer bounds) are rejected, 50 accepted, "a" rejected without raising
def exChain : Ty := Ty.chain .float [.bnd none (some 0) none (some 200), .pred 7, .bnd (some 0) none (some 200) none]
def exEnvAll : Env := { userSub := fun _ _ => false, pred := fun _ _ => true }
example : exChain.wf = true := rfl
example : exChain = .bounded (.refined (.bounded .float (some 0) none (some 200) none) 7) none (some 0) none (some 200) := rfl
example : checkType exEnvAll exChain (.int 0) = .ok false ∧ checkType exEnvAll exChain (.float 200) = .ok false ∧
    checkType exEnvAll exChain (.int 50) = .ok true ∧ checkType exEnvAll exChain (.str "a") = .ok false := ⟨rfl, rfl, rfl, rfl⟩
-- the hypotheses of `generations_order_irrelevant` are satisfiable with a non-trivial permutation
example : [Gen.bnd (some 0) none none none, Gen.pred 1].Perm [Gen.pred 1, Gen.bnd (some 0) none none none] :=
  List.Perm.swap _ _ _

end SpecVerif.Props.C15
