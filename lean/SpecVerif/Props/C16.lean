import SpecVerif.Proofs.C16
/-!
# C16 — decoration adds exactly the documented helpers and never replaces user code

Property theorems only (helper lemmas are in `Proofs/C16.lean`). Every theorem
is about the executable definitions of `Model/C16.lean`, which the
correspondence check runs against `spec_classes.spec_class` on generated
classes (class `__dict__` in order, identity of user objects).

Quantification: every class body (any entries, any annotations), every
decorator option set, every list of inherited attributes, and — for the naming
theorems — an ARBITRARY `singular : Name → Option Name` (inflect is opaque).
-/
set_option linter.unusedSectionVars false
set_option linter.unusedSimpArgs false
set_option linter.unusedVariables false
namespace SpecVerif.Props.C16
open SpecVerif.Py SpecVerif.C16

variable (singular : Name → Option Name)

/-! ## user entries -/

/-- **user_entries_kept.** Whatever the options, the attributes and the singular
function: an entry of the class body that is not an `Attr`/`field` declaration
of a managed attribute, and whose name is not in the reserved `__spec_class*`
namespace, is found in the decorated class's `__dict__` under the same name AS
THE SAME OBJECT (`Val.user e` carries the identity) — also when its name is one
decoration would otherwise generate (`__init__`, `update`, `with_x`, …), and
whatever kind of object it is (function, staticmethod, classmethod, property,
plain value). -/
theorem user_entries_kept {c : Cls} {d : Decorated} (h : decorate singular c = .ok d)
    (hnd : (c.entries.map (·.1)).Nodup) {n : Name} {e : Entry} (hm : (n, e) ∈ c.entries)
    (hres : isReserved n = false)
    (hdecl : ¬ (e.isDecl = true ∧ n ∈ specNames c)) :
    dictGet d.dict n = some (.user e) := by
  obtain ⟨_, _, hd⟩ := decorate_ok singular h
  rw [hd]
  apply foldl_register_kept _ _ _ _ _ hres
  rw [dictGet_consumeDecls hnd hm]
  have : (List.contains (specNames c) n && e.isDecl) = false := by
    rw [Bool.eq_false_iff]
    intro hh
    simp only [Bool.and_eq_true, List.contains_eq_mem, decide_eq_true_eq] at hh
    exact hdecl ⟨hh.2, hh.1⟩
  rw [this]; rfl

/-- the other side of the reading (DESIGN section 10 item 12): a declaration of a
managed attribute is consumed — replaced by its default object (or MISSING) -/
theorem declarations_consumed {c : Cls} {d : Decorated} (h : decorate singular c = .ok d)
    (hnd : (c.entries.map (·.1)).Nodup) {n : Name} {e : Entry} (hm : (n, e) ∈ c.entries)
    (hres : isReserved n = false) (hdecl : e.isDecl = true) (hman : n ∈ specNames c) :
    dictGet d.dict n = some (.dflt e.declDefault) := by
  obtain ⟨_, _, hd⟩ := decorate_ok singular h
  rw [hd]
  apply foldl_register_kept _ _ _ _ _ hres
  rw [dictGet_consumeDecls hnd hm]
  simp [hdecl, hman]

/-! ## the method table -/

/-- **backups_reachable.** Whatever the class body contains (including a user
`__init__`, `__repr__`, `__eq__`, and even user entries called
`__spec_class_init__`, …): after decoration `__spec_class_init__`,
`__spec_class_repr__` and `__spec_class_eq__` are the generated constructor,
repr and equality. -/
theorem backups_reachable {c : Cls} {d : Decorated} (h : decorate singular c = .ok d) :
    dictGet d.dict nScInit = some (.built (.core nInit)) ∧
    dictGet d.dict nScRepr = some (.built (.core nRepr)) ∧
    dictGet d.dict nScEq = some (.built (.core nEq)) := by
  obtain ⟨_, _, hd⟩ := decorate_ok singular h
  rw [hd]
  have hnd := methodTable_keys_nodup c d.attrs
  have key : ∀ (n g : Name), isReserved n = true → (n, Val.built (.core g)) ∈ tableStart c →
      dictGet ((methodTable c d.attrs).foldl (fun d p => register d p.1 p.2)
        (consumeDecls (specNames c) c.entries)) n = some (.built (.core g)) := by
    intro n g hr hstart
    apply foldl_register_installs _ _ _ _ hnd _ (Or.inr hr)
    -- the entry survives the helper assignments: no helper is called like that
    have hget : dictGet (methodTable c d.attrs) n = some (.built (.core g)) := by
      rw [methodTable_eq, dictGet_setAll_notin]
      · have hsn := tableStart_keys_nodup c
        -- lookup in a list with distinct keys
        have : ∀ (l : List (Name × Val)), (l.map (·.1)).Nodup → (n, Val.built (.core g)) ∈ l →
            dictGet l n = some (.built (.core g)) := by
          intro l
          induction l with
          | nil => intro _ hm; cases hm
          | cons q qs ih =>
            intro hq hm
            simp only [List.map_cons, List.nodup_cons] at hq
            simp only [dictGet, List.find?_cons]
            rcases List.mem_cons.1 hm with heq | hin
            · subst heq; simp
            · have hne : q.1 ≠ n := by
                intro hh; apply hq.1; rw [hh]; exact List.mem_map.2 ⟨_, hin, rfl⟩
              have : (q.1 == n) = false := by simp [hne]
              simp only [this]
              exact ih hq.2 hin
        exact this _ hsn hstart
      · rw [Bool.eq_false_iff]
        intro hk
        rw [hasKey_iff] at hk
        obtain ⟨hn, hmem, hname⟩ := List.mem_map.1 hk
        simp only [ownedHelpers, List.mem_flatMap, List.mem_filter] at hmem
        obtain ⟨a, _, hha⟩ := hmem
        have := helper_not_start (c := c) hha
        rw [hname] at this
        rw [Bool.eq_false_iff] at this
        apply this
        rw [hasKey_iff]
        exact List.mem_map.2 ⟨_, hstart, rfl⟩
    -- from lookup back to membership
    unfold dictGet at hget
    cases hf : (methodTable c d.attrs).find? (fun p => p.1 == n) with
    | none => simp [hf] at hget
    | some q =>
      simp only [hf, Option.map_some, Option.some.injEq] at hget
      have hq := List.find?_some hf
      have hm := List.mem_of_find?_eq_some hf
      simp only [beq_iff_eq] at hq
      have : q = (n, Val.built (.core g)) := by
        cases q; simp_all
      rw [← this]; exact hm
  refine ⟨key nScInit nInit (by decide) ?_, key nScRepr nRepr (by decide) ?_, key nScEq nEq (by decide) ?_⟩ <;>
    (unfold tableStart coreMethods; cases c.init <;> cases c.repr <;> cases c.eq <;> simp)

/-- **generated_exact.** The keys of the decorated class are the keys of the
body plus the keys of the method table, nothing else; a key the body did not
define holds exactly the table's object; and the table's keys are exactly: the
core names selected by the init/repr/eq switches with the `__spec_class_*`
backups and the four infrastructure dunders, the three top-level helpers, and
the helper names (`helperNames`: 4 scalar, + 4 element for list/dict/set) of the
attributes this class owns. -/
theorem generated_exact {c : Cls} {d : Decorated} (h : decorate singular c = .ok d) :
    (∀ n, hasKey d.dict n = (hasKey c.entries n || hasKey (methodTable c d.attrs) n)) ∧
    (∀ n v, hasKey c.entries n = false → (n, v) ∈ methodTable c d.attrs →
        dictGet d.dict n = some v) ∧
    (∀ n, hasKey (methodTable c d.attrs) n = true ↔
        (n ∈ (coreMethods c).map (·.1) ∨ n ∈ toplevel.map (·.1) ∨
         ∃ a ∈ d.attrs, a.owned = true ∧ n ∈ (helperNames a).map (·.1))) := by
  obtain ⟨_, _, hd⟩ := decorate_ok singular h
  have hkeys0 : ∀ n, hasKey (consumeDecls (specNames c) c.entries) n = hasKey c.entries n := by
    intro n
    simp only [hasKey, consumeDecls, List.any_map]
    rfl
  refine ⟨?_, ?_, ?_⟩
  · intro n
    rw [hd, hasKey_foldl_register, hkeys0]
  · intro n v hn hmem
    rw [hd]
    apply foldl_register_installs _ _ _ _ (methodTable_keys_nodup c d.attrs) hmem
    left; rw [hkeys0]; exact hn
  · intro n
    rw [methodTable_eq, hasKey_setAll, Bool.or_eq_true, hasKey_iff, hasKey_iff]
    simp only [tableStart, List.map_append, List.map_map, List.mem_append, Function.comp_def,
      ownedHelpers, List.mem_map, List.mem_flatMap, List.mem_filter]
    constructor
    · rintro ((⟨q, hq, rfl⟩ | ⟨q, hq, rfl⟩) | ⟨hn, ⟨a, ⟨ha, ho⟩, hha⟩, rfl⟩)
      · exact Or.inl ⟨q, hq, rfl⟩
      · exact Or.inr (Or.inl ⟨q, hq, rfl⟩)
      · exact Or.inr (Or.inr ⟨a, ha, ho, hn, hha, rfl⟩)
    · rintro (⟨q, hq, rfl⟩ | ⟨q, hq, rfl⟩ | ⟨a, ha, ho, hn, hha, rfl⟩)
      · exact Or.inl (Or.inl ⟨q, hq, rfl⟩)
      · exact Or.inl (Or.inr ⟨q, hq, rfl⟩)
      · exact Or.inr ⟨hn, ⟨a, ⟨ha, ho⟩, hha⟩, rfl⟩

/-! ## private names -/

/-- **private_never_managed.** When decoration does not refuse the class
(`ValueError` for a private name in `attrs`/`attrs_typed`/overflow), no managed
attribute is private — so no helper is ever generated for one. -/
theorem private_never_managed {c : Cls} (hc : ctorCheck c = true) :
    ∀ n ∈ managedAttrs c, isPrivate n = false := by
  intro n hn
  unfold managedAttrs at hn
  rw [mem_dedup, List.mem_append] at hn
  rcases hn with hn | hn
  · split at hn
    · simp only [List.mem_filter, Bool.and_eq_true, Bool.not_eq_true'] at hn
      exact hn.2.1
    · cases hn
  · simp only [ctorCheck, List.all_eq_true, Bool.not_eq_true'] at hc
    obtain ⟨p, hp, rfl⟩ := List.mem_map.1 hn
    exact hc p hp

theorem private_never_managed' {c : Cls} {d : Decorated} (h : decorate singular c = .ok d) :
    ∀ n ∈ managedAttrs c, isPrivate n = false :=
  private_never_managed (decorate_ok singular h).1

/-! ## singular names -/

/-- **no_shadowing.** For an ARBITRARY singular function, arbitrary attributes
and options: if decoration succeeds then
(1) no collection's item name is the name of an attribute,
(2) the item names of the collections are pairwise distinct,
(3) the helper-name families of two different attributes are disjoint,
(4) no helper is called like a core or top-level method;
and if it fails, it fails with `ValueError` (private name handed in) or
`RuntimeError` (collision with the `<attr>_item` fallback also taken) — never a
silent overwrite. -/
theorem no_shadowing (c : Cls) :
    (∀ d, decorate singular c = .ok d →
      (∀ a ∈ d.attrs, a.kind.isCollection = true → a.item ∉ d.attrs.map (·.name)) ∧
      ((d.attrs.filter (·.kind.isCollection)).map (·.item)).Nodup ∧
      (∀ a1 ∈ d.attrs, ∀ a2 ∈ d.attrs, a1.name ≠ a2.name →
        ∀ h1 ∈ helperNames a1, ∀ h2 ∈ helperNames a2, h1.1 ≠ h2.1) ∧
      (∀ a ∈ d.attrs, ∀ hn ∈ helperNames a, hasKey (tableStart c) hn.1 = false)) ∧
    (∀ e, decorate singular c = .error e → e = .valueError ∨ e = .runtimeError) := by
  constructor
  · intro d h
    obtain ⟨_, hr, _⟩ := decorate_ok singular h
    have R := resolveGo_spec _ _ _ hr
    have hfresh : ∀ a ∈ d.attrs, a.kind.isCollection = true → a.item ∉ d.attrs.map (·.name) := by
      intro a ha hc
      rw [R.sameNames]
      exact (R.fresh a ha hc).1
    refine ⟨hfresh, R.nodup, ?_, fun a _ hn hh => helper_not_start hh⟩
    intro a1 ha1 a2 ha2 hne h1 hh1 h2 hh2 heq
    obtain ⟨p1, x1, hp1, hn1, hc1⟩ := helperNames_prefix hh1
    obtain ⟨p2, x2, hp2, hn2, hc2⟩ := helperNames_prefix hh2
    rw [hn1, hn2] at heq
    obtain ⟨_, hx⟩ := prefix_inj hp1 hp2 heq
    rcases hc1 with ⟨rfl, _, _⟩ | ⟨rfl, _, hcol1, _⟩ <;> rcases hc2 with ⟨rfl, _, _⟩ | ⟨rfl, _, hcol2, _⟩
    · exact hne hx
    · exact hfresh a2 ha2 hcol2 (by rw [← hx]; exact List.mem_map.2 ⟨a1, ha1, rfl⟩)
    · exact hfresh a1 ha1 hcol1 (by rw [hx]; exact List.mem_map.2 ⟨a2, ha2, rfl⟩)
    · -- two collections with the same item name: contradicts pairwise distinctness
      have hnd := R.nodup
      have hm1 : a1 ∈ d.attrs.filter (·.kind.isCollection) := List.mem_filter.2 ⟨ha1, hcol1⟩
      have hm2 : a2 ∈ d.attrs.filter (·.kind.isCollection) := List.mem_filter.2 ⟨ha2, hcol2⟩
      have : a1 = a2 := by
        exact inj_of_nodup_map hnd hm1 hm2 hx
      exact hne (by rw [this])
  · intro e h
    unfold decorate at h
    split at h
    · injection h with h; exact Or.inl h.symm
    · cases hr : resolveItems (mergedAttrs singular c) with
      | error e' =>
        rw [hr] at h
        injection h with h
        subst h
        exact Or.inr (resolveGo_error _ _ _ hr)
      | ok as => rw [hr] at h; cases h

/-! ## lazy descriptors -/

/-- **dissolve_preserves.** First access of a name holding a lazy descriptor
replaces that descriptor by the built function of the SAME generated method
under the SAME name, leaves every other entry and the key order untouched; first
access of any other name changes nothing. -/
theorem dissolve_preserves (d : Dict) (n : Name) :
    (∀ g, dictGet d n = some (.lazy g) →
      dictGet (dissolve d n) n = some (.built g) ∧
      (∀ m, m ≠ n → dictGet (dissolve d n) m = dictGet d m) ∧
      (dissolve d n).map (·.1) = d.map (·.1)) ∧
    ((∀ g, dictGet d n ≠ some (.lazy g)) → dissolve d n = d) := by
  constructor
  · intro g hg
    have hd : dissolve d n = d.map (fun p => if p.1 == n then (n, Val.built g) else p) := by
      unfold dissolve; rw [hg]
    have hk := dictGet_some_hasKey hg
    have hset : dissolve d n = dictSet d n (Val.built g) := by
      rw [hd]; unfold dictSet
      have : d.any (fun p => p.1 == n) = true := hk
      rw [this]; rfl
    refine ⟨?_, ?_, ?_⟩
    · rw [hset, dictGet_dictSet]; simp
    · intro m hm; rw [hset, dictGet_dictSet]; simp [hm]
    · rw [hset, keys_dictSet, hk]; rfl
  · intro h
    unfold dissolve
    cases hg : dictGet d n with
    | none => rfl
    | some v =>
      cases v with
      | lazy g => exact absurd hg (h g)
      | user e => rfl
      | dflt x => rfl
      | built g => rfl

/-! ## decoration that fails, fails every time -/

/-- **failed_decoration_fails_again.** A lazily bootstrapped class whose
decoration raises (unresolvable singular-name collision → `RuntimeError`) raises
the same error on EVERY use, however many there are: the class never becomes
usable half-built. -/
theorem failed_decoration_fails_again {c : Cls} {e : Err} (h : decorate singular c = .error e) (n : Nat) :
    lazyUses singular c n .pending = (.pending, List.replicate n (.error e)) := by
  induction n with
  | zero => rfl
  | succ n ih =>
    simp only [lazyUses, lazyUse, h, ih, List.replicate_succ]

/-- … and one that succeeds is bootstrapped by the first use, exactly once -/
theorem lazy_bootstrap_once {c : Cls} {d : Decorated} (h : decorate singular c = .ok d) (n : Nat) :
    (lazyUses singular c (n + 1) .pending).2 = List.replicate (n + 1) (.ok ()) ∧
    (∃ d', (lazyUses singular c (n + 1) .pending).1 = .done d' ∧ d'.dict = d.dict ∧ d'.attrs = d.attrs) := by
  have hdone : ∀ m, lazyUses singular c m (.done d) = (.done d, List.replicate m (.ok ())) := by
    intro m
    induction m with
    | zero => rfl
    | succ m ih => simp only [lazyUses, lazyUse, ih, List.replicate_succ]
  simp only [lazyUses, lazyUse, h, hdone]
  exact ⟨by simp [List.replicate_succ], d, rfl, rfl, rfl⟩

/-! ## children of a spec-class parent (open finding KF-C16-inherited-singular, DESIGN D19) -/

/-- the full statement: decorating a child never hides a helper the parent
registered for an attribute the child does not re-manage, and never renames an
inherited collection's item name. FALSE on the unchanged code. -/
def NoParentShadowing : Prop :=
  ∀ (singular : Name → Option Name) (c : Cls) (d : Decorated), decorate singular c = .ok d →
    shadowedParentHelpers c d = [] ∧ renamedInherited c d = []

def shadowCheck (singular : Name → Option Name) (c : Cls) : Bool :=
  match decorate singular c with
  | .ok d => (shadowedParentHelpers c d).isEmpty && (renamedInherited c d).isEmpty
  | .error _ => true

/-- `class L1: children: List[int]`  /  `class L2(L1): child: int` -/
def d19Child : Cls :=
  { entries := [], annots := [(['c','h','i','l','d'], .scalar)], attrs := [], attrsTyped := [],
    attrsSkip := none, init := true, repr := true, eq := true, overflow := none, key := none,
    inherited := [⟨['c','h','i','l','d','r','e','n'], .list, ['c','h','i','l','d']⟩] }

/-- the decided counterexample: `L2.with_child` is the scalar helper of `child`
and hides `L1`'s element helper of `children`, whose item name is rewritten to
`children_item` (for which no helper exists) -/
theorem inherited_singular_witness : ¬ NoParentShadowing := by
  intro h
  have hc : shadowCheck (fun _ => none) d19Child = false := by decide
  unfold shadowCheck at hc
  cases hd : decorate (fun _ => none) d19Child with
  | error e => rw [hd] at hc; cases hc
  | ok d =>
    rw [hd] at hc
    obtain ⟨h1, h2⟩ := h _ _ _ hd
    simp only [h1, h2] at hc
    cases hc

/-- every inherited attribute the child does not re-manage is carried into the
child's metadata unchanged (in particular: its item name is not rewritten by the
child's collision loop), and attribute names are distinct -/
def inheritedStable (c : Cls) (d : Decorated) : Prop :=
  (∀ i ∈ c.inherited, (managedAttrs c).contains i.name = false →
      (⟨i.name, i.kind, i.item, false, true⟩ : AttrInfo) ∈ d.attrs) ∧
  (d.attrs.map (·.name)).Nodup

/-- **no_parent_shadowing_partial.** Under `inheritedStable` — i.e. when the
colliding collection, if any, is owned by the class being decorated — no helper
of the parent is hidden. -/
theorem no_parent_shadowing_partial {c : Cls} {d : Decorated} (h : decorate singular c = .ok d)
    (hst : inheritedStable c d) : shadowedParentHelpers c d = [] := by
  obtain ⟨hcarry, hnames⟩ := hst
  obtain ⟨_, _, hd⟩ := decorate_ok singular h
  have hdisj := (no_shadowing singular c).1 d h
  unfold shadowedParentHelpers
  rw [List.filterMap_eq_nil_iff]
  intro ph hph
  simp only [parentHelpers, List.mem_flatMap, List.mem_filter, Bool.not_eq_true'] at hph
  obtain ⟨i, ⟨hi, hnot⟩, hhelp⟩ := hph
  have hai := hcarry i hi hnot
  cases hg : dictGet d.dict ph.1 with
  | none => rfl
  | some v =>
    cases v with
    | user e => rfl
    | dflt x => rfl
    | built g => rfl
    | lazy g =>
      exfalso
      -- the lazy descriptor comes from the table, hence from an owned attribute's helpers
      rw [hd] at hg
      rcases foldl_register_origin _ _ _ _ hg with h0 | htab
      · have := dictGet_mem h0
        simp only [consumeDecls, List.mem_map] at this
        obtain ⟨q, _, hq⟩ := this
        injection hq with _ hq2
        split at hq2 <;> cases hq2
      · rw [methodTable_eq] at htab
        rcases mem_setAll _ _ _ _ htab with hstart | ⟨g', hg', hown⟩
        · have := helper_not_start (c := c) hhelp
          rw [Bool.eq_false_iff] at this
          exact this (hasKey_iff.2 (List.mem_map.2 ⟨_, hstart, rfl⟩))
        · simp only [ownedHelpers, List.mem_flatMap, List.mem_filter] at hown
          obtain ⟨a, ⟨ha, hao⟩, hha⟩ := hown
          have hne : a.name ≠ i.name := by
            intro heq
            have : a = ⟨i.name, i.kind, i.item, false, true⟩ :=
              inj_of_nodup_map hnames ha hai heq
            rw [this] at hao
            cases hao
          exact hdisj.2.2.1 a ha _ hai hne _ hha _ hhelp rfl

/-! ## which item name an attribute gets ("falls back to `<attr>_item`") -/

/-- **item_singular_or_fallback.** After a successful decoration every attribute
the class owns has as item name either its singular form (`get_singular_form`)
or `<attr>_item`; and the fallback is used only for a collection whose singular
form IS the name of an attribute of the class (inherited ones included) or IS
the item name another collection of the class — its own or an inherited one,
at any depth — ended up with. -/
theorem item_singular_or_fallback {c : Cls} {d : Decorated} (h : decorate singular c = .ok d) :
    ∀ a ∈ d.attrs, a.owned = true →
      a.item = itemName0 singular a.name ∨
      (a.kind.isCollection = true ∧ a.item = a.name ++ itemSuffix ∧
        (itemName0 singular a.name ∈ d.attrs.map (·.name) ∨
         ∃ b ∈ d.attrs, b.kind.isCollection = true ∧ b.item = itemName0 singular a.name)) := by
  obtain ⟨_, hr, _⟩ := decorate_ok singular h
  have R := resolveGo_spec _ _ _ hr
  intro a ha ho
  obtain ⟨a0, ha0, hn, hk, hown, _, hch⟩ := resolveGo_choice _ _ _ hr a ha
  have hit : a0.item = itemName0 singular a0.name :=
    mergedAttrs_owned singular c a0 ha0 (by rw [← hown]; exact ho)
  rcases hch with hch | ⟨hcol, hfb, hw⟩
  · left; rw [hch, hit, hn]
  · right
    refine ⟨by rw [hk]; exact hcol, by rw [hfb, hn], ?_⟩
    rw [hn, ← hit]
    rcases hw with hw | hw | hw
    · left; rw [R.sameNames]; exact hw
    · cases hw
    · exact Or.inr hw

/-! ## inherited attributes -/

/-- input-side condition under which the inherited attributes go through the
collision loop of the class being decorated untouched (they are the first to be
looked at): no item name of an inherited collection is an attribute name of the
class, and those item names are pairwise distinct (what a successful decoration
of the parent guarantees — `chain_no_shadowing`). `inheritedPart` is the list of
inherited attributes in the parent's order, an attribute the class manages again
being rebuilt in place. `KF-C16-inherited-singular` is exactly a class violating
the first half. -/
def quietInherited (singular : Name → Option Name) (c : Cls) : Prop :=
  (∀ a ∈ inheritedPart singular c, a.kind.isCollection = true →
      a.item ∉ (mergedAttrs singular c).map (·.name)) ∧
  (((inheritedPart singular c).filter (·.kind.isCollection)).map (·.item)).Nodup

/-- **inherited_stable_of_quiet.** `inheritedStable` (the hypothesis of
`no_parent_shadowing_partial` and `own_item_avoids_inherited`) follows from a
condition on the INPUT of the collision loop: distinct inherited names and
`quietInherited` — whatever the class itself declares next to them, colliding or
not. -/
theorem inherited_stable_of_quiet {c : Cls} {d : Decorated} (h : decorate singular c = .ok d)
    (hnd : (c.inherited.map (·.name)).Nodup) (hq : quietInherited singular c) :
    inheritedStable c d := by
  obtain ⟨_, hr, _⟩ := decorate_ok singular h
  have R := resolveGo_spec _ _ _ hr
  have hnames := mergedAttrs_names_nodup singular c hnd
  refine ⟨?_, by rw [R.sameNames]; exact hnames⟩
  intro i hi hnot
  obtain ⟨rest, hm⟩ := mergedAttrs_prefix singular c
  unfold resolveItems at hr
  rw [hm] at hr
  obtain ⟨post', hp⟩ := resolveGo_prefix_kept _ _ _ _ hr
    (fun a ha hc => ⟨by rw [← hm]; exact hq.1 a ha hc, by simp⟩) hq.2
  rw [hp]
  exact List.mem_append_left _ (inheritedPart_kept singular c hi hnot)

/-- **own_item_avoids_inherited.** Whenever the inherited attributes are carried
over unchanged (`inheritedStable`), no collection the class owns gets the item
name of an inherited collection — so none of its element helpers is called like
an element helper the parent registered: a collision with an INHERITED
collection's singular is detected exactly like one inside the class (fallback or
`RuntimeError`, theorem `no_shadowing`). -/
theorem own_item_avoids_inherited {c : Cls} {d : Decorated} (h : decorate singular c = .ok d)
    (hst : inheritedStable c d) :
    ∀ a ∈ d.attrs, a.owned = true → a.kind.isCollection = true →
      ∀ i ∈ c.inherited, (managedAttrs c).contains i.name = false → i.kind.isCollection = true →
        a.item ≠ i.item ∧ a.item ≠ i.name ∧
        ∀ p ∈ elemPrefixes, ∀ hn ∈ helperNames ⟨i.name, i.kind, i.item, false, true⟩, p ++ a.item ≠ hn.1 := by
  intro a ha ho hac i hi hnot hic
  have hai := hst.1 i hi hnot
  have hdisj := (no_shadowing singular c).1 d h
  have hne : a.name ≠ i.name := by
    intro heq
    have : a = ⟨i.name, i.kind, i.item, false, true⟩ := inj_of_nodup_map hst.2 ha hai heq
    rw [this] at ho; cases ho
  have hitem : a.item ≠ i.item := by
    intro heq
    have hm1 : a ∈ d.attrs.filter (·.kind.isCollection) := List.mem_filter.2 ⟨ha, hac⟩
    have hm2 : (⟨i.name, i.kind, i.item, false, true⟩ : AttrInfo) ∈ d.attrs.filter (·.kind.isCollection) :=
      List.mem_filter.2 ⟨hai, hic⟩
    have := inj_of_nodup_map hdisj.2.1 hm1 hm2 heq
    rw [this] at ho; cases ho
  have hname : a.item ≠ i.name := by
    intro heq
    exact hdisj.1 a ha hac (by rw [heq]; exact List.mem_map.2 ⟨_, hai, rfl⟩)
  refine ⟨hitem, hname, ?_⟩
  intro p hp hn hhn heq
  obtain ⟨p', x, hp', hx, hcase⟩ := helperNames_prefix hhn
  rw [hx] at heq
  obtain ⟨_, hxa⟩ := prefix_inj (elemPrefixes_sub hp) hp' heq
  rcases hcase with ⟨rfl, _, _⟩ | ⟨rfl, _, _, _⟩
  · exact hname hxa
  · exact hitem hxa

/-! ## inheritance chains of any depth -/

/-- one step of a chain is one decoration with the inherited list of the class before -/
theorem decorateChain_cons (inh : List Inherited) (c : Cls) (cs : List Cls) :
    decorateChain singular inh (c :: cs) =
      (match decorate singular { c with inherited := inh } with
       | .error e => .error e
       | .ok d => match decorateChain singular (inheritedOf d) cs with
                  | .error e => .error e
                  | .ok ds => .ok (d :: ds)) := rfl

/-- **chain_no_shadowing.** For a chain of spec classes of ANY depth decorated
root first (each inheriting the attributes of the one before): whenever the whole
chain decorates, at EVERY level the attribute names are distinct, no
collection's item name is an attribute name, the item names of all collections —
owned or inherited from any depth — are pairwise distinct, and the helper
families of different attributes are disjoint. And a chain that does not
decorate fails with `ValueError` or `RuntimeError`. -/
theorem chain_no_shadowing :
    ∀ (cs : List Cls) (inh : List Inherited), (inh.map (·.name)).Nodup →
      (∀ ds, decorateChain singular inh cs = .ok ds →
        ds.length = cs.length ∧
        ∀ d ∈ ds,
          (d.attrs.map (·.name)).Nodup ∧
          (∀ a ∈ d.attrs, a.kind.isCollection = true → a.item ∉ d.attrs.map (·.name)) ∧
          ((d.attrs.filter (·.kind.isCollection)).map (·.item)).Nodup ∧
          (∀ a1 ∈ d.attrs, ∀ a2 ∈ d.attrs, a1.name ≠ a2.name →
            ∀ h1 ∈ helperNames a1, ∀ h2 ∈ helperNames a2, h1.1 ≠ h2.1)) ∧
      (∀ e, decorateChain singular inh cs = .error e → e = .valueError ∨ e = .runtimeError) := by
  intro cs
  induction cs with
  | nil =>
    intro inh _
    refine ⟨?_, ?_⟩
    · intro ds h
      simp only [decorateChain, Except.ok.injEq] at h
      subst h
      exact ⟨rfl, fun d hd => by cases hd⟩
    · intro e h; simp [decorateChain] at h
  | cons c cs ih =>
    intro inh hinh
    have hstep : ∀ d, decorate singular { c with inherited := inh } = .ok d →
        (d.attrs.map (·.name)).Nodup := by
      intro d hd
      obtain ⟨_, hr, _⟩ := decorate_ok singular hd
      rw [(resolveGo_spec _ _ _ hr).sameNames]
      exact mergedAttrs_names_nodup singular _ hinh
    refine ⟨?_, ?_⟩
    · intro ds h
      rw [decorateChain_cons] at h
      cases hd : decorate singular { c with inherited := inh } with
      | error e => rw [hd] at h; cases h
      | ok d =>
        rw [hd] at h
        simp only at h
        have hnames := hstep d hd
        have hinh' : ((inheritedOf d).map (·.name)).Nodup := by
          simpa [inheritedOf, List.map_map, Function.comp_def] using hnames
        cases hrest : decorateChain singular (inheritedOf d) cs with
        | error e => rw [hrest] at h; cases h
        | ok ds' =>
          rw [hrest] at h
          simp only [Except.ok.injEq] at h
          subst h
          obtain ⟨hlen, hall⟩ := (ih _ hinh').1 ds' hrest
          refine ⟨by simp [hlen], ?_⟩
          intro d' hd'
          rcases List.mem_cons.1 hd' with rfl | hd'
          · have N := (no_shadowing singular { c with inherited := inh }).1 _ hd
            exact ⟨hnames, N.1, N.2.1, N.2.2.1⟩
          · exact hall d' hd'
    · intro e h
      rw [decorateChain_cons] at h
      cases hd : decorate singular { c with inherited := inh } with
      | error e' =>
        rw [hd] at h
        simp only [Except.error.injEq] at h
        subst h
        exact (no_shadowing singular { c with inherited := inh }).2 _ hd
      | ok d =>
        rw [hd] at h
        simp only at h
        have hinh' : ((inheritedOf d).map (·.name)).Nodup := by
          simpa [inheritedOf, List.map_map, Function.comp_def] using hstep d hd
        cases hrest : decorateChain singular (inheritedOf d) cs with
        | error e' =>
          rw [hrest] at h
          simp only [Except.error.injEq] at h
          subst h
          exact (ih _ hinh').2 _ hrest
        | ok ds' => rw [hrest] at h; cases h

/-! ## non-vacuity -/

/-- `class C: x: int = Attr(default=…); ys: List[int]; def with_x(self)…; update = staticmethod(…)` -/
def exCls : Cls :=
  { entries := [(pWith ++ ['x'], .userFunction 0), (nUpdate, .staticmethod 1), (['x'], .attrDecl (some 2))],
    annots := [(['x'], .scalar), (['y','s'], .list), (['_','p'], .scalar)], attrs := [], attrsTyped := [],
    attrsSkip := none, init := true, repr := true, eq := true, overflow := none, key := none,
    inherited := [] }

def exSing : Name → Option Name := fun n => if n == ['y','s'] then some ['y'] else none

example : (match decorate exSing exCls with
    | .ok d => dictGet d.dict (pWith ++ ['x']) == some (.user (.userFunction 0)) &&
               dictGet d.dict nUpdate == some (.user (.staticmethod 1)) &&
               dictGet d.dict ['x'] == some (.dflt (some 2)) &&
               dictGet d.dict (pWith ++ ['y']) == some (.lazy (.elem pWith ['y','s'])) &&
               dictGet d.dict (pWith ++ ['_','p']) == none
    | .error _ => false) = true := by decide

/-- a collision that is resolved by the fallback, and one that must raise -/
example : (match decorate (fun _ => none)
    { exCls with entries := [], annots := [(['f','o','o'], .list), (['f','o','o','_','i','t','e','m'], .scalar)] } with
    | .ok _ => false | .error e => e == .runtimeError) = true := by decide

/-- a stable child: `inheritedStable` holds and is not vacuous -/
def stableChild : Cls :=
  { d19Child with annots := [(['o','t','h','e','r'], .scalar)] }

example : (match decorate (fun _ => none) stableChild with
    | .ok d => d.attrs.contains ⟨['c','h','i','l','d','r','e','n'], .list, ['c','h','i','l','d'], false, true⟩ &&
               (shadowedParentHelpers stableChild d).isEmpty
    | .error _ => false) = true := by decide

/-- `class Team: people: List[str]` / `class Club(Team): persons: List[str]` (both → `person`):
the collision with the INHERITED collection is resolved by the fallback, the inherited
attribute is carried over unchanged -/
def clubSing : Name → Option Name := fun n =>
  if n == s "people" then some (s "person") else if n == s "persons" then some (s "person") else none

def clubCls : Cls :=
  { d19Child with annots := [(s "persons", .list)],
                  inherited := [⟨s "people", .list, s "person"⟩] }

example : (match decorate clubSing clubCls with
    | .ok d => d.attrs == [⟨s "people", .list, s "person", false, true⟩,
                           ⟨s "persons", .list, s "persons" ++ itemSuffix, true, true⟩] &&
               dictGet d.dict (pWith ++ s "persons" ++ itemSuffix) == some (.lazy (.elem pWith (s "persons"))) &&
               dictGet d.dict (pWith ++ s "person") == none &&
               (shadowedParentHelpers clubCls d).isEmpty
    | .error _ => false) = true := by decide

/-- `quietInherited` is not vacuous: it holds for `Club` (whose own collection DOES collide
with the inherited one), and fails for the class of the open finding -/
example : quietInherited clubSing clubCls := by
  refine ⟨?_, by decide⟩
  intro a ha _
  simp only [inheritedPart, clubCls, d19Child, List.map_cons, List.map_nil, List.mem_singleton] at ha
  subst ha
  decide

example : ¬ quietInherited (fun _ => none) d19Child := by
  intro h
  exact absurd (h.1 ⟨s "children", .list, s "child", false, true⟩ (by decide) rfl) (by decide)

/-- `class Base: extra_items: List[str]` / `class Derived(Base): extra: Dict[str, int]`: singular AND
fallback of `extra` are the inherited collection's item name — decoration raises -/
example : (match decorate (fun n => if n == s "extra_items" then some (s "extra_item") else none)
    { d19Child with annots := [(s "extra", .dict)],
                    inherited := [⟨s "extra_items", .list, s "extra_item"⟩] } with
    | .ok _ => false | .error e => e == .runtimeError) = true := by decide

/-- a chain of three: `G: people: List` / `P(G): mid: int` / `C(P): persons: List` — the grandparent's
collection reaches the third level and the collision is found there -/
example : (match decorateChain clubSing []
    [{ d19Child with annots := [(s "people", .list)], inherited := [] },
     { d19Child with annots := [(s "mid", .scalar)] },
     { d19Child with annots := [(s "persons", .list)] }] with
    | .ok [_, _, d] => d.attrs.map (fun a => (a.name, a.item, a.owned)) ==
        [(s "people", s "person", false), (s "mid", s "mid" ++ itemSuffix, false),
         (s "persons", s "persons" ++ itemSuffix, true)]
    | _ => false) = true := by decide

/-- the second way an inherited collection is renamed (reported as KF-C16-inherited-renamed):
`class P: foo: int; foo_items: List[int]` / `class C(P): foo: List[int]` — `C` manages `foo` AGAIN, now a
collection standing first in the order; it takes `foo_item`, the item name of the inherited `foo_items`, which
the loop then renames to `foo_items_item`; `C.with_foo_item` hides `P`'s element helper. The model
reproduces it, and `quietInherited` excludes it (second half: the item names are not distinct). -/
def renamedSing : Name → Option Name := fun n => if n == s "foo_items" then some (s "foo_item") else none

def renamedChild : Cls :=
  { d19Child with annots := [(s "foo", .list)],
                  inherited := [⟨s "foo", .scalar, s "foo" ++ itemSuffix⟩, ⟨s "foo_items", .list, s "foo_item"⟩] }

example : shadowCheck renamedSing renamedChild = false := by decide

example : (match decorate renamedSing renamedChild with
    | .ok d => shadowedParentHelpers renamedChild d == elemPrefixes.map (· ++ s "foo_item") &&
               renamedInherited renamedChild d == [s "foo_items"]
    | .error _ => false) = true := by decide

example : ¬ quietInherited renamedSing renamedChild := by
  intro h
  exact absurd h.2 (by decide)

end SpecVerif.Props.C16
