import SpecVerif.Proofs.C17
/-!
# C17 — every generated method accepts exactly what its advertised signature says

Property theorems only (helper lemmas are in `Proofs/C17.lean`). Every theorem
is about the executable definitions of `Model/C17.lean`, which the
correspondence check runs against `spec_classes.utils.method_builder.MethodBuilder`
and against every generated method of a generated class family.

Quantification: every `Builder` reachable from `MethodBuilder(name, impl)` by
ANY sequence of successful `with_arg` calls (`Reachable`), every call (any
number of positionals, any keyword list), any value type `α`, any
implementation (`runWrapper` takes an arbitrary state-transforming function).
-/
set_option linter.unusedSectionVars false
set_option linter.unusedSimpArgs false
set_option linter.unusedVariables false
namespace SpecVerif.Props.C17
open SpecVerif.Py SpecVerif.C17

variable {α : Type}

/-- What `.build()` having succeeded gives (`buildable_good`), plus the two
side conditions under which the acceptance theorems hold:
* every virtual keyword-only argument carries a default (everything
  `with_spec_attrs_for` adds does: `nested_virtual_defaults`);
* no parameter is called like a global of the generated text (`noCapture`;
  see `key_capture_witness` — open finding KF-C17-key-name-capture). -/
structure Good (b : Builder) : Prop where
  reach : Reachable b
  advNodup : (names (advertised b)).Nodup
  oneVarKw : countKind b.args .varKw ≤ 1
  oneVarPos : countKind b.args .varPos ≤ 1
  virtDefaults : ∀ p ∈ b.virt, p.kind = .kwOnly → p.hasDefault = true
  noCapture : noCapture b = true

/-! ## shape of every reachable builder -/

/-- Whatever the `with_arg` sequence: no positional-only parameter can ever be
added (the builder starts with `self`), the virtual list holds only
keyword-only / `**` parameters, `check_attrs_match_sig` is "no virtual `**`",
and once there is a virtual argument the compiled parameter list ends with the
`**kwargs` collector. -/
theorem reachable_shape {b : Builder} (h : Reachable b) :
    (∀ p ∈ b.args, p.kind ≠ .posOnly) ∧
    (∀ p ∈ b.virt, p.kind = .kwOnly ∨ p.kind = .varKw) ∧
    (b.checkAttrs = !hasVarKw b.virt) ∧
    (b.virt ≠ [] → ∃ r0, b.args = r0 ++ [kwargsParam]) ∧
    compiled b = b.args := by
  have i := inv_of_reachable h
  exact ⟨i.noPosOnly, i.virtTail, i.check, i.collector, compiled_eq_args i⟩

/-- `.build()` succeeding supplies the structural half of `Good`. -/
theorem buildable_good {b : Builder} {impl : Sig} (h : buildResult b impl = "ok") :
    (names (advertised b)).Nodup ∧ countKind b.args .varKw ≤ 1 ∧ countKind b.args .varPos ≤ 1 := by
  unfold buildResult at h
  split at h
  · exact absurd h (by decide)
  · rename_i h1
    split at h
    · exact absurd h (by decide)
    · split at h
      · exact absurd h (by decide)
      · rename_i h3
        simp only [Bool.not_eq_true', Bool.and_eq_false_iff, not_or, Bool.not_eq_false] at h1
        simp only [Bool.not_eq_true', Bool.not_eq_false, sigCompiles, Bool.and_eq_true,
          decide_eq_true_eq] at h3
        refine ⟨?_, h3.2, h3.1⟩
        have := h1.2
        simp only [sigInspectOk, Bool.and_eq_true] at this
        exact (nodupB_iff _).1 this.2

/-! ## acceptance -/

theorem wrapper_ok_eq {b : Builder} {c : Call α} {f : FCall α} (h : wrapper b c = .ok f) :
    f = forwardCall b c := by
  unfold wrapper at h
  split at h
  · cases h
  · split at h
    · cases h
    · split at h
      · cases h
      · injection h with h; exact h.symm

/-- The wrapper raises nothing but `TypeError` on its own. -/
theorem wrapper_error_is_typeError {b : Builder} {c : Call α} {e : Err}
    (h : wrapper b c = .error e) : e = .typeError := by
  unfold wrapper at h
  split at h
  · injection h with h; exact h.symm
  · split at h
    · injection h with h; exact h.symm
    · split at h
      · injection h with h; exact h.symm
      · cases h

theorem noCapture_mem {b : Builder} (h : noCapture b = true) :
    (names b.args).contains "validate_attrs" = false ∧
    (names b.args).contains "implementation" = false := by
  simp only [SpecVerif.C17.noCapture, List.all_eq_true, reservedNames] at h
  constructor
  · rw [Bool.eq_false_iff]; intro hc
    have := h _ (by simpa using hc)
    simp at this
  · rw [Bool.eq_false_iff]; intro hc
    have := h _ (by simpa using hc)
    simp at this

theorem wrapper_ok_iff {b : Builder} (hc : noCapture b = true) (c : Call α) :
    (∃ f, wrapper b c = .ok f) ↔
      (acceptsB (compiled b) c = true ∧
        (b.virt ≠ [] → b.checkAttrs = true →
          validateAttrs b (extraKw (compiled b) c) = true)) := by
  obtain ⟨hva, him⟩ := noCapture_mem hc
  unfold wrapper
  rw [hva, him]
  by_cases ha : acceptsB (compiled b) c = true
  · by_cases hv : b.virt = []
    · simp [ha, hv]
    · by_cases hk : b.checkAttrs = true
      · by_cases hval : validateAttrs b (extraKw (compiled b) c) = true
        · simp [ha, hv, hk, hval]
        · simp [ha, hv, hk, hval]
      · simp [ha, hv, hk]
  · simp [ha]

theorem countKind_append (a b : Sig) (k : Kind) :
    countKind (a ++ b) k = countKind a k + countKind b k := by
  simp [countKind]

theorem hasVarKw_of_count {s : Sig} (h : countKind s .varKw = 0) : hasVarKw s = false := by
  rw [hasVarKw_false_iff]
  intro p hp hk
  have : p ∈ s.filter (·.kind == .varKw) := List.mem_filter.2 ⟨hp, by simp [hk]⟩
  unfold countKind at h
  rw [List.length_eq_zero_iff] at h
  rw [h] at this
  cases this

/-- **accepts_iff_advertised.** For every buildable builder reachable by any
`with_arg` sequence and every call: the generated method gets past its own
checks (binding against the compiled parameters, then `validate_attrs`) exactly
when Python's binding of the call against the ADVERTISED signature succeeds. -/
theorem accepts_iff_advertised {b : Builder} (hb : Good b) (c : Call α) :
    (∃ f, wrapper b c = .ok f) ↔ (∃ bd, pyBind (advertised b) c = .ok bd) := by
  have inv := inv_of_reachable hb.reach
  rw [wrapper_ok_iff hb.noCapture, compiled_eq_args inv]
  have hpy : ∀ s : Sig, (∃ bd, pyBind s c = .ok bd) ↔ Accepts s c := by
    intro s
    rw [← acceptsB_iff]
    unfold pyBind
    by_cases h : acceptsB s c = true <;> simp [h]
  rw [hpy, acceptsB_iff]
  by_cases hv : b.virt = []
  · have : advertised b = b.args := by simp [advertised, hv]
    rw [this]
    simp [hv]
  · obtain ⟨r0, hr0⟩ := inv.collector hv
    have hadv : advertised b = r0 ++ b.virt := by
      simp [advertised, hv, hr0]
    have hcount : hasVarKw r0 = false := by
      apply hasVarKw_of_count
      have := hb.oneVarKw
      rw [hr0, countKind_append] at this
      have h1 : countKind [kwargsParam] .varKw = 1 := by simp [countKind, kwargsParam]
      omega
    have hnd := hb.advNodup
    rw [hadv] at hnd
    rw [hadv, hr0, ← accepts_tail r0 b.virt c inv.virtTail hcount hnd hb.virtDefaults]
    have hn : namedNames (r0 ++ [kwargsParam]) = namedNames r0 := by
      rw [namedNames_append, namedNames_kwargs, List.append_nil]
    constructor
    · rintro ⟨ha, hval⟩
      refine ⟨ha, ?_⟩
      intro hvv
      have hck : b.checkAttrs = true := by rw [inv.check, hvv]; rfl
      have := (validateAttrs_iff b _ c).1 (hval hv hck)
      rw [hn] at this
      exact this
    · rintro ⟨ha, hval⟩
      refine ⟨ha, ?_⟩
      intro _ hck
      have hvv : hasVarKw b.virt = false := by
        rw [inv.check] at hck
        simpa using hck
      rw [validateAttrs_iff, hn]
      exact hval hvv

/-- **unknown_kw_before_effects.** A keyword that is not in the advertised
signature (and no advertised `**` parameter to absorb it): the method raises
`TypeError`, and — whatever the implementation is and whatever state it could
change — the implementation is never entered: the state is exactly what it was. -/
theorem unknown_kw_before_effects {σ ρ : Type} {b : Builder} (hb : Good b) (c : Call α) (k : Name)
    (hk : k ∈ c.kwNames) (hun : k ∉ names (advertised b)) (hvk : hasVarKw (advertised b) = false)
    (impl : FCall α → σ → σ × Except Err ρ) (st : σ) :
    wrapper b c = .error .typeError ∧ runWrapper b impl c st = (st, .error .typeError) := by
  have hw : wrapper b c = .error .typeError := by
    cases hres : wrapper b c with
    | error e => rw [wrapper_error_is_typeError hres]
    | ok f =>
      exfalso
      obtain ⟨bd, hbd⟩ := (accepts_iff_advertised hb c).1 ⟨f, hres⟩
      unfold pyBind at hbd
      split at hbd
      · rename_i hacc
        have acc := (acceptsB_iff _ _).1 hacc
        have := (acc.kwOk k hk).2 (fun h => hun (namedNames_sub_names h))
        rw [hvk] at this
        cases this
      · cases hbd
  exact ⟨hw, by simp [runWrapper, hw]⟩

/-! ## forwarding -/

theorem mem_forward_kw_named {b : Builder} (c : Call α) {p : Param} (hp : p ∈ b.args)
    (hk : p.kind = .posOrKw ∨ p.kind = .kwOnly) :
    (p.name, argOf (compiled b) c p) ∈ (forwardCall b c).kw := by
  simp only [forwardCall, List.mem_flatMap]
  refine ⟨p, hp, ?_⟩
  rcases hk with hk | hk <;> simp [hk]

theorem mem_forward_kw_extra {b : Builder} (c : Call α) (hvk : hasVarKw b.args = true)
    {k : Name} {v : α} (hkv : (k, v) ∈ extraKw (compiled b) c) :
    (k, Arg.val v) ∈ (forwardCall b c).kw := by
  obtain ⟨p, hp, hpk⟩ := hasVarKw_iff.1 hvk
  simp only [forwardCall, List.mem_flatMap]
  refine ⟨p, hp, ?_⟩
  simp only [hpk, List.mem_map]
  exact ⟨(k, v), hkv, rfl⟩

theorem forward_kw_mem_cases {b : Builder} (c : Call α) {k : Name} {a : Arg α}
    (h : (k, a) ∈ (forwardCall b c).kw) :
    (∃ p ∈ b.args, (p.kind = .posOrKw ∨ p.kind = .kwOnly) ∧ p.name = k ∧ a = argOf (compiled b) c p) ∨
    (∃ v, (k, v) ∈ extraKw (compiled b) c ∧ a = .val v ∧ hasVarKw b.args = true) := by
  simp only [forwardCall, List.mem_flatMap] at h
  obtain ⟨p, hp, hm⟩ := h
  cases hk : p.kind with
  | posOnly => simp [hk] at hm
  | varPos => simp [hk] at hm
  | posOrKw =>
    simp only [hk, List.mem_singleton, Prod.mk.injEq] at hm
    exact Or.inl ⟨p, hp, Or.inl hk, hm.1.symm, hm.2⟩
  | kwOnly =>
    simp only [hk, List.mem_singleton, Prod.mk.injEq] at hm
    exact Or.inl ⟨p, hp, Or.inr hk, hm.1.symm, hm.2⟩
  | varKw =>
    simp only [hk, List.mem_map, Prod.mk.injEq] at hm
    obtain ⟨kv, hkv, h1, h2⟩ := hm
    refine Or.inr ⟨kv.2, ?_, h2.symm, hasVarKw_iff.2 ⟨p, hp, hk⟩⟩
    rw [← h1]; exact hkv

theorem kwGet_mem {kw : List (Name × α)} {k : Name} {v : α} (h : kwGet kw k = some v) :
    (k, v) ∈ kw := by
  unfold kwGet at h
  cases hf : kw.find? (fun p => p.1 == k) with
  | none => simp [hf] at h
  | some q =>
    simp [hf] at h
    have hq := List.find?_some hf
    have hm := List.mem_of_find?_eq_some hf
    simp at hq
    subst h
    rw [← hq]; exact hm

theorem kwGet_none {kw : List (Name × α)} {k : Name} (h : kwGet kw k = none) :
    k ∉ kw.map (·.1) := by
  unfold kwGet at h
  simp only [Option.map_eq_none_iff, List.find?_eq_none] at h
  intro hm
  obtain ⟨q, hq, rfl⟩ := List.mem_map.1 hm
  exact h q hq (by simp)

/-- **forwards_bound.** When the generated method enters the implementation,
what arrives there is determined by Python's binding of the call against the
ADVERTISED signature, parameter by parameter:
* a compiled (non-virtual) named parameter arrives by keyword carrying exactly
  the value bound to it — the caller's value, or the parameter's own default
  object when the caller gave none ("defaults are as shown");
* extra positionals arrive as the positional arguments (`*args`);
* a nested-attribute keyword the caller passed arrives by keyword with the
  caller's value; one the caller did not pass does not arrive at all (its shown
  default is documentation, DESIGN section 10 item 9);
* every keyword absorbed by an advertised `**` parameter arrives;
* nothing else arrives: each forwarded keyword is an advertised named
  parameter, or the advertised signature has a `**` parameter. -/
theorem forwards_bound {b : Builder} (hb : Good b) (c : Call α) (f : FCall α)
    (h : wrapper b c = .ok f) :
    (∀ p ∈ b.args, (p.kind = .posOrKw ∨ p.kind = .kwOnly) →
        p ∈ advertised b ∧ (p.name, argOf (advertised b) c p) ∈ f.kw) ∧
    (f.pos = if hasVarPos (advertised b) then (extraPos (advertised b) c).map Arg.val else []) ∧
    (∀ p ∈ b.virt, p.kind = .kwOnly →
        match kwGet c.kw p.name with
        | some v => (p.name, Arg.val v) ∈ f.kw
        | none => p.name ∉ f.kw.map (·.1)) ∧
    (∀ k v, (k, v) ∈ extraKw (advertised b) c → (k, Arg.val v) ∈ f.kw) ∧
    (∀ k a, (k, a) ∈ f.kw → k ∈ namedNames (advertised b) ∨ hasVarKw (advertised b) = true) := by
  have inv := inv_of_reachable hb.reach
  have hcomp := compiled_eq_args inv
  have hf := wrapper_ok_eq h
  subst hf
  have hacc : Accepts (advertised b) c := by
    obtain ⟨bd, hbd⟩ := (accepts_iff_advertised hb c).1 ⟨_, h⟩
    unfold pyBind at hbd
    split at hbd
    · rename_i ha; exact (acceptsB_iff _ _).1 ha
    · cases hbd
  -- the two shapes of the advertised signature
  have shape : (b.virt = [] ∧ advertised b = b.args) ∨
      (b.virt ≠ [] ∧ ∃ r0, b.args = r0 ++ [kwargsParam] ∧ advertised b = r0 ++ b.virt ∧
        hasVarKw r0 = false) := by
    by_cases hv : b.virt = []
    · exact Or.inl ⟨hv, by simp [advertised, hv]⟩
    · obtain ⟨r0, hr0⟩ := inv.collector hv
      refine Or.inr ⟨hv, r0, hr0, by simp [advertised, hv, hr0], ?_⟩
      apply hasVarKw_of_count
      have := hb.oneVarKw
      rw [hr0, countKind_append] at this
      have h1 : countKind [kwargsParam] .varKw = 1 := by simp [countKind, kwargsParam]
      omega
  have hpos : posNames (advertised b) = posNames b.args := by
    rcases shape with ⟨_, ha⟩ | ⟨_, r0, hr0, ha, _⟩
    · rw [ha]
    · rw [ha, hr0, posNames_append, posNames_append, posNames_kwTail inv.virtTail,
        posNames_kwTail kwTail_kwargs]
  have hvp : hasVarPos (advertised b) = hasVarPos b.args := by
    rcases shape with ⟨_, ha⟩ | ⟨_, r0, hr0, ha, _⟩
    · rw [ha]
    · rw [ha, hr0, hasVarPos_append, hasVarPos_append, hasVarPos_kwTail inv.virtTail,
        hasVarPos_kwTail kwTail_kwargs]
  refine ⟨?_, ?_, ?_, ?_, ?_⟩
  · intro p hp hk
    have hmem := mem_forward_kw_named c hp hk
    rw [hcomp, argOf_congr c p hpos.symm] at hmem
    refine ⟨?_, hmem⟩
    rcases shape with ⟨_, ha⟩ | ⟨_, r0, hr0, ha, _⟩
    · rw [ha]; exact hp
    · rw [ha]; rw [hr0] at hp
      rcases List.mem_append.1 hp with h0 | hK
      · exact List.mem_append.2 (Or.inl h0)
      · simp at hK; subst hK; rcases hk with hk | hk <;> cases hk
  · -- positionals
    simp only [forwardCall, hcomp]
    have hnoPO : ∀ p ∈ b.args, p.kind ≠ .posOnly := inv.noPosOnly
    rw [hvp]
    unfold extraPos
    rw [hpos]
    cases hvpb : hasVarPos b.args with
    | false =>
      simp only [Bool.false_eq_true, if_false]
      rw [List.flatMap_eq_nil_iff]
      intro p hp
      have : p.kind ≠ .varPos := by
        intro hk
        have : hasVarPos b.args = true := by simp only [hasVarPos, List.any_eq_true]; exact ⟨p, hp, by simp [hk]⟩
        rw [hvpb] at this; cases this
      cases hk : p.kind <;> simp_all
    | true =>
      simp only [if_true]
      -- exactly one `*args` (the def text compiles), so the flatMap yields its content once
      have hone : countKind b.args .varPos ≤ 1 → True := fun _ => trivial
      -- membership-free argument: prove by induction on the list with a counter
      have key : ∀ (l : Sig), (∀ p ∈ l, p.kind ≠ .posOnly) → countKind l .varPos ≤ 1 →
          hasVarPos l = true →
          l.flatMap (fun p => match p.kind with
            | .posOnly => [argOf b.args c (compileParam p)]
            | .varPos => (List.drop (posNames b.args).length c.pos).map Arg.val
            | _ => []) = (List.drop (posNames b.args).length c.pos).map Arg.val := by
        intro l
        induction l with
        | nil => intro _ _ h; simp [hasVarPos] at h
        | cons q qs ih =>
          intro hno hcnt hhas
          have hq := hno q (List.mem_cons_self)
          have hqs : ∀ p ∈ qs, p.kind ≠ .posOnly := fun p hp => hno p (List.mem_cons_of_mem _ hp)
          rw [List.flatMap_cons]
          by_cases hqk : q.kind = .varPos
          · have hrest : countKind qs .varPos = 0 := by
              simp only [countKind, List.filter_cons, hqk, beq_self_eq_true, if_true,
                List.length_cons] at hcnt
              simp only [countKind]; omega
            have hnil : qs.flatMap (fun p => match p.kind with
                | .posOnly => [argOf b.args c (compileParam p)]
                | .varPos => (List.drop (posNames b.args).length c.pos).map Arg.val
                | _ => []) = [] := by
              rw [List.flatMap_eq_nil_iff]
              intro p hp
              have : p.kind ≠ .varPos := by
                intro hk
                have hm : p ∈ qs.filter (·.kind == .varPos) := List.mem_filter.2 ⟨hp, by simp [hk]⟩
                simp only [countKind, List.length_eq_zero_iff] at hrest
                rw [hrest] at hm; cases hm
              have := hqs p hp
              cases hk : p.kind <;> simp_all
            rw [hnil]; simp [hqk]
          · have hcnt' : countKind qs .varPos ≤ 1 := by
              simp only [countKind, List.filter_cons] at hcnt
              have : (q.kind == Kind.varPos) = false := by simp [hqk]
              simp only [this] at hcnt
              exact hcnt
            have hhas' : hasVarPos qs = true := by
              simp only [hasVarPos, List.any_cons, Bool.or_eq_true] at hhas
              rcases hhas with h | h
              · simp at h; exact absurd h hqk
              · exact h
            rw [ih hqs hcnt' hhas']
            cases hk : q.kind <;> simp_all
      exact key b.args hnoPO hb.oneVarPos hvpb
  · -- nested-attribute keywords
    intro p hp hk
    have hvne : b.virt ≠ [] := List.ne_nil_of_mem hp
    rcases shape with ⟨hv, _⟩ | ⟨_, r0, hr0, ha, hr0vk⟩
    · exact absurd hv hvne
    · have hnd := hb.advNodup
      rw [ha, names_append] at hnd
      have hdisj : p.name ∉ names r0 := fun h0 =>
        (List.nodup_append.1 hnd).2.2 _ h0 _ (mem_names.2 ⟨p, hp, rfl⟩) rfl
      have hnn : p.name ∉ namedNames b.args := by
        rw [hr0, namedNames_append, namedNames_kwargs, List.append_nil]
        exact fun h => hdisj (namedNames_sub_names h)
      have hvk : hasVarKw b.args = true := by rw [hr0]; simp [hasVarKw, kwargsParam]
      cases hg : kwGet c.kw p.name with
      | some v =>
        simp only
        apply mem_forward_kw_extra c hvk
        rw [hcomp]
        simp only [extraKw, List.mem_filter]
        exact ⟨kwGet_mem hg, by simpa using hnn⟩
      | none =>
        simp only
        intro hm
        obtain ⟨ka, hka, hkeq⟩ := List.mem_map.1 hm
        have hka' : (p.name, ka.2) ∈ (forwardCall b c).kw := by rw [← hkeq]; exact hka
        rcases forward_kw_mem_cases c hka' with ⟨q, hq, hqk, hqn, _⟩ | ⟨v, hv, _, _⟩
        · apply hnn
          exact mem_namedNames.2 ⟨q, hq, by rcases hqk with h | h <;> simp [h, Kind.isNamed], hqn⟩
        · simp only [extraKw, List.mem_filter] at hv
          exact kwGet_none hg (List.mem_map.2 ⟨(p.name, v), hv.1, rfl⟩)
  · -- keywords absorbed by the advertised `**`
    intro k v hkv
    simp only [extraKw, List.mem_filter] at hkv
    obtain ⟨hmem, hnot⟩ := hkv
    have hnot' : k ∉ namedNames (advertised b) := by simpa using hnot
    have hkn : k ∈ c.kwNames := List.mem_map.2 ⟨(k, v), hmem, rfl⟩
    have hvkadv := (hacc.kwOk k hkn).2 hnot'
    have hargs : k ∉ namedNames b.args ∧ hasVarKw b.args = true := by
      rcases shape with ⟨_, ha⟩ | ⟨_, r0, hr0, ha, _⟩
      · rw [ha] at hnot' hvkadv; exact ⟨hnot', hvkadv⟩
      · constructor
        · rw [hr0, namedNames_append, namedNames_kwargs, List.append_nil]
          intro h0; apply hnot'; rw [ha, namedNames_append]
          exact List.mem_append.2 (Or.inl h0)
        · rw [hr0]; simp [hasVarKw, kwargsParam]
    apply mem_forward_kw_extra c hargs.2
    rw [hcomp]
    simp only [extraKw, List.mem_filter]
    exact ⟨hmem, by simpa using hargs.1⟩
  · -- nothing unadvertised arrives
    intro k a hka
    rcases forward_kw_mem_cases c hka with ⟨q, hq, hqk, hqn, _⟩ | ⟨v, hv, _, _⟩
    · left
      have hqadv : q ∈ advertised b := by
        rcases shape with ⟨_, ha⟩ | ⟨_, r0, hr0, ha, _⟩
        · rw [ha]; exact hq
        · rw [ha]; rw [hr0] at hq
          rcases List.mem_append.1 hq with h0 | hK
          · exact List.mem_append.2 (Or.inl h0)
          · simp at hK; subst hK; rcases hqk with hk | hk <;> cases hk
      exact mem_namedNames.2 ⟨q, hqadv, by rcases hqk with h | h <;> simp [h, Kind.isNamed], hqn⟩
    · simp only [extraKw, List.mem_filter] at hv
      have hkn : k ∈ c.kwNames := List.mem_map.2 ⟨(k, v), hv.1, rfl⟩
      by_cases hin : k ∈ namedNames (advertised b)
      · exact Or.inl hin
      · exact Or.inr ((hacc.kwOk k hkn).2 hin)

end SpecVerif.Props.C17
