import SpecVerif.Proofs.C17
import SpecVerif.Proofs.C17Impl
import SpecVerif.Proofs.C17Reg
/-!
# C17 — every generated method accepts exactly what its advertised signature says

Property theorems only (helper lemmas are in `Proofs/C17.lean`). Every theorem
is about the executable definitions of `Model/C17.lean`, which the
correspondence check runs against `spec_classes.utils.method_builder.MethodBuilder`
and against every generated method of a generated class family.

Quantification: every `Builder` reachable from `MethodBuilder(name, impl)` by
ANY sequence of successful `with_arg` calls (`Reachable`), every call (any
number of positionals, any keyword list), any value type `α`, any
implementation (`runWrapper` takes an arbitrary state-transforming function).
-/
set_option linter.unusedSectionVars false
set_option linter.unusedSimpArgs false
set_option linter.unusedVariables false
namespace SpecVerif.Props.C17
open SpecVerif.Py SpecVerif.C17

variable {α : Type}

/-!
Hypotheses used below (definitions in `Proofs/C17.lean`, repeated here for the reader):

* `Good b` :=  `Reachable b`  (some successful `with_arg` sequence produced `b`)
             ∧ `(names (advertised b)).Nodup` ∧ `(names b.args).Nodup`
             ∧ at most one `**` and one `*` among `b.args`      — these four are what `.build()`
               succeeding gives (`buildable_good`)
             ∧ every virtual keyword-only argument carries a default (all that
               `with_spec_attrs_for` adds do: `nested_kw_bijection`)
             ∧ `noCapture b`: no parameter is called `_spec_classes_implementation` /
               `_spec_classes_validate_attrs`, the (private) names under which the generated text
               looks up its two globals since /repo 0ac9e19; no attribute of a well-formed class
               is private, so this costs generated methods nothing (`Legacy.key_capture_witness`
               is the behaviour before the repair).
* `cfgOK m` := well-formedness of the configuration: the parameter names of the method's recipe
             (`self`, control parameters, key attribute) are distinct — i.e. the key attribute is not
             called `self` — none is `kwargs` (either makes `.build()` fail loudly with ValueError) and
             none is one of the two private global names; the nested class has
             distinct attribute names and its overflow attribute is not one of those parameters.
-/

/-! ## shape of every reachable builder -/

/-- Whatever the `with_arg` sequence: no positional-only parameter can ever be
added (the builder starts with `self`), the virtual list holds only
keyword-only / `**` parameters, `check_attrs_match_sig` is "no virtual `**`",
and once there is a virtual argument the compiled parameter list ends with the
`**kwargs` collector. -/
theorem reachable_shape {b : Builder} (h : Reachable b) :
    (∀ p ∈ b.args, p.kind ≠ .posOnly) ∧
    (∀ p ∈ b.virt, p.kind = .kwOnly ∨ p.kind = .varKw) ∧
    (b.checkAttrs = !hasVarKw b.virt) ∧
    (b.virt ≠ [] → ∃ r0, b.args = r0 ++ [kwargsParam]) ∧
    compiled b = b.args := by
  have i := inv_of_reachable h
  exact ⟨i.noPosOnly, i.virtTail, i.check, i.collector, compiled_eq_args i⟩

/-- `.build()` succeeding supplies the structural half of `Good`. -/
theorem buildable_good {b : Builder} {impl : Sig} (h : buildResult b impl = "ok") :
    (names (advertised b)).Nodup ∧ (names b.args).Nodup ∧
      countKind b.args .varKw ≤ 1 ∧ countKind b.args .varPos ≤ 1 := by
  unfold buildResult at h
  split at h
  · exact absurd h (by decide)
  · rename_i h1
    split at h
    · exact absurd h (by decide)
    · split at h
      · exact absurd h (by decide)
      · rename_i h3
        simp only [Bool.not_eq_true', Bool.and_eq_false_iff, not_or, Bool.not_eq_false] at h1
        simp only [Bool.not_eq_true', Bool.not_eq_false, sigCompiles, Bool.and_eq_true,
          decide_eq_true_eq] at h3
        have ha := h1.1
        have := h1.2
        simp only [sigInspectOk, Bool.and_eq_true] at this ha
        exact ⟨(nodupB_iff _).1 this.2, (nodupB_iff _).1 ha.2, h3.2, h3.1⟩

/-! ## acceptance -/

/-- The wrapper raises nothing but `TypeError` on its own. -/
theorem wrapper_error_is_typeError {b : Builder} {c : Call α} {e : Err}
    (h : wrapper b c = .error e) : e = .typeError := by
  unfold wrapper wrapperWith at h
  split at h
  · injection h with h; exact h.symm
  · split at h
    · injection h with h; exact h.symm
    · split at h
      · injection h with h; exact h.symm
      · cases h

/-- **accepts_iff_advertised.** For every buildable builder reachable by any
`with_arg` sequence and every call: the generated method gets past its own
checks (binding against the compiled parameters, then `validate_attrs`) exactly
when Python's binding of the call against the ADVERTISED signature succeeds. -/
theorem accepts_iff_advertised {b : Builder} (hb : Good b) (c : Call α) :
    (∃ f, wrapper b c = .ok f) ↔ (∃ bd, pyBind (advertised b) c = .ok bd) := by
  have inv := inv_of_reachable hb.reach
  rw [wrapper_ok_iff hb.noCapture, compiled_eq_args inv]
  have hpy : ∀ s : Sig, (∃ bd, pyBind s c = .ok bd) ↔ Accepts s c := by
    intro s
    rw [← acceptsB_iff]
    unfold pyBind
    by_cases h : acceptsB s c = true <;> simp [h]
  rw [hpy, acceptsB_iff]
  by_cases hv : b.virt = []
  · have : advertised b = b.args := by simp [advertised, hv]
    rw [this]
    simp [hv]
  · obtain ⟨r0, hr0⟩ := inv.collector hv
    have hadv : advertised b = r0 ++ b.virt := by
      simp [advertised, hv, hr0]
    have hcount : hasVarKw r0 = false := by
      apply hasVarKw_of_count
      have := hb.oneVarKw
      rw [hr0, countKind_append] at this
      have h1 : countKind [kwargsParam] .varKw = 1 := by simp [countKind, kwargsParam]
      omega
    have hnd := hb.advNodup
    rw [hadv] at hnd
    rw [hadv, hr0, ← accepts_tail r0 b.virt c inv.virtTail hcount hnd hb.virtDefaults]
    have hn : namedNames (r0 ++ [kwargsParam]) = namedNames r0 := by
      rw [namedNames_append, namedNames_kwargs, List.append_nil]
    constructor
    · rintro ⟨ha, hval⟩
      refine ⟨ha, ?_⟩
      intro hvv
      have hck : b.checkAttrs = true := by rw [inv.check, hvv]; rfl
      have := (validateAttrs_iff b _ c).1 (hval hv hck)
      rw [hn] at this
      exact this
    · rintro ⟨ha, hval⟩
      refine ⟨ha, ?_⟩
      intro _ hck
      have hvv : hasVarKw b.virt = false := by
        rw [inv.check] at hck
        simpa using hck
      rw [validateAttrs_iff, hn]
      exact hval hvv

/-- **unknown_kw_before_effects.** A keyword that is not in the advertised
signature (and no advertised `**` parameter to absorb it): the method raises
`TypeError`, and — whatever the implementation is and whatever state it could
change — the implementation is never entered: the state is exactly what it was. -/
theorem unknown_kw_before_effects {σ ρ : Type} {b : Builder} (hb : Good b) (c : Call α) (k : Name)
    (hk : k ∈ c.kwNames) (hun : k ∉ names (advertised b)) (hvk : hasVarKw (advertised b) = false)
    (impl : FCall α → σ → σ × Except Err ρ) (st : σ) :
    wrapper b c = .error .typeError ∧ runWrapper b impl c st = (st, .error .typeError) := by
  have hw : wrapper b c = .error .typeError := by
    cases hres : wrapper b c with
    | error e => rw [wrapper_error_is_typeError hres]
    | ok f =>
      exfalso
      obtain ⟨bd, hbd⟩ := (accepts_iff_advertised hb c).1 ⟨f, hres⟩
      unfold pyBind at hbd
      split at hbd
      · rename_i hacc
        have acc := (acceptsB_iff _ _).1 hacc
        have := (acc.kwOk k hk).2 (fun h => hun (namedNames_sub_names h))
        rw [hvk] at this
        cases this
      · cases hbd
  exact ⟨hw, by simp [runWrapper, hw]⟩

/-! ## forwarding -/

/-- **forwards_bound.** When the generated method enters the implementation,
what arrives there is determined by Python's binding of the call against the
ADVERTISED signature, parameter by parameter:
* a compiled (non-virtual) named parameter arrives by keyword carrying exactly
  the value bound to it — the caller's value, or the parameter's own default
  object when the caller gave none ("defaults are as shown");
* extra positionals arrive as the positional arguments (`*args`);
* a nested-attribute keyword the caller passed arrives by keyword with the
  caller's value; one the caller did not pass does not arrive at all (its shown
  default is documentation, DESIGN section 10 item 9);
* every keyword absorbed by an advertised `**` parameter arrives;
* nothing else arrives: each forwarded keyword is an advertised named
  parameter, or the advertised signature has a `**` parameter. -/
theorem forwards_bound {b : Builder} (hb : Good b) (c : Call α) (f : FCall α)
    (h : wrapper b c = .ok f) :
    (∀ p ∈ b.args, (p.kind = .posOrKw ∨ p.kind = .kwOnly) →
        p ∈ advertised b ∧ (p.name, argOf (advertised b) c p) ∈ f.kw) ∧
    (f.pos = if hasVarPos (advertised b) then (extraPos (advertised b) c).map Arg.val else []) ∧
    (∀ p ∈ b.virt, p.kind = .kwOnly →
        match kwGet c.kw p.name with
        | some v => (p.name, Arg.val v) ∈ f.kw
        | none => p.name ∉ f.kw.map (·.1)) ∧
    (∀ k v, (k, v) ∈ extraKw (advertised b) c → (k, Arg.val v) ∈ f.kw) ∧
    (∀ k a, (k, a) ∈ f.kw → k ∈ namedNames (advertised b) ∨ hasVarKw (advertised b) = true) := by
  have inv := inv_of_reachable hb.reach
  have hcomp := compiled_eq_args inv
  have hf := wrapper_ok_eq h
  subst hf
  have hacc : Accepts (advertised b) c := by
    obtain ⟨bd, hbd⟩ := (accepts_iff_advertised hb c).1 ⟨_, h⟩
    unfold pyBind at hbd
    split at hbd
    · rename_i ha; exact (acceptsB_iff _ _).1 ha
    · cases hbd
  -- the two shapes of the advertised signature
  have shape : (b.virt = [] ∧ advertised b = b.args) ∨
      (b.virt ≠ [] ∧ ∃ r0, b.args = r0 ++ [kwargsParam] ∧ advertised b = r0 ++ b.virt ∧
        hasVarKw r0 = false) := by
    by_cases hv : b.virt = []
    · exact Or.inl ⟨hv, by simp [advertised, hv]⟩
    · obtain ⟨r0, hr0⟩ := inv.collector hv
      refine Or.inr ⟨hv, r0, hr0, by simp [advertised, hv, hr0], ?_⟩
      apply hasVarKw_of_count
      have := hb.oneVarKw
      rw [hr0, countKind_append] at this
      have h1 : countKind [kwargsParam] .varKw = 1 := by simp [countKind, kwargsParam]
      omega
  have hpos : posNames (advertised b) = posNames b.args := by
    rcases shape with ⟨_, ha⟩ | ⟨_, r0, hr0, ha, _⟩
    · rw [ha]
    · rw [ha, hr0, posNames_append, posNames_append, posNames_kwTail inv.virtTail,
        posNames_kwTail kwTail_kwargs]
  have hvp : hasVarPos (advertised b) = hasVarPos b.args := by
    rcases shape with ⟨_, ha⟩ | ⟨_, r0, hr0, ha, _⟩
    · rw [ha]
    · rw [ha, hr0, hasVarPos_append, hasVarPos_append, hasVarPos_kwTail inv.virtTail,
        hasVarPos_kwTail kwTail_kwargs]
  refine ⟨?_, ?_, ?_, ?_, ?_⟩
  · intro p hp hk
    have hmem := mem_forward_kw_named c hp hk
    rw [hcomp, argOf_congr c p hpos.symm] at hmem
    refine ⟨?_, hmem⟩
    rcases shape with ⟨_, ha⟩ | ⟨_, r0, hr0, ha, _⟩
    · rw [ha]; exact hp
    · rw [ha]; rw [hr0] at hp
      rcases List.mem_append.1 hp with h0 | hK
      · exact List.mem_append.2 (Or.inl h0)
      · simp at hK; subst hK; rcases hk with hk | hk <;> cases hk
  · -- positionals
    simp only [forwardCall, hcomp]
    have hnoPO : ∀ p ∈ b.args, p.kind ≠ .posOnly := inv.noPosOnly
    rw [hvp]
    unfold extraPos
    rw [hpos]
    cases hvpb : hasVarPos b.args with
    | false =>
      simp only [Bool.false_eq_true, if_false]
      rw [List.flatMap_eq_nil_iff]
      intro p hp
      have : p.kind ≠ .varPos := by
        intro hk
        have : hasVarPos b.args = true := by simp only [hasVarPos, List.any_eq_true]; exact ⟨p, hp, by simp [hk]⟩
        rw [hvpb] at this; cases this
      cases hk : p.kind <;> simp_all
    | true =>
      simp only [if_true]
      -- exactly one `*args` (the def text compiles), so the flatMap yields its content once
      have hone : countKind b.args .varPos ≤ 1 → True := fun _ => trivial
      -- membership-free argument: prove by induction on the list with a counter
      have key : ∀ (l : Sig), (∀ p ∈ l, p.kind ≠ .posOnly) → countKind l .varPos ≤ 1 →
          hasVarPos l = true →
          l.flatMap (fun p => match p.kind with
            | .posOnly => [argOf b.args c (compileParam p)]
            | .varPos => (List.drop (posNames b.args).length c.pos).map Arg.val
            | _ => []) = (List.drop (posNames b.args).length c.pos).map Arg.val := by
        intro l
        induction l with
        | nil => intro _ _ h; simp [hasVarPos] at h
        | cons q qs ih =>
          intro hno hcnt hhas
          have hq := hno q (List.mem_cons_self)
          have hqs : ∀ p ∈ qs, p.kind ≠ .posOnly := fun p hp => hno p (List.mem_cons_of_mem _ hp)
          rw [List.flatMap_cons]
          by_cases hqk : q.kind = .varPos
          · have hrest : countKind qs .varPos = 0 := by
              simp only [countKind, List.filter_cons, hqk, beq_self_eq_true, if_true,
                List.length_cons] at hcnt
              simp only [countKind]; omega
            have hnil : qs.flatMap (fun p => match p.kind with
                | .posOnly => [argOf b.args c (compileParam p)]
                | .varPos => (List.drop (posNames b.args).length c.pos).map Arg.val
                | _ => []) = [] := by
              rw [List.flatMap_eq_nil_iff]
              intro p hp
              have : p.kind ≠ .varPos := by
                intro hk
                have hm : p ∈ qs.filter (·.kind == .varPos) := List.mem_filter.2 ⟨hp, by simp [hk]⟩
                simp only [countKind, List.length_eq_zero_iff] at hrest
                rw [hrest] at hm; cases hm
              have := hqs p hp
              cases hk : p.kind <;> simp_all
            rw [hnil]; simp [hqk]
          · have hcnt' : countKind qs .varPos ≤ 1 := by
              simp only [countKind, List.filter_cons] at hcnt
              have : (q.kind == Kind.varPos) = false := by simp [hqk]
              simp only [this] at hcnt
              exact hcnt
            have hhas' : hasVarPos qs = true := by
              simp only [hasVarPos, List.any_cons, Bool.or_eq_true] at hhas
              rcases hhas with h | h
              · simp at h; exact absurd h hqk
              · exact h
            rw [ih hqs hcnt' hhas']
            cases hk : q.kind <;> simp_all
      exact key b.args hnoPO hb.oneVarPos hvpb
  · -- nested-attribute keywords
    intro p hp hk
    have hvne : b.virt ≠ [] := List.ne_nil_of_mem hp
    rcases shape with ⟨hv, _⟩ | ⟨_, r0, hr0, ha, hr0vk⟩
    · exact absurd hv hvne
    · have hnd := hb.advNodup
      rw [ha, names_append] at hnd
      have hdisj : p.name ∉ names r0 := fun h0 =>
        (List.nodup_append.1 hnd).2.2 _ h0 _ (mem_names.2 ⟨p, hp, rfl⟩) rfl
      have hnn : p.name ∉ namedNames b.args := by
        rw [hr0, namedNames_append, namedNames_kwargs, List.append_nil]
        exact fun h => hdisj (namedNames_sub_names h)
      have hvk : hasVarKw b.args = true := by rw [hr0]; simp [hasVarKw, kwargsParam]
      cases hg : kwGet c.kw p.name with
      | some v =>
        simp only
        apply mem_forward_kw_extra c hvk
        rw [hcomp]
        simp only [extraKw, List.mem_filter]
        exact ⟨kwGet_mem hg, by simpa using hnn⟩
      | none =>
        simp only
        intro hm
        obtain ⟨ka, hka, hkeq⟩ := List.mem_map.1 hm
        have hka' : (p.name, ka.2) ∈ (forwardCall b c).kw := by rw [← hkeq]; exact hka
        rcases forward_kw_mem_cases c hka' with ⟨q, hq, hqk, hqn, _⟩ | ⟨v, hv, _, _⟩
        · apply hnn
          exact mem_namedNames.2 ⟨q, hq, by rcases hqk with h | h <;> simp [h, Kind.isNamed], hqn⟩
        · simp only [extraKw, List.mem_filter] at hv
          exact kwGet_none hg (List.mem_map.2 ⟨(p.name, v), hv.1, rfl⟩)
  · -- keywords absorbed by the advertised `**`
    intro k v hkv
    simp only [extraKw, List.mem_filter] at hkv
    obtain ⟨hmem, hnot⟩ := hkv
    have hnot' : k ∉ namedNames (advertised b) := by simpa using hnot
    have hkn : k ∈ c.kwNames := List.mem_map.2 ⟨(k, v), hmem, rfl⟩
    have hvkadv := (hacc.kwOk k hkn).2 hnot'
    have hargs : k ∉ namedNames b.args ∧ hasVarKw b.args = true := by
      rcases shape with ⟨_, ha⟩ | ⟨_, r0, hr0, ha, _⟩
      · rw [ha] at hnot' hvkadv; exact ⟨hnot', hvkadv⟩
      · constructor
        · rw [hr0, namedNames_append, namedNames_kwargs, List.append_nil]
          intro h0; apply hnot'; rw [ha, namedNames_append]
          exact List.mem_append.2 (Or.inl h0)
        · rw [hr0]; simp [hasVarKw, kwargsParam]
    apply mem_forward_kw_extra c hargs.2
    rw [hcomp]
    simp only [extraKw, List.mem_filter]
    exact ⟨hmem, by simpa using hargs.1⟩
  · -- nothing unadvertised arrives
    intro k a hka
    rcases forward_kw_mem_cases c hka with ⟨q, hq, hqk, hqn, _⟩ | ⟨v, hv, _, _⟩
    · left
      have hqadv : q ∈ advertised b := by
        rcases shape with ⟨_, ha⟩ | ⟨_, r0, hr0, ha, _⟩
        · rw [ha]; exact hq
        · rw [ha]; rw [hr0] at hq
          rcases List.mem_append.1 hq with h0 | hK
          · exact List.mem_append.2 (Or.inl h0)
          · simp at hK; subst hK; rcases hqk with hk | hk <;> cases hk
      exact mem_namedNames.2 ⟨q, hqadv, by rcases hqk with h | h <;> simp [h, Kind.isNamed], hqn⟩
    · simp only [extraKw, List.mem_filter] at hv
      have hkn : k ∈ c.kwNames := List.mem_map.2 ⟨(k, v), hv.1, rfl⟩
      by_cases hin : k ∈ namedNames (advertised b)
      · exact Or.inl hin
      · exact Or.inr ((hacc.kwOk k hkn).2 hin)

/-- the keywords that reach the implementation are pairwise distinct (so "the
value arriving for `k`" in `forwards_bound` is unambiguous) -/
theorem forwarded_keys_nodup {b : Builder} (hb : Good b) (c : Call α) (f : FCall α)
    (h : wrapper b c = .ok f) : (f.kw.map (·.1)).Nodup := by
  have inv := inv_of_reachable hb.reach
  have hcomp := compiled_eq_args inv
  have hf := wrapper_ok_eq h
  subst hf
  have hacc : Accepts b.args c := by
    have := (wrapper_ok_iff hb.noCapture c).1 ⟨_, h⟩
    rw [hcomp] at this
    exact (acceptsB_iff _ _).1 this.1
  rw [forwardCall_kw, hcomp]
  apply fwdKw_names_nodup b.args c b.args hb.argsNodup hb.oneVarKw
  · have : (extraKw b.args c).map (·.1) = c.kwNames.filter (fun k => !(namedNames b.args).contains k) := by
      simp [extraKw, Call.kwNames, List.filter_map, Function.comp_def]
    rw [this]
    exact hacc.kwNodup.sublist List.filter_sublist
  · intro k hk
    simp only [extraKw, List.mem_map, List.mem_filter] at hk
    obtain ⟨kv, ⟨_, hn⟩, rfl⟩ := hk
    simpa using hn

/-! ## compatibility with the implementation -/

/-- **compatible_with_impl.** When `.build()`'s compatibility check passed
(`checkCompatible`), every call the generated method forwards binds to the
implementation's own parameters: entering the implementation never fails with a
binding `TypeError`. Side conditions (all true of every implementation in
`spec_classes/methods`, and re-checked on every run from
`inspect.signature(implementation)`): the method has no `*args` parameter
(`varpos_forward_witness` shows the check is not enough otherwise); the
implementation has no positional-only parameter; its `*`/`**` parameter names
are not method parameter names and the method's `**` name is not one of its
parameters; its keyword-only parameters have defaults or are forwarded
(`checkCompatible` only looks at positional ones: `kwonly_required_witness`). -/
theorem compatible_with_impl {b : Builder} (hb : Good b) (impl : Sig)
    (hcompat : checkCompatible b.args impl = true)
    (hnovp : hasVarPos b.args = false)
    (hnoPO : ∀ q ∈ impl, q.kind ≠ .posOnly)
    (hvarFresh : ∀ q ∈ impl, q.kind.isVar = true → q.name ∉ names b.args)
    (hmVar : ∀ p ∈ b.args, p.kind = .varKw → p.name ∉ names impl)
    (hkwOnly : ∀ q ∈ impl, q.kind = .kwOnly → q.hasDefault = true ∨ q.name ∈ namedNames b.args)
    (c : Call α) (f : FCall α) (h : wrapper b c = .ok f) :
    ∃ bd, pyBind impl f.toCall = .ok bd := by
  have inv := inv_of_reachable hb.reach
  have hcomp := compiled_eq_args inv
  have hnd := forwarded_keys_nodup hb c f h
  have hf := wrapper_ok_eq h
  subst hf
  have hposnil : (forwardCall b c).pos = [] := by
    simp only [forwardCall]
    rw [List.flatMap_eq_nil_iff]
    intro p hp
    have h1 := inv.noPosOnly p hp
    have h2 : p.kind ≠ .varPos := by
      intro hk
      have : hasVarPos b.args = true := by
        simp only [hasVarPos, List.any_eq_true]; exact ⟨p, hp, by simp [hk]⟩
      rw [hnovp] at this; cases this
    cases hk : p.kind <;> simp_all
  simp only [checkCompatible, Bool.and_eq_true, List.all_eq_true] at hcompat
  obtain ⟨hc1, hc2⟩ := hcompat
  -- named method parameters are forwarded by keyword
  have hfwd : ∀ n, n ∈ namedNames b.args → n ∈ (forwardCall b c).toCall.kwNames := by
    intro n hn
    obtain ⟨p, hp, hpn, rfl⟩ := mem_namedNames.1 hn
    have hk : p.kind = .posOrKw ∨ p.kind = .kwOnly := by
      cases hk : p.kind <;> simp [hk, Kind.isNamed] at hpn <;> simp
    exact List.mem_map.2 ⟨_, mem_forward_kw_named c hp hk, rfl⟩
  have hacc : Accepts impl (forwardCall b c).toCall := by
    refine ⟨?_, ?_, ?_, ?_⟩
    · left; simp [FCall.toCall, hposnil]
    · exact hnd
    · intro k hk
      refine ⟨?_, ?_⟩
      · intro _; simp [takenPos, FCall.toCall, hposnil]
      · intro hnot
        have hk' : k ∈ (fwdKw (compiled b) c b.args).map (·.1) := hk
        rcases mem_fwdKw_names hk' with hn | ⟨hvk, _⟩
        · obtain ⟨p, hp, hpn, rfl⟩ := mem_namedNames.1 hn
          have := hc2 p hp
          have hpk : p.kind = .posOrKw ∨ p.kind = .kwOnly := by
            cases hk2 : p.kind <;> simp [hk2, Kind.isNamed] at hpn <;> simp
          have hdisj : (names impl).contains p.name = true ∨ hasVarKw impl = true := by
            rcases hpk with hk2 | hk2 <;> simp only [hk2, Bool.or_eq_true, Bool.and_eq_true] at this
            · rcases this with h | h
              · exact Or.inl h
              · exact Or.inr h.2
            · rcases this with h | h
              · exact Or.inl h
              · exact Or.inr h.2
          rcases hdisj with hin | hvk
          · exfalso
            obtain ⟨q, hq, hqn⟩ := mem_names.1 (by simpa using hin)
            apply hnot
            refine mem_namedNames.2 ⟨q, hq, ?_, hqn⟩
            have h1 := hnoPO q hq
            have h2 : q.kind.isVar = false := by
              cases hv : q.kind.isVar with
              | false => rfl
              | true =>
                exfalso
                exact hvarFresh q hq hv (by rw [hqn]; exact mem_names.2 ⟨p, hp, rfl⟩)
            cases hqk : q.kind <;> simp_all [Kind.isNamed, Kind.isVar]
          · exact hvk
        · obtain ⟨p, hp, hpk⟩ := hasVarKw_iff.1 hvk
          have := hc2 p hp
          simpa [hpk] using this
    · intro q hq
      by_cases hv : q.kind.isVar = true
      · exact Or.inl hv
      by_cases hd : q.hasDefault = true
      · exact Or.inr (Or.inl hd)
      refine Or.inr (Or.inr ?_)
      have hnamed : q.kind.isNamed = true ∧ q.name ∈ namedNames b.args := by
        have h1 := hnoPO q hq
        cases hqk : q.kind with
        | posOnly => exact absurd hqk h1
        | varPos => simp [hqk, Kind.isVar] at hv
        | varKw => simp [hqk, Kind.isVar] at hv
        | kwOnly =>
          refine ⟨rfl, ?_⟩
          rcases hkwOnly q hq hqk with h | h
          · exact absurd h hd
          · exact h
        | posOrKw =>
          refine ⟨rfl, ?_⟩
          have := hc1 q hq
          simp only [hqk, Kind.isPositional, Bool.true_and, Bool.not_eq_true', Bool.and_eq_false_iff,
            Bool.not_eq_false'] at this
          have hd' : q.hasDefault = false := by simpa using hd
          have hin : q.name ∈ names b.args := by
            rcases this with h | h
            · rw [hd'] at h; simp at h
            · simpa using h
          obtain ⟨p, hp, hpn⟩ := mem_names.1 hin
          refine mem_namedNames.2 ⟨p, hp, ?_, hpn⟩
          have h1 := inv.noPosOnly p hp
          have h2 : p.kind ≠ .varPos := by
            intro hk
            have : hasVarPos b.args = true := by
              simp only [hasVarPos, List.any_eq_true]; exact ⟨p, hp, by simp [hk]⟩
            rw [hnovp] at this; cases this
          have h3 : p.kind ≠ .varKw := by
            intro hk
            exact hmVar p hp hk (by rw [hpn]; exact mem_names.2 ⟨q, hq, rfl⟩)
          cases hpk : p.kind <;> simp_all [Kind.isNamed]
      simp only [filled, Bool.or_eq_true, Bool.and_eq_true]
      right
      exact ⟨hnamed.1, by simpa using hfwd _ hnamed.2⟩
  exact ⟨_, by unfold pyBind; rw [(acceptsB_iff _ _).2 hacc]; rfl⟩

/-! ## nested-attribute keywords -/

/-- **nested_kw_bijection.** `with_spec_attrs_for(T)` on a builder without
virtual arguments never fails, and the keyword-only virtual arguments it adds
are — in order, without repetition — the init-enabled attributes of `T` that
are not already parameters and are not the overflow attribute; the overflow
attribute becomes the single virtual `**` parameter; every added keyword has a
(documentary) default. -/
theorem nested_kw_bijection (b : Builder) (t : Nested) (hv : b.virt = []) :
    ∃ b', withSpecAttrsFor b t = .ok b' ∧
      (b'.virt.filter (·.kind == .kwOnly)).map (·.name) = nestedKw b t ∧
      (∀ n, n ∈ nestedKw b t ↔
        (∃ a ∈ t.attrs, a.name = n ∧ a.init = true) ∧ n ∉ names b.args ∧ t.overflow ≠ some n) ∧
      ((t.attrs.map (·.name)).Nodup → (nestedKw b t).Nodup) ∧
      (b'.virt.filter (·.kind == .varKw)).map (·.name) = t.overflow.toList ∧
      (∀ p ∈ b'.virt, p.kind = .kwOnly → p.hasDefault = true) := by
  refine ⟨_, withSpecAttrsFor_eq b t hv, ?_, ?_, ?_, ?_, ?_⟩ <;> (try rw [nestedResult_virt])
  · simp only [List.filter_append, List.map_append]
    have h1 : ((nestedKw b t).map kwParam).filter (·.kind == .kwOnly) = (nestedKw b t).map kwParam := by
      rw [List.filter_eq_self]; intro p hp
      obtain ⟨k, _, rfl⟩ := List.mem_map.1 hp; rfl
    rw [h1]
    cases t.overflow <;> simp [kwParam, overflowParam, Function.comp_def]
  · intro n
    simp only [nestedKw, List.mem_map, List.mem_filter, Bool.and_eq_true, Bool.not_eq_true',
      List.contains_eq_mem, decide_eq_false_iff_not, currentNames, hv, names, List.map_nil,
      List.append_nil, beq_eq_false_iff_ne, ne_eq]
    constructor
    · rintro ⟨a, ⟨ha, ⟨hi, hn⟩, ho⟩, rfl⟩
      refine ⟨⟨a, ha, rfl, hi⟩, hn, ?_⟩
      exact fun h => ho h
    · rintro ⟨⟨a, ha, rfl, hi⟩, hn, ho⟩
      exact ⟨a, ⟨ha, ⟨hi, hn⟩, fun h => ho h⟩, rfl⟩
  · intro hnd
    unfold nestedKw
    exact hnd.sublist ((List.filter_sublist).map _)
  · simp only [List.filter_append, List.map_append]
    have h1 : ((nestedKw b t).map kwParam).filter (·.kind == .varKw) = [] := by
      rw [List.filter_eq_nil_iff]; intro p hp
      obtain ⟨k, _, rfl⟩ := List.mem_map.1 hp; simp [kwParam]
    rw [h1]
    cases t.overflow <;> simp [overflowParam]
  · intro p hp _
    simp only [List.mem_append, List.mem_map] at hp
    rcases hp with ⟨k, _, rfl⟩ | hp
    · rfl
    · cases ho : t.overflow with
      | none => rw [ho] at hp; cases hp
      | some o =>
        rw [ho] at hp; simp at hp; subst hp
        rename_i hk; simp [overflowParam] at hk

/-! ## the generated methods are instances -/

/-- **generated_methods_satisfy_hypotheses.** For each of the 20 generated
method kinds, any key attribute, any nested class (any number of attributes,
any init flags, with or without overflow attribute): the `with_arg` sequence of
its `build_method` followed by `with_spec_attrs_for` succeeds, and the resulting
builder satisfies every hypothesis of the theorems above — so
`accepts_iff_advertised`, `forwards_bound`, `unknown_kw_before_effects` apply to
every generated method of every class (under `cfgOK`: distinct parameter names,
none of them a global of the generated text). -/
theorem generated_methods_satisfy_hypotheses (m : MethodCfg) (hm : cfgOK m = true) :
    ∃ b, builderFor m = .ok b ∧ Good b := by
  have hb0 : builderFor m = (match m.nested with
      | some t => if m.kind.takesNested then withSpecAttrsFor (base m) t else .ok (base m)
      | none => .ok (base m)) := by
    unfold builderFor
    rw [withArgs_recipe]
    rfl
  cases hn : m.nested with
  | none =>
    refine ⟨base m, ?_, good_base m hm⟩
    rw [hb0, hn]
  | some t =>
    by_cases htn : m.kind.takesNested = true
    · obtain ⟨hnd, hres, hkwargs, hnest⟩ := cfgOK_parts hm
      obtain ⟨hattrs, hover⟩ := hnest t hn
      have hv : (base m).virt = [] := rfl
      have heq := withSpecAttrsFor_eq (base m) t hv
      obtain ⟨b', hb', _, hmem, hksnd, _, hdef⟩ := nested_kw_bijection (base m) t hv
      have hbb : b' = nestedResult (base m) t := by
        rw [heq] at hb'; injection hb' with hb'; exact hb'.symm
      refine ⟨b', by rw [hb0, hn]; simp only [htn, if_true]; rw [heq, hbb], ?_⟩
      have gb := good_base m hm
      have hreach : Reachable b' :=
        reachable_withSpecAttrsFor gb.reach (by rw [heq, hbb])
      have hk := base_kinds m
      have hks_fresh : ∀ k ∈ nestedKw (base m) t, k ∉ own m := by
        intro k hk'
        have := ((hmem k).1 hk').2.1
        rwa [names_base] at this
      have hks_ovf : ∀ k ∈ nestedKw (base m) t, t.overflow ≠ some k := fun k hk' => ((hmem k).1 hk').2.2
      subst hbb
      have h0kw : countKind (base m).args .varKw = 0 :=
        countKind_zero (by intro p hp; rcases hk p hp with h | h <;> simp [h])
      have h0vp : countKind (base m).args .varPos = 0 :=
        countKind_zero (by intro p hp; rcases hk p hp with h | h <;> simp [h])
      refine ⟨hreach, ?_, ?_, ?_, ?_, hdef, ?_⟩
      rotate_left
      · -- compiled names are distinct
        rcases nestedResult_args_cases (base m) t with ⟨_, ha⟩ | ⟨_, ha⟩
        · rw [ha, names_base]; exact hnd
        · rw [ha, names_append, names_base, List.nodup_append]
          refine ⟨hnd, by simp [names], ?_⟩
          intro a ha' b hb
          simp [names, kwargsParam] at hb; subst hb
          intro h; exact hkwargs (by rw [← h]; exact ha')
      rotate_right
      · -- advertised names are distinct
        rw [advertised_nestedResult, names_append, names_base, nestedResult_virt, List.nodup_append]
        refine ⟨hnd, ?_, ?_⟩
        · -- the virtual names
          simp only [names, List.map_append, List.map_map]
          rw [List.nodup_append]
          refine ⟨?_, ?_, ?_⟩
          · have : (List.map ((fun x => x.name) ∘ kwParam) (nestedKw (base m) t)) = nestedKw (base m) t := by
              simp [Function.comp_def, kwParam]
            rw [this]; exact hksnd hattrs
          · cases t.overflow <;> simp
          · intro a ha b hb
            simp only [List.mem_map, Function.comp] at ha
            obtain ⟨k, hk', rfl⟩ := ha
            cases ho : t.overflow with
            | none => rw [ho] at hb; simp at hb
            | some o =>
              rw [ho] at hb; simp [overflowParam] at hb; subst hb
              simp only [kwParam]
              intro h; exact hks_ovf k hk' (by rw [ho, h])
        · intro a ha b hb
          simp only [names, List.map_append, List.mem_append, List.mem_map] at hb
          rcases hb with ⟨p, hp, rfl⟩ | ⟨p, hp, rfl⟩
          · obtain ⟨k, hk', rfl⟩ := hp
            intro h; exact hks_fresh k hk' (by have : a = k := h; rw [← this]; exact ha)
          · cases ho : t.overflow with
            | none => rw [ho] at hp; cases hp
            | some o =>
              rw [ho] at hp; simp at hp; subst hp
              intro h; exact hover o ho (by have : a = o := h; rw [← this]; exact ha)
      · -- at most one `**`
        rcases nestedResult_args_cases (base m) t with ⟨_, ha⟩ | ⟨_, ha⟩
        · rw [ha]; omega
        · rw [ha, countKind_append]
          have : countKind [kwargsParam] .varKw = 1 := by simp [countKind, kwargsParam]
          omega
      · rcases nestedResult_args_cases (base m) t with ⟨_, ha⟩ | ⟨_, ha⟩
        · rw [ha]; omega
        · rw [ha, countKind_append]
          have : countKind [kwargsParam] .varPos = 0 := by simp [countKind, kwargsParam]
          omega
      · apply noCapture_of_names
        intro n hn'
        rcases nestedResult_args_cases (base m) t with ⟨_, ha⟩ | ⟨_, ha⟩
        · rw [ha, names_base] at hn'; exact hres n hn'
        · rw [ha, names_append, names_base, List.mem_append] at hn'
          rcases hn' with h | h
          · exact hres n h
          · simp [names, kwargsParam] at h; subst h; decide
    · refine ⟨base m, ?_, good_base m hm⟩
      rw [hb0, hn]; simp [htn]

/-! ## non-vacuity, and why each hypothesis is there -/

/-- `with_ns_item`-like method of a `List[N]` attribute, `N` with key `k`, `a`, an init=False `hidden`, -/
def exCfg : MethodCfg :=
  ⟨.withSeq, none, some ⟨[⟨"k", true⟩, ⟨"a", true⟩, ⟨"hidden", false⟩], none⟩⟩

/-- the constructor of a class with key `name` and overflow attribute `rest` -/
def exInit : MethodCfg :=
  ⟨.init, some ("name", false), some ⟨[⟨"name", true⟩, ⟨"x", true⟩, ⟨"rest", true⟩], some "rest"⟩⟩

example : cfgOK exCfg = true := by decide
example : cfgOK exInit = true := by decide
example : ∃ b, builderFor exCfg = .ok b ∧ Good b := generated_methods_satisfy_hypotheses exCfg (by decide)

/-- an accepted call (`obj.with_n_item(item, a=…)`) and a rejected one (`hidden=…`) exist -/
example : ∃ b, builderFor exCfg = .ok b ∧
    (∃ f, wrapper b (⟨["self", "item"], [("a", "1")]⟩ : Call String) = .ok f) ∧
    wrapper b (⟨["self"], [("hidden", "1")]⟩ : Call String) = .error .typeError := by
  refine ⟨_, rfl, ⟨_, rfl⟩, rfl⟩

/-! ### the key attribute called `implementation` (repaired in /repo 0ac9e19) -/

def captureCfg : MethodCfg :=
  ⟨.init, some ("implementation", false), some ⟨[⟨"implementation", true⟩, ⟨"x", true⟩], none⟩⟩

def captureBuilder : Builder :=
  ⟨[⟨"self", .posOrKw, false⟩, ⟨"implementation", .posOrKw, false⟩, kwargsParam],
   [⟨"x", .kwOnly, true⟩], true⟩

/-- at HEAD this configuration is an ordinary instance of the theorems … -/
example : cfgOK captureCfg = true := by decide
example : builderFor captureCfg = .ok captureBuilder := rfl
/-- … and `C(implementation="v")` reaches the implementation with the value given -/
example : wrapper captureBuilder (⟨["self"], [("implementation", "v")]⟩ : Call String) =
    .ok ⟨[], [("self", .val "self"), ("implementation", .val "v")]⟩ := rfl

namespace Legacy
/-- The text generated BEFORE 0ac9e19 looked the implementation up under the
plain names `implementation` / `validate_attrs`: the key parameter shadowed it —
the advertised signature accepted `C(implementation="v")`, the constructor raised
`TypeError` (former finding KF-C17-key-name-capture; the failing input is now a
corpus case of the correspondence run). -/
theorem key_capture_witness :
    (∃ bd, pyBind (advertised captureBuilder) (⟨["self"], [("implementation", "v")]⟩ : Call String) = .ok bd) ∧
    wrapperWith "implementation" "validate_attrs" captureBuilder
      (⟨["self"], [("implementation", "v")]⟩ : Call String) = .error .typeError :=
  ⟨⟨_, rfl⟩, rfl⟩
end Legacy

/-- a virtual keyword-only argument WITHOUT default (possible through `with_arg`
directly, never through `with_spec_attrs_for`) is advertised as required but not
enforced: `virtDefaults` is needed. -/
theorem virtual_without_default_witness :
    ∃ (b : Builder) (c : Call String), Reachable b ∧
      (∃ f, wrapper b c = .ok f) ∧ pyBind (advertised b) c = .error .typeError := by
  refine ⟨⟨[⟨"self", .posOrKw, false⟩, kwargsParam], [⟨"v", .kwOnly, false⟩], true⟩, ⟨["self"], []⟩,
    Reachable.step ⟨"v", .kwOnly, false, true⟩ Reachable.init rfl, ⟨_, rfl⟩, rfl⟩

/-- with a `*args` parameter the compatibility check passes but forwarding
(`implementation(self=self, *args)`) collides with the implementation's `self` -/
theorem varpos_forward_witness :
    ∃ (b : Builder) (impl : Sig) (c : Call String) (f : FCall String), Reachable b ∧
      buildResult b impl = "ok" ∧ wrapper b c = .ok f ∧ pyBind impl f.toCall = .error .typeError := by
  refine ⟨⟨[⟨"self", .posOrKw, false⟩, ⟨"args", .varPos, false⟩], [], true⟩,
    [⟨"self", .posOrKw, false⟩, ⟨"args", .varPos, false⟩], ⟨["self", "extra"], []⟩, _,
    Reachable.step ⟨"args", .varPos, false, false⟩ Reachable.init rfl, by decide, rfl, rfl⟩

/-- a required keyword-only parameter of the implementation is not seen by the compatibility check -/
theorem kwonly_required_witness :
    ∃ (impl : Sig) (c : Call String) (f : FCall String),
      buildResult Builder.init impl = "ok" ∧ wrapper Builder.init c = .ok f ∧
      pyBind impl f.toCall = .error .typeError := by
  refine ⟨[⟨"self", .posOrKw, false⟩, ⟨"z", .kwOnly, false⟩], ⟨["self"], []⟩, _, by decide, rfl, rfl⟩

/-! # Inside the implementation: the keywords reach the behaviour

`Model/C17Impl.lean` continues where the wrapper stops: `updateImpl` (`UpdateMethod.update` +
the `mutate_value` fragment it uses) and `initImpl` (`InitMethod.init` with the delegation to the
constructors of ALL spec-class ancestors, at any depth, with plain classes in between). The
theorems below are first stated on the implementation alone (for every forwarded call / every
`kwargs`), then composed with `forwards_bound` into statements about the caller's call. -/

/-- **update: a keyword reaches the result, whatever is passed alongside.** For every forwarded
call with distinct keywords: when `_if` is on and `_new_value` is not `UNCHANGED`, every attribute
keyword carrying a plain value is what the result holds — with or without a replacement
`_new_value`, in place or not, and whatever the other keywords are. -/
theorem update_keyword_reaches_impl (E : Env α) (selfFields : Fields α) (f : FCall α)
    (hn : (f.kw.map (·.1)).Nodup) (k : Name) (v : α)
    (hm : (k, Arg.val v) ∈ f.kw) (hk : k ∉ updateParams) (hp : E.sent v = .plain)
    (hif : argTruthy E true (kwGet f.kw "_if") = true)
    (hnu : ∀ w, kwGet f.kw "_new_value" = some (.val w) → E.sent w ≠ .unchanged) :
    getField (updateImpl E selfFields f).fields k = some v := by
  have hattrs : (k, Arg.val v) ∈ f.kw.filter (fun kv => !updateParams.contains kv.1) := by
    rw [List.mem_filter]; exact ⟨hm, by simpa using hk⟩
  have hnd := filter_keys_nodup (fun kv : Name × Arg α => !updateParams.contains kv.1) hn
  have key : ∀ inplace src base, getField (finishUpd E
      (f.kw.filter (fun kv => !updateParams.contains kv.1)) inplace src base).fields k = some v := by
    intro inplace src base
    unfold finishUpd
    split
    · rename_i he
      cases hl : f.kw.filter (fun kv => !updateParams.contains kv.1) with
      | nil => rw [hl] at hattrs; cases hattrs
      | cons _ _ => rw [hl] at he; cases he
    · exact applyAttrs_reaches E _ base k v hnd hattrs hp
  unfold updateImpl
  simp only [hif, Bool.not_true, Bool.false_eq_true, if_false]
  unfold mutateValue
  cases hnv : kwGet f.kw "_new_value" with
  | none => exact key _ _ _
  | some a =>
    cases a with
    | dflt m => exact key _ _ _
    | val w =>
      have := hnu w hnv
      simp only []
      cases hs : E.sent w with
      | unchanged => exact absurd hs this
      | plain => exact key _ _ _
      | missing => exact key _ _ _
      | empty => exact key _ _ _

/-- **update: the rest of the result is the replacement (when one is given), else the receiver.**
An attribute no keyword names keeps the value it has on the base object. -/
theorem update_base_impl (E : Env α) (selfFields : Fields α) (f : FCall α) (n : Name)
    (hn : n ∉ (f.kw.filter (fun kv => !updateParams.contains kv.1)).map (·.1))
    (hif : argTruthy E true (kwGet f.kw "_if") = true) :
    getField (updateImpl E selfFields f).fields n =
      match kwGet f.kw "_new_value" with
      | some (.val w) => if E.sent w = .plain then getField (E.fieldsOf w) n else getField selfFields n
      | _ => getField selfFields n := by
  have key : ∀ inplace src base, getField (finishUpd E
      (f.kw.filter (fun kv => !updateParams.contains kv.1)) inplace src base).fields n = getField base n := by
    intro inplace src base
    unfold finishUpd
    split
    · rfl
    · exact applyAttrs_preserve E _ base n hn
  unfold updateImpl
  simp only [hif, Bool.not_true, Bool.false_eq_true, if_false]
  unfold mutateValue
  cases hnv : kwGet f.kw "_new_value" with
  | none => exact key _ _ _
  | some a =>
    cases a with
    | dflt m => exact key _ _ _
    | val w =>
      simp only []
      cases hs : E.sent w with
      | unchanged => simp
      | plain => simpa using key _ _ _
      | missing => simpa using key _ _ _
      | empty => simpa using key _ _ _

/-- `_if=False`: the receiver itself, untouched, whatever else is passed. -/
theorem update_if_false_is_noop (E : Env α) (selfFields : Fields α) (f : FCall α)
    (hif : argTruthy E true (kwGet f.kw "_if") = false) :
    updateImpl E selfFields f = ⟨.self, selfFields⟩ := by
  unfold updateImpl
  simp [hif]

/-- Not in place and at least one attribute keyword: the edits go to a COPY (of the replacement or
of the receiver); neither the receiver nor the replacement object is what comes back. -/
theorem update_copies_unless_inplace (E : Env α) (selfFields : Fields α) (f : FCall α)
    (hne : (f.kw.filter (fun kv => !updateParams.contains kv.1)) ≠ [])
    (hif : argTruthy E true (kwGet f.kw "_if") = true)
    (hin : argTruthy E false (kwGet f.kw "_inplace") = false)
    (hnu : ∀ w, kwGet f.kw "_new_value" = some (.val w) → E.sent w ≠ .unchanged) :
    (updateImpl E selfFields f).src = .copyOfSelf ∨ (updateImpl E selfFields f).src = .copyOfNew := by
  have key : ∀ src base, (finishUpd E (f.kw.filter (fun kv => !updateParams.contains kv.1))
      false src base).src = src.copy := by
    intro src base
    unfold finishUpd
    split
    · rename_i he
      cases hl : f.kw.filter (fun kv => !updateParams.contains kv.1) with
      | nil => exact absurd hl hne
      | cons _ _ => rw [hl] at he; cases he
    · rfl
  unfold updateImpl
  simp only [hif, Bool.not_true, Bool.false_eq_true, if_false]
  unfold mutateValue
  rw [hin]
  cases hnv : kwGet f.kw "_new_value" with
  | none => exact Or.inl (key _ _)
  | some a =>
    cases a with
    | dflt m => exact Or.inl (key _ _)
    | val w =>
      have := hnu w hnv
      simp only []
      cases hs : E.sent w with
      | unchanged => exact absurd hs this
      | plain => exact Or.inr (key _ _)
      | missing => exact Or.inl (key _ _)
      | empty => exact Or.inl (key _ _)

/-- **update_keywords_reach (caller's side).** For every buildable builder and every call the
generated `update` accepts: each nested-attribute keyword the caller passed with a plain value is
what the result holds — also when a replacement `_new_value` (by position or by keyword) and/or
`_inplace` are passed in the same call. -/
theorem update_keywords_reach {b : Builder} (hb : Good b) (E : Env α) (selfFields : Fields α)
    (c : Call α) (f : FCall α) (h : wrapper b c = .ok f)
    (hif : argTruthy E true (kwGet f.kw "_if") = true)
    (hnu : ∀ w, kwGet f.kw "_new_value" = some (.val w) → E.sent w ≠ .unchanged) :
    runUpdate E b selfFields c = .ok (updateImpl E selfFields f) ∧
    ∀ p ∈ b.virt, p.kind = .kwOnly → p.name ∉ updateParams →
      ∀ v, kwGet c.kw p.name = some v → E.sent v = .plain →
        getField (updateImpl E selfFields f).fields p.name = some v := by
  refine ⟨by simp [runUpdate, h], ?_⟩
  intro p hp hk hnp v hv hpl
  have hfw := (forwards_bound hb c f h).2.2.1 p hp hk
  rw [hv] at hfw
  exact update_keyword_reaches_impl E selfFields f (forwarded_keys_nodup hb c f h) p.name v hfw hnp hpl
    hif hnu

/-! ## the constructor -/

/-- **init_accepts.** On a well-formed hierarchy (`hierOKB`, evaluated by the driver on every
described hierarchy and compared with the real classes) the constructor never fails: the constructor
of every spec-class ancestor accepts what it is handed. -/
theorem init_accepts (cfg : InitCfg) (hok : hierOKB cfg = true) (kwargs : Fields (IVal α)) :
    ∃ r, initImpl cfg kwargs = .ok r := by
  have H := hierOK_of_B hok
  have hps : ∀ p ∈ cfg.ancestors.reverse, p.attrs.Nodup ∧ (p.isSpec = true → ctorOKB cfg p = true) :=
    fun p hp => ⟨H.pattrsNodup p (List.mem_reverse.1 hp), H.ctorOK p (List.mem_reverse.1 hp)⟩
  obtain ⟨⟨fs, kw⟩, hr⟩ := parentsLoop_ok cfg cfg.ancestors.reverse hps ([] : Fields (IVal α)) kwargs
  exact ⟨⟨ownLoop cfg 0 kw fs, cfg.overflow.map (fun _ => kw.filter (fun kv => overflows cfg kv.1))⟩,
    by unfold initImpl; rw [hr]⟩

/-- **init: a keyword reaches the instance, whoever owns the attribute.** For every well-formed
hierarchy — any number of spec-class ancestors, plain classes in between, several bases — and every
`kwargs` with distinct keys: a keyword naming an init-enabled attribute (not the overflow attribute)
and carrying a value is what the instance holds for that attribute, whether the attribute is owned
by the class itself or by an ancestor at ANY distance. -/
theorem init_keyword_reaches_impl (cfg : InitCfg) (hok : hierOKB cfg = true) (kwargs : Fields (IVal α))
    (hkn : (kwargs.map (·.1)).Nodup) (r : InitRes α) (h : initImpl cfg kwargs = .ok r)
    (n : Name) (a : CAttr) (v : α) (ha : findAttr cfg n = some a) (hi : initable cfg a = true)
    (hm : (n, IVal.given v) ∈ kwargs) :
    getField r.fields n = some (.given v) := by
  have H := hierOK_of_B hok
  have hk : kwGet kwargs n = some (.given v) := kwGet_of_mem_nodup hkn hm
  unfold initImpl at h
  cases hpl : parentsLoop cfg cfg.ancestors.reverse ([] : Fields (IVal α)) kwargs with
  | error e => rw [hpl] at h; cases h
  | ok res =>
    obtain ⟨fs, kw⟩ := res
    rw [hpl] at h
    cases h
    simp only []
    by_cases ho : a.owner = 0
    · -- owned by the class itself: no ancestor is handed it, the own loop stores it
      have hkeep := (parentsLoop_kw_keep cfg _ _ _ _ _ hpl n (by
        intro p hp _
        rw [handed_owner ha]
        have : (a.owner == p.id) = false := by
          simpa [ho] using (fun he : 0 = p.id => H.idPos p (List.mem_reverse.1 hp) he.symm)
        simp [this])).1
      exact ownLoop_given cfg H.attrsNodup 0 kw fs ha hi ho (by rw [hkeep]; exact hk)
    · -- owned by an ancestor: its constructor stores it, nobody touches it afterwards
      obtain ⟨p, hp, hpid, hsp, hmem⟩ := H.owned a (findAttr_mem ha).1 ho hi
      have hids : ((cfg.ancestors.reverse).map (·.id)).Nodup := by
        rw [List.map_reverse]; exact (List.reverse_perm _).nodup_iff.2 H.idsNodup
      have hst := (parentsLoop_stores cfg H.attrsNodup _ hids
        (fun q hq => H.pattrsNodup q (List.mem_reverse.1 hq)) _ _ _ _ hpl ha hi
        (List.mem_reverse.2 hp) hpid hsp (by rw [← (findAttr_mem ha).2]; exact hmem)).1 v hk
      rw [ownLoop_other cfg H.attrsNodup 0 kw fs ha ho]
      exact hst

/-- **init: "defaults are as shown".** An init-enabled attribute with a default whose keyword is not
passed (or is `MISSING`) holds its default — again at any inheritance distance. -/
theorem init_default_when_unpassed (cfg : InitCfg) (hok : hierOKB cfg = true) (kwargs : Fields (IVal α))
    (r : InitRes α) (h : initImpl cfg kwargs = .ok r)
    (n : Name) (a : CAttr) (ha : findAttr cfg n = some a) (hi : initable cfg a = true)
    (hd : a.hasDefault = true) (hk : kwGet kwargs n = none ∨ kwGet kwargs n = some .missing) :
    getField r.fields n = some (.dflt n) := by
  have H := hierOK_of_B hok
  unfold initImpl at h
  cases hpl : parentsLoop cfg cfg.ancestors.reverse ([] : Fields (IVal α)) kwargs with
  | error e => rw [hpl] at h; cases h
  | ok res =>
    obtain ⟨fs, kw⟩ := res
    rw [hpl] at h
    cases h
    simp only []
    by_cases ho : a.owner = 0
    · have hkeep := (parentsLoop_kw_keep cfg _ _ _ _ _ hpl n (by
        intro p hp _
        rw [handed_owner ha]
        have : (a.owner == p.id) = false := by
          simpa [ho] using (fun he : 0 = p.id => H.idPos p (List.mem_reverse.1 hp) he.symm)
        simp [this])).1
      exact ownLoop_default cfg H.attrsNodup 0 kw fs ha hi ho hd (by rw [hkeep]; exact hk)
    · obtain ⟨p, hp, hpid, hsp, hmem⟩ := H.owned a (findAttr_mem ha).1 ho hi
      have hids : ((cfg.ancestors.reverse).map (·.id)).Nodup := by
        rw [List.map_reverse]; exact (List.reverse_perm _).nodup_iff.2 H.idsNodup
      have hst := (parentsLoop_stores cfg H.attrsNodup _ hids
        (fun q hq => H.pattrsNodup q (List.mem_reverse.1 hq)) _ _ _ _ hpl ha hi
        (List.mem_reverse.2 hp) hpid hsp (by rw [← (findAttr_mem ha).2]; exact hmem)).2 hd hk
      rw [ownLoop_other cfg H.attrsNodup 0 kw fs ha ho]
      exact hst

/-- **init: the overflow attribute collects exactly the other keywords.** With an overflow
attribute, a keyword that names no init-enabled attribute ends up in it with the value given, and
nothing else does. -/
theorem init_overflow_collects (cfg : InitCfg) (kwargs : Fields (IVal α))
    (r : InitRes α) (h : initImpl cfg kwargs = .ok r) (o : Name) (ho : cfg.overflow = some o) :
    ∃ ov, r.overflow = some ov ∧
      (∀ n x, (n, x) ∈ kwargs → overflows cfg n = true → (n, x) ∈ ov) ∧
      (∀ kv ∈ ov, kv ∈ kwargs ∧ overflows cfg kv.1 = true) := by
  unfold initImpl at h
  cases hpl : parentsLoop cfg cfg.ancestors.reverse ([] : Fields (IVal α)) kwargs with
  | error e => rw [hpl] at h; cases h
  | ok res =>
    obtain ⟨fs, kw⟩ := res
    rw [hpl] at h
    cases h
    refine ⟨kw.filter (fun kv => overflows cfg kv.1), by simp [ho], ?_, ?_⟩
    · intro n x hm hov
      rw [List.mem_filter]
      refine ⟨(parentsLoop_kw_keep cfg _ _ _ _ _ hpl n ?_).2 x hm, hov⟩
      intro p _ _
      unfold overflows at hov
      unfold handed
      cases ha : findAttr cfg n with
      | none => rfl
      | some a =>
        rw [ha] at hov
        have hname := (findAttr_mem ha).2
        simp only [initable]
        simp only [Bool.or_eq_true, Bool.not_eq_true', beq_iff_eq] at hov
        rcases hov with hni | hovn
        · simp [hni]
        · simp [hovn, hname]
    · intro kv hkv
      rw [List.mem_filter] at hkv
      exact ⟨parentsLoop_kw_sub cfg _ _ _ _ _ hpl kv hkv.1, hkv.2⟩

theorem toKwargs_keys_nodup (E : Env α) (f : FCall α) (hn : (f.kw.map (·.1)).Nodup) :
    ((toKwargs E f).map (·.1)).Nodup := by
  unfold toKwargs
  rw [List.map_map]
  exact filter_keys_nodup (fun kv : Name × Arg α => kv.1 != "self") hn

/-- **constructor_keywords_reach (caller's side).** For every buildable constructor builder, every
well-formed hierarchy and every call the generated constructor accepts: the implementation does not
fail, and each nested-attribute keyword the caller passed with a value is what the instance holds —
whichever class of the hierarchy, at whatever distance, owns the attribute. -/
theorem constructor_keywords_reach {b : Builder} (hb : Good b) (E : Env α) (cfg : InitCfg)
    (hok : hierOKB cfg = true) (c : Call α) (f : FCall α) (h : wrapper b c = .ok f) :
    ∃ r, runInit E b cfg c = .ok r ∧
      ∀ p ∈ b.virt, p.kind = .kwOnly → p.name ≠ "self" →
        ∀ v a, kwGet c.kw p.name = some v → E.sent v ≠ .missing →
          findAttr cfg p.name = some a → initable cfg a = true →
            getField r.fields p.name = some (.given v) := by
  obtain ⟨r, hr⟩ := init_accepts cfg hok (toKwargs E f)
  refine ⟨r, by simp [runInit, h, hr], ?_⟩
  intro p hp hk hns v a hv hnm ha hi
  have hfw := (forwards_bound hb c f h).2.2.1 p hp hk
  rw [hv] at hfw
  have hmem : (p.name, IVal.given v) ∈ toKwargs E f := by
    unfold toKwargs
    rw [List.mem_map]
    refine ⟨(p.name, Arg.val v), ?_, ?_⟩
    · rw [List.mem_filter]; exact ⟨hfw, by simpa using hns⟩
    · have : (E.sent v == Sent.missing) = false := by simpa using hnm
      simp [toIVal, this]
  exact init_keyword_reaches_impl cfg hok (toKwargs E f)
    (toKwargs_keys_nodup E f (forwarded_keys_nodup hb c f h)) r hr p.name a v ha hi hmem

/-! ### non-vacuity: a three-level chain with a plain class in between

`Base(name, tags) <- Plain (undecorated) <- Mid(level) <- Leaf(size)`; the constructor of `Leaf`. -/

def exChain : InitCfg :=
  { attrs := [⟨"name", true, 3, true⟩, ⟨"tags", true, 3, true⟩, ⟨"level", true, 1, true⟩, ⟨"size", true, 0, false⟩]
    overflow := none
    ancestors := [
      ⟨1, true, ["name", "tags", "level"], none,
        [⟨"self", .posOrKw, false⟩, ⟨"name", .kwOnly, true⟩, ⟨"tags", .kwOnly, true⟩, ⟨"level", .kwOnly, true⟩]⟩,
      ⟨2, false, [], none, []⟩,
      ⟨3, true, ["name", "tags"], none,
        [⟨"self", .posOrKw, false⟩, ⟨"name", .kwOnly, true⟩, ⟨"tags", .kwOnly, true⟩]⟩] }

example : hierOKB exChain = true := by decide

/-- `Leaf(name="n", size=3)`: the grandparent's attribute holds the value given, the others their defaults -/
example : initImpl exChain [("name", IVal.given "n"), ("size", IVal.given "3")] =
    .ok ⟨[("name", .given "n"), ("tags", .dflt "tags"), ("level", .dflt "level"), ("size", .given "3")], none⟩ := rfl

/-- Why the loop must visit EVERY ancestor: with the direct base only (`ancestors.take 1`), the same
call is accepted and the keyword of the grandparent's attribute reaches nothing. -/
theorem direct_bases_only_witness :
    (initImpl { exChain with ancestors := exChain.ancestors.take 1 }
        [("name", IVal.given "n"), ("size", IVal.given "3")]).toOption.bind
      (fun r => getField r.fields "name") = none := by
  decide

/-- `p.update(q, x=…)`: the keyword lands on a copy of the replacement; `q`'s other attributes come along -/
example :
    let E : Env String := ⟨fun _ => .plain, fun _ => true, fun _ => [("x", "q.x"), ("y", "q.y")]⟩
    updateImpl E [("x", "s.x"), ("y", "s.y")]
      ⟨[], [("self", .val "p"), ("_new_value", .val "q"), ("_inplace", .dflt "_inplace"),
            ("_if", .dflt "_if"), ("x", .val "k.x")]⟩ = ⟨.copyOfNew, [("x", "k.x"), ("y", "q.y")]⟩ := rfl

/-! ## WHICH generated method a name resolves to (`Model/C17Reg.lean`)

The theorems above are about ONE generated method, given the class it was built for. The statements below are about
how methods get onto classes and which one a lookup finds: lazy or immediate bootstrap (parents first), `register_method`
(only the class's OWN `__dict__` decides whether a generated method is attached), `MethodDescriptor`s that dissolve on
first use (on the class they were attached to, whichever class they are reached through), lookups on classes, instances
and through `super()`, hand-written methods in class bodies — for EVERY world of classes (`World`: any number of classes,
any bases / MRO, decorated or plain, lazy or not), every history of events (`RReach`: class definitions, bootstraps and
lookups in ANY order, any fuel) and every name. -/

section Registration
open SpecVerif.C17.Reg

/-- A generated method (descriptor or built function) found in the `__dict__` of class `k` was generated FOR `k`:
no history of events installs a parent's (or a subclass's) helper on another class. -/
theorem generated_entry_sits_on_its_class (W : World) (st : RState) (h : RReach W st) (k o : Nat) (n : Name)
    (hd : st.dict k n = some (.desc o) ∨ st.dict k n = some (.fn o)) : o = k := by
  have hi := inv_of_reach W st h
  rcases hd with hd | hd
  · exact inv_desc_owner W st hi k o n hd
  · exact inv_fn_owner W st hi k o n hd

/-- What any lookup finds (which class provides the name, and for which class the method was generated / that it is
hand-written) depends only on WHICH classes exist and WHICH are bootstrapped — not on the order of definitions,
bootstraps and earlier lookups that led there. Stated for an arbitrary search path (class, instance, `super()`). -/
theorem lookup_history_independent (W : World) (s t : RState) (hs : RReach W s) (ht : RReach W t)
    (hd : s.defined = t.defined) (hb : s.booted = t.booted) (mro : List Nat) (n : Name) :
    (lookupFrom s mro n).map (fun ke => (ke.1, ke.2.own)) = (lookupFrom t mro n).map (fun ke => (ke.1, ke.2.own)) := by
  rw [lookupFrom_own W s (inv_of_reach W s hs), lookupFrom_own W t (inv_of_reach W t ht)]
  exact lookupExp_congr W s t hd hb mro n

/-- In particular a lookup — the descriptor dissolving, the method being built — changes nothing any later lookup can
see, except through the bootstrap of a lazily decorated nested type that building the method triggers (hypothesis:
the set of bootstrapped classes is the same afterwards; always so when nested types are bootstrapped already). -/
theorem lookup_does_not_change_resolution (W : World) (fuel : Nat) (st : RState) (h : RReach W st) (via : List Nat)
    (m : Name) (hsame : (accessVia W fuel st via m).1.booted = st.booted ∧ (accessVia W fuel st via m).1.defined = st.defined)
    (c : Nat) (n : Name) :
    resolveOwn W (accessVia W fuel st via m).1 c n = resolveOwn W st c n := by
  have hi := inv_of_reach W st h
  have hi' := inv_accessVia W fuel st via m hi
  unfold resolveOwn resolve
  rw [lookupFrom_own W _ hi', lookupFrom_own W st hi]
  exact lookupExp_congr W _ st hsame.2 hsame.1 _ n

/-- After ANY history: on a bootstrapped class, a name the bootstrap generates for that class (a toplevel helper, a
helper of an attribute the class owns, the constructor) that is not hand-written in its body resolves to the method
generated for THAT class — whatever was looked up on its parents before the class was bootstrapped. -/
theorem bootstrapped_class_resolves_to_own (W : World) (st : RState) (h : RReach W st) (c : Nat) (rest : List Nat)
    (n : Name) (hmro : (W c).mro = c :: rest) (hb : st.booted c = true)
    (hg : (genNames (W c)).contains n = true) (hh : forced n = true ∨ (W c).hand.contains n = false) :
    resolveOwn W st c n = some (c, .gen c) := by
  have hi := inv_of_reach W st h
  unfold resolveOwn resolve
  rw [lookupFrom_own W st hi, hmro]
  unfold lookupExp
  have : expected W st c n = some (.gen c) := by
    unfold expected
    rcases hh with hh | hh <;> simp_all
  rw [this]

/-- A method written by hand in the body of a class is what a lookup on that class finds (no generated helper ever
replaces it; `__spec_class_*` backups excepted). -/
theorem hand_written_wins (W : World) (st : RState) (h : RReach W st) (c : Nat) (rest : List Nat)
    (n : Name) (hmro : (W c).mro = c :: rest) (hd : st.defined c = true)
    (hh : (W c).hand.contains n = true) (hf : forced n = false) :
    resolveOwn W st c n = some (c, .hand) := by
  have hi := inv_of_reach W st h
  unfold resolveOwn resolve
  rw [lookupFrom_own W st hi, hmro]
  unfold lookupExp
  have : expected W st c n = some .hand := by
    unfold expected
    simp_all
  rw [this]

/-- Composition with the per-method theorems: the method a lookup yields on a bootstrapped class under a generated name
is built from the configuration of THAT class (`cfgs c n`: its own nested type, its own attributes), and for a well-formed
configuration its builder satisfies every hypothesis of `accepts_iff_advertised` / `forwards_bound` /
`nested_kw_bijection`. -/
theorem lookup_yields_own_method (cfgs : Nat → Name → MethodCfg) (W : World) (st : RState) (h : RReach W st)
    (c : Nat) (rest : List Nat) (n : Name) (hmro : (W c).mro = c :: rest) (hb : st.booted c = true)
    (hg : (genNames (W c)).contains n = true) (hh : forced n = true ∨ (W c).hand.contains n = false)
    (hok : cfgOK (cfgs c n) = true) :
    builtMethod cfgs W st c n = some (cfgs c n) ∧ ∃ b, builderFor (cfgs c n) = .ok b ∧ Good b := by
  refine ⟨?_, generated_methods_satisfy_hypotheses (cfgs c n) hok⟩
  unfold builtMethod
  rw [bootstrapped_class_resolves_to_own W st h c rest n hmro hb hg hh]

/-! Non-vacuity and the two boundary cases. World: `Base` (0) and `Sub(Base)` (1), both lazily bootstrapped; both
generate `update` and `with_child` (`Sub` re-declares `child`). -/

def exWorld : World := fun i =>
  if i = 0 then ⟨true, true, [], [0], [], ["__init__"], ["update", "with_child"], []⟩
  else ⟨true, true, [0], [1, 0], [], ["__init__"], ["update", "with_child"], []⟩

/-- `Base` is used first (its `with_child` dissolves), THEN the first instance of `Sub` is made -/
def exHistory : List Ev := [.define 0, .define 1, .iget 0 "with_child", .iget 1 "with_child"]

def runEvents (W : World) (fuel : Nat) (evs : List Ev) : RState := evs.foldl (step W fuel) RState.empty

theorem runEvents_reach (W : World) (fuel : Nat) (evs : List Ev) : RReach W (runEvents W fuel evs) := by
  unfold runEvents
  generalize hs : RState.empty = s
  have h0 : RReach W s := hs ▸ RReach.empty
  clear hs
  induction evs generalizing s with
  | nil => exact h0
  | cons e es ih => exact ih _ (RReach.step h0 fuel e)

example : (runEvents exWorld 4 exHistory).booted 1 = true := by decide
example : resolveOwn exWorld (runEvents exWorld 4 exHistory) 1 "with_child" = some (1, .gen 1) := by decide
example : resolveOwn exWorld (runEvents exWorld 4 exHistory) 0 "with_child" = some (0, .gen 0) := by decide

/-- Why `booted` is a hypothesis: a lookup on the CLASS does not bootstrap it; before its bootstrap `Sub.with_child` is
still `Base`'s method (instances cannot see this: making one bootstraps the class). -/
theorem unbootstrapped_subclass_witness :
    resolveOwn exWorld (runEvents exWorld 4 [.define 0, .define 1, .boot 0]) 1 "with_child" = some (0, .gen 0) := by
  decide

/-- Building a method bootstraps the lazily decorated nested type it exposes: `Child` (0) is a lazy spec class,
`Host` (1) has `child: Child`; the first `Host().with_child` bootstraps `Child`, `Host().update` does not. -/
def exLazyType : World := fun i =>
  if i = 0 then ⟨true, true, [], [0], [], ["__init__"], ["update"], []⟩
  else ⟨true, true, [], [1], [], ["__init__"], ["update", "with_child"], [("with_child", 0)]⟩

example : (runEvents exLazyType 4 [.define 0, .define 1, .iget 1 "update"]).booted 0 = false := by decide
example : (runEvents exLazyType 4 [.define 0, .define 1, .iget 1 "with_child"]).booted 0 = true := by decide

end Registration

end SpecVerif.Props.C17
